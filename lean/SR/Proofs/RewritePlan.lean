import SR.Util.Rewrite
/-! Helper lemmas for C10 (a): `planOf` is the stable sorting permutation; `reindexO` places element `i` at
position `plan[i]`. -/
namespace SR.RW
open List SR.DNM

/-! ### sorting by a key that is a permutation of `0..n-1` -/

theorem keyLe_trans {α} (key : α → Nat) :
    ∀ (a b c : α), decide (key a ≤ key b) = true → decide (key b ≤ key c) = true → decide (key a ≤ key c) = true := by
  intro a b c; simp; exact Nat.le_trans
theorem keyLe_total {α} (key : α → Nat) :
    ∀ (a b : α), (decide (key a ≤ key b) || decide (key b ≤ key a)) = true := by
  intro a b; simp; exact Nat.le_total _ _

theorem sort_key_range {α} (key : α → Nat) (l : List α) (hperm : (l.map key).Perm (List.range l.length)) :
    (l.mergeSort (fun a b => decide (key a ≤ key b))).map key = List.range l.length := by
  have hp : ((l.mergeSort (fun a b => decide (key a ≤ key b))).map key).Perm (List.range l.length) :=
    ((mergeSort_perm l _).map key).trans hperm
  have hs : ((l.mergeSort (fun a b => decide (key a ≤ key b))).map key).Pairwise (· ≤ ·) := by
    rw [List.pairwise_map]
    exact (pairwise_mergeSort (keyLe_trans key) (keyLe_total key) l).imp (by intro a b; simp)
  exact Perm.eq_of_pairwise (le := (· ≤ ·)) (fun a b _ _ h1 h2 => Nat.le_antisymm h1 h2) hs pairwise_le_range hp

/-- the element with key `k` ends up at position `k` -/
theorem sort_key_get {α} (key : α → Nat) (l : List α) (hperm : (l.map key).Perm (List.range l.length))
    (x : α) (hx : x ∈ l) : (l.mergeSort (fun a b => decide (key a ≤ key b)))[key x]? = some x := by
  have hr := sort_key_range key l hperm
  have hm : x ∈ l.mergeSort (fun a b => decide (key a ≤ key b)) := (mergeSort_perm l _).symm.subset hx
  obtain ⟨j, hj, hjx⟩ := List.getElem_of_mem hm
  have hk : ((l.mergeSort (fun a b => decide (key a ≤ key b))).map key)[j]'(by simpa using hj) = j := by
    simp only [hr]; simp
  simp only [List.getElem_map, hjx] at hk
  rw [hk, List.getElem?_eq_getElem hj, hjx]

/-! ### the plan -/

section plan
variable {V : Type} (le : V → V → Bool)

/-- `combined` after the first (stable, by value) sort: the sorting permutation with the values attached -/
def sortedIdx (vs : List V) : List (Nat × V) :=
  ((List.range vs.length).zip vs).mergeSort (fun a b => le a.2 b.2)

theorem sortedIdx_perm (vs : List V) : (sortedIdx le vs).Perm ((List.range vs.length).zip vs) :=
  mergeSort_perm _ _

theorem sortedIdx_length (vs : List V) : (sortedIdx le vs).length = vs.length := by
  rw [(sortedIdx_perm le vs).length_eq]; simp

theorem sortedIdx_fst_perm (vs : List V) : ((sortedIdx le vs).map (·.1)).Perm (List.range vs.length) := by
  have := (sortedIdx_perm le vs).map (·.1)
  rwa [List.map_fst_zip (by simp)] at this

theorem mem_zip_range {vs : List V} {p : Nat × V} (h : p ∈ (List.range vs.length).zip vs) :
    vs[p.1]? = some p.2 := by
  obtain ⟨i, hi, hip⟩ := List.getElem_of_mem h
  have hi' : i < vs.length := by simpa using hi
  rw [List.getElem_zip] at hip
  rw [← hip]; simp [hi']

theorem planOf_eq (vs : List V) :
    planOf le vs = (((List.range (sortedIdx le vs).length).zip (sortedIdx le vs)).mergeSort
      (fun a b => decide (a.2.1 ≤ b.2.1))).map (·.1) := rfl

theorem planOf_perm (vs : List V) : (planOf le vs).Perm (List.range vs.length) := by
  rw [planOf_eq]
  have h := (mergeSort_perm ((List.range (sortedIdx le vs).length).zip (sortedIdx le vs))
    (fun a b => decide (a.2.1 ≤ b.2.1))).map (·.1)
  rw [List.map_fst_zip (by simp)] at h
  exact h.trans (by rw [sortedIdx_length])

theorem planOf_length (vs : List V) : (planOf le vs).length = vs.length := by
  rw [(planOf_perm le vs).length_eq]; simp

/-- (P1) the entry sorted to position `k` has its original index mapped to `k` -/
theorem planOf_at_sorted (vs : List V) (k : Nat) (hk : k < (sortedIdx le vs).length) :
    (planOf le vs)[((sortedIdx le vs)[k]).1]? = some k := by
  rw [planOf_eq]
  let pairs := (List.range (sortedIdx le vs).length).zip (sortedIdx le vs)
  have hlen : pairs.length = (sortedIdx le vs).length := by simp [pairs]
  have hkeys : (pairs.map (fun p => p.2.1)).Perm (List.range pairs.length) := by
    have : pairs.map (fun p => p.2.1) = (sortedIdx le vs).map (·.1) := by
      have := List.map_snd_zip (l₁ := List.range (sortedIdx le vs).length) (l₂ := sortedIdx le vs) (by simp)
      have e : pairs.map (fun p => p.2.1) = (pairs.map (fun p => p.2)).map (·.1) := by
        rw [List.map_map]; rfl
      rw [e, show (List.map (fun (p : Nat × Nat × V) => p.2) pairs) = sortedIdx le vs from this]
    rw [this, hlen, sortedIdx_length]
    exact sortedIdx_fst_perm le vs
  have hx : (k, (sortedIdx le vs)[k]) ∈ pairs := by
    rw [List.mem_iff_getElem]
    exact ⟨k, by simpa [pairs] using hk, by simp [pairs]⟩
  have := sort_key_get (fun (p : Nat × Nat × V) => p.2.1) pairs hkeys _ hx
  simp only [List.getElem?_map]
  rw [this]; rfl

/-- (P2) for every index `i` the plan gives the position of `(i, vs[i])` in the sorted list -/
theorem planOf_spec (vs : List V) (i : Nat) (hi : i < vs.length) :
    ∃ k, ∃ hk : k < (sortedIdx le vs).length,
      (planOf le vs)[i]? = some k ∧ (sortedIdx le vs)[k] = (i, vs[i]) := by
  have hmem : i ∈ (sortedIdx le vs).map (·.1) :=
    (sortedIdx_fst_perm le vs).symm.subset (List.mem_range.2 hi)
  obtain ⟨p, hp, hpi⟩ := List.mem_map.1 hmem
  obtain ⟨k, hk, hkp⟩ := List.getElem_of_mem hp
  refine ⟨k, hk, ?_, ?_⟩
  · have := planOf_at_sorted le vs k hk
    rw [hkp, hpi] at this; exact this
  · have hz := mem_zip_range ((sortedIdx_perm le vs).subset hp)
    rw [hpi] at hz
    rw [hkp]
    have : vs[i]? = some vs[i] := List.getElem?_eq_getElem hi
    rw [this] at hz
    cases p with
    | mk a b => simp at hpi; simp at hz; simp [hpi, hz]

theorem pair_sublist_of_lt {α} : ∀ (l : List α) (i j : Nat) (hij : i < j) (hj : j < l.length),
    [l[i]'(by omega), l[j]] <+ l
  | [], _, _, _, hj => by simp at hj
  | x :: xs, 0, j + 1, _, hj => by
    simp only [List.getElem_cons_zero, List.getElem_cons_succ]
    exact List.Sublist.cons_cons x (List.singleton_sublist.2 (List.getElem_mem _))
  | x :: xs, i + 1, j + 1, hij, hj => by
    simp only [List.getElem_cons_succ]
    exact List.Sublist.cons x (pair_sublist_of_lt xs i j (by omega) (by simpa using hj))

theorem sublist_pair_idx {α} {a b : α} : ∀ {l : List α}, [a, b] <+ l →
    ∃ p q : Nat, p < q ∧ l[p]? = some a ∧ l[q]? = some b
  | [], h => by cases h
  | x :: xs, h => by
    cases h with
    | cons _ h' =>
      obtain ⟨p, q, hpq, hp, hq⟩ := sublist_pair_idx h'
      exact ⟨p + 1, q + 1, by omega, by simpa using hp, by simpa using hq⟩
    | cons_cons _ h' =>
      have hb : b ∈ xs := List.singleton_sublist.1 h'
      obtain ⟨q, hq, hqb⟩ := List.getElem_of_mem hb
      exact ⟨0, q + 1, by omega, by simp, by simp [hq, hqb]⟩

theorem sortedIdx_pairwise (htr : ∀ a b c : V, le a b = true → le b c = true → le a c = true)
    (hto : ∀ a b : V, (le a b || le b a) = true) (vs : List V) : (sortedIdx le vs).Pairwise (fun a b => le a.2 b.2 = true) :=
  pairwise_mergeSort (le := fun (a b : Nat × V) => le a.2 b.2)
    (fun a b c => htr a.2 b.2 c.2) (fun a b => hto a.2 b.2) _

/-- the plan is strictly monotone on strictly ordered values … -/
theorem planOf_sorted (htr : ∀ a b c : V, le a b = true → le b c = true → le a c = true)
    (hto : ∀ a b : V, (le a b || le b a) = true) (vs : List V) (i j : Nat) (hi : i < vs.length) (hj : j < vs.length)
    (hlt : le vs[j] vs[i] = false) :
    ∃ pi pj, (planOf le vs)[i]? = some pi ∧ (planOf le vs)[j]? = some pj ∧ pi < pj := by
  obtain ⟨ki, hki, e1, c1⟩ := planOf_spec le vs i hi
  obtain ⟨kj, hkj, e2, c2⟩ := planOf_spec le vs j hj
  refine ⟨ki, kj, e1, e2, ?_⟩
  have pw := List.pairwise_iff_getElem.1 (sortedIdx_pairwise le htr hto vs)
  rcases Nat.lt_trichotomy ki kj with h | h | h
  · exact h
  · subst h
    rw [c1] at c2
    have : vs[i] = vs[j] := by injection c2
    rw [this] at hlt
    have := hto vs[j] vs[j]
    simp [hlt] at this
  · have := pw kj ki hkj hki h
    rw [c1, c2] at this
    simp [hlt] at this

/-- … and keeps the original order among ties (and generally whenever `vs[i] ≤ vs[j]`, `i < j`): stability -/
theorem planOf_stable (htr : ∀ a b c : V, le a b = true → le b c = true → le a c = true)
    (hto : ∀ a b : V, (le a b || le b a) = true) (vs : List V) (i j : Nat) (hij : i < j) (hj : j < vs.length)
    (hle : le (vs[i]'(by omega)) vs[j] = true) :
    ∃ pi pj, (planOf le vs)[i]? = some pi ∧ (planOf le vs)[j]? = some pj ∧ pi < pj := by
  have hi : i < vs.length := by omega
  obtain ⟨ki, hki, e1, c1⟩ := planOf_spec le vs i hi
  obtain ⟨kj, hkj, e2, c2⟩ := planOf_spec le vs j hj
  refine ⟨ki, kj, e1, e2, ?_⟩
  -- [(i, vs i), (j, vs j)] is a sublist of the enumeration, hence (stability) of the sorted list
  have hsub : [(i, vs[i]), (j, vs[j])] <+ (List.range vs.length).zip vs := by
    have := pair_sublist_of_lt ((List.range vs.length).zip vs) i j hij (by simpa using hj)
    simpa using this
  have hsub' : [(i, vs[i]), (j, vs[j])] <+ sortedIdx le vs :=
    pair_sublist_mergeSort (le := fun (a b : Nat × V) => le a.2 b.2)
      (fun a b c => htr a.2 b.2 c.2) (fun a b => hto a.2 b.2) hle hsub
  obtain ⟨p, q, hpq, hp, hq⟩ := sublist_pair_idx hsub'
  -- positions are determined by the original index (P1)
  have hp' : p < (sortedIdx le vs).length := by
    rcases Nat.lt_or_ge p (sortedIdx le vs).length with h | h
    · exact h
    · rw [List.getElem?_eq_none h] at hp; cases hp
  have hq' : q < (sortedIdx le vs).length := by
    rcases Nat.lt_or_ge q (sortedIdx le vs).length with h | h
    · exact h
    · rw [List.getElem?_eq_none h] at hq; cases hq
  have a1 := planOf_at_sorted le vs p hp'
  have a2 := planOf_at_sorted le vs q hq'
  rw [List.getElem?_eq_getElem hp'] at hp
  rw [List.getElem?_eq_getElem hq'] at hq
  injection hp with hp; injection hq with hq
  rw [hp] at a1; rw [hq] at a2
  simp only at a1 a2
  rw [e1] at a1; rw [e2] at a2
  injection a1 with a1; injection a2 with a2
  omega

end plan

end SR.RW
