import SR.Util.HasDisc
/-! Helper lemmas for the `HasDiscoveries::matches` theorems of C12. -/
namespace SR.HasDisc

/-- two duplicate-free lists, one contained in the other and not shorter: same elements -/
theorem subset_of_length_le {α} {l₁ l₂ : List α} (h1 : l₁.Nodup) (hs : l₁ ⊆ l₂)
    (hl : l₂.length ≤ l₁.length) : l₂ ⊆ l₁ := by
  intro a ha
  apply Classical.byContradiction
  intro hna
  have hnd : (a :: l₁).Nodup := List.nodup_cons.2 ⟨hna, h1⟩
  have hsub : (a :: l₁) ⊆ l₂ := by
    intro b hb
    rcases List.mem_cons.1 hb with rfl | hb
    · exact ha
    · exact hs hb
  have := List.Nodup.length_le_of_subset hnd hsub
  simp at this
  omega

theorem length_eq_iff_subset {α} {l₁ l₂ : List α} (h1 : l₁.Nodup) (h2 : l₂.Nodup) (hs : l₁ ⊆ l₂) :
    l₁.length = l₂.length ↔ l₂ ⊆ l₁ := by
  constructor
  · intro h; exact subset_of_length_le h1 hs (by omega)
  · intro h
    have a := List.Nodup.length_le_of_subset h1 hs
    have b := List.Nodup.length_le_of_subset h2 h
    omega

theorem contains_iff (D : List Nat) (n : Nat) : D.contains n = true ↔ n ∈ D := by simp

end SR.HasDisc
