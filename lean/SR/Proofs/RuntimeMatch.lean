import SR.Drv.C17
import SR.Proofs.Runtime
/-!
Helper lemmas for `SR/Props/C17Match.lean` (builder W-Z8): the greedy datagram matching of the
runtime oracle `o-trace` (`SR.Drv.C17.eventsOf` / `takeFirst`).

Part 1 is generic (any pool element type `α`, any receive type `ρ`, any feasibility test
`ok : ρ → α → Bool`): the greedy pass `greedy`, the declarative notion `Matching`, soundness, and the
exchange argument (`greedy_exchange`).
-/
namespace SR.RuntimeMatch
open SR.Drv.C17 (takeFirst)

variable {α ρ : Type}

/-! ### `takeFirst` -/

theorem takeFirst_none {p : α → Bool} {l : List α} :
    takeFirst p l = none ↔ ∀ x ∈ l, p x = false := by
  induction l with
  | nil => simp [takeFirst]
  | cons a r ih =>
    by_cases h : p a = true
    · simp [takeFirst, h]
    · have h' : p a = false := by simpa using h
      simp [takeFirst, h', ih]

theorem takeFirst_some {p : α → Bool} {l : List α} {d : α} {l' : List α}
    (h : takeFirst p l = some (d, l')) :
    ∃ pre post, l = pre ++ d :: post ∧ l' = pre ++ post ∧ p d = true ∧ ∀ x ∈ pre, p x = false := by
  induction l generalizing l' with
  | nil => simp [takeFirst] at h
  | cons a r ih =>
    by_cases ha : p a = true
    · simp only [takeFirst, ha, if_true, Option.some.injEq, Prod.mk.injEq] at h
      obtain ⟨rfl, rfl⟩ := h
      exact ⟨[], r, rfl, rfl, ha, by simp⟩
    · have ha' : p a = false := by simpa using ha
      simp only [takeFirst, ha', Bool.false_eq_true, if_false, Option.map_eq_some_iff] at h
      obtain ⟨⟨y, r'⟩, hy, he⟩ := h
      simp only [Prod.mk.injEq] at he
      obtain ⟨rfl, rfl⟩ := he
      obtain ⟨pre, post, h1, h2, h3, h4⟩ := ih hy
      refine ⟨a :: pre, post, by simp [h1], by simp [h2], h3, ?_⟩
      intro x hx
      rcases List.mem_cons.1 hx with rfl | hx
      · exact ha'
      · exact h4 x hx

theorem takeFirst_of_split {p : α → Bool} {pre post : List α} {d : α}
    (hd : p d = true) (hpre : ∀ x ∈ pre, p x = false) :
    takeFirst p (pre ++ d :: post) = some (d, pre ++ post) := by
  induction pre with
  | nil => simp [takeFirst, hd]
  | cons a r ih =>
    have ha : p a = false := hpre a (by simp)
    have := ih (fun x hx => hpre x (by simp [hx]))
    simp [takeFirst, ha, this]

theorem takeFirst_isSome {p : α → Bool} {l : List α} {c : α} (hc : c ∈ l) (hp : p c = true) :
    ∃ d l', takeFirst p l = some (d, l') := by
  cases h : takeFirst p l with
  | none => rw [takeFirst_none] at h; rw [h c hc] at hp; cases hp
  | some x => exact ⟨x.1, x.2, rfl⟩

/-! ### the greedy pass and the declarative matching -/

/-- the greedy pass of `eventsOf`, for an arbitrary feasibility test: every receive, in log order,
takes the first feasible entry out of the pool; result = (chosen entries in log order, left-over pool) -/
def greedy (ok : ρ → α → Bool) : List α → List ρ → Option (List α × List α)
  | pool, [] => some ([], pool)
  | pool, r :: rs =>
    match takeFirst (ok r) pool with
    | none => none
    | some (d, pool') => (greedy ok pool' rs).map fun (ch, left) => (d :: ch, left)

/-- `ch` lists, receive by receive, a feasible pool entry -/
def Paired (ok : ρ → α → Bool) : List ρ → List α → Prop
  | [], [] => True
  | r :: rs, d :: ds => ok r d = true ∧ Paired ok rs ds
  | _, _ => False

/-- A MATCHING of the receives `rs` into the pool: the pool splits, as a multiset, into the entries `ch`
assigned to the receives (the `j`-th receive gets the `j`-th element of `ch`, which is feasible for it) and the
left-over entries `left`.  Being a split of the multiset is injectivity of the assignment: no pool entry is
used twice (`assignment_matching` below derives it from an injective index assignment). -/
structure Matching (ok : ρ → α → Bool) (pool : List α) (rs : List ρ) (ch left : List α) : Prop where
  paired : Paired ok rs ch
  split : (ch ++ left).Perm pool

theorem paired_length {ok : ρ → α → Bool} : ∀ {rs : List ρ} {ch : List α}, Paired ok rs ch → ch.length = rs.length
  | [], [], _ => rfl
  | _ :: _, _ :: _, h => by simp [paired_length h.2]
  | [], _ :: _, h => h.elim
  | _ :: _, [], h => h.elim

theorem paired_append {ok : ρ → α → Bool} : ∀ {rs₁ : List ρ} {ch₁ : List α} {rs₂ : List ρ} {ch₂ : List α},
    Paired ok rs₁ ch₁ → Paired ok rs₂ ch₂ → Paired ok (rs₁ ++ rs₂) (ch₁ ++ ch₂)
  | [], [], _, _, _, h => h
  | _ :: _, _ :: _, _, _, h₁, h₂ => ⟨h₁.1, paired_append h₁.2 h₂⟩
  | [], _ :: _, _, _, h, _ => h.elim
  | _ :: _, [], _, _, h, _ => h.elim

/-- a chosen list that is an append splits the receives accordingly -/
theorem paired_split {ok : ρ → α → Bool} : ∀ {rs : List ρ} {s : List α} {d : α} {t : List α},
    Paired ok rs (s ++ d :: t) →
    ∃ rs₁ r' rs₂, rs = rs₁ ++ r' :: rs₂ ∧ Paired ok rs₁ s ∧ ok r' d = true ∧ Paired ok rs₂ t
  | [], [], _, _, h => h.elim
  | [], _ :: _, _, _, h => h.elim
  | r :: rs, [], d, t, h => ⟨[], r, rs, rfl, trivial, h.1, h.2⟩
  | r :: rs, a :: s, d, t, h => by
    obtain ⟨rs₁, r', rs₂, e, h1, h2, h3⟩ := paired_split (s := s) h.2
    exact ⟨r :: rs₁, r', rs₂, by simp [e], ⟨h.1, h1⟩, h2, h3⟩

/-- two lists with permuted conses: same head, or each contains the other's head -/
theorem perm_cons_cases {a b : α} {l₁ l₂ : List α} (h : (a :: l₁).Perm (b :: l₂)) :
    (a = b ∧ l₁.Perm l₂) ∨ ∃ l, l₁.Perm (b :: l) ∧ l₂.Perm (a :: l) := by
  have ha : a ∈ b :: l₂ := h.mem_iff.1 (by simp)
  rcases List.mem_cons.1 ha with rfl | ha
  · exact .inl ⟨rfl, h.cons_inv⟩
  · obtain ⟨s, t, rfl⟩ := List.append_of_mem ha
    refine .inr ⟨s ++ t, ?_, List.perm_middle⟩
    have h1 : (a :: l₁).Perm (a :: b :: (s ++ t)) :=
      h.trans ((List.Perm.cons b List.perm_middle).trans (List.Perm.swap a b _))
    exact h1.cons_inv

/-! ### soundness -/

theorem greedy_sound {ok : ρ → α → Bool} : ∀ {rs : List ρ} {pool ch left : List α},
    greedy ok pool rs = some (ch, left) → Matching ok pool rs ch left
  | [], pool, ch, left, h => by
    simp only [greedy, Option.some.injEq, Prod.mk.injEq] at h
    obtain ⟨rfl, rfl⟩ := h
    exact ⟨trivial, by simp⟩
  | r :: rs, pool, ch, left, h => by
    simp only [greedy] at h
    cases ht : takeFirst (ok r) pool with
    | none => simp [ht] at h
    | some x =>
      obtain ⟨d, pool'⟩ := x
      simp only [ht, Option.map_eq_some_iff] at h
      obtain ⟨⟨ch', left'⟩, hg, he⟩ := h
      simp only [Prod.mk.injEq] at he
      obtain ⟨rfl, rfl⟩ := he
      obtain ⟨pre, post, rfl, rfl, hd, _⟩ := takeFirst_some ht
      have ih := greedy_sound hg
      refine ⟨⟨hd, ih.paired⟩, ?_⟩
      have : (d :: (ch' ++ left')).Perm (d :: (pre ++ post)) := List.Perm.cons d ih.split
      exact this.trans List.perm_middle.symm

/-- the greedy pass takes, for every receive, the FIRST feasible entry of what is left of the pool -/
theorem greedy_cons {ok : ρ → α → Bool} {r : ρ} {rs : List ρ} {pool ch left : List α}
    (h : greedy ok pool (r :: rs) = some (ch, left)) :
    ∃ pre d post ch', pool = pre ++ d :: post ∧ ch = d :: ch' ∧ ok r d = true ∧ (∀ x ∈ pre, ok r x = false) ∧
      greedy ok (pre ++ post) rs = some (ch', left) := by
  simp only [greedy] at h
  cases ht : takeFirst (ok r) pool with
  | none => simp [ht] at h
  | some x =>
    obtain ⟨d, pool'⟩ := x
    simp only [ht, Option.map_eq_some_iff] at h
    obtain ⟨⟨ch', left'⟩, hg, he⟩ := h
    simp only [Prod.mk.injEq] at he
    obtain ⟨rfl, rfl⟩ := he
    obtain ⟨pre, post, rfl, rfl, hd, hpre⟩ := takeFirst_some ht
    exact ⟨pre, d, post, ch', rfl, rfl, hd, hpre, hg⟩

/-! ### completeness: the exchange argument -/

/-- EXCHANGE CONDITION on the log: if `r` precedes `r'`, and `c`, `d` are both feasible for `r`, and `d` is
feasible for `r'`, then so is `c`.  (For "same key and sent no later than received" this is: same-key receives
are logged in time order.) -/
def Exch (ok : ρ → α → Bool) (rs : List ρ) : Prop :=
  rs.Pairwise fun r r' => ∀ c d, ok r c = true → ok r d = true → ok r' d = true → ok r' c = true

/-- DEADLINE CONDITION on the pool: among entries that can stand in for each other (feasible for a common
receive), one that MUST be delivered is never preceded by one that need not -/
def MustPrefix (ok : ρ → α → Bool) (must : α → Bool) (pool : List α) : Prop :=
  pool.Pairwise fun a b => ∀ r, ok r a = true → ok r b = true → must b = true → must a = true

/-- one step of the exchange argument -/
theorem exchange_step {ok : ρ → α → Bool} {must : α → Bool} {pool : List α} {r : ρ} {rs : List ρ}
    {ch left : List α}
    (hE : ∀ r' ∈ rs, ∀ c d, ok r c = true → ok r d = true → ok r' d = true → ok r' c = true)
    (hP : MustPrefix ok must pool)
    (hM : Matching ok pool (r :: rs) ch left) (hL : ∀ x ∈ left, must x = false) :
    ∃ d pool', takeFirst (ok r) pool = some (d, pool') ∧ MustPrefix ok must pool' ∧
      ∃ ch' left', Matching ok pool' rs ch' left' ∧ ∀ x ∈ left', must x = false := by
  obtain ⟨hp, hs⟩ := hM
  cases ch with
  | nil => exact hp.elim
  | cons c ch' =>
    obtain ⟨hc, hp'⟩ := hp
    have hcpool : c ∈ pool := hs.mem_iff.1 (by simp)
    obtain ⟨d, pool', ht⟩ := takeFirst_isSome hcpool hc
    obtain ⟨pre, post, rfl, rfl, hd, hpre⟩ := takeFirst_some ht
    have hP' : MustPrefix ok must (pre ++ post) :=
      List.Pairwise.sublist (List.Sublist.append_left (List.sublist_cons_self d post) pre) hP
    refine ⟨d, pre ++ post, ht, hP', ?_⟩
    have h1 : (c :: (ch' ++ left)).Perm (d :: (pre ++ post)) := by
      have : (c :: ch' ++ left).Perm (pre ++ d :: post) := hs
      exact this.trans List.perm_middle
    rcases perm_cons_cases h1 with ⟨rfl, h2⟩ | ⟨Y, h2, h3⟩
    · exact ⟨ch', left, ⟨hp', h2⟩, hL⟩
    · have hdm : d ∈ ch' ++ left := h2.mem_iff.2 (by simp)
      rcases List.mem_append.1 hdm with hdc | hdl
      · -- `d` is assigned to a later receive `r'`: give `c` to `r'` instead
        obtain ⟨s, t, rfl⟩ := List.append_of_mem hdc
        obtain ⟨rs₁, r', rs₂, rfl, p1, p2, p3⟩ := paired_split hp'
        have hr'c : ok r' c = true := hE r' (by simp) c d hc hd p2
        refine ⟨s ++ c :: t, left, ⟨paired_append p1 ⟨hr'c, p3⟩, ?_⟩, hL⟩
        have e1 : ((s ++ d :: t) ++ left).Perm (d :: (s ++ (t ++ left))) := by
          rw [List.append_assoc, List.cons_append]; exact List.perm_middle
        have hY : (s ++ (t ++ left)).Perm Y := (e1.symm.trans h2).cons_inv
        have e2 : ((s ++ c :: t) ++ left).Perm (c :: (s ++ (t ++ left))) := by
          rw [List.append_assoc, List.cons_append]; exact List.perm_middle
        exact e2.trans ((List.Perm.cons c hY).trans h3.symm)
      · -- `d` is left over: leave `c` instead
        obtain ⟨s, t, rfl⟩ := List.append_of_mem hdl
        have e1 : (ch' ++ (s ++ d :: t)).Perm (d :: (ch' ++ (s ++ t))) := by
          rw [← List.append_assoc, ← List.append_assoc]; exact List.perm_middle
        have hY : (ch' ++ (s ++ t)).Perm Y := (e1.symm.trans h2).cons_inv
        refine ⟨ch', c :: (s ++ t), ⟨hp', ?_⟩, ?_⟩
        · exact List.perm_middle.trans ((List.Perm.cons c hY).trans h3.symm)
        · -- `c` comes after `d` in the pool, so it need not be delivered either
          have hcm : c ∈ pre ++ post := h3.mem_iff.2 (by simp)
          have hcpost : c ∈ post := by
            rcases List.mem_append.1 hcm with h | h
            · rw [hpre c h] at hc; cases hc
            · exact h
          have hdc : ∀ r, ok r d = true → ok r c = true → must c = true → must d = true := by
            have := (List.pairwise_append.1 hP).2.1
            exact (List.pairwise_cons.1 this).1 c hcpost
          have hdmust : must d = false := hL d (by simp)
          intro x hx
          rcases List.mem_cons.1 hx with rfl | hx
          · cases hm : must x with
            | false => rfl
            | true => rw [hdc r hd hc hm] at hdmust; cases hdmust
          · exact hL x (by
              rcases List.mem_append.1 hx with h | h
              · exact List.mem_append.2 (.inl h)
              · exact List.mem_append.2 (.inr (List.mem_cons_of_mem _ h)))

/-- COMPLETENESS AND OPTIMALITY of the greedy pass: if SOME matching exists whose left-over contains no entry
that must be delivered, the log satisfies the exchange condition and the pool the deadline condition, then the greedy
pass succeeds and its own left-over contains no entry that must be delivered -/
theorem greedy_exchange {ok : ρ → α → Bool} {must : α → Bool} : ∀ {rs : List ρ} {pool ch left : List α},
    Exch ok rs → MustPrefix ok must pool → Matching ok pool rs ch left → (∀ x ∈ left, must x = false) →
    ∃ chg leftg, greedy ok pool rs = some (chg, leftg) ∧ ∀ x ∈ leftg, must x = false
  | [], pool, ch, left, _, _, hM, hL => by
    refine ⟨[], pool, rfl, ?_⟩
    cases ch with
    | nil =>
      intro x hx
      exact hL x (hM.split.mem_iff.2 hx)
    | cons c ch' => exact hM.paired.elim
  | r :: rs, pool, ch, left, hE, hP, hM, hL => by
    have hE' := List.pairwise_cons.1 hE
    obtain ⟨d, pool', ht, hP', ch', left', hM', hL'⟩ := exchange_step hE'.1 hP hM hL
    obtain ⟨chg, leftg, hg, hlg⟩ := greedy_exchange hE'.2 hP' hM' hL'
    exact ⟨d :: chg, leftg, by simp [greedy, ht, hg], hlg⟩

theorem mustPrefix_never (ok : ρ → α → Bool) : ∀ pool : List α, MustPrefix ok (fun _ => false) pool
  | [] => List.Pairwise.nil
  | _ :: p => List.Pairwise.cons (fun _ _ _ _ _ h => by cases h) (mustPrefix_never ok p)

/-- completeness alone (nothing is demanded of the pool) -/
theorem greedy_complete {ok : ρ → α → Bool} {rs : List ρ} {pool ch left : List α}
    (hE : Exch ok rs) (hM : Matching ok pool rs ch left) : ∃ chg leftg, greedy ok pool rs = some (chg, leftg) := by
  have hP : MustPrefix ok (fun _ => false) pool := mustPrefix_never ok pool
  obtain ⟨chg, leftg, h, _⟩ := greedy_exchange hE hP hM (fun _ _ => rfl)
  exact ⟨chg, leftg, h⟩


/-! ### injective index assignments are matchings, and conversely -/

/-- receive by receive, `f` names a pool POSITION holding a feasible entry -/
def PairedIdx (ok : ρ → α → Bool) (pool : List α) : List ρ → List Nat → Prop
  | [], [] => True
  | r :: rs, i :: f => (∃ d, pool[i]? = some d ∧ ok r d = true) ∧ PairedIdx ok pool rs f
  | _, _ => False

/-- an INJECTIVE ASSIGNMENT of the receives to pool positions -/
def Assignment (ok : ρ → α → Bool) (pool : List α) (rs : List ρ) (f : List Nat) : Prop :=
  PairedIdx ok pool rs f ∧ f.Nodup

def shift (f : List Nat) : List Nat := f.filterMap fun i => match i with | 0 => none | k + 1 => some k

theorem shift_nodup {f : List Nat} (h : f.Nodup) : (shift f).Nodup := by
  unfold shift List.Nodup
  rw [List.pairwise_filterMap]
  refine List.Pairwise.imp ?_ h
  intro a b hab x hx y hy
  cases a <;> cases b <;> simp at hx hy
  subst hx; subst hy
  omega

theorem pick_no_zero (a : α) (p : List α) : ∀ f : List Nat, 0 ∉ f →
    f.filterMap (fun i => (a :: p)[i]?) = (shift f).filterMap (fun i => p[i]?)
  | [], _ => rfl
  | 0 :: f, h => by simp at h
  | (k + 1) :: f, h => by
    have ih := pick_no_zero a p f (by intro h0; exact h (by simp [h0]))
    cases hk : p[k]? <;> simp [shift, hk] <;> simpa [shift] using ih

theorem pick_zero (a : α) (p : List α) : ∀ f : List Nat, f.Nodup → 0 ∈ f →
    (f.filterMap (fun i => (a :: p)[i]?)).Perm (a :: (shift f).filterMap (fun i => p[i]?))
  | [], _, h => by simp at h
  | 0 :: f, hn, _ => by
    have h0 : 0 ∉ f := (List.nodup_cons.1 hn).1
    have := pick_no_zero a p f h0
    simp only [List.filterMap_cons, List.getElem?_cons_zero, shift]
    rw [this]
    simp [shift]
  | (k + 1) :: f, hn, h => by
    have h0 : 0 ∈ f := by simpa using h
    have ih := pick_zero a p f (List.nodup_cons.1 hn).2 h0
    cases hk : p[k]? with
    | none => simpa [shift, List.filterMap_cons, hk] using ih
    | some d =>
      have : (d :: f.filterMap (fun i => (a :: p)[i]?)).Perm (d :: a :: (shift f).filterMap (fun i => p[i]?)) :=
        List.Perm.cons d ih
      have h2 := this.trans (List.Perm.swap a d _)
      simpa [shift, List.filterMap_cons, hk] using h2

/-- the entries at pairwise different positions form a sub-multiset of the pool -/
theorem pick_perm : ∀ (pool : List α) (f : List Nat), f.Nodup →
    ∃ left, (f.filterMap (fun i => pool[i]?) ++ left).Perm pool
  | [], f, _ => ⟨[], by simp⟩
  | a :: p, f, hn => by
    obtain ⟨left', ih⟩ := pick_perm p (shift f) (shift_nodup hn)
    by_cases h0 : 0 ∈ f
    · refine ⟨left', ?_⟩
      have := (pick_zero a p f hn h0).append_right left'
      exact this.trans (List.Perm.cons a ih)
    · refine ⟨a :: left', ?_⟩
      rw [pick_no_zero a p f h0]
      exact List.perm_middle.trans (List.Perm.cons a ih)

theorem pairedIdx_paired {ok : ρ → α → Bool} {pool : List α} : ∀ {rs : List ρ} {f : List Nat},
    PairedIdx ok pool rs f → Paired ok rs (f.filterMap (fun i => pool[i]?))
  | [], [], _ => trivial
  | [], _ :: _, h => h.elim
  | _ :: _, [], h => h.elim
  | r :: rs, i :: f, h => by
    obtain ⟨⟨d, hd, hok⟩, h2⟩ := h
    simp only [List.filterMap_cons, hd]
    exact ⟨hok, pairedIdx_paired h2⟩

/-- an injective assignment of receives to pool positions is a matching -/
theorem assignment_matching {ok : ρ → α → Bool} {pool : List α} {rs : List ρ} {f : List Nat}
    (h : Assignment ok pool rs f) : ∃ left, Matching ok pool rs (f.filterMap (fun i => pool[i]?)) left := by
  obtain ⟨left, hl⟩ := pick_perm pool f h.2
  exact ⟨left, pairedIdx_paired h.1, hl⟩

/-- `g` lists positions of `l` holding, one by one, the elements `xs` -/
def AtIdx (l : List α) : List α → List Nat → Prop
  | [], [] => True
  | x :: xs, i :: g => l[i]? = some x ∧ AtIdx l xs g
  | _, _ => False

theorem getElem?_skip (s : List α) (c : α) (t : List α) (k : Nat) :
    (s ++ c :: t)[if k < s.length then k else k + 1]? = (s ++ t)[k]? := by
  by_cases h : k < s.length
  · simp [h, List.getElem?_append_left]
  · have h' : s.length ≤ k := Nat.le_of_not_lt h
    have e : k + 1 - s.length = (k - s.length) + 1 := by omega
    rw [if_neg h, List.getElem?_append_right (by omega), List.getElem?_append_right h', e]
    simp

theorem atIdx_skip (s : List α) (c : α) (t : List α) : ∀ {xs : List α} {g : List Nat},
    AtIdx (s ++ t) xs g → AtIdx (s ++ c :: t) xs (g.map fun k => if k < s.length then k else k + 1)
  | [], [], _ => trivial
  | [], _ :: _, h => h.elim
  | _ :: _, [], h => h.elim
  | x :: xs, i :: g, h => ⟨by rw [getElem?_skip]; exact h.1, atIdx_skip s c t h.2⟩

/-- a permutation is witnessed by an injective list of positions -/
theorem perm_index : ∀ (l₁ l₂ : List α), l₁.Perm l₂ → ∃ g : List Nat, g.Nodup ∧ AtIdx l₂ l₁ g
  | [], _, _ => ⟨[], List.nodup_nil, trivial⟩
  | c :: l₁, l₂, h => by
    have hc : c ∈ l₂ := h.mem_iff.1 (by simp)
    obtain ⟨s, t, rfl⟩ := List.append_of_mem hc
    have h' : l₁.Perm (s ++ t) := (h.trans List.perm_middle).cons_inv
    obtain ⟨g, hn, hg⟩ := perm_index l₁ (s ++ t) h'
    refine ⟨s.length :: g.map (fun k => if k < s.length then k else k + 1), ?_, ?_, atIdx_skip s c t hg⟩
    · rw [List.nodup_cons]
      constructor
      · intro hm
        obtain ⟨k, _, hk⟩ := List.mem_map.1 hm
        split at hk <;> omega
      · unfold List.Nodup
        rw [List.pairwise_map]
        refine List.Pairwise.imp ?_ hn
        intro a b hab he
        split at he <;> split at he <;> omega
    · simp

theorem atIdx_take {l : List α} : ∀ {xs ys : List α} {g : List Nat},
    AtIdx l (xs ++ ys) g → AtIdx l xs (g.take xs.length)
  | [], _, _, _ => by simp [AtIdx]
  | _ :: _, _, [], h => h.elim
  | x :: xs, ys, i :: g, h => ⟨h.1, atIdx_take h.2⟩

theorem paired_atIdx {ok : ρ → α → Bool} {pool : List α} : ∀ {rs : List ρ} {ch : List α} {f : List Nat},
    Paired ok rs ch → AtIdx pool ch f → PairedIdx ok pool rs f
  | [], [], [], _, _ => trivial
  | [], [], _ :: _, _, h => h.elim
  | [], _ :: _, _, h, _ => h.elim
  | _ :: _, [], _, h, _ => h.elim
  | _ :: _, _ :: _, [], _, h => h.elim
  | _ :: _, d :: _, _ :: _, h, h' => ⟨⟨d, h'.1, h.1⟩, paired_atIdx h.2 h'.2⟩

theorem atIdx_filterMap {l : List α} : ∀ {xs : List α} {g : List Nat}, AtIdx l xs g → g.filterMap (fun i => l[i]?) = xs
  | [], [], _ => rfl
  | [], _ :: _, h => h.elim
  | _ :: _, [], h => h.elim
  | x :: xs, i :: g, h => by simp [h.1, atIdx_filterMap h.2]

/-- a matching is an injective assignment of the receives to pool positions (holding the chosen entries) -/
theorem matching_assignment {ok : ρ → α → Bool} {pool : List α} {rs : List ρ} {ch left : List α}
    (h : Matching ok pool rs ch left) :
    ∃ f, Assignment ok pool rs f ∧ f.filterMap (fun i => pool[i]?) = ch := by
  obtain ⟨g, hn, hg⟩ := perm_index _ _ h.split
  have ht := atIdx_take hg
  exact ⟨g.take ch.length, ⟨paired_atIdx h.paired ht, List.Nodup.sublist (List.take_sublist _ _) hn⟩, atIdx_filterMap ht⟩

/-! ## Part 2: the driver's instance (`SR.Drv.C17.eventsOf`) -/

open SR.Drv.C17 SR.IdCodec SR.Loop


structure Recv where
  t : Nat
  src : Nat
  m : Nat

def recvsOf : List Entry → List Recv
  | [] => []
  | .msg t _ src m _ _ :: r => ⟨t, src, m⟩ :: recvsOf r
  | .start _ _ _ :: r => recvsOf r
  | .timeout _ _ _ _ _ :: r => recvsOf r
  | .random _ _ _ _ _ :: r => recvsOf r

def okDg (r : Recv) (d : Dg) : Bool := idOf d.src == r.src && deMsg d.bytes == some r.m && d.t ≤ r.t

def backed : List Entry → List Dg → List E
  | [], _ => []
  | .start t st cs :: r, ch => .start t st cs :: backed r ch
  | .timeout t si k st cs :: r, ch => .fire t (.timeout k) si st cs :: backed r ch
  | .random t si x st cs :: r, ch => .fire t (.random x) si st cs :: backed r ch
  | .msg t si _ _ st cs :: r, d :: ch => .msg t d.src d.bytes si st cs :: backed r ch
  | .msg _ _ _ _ _ _ :: _, [] => []

theorem eventsOf_greedy_some : ∀ (log : List Entry) (pool : List Dg) (i : Nat) {ch left : List Dg},
    greedy okDg pool (recvsOf log) = some (ch, left) → eventsOf pool log i = .ok (backed log ch, left)
  | [], pool, i, ch, left, h => by
    simp only [recvsOf, greedy, Option.some.injEq, Prod.mk.injEq] at h
    obtain ⟨rfl, rfl⟩ := h
    simp [eventsOf, backed]
  | .start t st cs :: r, pool, i, ch, left, h => by
    have ih := eventsOf_greedy_some r pool (i + 1) (ch := ch) (left := left) h
    simp [eventsOf, ih, bind, Except.bind, backed, pure, Except.pure]
  | .timeout t si k st cs :: r, pool, i, ch, left, h => by
    have ih := eventsOf_greedy_some r pool (i + 1) (ch := ch) (left := left) h
    simp [eventsOf, ih, bind, Except.bind, backed, pure, Except.pure]
  | .random t si k st cs :: r, pool, i, ch, left, h => by
    have ih := eventsOf_greedy_some r pool (i + 1) (ch := ch) (left := left) h
    simp [eventsOf, ih, bind, Except.bind, backed, pure, Except.pure]
  | .msg t si src m st cs :: r, pool, i, ch, left, h => by
    have hp : (fun d : Dg => idOf d.src == src && deMsg d.bytes == some m && decide (d.t ≤ t)) = okDg ⟨t, src, m⟩ := rfl
    simp only [recvsOf, greedy] at h
    cases ht : takeFirst (okDg ⟨t, src, m⟩) pool with
    | none => simp [ht] at h
    | some x =>
      obtain ⟨d, pool'⟩ := x
      simp only [ht, Option.map_eq_some_iff] at h
      obtain ⟨⟨ch', left'⟩, hg, he⟩ := h
      simp only [Prod.mk.injEq] at he
      obtain ⟨rfl, rfl⟩ := he
      have ih := eventsOf_greedy_some r pool' (i + 1) hg
      simp [eventsOf, hp, ht, ih, bind, Except.bind, backed, pure, Except.pure]

theorem eventsOf_greedy_none : ∀ (log : List Entry) (pool : List Dg) (i : Nat),
    greedy okDg pool (recvsOf log) = none → ∃ e, eventsOf pool log i = .error e
  | [], pool, i, h => by simp [recvsOf, greedy] at h
  | .start t st cs :: r, pool, i, h => by
    obtain ⟨e, he⟩ := eventsOf_greedy_none r pool (i + 1) h
    exact ⟨e, by simp [eventsOf, he, bind, Except.bind]⟩
  | .timeout t si k st cs :: r, pool, i, h => by
    obtain ⟨e, he⟩ := eventsOf_greedy_none r pool (i + 1) h
    exact ⟨e, by simp [eventsOf, he, bind, Except.bind]⟩
  | .random t si k st cs :: r, pool, i, h => by
    obtain ⟨e, he⟩ := eventsOf_greedy_none r pool (i + 1) h
    exact ⟨e, by simp [eventsOf, he, bind, Except.bind]⟩
  | .msg t si src m st cs :: r, pool, i, h => by
    have hp : (fun d : Dg => idOf d.src == src && deMsg d.bytes == some m && decide (d.t ≤ t)) = okDg ⟨t, src, m⟩ := rfl
    simp only [recvsOf, greedy] at h
    cases ht : takeFirst (okDg ⟨t, src, m⟩) pool with
    | none =>
      simp only [eventsOf, hp, ht]
      exact ⟨_, rfl⟩
    | some x =>
      obtain ⟨d, pool'⟩ := x
      simp only [ht, Option.map_eq_none_iff] at h
      obtain ⟨e, he⟩ := eventsOf_greedy_none r pool' (i + 1) h
      exact ⟨e, by simp [eventsOf, hp, ht, he, bind, Except.bind]⟩

/-! ### the per-actor body of `checkScenario`, with the matching made explicit -/


def actorPool (actors : List ActorLog) (psent : List Dg) (a : ActorLog) : List Dg :=
  (psent ++ actors.flatMap sendsOf).filter (fun d => d.dst == addrOf a.id)

/-- what `checkScenario` does with an actor once the receives are backed by `evs`, leaving `left`; `none` = passed -/
def afterMatch (a : ActorLog) (precv : List Dg) (observers : List Addr) (tEnd grace i : Nat)
    (evs : List E) (left : List Dg) : Option String :=
  match replay (relax (cfgOf a.id)) init (expand evs) 0 with
  | .error e => some s!"actor={i} {e}"
  | .ok s =>
    let toObs := s.sent.filter (fun p => observers.contains p.1)
    let mine := (sendsOf a).filter (fun d => observers.contains d.dst)
    if toObs.map (fun p => (p.1, p.2)) != mine.map (fun d => (d.dst, d.bytes)) then
      some s!"actor={i} internal-sent-mismatch"
    else
      match compareOut mine (precv.filter (fun d => d.src == addrOf a.id)) with
      | some e => some s!"actor={i} {e}"
      | none =>
        let undelivered := left.filter (mustDeliver (tStartOf a.log tEnd) tEnd grace)
        if !a.log.isEmpty && !undelivered.isEmpty then
          some s!"actor={i} datagram-not-delivered n={undelivered.length} first={(undelivered.head?.map dgKey).getD ""}"
        else none

/-- the pool `checkScenario` hands to `eventsOf`: the actor's pool, must-deliver datagrams first -/
def normPool (actors : List ActorLog) (psent : List Dg) (a : ActorLog) (tEnd grace : Nat) : List Dg :=
  normalise (tStartOf a.log tEnd) tEnd grace (actorPool actors psent a)

theorem go_cons (actors : List ActorLog) (psent precv : List Dg) (observers : List Addr) (tEnd grace : Nat)
    (a : ActorLog) (rest : List ActorLog) (i : Nat) :
    checkScenario.go psent precv observers tEnd grace (actors.flatMap sendsOf) (a :: rest) i =
      match eventsOf (normPool actors psent a tEnd grace) a.log 0 with
      | .error e => some (if logOrdered a.log then s!"actor={i} {e}" else s!"actor={i} log-not-time-ordered {e}")
      | .ok (evs, left) =>
        match afterMatch a precv observers tEnd grace i evs left with
        | some e => some e
        | none => checkScenario.go psent precv observers tEnd grace (actors.flatMap sendsOf) rest (i + 1) := by
  rw [checkScenario.go]
  simp only [normPool, actorPool, afterMatch]
  cases h1 : eventsOf (normalise (tStartOf a.log tEnd) tEnd grace
      (List.filter (fun d => d.dst == addrOf a.id) (psent ++ List.flatMap sendsOf actors))) a.log 0 with
  | error e => rfl
  | ok p =>
    obtain ⟨evs, left⟩ := p
    dsimp only
    cases h2 : replay (relax (cfgOf a.id)) init (expand evs) 0 with
    | error e => rfl
    | ok s =>
      dsimp only
      split
      · rfl
      · cases h3 : compareOut (List.filter (fun d => observers.contains d.dst) (sendsOf a))
            (List.filter (fun d => d.src == addrOf a.id) precv) with
        | some e => rfl
        | none =>
          dsimp only
          split <;> rfl

/-- `normalise` only reorders the pool -/
theorem normalise_perm (tStart tEnd grace : Nat) (pool : List Dg) : (normalise tStart tEnd grace pool).Perm pool :=
  List.filter_append_perm _ pool

/-! ### which datagram backs an `on_msg` is irrelevant to the replay -/


abbrev S := St Nat Nat Nat Nat

/-- a machine state without the ghost log of the datagrams taken from the socket -/
def forget (s : S) : S := { s with recvd := [] }

/-- two events that differ at most in WHICH datagram backs an `on_msg`: the two datagrams have the same source id
and deserialize to the same message -/
inductive EvRel (C : Cfg Nat) : E → E → Prop
  | refl (e : E) : EvRel C e e
  | msg (t : Nat) (a a' : Addr) (b b' : Bytes) (si so : Nat) (cs : List C') :
      idOf a = idOf a' → C.de b = C.de b' → EvRel C (.msg t a b si so cs) (.msg t a' b' si so cs)

def OptRel : Option S → Option S → Prop
  | some a, some b => forget a = forget b
  | none, none => True
  | _, _ => False

theorem optRel_ite {c : Prop} [Decidable c] {a b : S} (h : forget a = forget b) :
    OptRel (if c then some a else none) (if c then some b else none) := by
  by_cases hc : c <;> simp [hc, OptRel, h]

theorem step_forget_same (C : Cfg Nat) (s s' : S) (h : forget s = forget s') (e : E) :
    OptRel (step C s e) (step C s' e) := by
  obtain ⟨n, d, st, ints, q, calls, sent, rv, hist⟩ := s
  obtain ⟨n', d', st', ints', q', calls', sent', rv', hist'⟩ := s'
  simp only [forget, St.mk.injEq] at h
  obtain ⟨rfl, rfl, rfl, rfl, rfl, rfl, rfl, _, rfl⟩ := h
  cases e with
  | start t out cmds =>
    simp only [step]
    split <;> simp [OptRel, forget]
  | exec t pick =>
    simp only [step]
    cases q with
    | nil => simp [OptRel]
    | cons c q =>
      dsimp only
      split
      · cases c <;> simp only [execCmd] <;> repeat' split
        all_goals simp [OptRel, forget]
      · simp [OptRel]
  | msg t a b si so cs =>
    simp only [step, recvBranch]
    cases C.de b <;> dsimp only
    · simp [OptRel]
    · exact optRel_ite rfl
  | drop t src b =>
    simp only [step, recvBranch]
    exact optRel_ite rfl
  | idle t =>
    simp only [step, recvBranch]
    exact optRel_ite rfl
  | zeroWait t =>
    simp only [step]
    exact optRel_ite rfl
  | fire t k si so cs =>
    simp only [step, fireable]
    exact optRel_ite rfl

theorem step_forget (C : Cfg Nat) (s s' : S) (h : forget s = forget s') {e e' : E} (he : EvRel C e e') :
    OptRel (step C s e) (step C s' e') := by
  cases he with
  | refl e => exact step_forget_same C s s' h e
  | msg t a a' b b' si so cs ha hb =>
    obtain ⟨n, d, st, ints, q, calls, sent, rv, hist⟩ := s
    obtain ⟨n', d', st', ints', q', calls', sent', rv', hist'⟩ := s'
    simp only [forget, St.mk.injEq] at h
    obtain ⟨rfl, rfl, rfl, rfl, rfl, rfl, rfl, _, rfl⟩ := h
    simp only [step, recvBranch, ← hb, ← ha]
    cases C.de b <;> dsimp only
    · simp [OptRel]
    · exact optRel_ite rfl

/-- event lists related event by event -/
inductive EvsRel (C : Cfg Nat) : List E → List E → Prop
  | nil : EvsRel C [] []
  | cons {e e' : E} {es es' : List E} : EvRel C e e' → EvsRel C es es' → EvsRel C (e :: es) (e' :: es')

theorem evsRel_refl (C : Cfg Nat) : ∀ es : List E, EvsRel C es es
  | [] => .nil
  | e :: es => .cons (.refl e) (evsRel_refl C es)

theorem evsRel_append {C : Cfg Nat} {a a' b b' : List E} (h1 : EvsRel C a a') (h2 : EvsRel C b b') :
    EvsRel C (a ++ b) (a' ++ b') := by
  induction h1 with
  | nil => exact h2
  | cons he _ ih => exact .cons he ih

theorem evsRel_expand {C : Cfg Nat} {es es' : List E} (h : EvsRel C es es') : EvsRel C (expand es) (expand es') := by
  induction h with
  | nil => exact .nil
  | cons he _ ih =>
    cases he with
    | refl => exact .cons (.refl _) (evsRel_append (evsRel_refl C _) ih)
    | msg t a a' b b' si so cs ha hb =>
      exact .cons (.msg t a a' b b' si so cs ha hb) (evsRel_append (evsRel_refl C _) ih)

theorem run_forget (C : Cfg Nat) {es es' : List E} (h : EvsRel C es es') :
    ∀ s s' : S, forget s = forget s' → OptRel (run C s es) (run C s' es') := by
  induction h with
  | nil => intro s s' hs; exact hs
  | cons he _ ih =>
    intro s s' hs
    have := step_forget C s s' hs he
    simp only [run]
    revert this
    cases step C s _ <;> cases step C s' _ <;> simp only [OptRel] <;> intro h
    · trivial
    · exact h.elim
    · exact h.elim
    · exact ih _ _ h

theorem replay_ok_iff (C : Cfg Nat) : ∀ (es : List E) (s : S) (i : Nat) (s' : S),
    replay C s es i = .ok s' ↔ run C s es = some s'
  | [], s, i, s' => by simp [replay, run]
  | e :: es, s, i, s' => by
    simp only [replay, run]
    cases step C s e with
    | none => simp
    | some s1 => exact replay_ok_iff C es s1 (i + 1) s'

theorem replay_error_iff (C : Cfg Nat) : ∀ (es : List E) (s : S) (i : Nat),
    (∃ e, replay C s es i = .error e) ↔ run C s es = none
  | [], s, i => by simp [replay, run]
  | e :: es, s, i => by
    simp only [replay, run]
    cases step C s e with
    | none => simp
    | some s1 => exact replay_error_iff C es s1 (i + 1)


/-! ### the checkable preconditions -/

theorem pairwiseB_iff {α : Type} (R : α → α → Bool) : ∀ l : List α,
    pairwiseB R l = true ↔ l.Pairwise (fun a b => R a b = true)
  | [] => by simp [pairwiseB]
  | a :: r => by simp [pairwiseB, pairwiseB_iff R r, List.pairwise_cons]

theorem okDg_iff {r : Recv} {d : Dg} :
    okDg r d = true ↔ idOf d.src = r.src ∧ deMsg d.bytes = some r.m ∧ d.t ≤ r.t := by
  simp [okDg, and_assoc]

theorem okDg_sameKey {r : Recv} {a b : Dg} (ha : okDg r a = true) (hb : okDg r b = true) : sameKey a b = true := by
  rw [okDg_iff] at ha hb
  simp [sameKey, ha.1, hb.1, ha.2.1, hb.2.1]

theorem mem_recvsOf : ∀ {log : List Entry} {r : Recv}, r ∈ recvsOf log → ∃ e ∈ log, e.time = r.t
  | [], r, h => by simp [recvsOf] at h
  | .msg t si src m st cs :: l, r, h => by
    simp only [recvsOf, List.mem_cons] at h
    rcases h with rfl | h
    · exact ⟨.msg t si src m st cs, by simp, rfl⟩
    · obtain ⟨e, he, h⟩ := mem_recvsOf h; exact ⟨e, by simp [he], h⟩
  | .start _ _ _ :: l, r, h => by
    obtain ⟨e, he, h⟩ := mem_recvsOf (log := l) h; exact ⟨e, by simp [he], h⟩
  | .timeout _ _ _ _ _ :: l, r, h => by
    obtain ⟨e, he, h⟩ := mem_recvsOf (log := l) h; exact ⟨e, by simp [he], h⟩
  | .random _ _ _ _ _ :: l, r, h => by
    obtain ⟨e, he, h⟩ := mem_recvsOf (log := l) h; exact ⟨e, by simp [he], h⟩

theorem recvs_sorted : ∀ {log : List Entry}, log.Pairwise (fun e e' => e.time ≤ e'.time) →
    (recvsOf log).Pairwise (fun r r' => r.t ≤ r'.t)
  | [], _ => by simp [recvsOf]
  | .msg t si src m st cs :: l, h => by
    obtain ⟨h1, h2⟩ := List.pairwise_cons.1 h
    simp only [recvsOf]
    refine List.pairwise_cons.2 ⟨?_, recvs_sorted h2⟩
    intro r hr
    obtain ⟨e, he, ht⟩ := mem_recvsOf hr
    have : t ≤ e.time := h1 e he
    show t ≤ r.t
    omega
  | .start _ _ _ :: l, h => recvs_sorted (log := l) (List.pairwise_cons.1 h).2
  | .timeout _ _ _ _ _ :: l, h => recvs_sorted (log := l) (List.pairwise_cons.1 h).2
  | .random _ _ _ _ _ :: l, h => recvs_sorted (log := l) (List.pairwise_cons.1 h).2

/-- same-key receives in time order: the weakest form of the log precondition -/
def RecvsOrdered (rs : List Recv) : Prop :=
  rs.Pairwise fun r r' => r.src = r'.src → r.m = r'.m → r.t ≤ r'.t

theorem exch_of_recvsOrdered {rs : List Recv} (h : RecvsOrdered rs) : Exch okDg rs := by
  refine List.Pairwise.imp ?_ h
  intro r r' hrr c d hc hd hd'
  rw [okDg_iff] at hc hd hd' ⊢
  have hs : r.src = r'.src := hd.1.symm.trans hd'.1
  have hm : r.m = r'.m := Option.some.inj (hd.2.1.symm.trans hd'.2.1)
  have := hrr hs hm
  exact ⟨hc.1.trans hs, hc.2.1.trans (by rw [hm]), by omega⟩

theorem recvsOrdered_of_logOrdered {log : List Entry} (h : logOrdered log = true) : RecvsOrdered (recvsOf log) := by
  have h1 : log.Pairwise (fun e e' => e.time ≤ e'.time) := by
    have := (pairwiseB_iff _ log).1 h
    exact this.imp (fun h => by simpa using h)
  exact (recvs_sorted h1).imp (fun h _ _ => h)

theorem mustPrefix_of_deadlineOrdered {tStart tEnd grace : Nat} {pool : List Dg}
    (h : deadlineOrdered tStart tEnd grace pool = true) :
    MustPrefix okDg (mustDeliver tStart tEnd grace) pool := by
  have := (pairwiseB_iff _ pool).1 h
  refine this.imp ?_
  intro a b hab r ha hb hm
  have hk := okDg_sameKey ha hb
  simpa [hk, hm] using hab

theorem deadlineOrdered_of_poolOrdered {tStart tEnd grace : Nat} {pool : List Dg}
    (hp : poolOrdered pool = true) (he : noEarly tStart pool = true) :
    deadlineOrdered tStart tEnd grace pool = true := by
  have h1 := (pairwiseB_iff _ pool).1 hp
  rw [deadlineOrdered, pairwiseB_iff]
  refine List.Pairwise.imp_of_mem ?_ h1
  intro a b ha hb hab
  have hea : tStart ≤ a.t := by
    have := List.all_eq_true.1 he a ha
    simpa using this
  cases hk : sameKey a b with
  | false => simp
  | true =>
    cases hm : mustDeliver tStart tEnd grace b with
    | false => simp
    | true =>
      have hab' : a.t ≤ b.t := by simpa [hk] using hab
      simp only [sameKey, Bool.and_eq_true, beq_iff_eq] at hk
      simp only [mustDeliver, Bool.and_eq_true, decide_eq_true_eq] at hm
      have : mustDeliver tStart tEnd grace a = true := by
        simp only [mustDeliver, Bool.and_eq_true, decide_eq_true_eq]
        refine ⟨⟨?_, by omega⟩, hea⟩
        have := hk.2
        rw [this]; exact hm.1.1
      simp [this]

/-! ### every matching gives the same verdict as far as the replay is concerned -/

theorem backed_rel (id : Nat) : ∀ {log : List Entry} {ch ch' : List Dg},
    Paired okDg (recvsOf log) ch → Paired okDg (recvsOf log) ch' →
    EvsRel (relax (cfgOf id)) (backed log ch) (backed log ch')
  | [], _, _, _, _ => .nil
  | .start t st cs :: l, ch, ch', h, h' => .cons (.refl _) (backed_rel id (log := l) h h')
  | .timeout t si k st cs :: l, ch, ch', h, h' => .cons (.refl _) (backed_rel id (log := l) h h')
  | .random t si k st cs :: l, ch, ch', h, h' => .cons (.refl _) (backed_rel id (log := l) h h')
  | .msg t si src m st cs :: l, [], _, h, _ => h.elim
  | .msg t si src m st cs :: l, _ :: _, [], _, h' => h'.elim
  | .msg t si src m st cs :: l, d :: ch, d' :: ch', h, h' => by
    obtain ⟨h1, h2⟩ := h
    obtain ⟨h1', h2'⟩ := h'
    rw [okDg_iff] at h1 h1'
    refine .cons (.msg t d.src d'.src d.bytes d'.bytes si st cs ?_ ?_) (backed_rel id h2 h2')
    · exact h1.1.trans h1'.1.symm
    · show deMsg d.bytes = deMsg d'.bytes
      rw [h1.2.1, h1'.2.1]

/-- the verdict of the per-actor check depends on the matching only through the left-over pool -/
theorem afterMatch_transfer (a : ActorLog) (precv : List Dg) (observers : List Addr) (tEnd grace i : Nat)
    {ch ch' left left' : List Dg}
    (h : Paired okDg (recvsOf a.log) ch) (h' : Paired okDg (recvsOf a.log) ch')
    (hpass : afterMatch a precv observers tEnd grace i (backed a.log ch) left = none)
    (hleft : a.log.isEmpty = false → ∀ x ∈ left', mustDeliver (tStartOf a.log tEnd) tEnd grace x = false) :
    afterMatch a precv observers tEnd grace i (backed a.log ch') left' = none := by
  have hrel := run_forget _ (evsRel_expand (backed_rel a.id h h')) init init rfl
  unfold afterMatch at hpass ⊢
  cases h1 : replay (relax (cfgOf a.id)) init (expand (backed a.log ch)) 0 with
  | error e => simp [h1] at hpass
  | ok s =>
    rw [h1] at hpass
    have hr := (replay_ok_iff _ _ _ _ _).1 h1
    rw [hr] at hrel
    cases h2 : run (relax (cfgOf a.id)) init (expand (backed a.log ch')) with
    | none => rw [h2] at hrel; exact hrel.elim
    | some s' =>
      rw [h2] at hrel
      have hs : s.sent = s'.sent := by
        have := congrArg St.sent hrel
        simpa [forget] using this
      rw [(replay_ok_iff _ _ _ _ _).2 h2]
      dsimp only at hpass ⊢
      rw [← hs]
      split at hpass
      · cases hpass
      · rename_i hc
        rw [if_neg hc]
        split at hpass
        · cases hpass
        · split at hpass
          · cases hpass
          · rw [if_neg]
            cases he : a.log.isEmpty with
            | true => simp
            | false =>
              have := hleft he
              have hf : List.filter (mustDeliver (tStartOf a.log tEnd) tEnd grace) left' = [] := by
                rw [List.filter_eq_nil_iff]
                intro x hx; simp [this x hx]
              simp [hf]


/-! ### the machine's `sent` after a replay is `sendsOf` (`C17_send_faithful` on the oracle's side) -/

theorem execCmd_queue_sent (C : Cfg Nat) (s : S) (c : C') (t p : Nat) :
    (execCmd C s c t p).queue = s.queue ∧ (execCmd C s c t p).sent = s.sent ++ (sendOf C c).toList := by
  cases c with
  | send dst m =>
    simp only [execCmd, sendOf]
    cases C.ser m <;> simp
  | set k lo hi => simp [execCmd, sendOf]
  | cancel k => simp [execCmd, sendOf]
  | choose key vals =>
    simp only [execCmd, sendOf]
    cases vals with
    | nil => simp
    | cons v r => dsimp only; split <;> simp

theorem run_execs_sent (C : Cfg Nat) (t : Nat) (rest : List E) : ∀ (cs : List C') (s s' : S),
    s.queue = cs → run C s (cs.map (fun _ => Ev.exec t 0) ++ rest) = some s' →
    ∃ s1, run C s1 rest = some s' ∧ s1.queue = [] ∧ s1.sent = s.sent ++ cs.filterMap (sendOf C)
  | [], s, s', hq, h => ⟨s, h, hq, by simp⟩
  | c :: cs, s, s', hq, h => by
    simp only [List.map_cons, List.cons_append, run] at h
    cases hs : step C s (.exec t 0) with
    | none => simp [hs] at h
    | some s2 =>
      rw [hs] at h
      obtain ⟨c', q, hq', _, _, rfl⟩ := step_exec hs
      rw [hq] at hq'
      obtain ⟨rfl, rfl⟩ := List.cons.inj hq'
      have hx := execCmd_queue_sent C { s with now := t, queue := cs } c t 0
      obtain ⟨s1, h1, h2, h3⟩ := run_execs_sent C t rest cs _ s' hx.1 h
      refine ⟨s1, h1, h2, ?_⟩
      rw [h3, hx.2, List.filterMap_cons]
      cases sendOf C c <;> simp

theorem run_expand_sent (C : Cfg Nat) : ∀ (evs : List E) (s s' : S),
    s.queue = [] → run C s (expand evs) = some s' →
    s'.queue = [] ∧ s'.sent = s.sent ++ (evs.flatMap evCmds).filterMap (sendOf C)
  | [], s, s', hq, h => by
    simp only [expand, run, Option.some.injEq] at h
    subst h; simp [hq]
  | e :: evs, s, s', hq, h => by
    simp only [expand, run] at h
    cases hs : step C s e with
    | none => simp [hs] at h
    | some s2 =>
      rw [hs] at h
      have key : s2.queue = evCmds e ∧ s2.sent = s.sent := by
        cases e with
        | start t out cmds => obtain ⟨_, _, _, _, rfl⟩ := step_start hs; exact ⟨rfl, rfl⟩
        | exec t p => obtain ⟨c, q, hq', _⟩ := step_exec hs; rw [hq] at hq'; cases hq'
        | msg t a b si so cs => obtain ⟨m, _, _, _, _, _, _, rfl⟩ := step_msg hs; exact ⟨rfl, rfl⟩
        | drop t src b => obtain ⟨_, _, _, _, _, rfl⟩ := step_drop hs; exact ⟨hq, rfl⟩
        | idle t => obtain ⟨_, _, _, _, rfl⟩ := step_idle hs; exact ⟨hq, rfl⟩
        | zeroWait t => obtain ⟨_, _, _, _, rfl⟩ := step_zeroWait hs; exact ⟨hq, rfl⟩
        | fire t k si so cs => obtain ⟨_, _, _, _, _, rfl⟩ := step_fire hs; exact ⟨rfl, rfl⟩
      obtain ⟨s1, h1, h2, h3⟩ := run_execs_sent C (evTime e) (expand evs) (evCmds e) s2 s' key.1 h
      obtain ⟨h4, h5⟩ := run_expand_sent C evs s1 s' h2 h1
      refine ⟨h4, ?_⟩
      rw [h5, h3, key.2]
      simp [List.flatMap_cons, List.filterMap_append]

theorem backed_cmds : ∀ {log : List Entry} {ch : List Dg}, Paired okDg (recvsOf log) ch →
    (backed log ch).flatMap evCmds = log.flatMap Entry.cmds
  | [], _, _ => rfl
  | .start t st cs :: l, ch, h => by
    simp only [backed, List.flatMap_cons, evCmds, Entry.cmds]; rw [backed_cmds (log := l) h]
  | .timeout t si k st cs :: l, ch, h => by
    simp only [backed, List.flatMap_cons, evCmds, Entry.cmds]; rw [backed_cmds (log := l) h]
  | .random t si k st cs :: l, ch, h => by
    simp only [backed, List.flatMap_cons, evCmds, Entry.cmds]; rw [backed_cmds (log := l) h]
  | .msg t si src m st cs :: l, [], h => h.elim
  | .msg t si src m st cs :: l, d :: ch, h => by
    simp only [backed, List.flatMap_cons, evCmds, Entry.cmds]; rw [backed_cmds (log := l) h.2]

theorem sendsOf_map (a : ActorLog) :
    (sendsOf a).map (fun d => (d.dst, d.bytes)) = (a.log.flatMap Entry.cmds).filterMap (sendOf (relax (cfgOf a.id))) := by
  unfold sendsOf
  induction a.log with
  | nil => rfl
  | cons e l ih =>
    simp only [List.flatMap_cons, List.map_append, List.filterMap_append, ih]
    congr 1
    induction e.cmds with
    | nil => rfl
    | cons c cs ih2 =>
      cases c with
      | send dst m =>
        simp only [List.filterMap_cons, sendOf]
        have : (relax (cfgOf a.id)).ser m = serMsg m := rfl
        rw [this]
        cases serMsg m <;> simp [ih2]
      | set k lo hi => simpa [List.filterMap_cons, sendOf] using ih2
      | cancel k => simpa [List.filterMap_cons, sendOf] using ih2
      | choose key vals => simpa [List.filterMap_cons, sendOf] using ih2

/-- whatever datagrams back the `on_msg` entries: a replay that is accepted has sent exactly `sendsOf` -/
theorem replay_sent (a : ActorLog) {ch : List Dg} (hp : Paired okDg (recvsOf a.log) ch) {s : S}
    (h : run (relax (cfgOf a.id)) init (expand (backed a.log ch)) = some s) :
    s.sent = (sendsOf a).map (fun d => (d.dst, d.bytes)) := by
  obtain ⟨_, h2⟩ := run_expand_sent _ _ init s rfl h
  rw [h2, backed_cmds hp, sendsOf_map]
  rfl

theorem sent_check (observers : List Addr) (a : ActorLog) {s : S}
    (h : s.sent = (sendsOf a).map (fun d => (d.dst, d.bytes))) :
    ((s.sent.filter (fun p => observers.contains p.1)).map (fun p => (p.1, p.2)) !=
      ((sendsOf a).filter (fun d => observers.contains d.dst)).map (fun d => (d.dst, d.bytes))) = false := by
  rw [h, List.filter_map]
  simp [Function.comp_def]

/-- what the per-actor check of `o-trace` comes to, for ANY choice of backing datagrams -/
theorem afterMatch_none_iff (a : ActorLog) (precv : List Dg) (observers : List Addr) (tEnd grace i : Nat)
    {ch left : List Dg} (hp : Paired okDg (recvsOf a.log) ch) :
    afterMatch a precv observers tEnd grace i (backed a.log ch) left = none ↔
      (run (relax (cfgOf a.id)) init (expand (backed a.log ch))).isSome = true ∧
      compareOut ((sendsOf a).filter (fun d => observers.contains d.dst))
        (precv.filter (fun d => d.src == addrOf a.id)) = none ∧
      (a.log.isEmpty = true ∨ left.filter (mustDeliver (tStartOf a.log tEnd) tEnd grace) = []) := by
  unfold afterMatch
  cases h1 : replay (relax (cfgOf a.id)) init (expand (backed a.log ch)) 0 with
  | error e =>
    have := (replay_error_iff _ _ _ _).1 ⟨e, h1⟩
    simp [this]
  | ok s =>
    have hr := (replay_ok_iff _ _ _ _ _).1 h1
    have hs := sent_check observers a (replay_sent a hp hr)
    dsimp only
    rw [hs, hr]
    simp only [Bool.false_eq_true, if_false, Option.isSome_some, true_and]
    cases compareOut ((sendsOf a).filter (fun d => observers.contains d.dst))
        (precv.filter (fun d => d.src == addrOf a.id)) with
    | some e => simp
    | none =>
      simp only [true_and]
      cases a.log.isEmpty <;> simp

/-! ### `compareOut` with a sort one can reason about

`compareOut` / `sortStrs` used to sort with `Array.qsort`, whose worker `Array.qsort.sort` is a private definition of the
core library (Lean 4.33): nothing can be proved about its result outside `Init`.  They now use `List.mergeSort`. -/

theorem sortStrs_eq_iff (l₁ l₂ : List String) : sortStrs l₁ = sortStrs l₂ ↔ l₁.Perm l₂ := by
  unfold sortStrs
  constructor
  · intro h
    exact (List.mergeSort_perm l₁ _).symm.trans (h ▸ List.mergeSort_perm l₂ _)
  · intro h
    have hp : (l₁.mergeSort (fun a b => decide (a ≤ b))).Perm (l₂.mergeSort (fun a b => decide (a ≤ b))) :=
      (List.mergeSort_perm l₁ _).trans (h.trans (List.mergeSort_perm l₂ _).symm)
    have hs : ∀ l : List String, (l.mergeSort (fun a b => decide (a ≤ b))).Pairwise (fun a b => a ≤ b) := by
      intro l
      have := List.pairwise_mergeSort (le := fun (a b : String) => decide (a ≤ b))
        (fun a b c h1 h2 => by simp only [decide_eq_true_eq] at *; exact String.le_trans h1 h2)
        (fun a b => by simpa using String.le_total a b) l
      exact this.imp (fun h => by simpa using h)
    exact List.Perm.eq_of_pairwise (fun a b _ _ h1 h2 => String.le_antisymm h1 h2) (hs l₁) (hs l₂) hp

/-- send times of the copies of `e`'s key, in ascending order -/
def timesOf (l : List Dg) (e : Dg) : List Nat := sortNats ((l.filter (fun x => dgKey x == dgKey e)).map (·.t))

theorem compareOut_none_iff (expected observed : List Dg) :
    compareOut expected observed = none ↔
      (expected.map dgKey).Perm (observed.map dgKey) ∧
      ∀ e ∈ expected, ∀ p ∈ (timesOf expected e).zip (timesOf observed e), p.1 ≤ p.2 := by
  unfold compareOut
  dsimp only
  by_cases hk : sortStrs (expected.map dgKey) = sortStrs (observed.map dgKey)
  · have hp := (sortStrs_eq_iff _ _).1 hk
    simp only [hk, bne_self_eq_false, Bool.false_eq_true, if_false]
    simp only [hp, true_and]
    constructor
    · intro h e he p hp'
      split at h
      · cases h
      · rename_i hb
        simp only [List.any_eq_true, not_exists, not_and, decide_eq_true_eq] at hb
        have := hb e he p (by simpa [timesOf] using hp')
        omega
    · intro h
      rw [if_neg]
      simp only [List.any_eq_true, not_exists, not_and, decide_eq_true_eq]
      intro e he p hp'
      have := h e he p (by simpa [timesOf] using hp')
      omega
  · have hp : ¬ (expected.map dgKey).Perm (observed.map dgKey) := fun h => hk ((sortStrs_eq_iff _ _).2 h)
    have : (sortStrs (expected.map dgKey) != sortStrs (observed.map dgKey)) = true := by simpa using hk
    simp [this, hp]

/-! ### `normalise` makes `deadlineOrdered` hold by construction -/

theorem pairwise_of_forall_mem {α : Type} {R : α → α → Prop} : ∀ {l : List α}, (∀ a ∈ l, ∀ b ∈ l, R a b) → l.Pairwise R
  | [], _ => List.Pairwise.nil
  | a :: l, h => List.Pairwise.cons (fun b hb => h a (by simp) b (by simp [hb]))
      (pairwise_of_forall_mem fun x hx y hy => h x (by simp [hx]) y (by simp [hy]))

theorem deadlineOrdered_normalise (tStart tEnd grace : Nat) (pool : List Dg) :
    deadlineOrdered tStart tEnd grace (normalise tStart tEnd grace pool) = true := by
  rw [deadlineOrdered, pairwiseB_iff, normalise, List.pairwise_append]
  refine ⟨pairwise_of_forall_mem ?_, pairwise_of_forall_mem ?_, ?_⟩
  · intro a ha b _
    have := (List.mem_filter.1 ha).2
    simp [this]
  · intro a _ b hb
    have := (List.mem_filter.1 hb).2
    simp only [Bool.not_eq_true'] at this
    simp [this]
  · intro a ha b _
    have := (List.mem_filter.1 ha).2
    simp [this]

/-- matchings into the raw pool and into the normalised pool are the same -/
theorem matching_normalise {tStart tEnd grace : Nat} {pool : List Dg} {rs : List Recv} {ch left : List Dg} :
    Matching okDg (normalise tStart tEnd grace pool) rs ch left ↔ Matching okDg pool rs ch left :=
  ⟨fun h => ⟨h.paired, h.split.trans (normalise_perm _ _ _ _)⟩,
   fun h => ⟨h.paired, h.split.trans (normalise_perm _ _ _ _).symm⟩⟩

end SR.RuntimeMatch
