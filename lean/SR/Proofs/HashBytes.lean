import SR.Hash.Univ
/-! Byte-level lemmas for C04: little-endian encodings are fixed-width and injective, flat streams of the
stream builders, and the generic "self-delimiting + injective" (`Core`) combinators. -/
namespace SR.Hash
open List

theorem le_length (w n : Nat) : (le w n).length = w := by
  induction w generalizing n with
  | zero => rfl
  | succ w ih => simp [le, ih]

theorem le_inj (w : Nat) : ∀ n m, n < 256 ^ w → m < 256 ^ w → le w n = le w m → n = m := by
  induction w with
  | zero => intro n m hn hm _; simp at hn hm; omega
  | succ w ih =>
    intro n m hn hm h
    simp only [le, List.cons.injEq] at h
    have h2 := ih (n / 256) (m / 256)
      (by rw [Nat.pow_succ] at hn; exact Nat.div_lt_of_lt_mul (by rw [Nat.mul_comm]; exact hn))
      (by rw [Nat.pow_succ] at hm; exact Nat.div_lt_of_lt_mul (by rw [Nat.mul_comm]; exact hm)) h.2
    have := Nat.div_add_mod n 256
    have := Nat.div_add_mod m 256
    omega

theorem flat_nil : flat [] = [] := rfl
theorem flat_cons (t : Tok) (ts : List Tok) : flat (t :: ts) = t.flat ++ flat ts := by
  simp [flat]
theorem flat_append (a b : List Tok) : flat (a ++ b) = flat a ++ flat b := by
  simp [flat]
theorem flat_flatten (ss : List (List Tok)) : flat ss.flatten = ss.flatMap flat := by
  induction ss with
  | nil => rfl
  | cons s ss ih => simp [flat_append, ih]

theorem flat_seqToks (blk : Bool) (ss : List (List Tok)) :
    flat (seqToks blk ss) = le 8 ss.length ++ ss.flatMap flat := by
  cases blk <;> simp [seqToks, flat_cons, Tok.flat, flat_flatten, flat_nil]

theorem flat_strToks (s : List Nat) : flat (strToks s) = s ++ [255] := by
  simp [strToks, flat_cons, Tok.flat, flat_nil, le]

theorem flatMap_map_u64 (l : List Nat) : flat (l.map Tok.u64) = l.flatMap (le 8) := by
  induction l with
  | nil => rfl
  | cons a l ih => simp [flat_cons, Tok.flat, ih]

theorem flat_setToks (h : List Tok → UInt64) (ss : List (List Tok)) :
    flat (setToks h ss) =
      le 8 ss.length ++ ((ss.map fun s => (h s).toNat).mergeSort leB).flatMap (le 8) := by
  simp [setToks, flat_cons, Tok.flat, flatMap_map_u64]

theorem flat_discToks (d : Nat) (p : List Tok) : flat (discToks d p) = le 8 d ++ flat p := by
  simp [discToks, flat_cons, Tok.flat]

/-! ### `Core`: the stream of `a`, followed by anything, determines `a` (up to `R`) and the rest -/

def Core {α} (g : α → List Nat) (R : α → α → Prop) (a b : α) : Prop :=
  ∀ x y, g a ++ x = g b ++ y → R a b ∧ x = y

theorem core_of_fixed {α} {g : α → List Nat} {R : α → α → Prop} {a b : α}
    (hl : (g a).length = (g b).length) (hi : g a = g b → R a b) : Core g R a b := by
  intro x y h
  obtain ⟨h1, h2⟩ := List.append_inj h hl
  exact ⟨hi h1, h2⟩

theorem core_le {w : Nat} {n m : Nat} (hn : n < 256 ^ w) (hm : m < 256 ^ w) :
    Core (le w) Eq n m :=
  core_of_fixed (by simp [le_length]) (le_inj w n m hn hm)

theorem core_append {α β} {g1 : α → List Nat} {g2 : β → List Nat} {R1 R2} {a1 b1 a2 b2}
    (h1 : Core g1 R1 a1 b1) (h2 : Core g2 R2 a2 b2) :
    ∀ x y, g1 a1 ++ (g2 a2 ++ x) = g1 b1 ++ (g2 b2 ++ y) → R1 a1 b1 ∧ R2 a2 b2 ∧ x = y := by
  intro x y h
  obtain ⟨r1, h'⟩ := h1 _ _ h
  obtain ⟨r2, h''⟩ := h2 _ _ h'
  exact ⟨r1, r2, h''⟩

theorem all2_length {α β} {R : α → β → Prop} : ∀ {l1 : List α} {l2 : List β}, All2 R l1 l2 → l1.length = l2.length
  | [], [], _ => rfl
  | _ :: _, _ :: _, h => by simp [all2_length h.2]
  | [], _ :: _, h => by cases h
  | _ :: _, [], h => by cases h

theorem core_seq {α} {g : α → List Nat} {R : α → α → Prop} :
    ∀ (l1 l2 : List α), l1.length = l2.length →
      (∀ a ∈ l1, ∀ b ∈ l2, Core g R a b) →
      ∀ x y, l1.flatMap g ++ x = l2.flatMap g ++ y → All2 R l1 l2 ∧ x = y
  | [], [], _, _, x, y, h => ⟨trivial, by simpa using h⟩
  | [], _ :: _, hl, _, _, _, _ => by simp at hl
  | _ :: _, [], hl, _, _, _, _ => by simp at hl
  | a :: l1, b :: l2, hl, H, x, y, h => by
    simp only [List.flatMap_cons, List.append_assoc] at h
    obtain ⟨r, h'⟩ := H a (by simp) b (by simp) _ _ h
    obtain ⟨rs, e⟩ := core_seq l1 l2 (by simpa using hl)
      (fun a' ha b' hb => H a' (by simp [ha]) b' (by simp [hb])) x y h'
    exact ⟨⟨r, rs⟩, e⟩

/-- length-prefixed sequence -/
theorem core_lseq {α} {g : α → List Nat} {R : α → α → Prop} (l1 l2 : List α)
    (h1 : LenOk l1) (h2 : LenOk l2) (H : ∀ a ∈ l1, ∀ b ∈ l2, Core g R a b) :
    ∀ x y, le 8 l1.length ++ (l1.flatMap g ++ x) = le 8 l2.length ++ (l2.flatMap g ++ y) →
      All2 R l1 l2 ∧ x = y := by
  intro x y h
  obtain ⟨hl, h'⟩ := core_le (w := 8) h1 h2 _ _ h
  exact core_seq l1 l2 hl H x y h'

/-- `str`: UTF-8 never contains 0xff, so the terminator delimits -/
theorem core_str : ∀ (s1 s2 : List Nat), StrOk s1 → StrOk s2 → Core (fun s => s ++ [255]) Eq s1 s2
  | [], [], _, _ => by intro x y h; simpa using h
  | [], b :: s2, _, h2 => by
    intro x y h; simp at h
    have := h2 b (by simp); omega
  | a :: s1, [], h1, _ => by
    intro x y h; simp at h
    have := h1 a (by simp); omega
  | a :: s1, b :: s2, h1, h2 => by
    intro x y h
    simp only [List.cons_append, List.cons.injEq] at h
    obtain ⟨e, rest⟩ := core_str s1 s2 (fun c hc => h1 c (by simp [hc])) (fun c hc => h2 c (by simp [hc])) x y h.2
    exact ⟨by rw [h.1, e], rest⟩

theorem all2_eq {α} : ∀ {l1 l2 : List α}, All2 Eq l1 l2 → l1 = l2
  | [], [], _ => rfl
  | _ :: _, _ :: _, h => by rw [h.1, all2_eq h.2]
  | [], _ :: _, h => by cases h
  | _ :: _, [], h => by cases h

theorem all2_refl_eq {α} : ∀ (l : List α), All2 Eq l l
  | [] => trivial
  | _ :: l => ⟨rfl, all2_refl_eq l⟩

theorem all2_imp {α β} {R S : α → β → Prop} :
    ∀ {l1 : List α} {l2 : List β}, (∀ a ∈ l1, ∀ b ∈ l2, R a b → S a b) → All2 R l1 l2 → All2 S l1 l2
  | [], [], _, _ => trivial
  | a :: l1, b :: l2, H, h =>
    ⟨H a (by simp) b (by simp) h.1, all2_imp (fun a' ha b' hb => H a' (by simp [ha]) b' (by simp [hb])) h.2⟩
  | [], _ :: _, _, h => by cases h
  | _ :: _, [], _, h => by cases h

theorem all2_map_eq {α β} {f : α → β} : ∀ {l1 l2 : List α}, l1.map f = l2.map f → All2 (fun a b => f a = f b) l1 l2
  | [], [], _ => trivial
  | a :: l1, b :: l2, h => by
    simp only [List.map_cons, List.cons.injEq] at h
    exact ⟨h.1, all2_map_eq h.2⟩
  | [], _ :: _, h => by simp at h
  | _ :: _, [], h => by simp at h

theorem map_eq_of_all2 {α β} {f : α → β} {R : α → α → Prop} :
    ∀ {l1 l2 : List α}, (∀ a ∈ l1, ∀ b ∈ l2, R a b → f a = f b) → All2 R l1 l2 → l1.map f = l2.map f
  | [], [], _, _ => rfl
  | a :: l1, b :: l2, H, h => by
    simp only [List.map_cons]
    rw [H a (by simp) b (by simp) h.1,
      map_eq_of_all2 (fun a' ha b' hb => H a' (by simp [ha]) b' (by simp [hb])) h.2]
  | [], _ :: _, _, h => by cases h
  | _ :: _, [], _, h => by cases h

/-- a permutation between images comes from a permutation between the lists -/
theorem perm_map_inv {α β} (f : α → β) :
    ∀ (l2 l1 : List α), (l1.map f).Perm (l2.map f) → ∃ l', l1.Perm l' ∧ l'.map f = l2.map f
  | [], l1, h => by
    have : l1 = [] := by simpa using h.length_eq
    exact ⟨[], by rw [this], rfl⟩
  | b :: l2, l1, h => by
    have hb : f b ∈ l1.map f := h.symm.subset (by simp)
    obtain ⟨a, ha, hab⟩ := List.mem_map.1 hb
    obtain ⟨s, t, rfl⟩ := List.append_of_mem ha
    have hp : ((s ++ t).map f).Perm (l2.map f) := by
      have h1 : ((s ++ a :: t).map f).Perm (f a :: (s ++ t).map f) := by
        simp only [List.map_append, List.map_cons]
        exact List.perm_middle
      have h2 := h1.symm.trans h
      simp only [List.map_cons, hab] at h2
      exact List.Perm.cons_inv h2
    obtain ⟨l'', p, e⟩ := perm_map_inv f l2 (s ++ t) hp
    refine ⟨a :: l'', ?_, by simp [e, hab]⟩
    exact List.perm_middle.trans (List.Perm.cons a p)

theorem leB_trans : ∀ (a b c : Nat), leB a b = true → leB b c = true → leB a c = true := by
  intro a b c; simp [leB]; omega
theorem leB_total : ∀ (a b : Nat), (leB a b || leB b a) = true := by
  intro a b; simp [leB]; omega

theorem sort_eq_of_perm {l1 l2 : List Nat} (h : l1.Perm l2) : l1.mergeSort leB = l2.mergeSort leB := by
  apply List.Perm.eq_of_pairwise (le := fun a b => leB a b = true)
  · intro a b _ _ h1 h2; simp [leB] at h1 h2; omega
  · exact pairwise_mergeSort leB_trans leB_total l1
  · exact pairwise_mergeSort leB_trans leB_total l2
  · exact (mergeSort_perm l1 leB).trans (h.trans (mergeSort_perm l2 leB).symm)

theorem perm_of_sort_eq {l1 l2 : List Nat} (h : l1.mergeSort leB = l2.mergeSort leB) : l1.Perm l2 :=
  (mergeSort_perm l1 leB).symm.trans (h ▸ mergeSort_perm l2 leB)

/-- `HashableHashSet/Map`: the flat stream determines the multiset of inner streams when `h` is injective on them -/
theorem core_set {α} (h : List Tok → UInt64) (P : List Tok → Prop) (hinj : InjOnP h P)
    (f : α → List Tok) (R : α → α → Prop) (l1 l2 : List α) (h1 : LenOk l1) (h2 : LenOk l2)
    (P1 : ∀ a ∈ l1, P (f a)) (P2 : ∀ b ∈ l2, P (f b))
    (H : ∀ a ∈ l1, ∀ b ∈ l2, f a = f b → R a b) :
    Core (fun l => flat (setToks h (l.map f))) (PermBy R) l1 l2 := by
  intro x y hxy
  simp only [flat_setToks, List.length_map, List.append_assoc] at hxy
  obtain ⟨hl, h'⟩ := core_le (w := 8) h1 h2 _ _ hxy
  let hh : α → Nat := fun a => (h (f a)).toNat
  have hm1 : (l1.map f).map (fun s => (h s).toNat) = l1.map hh := by simp [hh]
  have hm2 : (l2.map f).map (fun s => (h s).toNat) = l2.map hh := by simp [hh]
  rw [hm1, hm2] at h'
  have hlen : ((l1.map hh).mergeSort leB).length = ((l2.map hh).mergeSort leB).length := by
    rw [(mergeSort_perm _ _).length_eq, (mergeSort_perm _ _).length_eq]; simpa using hl
  obtain ⟨hs, hxy'⟩ := core_seq (g := le 8) (R := Eq) _ _ hlen
    (fun a ha b hb => core_le (w := 8)
      (by
        have := (mergeSort_perm _ leB).subset ha
        obtain ⟨e, _, rfl⟩ := List.mem_map.1 this
        exact UInt64.toNat_lt _)
      (by
        have := (mergeSort_perm _ leB).subset hb
        obtain ⟨e, _, rfl⟩ := List.mem_map.1 this
        exact UInt64.toNat_lt _)) x y h'
  refine ⟨?_, hxy'⟩
  have hperm := perm_of_sort_eq (all2_eq hs)
  obtain ⟨l', p, e⟩ := perm_map_inv hh l2 l1 hperm
  refine ⟨l', l2, p, .refl _, ?_⟩
  refine all2_imp ?_ (all2_map_eq e)
  intro a ha b hb hab
  have ha1 : a ∈ l1 := p.symm.subset ha
  apply H a ha1 b hb
  apply hinj _ _ (P1 a ha1) (P2 b hb)
  exact UInt64.toNat_inj.1 hab

/-- equal multisets (up to `R`, which forces equal inner streams) give the same sorted hashes -/
theorem setToks_congr {α} (h : List Tok → UInt64) (f : α → List Tok) (R : α → α → Prop) (l1 l2 : List α)
    (H : ∀ a ∈ l1, ∀ b ∈ l2, R a b → f a = f b) (hp : PermBy R l1 l2) :
    setToks h (l1.map f) = setToks h (l2.map f) := by
  obtain ⟨l1', l2', p1, p2, a2⟩ := hp
  have e : l1'.map f = l2'.map f :=
    map_eq_of_all2 (fun a ha b hb => H a (p1.symm.subset ha) b (p2.symm.subset hb)) a2
  unfold setToks
  have q1 : ((l1.map f).map fun s => (h s).toNat).Perm ((l1'.map f).map fun s => (h s).toNat) :=
    (p1.map f).map _
  have q2 : ((l2.map f).map fun s => (h s).toNat).Perm ((l2'.map f).map fun s => (h s).toNat) :=
    (p2.map f).map _
  rw [sort_eq_of_perm q1, sort_eq_of_perm q2, e]
  simp [p1.length_eq, p2.length_eq, all2_length a2]

end SR.Hash
