import SR.Sem.RegisterClient
import SR.Proofs.SemAMap
/-!
Invariants of the register harness (`SR/Sem/RegisterClient.lean`, transition system `Step`) for an
arbitrary at-most-once environment, and the `HistView`s of the two testers.
-/
namespace SR.Sem.RC
open SR.Sem SR.Sem.AMap
variable {H Op Ret : Type}

/-! ### small list / map facts -/
theorem find?_append_single {β : Type} (k i : Nat) (v : β) (m : List (Nat × β)) :
    find? k (m ++ [(i, v)]) = (find? k m).or (if i = k then some v else none) := by
  induction m with
  | nil => simp [find?]
  | cons e r ih =>
    obtain ⟨k0, v0⟩ := e
    simp only [List.cons_append, find?_cons]
    by_cases h : k0 = k
    · simp [h]
    · simp [h, ih]

theorem sorted_append_single {β : Type} {i : Nat} {v : β} {m : List (Nat × β)} (hs : Sorted m)
    (hlt : ∀ k ∈ keys m, k < i) : Sorted (m ++ [(i, v)]) := by
  unfold Sorted keys at *
  rw [List.map_append, List.pairwise_append]
  refine ⟨hs, by simp, ?_⟩
  intro a ha b hb
  simp at hb; subst hb
  exact hlt a ha

theorem length_upsert_of_some {β : Type} {k : Nat} {v : β} {m : List (Nat × β)} (hs : Sorted m)
    (h : (find? k m).isSome = true) : (upsert k v m).length = m.length := by
  induction m with
  | nil => simp at h
  | cons e r ih =>
    obtain ⟨k0, v0⟩ := e
    obtain ⟨hlt, hr⟩ := sorted_cons.1 hs
    simp only [upsert]
    by_cases h1 : k < k0
    · exfalso
      have : find? k ((k0, v0) :: r) = none := find?_eq_none_of_lt (by
        intro k' hk'; simp [keys] at hk'
        rcases hk' with rfl | ⟨x, hx⟩
        · exact h1
        · have := hlt k' (by simp [keys]; exact ⟨x, hx⟩); omega)
      rw [this] at h; cases h
    · by_cases h2 : k = k0
      · simp [h1, h2]
      · have h3 : k0 ≠ k := fun e => h2 e.symm
        simp only [find?_cons, h3, if_false] at h
        simp [h1, h2, ih hr h]

theorem not_mem_erase_of_nodup_map {α β : Type} [BEq α] [LawfulBEq α] (f : α → β) {l : List α} (hn : (l.map f).Nodup)
    {a b : α} (ha : a ∈ l) (hb : b ∈ l.erase a) : f b ≠ f a := by
  induction l with
  | nil => simp at ha
  | cons x l ih =>
    simp only [List.map_cons, List.nodup_cons] at hn
    by_cases hx : x = a
    · subst hx
      simp only [List.erase_cons_head] at hb
      intro e
      exact hn.1 (e ▸ List.mem_map_of_mem hb)
    · have hx' : (x == a) = false := by simp [hx]
      rw [List.erase_cons, hx'] at hb
      simp only [Bool.false_eq_true, if_false] at hb
      have ha' : a ∈ l := by
        rcases List.mem_cons.1 ha with h | h
        · exact absurd h.symm hx
        · exact h
      rcases List.mem_cons.1 hb with h | h
      · subst h
        intro e
        exact hn.1 (e ▸ List.mem_map_of_mem ha')
      · exact ih hn.2 ha' h

theorem nodup_map_erase {α β : Type} [BEq α] [LawfulBEq α] (f : α → β) {l : List α} (hn : (l.map f).Nodup) (a : α) :
    ((l.erase a).map f).Nodup := by
  exact hn.sublist ((List.erase_sublist).map f)

/-! ### hooks in terms of `opOfMsg` / `retOfMsg` -/
theorem recordInvocations_eq (I : Iface H Op Ret) (h : H) (src : Nat) (m : RMsg) :
    recordInvocations I h src m = (opOfMsg I m).map (I.onInvoke h src) := by
  cases m <;> rfl

theorem recordReturns_eq (I : Iface H Op Ret) (wo : Bool) (h : H) (dst : Nat) (m : RMsg) :
    recordReturns I wo h dst m = (retOfMsg I wo m).map (I.onReturn h dst) := by
  cases m <;> try rfl
  simp only [recordReturns, retOfMsg]; split <;> rfl

theorem retOfMsg_isSome_of_isReply (I : Iface H Op Ret) {wo : Bool} {m : RMsg} (h : IsReply wo m) :
    ∃ r, retOfMsg I wo m = some r := by
  cases m <;> simp [IsReply] at h <;> simp [retOfMsg, h]

/-! ### mirror / ridsOf under extension -/
theorem mirror_append (I : Iface H Op Ret) (wo : Bool) (c : Nat) (l1 l2 : List CEv) :
    mirror I wo c (l1 ++ l2) = l2.foldl (mirrorStep I wo c) (mirror I wo c l1) := by
  simp [mirror, List.foldl_append]

theorem ridsOf_append (c : Nat) (l1 l2 : List CEv) : ridsOf c (l1 ++ l2) = ridsOf c l1 ++ ridsOf c l2 := by
  simp [ridsOf, List.filterMap_append]

theorem mirror_other (I : Iface H Op Ret) (wo : Bool) {c c' : Nat} (hne : c' ≠ c) (acc : List (Op × Ret) × Option Op)
    (l : List CEv) (hl : ∀ e ∈ l, (match e with | .send x _ => x | .acc x _ => x) = c') :
    l.foldl (mirrorStep I wo c) acc = acc := by
  induction l generalizing acc with
  | nil => rfl
  | cons e l ih =>
    simp only [List.foldl_cons]
    have he := hl e List.mem_cons_self
    have : mirrorStep I wo c acc e = acc := by
      cases e with
      | send x m => simp only at he; subst he; simp [mirrorStep, hne]
      | acc x m => simp only at he; subst he; simp [mirrorStep, hne]
    rw [this]
    exact ih acc (fun e' he' => hl e' (List.mem_cons_of_mem _ he'))

theorem ridsOf_other {c c' : Nat} (hne : c' ≠ c) (l : List CEv)
    (hl : ∀ e ∈ l, (match e with | .send x _ => x | .acc x _ => x) = c') : ridsOf c l = [] := by
  unfold ridsOf
  rw [List.filterMap_eq_nil_iff]
  intro e he
  have := hl e he
  cases e with
  | send x m => simp only at this; subst this; simp [hne]
  | acc x m => rfl

/-! ### the invariant -/
structure ClientInv (cfg : Cfg) (I : Iface H Op Ret) (V : HistView I) (h : H) (log : List CEv) (snt : List (Nat × Nat))
    (c : Nat) (st : CState) : Prop where
  idx : cfg.nServers ≤ c
  idle : st.awaiting = none → V.inflight h c = none
  busy : ∀ r, st.awaiting = some r → r = st.opCount * c ∧ 1 ≤ st.opCount ∧ (V.inflight h c).isSome = true
  rids : ridsOf c log = (List.range (if st.awaiting.isSome then st.opCount else st.opCount - 1)).map fun j => (j + 1) * c
  mirr : (V.done h c, V.inflight h c) = mirror I cfg.wo c log
  sent : ∀ r, (c, r) ∈ snt ↔ r ∈ ridsOf c log

/-- a thread that is not a started client has nothing recorded, sent or logged -/
structure OtherInv (cfg : Cfg) (I : Iface H Op Ret) (V : HistView I) (h : H) (log : List CEv) (snt : List (Nat × Nat))
    (c : Nat) : Prop where
  infl : V.inflight h c = none
  done : V.done h c = []
  sent : ∀ r, (c, r) ∉ snt
  mirr : mirror I cfg.wo c log = ([], none)
  rids : ridsOf c log = []

structure HInv (cfg : Cfg) (I : Iface H Op Ret) (V : HistView I) (s : HSt H) : Prop where
  good : V.good s.sys.hist
  valid : V.valid s.sys.hist = true
  cSorted : Sorted s.sys.clients
  cBound : ∀ c, c ∈ keys s.sys.clients → c < cfg.nServers + s.sys.clients.length
  cLen : s.sys.clients.length ≤ cfg.clients.length
  client : ∀ c st, find? c s.sys.clients = some st → ClientInv cfg I V s.sys.hist s.log s.sent c st
  other : ∀ c, find? c s.sys.clients = none → OtherInv cfg I V s.sys.hist s.log s.sent c
  poolReply : ∀ c m, (c, m) ∈ s.pool → IsReply cfg.wo m ∧ (c, ridOf m) ∈ s.replied
  repliedSent : ∀ x, x ∈ s.replied → x ∈ s.sent
  pending : ∀ c r, (c, r) ∈ s.sent → (c, r) ∉ s.replied → ∃ st, find? c s.sys.clients = some st ∧ st.awaiting = some r
  poolNodup : cfg.dup = false → (s.pool.map fun x => (x.1, ridOf x.2)).Nodup
  poolAwait : cfg.dup = false → ∀ c m, (c, m) ∈ s.pool → ∃ st, find? c s.sys.clients = some st ∧ st.awaiting = some (ridOf m)

theorem hinv_init (cfg : Cfg) (I : Iface H Op Ret) (V : HistView I) (h0 : H) (hg : V.good h0) (hv : V.valid h0 = true)
    (h0e : ∀ t, V.inflight h0 t = none ∧ V.done h0 t = []) : HInv cfg I V (HSt.init h0) := by
  refine ⟨hg, hv, sorted_nil, ?_, by simp [HSt.init], ?_, ?_, ?_, ?_, ?_, ?_, ?_⟩
  · intro c hc; simp [HSt.init, keys] at hc
  · intro c st h; simp [HSt.init] at h
  · intro c _; exact ⟨(h0e c).1, (h0e c).2, (by simp [HSt.init]), rfl, rfl⟩
  · intro c m h; simp [HSt.init] at h
  · intro x h; simp [HSt.init] at h
  · intro c r h; simp [HSt.init] at h
  · intro _; simp [HSt.init]
  · intro _ c m h; simp [HSt.init] at h

theorem clientAt_actors {cfg : Cfg} {c : Nat} {cl : Client} (h : clientAt cfg.actors c = some cl) :
    cl ∈ cfg.clients ∧ cfg.nServers ≤ c := by
  unfold clientAt Cfg.actors at h
  by_cases hc : c < cfg.nServers
  · rw [List.getElem?_append_left (by simp; exact hc)] at h
    simp [List.getElem?_replicate, hc] at h
  · rw [List.getElem?_append_right (by simp; omega)] at h
    simp only [List.length_replicate, List.getElem?_map] at h
    cases hg : cfg.clients[c - cfg.nServers]? with
    | none => simp [hg] at h
    | some x =>
      simp only [hg, Option.map_some, Option.some.injEq] at h
      subst h
      exact ⟨List.mem_of_getElem? hg, by omega⟩

/-- a reply for the awaited request id is always acted upon -/
theorem onMsg_isSome_of_awaiting {wo : Bool} {cl : Client} {c : Nat} {st : CState} {m : RMsg}
    (hr : IsReply wo m) (ha : st.awaiting = some (ridOf m)) : ∃ x, cl.onMsg wo c st m = some x := by
  cases m <;> simp [IsReply] at hr <;> simp [Client.onMsg, ha, ridOf, hr]

/-- what an accepted reply does to the client -/
theorem onMsg_some {wo : Bool} {cl : Client} {c : Nat} {st st' : CState} {m : RMsg} {outs : List Send}
    (h : cl.onMsg wo c st m = some (st', outs)) :
    st.awaiting = some (ridOf m) ∧ st'.opCount = st.opCount + 1 ∧
    ((st'.awaiting = some ((st.opCount + 1) * c) ∧ outs = [cl.nextReq c st.opCount]) ∨
     (st'.awaiting = none ∧ outs = [])) := by
  unfold Client.onMsg at h
  cases ha : st.awaiting with
  | none => simp [ha] at h
  | some aw =>
    simp only [ha] at h
    cases m with
    | internal => simp at h
    | put r v => simp at h
    | get r => simp at h
    | putOk r =>
      by_cases e : r = aw
      · simp only [e, if_true, Option.some.injEq, Prod.mk.injEq] at h
        obtain ⟨rfl, rfl⟩ := h
        exact ⟨by simp [ridOf, e], rfl, Or.inl ⟨rfl, rfl⟩⟩
      · simp [e] at h
    | putFail r =>
      by_cases e : (wo && decide (r = aw)) = true
      · simp only [e, if_true, Option.some.injEq, Prod.mk.injEq] at h
        obtain ⟨rfl, rfl⟩ := h
        simp only [Bool.and_eq_true, decide_eq_true_eq] at e
        exact ⟨by simp [ridOf, e.2], rfl, Or.inl ⟨rfl, rfl⟩⟩
      · simp [e] at h
    | getOk r v =>
      by_cases e : r = aw
      · simp only [e, if_true, Option.some.injEq, Prod.mk.injEq] at h
        obtain ⟨rfl, rfl⟩ := h
        exact ⟨by simp [ridOf, e], rfl, Or.inr ⟨rfl, rfl⟩⟩
      · simp [e] at h

theorem nextReq_spec (cl : Client) (c k : Nat) :
    ridOf (cl.nextReq c k).2 = (k + 1) * c ∧ ∃ op : RMsg, (cl.nextReq c k).2 = op ∧
      ((∃ v, op = .put ((k + 1) * c) v) ∨ op = .get ((k + 1) * c)) := by
  unfold Client.nextReq
  split
  · exact ⟨rfl, _, rfl, Or.inl ⟨_, rfl⟩⟩
  · exact ⟨rfl, _, rfl, Or.inr rfl⟩

theorem opOfMsg_nextReq (I : Iface H Op Ret) (cl : Client) (c k : Nat) : ∃ op, opOfMsg I (cl.nextReq c k).2 = some op := by
  unfold Client.nextReq
  split <;> simp [opOfMsg]

/-- processing one request send on a valid history whose thread is idle -/
theorem processSends_single (I : Iface H Op Ret) (V : HistView I) (c : Nat) (h : H) (o : Send) {op : Op}
    (hop : opOfMsg I o.2 = some op) : processSends I c h [o] = I.onInvoke h c op := by
  simp [processSends, recordInvocations_eq, hop]

/-- extending log and sent-list with events of another client, and changing the history only at that
    other client's thread, preserves a client's invariant -/
theorem ClientInv.frame {cfg : Cfg} {I : Iface H Op Ret} {V : HistView I} {h h' : H} {log ev : List CEv}
    {snt snt2 : List (Nat × Nat)} {k c : Nat} {st : CState} (hk : c ≠ k)
    (hc : ClientInv cfg I V h log snt k st)
    (hinf : V.inflight h' k = V.inflight h k) (hdone : V.done h' k = V.done h k)
    (hev : ∀ e ∈ ev, (match e with | .send x _ => x | .acc x _ => x) = c)
    (hs : ∀ x ∈ snt2, x.1 = c) : ClientInv cfg I V h' (log ++ ev) (snt ++ snt2) k st := by
  refine ⟨hc.idx, ?_, ?_, ?_, ?_, ?_⟩
  · intro h0; rw [hinf]; exact hc.idle h0
  · intro r h0; rw [hinf]; exact hc.busy r h0
  · rw [ridsOf_append, ridsOf_other hk _ hev, List.append_nil]; exact hc.rids
  · rw [hinf, hdone, mirror_append, mirror_other I cfg.wo hk _ _ hev]; exact hc.mirr
  · intro r
    rw [ridsOf_append, ridsOf_other hk _ hev, List.append_nil, List.mem_append]
    constructor
    · rintro (h0 | h0)
      · exact (hc.sent r).1 h0
      · exact absurd (hs _ h0).symm hk
    · intro h0; exact Or.inl ((hc.sent r).2 h0)

theorem OtherInv.frame {cfg : Cfg} {I : Iface H Op Ret} {V : HistView I} {h h' : H} {log ev : List CEv}
    {snt snt2 : List (Nat × Nat)} {k c : Nat} (hk : c ≠ k)
    (hc : OtherInv cfg I V h log snt k)
    (hinf : V.inflight h' k = V.inflight h k) (hdone : V.done h' k = V.done h k)
    (hev : ∀ e ∈ ev, (match e with | .send x _ => x | .acc x _ => x) = c)
    (hs : ∀ x ∈ snt2, x.1 = c) : OtherInv cfg I V h' (log ++ ev) (snt ++ snt2) k := by
  refine ⟨by rw [hinf]; exact hc.infl, by rw [hdone]; exact hc.done, ?_, ?_, ?_⟩
  · intro r h0
    rcases List.mem_append.1 h0 with h0 | h0
    · exact hc.sent r h0
    · exact hk (hs _ h0).symm
  · rw [mirror_append, mirror_other I cfg.wo hk _ _ hev]; exact hc.mirr
  · rw [ridsOf_append, ridsOf_other hk _ hev, List.append_nil]; exact hc.rids

theorem logOf_client (c : Nat) (outs : List Send) :
    ∀ e ∈ logOf c outs, (match e with | .send x _ => x | .acc x _ => x) = c := by
  intro e he; simp only [logOf, List.mem_map] at he; obtain ⟨o, _, rfl⟩ := he; rfl

theorem sentOf_client (c : Nat) (outs : List Send) : ∀ x ∈ sentOf c outs, x.1 = c := by
  intro x hx; simp only [sentOf, List.mem_map] at hx; obtain ⟨o, _, rfl⟩ := hx; rfl

/-- `on_start`: idle from the start, or one `Put` with request id `1 * index` -/
theorem start_cases {c : Client} {i : Nat} {st : CState} {outs : List Send} (h : c.start i = some (st, outs)) :
    (st = { awaiting := none, opCount := 0 } ∧ outs = []) ∨
    (∃ d v, st = { awaiting := some (1 * i), opCount := 1 } ∧ outs = [(d, .put (1 * i) v)]) := by
  unfold Client.start at h
  split at h
  · cases h
  · split at h
    · simp only [Option.some.injEq, Prod.mk.injEq] at h
      exact Or.inl ⟨h.1.symm, h.2.symm⟩
    · split at h
      · cases h
      · simp only [Option.some.injEq, Prod.mk.injEq] at h
        exact Or.inr ⟨_, _, h.1.symm, h.2.symm⟩

section steps
variable {cfg : Cfg} {I : Iface H Op Ret} (V : HistView I) {s : HSt H}

theorem preserves_start (hI : HInv cfg I V s) {c : Client} {st : CState} {outs : List Send}
    (hcl : cfg.clients[s.sys.clients.length]? = some c)
    (hstart : c.start (cfg.nServers + s.sys.clients.length) = some (st, outs)) :
    HInv cfg I V
      { sys := { clients := s.sys.clients ++ [(cfg.nServers + s.sys.clients.length, st)],
                 hist := processSends I (cfg.nServers + s.sys.clients.length) s.sys.hist outs },
        pool := s.pool,
        sent := s.sent ++ sentOf (cfg.nServers + s.sys.clients.length) outs,
        replied := s.replied,
        log := s.log ++ logOf (cfg.nServers + s.sys.clients.length) outs } := by
  have hlen : s.sys.clients.length < cfg.clients.length := (List.getElem?_eq_some_iff.1 hcl).1
  have hnew : find? (cfg.nServers + s.sys.clients.length) s.sys.clients = none := by
    cases hf : find? (cfg.nServers + s.sys.clients.length) s.sys.clients with
    | none => rfl
    | some x => have := hI.cBound _ (mem_keys_of_find? hf); omega
  have hbound : ∀ k ∈ keys s.sys.clients, k < cfg.nServers + s.sys.clients.length := hI.cBound
  have hcases := start_cases hstart
  generalize hi : cfg.nServers + s.sys.clients.length = i at *
  have ho := hI.other i hnew
  have hfind : ∀ k, find? k (s.sys.clients ++ [(i, st)]) = (find? k s.sys.clients).or (if i = k then some st else none) :=
    fun k => find?_append_single k i st s.sys.clients
  have hev := logOf_client i outs
  have hsn := sentOf_client i outs
  -- the history after processing the start commands, at thread `i` and elsewhere
  have hhist : V.good (processSends I i s.sys.hist outs) ∧ V.valid (processSends I i s.sys.hist outs) = true ∧
      (∀ t', t' ≠ i → V.inflight (processSends I i s.sys.hist outs) t' = V.inflight s.sys.hist t') ∧
      (∀ t', V.done (processSends I i s.sys.hist outs) t' = V.done s.sys.hist t') ∧
      ClientInv cfg I V (processSends I i s.sys.hist outs) (s.log ++ logOf i outs) (s.sent ++ sentOf i outs) i st := by
    rcases hcases with ⟨rfl, rfl⟩ | ⟨d, v, rfl, rfl⟩
    · refine ⟨hI.good, hI.valid, fun _ _ => rfl, fun _ => rfl, ?_⟩
      simp only [processSends, List.foldl_nil, logOf, sentOf, List.map_nil, List.append_nil]
      refine ⟨by omega, fun _ => ho.infl, (by intro r h; cases h), (by simpa using ho.rids), ?_, ?_⟩
      · rw [ho.mirr, ho.infl, ho.done]
      · intro r; rw [ho.rids]; simp; exact ho.sent r
    · have hps : processSends I i s.sys.hist [(d, RMsg.put (1 * i) v)] = I.onInvoke s.sys.hist i (I.write v) :=
        processSends_single I V i _ _ rfl
      obtain ⟨g1, g2, g3, g4, g5⟩ := V.inv_ok s.sys.hist i (I.write v) hI.good hI.valid ho.infl
      rw [hps]
      refine ⟨g1, g2, g4, g5, ?_⟩
      refine ⟨by omega, (by intro h; cases h), ?_, ?_, ?_, ?_⟩
      · intro r h
        simp only [Option.some.injEq] at h
        exact ⟨by rw [← h], Nat.le_refl 1, by rw [g3]; rfl⟩
      · rw [ridsOf_append, ho.rids]
        simp [logOf, ridsOf, ridOf, List.range_succ]
      · rw [g3, g5 i, ho.done, mirror_append, ho.mirr]
        simp [logOf, mirrorStep, opOfMsg]
      · intro r
        rw [ridsOf_append, ho.rids]
        simp only [sentOf, logOf, List.map_cons, List.map_nil, List.mem_append, List.mem_singleton, Prod.mk.injEq, true_and,
          List.nil_append, ridsOf, List.filterMap_cons, if_true, List.filterMap_nil]
        constructor
        · rintro (h | h)
          · exact absurd h (ho.sent r)
          · exact h
        · intro h; exact Or.inr h
  obtain ⟨k1, k2, k3, k4, k5⟩ := hhist
  refine ⟨k1, k2, sorted_append_single hI.cSorted hbound, ?_, ?_, ?_, ?_, hI.poolReply, ?_, ?_, hI.poolNodup, ?_⟩
  · intro k hk
    simp only [keys, List.map_append, List.mem_append, List.map_cons, List.map_nil, List.mem_singleton, List.length_append,
      List.length_singleton] at hk ⊢
    rcases hk with hk | hk
    · have := hbound k (by simpa [keys] using hk); omega
    · omega
  · simp only [List.length_append, List.length_singleton]; omega
  · intro k st' hf
    rw [hfind] at hf
    cases hk : find? k s.sys.clients with
    | some x =>
      simp only [hk, Option.some_or, Option.some.injEq] at hf; subst hf
      have hki : i ≠ k := by intro e; rw [← e, hnew] at hk; cases hk
      exact (hI.client k x hk).frame hki (k3 k (fun e => hki e.symm)) (k4 k) hev hsn
    | none =>
      simp only [hk, Option.none_or] at hf
      by_cases e : i = k
      · subst e
        simp only [if_true, Option.some.injEq] at hf; subst hf
        exact k5
      · simp [e] at hf
  · intro k hf
    rw [hfind] at hf
    cases hk : find? k s.sys.clients with
    | some x => simp [hk] at hf
    | none =>
      simp only [hk, Option.none_or] at hf
      have hki : i ≠ k := by intro e; simp [e] at hf
      exact (hI.other k hk).frame hki (k3 k (fun e => hki e.symm)) (k4 k) hev hsn
  · intro x hx; exact List.mem_append_left _ (hI.repliedSent x hx)
  · intro k r h1 h2
    rcases List.mem_append.1 h1 with h1a | h1b
    · obtain ⟨st0, h3, h4⟩ := hI.pending k r h1a h2
      exact ⟨st0, by rw [hfind, h3]; rfl, h4⟩
    · have hkr : k = i ∧ st.awaiting = some r := by
        rcases hcases with ⟨rfl, rfl⟩ | ⟨d, v, rfl, rfl⟩
        · simp [sentOf] at h1b
        · simp [sentOf, ridOf] at h1b
          exact ⟨h1b.1, by rw [h1b.2]; simp⟩
      obtain ⟨rfl, h4⟩ := hkr
      exact ⟨st, by rw [hfind, hnew]; simp, h4⟩
  · intro hd k m hm
    obtain ⟨st0, h3, h4⟩ := hI.poolAwait hd k m hm
    exact ⟨st0, by rw [hfind, h3]; rfl, h4⟩

theorem preserves_emit (hI : HInv cfg I V s) {c : Nat} {m : RMsg}
    (hrep : IsReply cfg.wo m) (hsent : (c, ridOf m) ∈ s.sent) (hnrep : (c, ridOf m) ∉ s.replied) :
    HInv cfg I V { s with pool := s.pool ++ [(c, m)], replied := (c, ridOf m) :: s.replied } := by
  refine ⟨hI.good, hI.valid, hI.cSorted, hI.cBound, hI.cLen, hI.client, hI.other, ?_, ?_, ?_, ?_, ?_⟩
  · intro k m' hm
    rcases List.mem_append.1 hm with hm | hm
    · obtain ⟨h1, h2⟩ := hI.poolReply k m' hm
      exact ⟨h1, List.mem_cons_of_mem _ h2⟩
    · simp only [List.mem_singleton, Prod.mk.injEq] at hm
      obtain ⟨rfl, rfl⟩ := hm
      exact ⟨hrep, List.mem_cons_self⟩
  · intro x hx
    rcases List.mem_cons.1 hx with rfl | hx
    · exact hsent
    · exact hI.repliedSent x hx
  · intro k r h1 h2
    exact hI.pending k r h1 (fun h => h2 (List.mem_cons_of_mem _ h))
  · intro hd
    show ((s.pool ++ [(c, m)]).map fun x => (x.1, ridOf x.2)).Nodup
    rw [List.map_append, List.nodup_append]
    refine ⟨hI.poolNodup hd, by simp, ?_⟩
    intro a ha b hb
    simp only [List.map_cons, List.map_nil, List.mem_singleton] at hb; subst hb
    intro e; subst e
    simp only [List.mem_map] at ha
    obtain ⟨x, hx, hxe⟩ := ha
    have := (hI.poolReply x.1 x.2 hx).2
    rw [hxe] at this
    exact hnrep this
  · intro hd k m' hm
    rcases List.mem_append.1 hm with hm | hm
    · exact hI.poolAwait hd k m' hm
    · simp only [List.mem_singleton, Prod.mk.injEq] at hm
      obtain ⟨rfl, rfl⟩ := hm
      exact hI.pending k (ridOf m') hsent hnrep

theorem preserves_drop (hI : HInv cfg I V s) (c : Nat) (m : RMsg) :
    HInv cfg I V { s with pool := s.pool.erase (c, m) } := by
  refine ⟨hI.good, hI.valid, hI.cSorted, hI.cBound, hI.cLen, hI.client, hI.other, ?_, hI.repliedSent, hI.pending, ?_, ?_⟩
  · intro k m' hm; exact hI.poolReply k m' (List.mem_of_mem_erase hm)
  · intro hd
    show ((s.pool.erase (c, m)).map fun x => (x.1, ridOf x.2)).Nodup
    exact nodup_map_erase (fun x : Nat × RMsg => (x.1, ridOf x.2)) (hI.poolNodup hd) (c, m)
  · intro hd k m' hm; exact hI.poolAwait hd k m' (List.mem_of_mem_erase hm)

theorem no_ignored (hcfg : cfg.Ok) (hI : HInv cfg I V s) {c : Nat} {m : RMsg} {cl : Client} {st : CState} {sys' : RSys H}
    (hpool : (c, m) ∈ s.pool) (hfind : find? c s.sys.clients = some st) (hmsg : cl.onMsg cfg.wo c st m = none)
    (hdel : deliverClient I cfg.wo cfg.ordered cl s.sys c m = some sys') : False := by
  have hord : cfg.ordered = true := by
    unfold deliverClient at hdel
    simp only [hfind, hmsg] at hdel
    by_cases ho : cfg.ordered = true
    · exact ho
    · simp [ho] at hdel
  have hd := hcfg.net hord
  obtain ⟨st0, h3, h4⟩ := hI.poolAwait hd c m hpool
  rw [hfind] at h3; cases h3
  obtain ⟨x, hx⟩ := onMsg_isSome_of_awaiting (cl := cl) (c := c) (hI.poolReply c m hpool).1 h4
  rw [hmsg] at hx; cases hx

theorem preserves_deliver (hI : HInv cfg I V s) {c : Nat} {m : RMsg} {cl : Client} {st st' : CState}
    {outs : List Send} {sys' : RSys H}
    (hpool : (c, m) ∈ s.pool) (hcl : clientAt cfg.actors c = some cl)
    (hfind : find? c s.sys.clients = some st) (hmsg : cl.onMsg cfg.wo c st m = some (st', outs))
    (hdel : deliverClient I cfg.wo cfg.ordered cl s.sys c m = some sys') :
    HInv cfg I V
      { sys := sys',
        pool := if cfg.dup then s.pool else s.pool.erase (c, m),
        sent := s.sent ++ sentOf c outs,
        replied := s.replied,
        log := s.log ++ CEv.acc c m :: logOf c outs } := by
  obtain ⟨hclmem, hidx⟩ := clientAt_actors hcl
  obtain ⟨haw, hoc, hout⟩ := onMsg_some hmsg
  obtain ⟨hrep, hreplied⟩ := hI.poolReply c m hpool
  obtain ⟨r, hr⟩ := retOfMsg_isSome_of_isReply I hrep
  have hci := hI.client c st hfind
  obtain ⟨_, _, hinfl⟩ := hci.busy _ haw
  cases hop : V.inflight s.sys.hist c with
  | none => rw [hop] at hinfl; cases hinfl
  | some op =>
    obtain ⟨r1, r2, r3, r4, r5, r6⟩ := V.ret_ok s.sys.hist c op r hI.good hI.valid hop
    have hsys : sys' = RSys.mk (upsert c st' s.sys.clients) (processSends I c (I.onReturn s.sys.hist c r) outs) := by
      unfold deliverClient at hdel
      simp only [hfind, hmsg, Option.some.injEq] at hdel
      rw [← hdel, recordReturns_eq, hr]; rfl
    subst hsys
    have hmir := hci.mirr
    rw [hop] at hmir
    have hfindU : ∀ k, find? k (upsert c st' s.sys.clients) = if c = k then some st' else find? k s.sys.clients :=
      fun k => find?_upsert c k st' s.sys.clients
    have hlenU : (upsert c st' s.sys.clients).length = s.sys.clients.length :=
      length_upsert_of_some hI.cSorted (by rw [hfind]; rfl)
    have hevs : ∀ e ∈ CEv.acc c m :: logOf c outs, (match e with | .send x _ => x | .acc x _ => x) = c := by
      intro e he
      rcases List.mem_cons.1 he with rfl | he
      · rfl
      · exact logOf_client c outs e he
    have hsn := sentOf_client c outs
    -- the new history: flags for thread `c` and the other threads
    have hhist : ∃ h', processSends I c (I.onReturn s.sys.hist c r) outs = h' ∧ V.good h' ∧ V.valid h' = true ∧
        (∀ t', t' ≠ c → V.inflight h' t' = V.inflight s.sys.hist t') ∧
        (∀ t', t' ≠ c → V.done h' t' = V.done s.sys.hist t') ∧
        V.done h' c = V.done s.sys.hist c ++ [(op, r)] ∧
        ((outs = [] ∧ st'.awaiting = none ∧ V.inflight h' c = none) ∨
         (∃ op', outs = [cl.nextReq c st.opCount] ∧ st'.awaiting = some ((st.opCount + 1) * c) ∧
            opOfMsg I (cl.nextReq c st.opCount).2 = some op' ∧ V.inflight h' c = some op')) := by
      rcases hout with ⟨h1, rfl⟩ | ⟨h1, rfl⟩
      · obtain ⟨op', hop'⟩ := opOfMsg_nextReq I cl c st.opCount
        obtain ⟨g1, g2, g3, g4, g5⟩ := V.inv_ok (I.onReturn s.sys.hist c r) c op' r1 r2 r3
        refine ⟨I.onInvoke (I.onReturn s.sys.hist c r) c op', processSends_single I V c _ _ hop', g1, g2, ?_, ?_, ?_,
          Or.inr ⟨op', rfl, h1, hop', g3⟩⟩
        · intro t' ht; rw [g4 t' ht, r4 t' ht]
        · intro t' ht; rw [g5 t', r6 t' ht]
        · rw [g5 c, r5]
      · exact ⟨I.onReturn s.sys.hist c r, rfl, r1, r2, r4, r6, r5, Or.inl ⟨rfl, h1, r3⟩⟩
    obtain ⟨h', hh', k1, k2, k3, k4, k5, k6⟩ := hhist
    rw [hh']
    have hmirc : mirror I cfg.wo c (s.log ++ CEv.acc c m :: logOf c outs) = (V.done h' c, V.inflight h' c) := by
      rw [mirror_append, ← hmir]
      simp only [List.foldl_cons, mirrorStep, if_true, hr]
      rcases k6 with ⟨rfl, _, k6⟩ | ⟨op', rfl, _, hop', k6⟩
      · simp [logOf, k5, k6]
      · simp [logOf, mirrorStep, hop', k5, k6]
    have hpoolsub : ∀ k m', (k, m') ∈ (if cfg.dup then s.pool else s.pool.erase (c, m)) → (k, m') ∈ s.pool := by
      intro k m' hm
      by_cases hd : cfg.dup = true
      · simpa [hd] using hm
      · simp only [hd, Bool.false_eq_true, if_false] at hm; exact List.mem_of_mem_erase hm
    refine ⟨k1, k2, sorted_upsert hI.cSorted, ?_, ?_, ?_, ?_, ?_, ?_, ?_, ?_, ?_⟩
    · intro k hk
      show k < cfg.nServers + (upsert c st' s.sys.clients).length
      rw [hlenU]
      rcases mem_keys_upsert.1 hk with rfl | hk
      · exact hI.cBound _ (mem_keys_of_find? hfind)
      · exact hI.cBound k hk
    · show (upsert c st' s.sys.clients).length ≤ _
      rw [hlenU]; exact hI.cLen
    · intro k stk hf
      have hf' : find? k (upsert c st' s.sys.clients) = some stk := hf
      rw [hfindU] at hf'
      by_cases e : c = k
      · subst e
        simp only [if_true, Option.some.injEq] at hf'; subst hf'
        refine ⟨hidx, ?_, ?_, ?_, hmirc.symm, ?_⟩
        · intro hnone
          rcases k6 with ⟨_, _, k6⟩ | ⟨op', _, h2, _⟩
          · exact k6
          · rw [h2] at hnone; cases hnone
        · intro r' hr'
          rcases k6 with ⟨_, h2, _⟩ | ⟨op', _, h2, _, k6⟩
          · rw [h2] at hr'; cases hr'
          · rw [h2] at hr'; simp only [Option.some.injEq] at hr'
            exact ⟨by rw [← hr', hoc], by omega, by rw [k6]; rfl⟩
        · rw [ridsOf_append, hci.rids, hoc, haw]
          rcases k6 with ⟨rfl, h2, _⟩ | ⟨op', rfl, h2, _, _⟩
          · simp [h2, ridsOf, logOf]
          · simp [h2, ridsOf, logOf, List.range_succ, (nextReq_spec cl c st.opCount).1]
        · intro r'
          show (c, r') ∈ s.sent ++ sentOf c outs ↔ r' ∈ ridsOf c (s.log ++ CEv.acc c m :: logOf c outs)
          rw [ridsOf_append, List.mem_append, List.mem_append, hci.sent r']
          have : (c, r') ∈ sentOf c outs ↔ r' ∈ ridsOf c (CEv.acc c m :: logOf c outs) := by
            simp only [sentOf, logOf, ridsOf, List.mem_map, List.filterMap_cons, List.mem_filterMap, Prod.mk.injEq, true_and]
            constructor
            · rintro ⟨o, ho, rfl⟩; exact ⟨_, ⟨o, ho, rfl⟩, by simp⟩
            · rintro ⟨e, ⟨o, ho, rfl⟩, he⟩; simp at he; exact ⟨o, ho, he⟩
          rw [this]
      · simp only [e, if_false] at hf'
        have hkc : k ≠ c := fun e' => e e'.symm
        exact (hI.client k stk hf').frame e (k3 k hkc) (k4 k hkc) hevs hsn
    · intro k hf
      have hf' : find? k (upsert c st' s.sys.clients) = none := hf
      rw [hfindU] at hf'
      by_cases e : c = k
      · simp [e] at hf'
      · simp only [e, if_false] at hf'
        have hkc : k ≠ c := fun e' => e e'.symm
        exact (hI.other k hf').frame e (k3 k hkc) (k4 k hkc) hevs hsn
    · intro k m' hm; exact hI.poolReply k m' (hpoolsub k m' hm)
    · intro x hx; exact List.mem_append_left _ (hI.repliedSent x hx)
    · intro k r' h1 h2
      show ∃ st0, find? k (upsert c st' s.sys.clients) = some st0 ∧ st0.awaiting = some r'
      rcases List.mem_append.1 h1 with h1a | h1b
      · obtain ⟨st0, h3, h4⟩ := hI.pending k r' h1a h2
        by_cases e : c = k
        · subst e
          rw [hfind] at h3; cases h3
          rw [haw] at h4; simp only [Option.some.injEq] at h4
          rw [← h4] at h2
          exact absurd hreplied h2
        · exact ⟨st0, by rw [hfindU]; simp [e, h3], h4⟩
      · simp only [sentOf, List.mem_map, Prod.mk.injEq] at h1b
        obtain ⟨o, ho, rfl, rfl⟩ := h1b
        rcases k6 with ⟨rfl, _, _⟩ | ⟨op', rfl, h3, _, _⟩
        · simp at ho
        · simp only [List.mem_singleton] at ho; subst ho
          exact ⟨st', by rw [hfindU]; simp, by rw [h3, (nextReq_spec cl c st.opCount).1]⟩
    · intro hd
      simp only [hd, Bool.false_eq_true, if_false]
      exact nodup_map_erase _ (hI.poolNodup hd) _
    · intro hd k m' hm
      show ∃ st0, find? k (upsert c st' s.sys.clients) = some st0 ∧ st0.awaiting = some (ridOf m')
      have hm1 : (k, m') ∈ s.pool.erase (c, m) := by simpa [hd] using hm
      have hm' := List.mem_of_mem_erase hm1
      obtain ⟨st0, h3, h4⟩ := hI.poolAwait hd k m' hm'
      by_cases e : c = k
      · subst e
        exfalso
        rw [hfind] at h3; cases h3
        rw [haw] at h4; simp only [Option.some.injEq] at h4
        have := not_mem_erase_of_nodup_map (fun x : Nat × RMsg => (x.1, ridOf x.2)) (hI.poolNodup hd) hpool hm1
        exact this (by simp [h4])
      · exact ⟨st0, by rw [hfindU]; simp [e, h3], h4⟩

theorem step_preserves (hcfg : cfg.Ok) {s' : HSt H} (hI : HInv cfg I V s) (hstep : Step cfg I s s') : HInv cfg I V s' := by
  cases hstep with
  | start hcl hstart => exact preserves_start V hI hcl hstart
  | emit hrep hsent hnrep => exact preserves_emit V hI hrep hsent hnrep
  | deliver hpool hcl hfind hmsg hdel => exact preserves_deliver V hI hpool hcl hfind hmsg hdel
  | deliverIgnored hpool hcl hfind hmsg hdel => exact (no_ignored V hcfg hI hpool hfind hmsg hdel).elim
  | drop hpool => exact preserves_drop V hI _ _

theorem reach_inv (hcfg : cfg.Ok) {h0 : H} (hg : V.good h0) (hv : V.valid h0 = true)
    (h0e : ∀ t, V.inflight h0 t = none ∧ V.done h0 t = []) {s : HSt H} (hr : Reach cfg I h0 s) : HInv cfg I V s := by
  induction hr with
  | init => exact hinv_init cfg I V h0 hg hv h0e
  | step _ hstep ih => exact step_preserves V hcfg ih hstep

end steps

/-! ### the views of the two testers -/
section views
variable {S : Type}

theorem getD_orInsert {β : Type} (t t' : Nat) (m : List (Nat × List β)) :
    (find? t' (orInsert t [] m)).getD [] = (find? t' m).getD [] := by
  rw [find?_orInsert]
  by_cases c : t = t' ∧ find? t m = none
  · obtain ⟨rfl, c2⟩ := c; simp [c2]
  · simp [c]

/-- what `Tester` (either flag) shows: `is_valid_history`, `in_flight_by_thread[t]`, `history_by_thread[t]` -/
def testerView (rt : Bool) (I : Iface (Tester S Op Ret) Op Ret)
    (hi : ∀ T t op, I.onInvoke T t op = (Tester.onInvoke rt T t op).1)
    (hr : ∀ T t r, I.onReturn T t r = (Tester.onReturn T t r).1) : HistView I where
  good T := Sorted T.hist ∧ Sorted T.inflight
  valid T := T.valid
  inflight T t := (find? t T.inflight).map (·.2)
  done T t := ((find? t T.hist).getD []).map fun x => (x.2.1, x.2.2)
  inv_ok := by
    intro T t op hg hv hinf
    have hnone : find? t T.inflight = none := by
      cases hf : find? t T.inflight with
      | none => rfl
      | some x => simp [hf] at hinf
    rw [hi]
    simp only [Tester.onInvoke, hv, Bool.not_true, Bool.false_eq_true, if_false, hnone]
    refine ⟨⟨sorted_orInsert hg.1, sorted_upsert hg.2⟩, trivial, ?_, ?_, ?_⟩
    · simp [find?_upsert_self]
    · intro t' ht; rw [find?_upsert_ne (fun e => ht e.symm)]
    · intro t'; rw [getD_orInsert]
  ret_ok := by
    intro T t op r hg hv hinf
    cases hf : find? t T.inflight with
    | none => simp [hf] at hinf
    | some x =>
      obtain ⟨lc, op'⟩ := x
      simp only [hf, Option.map_some, Option.some.injEq] at hinf
      subst hinf
      rw [hr]
      simp only [Tester.onReturn, hv, Bool.not_true, Bool.false_eq_true, if_false, hf]
      refine ⟨⟨sorted_upsert hg.1, sorted_erase hg.2⟩, trivial, ?_, ?_, ?_, ?_⟩
      · simp [find?_erase hg.2]
      · intro t' ht; rw [find?_erase hg.2]; simp [ht]
      · simp [find?_upsert_self]
      · intro t' ht; rw [find?_upsert_ne (fun e => ht e.symm)]

def scView (I : Iface (SCTester S Op Ret) Op Ret)
    (hi : ∀ T t op, I.onInvoke T t op = (SCTester.onInvoke T t op).1)
    (hr : ∀ T t r, I.onReturn T t r = (SCTester.onReturn T t r).1) : HistView I where
  good T := Sorted T.hist ∧ Sorted T.inflight
  valid T := T.valid
  inflight T t := find? t T.inflight
  done T t := (find? t T.hist).getD []
  inv_ok := by
    intro T t op hg hv hinf
    rw [hi]
    simp only [SCTester.onInvoke, hv, Bool.not_true, Bool.false_eq_true, if_false, hinf]
    refine ⟨⟨sorted_orInsert hg.1, sorted_upsert hg.2⟩, trivial, ?_, ?_, ?_⟩
    · simp [find?_upsert_self]
    · intro t' ht; rw [find?_upsert_ne (fun e => ht e.symm)]
    · intro t'; rw [getD_orInsert]
  ret_ok := by
    intro T t op r hg hv hinf
    rw [hr]
    simp only [SCTester.onReturn, hv, Bool.not_true, Bool.false_eq_true, if_false, hinf]
    refine ⟨⟨sorted_upsert hg.1, sorted_erase hg.2⟩, trivial, ?_, ?_, ?_, ?_⟩
    · simp [find?_erase hg.2]
    · intro t' ht; rw [find?_erase hg.2]; simp [ht]
    · simp [find?_upsert_self]
    · intro t' ht; rw [find?_upsert_ne (fun e => ht e.symm)]

def viewRegLin : HistView regLin := testerView true regLin (fun _ _ _ => rfl) (fun _ _ _ => rfl)
def viewRegSC : HistView regSC := scView regSC (fun _ _ _ => rfl) (fun _ _ _ => rfl)
def viewWoLin : HistView woLin := testerView true woLin (fun _ _ _ => rfl) (fun _ _ _ => rfl)
def viewWoSC : HistView woSC := scView woSC (fun _ _ _ => rfl) (fun _ _ _ => rfl)

/-- a fresh tester is good, valid and empty -/
theorem testerView_new (rt : Bool) (I : Iface (Tester S Op Ret) Op Ret) hi hr (s0 : S) :
    (testerView rt I hi hr).good (Tester.new s0) ∧ (testerView rt I hi hr).valid (Tester.new s0) = true ∧
    ∀ t, (testerView rt I hi hr).inflight (Tester.new s0) t = none ∧ (testerView rt I hi hr).done (Tester.new s0) t = [] :=
  ⟨⟨sorted_nil, sorted_nil⟩, rfl, fun _ => ⟨rfl, rfl⟩⟩

theorem scView_new (I : Iface (SCTester S Op Ret) Op Ret) hi hr (s0 : S) :
    (scView I hi hr).good (SCTester.new s0) ∧ (scView I hi hr).valid (SCTester.new s0) = true ∧
    ∀ t, (scView I hi hr).inflight (SCTester.new s0) t = none ∧ (scView I hi hr).done (SCTester.new s0) t = [] :=
  ⟨⟨sorted_nil, sorted_nil⟩, rfl, fun _ => ⟨rfl, rfl⟩⟩

end views

/-! ### `init_states` is a sequence of `start` steps -/
theorem initFrom_servers (I : Iface H Op Ret) (n i : Nat) (rest : List ActorDesc) (s : RSys H) :
    initFrom I i (List.replicate n (.server []) ++ rest) s = initFrom I (i + n) rest s := by
  induction n generalizing i with
  | zero => simp
  | succ n ih =>
    simp only [List.replicate_succ, List.cons_append, initFrom, processSends, List.foldl_nil]
    rw [ih]; congr 1; omega

theorem init_reach (cfg : Cfg) (I : Iface H Op Ret) (h0 : H) :
    ∀ (k : Nat) (s : HSt H) (sys : RSys H), Reach cfg I h0 s → s.sys.clients.length = k →
      initFrom I (cfg.nServers + k) ((cfg.clients.drop k).map .client) s.sys = some sys →
      ∃ s', Reach cfg I h0 s' ∧ s'.sys = sys ∧ s'.pool = s.pool := by
  intro k
  -- induction on the number of clients still to start
  generalize hn : cfg.clients.length - k = n
  induction n generalizing k with
  | zero =>
    intro s sys hr hk hi
    have : cfg.clients.drop k = [] := List.drop_eq_nil_of_le (by omega)
    rw [this] at hi
    simp only [List.map_nil, initFrom, Option.some.injEq] at hi
    exact ⟨s, hr, hi, rfl⟩
  | succ n ih =>
    intro s sys hr hk hi
    have hlt : k < cfg.clients.length := by omega
    have hd : cfg.clients.drop k = cfg.clients[k] :: cfg.clients.drop (k + 1) := List.drop_eq_getElem_cons hlt
    rw [hd] at hi
    simp only [List.map_cons, initFrom] at hi
    cases hst : (cfg.clients[k]).start (cfg.nServers + k) with
    | none => simp [hst] at hi
    | some res =>
      obtain ⟨st, outs⟩ := res
      simp only [hst] at hi
      have hcl : cfg.clients[s.sys.clients.length]? = some cfg.clients[k] := by
        rw [hk]; exact List.getElem?_eq_getElem hlt
      have hstep := Step.start (cfg := cfg) (I := I) (s := s) hcl (by rw [hk]; exact hst)
      have := ih (k + 1) (by omega) _ sys (Reach.step hr hstep) (by simp [hk])
      rw [hk] at this
      have e : cfg.nServers + k + 1 = cfg.nServers + (k + 1) := by omega
      rw [e] at hi
      exact this hi

/-- the executable `init` (what `init_states` computes for clients and history) is reachable -/
theorem init_is_reachable (cfg : Cfg) (I : Iface H Op Ret) (h0 : H) (sys : RSys H)
    (h : RC.init I h0 cfg.actors = some sys) : ∃ s, Reach cfg I h0 s ∧ s.sys = sys ∧ s.pool = [] := by
  unfold RC.init Cfg.actors at h
  rw [initFrom_servers] at h
  have := init_reach cfg I h0 0 (HSt.init h0) sys Reach.init rfl (by simpa [HSt.init] using h)
  obtain ⟨s', h1, h2, h3⟩ := this
  exact ⟨s', h1, h2, h3⟩

end SR.Sem.RC
