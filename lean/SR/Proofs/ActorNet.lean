import SR.Actor.Net
/-! Helper lemmas about the sorted-list sets/maps and the three networks (used by Props/C06, C07, C09). -/
namespace SR.Actor

/-! ### sets -/
section sets
variable {α : Type} [DecidableEq α]

theorem mem_sinsRaw (lt : α → α → Bool) (a x : α) (l : List α) :
    x ∈ sinsRaw lt a l ↔ x = a ∨ x ∈ l := by
  induction l with
  | nil => simp [sinsRaw]
  | cons b l ih =>
    unfold sinsRaw
    split
    · simp
    · simp [ih]; grind

theorem mem_sins (lt : α → α → Bool) (a x : α) (l : List α) : x ∈ sins lt a l ↔ x = a ∨ x ∈ l := by
  unfold sins
  split
  · constructor
    · exact Or.inr
    · rintro (rfl | h) <;> assumption
  · exact mem_sinsRaw lt a x l

theorem mem_srem (a x : α) (l : List α) : x ∈ srem a l ↔ x ∈ l ∧ x ≠ a := by
  simp [srem, List.mem_filter]

theorem nodup_sinsRaw (lt : α → α → Bool) (a : α) (l : List α) (h : a ∉ l) (hn : l.Nodup) :
    (sinsRaw lt a l).Nodup := by
  induction l with
  | nil => simp [sinsRaw]
  | cons b l ih =>
    unfold sinsRaw
    split
    · exact List.nodup_cons.2 ⟨h, hn⟩
    · have hb := List.nodup_cons.1 hn
      refine List.nodup_cons.2 ⟨?_, ih (fun h' => h (List.mem_cons_of_mem _ h')) hb.2⟩
      rw [mem_sinsRaw]
      rintro (rfl | h')
      · exact h (List.mem_cons_self)
      · exact hb.1 h'

theorem nodup_sins (lt : α → α → Bool) (a : α) (l : List α) (hn : l.Nodup) : (sins lt a l).Nodup := by
  unfold sins
  split
  · exact hn
  · exact nodup_sinsRaw lt a l ‹_› hn

theorem nodup_srem (a : α) (l : List α) (hn : l.Nodup) : (srem a l).Nodup := by
  unfold srem; exact hn.filter _

end sets

/-! ### maps -/
section maps
variable {κ β : Type} [DecidableEq κ]

theorem alookup_eq_none {k : κ} {l : List (κ × β)} : alookup k l = none ↔ k ∉ l.map (·.1) := by
  induction l with
  | nil => simp [alookup]
  | cons p l ih =>
    obtain ⟨k', v⟩ := p
    unfold alookup
    by_cases h : k = k'
    · simp [h]
    · simp [h, ih]

theorem alookup_mem {k : κ} {v : β} {l : List (κ × β)} (h : alookup k l = some v) : (k, v) ∈ l := by
  induction l with
  | nil => simp [alookup] at h
  | cons p l ih =>
    obtain ⟨k', v'⟩ := p
    unfold alookup at h
    by_cases hk : k = k'
    · simp [hk] at h; subst hk; subst h; exact List.mem_cons_self
    · simp [hk] at h; exact List.mem_cons_of_mem _ (ih h)

theorem alookup_of_mem_nodup {k : κ} {v : β} {l : List (κ × β)} (hn : (l.map (·.1)).Nodup) (h : (k, v) ∈ l) :
    alookup k l = some v := by
  induction l with
  | nil => simp at h
  | cons p l ih =>
    obtain ⟨k', v'⟩ := p
    simp only [List.map_cons, List.nodup_cons] at hn
    unfold alookup
    rcases List.mem_cons.1 h with h1 | h1
    · cases h1; simp
    · have : k ≠ k' := by
        intro e
        exact hn.1 (List.mem_map.2 ⟨(k, v), h1, e⟩)
      simp [this, ih hn.2 h1]

theorem alookup_ainsRaw (lt : κ → κ → Bool) (k k' : κ) (v : β) (l : List (κ × β)) (hk : alookup k' l = none) :
    alookup k (ainsRaw lt k' v l) = if k = k' then some v else alookup k l := by
  induction l with
  | nil => simp [ainsRaw, alookup]
  | cons p l ih =>
    obtain ⟨k1, v1⟩ := p
    unfold ainsRaw
    have hne : k' ≠ k1 := by
      intro h; subst h; simp [alookup] at hk
    have hk2 : alookup k' l = none := by
      unfold alookup at hk; simpa [hne] using hk
    split
    · by_cases h : k = k' <;> simp [alookup, h]
    · by_cases h : k = k'
      · subst h; simp [alookup, hne, ih hk2]
      · by_cases h1 : k = k1
        · subst h1; simp [alookup, h]
        · simp [alookup, h1, h, ih hk2]

theorem alookup_aset (k k' : κ) (v : β) (l : List (κ × β)) :
    alookup k (aset k' v l) = if k = k' then (alookup k' l).map (fun _ => v) else alookup k l := by
  induction l with
  | nil => simp [aset, alookup]
  | cons p l ih =>
    obtain ⟨k1, v1⟩ := p
    unfold aset at ih ⊢
    by_cases h1 : k1 = k'
    · subst h1
      by_cases h : k = k1
      · subst h; simp [alookup]
      · simp [alookup, h]; simpa [h] using ih
    · by_cases h : k = k'
      · subst h
        have : ¬ k = k1 := fun e => h1 e.symm
        simp [alookup, h1, this]; simpa using ih
      · by_cases h2 : k = k1
        · simp [alookup, h1, h2]
        · simp [alookup, h1, h2]; simpa [h] using ih

theorem alookup_ainsert (lt : κ → κ → Bool) (k k' : κ) (v : β) (l : List (κ × β)) :
    alookup k (ainsert lt k' v l) = if k = k' then some v else alookup k l := by
  unfold ainsert
  cases h : alookup k' l with
  | none => simp [alookup_ainsRaw lt k k' v l h]
  | some w => simp [alookup_aset, h]

theorem alookup_aremove (k k' : κ) (l : List (κ × β)) :
    alookup k (aremove k' l) = if k = k' then none else alookup k l := by
  induction l with
  | nil => simp [aremove, alookup]
  | cons p l ih =>
    obtain ⟨k1, v1⟩ := p
    unfold aremove at ih ⊢
    by_cases h1 : k1 = k'
    · subst h1
      by_cases h : k = k1
      · subst h; simpa using ih
      · simp [List.filter, alookup, h]; simpa [h] using ih
    · by_cases h : k = k'
      · subst h
        have : ¬ k = k1 := fun e => h1 e.symm
        simp [List.filter, h1, alookup, this]; simpa using ih
      · by_cases h2 : k = k1
        · simp [List.filter, h1, alookup, h2]
        · simp [List.filter, h1, alookup, h2]; simpa [h] using ih

theorem keys_aset (k : κ) (v : β) (l : List (κ × β)) : (aset k v l).map (·.1) = l.map (·.1) := by
  unfold aset
  rw [List.map_map]
  apply List.map_congr_left
  intro p _
  by_cases h : p.1 = k <;> simp [h]

theorem mem_keys_ainsRaw (lt : κ → κ → Bool) (k x : κ) (v : β) (l : List (κ × β)) :
    x ∈ (ainsRaw lt k v l).map (·.1) ↔ x = k ∨ x ∈ l.map (·.1) := by
  induction l with
  | nil => simp [ainsRaw]
  | cons p l ih =>
    obtain ⟨k1, v1⟩ := p
    unfold ainsRaw
    split
    · simp
    · simp only [List.map_cons, List.mem_cons, ih]; grind

theorem nodup_keys_ainsRaw (lt : κ → κ → Bool) (k : κ) (v : β) (l : List (κ × β)) (h : k ∉ l.map (·.1))
    (hn : (l.map (·.1)).Nodup) : ((ainsRaw lt k v l).map (·.1)).Nodup := by
  induction l with
  | nil => simp [ainsRaw]
  | cons p l ih =>
    obtain ⟨k1, v1⟩ := p
    unfold ainsRaw
    split
    · exact List.nodup_cons.2 ⟨h, hn⟩
    · simp only [List.map_cons, List.nodup_cons] at hn ⊢
      refine ⟨?_, ih (fun h' => h (by simp [h'])) hn.2⟩
      rw [mem_keys_ainsRaw]
      rintro (rfl | h')
      · exact h (by simp)
      · exact hn.1 h'

theorem nodup_keys_ainsert (lt : κ → κ → Bool) (k : κ) (v : β) (l : List (κ × β))
    (hn : (l.map (·.1)).Nodup) : ((ainsert lt k v l).map (·.1)).Nodup := by
  unfold ainsert
  cases h : alookup k l with
  | none => exact nodup_keys_ainsRaw lt k v l (alookup_eq_none.1 h) hn
  | some w => simpa [keys_aset] using hn

theorem nodup_keys_aremove (k : κ) (l : List (κ × β)) (hn : (l.map (·.1)).Nodup) :
    ((aremove k l).map (·.1)).Nodup := by
  unfold aremove
  exact (List.Sublist.map _ List.filter_sublist).nodup hn

theorem mem_aset {k : κ} {v : β} {l : List (κ × β)} {p : κ × β} (h : p ∈ aset k v l) :
    p ∈ l ∨ p = (k, v) := by
  unfold aset at h
  obtain ⟨q, hq, rfl⟩ := List.mem_map.1 h
  by_cases hk : q.1 = k
  · right; simp [hk]
  · left; simpa [hk] using hq

theorem mem_ainsRaw {lt : κ → κ → Bool} {k : κ} {v : β} {l : List (κ × β)} {p : κ × β}
    (h : p ∈ ainsRaw lt k v l) : p ∈ l ∨ p = (k, v) := by
  induction l with
  | nil => simp [ainsRaw] at h; exact Or.inr h
  | cons q l ih =>
    obtain ⟨k1, v1⟩ := q
    unfold ainsRaw at h
    split at h
    · rcases List.mem_cons.1 h with h | h
      · exact Or.inr h
      · exact Or.inl h
    · rcases List.mem_cons.1 h with h | h
      · exact Or.inl (h ▸ List.mem_cons_self)
      · rcases ih h with h | h
        · exact Or.inl (List.mem_cons_of_mem _ h)
        · exact Or.inr h

theorem mem_ainsert {lt : κ → κ → Bool} {k : κ} {v : β} {l : List (κ × β)} {p : κ × β}
    (h : p ∈ ainsert lt k v l) : p ∈ l ∨ p = (k, v) := by
  unfold ainsert at h
  split at h
  · exact mem_aset h
  · exact mem_ainsRaw h

theorem mem_aremove {k : κ} {l : List (κ × β)} {p : κ × β} (h : p ∈ aremove k l) : p ∈ l :=
  (List.mem_filter.1 h).1

end maps

end SR.Actor
