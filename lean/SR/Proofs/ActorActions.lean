import SR.Proofs.ActorSys
import SR.Proofs.ActorNetTrace
/-! Membership in `actions` (helper lemmas for C06_actions_complete, C07_actions, C09_offered) and the
network invariant of reachable system states. -/
namespace SR.Actor

variable {σ η : Type}

def chan (e : Env) : Nat × Nat := (e.src, e.dst)

theorem mem_netActions (sys : ActorSys σ η) (L : List Env) (prev : Option (Nat × Nat))
    (hd : sys.initNet.isOrdered = true → (L.map chan).Nodup ∧ ∀ c, prev = some c → c ∉ L.map chan) (a : Action) :
    a ∈ netActions sys prev L ↔
      (∃ e, a = .deliver e ∧ e ∈ L ∧ e.dst < sys.n) ∨ (∃ e, a = .drop e ∧ sys.lossy = true ∧ e ∈ L) := by
  induction L generalizing prev with
  | nil => simp [netActions]
  | cons e es ih =>
    have hdrop : ∀ x : Action, x ∈ (if sys.lossy then [Action.drop e] else []) ↔ (x = .drop e ∧ sys.lossy = true) := by
      intro x; by_cases hl : sys.lossy <;> simp [hl]
    have tail : ∀ prev', (sys.initNet.isOrdered = true → ∀ c, prev' = some c → c ∉ es.map chan) →
        (a ∈ netActions sys prev' es ↔
          (∃ e, a = .deliver e ∧ e ∈ es ∧ e.dst < sys.n) ∨ (∃ e, a = .drop e ∧ sys.lossy = true ∧ e ∈ es)) := by
      intro prev' hp
      apply ih
      intro ho
      have := (hd ho).1
      simp only [List.map_cons, List.nodup_cons] at this
      exact ⟨this.2, hp ho⟩
    unfold netActions
    by_cases hn : e.dst < sys.n
    · by_cases ho : sys.initNet.isOrdered = true
      · have hne : ¬ prev = some (e.src, e.dst) := by
          intro hp
          exact (hd ho).2 _ hp (by simp [chan])
        simp only [hn, ho, hne, if_true, if_false, List.mem_append, hdrop, List.mem_singleton]
        rw [tail (some (e.src, e.dst)) (by
          intro _ c hc; cases hc
          have := (hd ho).1
          simp only [List.map_cons, List.nodup_cons] at this
          exact this.1)]
        constructor
        · rintro ((⟨rfl, hl⟩ | rfl) | (⟨x, rfl, hx, hxn⟩ | ⟨x, rfl, hl, hx⟩))
          · exact Or.inr ⟨e, rfl, hl, List.mem_cons_self⟩
          · exact Or.inl ⟨e, rfl, List.mem_cons_self, hn⟩
          · exact Or.inl ⟨x, rfl, List.mem_cons_of_mem _ hx, hxn⟩
          · exact Or.inr ⟨x, rfl, hl, List.mem_cons_of_mem _ hx⟩
        · rintro (⟨x, rfl, hx, hxn⟩ | ⟨x, rfl, hl, hx⟩)
          · rcases List.mem_cons.1 hx with rfl | hx
            · exact Or.inl (Or.inr rfl)
            · exact Or.inr (Or.inl ⟨x, rfl, hx, hxn⟩)
          · rcases List.mem_cons.1 hx with rfl | hx
            · exact Or.inl (Or.inl ⟨rfl, hl⟩)
            · exact Or.inr (Or.inr ⟨x, rfl, hl, hx⟩)
      · simp only [hn, ho, if_true, if_false, List.mem_append, hdrop, List.mem_singleton, Bool.false_eq_true]
        rw [tail prev (by intro h; exact absurd h ho)]
        constructor
        · rintro ((⟨rfl, hl⟩ | rfl) | (⟨x, rfl, hx, hxn⟩ | ⟨x, rfl, hl, hx⟩))
          · exact Or.inr ⟨e, rfl, hl, List.mem_cons_self⟩
          · exact Or.inl ⟨e, rfl, List.mem_cons_self, hn⟩
          · exact Or.inl ⟨x, rfl, List.mem_cons_of_mem _ hx, hxn⟩
          · exact Or.inr ⟨x, rfl, hl, List.mem_cons_of_mem _ hx⟩
        · rintro (⟨x, rfl, hx, hxn⟩ | ⟨x, rfl, hl, hx⟩)
          · rcases List.mem_cons.1 hx with rfl | hx
            · exact Or.inl (Or.inr rfl)
            · exact Or.inr (Or.inl ⟨x, rfl, hx, hxn⟩)
          · rcases List.mem_cons.1 hx with rfl | hx
            · exact Or.inl (Or.inl ⟨rfl, hl⟩)
            · exact Or.inr (Or.inr ⟨x, rfl, hl, hx⟩)
    · simp only [hn, if_false, List.mem_append, hdrop]
      rw [tail prev (by
        intro ho c hc
        have := (hd ho).2 c hc
        intro hm; exact this (by simp [hm]))]
      constructor
      · rintro (⟨rfl, hl⟩ | (⟨x, rfl, hx, hxn⟩ | ⟨x, rfl, hl, hx⟩))
        · exact Or.inr ⟨e, rfl, hl, List.mem_cons_self⟩
        · exact Or.inl ⟨x, rfl, List.mem_cons_of_mem _ hx, hxn⟩
        · exact Or.inr ⟨x, rfl, hl, List.mem_cons_of_mem _ hx⟩
      · rintro (⟨x, rfl, hx, hxn⟩ | ⟨x, rfl, hl, hx⟩)
        · rcases List.mem_cons.1 hx with rfl | hx
          · exact absurd hxn hn
          · exact Or.inr (Or.inl ⟨x, rfl, hx, hxn⟩)
        · rcases List.mem_cons.1 hx with rfl | hx
          · exact Or.inl ⟨rfl, hl⟩
          · exact Or.inr (Or.inr ⟨x, rfl, hl, hx⟩)

theorem netActions_kinds (sys : ActorSys σ η) (prev : Option (Nat × Nat)) (L : List Env) (a : Action)
    (h : a ∈ netActions sys prev L) : (∃ e, a = .deliver e) ∨ (∃ e, a = .drop e) := by
  induction L generalizing prev with
  | nil => simp [netActions] at h
  | cons e es ih =>
    unfold netActions at h
    have hd : ∀ x : Action, x ∈ (if sys.lossy then [Action.drop e] else []) → x = .drop e := by
      intro x hx; by_cases hl : sys.lossy <;> simp [hl] at hx; exact hx
    by_cases h1 : e.dst < sys.n
    · by_cases h2 : sys.initNet.isOrdered = true
      · by_cases h3 : prev = some (e.src, e.dst)
        · simp only [h1, h2, h3, if_true, List.mem_append] at h
          rcases h with h | h
          · exact Or.inr ⟨e, hd a h⟩
          · exact ih _ h
        · simp only [h1, h2, h3, if_true, if_false, List.mem_append, List.mem_singleton] at h
          rcases h with (h | h) | h
          · exact Or.inr ⟨e, hd a h⟩
          · exact Or.inl ⟨e, h⟩
          · exact ih _ h
      · simp only [h1, h2, if_true, if_false, List.mem_append, List.mem_singleton, Bool.false_eq_true] at h
        rcases h with (h | h) | h
        · exact Or.inr ⟨e, hd a h⟩
        · exact Or.inl ⟨e, h⟩
        · exact ih _ h
    · simp only [h1, if_false, List.mem_append] at h
      rcases h with h | h
      · exact Or.inr ⟨e, hd a h⟩
      · exact ih _ h

theorem mem_timeoutActions (timers : List (List Nat)) (a : Action) :
    a ∈ timeoutActions timers ↔ ∃ i t ts, a = .timeout i t ∧ timers[i]? = some ts ∧ t ∈ ts := by
  simp only [timeoutActions, List.mem_flatMap, List.mem_map]
  constructor
  · rintro ⟨⟨ts, i⟩, hp, t, ht, rfl⟩
    exact ⟨i, t, ts, rfl, List.mem_zipIdx_iff_getElem?.1 hp, ht⟩
  · rintro ⟨i, t, ts, rfl, hts, ht⟩
    exact ⟨(ts, i), List.mem_zipIdx_iff_getElem?.2 hts, t, ht, rfl⟩

theorem mem_crashActions (k : Nat) (crashed : List Bool) (a : Action) :
    a ∈ crashActions k crashed ↔ ∃ i, a = .crash i ∧ countCrashed crashed < k ∧ crashed[i]? = some false := by
  unfold crashActions
  by_cases hk : countCrashed crashed < k
  · simp only [hk, if_true, List.mem_filterMap]
    constructor
    · rintro ⟨⟨b, i⟩, hp, ha⟩
      have hb := List.mem_zipIdx_iff_getElem?.1 hp
      cases b with
      | true => simp at ha
      | false => simp at ha; exact ⟨i, ha.symm, trivial, hb⟩
    · rintro ⟨i, rfl, _, hi⟩
      exact ⟨(false, i), List.mem_zipIdx_iff_getElem?.2 hi, by simp⟩
  · simp [hk]

theorem mem_randomActions (random : List (List (Nat × List Nat))) (a : Action) :
    a ∈ randomActions random ↔ ∃ i k r m cs, a = .selectRandom i k r ∧ random[i]? = some m ∧ (k, cs) ∈ m ∧ r ∈ cs := by
  simp only [randomActions, List.mem_flatMap, List.mem_map]
  constructor
  · rintro ⟨⟨m, i⟩, hp, ⟨k, cs⟩, hkv, r, hr, rfl⟩
    exact ⟨i, k, r, m, cs, rfl, List.mem_zipIdx_iff_getElem?.1 hp, hkv, hr⟩
  · rintro ⟨i, k, r, m, cs, rfl, hm, hkv, hr⟩
    exact ⟨(m, i), List.mem_zipIdx_iff_getElem?.2 hm, (k, cs), hkv, r, hr, rfl⟩

/-! ### the network of a reachable state is canonical and of the configured kind -/

def sameKind : Net → Net → Prop
  | .dup _ _, .dup _ _ => True
  | .nondup _, .nondup _ => True
  | .ord _, .ord _ => True
  | _, _ => False

theorem sameKind_refl (n : Net) : sameKind n n := by cases n <;> trivial

theorem sameKind_trans {a b c : Net} (h1 : sameKind a b) (h2 : sameKind b c) : sameKind a c := by
  cases a <;> cases b <;> cases c <;> simp_all [sameKind]

theorem sameKind_send (n : Net) (e : Env) : sameKind n (n.send e) := by cases n <;> trivial

theorem sameKind_apply {n n' : Net} {op : NetOp} (h : n.apply op = some n') : sameKind n n' := by
  cases op with
  | send e => simp [Net.apply] at h; subst h; exact sameKind_send n e
  | deliver e =>
    cases n with
    | dup s l => simp [Net.apply, Net.onDeliver] at h; subst h; trivial
    | nondup ms =>
      simp only [Net.apply, Net.onDeliver, Net.removeOne] at h
      split at h
      · cases h
      · split at h
        · cases h
        · split at h <;> (cases h; trivial)
    | ord fl =>
      simp only [Net.apply, Net.onDeliver, Net.removeOne] at h
      split at h
      · cases h
      · split at h
        · cases h
        · split at h <;> (cases h; trivial)
  | drop e =>
    cases n with
    | dup s l => simp [Net.apply, Net.onDrop] at h; subst h; trivial
    | nondup ms =>
      simp only [Net.apply, Net.onDrop, Net.removeOne] at h
      split at h
      · cases h
      · split at h
        · cases h
        · split at h <;> (cases h; trivial)
    | ord fl =>
      simp only [Net.apply, Net.onDrop, Net.removeOne] at h
      split at h
      · cases h
      · split at h
        · cases h
        · split at h <;> (cases h; trivial)

theorem sameKind_isOrdered {a b : Net} (h : sameKind a b) : a.isOrdered = b.isOrdered := by
  cases a <;> cases b <;> simp_all [sameKind, Net.isOrdered]

theorem canon_sendAll {n : Net} (hc : n.Canon) (es : List Env) : (sendAll n es).Canon := by
  induction es generalizing n with
  | nil => exact hc
  | cons e es ih => exact ih (canon_send hc e)

theorem sameKind_sendAll (n : Net) (es : List Env) : sameKind n (sendAll n es) := by
  induction es generalizing n with
  | nil => exact sameKind_refl n
  | cons e es ih => exact sameKind_trans (sameKind_send n e) (ih _)

/-- network invariant of system states -/
def St.NetOk (sys : ActorSys σ η) (st : St σ η) : Prop := st.net.Canon ∧ sameKind sys.initNet st.net

theorem consume_ok {n n' : Net} {a : Action} (hc : n.Canon) (h : consume n a = some n') :
    n'.Canon ∧ sameKind n n' := by
  cases a with
  | deliver e => exact ⟨canon_apply (op := .deliver e) hc h, sameKind_apply (op := .deliver e) h⟩
  | drop e => exact ⟨canon_apply (op := .drop e) hc h, sameKind_apply (op := .drop e) h⟩
  | timeout i t => simp [consume] at h; subst h; exact ⟨hc, sameKind_refl _⟩
  | crash i => simp [consume] at h; subst h; exact ⟨hc, sameKind_refl _⟩
  | selectRandom i k r => simp [consume] at h; subst h; exact ⟨hc, sameKind_refl _⟩

theorem netOk_specStep {sys : ActorSys σ η} {st st' : St σ η} {a : Action} (hok : st.NetOk sys)
    (h : specStep sys st a = .next st') : st'.NetOk sys := by
  have key : ∀ (i : Nat) (ev : Event), specHandlerStep sys st a i ev = .next st' → st'.NetOk sys := by
    intro i ev h
    obtain ⟨s, ns, cmds, _, _, _, _, hn⟩ := specHandlerStep_next h
    unfold specNext at hn
    split at hn
    · rename_i net ts m hc _ _
      simp only [Option.some.injEq] at hn
      subst hn
      obtain ⟨h1, h2⟩ := consume_ok hok.1 hc
      exact ⟨canon_sendAll h1 _, sameKind_trans hok.2 (sameKind_trans h2 (sameKind_sendAll _ _))⟩
    · cases hn
  cases a with
  | drop e =>
    simp only [specStep] at h
    cases hd : st.net.onDrop e with
    | none => simp [hd] at h
    | some net =>
      simp [hd] at h; subst h
      obtain ⟨h1, h2⟩ := consume_ok (a := .drop e) hok.1 hd
      exact ⟨h1, sameKind_trans hok.2 h2⟩
  | crash i =>
    simp only [specStep] at h
    by_cases hi : i < sys.n
    · simp [hi] at h; subst h; exact hok
    · simp [hi] at h
  | deliver e => exact key e.dst (.msg e.src e.msg) (by simpa [specStep, eventOf] using h)
  | timeout i t => exact key i (.timeout t) (by simpa [specStep, eventOf] using h)
  | selectRandom i k r => exact key i (.random r) (by simpa [specStep, eventOf] using h)

theorem netOk_specInit (sys : ActorSys σ η) (hc : sys.initNet.Canon) : (specInit sys).NetOk sys :=
  ⟨canon_sendAll hc _, sameKind_sendAll _ _⟩

/-- membership in `actions` is declarative enabledness -/
theorem mem_actions_iff (sys : ActorSys σ η) (st : St σ η) (hn : st.NetOk sys) (a : Action) :
    a ∈ actions sys st ↔ enabledSpec sys st a := by
  have hnet : ∀ a, a ∈ netActions sys none st.net.iterDeliverable ↔
      (∃ e, a = .deliver e ∧ e ∈ st.net.iterDeliverable ∧ e.dst < sys.n) ∨
      (∃ e, a = .drop e ∧ sys.lossy = true ∧ e ∈ st.net.iterDeliverable) := by
    intro a
    apply mem_netActions
    intro ho
    refine ⟨?_, by intro c hc; cases hc⟩
    have hk := sameKind_isOrdered hn.2
    rw [ho] at hk
    cases hnet : st.net with
    | dup _ _ => rw [hnet] at hk; simp [Net.isOrdered] at hk
    | nondup _ => rw [hnet] at hk; simp [Net.isOrdered] at hk
    | ord flows =>
      have hc := hn.1
      rw [hnet] at hc
      have hkeys := hc.2
      simp only [Net.iterDeliverable]
      clear hnet hc hk
      induction flows with
      | nil => simp
      | cons p fl ih =>
        simp only [List.map_cons, List.nodup_cons] at hkeys
        rw [List.filterMap_cons]
        cases hh : p.2.head? with
        | none => simpa [hh] using ih hkeys.2
        | some m =>
          simp only [hh, Option.map_some, List.map_cons, List.nodup_cons]
          refine ⟨?_, ih hkeys.2⟩
          intro hmem
          obtain ⟨e', he', hce⟩ := List.mem_map.1 hmem
          obtain ⟨p', hp', hpe⟩ := List.mem_filterMap.1 he'
          cases hh' : p'.2.head? with
          | none => simp [hh'] at hpe
          | some m' =>
            simp [hh'] at hpe
            subst hpe
            apply hkeys.1
            refine List.mem_map.2 ⟨p', hp', ?_⟩
            simp only [chan] at hce
            exact Prod.ext (by simpa using congrArg Prod.fst hce) (by simpa using congrArg Prod.snd hce)
  simp only [actions, List.mem_append, hnet, mem_timeoutActions, mem_crashActions, mem_randomActions]
  cases a with
  | deliver e => simp [enabledSpec]
  | drop e => simp [enabledSpec]
  | timeout i t =>
    simp only [enabledSpec, reduceCtorEq, false_and, exists_false, or_false, false_or, Action.timeout.injEq]
    constructor
    · rintro ⟨i', t', ts, ⟨rfl, rfl⟩, h1, h2⟩
      exact ⟨ts, h1, h2⟩
    · rintro ⟨ts, h1, h2⟩
      exact ⟨i, t, ts, ⟨rfl, rfl⟩, h1, h2⟩
  | crash i => simp [enabledSpec]
  | selectRandom i k r =>
    simp only [enabledSpec, reduceCtorEq, false_and, exists_false, or_false, false_or, Action.selectRandom.injEq]
    constructor
    · rintro ⟨i', k', r', m, cs, ⟨rfl, rfl, rfl⟩, h1, h2, h3⟩
      exact ⟨m, cs, h1, h2, h3⟩
    · rintro ⟨m, cs, h1, h2, h3⟩
      exact ⟨i, k, r, m, cs, ⟨rfl, rfl, rfl⟩, h1, h2, h3⟩


theorem toOption_eq_some {α : Type} {o : Outcome α} {s : α} : o.toOption = some s ↔ o = .next s := by
  cases o <;> simp [Outcome.toOption]

/-- every state reachable in the actor model is well-formed and has a canonical network of the configured kind -/
theorem reach_inv (sys : ActorSys σ η) (inB : St σ η → Bool) (hc : sys.initNet.Canon) {st : St σ η}
    (h : (sys.toSys inB).Reach st) : st.WF sys ∧ st.NetOk sys := by
  induction h with
  | init hi =>
    simp only [Sys.initB, ActorSys.toSys, init_eq_specInit, List.mem_filter, Option.toList, List.mem_singleton] at hi
    rw [hi.1]
    exact ⟨wf_specInit sys, netOk_specInit sys hc⟩
  | @step s t _ hs ih =>
    obtain ⟨⟨a, _, ha⟩, _⟩ := Sys.mem_succB.1 hs
    have hst : step sys s a = .next t := toOption_eq_some.1 ha
    exact ⟨wf_step ih.1 hst, netOk_specStep ih.2 (by rw [← step_eq_specStep sys _ a ih.1]; exact hst)⟩

end SR.Actor
