import SR.Proofs.SemSearch
/-!
Recording: the tester obtained by `record rt s0 es` from a well-formed history satisfies `Link`
with `es` — queue entries are the completed operations of each thread in order, the recorded
last-completed maps say exactly who returned before the invocation (C08_bookkeeping), in-flight
entries are the pending invocations.
-/
namespace SR.Sem
open AMap Tester
variable {S Op Ret : Type}

theorem snoc_induction {α : Type} {P : List α → Prop} (nil : P []) (snoc : ∀ l a, P l → P (l ++ [a])) :
    ∀ l, P l := by
  have : ∀ l : List α, P l.reverse := by
    intro l
    induction l with
    | nil => exact nil
    | cons a l ih => rw [List.reverse_cons]; exact snoc _ _ ih
  intro l
  have := this l.reverse
  rwa [List.reverse_reverse] at this

/-! ### `invsOf` / `retsOf` under extension -/
def newInv (n t : Nat) : Event Op Ret → List (Nat × Op)
  | .inv t' op => if t' = t then [(n, op)] else []
  | .ret _ _ => []

def newRet (n t : Nat) : Event Op Ret → List (Nat × Ret)
  | .ret t' r => if t' = t then [(n, r)] else []
  | .inv _ _ => []

theorem invsOf_snoc (es : List (Event Op Ret)) (e : Event Op Ret) (t : Nat) :
    invsOf (es ++ [e]) t = invsOf es t ++ newInv es.length t e := by
  unfold invsOf
  rw [List.zipIdx_append, List.filterMap_append]
  congr 1
  cases e with
  | inv t' op => by_cases h : t' = t <;> simp [newInv, h]
  | ret t' r => simp [newInv]

theorem retsOf_snoc (es : List (Event Op Ret)) (e : Event Op Ret) (t : Nat) :
    retsOf (es ++ [e]) t = retsOf es t ++ newRet es.length t e := by
  unfold retsOf
  rw [List.zipIdx_append, List.filterMap_append]
  congr 1
  cases e with
  | inv t' op => simp [newRet]
  | ret t' r => by_cases h : t' = t <;> simp [newRet, h]

@[simp] theorem invsOf_nil (t : Nat) : invsOf ([] : List (Event Op Ret)) t = [] := rfl
@[simp] theorem retsOf_nil (t : Nat) : retsOf ([] : List (Event Op Ret)) t = [] := rfl

theorem invsOf_pos_lt (es : List (Event Op Ret)) (t : Nat) : ∀ x ∈ invsOf es t, x.1 < es.length := by
  induction es using snoc_induction with
  | nil => simp
  | snoc es e ih =>
    intro x hx
    rw [invsOf_snoc] at hx
    rcases List.mem_append.1 hx with h | h
    · have := ih x h; simp; omega
    · cases e with
      | inv t' op =>
        by_cases ht : t' = t
        · simp [newInv, ht] at h; subst h; simp
        · simp [newInv, ht] at h
      | ret t' r => simp [newInv] at h

theorem retsOf_pos_lt (es : List (Event Op Ret)) (t : Nat) : ∀ x ∈ retsOf es t, x.1 < es.length := by
  induction es using snoc_induction with
  | nil => simp
  | snoc es e ih =>
    intro x hx
    rw [retsOf_snoc] at hx
    rcases List.mem_append.1 hx with h | h
    · have := ih x h; simp; omega
    · cases e with
      | ret t' r =>
        by_cases ht : t' = t
        · simp [newRet, ht] at h; subst h; simp
        · simp [newRet, ht] at h
      | inv t' op => simp [newRet] at h

theorem retPos_lt {es : List (Event Op Ret)} {a : OpId} {q : Nat} (h : retPos es a = some q) : q < es.length := by
  unfold retPos at h
  cases hg : (retsOf es a.1)[a.2]? with
  | none => simp [hg] at h
  | some x =>
    simp only [hg, Option.map_some, Option.some.injEq] at h
    subst h
    exact retsOf_pos_lt es a.1 x (List.mem_of_getElem? hg)

theorem invPos_lt {es : List (Event Op Ret)} {a : OpId} {p : Nat} (h : invPos es a = some p) : p < es.length := by
  unfold invPos at h
  cases hg : (invsOf es a.1)[a.2]? with
  | none => simp [hg] at h
  | some x =>
    simp only [hg, Option.map_some, Option.some.injEq] at h
    subst h
    exact invsOf_pos_lt es a.1 x (List.mem_of_getElem? hg)

theorem retPos_isSome_iff {es : List (Event Op Ret)} {a : OpId} : (∃ q, retPos es a = some q) ↔ a.2 < (retsOf es a.1).length := by
  unfold retPos
  constructor
  · rintro ⟨q, h⟩
    cases hg : (retsOf es a.1)[a.2]? with
    | none => simp [hg] at h
    | some x => exact (List.getElem?_eq_some_iff.1 hg).1
  · intro h
    exact ⟨_, by rw [List.getElem?_eq_getElem h]; rfl⟩

theorem retAt_isSome_iff {es : List (Event Op Ret)} {a : OpId} : (∃ r, retAt es a = some r) ↔ a.2 < (retsOf es a.1).length := by
  unfold retAt
  constructor
  · rintro ⟨q, h⟩
    cases hg : (retsOf es a.1)[a.2]? with
    | none => simp [hg] at h
    | some x => exact (List.getElem?_eq_some_iff.1 hg).1
  · intro h
    exact ⟨_, by rw [List.getElem?_eq_getElem h]; rfl⟩

theorem opAt_isSome_iff {es : List (Event Op Ret)} {a : OpId} : (∃ o, opAt es a = some o) ↔ a.2 < (invsOf es a.1).length := by
  unfold opAt
  constructor
  · rintro ⟨q, h⟩
    cases hg : (invsOf es a.1)[a.2]? with
    | none => simp [hg] at h
    | some x => exact (List.getElem?_eq_some_iff.1 hg).1
  · intro h
    exact ⟨_, by rw [List.getElem?_eq_getElem h]; rfl⟩

theorem invPos_isSome_of_opAt {es : List (Event Op Ret)} {a : OpId} {o : Op} (h : opAt es a = some o) :
    ∃ p, invPos es a = some p := by
  unfold opAt at h; unfold invPos
  cases hg : (invsOf es a.1)[a.2]? with
  | none => simp [hg] at h
  | some x => exact ⟨x.1, rfl⟩

/-- old operations keep their data when the history is extended -/
theorem opAt_snoc_of_lt {es : List (Event Op Ret)} {e : Event Op Ret} {a : OpId} (h : a.2 < (invsOf es a.1).length) :
    opAt (es ++ [e]) a = opAt es a := by
  unfold opAt; rw [invsOf_snoc, List.getElem?_append_left h]

theorem invPos_snoc_of_lt {es : List (Event Op Ret)} {e : Event Op Ret} {a : OpId} (h : a.2 < (invsOf es a.1).length) :
    invPos (es ++ [e]) a = invPos es a := by
  unfold invPos; rw [invsOf_snoc, List.getElem?_append_left h]

theorem retAt_snoc_of_lt {es : List (Event Op Ret)} {e : Event Op Ret} {a : OpId} (h : a.2 < (retsOf es a.1).length) :
    retAt (es ++ [e]) a = retAt es a := by
  unfold retAt; rw [retsOf_snoc, List.getElem?_append_left h]

theorem retPos_snoc_of_lt {es : List (Event Op Ret)} {e : Event Op Ret} {a : OpId} (h : a.2 < (retsOf es a.1).length) :
    retPos (es ++ [e]) a = retPos es a := by
  unfold retPos; rw [retsOf_snoc, List.getElem?_append_left h]

/-- a return position in the extended history is an old one or the new last position -/
theorem retPos_snoc {es : List (Event Op Ret)} {e : Event Op Ret} {a : OpId} {q : Nat}
    (h : retPos (es ++ [e]) a = some q) : retPos es a = some q ∨ q = es.length := by
  by_cases hl : a.2 < (retsOf es a.1).length
  · left; rw [← retPos_snoc_of_lt hl]; exact h
  · right
    unfold retPos at h
    rw [retsOf_snoc, List.getElem?_append_right (by omega)] at h
    cases e with
    | inv t' op => simp [newRet] at h
    | ret t' r =>
      by_cases ht : t' = a.1
      · simp only [newRet, ht, if_true] at h
        cases hi : a.2 - (retsOf es a.1).length with
        | zero => simp [hi] at h; exact h.symm
        | succ n => simp [hi] at h
      · simp [newRet, ht] at h

theorem invPos_snoc {es : List (Event Op Ret)} {e : Event Op Ret} {a : OpId} {p : Nat}
    (h : invPos (es ++ [e]) a = some p) : invPos es a = some p ∨ p = es.length := by
  by_cases hl : a.2 < (invsOf es a.1).length
  · left; rw [← invPos_snoc_of_lt hl]; exact h
  · right
    unfold invPos at h
    rw [invsOf_snoc, List.getElem?_append_right (by omega)] at h
    cases e with
    | ret t' op => simp [newInv] at h
    | inv t' r =>
      by_cases ht : t' = a.1
      · simp only [newInv, ht, if_true] at h
        cases hi : a.2 - (invsOf es a.1).length with
        | zero => simp [hi] at h; exact h.symm
        | succ n => simp [hi] at h
      · simp [newInv, ht] at h

/-- real-time precedence towards an already invoked operation is not affected by later events -/
theorem precedesRT_snoc {es : List (Event Op Ret)} {e : Event Op Ret} {a b : OpId}
    (hb : b.2 < (invsOf es b.1).length) : PrecedesRT (es ++ [e]) a b ↔ PrecedesRT es a b := by
  unfold PrecedesRT
  rw [invPos_snoc_of_lt hb]
  constructor
  · rintro ⟨q, p, hq, hp, hlt⟩
    rcases retPos_snoc hq with h | h
    · exact ⟨q, p, h, hp, hlt⟩
    · have := invPos_lt hp; omega
  · rintro ⟨q, p, hq, hp, hlt⟩
    have : a.2 < (retsOf es a.1).length := retPos_isSome_iff.1 ⟨q, hq⟩
    exact ⟨q, p, by rw [retPos_snoc_of_lt this]; exact hq, hp, hlt⟩

theorem LcOk.snoc {rt : Bool} {es : List (Event Op Ret)} {e : Event Op Ret} {b : OpId} {lc : LC}
    (h : LcOk rt es b lc) (hb : b.2 < (invsOf es b.1).length) : LcOk rt (es ++ [e]) b lc :=
  ⟨h.sorted, h.self, fun a ha => by rw [precedesRT_snoc hb]; exact h.iff a ha⟩

/-! ### well-formedness under extension -/
theorem wellFormed_snoc {es : List (Event Op Ret)} {e : Event Op Ret} :
    WellFormed (es ++ [e]) ↔ WellFormed es ∧ Admissible es e := by
  constructor
  · intro h
    refine ⟨?_, h es e [] rfl⟩
    intro p e' q heq
    exact h p e' (q ++ [e]) (by rw [heq]; simp)
  · rintro ⟨h1, h2⟩ p e' q heq
    rcases List.eq_nil_or_concat q with rfl | ⟨q', e'', rfl⟩
    · have := List.append_inj' heq (by simp)
      obtain ⟨rfl, h3⟩ := this
      cases h3; exact h2
    · rw [List.concat_eq_append, ← List.cons_append, ← List.append_assoc] at heq
      have := List.append_inj' heq (by simp)
      exact h1 p e' q' this.1

theorem wellFormed_nil : WellFormed ([] : List (Event Op Ret)) := by
  intro p e q h
  have := congrArg List.length h
  simp at this

/-! ### the recording invariant -/
structure RInv (rt : Bool) (es : List (Event Op Ret)) (T : Tester S Op Ret) : Prop where
  valid : T.valid = true
  hSorted : Sorted T.hist
  fSorted : Sorted T.inflight
  sameThread : ∀ t i j q p, retPos es (t, i) = some q → invPos es (t, j) = some p → q < p → i < j
  hist : ∀ t, ((find? t T.hist).getD []).length = (retsOf es t).length ∧
    ∀ i lc op r, ((find? t T.hist).getD [])[i]? = some (lc, op, r) →
      opAt es (t, i) = some op ∧ retAt es (t, i) = some r ∧ LcOk rt es (t, i) lc
  infl : ∀ t lc op, find? t T.inflight = some (lc, op) →
    (find? t T.hist).isSome = true ∧ (invsOf es t).length = (retsOf es t).length + 1 ∧
    opAt es (t, (retsOf es t).length) = some op ∧ LcOk rt es (t, (retsOf es t).length) lc
  noinfl : ∀ t, find? t T.inflight = none → (invsOf es t).length = (retsOf es t).length

theorem RInv.inFlight_iff {rt : Bool} {es : List (Event Op Ret)} {T : Tester S Op Ret} (h : RInv rt es T) (t : Nat) :
    InFlightIn es t ↔ (find? t T.inflight).isSome = true := by
  unfold InFlightIn
  cases hf : find? t T.inflight with
  | none => have := h.noinfl t hf; simp; omega
  | some x => have := (h.infl t x.1 x.2 hf).2.1; simp; omega

theorem rinv_nil (rt : Bool) (s0 : S) : RInv rt ([] : List (Event Op Ret)) (Tester.new s0) := by
  refine ⟨rfl, sorted_nil, sorted_nil, ?_, ?_, ?_, ?_⟩
  · intro t i j q p h; simp [retPos] at h
  · intro t; simp [Tester.new]
  · intro t lc op h; simp [Tester.new] at h
  · intro t _; simp

theorem lastCompleted_eq (hist : List (Nat × List (LC × Op × Ret))) (t : Nat) :
    lastCompleted true hist t =
      hist.filterMap fun e => ((fun k (cs : List (LC × Op × Ret)) => if k = t ∨ cs.isEmpty then none else some (cs.length - 1)) e.1 e.2).map fun x => (e.1, x) := by
  unfold lastCompleted
  simp only [if_true]
  congr 1
  funext e
  split <;> simp_all

theorem find?_lastCompleted {hist : List (Nat × List (LC × Op × Ret))} (hs : Sorted hist) (t p : Nat) :
    find? p (lastCompleted true hist t) =
      (find? p hist).bind fun cs => if p = t ∨ cs.isEmpty then none else some (cs.length - 1) := by
  rw [lastCompleted_eq]
  exact find?_filterMap (fun k (cs : List (LC × Op × Ret)) => if k = t ∨ cs.isEmpty then none else some (cs.length - 1)) p hs

theorem sorted_lastCompleted {hist : List (Nat × List (LC × Op × Ret))} (hs : Sorted hist) (rt : Bool) (t : Nat) :
    Sorted (lastCompleted rt hist t) := by
  cases rt with
  | false => simp [lastCompleted, sorted_nil]
  | true =>
    rw [lastCompleted_eq]
    exact sorted_filterMap (fun k (cs : List (LC × Op × Ret)) => if k = t ∨ cs.isEmpty then none else some (cs.length - 1)) hs

/-- C08_bookkeeping at the moment of invocation: the recorded map captures exactly the operations
    of other threads that have returned so far -/
theorem lcOk_lastCompleted {rt : Bool} {es : List (Event Op Ret)} {T : Tester S Op Ret} (h : RInv rt es T)
    (t : Nat) (op : Op) (hnf : (invsOf es t).length = (retsOf es t).length) :
    LcOk rt (es ++ [.inv t op]) (t, (retsOf es t).length) (lastCompleted rt T.hist t) := by
  have hinv : invPos (es ++ [Event.inv t op]) (t, (retsOf es t).length) = some es.length := by
    unfold invPos
    rw [invsOf_snoc]
    simp only [newInv, if_true]
    rw [List.getElem?_append_right (by omega)]
    simp [hnf]
  refine ⟨sorted_lastCompleted h.hSorted rt t, ?_, ?_⟩
  · cases rt with
    | false => simp [lastCompleted]
    | true =>
      rw [find?_lastCompleted h.hSorted]
      cases find? t T.hist <;> simp
  · intro a ha
    simp only at ha
    have hpre : PrecedesRT (es ++ [Event.inv t op]) a (t, (retsOf es t).length) ↔ a.2 < (retsOf es a.1).length := by
      unfold PrecedesRT
      rw [hinv]
      have hr : retsOf (es ++ [Event.inv t op]) a.1 = retsOf es a.1 := by rw [retsOf_snoc]; simp [newRet]
      constructor
      · rintro ⟨q, p, hq, _, _⟩
        have := retPos_isSome_iff.1 ⟨q, hq⟩
        rwa [hr] at this
      · intro hlt
        obtain ⟨q, hq⟩ := retPos_isSome_iff.2 hlt
        refine ⟨q, es.length, ?_, rfl, retPos_lt hq⟩
        unfold retPos at hq ⊢; rw [hr]; exact hq
    rw [hpre]
    cases rt with
    | false => simp [lastCompleted]
    | true =>
      rw [find?_lastCompleted h.hSorted]
      have hlen := (h.hist a.1).1
      cases hf : find? a.1 T.hist with
      | none =>
        simp only [hf, Option.getD_none, List.length_nil] at hlen
        simp; omega
      | some cs =>
        simp only [hf, Option.getD_some] at hlen
        simp only [Option.bind_some, ha, false_or, true_and]
        cases cs with
        | nil => simp at hlen ⊢; omega
        | cons c cs' =>
          simp only [List.isEmpty_cons, Bool.false_eq_true, if_false, Option.some.injEq, List.length_cons] at hlen ⊢
          constructor
          · rintro ⟨m, rfl, hle⟩; omega
          · intro hlt; exact ⟨_, rfl, by omega⟩

theorem rinv_step {rt : Bool} {es : List (Event Op Ret)} {T : Tester S Op Ret} (h : RInv rt es T)
    (e : Event Op Ret) (hadm : Admissible es e) : RInv rt (es ++ [e]) (step rt T e).1 ∧ (step rt T e).2 = Res.ok := by
  cases e with
  | inv t op =>
    have hnf : find? t T.inflight = none := by
      cases hf : find? t T.inflight with
      | none => rfl
      | some x => exact absurd ((h.inFlight_iff t).2 (by rw [hf]; rfl)) hadm
    have hlen := h.noinfl t hnf
    simp only [step, onInvoke, h.valid, Bool.not_true, Bool.false_eq_true, if_false, hnf]
    refine ⟨⟨rfl, sorted_orInsert h.hSorted, sorted_upsert h.fSorted, ?_, ?_, ?_, ?_⟩, trivial⟩
    · -- same-thread order
      intro t' i j q p hq hp hlt
      have hq' : retPos es (t', i) = some q := by
        rcases retPos_snoc hq with h1 | h1
        · exact h1
        · exfalso
          have hi : ¬ i < (retsOf es t').length := by
            intro hi; rw [retPos_snoc_of_lt hi] at hq
            have := retPos_lt hq; omega
          unfold retPos at hq; rw [retsOf_snoc] at hq
          simp only [newRet, List.append_nil] at hq
          have : (retsOf es t')[i]? = none := List.getElem?_eq_none (by omega)
          simp [this] at hq
      have hi : i < (retsOf es t').length := retPos_isSome_iff.1 ⟨q, hq'⟩
      rcases invPos_snoc hp with h1 | h1
      · exact h.sameThread t' i j q p hq' h1 hlt
      · -- the new invocation: it is the last operation of its thread
        by_cases hj : j < (invsOf es t').length
        · rw [invPos_snoc_of_lt hj] at hp
          exact h.sameThread t' i j q p hq' hp hlt
        · unfold invPos at hp
          dsimp only at hp
          rw [invsOf_snoc, List.getElem?_append_right (by omega)] at hp
          by_cases ht : t = t'
          · subst ht
            omega
          · simp [newInv, ht] at hp
    · -- completed operations: unchanged
      intro t'
      have hget : (find? t' (orInsert t [] T.hist)).getD [] = (find? t' T.hist).getD [] := by
        rw [find?_orInsert]
        by_cases c : t = t' ∧ find? t T.hist = none
        · obtain ⟨rfl, c2⟩ := c; simp [c2]
        · simp [c]
      rw [hget]
      have hr : retsOf (es ++ [Event.inv t op]) t' = retsOf es t' := by rw [retsOf_snoc]; simp [newRet]
      rw [hr]
      refine ⟨(h.hist t').1, ?_⟩
      intro i lc op' r hg
      obtain ⟨h1, h2, h3⟩ := (h.hist t').2 i lc op' r hg
      have hi : i < (invsOf es t').length := opAt_isSome_iff.1 ⟨_, h1⟩
      have hi2 : i < (retsOf es t').length := retAt_isSome_iff.1 ⟨_, h2⟩
      exact ⟨by rw [opAt_snoc_of_lt hi]; exact h1, by rw [retAt_snoc_of_lt hi2]; exact h2, h3.snoc hi⟩
    · -- in-flight operations
      intro t' lc op' hf
      rw [find?_upsert] at hf
      have hr : retsOf (es ++ [Event.inv t op]) t' = retsOf es t' := by rw [retsOf_snoc]; simp [newRet]
      rw [hr]
      by_cases ht : t = t'
      · subst ht
        simp only [if_true, Option.some.injEq, Prod.mk.injEq] at hf
        obtain ⟨rfl, rfl⟩ := hf
        refine ⟨?_, ?_, ?_, lcOk_lastCompleted h t op hlen⟩
        · rw [find?_orInsert]
          cases hh : find? t T.hist <;> simp
        · rw [invsOf_snoc]; simp [newInv]; omega
        · unfold opAt; rw [invsOf_snoc, List.getElem?_append_right (by simp; omega)]
          simp [newInv, hlen]
      · simp only [ht, if_false] at hf
        obtain ⟨h1, h2, h3, h4⟩ := h.infl t' lc op' hf
        have hi : (retsOf es t').length < (invsOf es t').length := by omega
        refine ⟨?_, ?_, ?_, h4.snoc hi⟩
        · rw [find?_orInsert]
          by_cases c : t = t' ∧ find? t T.hist = none
          · exact absurd c.1 ht
          · simp [c, h1]
        · rw [invsOf_snoc]; simp [newInv, ht]; exact h2
        · rw [opAt_snoc_of_lt hi]; exact h3
    · intro t' hf
      rw [find?_upsert] at hf
      by_cases ht : t = t'
      · simp [ht] at hf
      · simp only [ht, if_false] at hf
        rw [invsOf_snoc, retsOf_snoc]; simp [newInv, newRet, ht]; exact h.noinfl t' hf
  | ret t r =>
    have hfl : (find? t T.inflight).isSome = true := (h.inFlight_iff t).1 hadm
    cases hf : find? t T.inflight with
    | none => rw [hf] at hfl; cases hfl
    | some lcop =>
      obtain ⟨lc, op⟩ := lcop
      obtain ⟨hh, hlen, hop, hlc⟩ := h.infl t lc op hf
      simp only [step, onReturn, h.valid, Bool.not_true, Bool.false_eq_true, if_false, hf]
      refine ⟨⟨rfl, sorted_upsert h.hSorted, sorted_erase h.fSorted, ?_, ?_, ?_, ?_⟩, trivial⟩
      · intro t' i j q p hq hp hlt
        have hj : j < (invsOf es t').length := by
          have := opAt_isSome_iff (es := es ++ [Event.ret t r]) (a := (t', j))
          unfold invPos at hp
          cases hg : (invsOf (es ++ [Event.ret t r]) t')[j]? with
          | none => simp [hg] at hp
          | some x =>
            have := (List.getElem?_eq_some_iff.1 hg).1
            rw [invsOf_snoc] at this; simpa [newInv] using this
        rw [invPos_snoc_of_lt hj] at hp
        rcases retPos_snoc hq with h1 | h1
        · exact h.sameThread t' i j q p h1 hp hlt
        · have := invPos_lt hp; omega
      · intro t'
        rw [find?_upsert]
        by_cases ht : t = t'
        · subst ht
          simp only [if_true, Option.getD_some]
          rw [retsOf_snoc]
          simp only [newRet, if_true, List.length_append, List.length_singleton]
          refine ⟨by rw [(h.hist t).1], ?_⟩
          intro i lc' op' r' hg
          by_cases hi : i < ((find? t T.hist).getD []).length
          · rw [List.getElem?_append_left hi] at hg
            obtain ⟨h1, h2, h3⟩ := (h.hist t).2 i lc' op' r' hg
            have hi1 : i < (invsOf es t).length := opAt_isSome_iff.1 ⟨_, h1⟩
            have hi2 : i < (retsOf es t).length := retAt_isSome_iff.1 ⟨_, h2⟩
            refine ⟨by rw [opAt_snoc_of_lt hi1]; exact h1, ?_, h3.snoc hi1⟩
            have := retAt_snoc_of_lt (e := Event.ret t r) (a := (t, i)) hi2
            rw [this]; exact h2
          · rw [List.getElem?_append_right (by omega)] at hg
            have hlenh := (h.hist t).1
            cases hd : i - ((find? t T.hist).getD []).length with
            | succ n => simp [hd] at hg
            | zero =>
              simp only [hd, List.getElem?_cons_zero, Option.some.injEq, Prod.mk.injEq] at hg
              obtain ⟨rfl, rfl, rfl⟩ := hg
              have hie : i = (retsOf es t).length := by omega
              subst hie
              have hi1 : (retsOf es t).length < (invsOf es t).length := by omega
              refine ⟨by rw [opAt_snoc_of_lt hi1]; exact hop, ?_, hlc.snoc hi1⟩
              unfold retAt; rw [retsOf_snoc, List.getElem?_append_right (by simp)]
              simp [newRet]
        · simp only [ht, if_false]
          have hr : retsOf (es ++ [Event.ret t r]) t' = retsOf es t' := by rw [retsOf_snoc]; simp [newRet, ht]
          rw [hr]
          refine ⟨(h.hist t').1, ?_⟩
          intro i lc' op' r' hg
          obtain ⟨h1, h2, h3⟩ := (h.hist t').2 i lc' op' r' hg
          have hi : i < (invsOf es t').length := opAt_isSome_iff.1 ⟨_, h1⟩
          have hi2 : i < (retsOf es t').length := retAt_isSome_iff.1 ⟨_, h2⟩
          exact ⟨by rw [opAt_snoc_of_lt hi]; exact h1, by rw [retAt_snoc_of_lt hi2]; exact h2, h3.snoc hi⟩
      · intro t' lc' op' hf'
        rw [find?_erase h.fSorted] at hf'
        by_cases ht : t' = t
        · simp [ht] at hf'
        · simp only [ht, if_false] at hf'
          have ht' : t ≠ t' := fun e => ht e.symm
          obtain ⟨h1, h2, h3, h4⟩ := h.infl t' lc' op' hf'
          have hr : retsOf (es ++ [Event.ret t r]) t' = retsOf es t' := by rw [retsOf_snoc]; simp [newRet, ht']
          rw [hr]
          have hi : (retsOf es t').length < (invsOf es t').length := by omega
          refine ⟨?_, ?_, ?_, h4.snoc hi⟩
          · rw [find?_upsert]; simp [ht', h1]
          · rw [invsOf_snoc]; simp [newInv]; exact h2
          · rw [opAt_snoc_of_lt hi]; exact h3
      · intro t' hf'
        rw [find?_erase h.fSorted] at hf'
        by_cases ht : t' = t
        · subst ht
          rw [invsOf_snoc, retsOf_snoc]; simp [newInv, newRet]; omega
        · simp only [ht, if_false] at hf'
          have ht' : t ≠ t' := fun e => ht e.symm
          rw [invsOf_snoc, retsOf_snoc]; simp [newInv, newRet, ht']; exact h.noinfl t' hf'

theorem record_snoc (rt : Bool) (s0 : S) (es : List (Event Op Ret)) (e : Event Op Ret) :
    record rt s0 (es ++ [e]) = (step rt (record rt s0 es) e).1 := by
  simp [record, List.foldl_append]

theorem rinv_record {rt : Bool} (s0 : S) : ∀ es : List (Event Op Ret), WellFormed es → RInv rt es (record rt s0 es) := by
  intro es
  induction es using snoc_induction with
  | nil => intro _; exact rinv_nil rt s0
  | snoc es e ih =>
    intro hwf
    obtain ⟨h1, h2⟩ := wellFormed_snoc.1 hwf
    rw [record_snoc]
    exact (rinv_step (ih h1) e h2).1

end SR.Sem
