import SR.Checker.PathApi
/-! Lemmas about the Path API model (C19). -/
namespace SR.PathApi
open SR
variable {σ α : Type}

theorem mem_nextSteps {M : Sys σ α} {s t : σ} {a : α} :
    (a, t) ∈ nextSteps M s ↔ a ∈ M.acts s ∧ M.next s a = some t := by
  simp only [nextSteps, List.mem_filterMap, Option.map_eq_some_iff]
  constructor
  · rintro ⟨a', ha', t', ht', h⟩
    injection h with h1 h2
    subst h1 h2
    exact ⟨ha', ht'⟩
  · rintro ⟨ha, ht⟩
    exact ⟨a, ha, t, ht, rfl⟩

theorem nextSteps_map_snd (M : Sys σ α) (s : σ) : (nextSteps M s).map (·.2) = M.succAll s := by
  simp only [nextSteps, Sys.succAll, List.map_filterMap]
  congr 1
  funext a
  cases M.next s a <;> rfl

/-- `final_state` searches the successor states, `from_fingerprints` the (action, state) steps: same hit -/
theorem find_succAll (M : Sys σ α) (key : σ → Nat) (s : σ) (fp : Nat) :
    (M.succAll s).find? (fun t => key t == fp) =
      ((nextSteps M s).find? (fun p => key p.2 == fp)).map (·.2) := by
  rw [← nextSteps_map_snd, List.find?_map]
  rfl

theorem execFrom_ne_nil {M : Sys σ α} {s : σ} {p : Path σ α} (h : ExecFrom M s p) :
    ∃ x rest, p = (s, x) :: rest := by
  cases h with
  | last => exact ⟨none, [], rfl⟩
  | step _ _ _ => exact ⟨_, _, rfl⟩

theorem encode_execFrom {M : Sys σ α} (key : σ → Nat) {s : σ} {p : Path σ α} (h : ExecFrom M s p) :
    encode key p = key s :: (encode key p).tail := by
  obtain ⟨x, rest, rfl⟩ := execFrom_ne_nil h
  simp [encode]

theorem lastState_cons_cons (e e' : σ × Option α) (r : Path σ α) :
    lastState (e :: e' :: r) = lastState (e' :: r) := by
  simp [lastState, List.getLast?_cons_cons]

/-- whatever `from_fingerprints` returns is an execution with exactly these fingerprints -/
theorem fromFpsAux_sound (M : Sys σ α) (key : σ → Nat) (fps : List Nat) (s : σ) (p : Path σ α)
    (h : fromFpsAux M key s fps = some p) : ExecFrom M s p ∧ encode key p = key s :: fps := by
  induction fps generalizing s p with
  | nil => simp only [fromFpsAux] at h; injection h with h; subst h; exact ⟨.last s, rfl⟩
  | cons fp rest ih =>
    simp only [fromFpsAux] at h
    split at h
    · cases h
    · rename_i a s' hf
      simp only [Option.map_eq_some_iff] at h
      obtain ⟨p', hp', rfl⟩ := h
      obtain ⟨he, hk⟩ := ih s' p' hp'
      have hmem := List.mem_of_find?_eq_some hf
      have hkey := List.find?_some hf
      simp only [beq_iff_eq] at hkey
      obtain ⟨ha, hn⟩ := mem_nextSteps.1 hmem
      refine ⟨.step ha hn he, ?_⟩
      simp only [encode, List.map_cons] at hk ⊢
      rw [hk, hkey]

theorem fromFingerprints_sound (M : Sys σ α) (key : σ → Nat) (fps : List Nat) (p : Path σ α)
    (h : fromFingerprints M key fps = some p) : IsExec M p ∧ encode key p = fps := by
  cases fps with
  | nil => simp [fromFingerprints] at h
  | cons fp rest =>
    simp only [fromFingerprints] at h
    split at h
    · cases h
    · rename_i s hf
      obtain ⟨he, hk⟩ := fromFpsAux_sound M key rest s p h
      have hkey := List.find?_some hf
      simp only [beq_iff_eq] at hkey
      exact ⟨⟨s, List.mem_of_find?_eq_some hf, he⟩, by rw [hk, hkey]⟩

/-- with an injective fingerprint the first hit is the state that was meant -/
theorem find_step_of_inj {M : Sys σ α} {key : σ → Nat} (inj : ∀ x y, key x = key y → x = y)
    {s t : σ} {a : α} (ha : a ∈ M.acts s) (hn : M.next s a = some t) :
    ∃ a', (nextSteps M s).find? (fun p => key p.2 == key t) = some (a', t) ∧
      a' ∈ M.acts s ∧ M.next s a' = some t := by
  have hm : (a, t) ∈ nextSteps M s := mem_nextSteps.2 ⟨ha, hn⟩
  cases hf : (nextSteps M s).find? (fun p => key p.2 == key t) with
  | none =>
    have := List.find?_eq_none.1 hf (a, t) hm
    simp at this
  | some x =>
    obtain ⟨a', t'⟩ := x
    have hkey := List.find?_some hf
    simp only [beq_iff_eq] at hkey
    have := inj _ _ hkey
    subst this
    obtain ⟨h1, h2⟩ := mem_nextSteps.1 (List.mem_of_find?_eq_some hf)
    exact ⟨a', rfl, h1, h2⟩

theorem fromFpsAux_complete {M : Sys σ α} {key : σ → Nat} (inj : ∀ x y, key x = key y → x = y)
    {s : σ} {p : Path σ α} (h : ExecFrom M s p) :
    ∃ p', fromFpsAux M key s (encode key p).tail = some p' ∧ intoStates p' = intoStates p ∧
      ExecFrom M s p' := by
  induction h with
  | last s => exact ⟨[(s, none)], rfl, rfl, .last s⟩
  | @step s t a rest ha hn he ih =>
    obtain ⟨p', hp', hs', he'⟩ := ih
    obtain ⟨a', hf, ha', hn'⟩ := find_step_of_inj inj ha hn
    have hk := encode_execFrom key he
    refine ⟨(s, some a') :: p', ?_, ?_, .step ha' hn' he'⟩
    · simp only [encode, List.map_cons, List.tail_cons] at hk ⊢
      rw [hk]
      simp only [fromFpsAux, hf]
      simp only [encode] at hp'
      rw [hp']; rfl
    · simp only [intoStates, List.map_cons] at hs' ⊢
      rw [hs']

theorem find_init_of_inj {M : Sys σ α} {key : σ → Nat} (inj : ∀ x y, key x = key y → x = y)
    {s : σ} (hs : s ∈ M.init) : M.init.find? (fun x => key x == key s) = some s := by
  cases hf : M.init.find? (fun x => key x == key s) with
  | none =>
    have := List.find?_eq_none.1 hf s hs
    simp at this
  | some x =>
    have hkey := List.find?_some hf
    simp only [beq_iff_eq] at hkey
    rw [inj _ _ hkey]

theorem fromActionsAux_exec [DecidableEq α] {M : Sys σ α} {s : σ} {p : Path σ α} (h : ExecFrom M s p) :
    fromActionsAux M s (intoActions p) = some p := by
  induction h with
  | last s => rfl
  | @step s t a rest ha hn he ih =>
    have hm : (a, t) ∈ nextSteps M s := mem_nextSteps.2 ⟨ha, hn⟩
    have : (nextSteps M s).find? (fun p => p.1 == a) = some (a, t) := by
      cases hf : (nextSteps M s).find? (fun p => p.1 == a) with
      | none =>
        have := List.find?_eq_none.1 hf (a, t) hm
        simp at this
      | some x =>
        obtain ⟨a', t'⟩ := x
        have hk := List.find?_some hf
        simp only [beq_iff_eq] at hk
        subst hk
        obtain ⟨_, h2⟩ := mem_nextSteps.1 (List.mem_of_find?_eq_some hf)
        rw [hn] at h2
        injection h2 with h2
        subst h2; rfl
    simp only [intoActions, List.filterMap_cons] at ih ⊢
    simp only [fromActionsAux, this, ih]
    rfl

theorem lastState_execFrom {M : Sys σ α} {s : σ} {p : Path σ α} (h : ExecFrom M s p) :
    ∃ t, lastState p = some t := by
  induction h with
  | last s => exact ⟨s, rfl⟩
  | @step s t a rest _ _ he ih =>
    obtain ⟨x, r, rfl⟩ := execFrom_ne_nil he
    rw [lastState_cons_cons]; exact ih

theorem finalStateAux_eq (M : Sys σ α) (key : σ → Nat) (fps : List Nat) (s : σ) :
    finalStateAux M key s fps = (fromFpsAux M key s fps).bind lastState := by
  induction fps generalizing s with
  | nil => rfl
  | cons fp rest ih =>
    simp only [finalStateAux, fromFpsAux, find_succAll]
    cases hf : (nextSteps M s).find? (fun p => key p.2 == fp) with
    | none => rfl
    | some x =>
      obtain ⟨a, t⟩ := x
      simp only [Option.map_some, ih]
      cases hp : fromFpsAux M key t rest with
      | none => rfl
      | some p =>
        obtain ⟨he, _⟩ := fromFpsAux_sound M key rest t p hp
        obtain ⟨x, r, rfl⟩ := execFrom_ne_nil he
        simp [lastState_cons_cons]

theorem finalState_eq (M : Sys σ α) (key : σ → Nat) (fps : List Nat) :
    finalState M key fps = (fromFingerprints M key fps).bind lastState := by
  cases fps with
  | nil => rfl
  | cons fp rest =>
    simp only [finalState, fromFingerprints]
    cases M.init.find? (fun s => key s == fp) with
    | none => rfl
    | some s => exact finalStateAux_eq M key rest s

/-- `walkBack` only ever prepends: the starting fingerprint stays last -/
theorem walkBack_suffix (g : Gen) (fuel fp : Nat) (acc : List Nat) :
    ∃ pre, walkBack g fuel fp acc = pre ++ acc := by
  induction fuel generalizing fp acc with
  | zero => exact ⟨[], rfl⟩
  | succ n ih =>
    simp only [walkBack]
    split
    · exact ⟨[], rfl⟩
    · rename_i prev _
      obtain ⟨pre, h⟩ := ih prev (fp :: acc)
      exact ⟨pre ++ [fp], by rw [h]; simp⟩
    · exact ⟨[fp], rfl⟩

theorem walkBack_last (g : Gen) (fuel fp : Nat) (h : (g.get fp).isSome) :
    (walkBack g (fuel + 1) fp []).getLast? = some fp := by
  simp only [walkBack]
  cases hg : g.get fp with
  | none => rw [hg] at h; cases h
  | some par =>
    cases par with
    | none => rfl
    | some prev =>
      obtain ⟨pre, hp⟩ := walkBack_suffix g fuel prev [fp]
      simp only [hp]
      simp

theorem lastState_eq_of_states {p p' : Path σ α} (h : intoStates p' = intoStates p) :
    lastState p' = lastState p := by
  have e : ∀ q : Path σ α, lastState q = (intoStates q).getLast? := by
    intro q; simp [lastState, intoStates, List.getLast?_map]
  rw [e, e, h]

theorem encode_getLast (key : σ → Nat) (p : Path σ α) :
    (encode key p).getLast? = (lastState p).map key := by
  simp only [encode, lastState, List.getLast?_map, Option.map_map]
  rfl

end SR.PathApi
