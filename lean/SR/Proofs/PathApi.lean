import SR.Checker.PathApi
/-! Lemmas about the Path API model (C19). -/
namespace SR.PathApi
open SR
variable {σ α : Type}

theorem mem_nextSteps {M : Sys σ α} {s t : σ} {a : α} :
    (a, t) ∈ nextSteps M s ↔ a ∈ M.acts s ∧ M.next s a = some t := by
  simp only [nextSteps, List.mem_filterMap, Option.map_eq_some_iff]
  constructor
  · rintro ⟨a', ha', t', ht', h⟩
    injection h with h1 h2
    subst h1 h2
    exact ⟨ha', ht'⟩
  · rintro ⟨ha, ht⟩
    exact ⟨a, ha, t, ht, rfl⟩

theorem nextSteps_map_snd (M : Sys σ α) (s : σ) : (nextSteps M s).map (·.2) = M.succAll s := by
  simp only [nextSteps, Sys.succAll, List.map_filterMap]
  congr 1
  funext a
  cases M.next s a <;> rfl

/-- `final_state` searches the successor states, `from_fingerprints` the (action, state) steps: same hit -/
theorem find_succAll (M : Sys σ α) (key : σ → Nat) (s : σ) (fp : Nat) :
    (M.succAll s).find? (fun t => key t == fp) =
      ((nextSteps M s).find? (fun p => key p.2 == fp)).map (·.2) := by
  rw [← nextSteps_map_snd, List.find?_map]
  rfl

theorem execFrom_ne_nil {M : Sys σ α} {s : σ} {p : Path σ α} (h : ExecFrom M s p) :
    ∃ x rest, p = (s, x) :: rest := by
  cases h with
  | last => exact ⟨none, [], rfl⟩
  | step _ _ _ => exact ⟨_, _, rfl⟩

theorem encode_execFrom {M : Sys σ α} (key : σ → Nat) {s : σ} {p : Path σ α} (h : ExecFrom M s p) :
    encode key p = key s :: (encode key p).tail := by
  obtain ⟨x, rest, rfl⟩ := execFrom_ne_nil h
  simp [encode]

theorem lastState_cons_cons (e e' : σ × Option α) (r : Path σ α) :
    lastState (e :: e' :: r) = lastState (e' :: r) := by
  simp [lastState, List.getLast?_cons_cons]

/-- whatever `from_fingerprints` returns is an execution with exactly these fingerprints -/
theorem fromFpsAux_sound (M : Sys σ α) (key : σ → Nat) (fps : List Nat) (s : σ) (p : Path σ α)
    (h : fromFpsAux M key s fps = some p) : ExecFrom M s p ∧ encode key p = key s :: fps := by
  induction fps generalizing s p with
  | nil => simp only [fromFpsAux] at h; injection h with h; subst h; exact ⟨.last s, rfl⟩
  | cons fp rest ih =>
    simp only [fromFpsAux] at h
    split at h
    · cases h
    · rename_i a s' hf
      simp only [Option.map_eq_some_iff] at h
      obtain ⟨p', hp', rfl⟩ := h
      obtain ⟨he, hk⟩ := ih s' p' hp'
      have hmem := List.mem_of_find?_eq_some hf
      have hkey := List.find?_some hf
      simp only [beq_iff_eq] at hkey
      obtain ⟨ha, hn⟩ := mem_nextSteps.1 hmem
      refine ⟨.step ha hn he, ?_⟩
      simp only [encode, List.map_cons] at hk ⊢
      rw [hk, hkey]

theorem fromFingerprints_sound (M : Sys σ α) (key : σ → Nat) (fps : List Nat) (p : Path σ α)
    (h : fromFingerprints M key fps = some p) : IsExec M p ∧ encode key p = fps := by
  cases fps with
  | nil => simp [fromFingerprints] at h
  | cons fp rest =>
    simp only [fromFingerprints] at h
    split at h
    · cases h
    · rename_i s hf
      obtain ⟨he, hk⟩ := fromFpsAux_sound M key rest s p h
      have hkey := List.find?_some hf
      simp only [beq_iff_eq] at hkey
      exact ⟨⟨s, List.mem_of_find?_eq_some hf, he⟩, by rw [hk, hkey]⟩

/-- with an injective fingerprint the first hit is the state that was meant -/
theorem find_step_of_inj {M : Sys σ α} {key : σ → Nat} (inj : ∀ x y, key x = key y → x = y)
    {s t : σ} {a : α} (ha : a ∈ M.acts s) (hn : M.next s a = some t) :
    ∃ a', (nextSteps M s).find? (fun p => key p.2 == key t) = some (a', t) ∧
      a' ∈ M.acts s ∧ M.next s a' = some t := by
  have hm : (a, t) ∈ nextSteps M s := mem_nextSteps.2 ⟨ha, hn⟩
  cases hf : (nextSteps M s).find? (fun p => key p.2 == key t) with
  | none =>
    have := List.find?_eq_none.1 hf (a, t) hm
    simp at this
  | some x =>
    obtain ⟨a', t'⟩ := x
    have hkey := List.find?_some hf
    simp only [beq_iff_eq] at hkey
    have := inj _ _ hkey
    subst this
    obtain ⟨h1, h2⟩ := mem_nextSteps.1 (List.mem_of_find?_eq_some hf)
    exact ⟨a', rfl, h1, h2⟩

theorem fromFpsAux_complete {M : Sys σ α} {key : σ → Nat} (inj : ∀ x y, key x = key y → x = y)
    {s : σ} {p : Path σ α} (h : ExecFrom M s p) :
    ∃ p', fromFpsAux M key s (encode key p).tail = some p' ∧ intoStates p' = intoStates p ∧
      ExecFrom M s p' := by
  induction h with
  | last s => exact ⟨[(s, none)], rfl, rfl, .last s⟩
  | @step s t a rest ha hn he ih =>
    obtain ⟨p', hp', hs', he'⟩ := ih
    obtain ⟨a', hf, ha', hn'⟩ := find_step_of_inj inj ha hn
    have hk := encode_execFrom key he
    refine ⟨(s, some a') :: p', ?_, ?_, .step ha' hn' he'⟩
    · simp only [encode, List.map_cons, List.tail_cons] at hk ⊢
      rw [hk]
      simp only [fromFpsAux, hf]
      simp only [encode] at hp'
      rw [hp']; rfl
    · simp only [intoStates, List.map_cons] at hs' ⊢
      rw [hs']

theorem find_init_of_inj {M : Sys σ α} {key : σ → Nat} (inj : ∀ x y, key x = key y → x = y)
    {s : σ} (hs : s ∈ M.init) : M.init.find? (fun x => key x == key s) = some s := by
  cases hf : M.init.find? (fun x => key x == key s) with
  | none =>
    have := List.find?_eq_none.1 hf s hs
    simp at this
  | some x =>
    have hkey := List.find?_some hf
    simp only [beq_iff_eq] at hkey
    rw [inj _ _ hkey]

theorem fromActionsAux_exec [DecidableEq α] {M : Sys σ α} {s : σ} {p : Path σ α} (h : ExecFrom M s p) :
    fromActionsAux M s (intoActions p) = some p := by
  induction h with
  | last s => rfl
  | @step s t a rest ha hn he ih =>
    have hm : (a, t) ∈ nextSteps M s := mem_nextSteps.2 ⟨ha, hn⟩
    have : (nextSteps M s).find? (fun p => p.1 == a) = some (a, t) := by
      cases hf : (nextSteps M s).find? (fun p => p.1 == a) with
      | none =>
        have := List.find?_eq_none.1 hf (a, t) hm
        simp at this
      | some x =>
        obtain ⟨a', t'⟩ := x
        have hk := List.find?_some hf
        simp only [beq_iff_eq] at hk
        subst hk
        obtain ⟨_, h2⟩ := mem_nextSteps.1 (List.mem_of_find?_eq_some hf)
        rw [hn] at h2
        injection h2 with h2
        subst h2; rfl
    simp only [intoActions, List.filterMap_cons] at ih ⊢
    simp only [fromActionsAux, this, ih]
    rfl

theorem lastState_execFrom {M : Sys σ α} {s : σ} {p : Path σ α} (h : ExecFrom M s p) :
    ∃ t, lastState p = some t := by
  induction h with
  | last s => exact ⟨s, rfl⟩
  | @step s t a rest _ _ he ih =>
    obtain ⟨x, r, rfl⟩ := execFrom_ne_nil he
    rw [lastState_cons_cons]; exact ih

theorem finalStateAux_eq (M : Sys σ α) (key : σ → Nat) (fps : List Nat) (s : σ) :
    finalStateAux M key s fps = (fromFpsAux M key s fps).bind lastState := by
  induction fps generalizing s with
  | nil => rfl
  | cons fp rest ih =>
    simp only [finalStateAux, fromFpsAux, find_succAll]
    cases hf : (nextSteps M s).find? (fun p => key p.2 == fp) with
    | none => rfl
    | some x =>
      obtain ⟨a, t⟩ := x
      simp only [Option.map_some, ih]
      cases hp : fromFpsAux M key t rest with
      | none => rfl
      | some p =>
        obtain ⟨he, _⟩ := fromFpsAux_sound M key rest t p hp
        obtain ⟨x, r, rfl⟩ := execFrom_ne_nil he
        simp [lastState_cons_cons]

theorem finalState_eq (M : Sys σ α) (key : σ → Nat) (fps : List Nat) :
    finalState M key fps = (fromFingerprints M key fps).bind lastState := by
  cases fps with
  | nil => rfl
  | cons fp rest =>
    simp only [finalState, fromFingerprints]
    cases M.init.find? (fun s => key s == fp) with
    | none => rfl
    | some s => exact finalStateAux_eq M key rest s

/-- `walkBack` only ever prepends: the starting fingerprint stays last -/
theorem walkBack_suffix (g : Gen) (fuel fp : Nat) (acc : List Nat) :
    ∃ pre, walkBack g fuel fp acc = pre ++ acc := by
  induction fuel generalizing fp acc with
  | zero => exact ⟨[], rfl⟩
  | succ n ih =>
    simp only [walkBack]
    split
    · exact ⟨[], rfl⟩
    · rename_i prev _
      obtain ⟨pre, h⟩ := ih prev (fp :: acc)
      exact ⟨pre ++ [fp], by rw [h]; simp⟩
    · exact ⟨[fp], rfl⟩

theorem walkBack_last (g : Gen) (fuel fp : Nat) (h : (g.get fp).isSome) :
    (walkBack g (fuel + 1) fp []).getLast? = some fp := by
  simp only [walkBack]
  cases hg : g.get fp with
  | none => rw [hg] at h; cases h
  | some par =>
    cases par with
    | none => rfl
    | some prev =>
      obtain ⟨pre, hp⟩ := walkBack_suffix g fuel prev [fp]
      simp only [hp]
      simp

theorem lastState_eq_of_states {p p' : Path σ α} (h : intoStates p' = intoStates p) :
    lastState p' = lastState p := by
  have e : ∀ q : Path σ α, lastState q = (intoStates q).getLast? := by
    intro q; simp [lastState, intoStates, List.getLast?_map]
  rw [e, e, h]

theorem encode_getLast (key : σ → Nat) (p : Path σ α) :
    (encode key p).getLast? = (lastState p).map key := by
  simp only [encode, lastState, List.getLast?_map, Option.map_map]
  rfl

/-! ### `reconstruct_path` on a well-formed `generated` map -/

theorem get_cons (e : Nat × Option Nat) (g : Gen) (fp : Nat) :
    Gen.get (e :: g) fp = if e.1 = fp then some e.2 else Gen.get g fp := by
  unfold Gen.get
  by_cases h : e.1 = fp
  · simp [h]
  · simp [h]

/-- an entry is what `get` finds for its key -/
theorem genOK_get {M : Sys σ α} {key : σ → Nat} {gp : List ((Nat × Option Nat) × List σ)}
    (h : GenOK M key gp) : ∀ fp par path, ((fp, par), path) ∈ gp → Gen.get (gp.map (·.1)) fp = some par := by
  induction h with
  | nil => intro _ _ _ hm; cases hm
  | @root gp s _ _ hnone ih =>
    intro fp par path hm
    simp only [List.map_cons, get_cons]
    rcases List.mem_cons.1 hm with e | hm
    · injection e with e1 _; injection e1 with e1 e2; subst e1 e2; simp
    · have := ih fp par path hm
      have hne : key s ≠ fp := by intro e; rw [e] at hnone; rw [hnone] at this; cases this
      simp [hne, this]
  | @child gp par' path' s t _ hin _ _ hnone ih =>
    intro fp par path hm
    simp only [List.map_cons, get_cons]
    rcases List.mem_cons.1 hm with e | hm
    · injection e with e1 _; injection e1 with e1 e2; subst e1 e2; simp
    · have := ih fp par path hm
      have hne : key t ≠ fp := by intro e; rw [e] at hnone; rw [hnone] at this; cases this
      simp [hne, this]

theorem get_isSome_mem {gp : List ((Nat × Option Nat) × List σ)} {fp : Nat}
    (h : (Gen.get (gp.map (·.1)) fp).isSome) : ∃ par path, ((fp, par), path) ∈ gp := by
  unfold Gen.get at h
  cases hf : (gp.map (·.1)).find? (fun e => e.1 == fp) with
  | none => rw [hf] at h; cases h
  | some e =>
    have hm := List.mem_of_find?_eq_some hf
    have hk := List.find?_some hf
    simp only [beq_iff_eq] at hk
    simp only [List.mem_map] at hm
    obtain ⟨x, hx, rfl⟩ := hm
    exact ⟨x.1.2, x.2, by rw [← hk]; exact hx⟩

/-- parents of entries are entries -/
theorem genOK_closed {M : Sys σ α} {key : σ → Nat} {gp : List ((Nat × Option Nat) × List σ)}
    (h : GenOK M key gp) : ∀ fp prev, Gen.get (gp.map (·.1)) fp = some (some prev) →
      (Gen.get (gp.map (·.1)) prev).isSome := by
  induction h with
  | nil => intro _ _ hm; simp [Gen.get] at hm
  | @root gp s hok _ hnone ih =>
    intro fp prev hg
    simp only [List.map_cons, get_cons] at hg ⊢
    by_cases h1 : key s = fp
    · simp [h1] at hg
    · simp only [h1, if_false] at hg
      have := ih fp prev hg
      by_cases h2 : key s = prev
      · simp [h2]
      · simp [h2, this]
  | @child gp par' path' s t hok hin _ _ hnone ih =>
    intro fp prev hg
    simp only [List.map_cons, get_cons] at hg ⊢
    have hs := genOK_get hok _ _ _ hin
    by_cases h1 : key t = fp
    · simp only [h1, if_true, Option.some.injEq] at hg
      subst hg
      by_cases h2 : key t = key s
      · simp [h2]
      · simp [h2, hs]
    · simp only [h1, if_false] at hg
      have := ih fp prev hg
      by_cases h2 : key t = prev
      · simp [h2]
      · simp [h2, this]

/-- a walk that starts inside the old map never sees the new entry -/
theorem walkBack_frame (e : Nat × Option Nat) (g : Gen)
    (hclosed : ∀ fp prev, Gen.get g fp = some (some prev) → (Gen.get g prev).isSome)
    (hnew : Gen.get g e.1 = none) :
    ∀ fuel fp acc, (Gen.get g fp).isSome → walkBack (e :: g) fuel fp acc = walkBack g fuel fp acc := by
  intro fuel
  induction fuel with
  | zero => intro _ _ _; rfl
  | succ n ih =>
    intro fp acc hs
    have hne : e.1 ≠ fp := by intro h; rw [h] at hnew; rw [hnew] at hs; cases hs
    simp only [walkBack, get_cons, hne, if_false]
    cases hg : Gen.get g fp with
    | none => rfl
    | some par =>
      cases par with
      | none => rfl
      | some prev => exact ih prev (fp :: acc) (hclosed fp prev hg)

/-- `walkBack` with enough fuel returns the fingerprints of the entry's path -/
theorem genOK_walk {M : Sys σ α} {key : σ → Nat} {gp : List ((Nat × Option Nat) × List σ)}
    (h : GenOK M key gp) : ∀ fp par path, ((fp, par), path) ∈ gp → ∀ fuel acc, gp.length ≤ fuel →
      walkBack (gp.map (·.1)) fuel fp acc = path.map key ++ acc := by
  induction h with
  | nil => intro _ _ _ hm; cases hm
  | @root gp s hok _ hnone ih =>
    intro fp par path hm fuel acc hf
    simp only [List.length_cons] at hf
    rcases List.mem_cons.1 hm with e | hm
    · injection e with e1 e2; injection e1 with e1 e3; subst e1 e2 e3
      cases fuel with
      | zero => omega
      | succ n => simp [walkBack, get_cons]
    · simp only [List.map_cons]
      rw [walkBack_frame _ _ (genOK_closed hok) hnone]
      · exact ih fp par path hm fuel acc (by omega)
      · rw [genOK_get hok _ _ _ hm]; rfl
  | @child gp par' path' s t hok hin hlast hsucc hnone ih =>
    intro fp par path hm fuel acc hf
    simp only [List.length_cons] at hf
    rcases List.mem_cons.1 hm with e | hm
    · injection e with e1 e2; injection e1 with e1 e3; subst e1 e2 e3
      cases fuel with
      | zero => omega
      | succ n =>
        simp only [List.map_cons, walkBack, get_cons, if_true]
        rw [walkBack_frame _ _ (genOK_closed hok) hnone]
        · rw [ih _ _ _ hin n _ (by omega)]; simp
        · rw [genOK_get hok _ _ _ hin]; rfl
    · simp only [List.map_cons]
      rw [walkBack_frame _ _ (genOK_closed hok) hnone]
      · exact ih fp par path hm fuel acc (by omega)
      · rw [genOK_get hok _ _ _ hm]; rfl


theorem fp_roundtrip (M : Sys σ α) (key : σ → Nat) (inj : ∀ x y, key x = key y → x = y)
    (p : Path σ α) (h : IsExec M p) :
    ∃ p', fromFingerprints M key (encode key p) = some p' ∧ intoStates p' = intoStates p ∧
      IsExec M p' ∧ encode key p' = encode key p := by
  obtain ⟨s, hs, he⟩ := h
  obtain ⟨p', hp', hst, he'⟩ := fromFpsAux_complete (key := key) inj he
  have hk := encode_execFrom key he
  have : fromFingerprints M key (encode key p) = some p' := by
    rw [hk]; simp only [fromFingerprints, find_init_of_inj inj hs]; exact hp'
  exact ⟨p', this, hst, ⟨s, hs, he'⟩, (fromFingerprints_sound M key _ p' this).2⟩

theorem exec_snoc {M : Sys σ α} {s0 s t : σ} {a : α} {p : Path σ α} (h : ExecFrom M s0 p)
    (hl : lastState p = some s) (ha : a ∈ M.acts s) (hn : M.next s a = some t) :
    ∃ p', ExecFrom M s0 p' ∧ intoStates p' = intoStates p ++ [t] := by
  induction h with
  | last s0 =>
    simp [lastState] at hl
    subst hl
    exact ⟨[(s0, some a), (t, none)], .step ha hn (.last t), rfl⟩
  | @step s0 t0 a0 rest ha0 hn0 he ih =>
    obtain ⟨x, r, hr⟩ := execFrom_ne_nil he
    rw [hr, lastState_cons_cons, ← hr] at hl
    obtain ⟨rest', he', hs'⟩ := ih hl
    exact ⟨(s0, some a0) :: rest', .step ha0 hn0 he', by simp [intoStates] at hs' ⊢; exact hs'⟩

theorem lastState_eq_getLast (p : Path σ α) : lastState p = (intoStates p).getLast? := by
  simp [lastState, intoStates, List.getLast?_map]

/-- every path recorded with a `generated` entry is the state sequence of an execution -/
theorem genOK_exec {M : Sys σ α} {key : σ → Nat} {gp : List ((Nat × Option Nat) × List σ)}
    (h : GenOK M key gp) : ∀ fp par path, ((fp, par), path) ∈ gp →
      ∃ p, IsExec M p ∧ intoStates p = path ∧ (∃ s, path.getLast? = some s ∧ key s = fp) := by
  induction h with
  | nil => intro _ _ _ hm; cases hm
  | @root gp s _ hinit _ ih =>
    intro fp par path hm
    rcases List.mem_cons.1 hm with e | hm
    · injection e with e1 e2; injection e1 with e1 _; subst e1 e2
      exact ⟨[(s, none)], ⟨s, hinit, .last s⟩, rfl, s, rfl, rfl⟩
    · exact ih fp par path hm
  | @child gp par' path' s t _ hin hlast hsucc _ ih =>
    intro fp par path hm
    rcases List.mem_cons.1 hm with e | hm
    · injection e with e1 e2; injection e1 with e1 _; subst e1 e2
      obtain ⟨p, ⟨s0, hs0, he⟩, hst, _⟩ := ih _ _ _ hin
      simp only [Sys.succAll, List.mem_filterMap] at hsucc
      obtain ⟨a, ha, hn⟩ := hsucc
      have hl : lastState p = some s := by rw [lastState_eq_getLast, hst]; exact hlast
      obtain ⟨p', he', hs'⟩ := exec_snoc he hl ha hn
      exact ⟨p', ⟨s0, hs0, he'⟩, by rw [hs', hst], t, by simp, rfl⟩
    · exact ih fp par path hm

/-- `reconstruct_path` on a well-formed `generated` map never panics and yields the entry's path -/
theorem genOK_reconstruct {M : Sys σ α} {key : σ → Nat} (inj : ∀ x y, key x = key y → x = y)
    {gp : List ((Nat × Option Nat) × List σ)} (h : GenOK M key gp)
    {fp : Nat} {par : Option Nat} {path : List σ} (hm : ((fp, par), path) ∈ gp) :
    ∃ p, reconstructPath M key (gp.map (·.1)) fp = some p ∧ intoStates p = path ∧ IsExec M p ∧
      encode key p = path.map key := by
  obtain ⟨p0, hex, hst, _⟩ := genOK_exec h fp par path hm
  have hw := genOK_walk h fp par path hm ((gp.map (·.1)).length + 1) [] (by simp)
  have henc : encode key p0 = path.map key := by rw [← hst]; simp [encode, intoStates]
  obtain ⟨p', hp', hst', hex', henc'⟩ := fp_roundtrip M key inj p0 hex
  refine ⟨p', ?_, by rw [hst', hst], hex', by rw [henc', henc]⟩
  unfold reconstructPath
  rw [hw, List.append_nil, ← henc]; exact hp'


/-! ### decimal encoding of fingerprint paths and the url parser -/

theorem digit_of_mem {n : Nat} {c : Char} (h : c ∈ Nat.toDigits 10 n) : ('0' ≤ c && c ≤ '9') = true := by
  have := Nat.isDigit_of_mem_toDigits (b := 10) (by decide) (by decide) h
  simp only [Char.isDigit, Bool.and_eq_true, decide_eq_true_eq] at this ⊢
  exact ⟨this.1, this.2⟩

theorem foldl_digits (n : Nat) :
    (Nat.toDigits 10 n).foldl (fun acc c => acc * 10 + (c.toNat - 48)) 0 = n := by
  induction n using Nat.strongRecOn with
  | ind n ih =>
    rw [Nat.toDigits_eq_if (by decide)]
    split
    · rename_i h
      simp [Nat.toNat_digitChar_sub_48_of_lt_ten h]
    · rename_i h
      rw [List.foldl_append, ih (n / 10) (by omega)]
      simp [Nat.toNat_digitChar_sub_48_of_lt_ten (Nat.mod_lt n (by decide : 0 < 10))]
      omega

theorem parseFp_digits {n : Nat} (h0 : 0 < n) (h1 : n < 18446744073709551616) :
    parseFp (Nat.toDigits 10 n) = some n := by
  have hne : Nat.toDigits 10 n ≠ [] := Nat.toDigits_ne_nil
  have hplus : ∀ r, Nat.toDigits 10 n ≠ '+' :: r := by
    intro r e
    have : '+' ∈ Nat.toDigits 10 n := by rw [e]; simp
    have := digit_of_mem this
    revert this; decide
  unfold parseFp
  have hm : (match Nat.toDigits 10 n with | '+' :: r => r | _ => Nat.toDigits 10 n) = Nat.toDigits 10 n := by
    split
    · rename_i r e; exact absurd e (hplus r)
    · rfl
  simp only [hm]
  have hall : (Nat.toDigits 10 n).all (fun c => '0' ≤ c && c ≤ '9') = true := by
    rw [List.all_eq_true]; intro c hc; exact digit_of_mem hc
  simp only [hall, foldl_digits]
  simp [hne]
  omega

theorem splitSlash_ne_nil (cs : List Char) : splitSlash cs ≠ [] := by
  cases cs with
  | nil => simp [splitSlash]
  | cons c r =>
    simp only [splitSlash]
    split
    · simp
    · split <;> simp

theorem splitSlash_noslash {ds : List Char} (h : '/' ∉ ds) : splitSlash ds = [ds] := by
  induction ds with
  | nil => rfl
  | cons c r ih =>
    have hc : c ≠ '/' := fun e => h (by simp [e])
    have hr : '/' ∉ r := fun e => h (by simp [e])
    simp [splitSlash, ih hr, hc]

theorem splitSlash_append {ds rest : List Char} (h : '/' ∉ ds) :
    splitSlash (ds ++ '/' :: rest) = ds :: splitSlash rest := by
  induction ds with
  | nil =>
    simp only [List.nil_append, splitSlash]
    cases hs : splitSlash rest with
    | nil => exact absurd hs (splitSlash_ne_nil rest)
    | cons s ss => simp
  | cons c r ih =>
    have hc : c ≠ '/' := fun e => h (by simp [e])
    have hr : '/' ∉ r := fun e => h (by simp [e])
    simp [splitSlash, ih hr, hc]

theorem noslash_digits (n : Nat) : '/' ∉ Nat.toDigits 10 n := by
  intro h
  have := digit_of_mem h
  revert this; decide

theorem splitSlash_encode (fps : List Nat) (hne : fps ≠ []) :
    splitSlash (encodeChars fps) = fps.map (Nat.toDigits 10) := by
  induction fps with
  | nil => exact absurd rfl hne
  | cons a r ih =>
    cases r with
    | nil => simp [encodeChars, splitSlash_noslash (noslash_digits a)]
    | cons b r' =>
      simp only [encodeChars, splitSlash_append (noslash_digits a), List.map_cons]
      rw [ih (by simp)]
      simp

theorem encode_last_not_slash (fps : List Nat) (hne : fps ≠ []) :
    ('/' :: encodeChars fps).getLast? ≠ some '/' := by
  induction fps with
  | nil => exact absurd rfl hne
  | cons a r ih =>
    cases r with
    | nil =>
      simp only [encodeChars]
      intro h
      have hd : Nat.toDigits 10 a ≠ [] := Nat.toDigits_ne_nil
      rw [List.getLast?_cons, ] at h
      have : (Nat.toDigits 10 a).getLast? = some '/' := by
        cases hl : (Nat.toDigits 10 a).getLast? with
        | none => simp [List.getLast?_eq_none_iff] at hl
        | some x => rw [hl] at h; simpa using h
      exact noslash_digits a (List.mem_of_getLast? this)
    | cons b r' =>
      simp only [encodeChars]
      intro h
      apply ih (by simp)
      have e : '/' :: (Nat.toDigits 10 a ++ '/' :: encodeChars (b :: r')) =
          ('/' :: Nat.toDigits 10 a) ++ ('/' :: encodeChars (b :: r')) := by simp
      rw [e, List.getLast?_append] at h
      cases hl : ('/' :: encodeChars (b :: r')).getLast? with
      | none => simp at hl
      | some x => rw [hl] at h; simpa using h

/-- the encoded form of a fingerprint sequence (as the Explorer's url suffix) parses back to it -/
theorem parse_encode (fps : List Nat) (hne : fps ≠ [])
    (hr : ∀ f ∈ fps, 0 < f ∧ f < 18446744073709551616) :
    parseFpsChars ('/' :: encodeChars fps) = some fps := by
  unfold parseFpsChars
  simp only [encode_last_not_slash fps hne, if_false]
  have hs : splitSlash ('/' :: encodeChars fps) = [] :: fps.map (Nat.toDigits 10) := by
    have := splitSlash_append (ds := []) (rest := encodeChars fps) (by simp)
    simpa [splitSlash_encode fps hne] using this
  rw [hs]
  have hf : (([] : List Char) :: fps.map (Nat.toDigits 10)).filterMap parseFp = fps := by
    have h0 : parseFp [] = none := by simp [parseFp]
    simp only [List.filterMap_cons, h0, List.filterMap_map]
    clear hs hne
    induction fps with
    | nil => rfl
    | cons a r ih =>
      have ha := hr a (by simp)
      simp only [List.filterMap_cons, Function.comp, parseFp_digits ha.1 ha.2]
      rw [ih (fun f hf => hr f (by simp [hf]))]
  simp [hf]

theorem parseFps_encodeStr (key : σ → Nat) (p : Path σ α) (hne : p ≠ [])
    (hr : ∀ f ∈ encode key p, 0 < f ∧ f < 18446744073709551616) :
    parseFps ("/" ++ encodeStr key p) = some (encode key p) := by
  have : ("/" ++ encodeStr key p).toList = '/' :: encodeChars (encode key p) := by simp [encodeStr]
  unfold parseFps
  rw [this]
  exact parse_encode _ (by simpa [encode] using hne) hr

end SR.PathApi
