import SR.Proofs.HashUniv
/-! `equivB` (the executable `==` of the universe, used by the C04 oracle) decides `≈τ`. -/
namespace SR.Hash
open List

/-! ### soundness (no hypotheses) -/

theorem all2B_sound {α} {r : α → α → Bool} {R : α → α → Prop} :
    ∀ (l1 l2 : List α), (∀ a ∈ l1, ∀ b ∈ l2, r a b = true → R a b) → all2B r l1 l2 = true → All2 R l1 l2
  | [], [], _, _ => trivial
  | a :: l1, b :: l2, H, h => by
    simp only [all2B, Bool.and_eq_true] at h
    exact ⟨H a (by simp) b (by simp) h.1,
      all2B_sound l1 l2 (fun a' ha b' hb => H a' (by simp [ha]) b' (by simp [hb])) h.2⟩
  | [], _ :: _, _, h => by simp [all2B] at h
  | _ :: _, [], _, h => by simp [all2B] at h

theorem removeFirst_spec {α} {r : α → Bool} : ∀ {l : List α} {c : α} {l' : List α},
    removeFirst r l = some (c, l') → r c = true ∧ l.Perm (c :: l')
  | [], _, _, h => by simp [removeFirst] at h
  | b :: l, c, l', h => by
    unfold removeFirst at h
    split at h
    · rename_i hb
      injection h with h; injection h with h1 h2
      subst h1; subst h2
      exact ⟨hb, .refl _⟩
    · cases hr : removeFirst r l with
      | none => rw [hr] at h; cases h
      | some p =>
        rw [hr] at h
        simp only [Option.map_some, Option.some.injEq, Prod.mk.injEq] at h
        obtain ⟨h1, h2⟩ := h
        have ih := removeFirst_spec (l := l) (c := p.1) (l' := p.2) (by rw [hr])
        subst h1; subst h2
        exact ⟨ih.1, (List.Perm.cons b ih.2).trans (List.Perm.swap _ _ _)⟩

theorem removeFirst_isSome {α} {r : α → Bool} : ∀ {l : List α}, (∃ b ∈ l, r b = true) → (removeFirst r l).isSome
  | [], h => by obtain ⟨b, hb, _⟩ := h; cases hb
  | b :: l, h => by
    unfold removeFirst
    split
    · rfl
    · rename_i hb
      obtain ⟨c, hc, hrc⟩ := h
      rcases List.mem_cons.1 hc with rfl | hc
      · exact absurd hrc hb
      · have := removeFirst_isSome (r := r) (l := l) ⟨c, hc, hrc⟩
        cases hr : removeFirst r l with
        | none => rw [hr] at this; cases this
        | some p => rfl

theorem permByB_sound {α} {r : α → α → Bool} {R : α → α → Prop} :
    ∀ (l1 l2 : List α), (∀ a ∈ l1, ∀ b ∈ l2, r a b = true → R a b) → permByB r l1 l2 = true → PermBy R l1 l2
  | [], l2, _, h => by
    have : l2 = [] := by simpa [permByB] using h
    subst this
    exact ⟨[], [], .refl _, .refl _, trivial⟩
  | a :: l1, l2, H, h => by
    unfold permByB at h
    cases hr : removeFirst (r a) l2 with
    | none => rw [hr] at h; cases h
    | some p =>
      rw [hr] at h
      simp only at h
      obtain ⟨hc, hp⟩ := removeFirst_spec (c := p.1) (l' := p.2) (by rw [hr])
      have hsub : ∀ b ∈ p.2, b ∈ l2 := fun b hb => hp.symm.subset (by simp [hb])
      obtain ⟨m1, m2, q1, q2, a2⟩ := permByB_sound l1 p.2
        (fun a' ha b' hb => H a' (by simp [ha]) b' (hsub b' hb)) h
      refine ⟨a :: m1, p.1 :: m2, List.Perm.cons a q1, hp.trans (List.Perm.cons _ q2), ?_, a2⟩
      exact H a (by simp) p.1 (hp.symm.subset (by simp)) hc

theorem equivB_sound : ∀ (τ : Ty) (a b : Val τ), equivB τ a b = true → Equiv τ a b := by
  intro τ
  induction τ with
  | unit => intro a b _; trivial
  | bool => intro (a : Bool) (b : Bool) h; exact eq_of_beq (α := Bool) h
  | u8 => intro (a : Nat) (b : Nat) h; exact eq_of_beq (α := Nat) h
  | u32 => intro (a : Nat) (b : Nat) h; exact eq_of_beq (α := Nat) h
  | u64 => intro (a : Nat) (b : Nat) h; exact eq_of_beq (α := Nat) h
  | usize => intro (a : Nat) (b : Nat) h; exact eq_of_beq (α := Nat) h
  | id => intro (a : Nat) (b : Nat) h; exact eq_of_beq (α := Nat) h
  | str => intro (a : List Nat) (b : List Nat) h; exact eq_of_beq (α := List Nat) h
  | arc t ih => intro a b h; simp only [equivB] at h; simp only [Equiv]; exact ih a b h
  | tup s t ihs iht =>
    intro a b h; simp only [equivB, Bool.and_eq_true] at h; simp only [Equiv]
    exact ⟨ihs _ _ h.1, iht _ _ h.2⟩
  | enum2 s t ihs iht =>
    intro a b h
    cases a <;> cases b <;> simp only [equivB] at h <;> simp only [Equiv]
    · exact ihs _ _ h
    · cases h
    · cases h
    · exact iht _ _ h
  | enum3 s t u ihs iht ihu =>
    intro a b h
    rcases a with a | a | a <;> rcases b with b | b | b <;> simp only [equivB] at h <;> simp only [Equiv] <;>
      first | exact ihs _ _ h | exact iht _ _ h | exact ihu _ _ h | cases h
  | vec t ih =>
    intro (a : List (Val t)) (b : List (Val t)) h; simp only [equivB] at h; simp only [Equiv]
    exact all2B_sound a b (fun x _ y _ => ih x y) h
  | deque t ih =>
    intro (a : List (Val t)) (b : List (Val t)) h; simp only [equivB] at h; simp only [Equiv]
    exact all2B_sound a b (fun x _ y _ => ih x y) h
  | bset t ih =>
    intro (a : List (Val t)) (b : List (Val t)) h; simp only [equivB] at h; simp only [Equiv]
    exact all2B_sound a b (fun x _ y _ => ih x y) h
  | bmap k v ihk ihv =>
    intro (a : List (Val k × Val v)) (b : List (Val k × Val v)) h; simp only [equivB] at h; simp only [Equiv]
    refine all2B_sound a b (fun x _ y _ hxy => ?_) h
    simp only [pairB, Bool.and_eq_true] at hxy
    exact ⟨ihk _ _ hxy.1, ihv _ _ hxy.2⟩
  | hset t ih =>
    intro (a : List (Val t)) (b : List (Val t)) h; simp only [equivB] at h; simp only [Equiv]
    exact permByB_sound a b (fun x _ y _ => ih x y) h
  | hmap k v ihk ihv =>
    intro (a : List (Val k × Val v)) (b : List (Val k × Val v)) h; simp only [equivB] at h; simp only [Equiv]
    refine permByB_sound a b (fun x _ y _ hxy => ?_) h
    simp only [pairB, Bool.and_eq_true] at hxy
    exact ⟨ihk _ _ hxy.1, ihv _ _ hxy.2⟩
  | vclock =>
    intro (a : List Nat) (b : List Nat) h; simp only [equivB, vcEqB] at h; simp only [Equiv]
    exact (VClock.veq_iff a b).1 h
  | choices r ih =>
    intro (a : List (List (List Nat × List (Val r)))) (b : List (List (List Nat × List (Val r)))) h
    simp only [equivB] at h; simp only [Equiv]
    refine all2B_sound _ _ (fun p _ q _ hpq => ?_) h
    simp only [pendB, Bool.and_eq_true, beq_iff_eq] at hpq
    refine ⟨hpq.1, permByB_sound _ _ (fun e _ f _ hef => ?_) hpq.2⟩
    simp only [pairB, bytesEqB, Bool.and_eq_true, beq_iff_eq] at hef
    exact ⟨hef.1, all2B_sound _ _ (fun x _ y _ => ih x y) hef.2⟩

/-! ### completeness (for well-formed values, `h` collision-free on the inner streams) -/

theorem all2B_complete {α} {r : α → α → Bool} {R : α → α → Prop} :
    ∀ (l1 l2 : List α), (∀ a ∈ l1, ∀ b ∈ l2, R a b → r a b = true) → All2 R l1 l2 → all2B r l1 l2 = true
  | [], [], _, _ => rfl
  | a :: l1, b :: l2, H, h => by
    simp only [all2B, Bool.and_eq_true]
    exact ⟨H a (by simp) b (by simp) h.1,
      all2B_complete l1 l2 (fun a' ha b' hb => H a' (by simp [ha]) b' (by simp [hb])) h.2⟩
  | [], _ :: _, _, h => by cases h
  | _ :: _, [], _, h => by cases h

/-- greedy matching succeeds when `r` is "same image under `f`" and the images agree as multisets -/
theorem permByB_of_perm_map {α β} {r : α → α → Bool} (f : α → β) :
    ∀ (l1 l2 : List α), (∀ a ∈ l1, ∀ b ∈ l2, (r a b = true ↔ f a = f b)) → (l1.map f).Perm (l2.map f) →
      permByB r l1 l2 = true
  | [], l2, _, hp => by
    have : l2 = [] := by simpa using hp.length_eq.symm
    subst this; rfl
  | a :: l1, l2, H, hp => by
    have hfa : f a ∈ l2.map f := hp.subset (by simp)
    obtain ⟨b, hb, hba⟩ := List.mem_map.1 hfa
    have hsome := removeFirst_isSome (r := r a) (l := l2) ⟨b, hb, (H a (by simp) b hb).2 hba.symm⟩
    unfold permByB
    cases hr : removeFirst (r a) l2 with
    | none => rw [hr] at hsome; cases hsome
    | some p =>
      simp only
      obtain ⟨hc, hpm⟩ := removeFirst_spec (c := p.1) (l' := p.2) (by rw [hr])
      have hcm : p.1 ∈ l2 := hpm.symm.subset (by simp)
      have hfc : f a = f p.1 := (H a (by simp) p.1 hcm).1 hc
      have h2 : (l2.map f).Perm (f a :: p.2.map f) := by
        have := hpm.map f
        simpa [hfc] using this
      have h3 : (l1.map f).Perm (p.2.map f) := by
        have : (f a :: l1.map f).Perm (f a :: p.2.map f) := by simpa using hp.trans h2
        exact List.Perm.cons_inv this
      exact permByB_of_perm_map f l1 p.2
        (fun a' ha b' hb => H a' (by simp [ha]) b' (hpm.symm.subset (by simp [hb]))) h3

theorem perm_map_of_permBy {α β} {R : α → α → Prop} (f : α → β) (l1 l2 : List α)
    (H : ∀ a ∈ l1, ∀ b ∈ l2, R a b → f a = f b) (hp : PermBy R l1 l2) : (l1.map f).Perm (l2.map f) := by
  obtain ⟨m1, m2, p1, p2, a2⟩ := hp
  have e : m1.map f = m2.map f :=
    map_eq_of_all2 (fun a ha b hb => H a (p1.symm.subset ha) b (p2.symm.subset hb)) a2
  exact (p1.map f).trans (e ▸ (p2.map f).symm)

theorem inj_of_toks_eq (h : List Tok → UInt64) (P : List Tok → Prop) (hinj : InjOnP h P) (τ : Ty) (a b : Val τ)
    (wa : WF h P τ a) (wb : WF h P τ b) (e : toks h τ a = toks h τ b) : Equiv τ a b :=
  (core_all h P hinj τ a b wa wb [] []
    (by show flat (toks h τ a) ++ [] = flat (toks h τ b) ++ []; rw [e])).1

theorem equivB_complete (h : List Tok → UInt64) (P : List Tok → Prop) (hinj : InjOnP h P) :
    ∀ (τ : Ty) (a b : Val τ), WF h P τ a → WF h P τ b → Equiv τ a b → equivB τ a b = true := by
  intro τ
  induction τ with
  | unit => intro a b _ _ _; rfl
  | bool => intro (a : Bool) (b : Bool) _ _ e; exact (beq_iff_eq (α := Bool)).2 e
  | u8 => intro (a : Nat) (b : Nat) _ _ e; exact (beq_iff_eq (α := Nat)).2 e
  | u32 => intro (a : Nat) (b : Nat) _ _ e; exact (beq_iff_eq (α := Nat)).2 e
  | u64 => intro (a : Nat) (b : Nat) _ _ e; exact (beq_iff_eq (α := Nat)).2 e
  | usize => intro (a : Nat) (b : Nat) _ _ e; exact (beq_iff_eq (α := Nat)).2 e
  | id => intro (a : Nat) (b : Nat) _ _ e; exact (beq_iff_eq (α := Nat)).2 e
  | str => intro (a : List Nat) (b : List Nat) _ _ e; exact (beq_iff_eq (α := List Nat)).2 e
  | arc t ih =>
    intro a b wa wb e; simp only [Equiv] at e; simp only [WF] at wa wb; simp only [equivB]; exact ih a b wa wb e
  | tup s t ihs iht =>
    intro a b wa wb e; simp only [Equiv] at e; simp only [WF] at wa wb
    simp only [equivB, Bool.and_eq_true]
    exact ⟨ihs _ _ wa.1 wb.1 e.1, iht _ _ wa.2 wb.2 e.2⟩
  | enum2 s t ihs iht =>
    intro a b wa wb e
    cases a <;> cases b <;> simp only [Equiv] at e <;> simp only [WF] at wa wb <;> simp only [equivB]
    · exact ihs _ _ wa wb e
    · exact iht _ _ wa wb e
  | enum3 s t u ihs iht ihu =>
    intro a b wa wb e
    rcases a with a | a | a <;> rcases b with b | b | b <;> simp only [Equiv] at e <;>
      simp only [WF] at wa wb <;> simp only [equivB]
    · exact ihs _ _ wa wb e
    · exact iht _ _ wa wb e
    · exact ihu _ _ wa wb e
  | vec t ih =>
    intro (a : List (Val t)) (b : List (Val t)) wa wb e
    simp only [Equiv] at e; simp only [WF] at wa wb; simp only [equivB]
    exact all2B_complete a b (fun x hx y hy => ih x y (wa.2 x hx) (wb.2 y hy)) e
  | deque t ih =>
    intro (a : List (Val t)) (b : List (Val t)) wa wb e
    simp only [Equiv] at e; simp only [WF] at wa wb; simp only [equivB]
    exact all2B_complete a b (fun x hx y hy => ih x y (wa.2 x hx) (wb.2 y hy)) e
  | bset t ih =>
    intro (a : List (Val t)) (b : List (Val t)) wa wb e
    simp only [Equiv] at e; simp only [WF] at wa wb; simp only [equivB]
    exact all2B_complete a b (fun x hx y hy => ih x y (wa.2 x hx) (wb.2 y hy)) e
  | bmap k v ihk ihv =>
    intro (a : List (Val k × Val v)) (b : List (Val k × Val v)) wa wb e
    simp only [Equiv] at e; simp only [WF] at wa wb; simp only [equivB]
    refine all2B_complete a b (fun x hx y hy exy => ?_) e
    simp only [pairB, Bool.and_eq_true]
    exact ⟨ihk _ _ (wa.2 x hx).1 (wb.2 y hy).1 exy.1, ihv _ _ (wa.2 x hx).2 (wb.2 y hy).2 exy.2⟩
  | hset t ih =>
    intro (a : List (Val t)) (b : List (Val t)) wa wb e
    simp only [Equiv] at e; simp only [WF] at wa wb; simp only [equivB]
    refine permByB_of_perm_map (toks h t) a b ?_
      (perm_map_of_permBy (toks h t) a b (fun x _ y _ r => toks_resp h t x y r) e)
    intro x hx y hy
    constructor
    · intro hb; exact toks_resp h t x y (equivB_sound t x y hb)
    · intro he
      exact ih x y (wa.2 x hx).1 (wb.2 y hy).1 (inj_of_toks_eq h P hinj t x y (wa.2 x hx).1 (wb.2 y hy).1 he)
  | hmap k v ihk ihv =>
    intro (a : List (Val k × Val v)) (b : List (Val k × Val v)) wa wb e
    simp only [Equiv] at e; simp only [WF] at wa wb; simp only [equivB]
    have resp : ∀ x ∈ a, ∀ y ∈ b, (Equiv k x.1 y.1 ∧ Equiv v x.2 y.2) →
        toks h k x.1 ++ toks h v x.2 = toks h k y.1 ++ toks h v y.2 := by
      intro x _ y _ r; rw [toks_resp h k _ _ r.1, toks_resp h v _ _ r.2]
    refine permByB_of_perm_map (fun (p : Val k × Val v) => toks h k p.1 ++ toks h v p.2) a b ?_
      (perm_map_of_permBy _ a b resp e)
    intro x hx y hy
    simp only [pairB, Bool.and_eq_true]
    constructor
    · intro hb
      exact resp x hx y hy ⟨equivB_sound k _ _ hb.1, equivB_sound v _ _ hb.2⟩
    · intro he
      have e' := congrArg flat he
      simp only [flat_append] at e'
      have e'' : flat (toks h k x.1) ++ (flat (toks h v x.2) ++ []) = flat (toks h k y.1) ++ (flat (toks h v y.2) ++ []) := by
        simpa using e'
      obtain ⟨r1, r2, _⟩ := core_append (core_all h P hinj k x.1 y.1 (wa.2 x hx).1 (wb.2 y hy).1)
        (core_all h P hinj v x.2 y.2 (wa.2 x hx).2.1 (wb.2 y hy).2.1) [] [] e''
      exact ⟨ihk _ _ (wa.2 x hx).1 (wb.2 y hy).1 r1, ihv _ _ (wa.2 x hx).2.1 (wb.2 y hy).2.1 r2⟩
  | vclock =>
    intro (a : List Nat) (b : List Nat) _ _ e; simp only [Equiv] at e; simp only [equivB, vcEqB]
    exact (VClock.veq_iff a b).2 e
  | choices r ih =>
    intro (a : List (List (List Nat × List (Val r)))) (b : List (List (List Nat × List (Val r)))) wa wb e
    simp only [Equiv] at e; simp only [WF] at wa wb; simp only [equivB]
    refine all2B_complete _ _ (fun p hp q hq hpq => ?_) e
    obtain ⟨_, _, pm⟩ := mem_pendingFrom 0 a p hp
    obtain ⟨_, _, qm⟩ := mem_pendingFrom 0 b q hq
    have wp := wa.2 p.2 pm
    have wq := wb.2 q.2 qm
    simp only [pendB, Bool.and_eq_true, beq_iff_eq]
    refine ⟨hpq.1, ?_⟩
    let f := fun (e : List Nat × List (Val r)) => strToks e.1 ++ seqToks r.isBlock (e.2.map (toks h r))
    have resp : ∀ x ∈ p.2, ∀ y ∈ q.2, (x.1 = y.1 ∧ All2 (Equiv r) x.2 y.2) → f x = f y := by
      intro x _ y _ rxy
      simp only [f]
      rw [rxy.1, seqToks_congr _ _ _ _ (fun u _ w _ ruw => toks_resp h r u w ruw) rxy.2]
    refine permByB_of_perm_map f p.2 q.2 ?_ (perm_map_of_permBy f p.2 q.2 resp hpq.2)
    intro x hx y hy
    simp only [pairB, bytesEqB, Bool.and_eq_true, beq_iff_eq]
    constructor
    · intro hb
      exact resp x hx y hy ⟨hb.1, all2B_sound _ _ (fun u _ w _ => equivB_sound r u w) hb.2⟩
    · intro he
      obtain ⟨k1, k2⟩ := core_entry h P r (core_all h P hinj r) x y
        ⟨(wp.2 x hx).1, (wp.2 x hx).2.1, (wp.2 x hx).2.2.1⟩
        ⟨(wq.2 y hy).1, (wq.2 y hy).2.1, (wq.2 y hy).2.2.1⟩ he
      exact ⟨k1, all2B_complete _ _ (fun u hu w hw => ih u w ((wp.2 x hx).2.2.1 u hu) ((wq.2 y hy).2.2.1 w hw)) k2⟩

end SR.Hash
