import SR.Util.Extras
import SR.Proofs.DenseNatMap
import SR.Proofs.RewriteReindex
/-! Helper lemmas for `SR/Props/UtilExtras.lean` (enumeration of a dense map; plans of permutations). -/
namespace SR.DNM

theorem enumFrom_getElem? {V} : ∀ (i : Nat) (m : List V) (k : Nat),
    (enumFrom i m)[k]? = (m[k]?).map (fun v => (i + k, v))
  | _, [], _ => by simp [enumFrom]
  | i, v :: vs, 0 => by simp [enumFrom]
  | i, v :: vs, k + 1 => by
    simp only [enumFrom, List.getElem?_cons_succ]
    rw [enumFrom_getElem? (i + 1) vs k]
    congr 1; funext x; congr 1; omega

theorem enumFrom_length {V} : ∀ (i : Nat) (m : List V), (enumFrom i m).length = m.length
  | _, [] => rfl
  | i, _ :: vs => by simp [enumFrom, enumFrom_length (i + 1) vs]

end SR.DNM

namespace SR.RW
open SR.DNM

theorem natLe_trans : ∀ a b c : Nat, natLe a b = true → natLe b c = true → natLe a c = true := by
  intro a b c; simp [natLe]; omega
theorem natLe_total : ∀ a b : Nat, (natLe a b || natLe b a) = true := by
  intro a b; simp [natLe]; omega

/-- sorting a permutation of `0..n-1` by value: position `k` of the sorted list holds the value `k` -/
theorem sortedIdx_perm_snd (π : List Nat) (h : π.Perm (List.range π.length)) :
    (sortedIdx natLe π).map (·.2) = List.range π.length := by
  have hp : ((sortedIdx natLe π).map (·.2)).Perm (List.range π.length) := by
    have := (sortedIdx_perm natLe π).map (·.2)
    rw [List.map_snd_zip (by simp)] at this
    exact this.trans h
  have hs : ((sortedIdx natLe π).map (·.2)).Pairwise (· ≤ ·) := by
    rw [List.pairwise_map]
    exact (sortedIdx_pairwise natLe natLe_trans natLe_total π).imp (by intro a b; simp [natLe])
  exact List.Perm.eq_of_pairwise (le := (· ≤ ·)) (fun a b _ _ h1 h2 => Nat.le_antisymm h1 h2) hs
    List.pairwise_le_range hp

end SR.RW
