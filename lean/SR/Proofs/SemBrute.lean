import SR.Sem.Brute
import SR.Proofs.SemRecord
/-!
The executable oracle pieces of `SR/Sem/Brute.lean` decide the declarative definitions of
`SR/Sem/Spec.lean`: `wfB` decides `WellFormed`, `checkSer` decides `IsSerializationOf`.
(The enumerations `brutePlain` / `bruteDfs` built on them are cross-checked against each other at run time.)
-/
namespace SR.Sem
variable {S Op Ret : Type}

/-! ### threads of a history -/
theorem mem_dedup_foldl (l : List Nat) (acc : List Nat) (t : Nat) :
    t ∈ l.foldl (fun acc t => if acc.contains t then acc else acc ++ [t]) acc ↔ t ∈ acc ∨ t ∈ l := by
  induction l generalizing acc with
  | nil => simp
  | cons x l ih =>
    simp only [List.foldl_cons, ih, List.mem_cons]
    by_cases h : acc.contains x = true
    · simp only [h, if_true]
      have hx : x ∈ acc := by simpa using h
      constructor
      · rintro (h1 | h1)
        · exact Or.inl h1
        · exact Or.inr (Or.inr h1)
      · rintro (h1 | rfl | h1)
        · exact Or.inl h1
        · exact Or.inl hx
        · exact Or.inr h1
    · simp only [h, Bool.false_eq_true, if_false, List.mem_append, List.mem_singleton]
      constructor
      · rintro ((h1 | h1) | h1)
        · exact Or.inl h1
        · exact Or.inr (Or.inl h1)
        · exact Or.inr (Or.inr h1)
      · rintro (h1 | h1 | h1)
        · exact Or.inl (Or.inl h1)
        · exact Or.inl (Or.inr h1)
        · exact Or.inr h1

theorem mem_threadsOf (es : List (Event Op Ret)) (t : Nat) : t ∈ threadsOf es ↔ ∃ e ∈ es, eventThread e = t := by
  unfold threadsOf
  rw [mem_dedup_foldl]
  simp

theorem ret_mem_of_mem_retsOf {es : List (Event Op Ret)} {t : Nat} {x : Nat × Ret} (h : x ∈ retsOf es t) :
    ∃ r, Event.ret t r ∈ es := by
  unfold retsOf at h
  rw [List.mem_filterMap] at h
  obtain ⟨⟨e, i⟩, hm, he⟩ := h
  have := (List.mem_zipIdx hm).2.2
  cases e with
  | inv t' op => simp at he
  | ret t' r =>
    simp only at he
    by_cases ht : t' = t
    · subst ht
      exact ⟨r, by rw [this]; exact List.getElem_mem _⟩
    · simp [ht] at he

theorem mem_completedIds (es : List (Event Op Ret)) (a : OpId) : a ∈ completedIds es ↔ IsCompleted es a := by
  unfold completedIds IsCompleted
  simp only [List.mem_flatMap, List.mem_map, List.mem_range]
  constructor
  · rintro ⟨t, _, i, hi, rfl⟩; exact hi
  · intro h
    refine ⟨a.1, ?_, a.2, h, rfl⟩
    rw [mem_threadsOf]
    have : (retsOf es a.1)[a.2] ∈ retsOf es a.1 := List.getElem_mem h
    obtain ⟨r, hr⟩ := ret_mem_of_mem_retsOf this
    exact ⟨_, hr, rfl⟩

/-! ### the order predicates -/
theorem precedesRTB_iff (es : List (Event Op Ret)) (a b : OpId) : precedesRTB es a b = true ↔ PrecedesRT es a b := by
  unfold precedesRTB PrecedesRT
  cases hq : retPos es a with
  | none => simp
  | some q =>
    cases hp : invPos es b with
    | none => simp
    | some p => simp

theorem mustPrecedeB_iff (rt : Bool) (es : List (Event Op Ret)) (a b : OpId) :
    mustPrecedeB rt es a b = true ↔ MustPrecede rt es a b := by
  unfold mustPrecedeB MustPrecede ProgOrder
  rw [Bool.or_eq_true, Bool.and_eq_true, Bool.and_eq_true, precedesRTB_iff]
  simp

theorem pairwiseB_iff {α : Type} (R : α → α → Bool) (l : List α) :
    pairwiseB R l = true ↔ l.Pairwise (fun a b => R a b = true) := by
  induction l with
  | nil => simp [pairwiseB]
  | cons a l ih =>
    simp only [pairwiseB, Bool.and_eq_true, List.all_eq_true, ih, List.pairwise_cons]

theorem nodupB_iff {α : Type} [BEq α] [LawfulBEq α] (l : List α) : nodupB l = true ↔ l.Nodup := by
  induction l with
  | nil => simp [nodupB]
  | cons a l ih =>
    simp only [nodupB, Bool.and_eq_true, Bool.not_eq_true', ih, List.nodup_cons]
    constructor
    · rintro ⟨h1, h2⟩
      refine ⟨?_, h2⟩
      intro hm
      have : l.contains a = true := by simpa using hm
      rw [this] at h1; cases h1
    · rintro ⟨h1, h2⟩
      refine ⟨?_, h2⟩
      cases hc : l.contains a with
      | false => rfl
      | true => exact absurd (by simpa using hc) h1

theorem legalB_iff [DecidableEq Op] [DecidableEq Ret] (spec : SeqSpec S Op Ret) (es : List (Event Op Ret)) :
    ∀ (s : S) (ids : List OpId) (l : List (Op × Ret)), legalB spec es s ids l = true ↔ Legal spec es s ids l := by
  intro s ids
  induction ids generalizing s with
  | nil =>
    intro l
    cases l <;> simp [legalB, Legal]
  | cons a ids ih =>
    intro l
    cases l with
    | nil => simp [legalB, Legal]
    | cons x l =>
      simp only [legalB, Legal, Bool.and_eq_true, decide_eq_true_eq, ih]
      constructor
      · rintro ⟨⟨⟨h1, h2⟩, h3⟩, h4⟩
        refine ⟨h1, h2, ?_, h4⟩
        intro r hr
        rw [hr] at h3
        simpa using h3
      · rintro ⟨h1, h2, h3, h4⟩
        refine ⟨⟨⟨h1, h2⟩, ?_⟩, h4⟩
        cases hr : retAt es a with
        | none => rfl
        | some r => simp [h3 r hr]

/-- `checkSer` is the declarative definition -/
theorem checkSer_iff [DecidableEq Op] [DecidableEq Ret] (rt : Bool) (spec : SeqSpec S Op Ret) (s0 : S)
    (es : List (Event Op Ret)) (ids : List OpId) (l : List (Op × Ret)) :
    checkSer rt spec s0 es ids l = true ↔ IsSerializationOf rt spec s0 es ids l := by
  unfold checkSer IsSerializationOf
  simp only [Bool.and_eq_true, nodupB_iff, List.all_eq_true, decide_eq_true_eq, pairwiseB_iff, legalB_iff]
  constructor
  · rintro ⟨⟨⟨⟨h1, h2⟩, h3⟩, h4⟩, h5⟩
    refine ⟨h1, fun a ha => h2 a ha, ?_, ?_, h5⟩
    · intro a ha
      have := h3 a ((mem_completedIds es a).2 ha)
      simpa using this
    · refine h4.imp ?_
      intro a b hab hm
      rw [← mustPrecedeB_iff] at hm
      simp [hm] at hab
  · rintro ⟨h1, h2, h3, h4, h5⟩
    refine ⟨⟨⟨⟨h1, fun a ha => h2 a ha⟩, ?_⟩, ?_⟩, h5⟩
    · intro a ha
      have := h3 a ((mem_completedIds es a).1 ha)
      simpa using this
    · refine h4.imp ?_
      intro a b hab
      cases hm : mustPrecedeB rt es b a with
      | false => rfl
      | true => exact absurd ((mustPrecedeB_iff rt es b a).1 hm) hab

/-! ### `wfB` decides `WellFormed` -/
theorem counts_of_wellFormed : ∀ es : List (Event Op Ret), WellFormed es → ∀ t,
    (retsOf es t).length ≤ (invsOf es t).length ∧ (invsOf es t).length ≤ (retsOf es t).length + 1 := by
  intro es
  induction es using snoc_induction with
  | nil => intro _ t; simp
  | snoc es e ih =>
    intro hwf t
    obtain ⟨h1, h2⟩ := wellFormed_snoc.1 hwf
    have := ih h1 t
    rw [invsOf_snoc, retsOf_snoc]
    cases e with
    | inv t' op =>
      by_cases ht : t' = t
      · subst ht
        have hn : ¬ InFlightIn es t' := h2
        unfold InFlightIn at hn
        simp [newInv, newRet]; omega
      · simp [newInv, newRet, ht]; exact this
    | ret t' r =>
      by_cases ht : t' = t
      · subst ht
        have hn : InFlightIn es t' := h2
        unfold InFlightIn at hn
        simp [newInv, newRet]; omega
      · simp [newInv, newRet, ht]; exact this

theorem wellFormed_cons_iff (pre : List (Event Op Ret)) (e : Event Op Ret) (es : List (Event Op Ret)) :
    (∀ p e' q, e :: es = p ++ e' :: q → Admissible (pre ++ p) e') ↔
    Admissible pre e ∧ ∀ p e' q, es = p ++ e' :: q → Admissible ((pre ++ [e]) ++ p) e' := by
  constructor
  · intro h
    refine ⟨by simpa using h [] e es rfl, ?_⟩
    intro p e' q heq
    have := h (e :: p) e' q (by rw [heq]; rfl)
    simpa using this
  · rintro ⟨h1, h2⟩ p e' q heq
    cases p with
    | nil =>
      simp only [List.nil_append, List.cons.injEq] at heq
      obtain ⟨rfl, _⟩ := heq
      simpa using h1
    | cons x p =>
      simp only [List.cons_append, List.cons.injEq] at heq
      obtain ⟨rfl, heq⟩ := heq
      have := h2 p e' q heq
      simpa using this

theorem wfFrom_iff : ∀ (es pre : List (Event Op Ret)) (fl : List Nat), WellFormed pre → fl.Nodup →
    (∀ t, t ∈ fl ↔ InFlightIn pre t) →
    (wfFrom fl es = true ↔ ∀ p e q, es = p ++ e :: q → Admissible (pre ++ p) e) := by
  intro es
  induction es with
  | nil =>
    intro pre fl _ _ _
    simp only [wfFrom, true_iff]
    intro p e q h
    have := congrArg List.length h; simp at this
  | cons e es ih =>
    intro pre fl hpre hnd hfl
    rw [wellFormed_cons_iff]
    have hcnt := counts_of_wellFormed pre hpre
    cases e with
    | inv t op =>
      simp only [wfFrom, Bool.and_eq_true, Bool.not_eq_true']
      have hadm : (fl.contains t = false) ↔ Admissible pre (Event.inv t op) := by
        show _ ↔ ¬ InFlightIn pre t
        rw [← hfl t]
        constructor
        · intro h hm
          have : fl.contains t = true := by simpa using hm
          rw [this] at h; cases h
        · intro h
          cases hc : fl.contains t with
          | false => rfl
          | true => exact absurd (by simpa using hc) h
      rw [hadm]
      constructor
      · rintro ⟨h1, h2⟩
        refine ⟨h1, ?_⟩
        have hwf' : WellFormed (pre ++ [Event.inv t op]) := wellFormed_snoc.2 ⟨hpre, h1⟩
        refine (ih (pre ++ [Event.inv t op]) (t :: fl) hwf' ?_ ?_).1 h2
        · exact List.nodup_cons.2 ⟨fun hm => h1 ((hfl t).1 hm), hnd⟩
        · intro t'
          unfold InFlightIn
          rw [invsOf_snoc, retsOf_snoc]
          by_cases ht : t = t'
          · subst ht
            have hn : ¬ InFlightIn pre t := h1
            unfold InFlightIn at hn
            have := hcnt t
            simp [newInv, newRet]; omega
          · have := hfl t'
            unfold InFlightIn at this
            simp [newInv, newRet, ht, this, List.mem_cons]
            intro e; exact absurd e.symm ht
      · rintro ⟨h1, h2⟩
        refine ⟨h1, ?_⟩
        have hwf' : WellFormed (pre ++ [Event.inv t op]) := wellFormed_snoc.2 ⟨hpre, h1⟩
        refine (ih (pre ++ [Event.inv t op]) (t :: fl) hwf' ?_ ?_).2 h2
        · exact List.nodup_cons.2 ⟨fun hm => h1 ((hfl t).1 hm), hnd⟩
        · intro t'
          unfold InFlightIn
          rw [invsOf_snoc, retsOf_snoc]
          by_cases ht : t = t'
          · subst ht
            have hn : ¬ InFlightIn pre t := h1
            unfold InFlightIn at hn
            have := hcnt t
            simp [newInv, newRet]; omega
          · have := hfl t'
            unfold InFlightIn at this
            simp [newInv, newRet, ht, this, List.mem_cons]
            intro e; exact absurd e.symm ht
    | ret t r =>
      simp only [wfFrom, Bool.and_eq_true]
      have hadm : (fl.contains t = true) ↔ Admissible pre (Event.ret t r) := by
        show _ ↔ InFlightIn pre t
        rw [← hfl t]; simp
      rw [hadm]
      have hstep : ∀ h1 : Admissible pre (Event.ret t r),
          WellFormed (pre ++ [Event.ret t r]) ∧ (fl.erase t).Nodup ∧
          ∀ t', t' ∈ fl.erase t ↔ InFlightIn (pre ++ [Event.ret t r]) t' := by
        intro h1
        refine ⟨wellFormed_snoc.2 ⟨hpre, h1⟩, hnd.erase t, ?_⟩
        intro t'
        unfold InFlightIn
        rw [invsOf_snoc, retsOf_snoc]
        by_cases ht : t = t'
        · subst ht
          have hn : InFlightIn pre t := h1
          unfold InFlightIn at hn
          have := hcnt t
          have hne : t ∉ fl.erase t := fun hm => (List.Nodup.mem_erase_iff hnd).1 hm |>.1 rfl
          simp [newInv, newRet, hne]; omega
        · have := hfl t'
          unfold InFlightIn at this
          have hme : t' ∈ fl.erase t ↔ t' ∈ fl := by
            rw [List.Nodup.mem_erase_iff hnd]
            constructor
            · exact fun h => h.2
            · exact fun h => ⟨fun e => ht e.symm, h⟩
          simp [newInv, newRet, ht, hme, this]
      constructor
      · rintro ⟨h1, h2⟩
        obtain ⟨w1, w2, w3⟩ := hstep h1
        exact ⟨h1, (ih _ _ w1 w2 w3).1 h2⟩
      · rintro ⟨h1, h2⟩
        obtain ⟨w1, w2, w3⟩ := hstep h1
        exact ⟨h1, (ih _ _ w1 w2 w3).2 h2⟩

/-- `wfB` decides well-formedness -/
theorem wfB_iff (es : List (Event Op Ret)) : wfB es = true ↔ WellFormed es := by
  unfold wfB WellFormed
  have := wfFrom_iff es [] [] wellFormed_nil List.nodup_nil (by intro t; simp [InFlightIn])
  simpa using this

end SR.Sem
