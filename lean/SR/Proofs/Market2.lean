import SR.Proofs.Market
/-! Program-counter part of the market invariant. -/
namespace SR.Market

theorem count_running_set (l : List Pc) (w : Nat) (p : Pc) (h : w < l.length) :
    (l.set w p).count .running + (if l[w] = .running then 1 else 0)
      = l.count .running + (if p = .running then 1 else 0) := by
  rw [List.count_set h]
  have hpos : l[w] = .running → 0 < l.count .running := fun e =>
    List.count_pos_iff.2 (e ▸ List.getElem_mem h)
  by_cases e : l[w] = .running
  · have := hpos e
    by_cases e2 : p = .running <;> simp [e, e2] <;> omega
  · by_cases e2 : p = .running <;> simp [e, e2]

/-- the part of the invariant that concerns program counters and the counters of the market -/
structure PInv (s : MState) : Prop where
  wf : s.pcs.length = s.locs.length
  oc : s.openCount ≤ s.pcs.count .running
  noLost : NoLost s.pcs
  dropped : s.dropped = true → s.isOpen = false ∧ s.batches = []
  exited : Pc.exited ∈ s.pcs → s.dropped = true

theorem exited_mem_set {l : List Pc} {w : Nat} {p : Pc} (hp : p ≠ .exited) (h : Pc.exited ∈ l.set w p) :
    Pc.exited ∈ l := by
  rcases List.mem_or_eq_of_mem_set h with h | h
  · exact h
  · exact absurd h.symm hp

theorem popLoop_pinv (s0 : MState) (w : Nat) (hw : w < s0.pcs.length)
    (hwf : s0.pcs.length = s0.locs.length)
    (hoc : s0.openCount ≤ (s0.pcs.set w .running).count .running)
    (hdrop : s0.dropped = true → s0.isOpen = false ∧ s0.batches = [])
    (hex : Pc.exited ∈ s0.pcs → s0.dropped = true) : PInv (popLoop s0 w).1 := by
  unfold popLoop
  split
  · -- got
    rename_i b rest hb
    refine ⟨by simpa using hwf, hoc, noLost_of_running (List.mem_set hw _), ?_, ?_⟩
    · intro hd; have := hdrop hd; simp [hb] at this
    · intro h; exact hex (exited_mem_set (by simp) h)
  · rename_i hb
    simp only
    split
    · -- last one: close
      refine ⟨by simpa [length_notifyAll] using hwf, Nat.zero_le _, noLost_notifyAll _, ?_, ?_⟩
      · intro _; exact ⟨rfl, hb⟩
      · intro h; rw [exited_mem_notifyAll] at h; exact hex (exited_mem_set (by simp) h)
    · -- park
      rename_i hne
      have hne : s0.openCount - 1 ≠ 0 := by simpa using hne
      have h1 := count_running_set s0.pcs w .running hw
      have h2 := count_running_set s0.pcs w (.parked false) hw
      have hcnt : s0.openCount - 1 ≤ (s0.pcs.set w (.parked false)).count .running := by
        by_cases e : s0.pcs[w] = .running
        · rw [if_pos e, if_pos rfl] at h1; rw [if_pos e, if_neg (by simp)] at h2; omega
        · rw [if_neg e, if_pos rfl] at h1; rw [if_neg e, if_neg (by simp)] at h2; omega
      have hpos : 0 < (s0.pcs.set w (.parked false)).count .running := by omega
      refine ⟨by simpa using hwf, hcnt, ?_, ?_, ?_⟩
      · exact noLost_of_running (running_mem_of_count hpos)
      · exact hdrop
      · intro h; exact hex (exited_mem_set (by simp) h)

theorem getElem?_notifyAll_running {pcs : List Pc} {w : Nat} (h : pcs[w]? = some .running) :
    (notifyAll pcs)[w]? = some .running := by
  simp [notifyAll, h]

theorem pinv_notify {s : MState} (h : PInv s) (picks : List Nat) (bs : List (List Tok))
    (locs : List (List Tok)) (hl : locs.length = s.locs.length) (ho : s.isOpen = true) :
    PInv { s with batches := bs, locs := locs, pcs := notifyPicks s.pcs picks } := by
  refine ⟨by simp [length_notifyPicks, hl, h.wf], by simpa [count_running_notifyPicks] using h.oc,
    noLost_notifyPicks _ h.noLost, ?_, ?_⟩
  · intro hd; have := (h.dropped hd).1; simp_all
  · intro he; exact h.exited (exited_mem_notifyPicks.1 he)

theorem pinv_locs {s : MState} (h : PInv s) (locs : List (List Tok)) (hl : locs.length = s.locs.length) :
    PInv { s with locs := locs } :=
  ⟨by simp [hl, h.wf], h.oc, h.noLost, h.dropped, h.exited⟩

theorem pinv_dropMarket {s : MState} (h : PInv s) : PInv (dropMarket s) := by
  refine ⟨by simp [dropMarket, length_notifyAll, h.wf], ?_, noLost_notifyAll _, fun _ => ⟨rfl, rfl⟩, fun _ => rfl⟩
  have := h.oc
  simp only [dropMarket, count_running_notifyAll]; omega

theorem pinv_step {s s' : MState} {m : Step} (h : PInv s) (hs : step s m = some s') : PInv s' := by
  unfold step at hs
  cases m with
  | popBegin w =>
    simp only [stepR] at hs
    split at hs
    · rename_i hw
      obtain ⟨hwl, hget⟩ := List.getElem?_eq_some_iff.1 hw
      split at hs
      · simp at hs; subst hs; exact h
      · simp at hs; subst hs
        apply popLoop_pinv s w hwl h.wf ?_ h.dropped h.exited
        have := count_running_set s.pcs w .running hwl
        rw [if_pos hget, if_pos rfl] at this
        have := h.oc; omega
    · simp at hs
  | wake w =>
    simp only [stepR] at hs
    split at hs
    · rename_i b hw
      obtain ⟨hwl, hget⟩ := List.getElem?_eq_some_iff.1 hw
      simp at hs; subst hs
      apply popLoop_pinv { s with openCount := s.openCount + 1 } w hwl h.wf ?_ h.dropped h.exited
      have := count_running_set s.pcs w .running hwl
      rw [if_neg (by simp [hget]), if_pos rfl] at this
      have := h.oc
      show s.openCount + 1 ≤ (s.pcs.set w .running).count .running
      omega
    · simp at hs
  | push w n picks =>
    simp only [stepR] at hs
    split at hs
    · split at hs
      · split at hs
        · simp at hs; subst hs; exact pinv_locs h _ (by simp)
        · simp at hs
      · rename_i ho
        split at hs
        · simp at hs; subst hs; exact pinv_notify h picks _ _ (by simp) (by simpa using ho)
        · simp at hs
    · simp at hs
  | xpush toks picks =>
    simp only [stepR] at hs
    split at hs
    · split at hs
      · split at hs
        · simp at hs; subst hs; exact ⟨h.wf, h.oc, h.noLost, h.dropped, h.exited⟩
        · simp at hs
      · rename_i ho
        split at hs
        · simp at hs; subst hs
          have := pinv_notify h picks (toks :: s.batches) s.locs rfl (by simpa using ho)
          exact ⟨this.wf, this.oc, this.noLost, this.dropped, this.exited⟩
        · simp at hs
    · simp at hs
  | split w picks =>
    simp only [stepR] at hs
    split at hs
    · split at hs
      · split at hs
        · simp at hs; subst hs; exact pinv_locs h _ (by simp)
        · simp at hs
      · rename_i ho
        split at hs
        · simp at hs; subst hs; exact pinv_notify h picks _ _ (by simp) (by simpa using ho)
        · simp at hs
    · simp at hs
  | work w c fresh =>
    simp only [stepR] at hs
    split at hs
    · simp at hs; subst hs
      have := pinv_locs h (s.locs.set w (fresh ++ List.take ((s.locs.getD w []).length - c) (s.locs.getD w []))) (by simp)
      exact ⟨this.wf, this.oc, this.noLost, this.dropped, this.exited⟩
    · simp at hs
  | rearrange w l =>
    simp only [stepR] at hs
    split at hs
    · simp at hs; subst hs
      have := pinv_locs h (s.locs.set w l) (by simp)
      exact ⟨this.wf, this.oc, this.noLost, this.dropped, this.exited⟩
    · simp at hs
  | drop w =>
    simp only [stepR] at hs
    split at hs
    · rename_i hw
      simp at hs; subst hs
      have hd := pinv_dropMarket h
      have hw' : (dropMarket s).pcs[w]? = some .running := getElem?_notifyAll_running hw
      obtain ⟨hwl, hget⟩ := List.getElem?_eq_some_iff.1 hw'
      have hc := count_running_set (dropMarket s).pcs w .exited hwl
      rw [if_pos hget, if_neg (by simp)] at hc
      refine ⟨by simpa using hd.wf, ?_, ?_, hd.dropped, fun _ => rfl⟩
      · show (dropMarket s).openCount ≤ ((dropMarket s).pcs.set w .exited).count .running
        have h1 := h.oc
        have h2 : (dropMarket s).openCount = s.openCount - 1 := rfl
        have h3 : (dropMarket s).pcs.count .running = s.pcs.count .running := count_running_notifyAll _
        omega
      · intro hp
        rcases List.mem_or_eq_of_mem_set hp with hp | hp
        · exact absurd hp (not_parkedFalse_mem_notifyAll _)
        · cases hp
    · simp at hs
  | xdrop =>
    simp [stepR] at hs; subst hs; exact pinv_dropMarket h
  | timeoutFire =>
    simp [stepR] at hs; subst hs
    exact ⟨h.wf, h.oc, h.noLost, fun hd => ⟨rfl, (h.dropped hd).2⟩, h.exited⟩


end SR.Market
