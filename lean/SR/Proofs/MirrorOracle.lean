import SR.Drv.C18
import SR.SExpEq
import SR.Proofs.SemRegister
/-!
Adequacy of the C18 mirror oracle (`SR/Drv/C18.lean`: `mirrorClient`, `oracleMirror`, command `o-c18`)
with respect to the model's history mirror `RC.mirror` (`SR/Sem/RegisterClient.lean`).

* `Alt wo pend evs`: the per-client protocol — requests and accepted replies alternate, starting with a
  request (unless one is outstanding already), every sent message is a `Put`/`Get`, every accepted
  message is a reply of the flavour (`IsReply wo`) carrying the request id of the outstanding request.
* `Viol`: the first event that breaks `Alt`, with the error text `mirrorClient` answers.
* `Render I wo`: the wire rendering of operations and returns of a tester interface `I`, compatible
  with the oracle's `opSxOf` / `retSxOf`; the four harness flavours are instances.
* `ProtoInv`: every log of the harness transition system `Step` satisfies `Alt` per client.
-/
namespace SR.C18Oracle
open SR SR.Sem SR.Sem.RC SR.Sem.AMap SR.Drv.Sem SR.Drv.C18

/-! ### the oracle's events and the model's events -/
def cev : LogEv → CEv
  | .send c m => .send c m
  | .acc c m => .acc c m

def lev : CEv → LogEv
  | .send c m => .send c m
  | .acc c m => .acc c m

@[simp] theorem cev_lev (e : CEv) : cev (lev e) = e := by cases e <;> rfl
@[simp] theorem lev_cev (e : LogEv) : lev (cev e) = e := by cases e <;> rfl

theorem map_cev_map_lev (l : List CEv) : (l.map lev).map cev = l := by
  induction l with
  | nil => rfl
  | cons e l ih => simp [ih]

/-- the events of client `c` (what `oracleMirror` hands to `mirrorClient`) -/
def clog (c : Nat) (log : List LogEv) : List LogEv := log.filter fun e => e.client == c

theorem clog_append (c : Nat) (l1 l2 : List LogEv) : clog c (l1 ++ l2) = clog c l1 ++ clog c l2 := by
  simp [clog]

theorem clog_of_client {c : Nat} {l : List LogEv} (h : ∀ e ∈ l, e.client = c) : clog c l = l := by
  unfold clog; rw [List.filter_eq_self]; intro e he; simp [h e he]

theorem clog_of_other {c c' : Nat} (hne : c' ≠ c) {l : List LogEv} (h : ∀ e ∈ l, e.client = c') : clog c l = [] := by
  unfold clog; rw [List.filter_eq_nil_iff]; intro e he; simp [h e he, hne]

theorem client_of_mem_clog {c : Nat} {l : List LogEv} {e : LogEv} (h : e ∈ clog c l) : e.client = c := by
  unfold clog at h; simpa using (List.mem_filter.1 h).2

/-- the clients that occur in a log, in order of first occurrence (as `oracleMirror` computes them) -/
def clientsOf (log : List LogEv) : List Nat :=
  (log.map LogEv.client).foldl (fun acc c => if acc.contains c then acc else acc ++ [c]) []

theorem mem_dedup_foldl (l : List Nat) (acc : List Nat) (c : Nat) :
    c ∈ l.foldl (fun acc c => if acc.contains c then acc else acc ++ [c]) acc ↔ c ∈ acc ∨ c ∈ l := by
  induction l generalizing acc with
  | nil => simp
  | cons x l ih =>
    rw [List.foldl_cons, ih]
    by_cases hx : acc.contains x = true
    · simp only [hx, if_true, List.mem_cons]
      have : x ∈ acc := by simpa using hx
      constructor
      · rintro (h | h)
        · exact Or.inl h
        · exact Or.inr (Or.inr h)
      · rintro (h | h | h)
        · exact Or.inl h
        · subst h; exact Or.inl this
        · exact Or.inr h
    · simp only [hx, Bool.false_eq_true, if_false, List.mem_append, List.mem_cons, List.not_mem_nil, or_false]
      constructor
      · rintro ((h | h) | h)
        · exact Or.inl h
        · exact Or.inr (Or.inl h)
        · exact Or.inr (Or.inr h)
      · rintro (h | h | h)
        · exact Or.inl (Or.inl h)
        · exact Or.inl (Or.inr h)
        · exact Or.inr h

theorem mem_clientsOf {log : List LogEv} {c : Nat} : c ∈ clientsOf log ↔ ∃ e ∈ log, e.client = c := by
  unfold clientsOf
  rw [mem_dedup_foldl]
  simp

/-! ### requests, replies, request ids -/
def IsRequest : RMsg → Prop
  | .put _ _ => True
  | .get _ => True
  | _ => False

instance : DecidablePred IsRequest := fun m => by cases m <;> unfold IsRequest <;> infer_instance
instance (wo : Bool) : DecidablePred (IsReply wo) := fun m => by cases m <;> unfold IsReply <;> infer_instance

theorem opSxOf_isSome {m : RMsg} (h : IsRequest m) : ∃ o, opSxOf m = some o := by
  cases m <;> simp [IsRequest] at h <;> simp [opSxOf]

theorem opSxOf_none {m : RMsg} (h : ¬ IsRequest m) : opSxOf m = none := by
  cases m <;> simp [IsRequest] at h <;> rfl

theorem retSxOf_isSome {wo : Bool} {m : RMsg} (h : IsReply wo m) : ∃ r, retSxOf wo m = some r := by
  cases m <;> simp [IsReply] at h <;> simp [retSxOf, h]

theorem retSxOf_none {wo : Bool} {m : RMsg} (h : ¬ IsReply wo m) : retSxOf wo m = none := by
  cases m <;> simp [IsReply] at h <;> simp [retSxOf, h]

theorem ridOf_of_ne_internal {m : RMsg} (h : m ≠ .internal) : Drv.C18.ridOf m = some (RC.ridOf m) := by
  cases m <;> first | rfl | exact absurd rfl h

theorem ridOf_request {m : RMsg} (h : IsRequest m) : Drv.C18.ridOf m = some (RC.ridOf m) :=
  ridOf_of_ne_internal (by intro e; subst e; exact h)

theorem ridOf_reply {wo : Bool} {m : RMsg} (h : IsReply wo m) : Drv.C18.ridOf m = some (RC.ridOf m) :=
  ridOf_of_ne_internal (by intro e; subst e; exact h)

theorem request_ne_internal {m : RMsg} (h : IsRequest m) : m ≠ .internal := by intro e; subst e; exact h
theorem reply_ne_internal {wo : Bool} {m : RMsg} (h : IsReply wo m) : m ≠ .internal := by intro e; subst e; exact h

/-! ### the protocol -/
/-- `Alt wo pend evs`: starting with `pend` outstanding, the events `evs` of one client follow the
    protocol: a request is sent only when none is outstanding and is a `Put`/`Get`; a message is
    accepted only when a request is outstanding, is a reply of the flavour and answers that request -/
inductive Alt (wo : Bool) : Option RMsg → List LogEv → Prop
  | nil (p : Option RMsg) : Alt wo p []
  | send {c : Nat} {m : RMsg} {rest : List LogEv} :
      IsRequest m → Alt wo (some m) rest → Alt wo none (.send c m :: rest)
  | acc {c : Nat} {p m : RMsg} {rest : List LogEv} :
      IsReply wo m → RC.ridOf p = RC.ridOf m → Alt wo none rest → Alt wo (some p) (.acc c m :: rest)

/-- the outstanding request after `evs` (starting from `p`): the last event if it is a `send` -/
def pendAfter (p : Option RMsg) (evs : List LogEv) : Option RMsg :=
  evs.foldl (fun _ e => match e with | .send _ m => some m | .acc _ _ => none) p

/-- the outstanding request after a log that starts with nothing outstanding -/
def pendOf (evs : List LogEv) : Option RMsg :=
  match evs.getLast? with
  | some (.send _ m) => some m
  | _ => none

theorem pendAfter_append (p : Option RMsg) (l1 l2 : List LogEv) :
    pendAfter p (l1 ++ l2) = pendAfter (pendAfter p l1) l2 := by
  simp [pendAfter, List.foldl_append]

theorem pendAfter_concat (p : Option RMsg) (l : List LogEv) (e : LogEv) :
    pendAfter p (l ++ [e]) = match e with | .send _ m => some m | .acc _ _ => none := by
  simp [pendAfter, List.foldl_append]

theorem pendAfter_none_eq (evs : List LogEv) : pendAfter none evs = pendOf evs := by
  rcases List.eq_nil_or_concat evs with rfl | ⟨l, e, rfl⟩
  · rfl
  · rw [List.concat_eq_append, pendAfter_concat]
    unfold pendOf
    rw [List.getLast?_append]
    cases e <;> simp

/-- the first event that breaks the protocol, with `mirrorClient`'s error text -/
inductive Viol (wo : Bool) : Option RMsg → LogEv → String → Prop
  | second {c : Nat} {m p : RMsg} : Viol wo (some p) (.send c m) "second-request-while-one-outstanding"
  | nonRequest {c : Nat} {m : RMsg} : ¬ IsRequest m → Viol wo none (.send c m) "client-sent-non-request"
  | noOutstanding {c : Nat} {m : RMsg} : Viol wo none (.acc c m) "reply-accepted-without-outstanding-request"
  | otherId {c : Nat} {m p : RMsg} : (m = .internal ∨ RC.ridOf p ≠ RC.ridOf m) →
      Viol wo (some p) (.acc c m) "accepted-reply-for-other-request-id"
  | nonReply {c : Nat} {m p : RMsg} : m ≠ .internal → RC.ridOf p = RC.ridOf m → ¬ IsReply wo m →
      Viol wo (some p) (.acc c m) "accepted-non-reply"

/-- the outstanding request is a request (invariant of the runs of `mirrorClient`) -/
def PendOk (pend : Option RMsg) : Prop := ∀ p, pend = some p → IsRequest p

theorem pendOk_none : PendOk none := by intro p h; cases h
theorem pendOk_some {m : RMsg} (h : IsRequest m) : PendOk (some m) := by intro p e; cases e; exact h

theorem alt_pendAfter_ok {wo : Bool} {pend : Option RMsg} {evs : List LogEv} (h : Alt wo pend evs) (hp : PendOk pend) :
    PendOk (pendAfter pend evs) := by
  induction h with
  | nil p => exact hp
  | send hm _ ih => exact ih (pendOk_some hm)
  | acc _ _ _ ih => exact ih pendOk_none

theorem alt_append {wo : Bool} {pend : Option RMsg} {l1 l2 : List LogEv} (h1 : Alt wo pend l1)
    (h2 : Alt wo (pendAfter pend l1) l2) : Alt wo pend (l1 ++ l2) := by
  induction h1 with
  | nil p => exact h2
  | send hm _ ih => exact Alt.send hm (ih h2)
  | acc hm hr _ ih => exact Alt.acc hm hr (ih h2)

theorem alt_prefix {wo : Bool} {pend : Option RMsg} {l1 l2 : List LogEv} (h : Alt wo pend (l1 ++ l2)) :
    Alt wo pend l1 ∧ Alt wo (pendAfter pend l1) l2 := by
  induction l1 generalizing pend with
  | nil => exact ⟨Alt.nil _, h⟩
  | cons e l ih =>
    cases h with
    | send hm hrest => exact ⟨Alt.send hm (ih hrest).1, (ih hrest).2⟩
    | acc hm hr hrest => exact ⟨Alt.acc hm hr (ih hrest).1, (ih hrest).2⟩

/-! ### `mirrorClient`, one event at a time -/
theorem mc_nil (wo : Bool) (done : List SExp) (pend : Option RMsg) :
    mirrorClient wo [] done pend = .ok (done, pend.bind opSxOf) := by
  rw [mirrorClient]

theorem mc_send_some (wo : Bool) (c : Nat) (m p : RMsg) (rest : List LogEv) (done : List SExp) :
    mirrorClient wo (.send c m :: rest) done (some p) = .error "second-request-while-one-outstanding" := by
  rw [mirrorClient]

theorem mc_send_bad (wo : Bool) (c : Nat) {m : RMsg} (rest : List LogEv) (done : List SExp) (hm : ¬ IsRequest m) :
    mirrorClient wo (.send c m :: rest) done none = .error "client-sent-non-request" := by
  rw [mirrorClient, opSxOf_none hm]

theorem mc_send_ok (wo : Bool) (c : Nat) {m : RMsg} (rest : List LogEv) (done : List SExp) (hm : IsRequest m) :
    mirrorClient wo (.send c m :: rest) done none = mirrorClient wo rest done (some m) := by
  obtain ⟨o, ho⟩ := opSxOf_isSome hm
  rw [mirrorClient, ho]

theorem mc_acc_none (wo : Bool) (c : Nat) (m : RMsg) (rest : List LogEv) (done : List SExp) :
    mirrorClient wo (.acc c m :: rest) done none = .error "reply-accepted-without-outstanding-request" := by
  rw [mirrorClient]

theorem mc_acc_otherId (wo : Bool) (c : Nat) {m p : RMsg} (rest : List LogEv) (done : List SExp) (hp : IsRequest p)
    (h : m = .internal ∨ RC.ridOf p ≠ RC.ridOf m) :
    mirrorClient wo (.acc c m :: rest) done (some p) = .error "accepted-reply-for-other-request-id" := by
  have hne : (Drv.C18.ridOf p != Drv.C18.ridOf m) = true := by
    rw [ridOf_request hp]
    rcases h with rfl | h
    · simp [Drv.C18.ridOf]
    · by_cases hm : m = .internal
      · subst hm; simp [Drv.C18.ridOf]
      · rw [ridOf_of_ne_internal hm]; simpa using h
  rw [mirrorClient, if_pos hne]

theorem ridOf_bne_false {m p : RMsg} (hp : IsRequest p) (hm : m ≠ .internal) (h : RC.ridOf p = RC.ridOf m) :
    ¬ (Drv.C18.ridOf p != Drv.C18.ridOf m) = true := by
  rw [ridOf_request hp, ridOf_of_ne_internal hm, h]; simp

theorem mc_acc_nonReply (wo : Bool) (c : Nat) {m p : RMsg} (rest : List LogEv) (done : List SExp) (hp : IsRequest p)
    (hm : m ≠ .internal) (h : RC.ridOf p = RC.ridOf m) (hr : ¬ IsReply wo m) :
    mirrorClient wo (.acc c m :: rest) done (some p) = .error "accepted-non-reply" := by
  rw [mirrorClient, if_neg (ridOf_bne_false hp hm h), retSxOf_none hr]
  split
  · rename_i heq1 heq2; cases heq2
  · rfl

theorem mc_acc_ok (wo : Bool) (c : Nat) {m p : RMsg} (rest : List LogEv) (done : List SExp) (hp : IsRequest p)
    (hr : IsReply wo m) (h : RC.ridOf p = RC.ridOf m) {o r : SExp} (ho : opSxOf p = some o) (hrs : retSxOf wo m = some r) :
    mirrorClient wo (.acc c m :: rest) done (some p) = mirrorClient wo rest (done ++ [.list [o, r]]) none := by
  rw [mirrorClient, if_neg (ridOf_bne_false hp (reply_ne_internal hr) h), ho, hrs]

/-- every event either continues the protocol or is a violation -/
theorem step_cases (wo : Bool) (pend : Option RMsg) (e : LogEv) (hp : PendOk pend) :
    (∃ err, Viol wo pend e err) ∨ Alt wo pend [e] := by
  cases e with
  | send c m =>
    cases pend with
    | some p => exact Or.inl ⟨_, Viol.second⟩
    | none =>
      by_cases hm : IsRequest m
      · exact Or.inr (Alt.send hm (Alt.nil _))
      · exact Or.inl ⟨_, Viol.nonRequest hm⟩
  | acc c m =>
    cases pend with
    | none => exact Or.inl ⟨_, Viol.noOutstanding⟩
    | some p =>
      by_cases h1 : m = .internal ∨ RC.ridOf p ≠ RC.ridOf m
      · exact Or.inl ⟨_, Viol.otherId h1⟩
      · have hm : m ≠ .internal := fun e => h1 (Or.inl e)
        have hr : RC.ridOf p = RC.ridOf m := Classical.byContradiction fun e => h1 (Or.inr e)
        by_cases h2 : IsReply wo m
        · exact Or.inr (Alt.acc h2 hr (Alt.nil _))
        · exact Or.inl ⟨_, Viol.nonReply hm hr h2⟩

/-- a violating event makes `mirrorClient` answer the error text, whatever follows -/
theorem mc_viol {wo : Bool} {pend : Option RMsg} {e : LogEv} {err : String} (hv : Viol wo pend e err) (hp : PendOk pend)
    (rest : List LogEv) (done : List SExp) : mirrorClient wo (e :: rest) done pend = .error err := by
  cases hv with
  | second => exact mc_send_some ..
  | nonRequest hm => exact mc_send_bad wo _ rest done hm
  | noOutstanding => exact mc_acc_none ..
  | otherId h => exact mc_acc_otherId wo _ rest done (hp _ rfl) h
  | nonReply hm hr hnr => exact mc_acc_nonReply wo _ rest done (hp _ rfl) hm hr hnr

/-- a violation is not a protocol step -/
theorem viol_not_alt {wo : Bool} {pend : Option RMsg} {e : LogEv} {err : String} (hv : Viol wo pend e err)
    (rest : List LogEv) : ¬ Alt wo pend (e :: rest) := by
  intro ha
  cases hv with
  | second => cases ha
  | nonRequest hm => cases ha with | send h _ => exact hm h
  | noOutstanding => cases ha
  | otherId h =>
    cases ha with
    | acc hr hid _ =>
      rcases h with rfl | h
      · exact hr
      · exact h hid
  | nonReply _ _ hnr => cases ha with | acc hr _ _ => exact hnr hr

/-- over a protocol-conforming prefix `mirrorClient` just advances -/
theorem mc_alt_prefix {wo : Bool} {pend : Option RMsg} {pre : List LogEv} (h : Alt wo pend pre) (hp : PendOk pend)
    (rest : List LogEv) (done : List SExp) :
    ∃ done', mirrorClient wo (pre ++ rest) done pend = mirrorClient wo rest done' (pendAfter pend pre) := by
  induction h generalizing done with
  | nil p => exact ⟨done, rfl⟩
  | @send c m l hm _ ih =>
    obtain ⟨d', hd'⟩ := ih (pendOk_some hm) done
    exact ⟨d', by rw [List.cons_append, mc_send_ok wo c _ done hm, hd']; rfl⟩
  | @acc c p m l hm hr _ ih =>
    obtain ⟨o, ho⟩ := opSxOf_isSome (hp p rfl)
    obtain ⟨r, hrs⟩ := retSxOf_isSome hm
    obtain ⟨d', hd'⟩ := ih pendOk_none (done ++ [.list [o, r]])
    exact ⟨d', by rw [List.cons_append, mc_acc_ok wo c _ done (hp p rfl) hm hr ho hrs, hd']; rfl⟩

/-- on a protocol-conforming log `mirrorClient` succeeds -/
theorem mc_ok_of_alt {wo : Bool} {pend : Option RMsg} {evs : List LogEv} (h : Alt wo pend evs) (hp : PendOk pend)
    (done : List SExp) : ∃ r, mirrorClient wo evs done pend = .ok r := by
  obtain ⟨d', hd'⟩ := mc_alt_prefix h hp [] done
  rw [List.append_nil, mc_nil] at hd'
  exact ⟨_, hd'⟩

/-- every log is protocol-conforming or has a first violation -/
theorem alt_or_viol (wo : Bool) (evs : List LogEv) (pend : Option RMsg) (hp : PendOk pend) :
    Alt wo pend evs ∨
    ∃ pre e post err, evs = pre ++ e :: post ∧ Alt wo pend pre ∧ Viol wo (pendAfter pend pre) e err := by
  induction evs generalizing pend with
  | nil => exact Or.inl (Alt.nil _)
  | cons e l ih =>
    rcases step_cases wo pend e hp with ⟨err, hv⟩ | ha
    · exact Or.inr ⟨[], e, l, err, rfl, Alt.nil _, hv⟩
    · have hp' : PendOk (pendAfter pend [e]) := alt_pendAfter_ok ha hp
      rcases ih (pendAfter pend [e]) hp' with h | ⟨pre, e', post, err, rfl, h1, h2⟩
      · exact Or.inl (alt_append ha h)
      · refine Or.inr ⟨e :: pre, e', post, err, rfl, alt_append ha h1, ?_⟩
        have : pendAfter pend (e :: pre) = pendAfter (pendAfter pend [e]) pre := pendAfter_append pend [e] pre
        rw [this]; exact h2

/-- the error `mirrorClient` answers is the text of the first violation -/
theorem mc_error_iff (wo : Bool) (evs : List LogEv) (pend : Option RMsg) (hp : PendOk pend) (done : List SExp) (err : String) :
    mirrorClient wo evs done pend = .error err ↔
    ∃ pre e post, evs = pre ++ e :: post ∧ Alt wo pend pre ∧ Viol wo (pendAfter pend pre) e err := by
  constructor
  · intro h
    rcases alt_or_viol wo evs pend hp with ha | ⟨pre, e, post, err', rfl, h1, h2⟩
    · obtain ⟨r, hr⟩ := mc_ok_of_alt ha hp done
      rw [hr] at h; cases h
    · obtain ⟨d', hd'⟩ := mc_alt_prefix h1 hp (e :: post) done
      rw [hd', mc_viol h2 (alt_pendAfter_ok h1 hp)] at h
      cases h
      exact ⟨pre, e, post, rfl, h1, h2⟩
  · rintro ⟨pre, e, post, rfl, h1, h2⟩
    obtain ⟨d', hd'⟩ := mc_alt_prefix h1 hp (e :: post) done
    rw [hd', mc_viol h2 (alt_pendAfter_ok h1 hp)]

/-- `mirrorClient` succeeds exactly on the protocol-conforming logs -/
theorem mc_ok_iff (wo : Bool) (evs : List LogEv) (pend : Option RMsg) (hp : PendOk pend) (done : List SExp) :
    (∃ r, mirrorClient wo evs done pend = .ok r) ↔ Alt wo pend evs := by
  constructor
  · rintro ⟨r, hr⟩
    rcases alt_or_viol wo evs pend hp with ha | ⟨pre, e, post, err, rfl, h1, h2⟩
    · exact ha
    · have := (mc_error_iff wo _ pend hp done err).2 ⟨pre, e, post, rfl, h1, h2⟩
      rw [this] at hr; cases hr
  · intro h; exact mc_ok_of_alt h hp done

instance (wo : Bool) (evs : List LogEv) : Decidable (Alt wo none evs) :=
  decidable_of_iff ((mirrorClient wo evs [] none).toBool = true) (by
    rw [← mc_ok_iff wo evs none pendOk_none []]
    cases mirrorClient wo evs [] none <;> simp [Except.toBool])

/-! ### rendering; `mirrorClient` computes the rendering of `RC.mirror` -/
/-- the wire rendering of the operations and returns of a tester interface, compatible with what the
    oracle reads off the messages (`opSxOf`, `retSxOf`) -/
structure Render {H Op Ret : Type} (I : Iface H Op Ret) (wo : Bool) where
  opSx : Op → SExp
  retSx : Ret → SExp
  op_ok : ∀ m, opSxOf m = (opOfMsg I m).map opSx
  ret_ok : ∀ m, retSxOf wo m = (retOfMsg I wo m).map retSx

section render
variable {H Op Ret : Type} {I : Iface H Op Ret} {wo : Bool}

def Render.pair (R : Render I wo) (x : Op × Ret) : SExp := .list [R.opSx x.1, R.retSx x.2]

/-- rendering of a thread's content: completed pairs and outstanding operation -/
def Render.content (R : Render I wo) (x : List (Op × Ret) × Option Op) : List SExp × Option SExp :=
  (x.1.map R.pair, x.2.map R.opSx)

theorem mc_mirror (R : Render I wo) (c : Nat) {pend : Option RMsg} {evs : List LogEv} (h : Alt wo pend evs)
    (hp : PendOk pend) (hc : ∀ e ∈ evs, e.client = c) (done : List (Op × Ret)) :
    mirrorClient wo evs (done.map R.pair) pend =
      .ok (R.content ((evs.map cev).foldl (mirrorStep I wo c) (done, pend.bind (opOfMsg I)))) := by
  induction h generalizing done with
  | nil p =>
    rw [mc_nil]
    cases p with
    | none => rfl
    | some p => simp [Render.content, R.op_ok]
  | @send c' m l hm _ ih =>
    have hc' : c' = c := hc _ List.mem_cons_self
    subst hc'
    rw [mc_send_ok wo c' l _ hm, ih (pendOk_some hm) (fun e he => hc e (List.mem_cons_of_mem _ he))]
    simp [cev, mirrorStep]
  | @acc c' p m l hm hr _ ih =>
    have hc' : c' = c := hc _ List.mem_cons_self
    subst hc'
    obtain ⟨o, ho⟩ := opSxOf_isSome (hp p rfl)
    obtain ⟨r, hrs⟩ := retSxOf_isSome hm
    have ho' := R.op_ok p
    have hr' := R.ret_ok m
    rw [ho] at ho'; rw [hrs] at hr'
    cases hop : opOfMsg I p with
    | none => rw [hop] at ho'; cases ho'
    | some op =>
      cases hret : retOfMsg I wo m with
      | none => rw [hret] at hr'; cases hr'
      | some rr =>
        rw [hop] at ho'; rw [hret] at hr'
        simp only [Option.map_some, Option.some.injEq] at ho' hr'
        subst ho' hr'
        rw [mc_acc_ok wo c' l _ (hp p rfl) hm hr ho hrs]
        have := ih pendOk_none (fun e he => hc e (List.mem_cons_of_mem _ he)) (done ++ [(op, rr)])
        simp only [List.map_append, List.map_cons, List.map_nil, Render.pair] at this
        rw [this]
        simp [cev, mirrorStep, hop, hret]

/-- `RC.mirror` for client `c` only looks at the events of `c` -/
theorem mirror_clog (I : Iface H Op Ret) (wo : Bool) (c : Nat) (log : List LogEv) (acc : List (Op × Ret) × Option Op) :
    (log.map cev).foldl (mirrorStep I wo c) acc = ((clog c log).map cev).foldl (mirrorStep I wo c) acc := by
  induction log generalizing acc with
  | nil => rfl
  | cons e l ih =>
    by_cases he : e.client = c
    · have : clog c (e :: l) = e :: clog c l := by simp [clog, he]
      rw [this, List.map_cons, List.map_cons, List.foldl_cons, List.foldl_cons, ih]
    · have : clog c (e :: l) = clog c l := by simp [clog, he]
      rw [this, List.map_cons, List.foldl_cons, ← ih]
      congr 1
      cases e with
      | send c' m => simp only [LogEv.client] at he; simp [cev, mirrorStep, he]
      | acc c' m => simp only [LogEv.client] at he; simp [cev, mirrorStep, he]

/-- on a protocol-conforming log `mirrorClient` yields exactly the rendering of the model's mirror -/
theorem mc_agrees (R : Render I wo) (c : Nat) (log : List LogEv) (h : Alt wo none (clog c log)) :
    mirrorClient wo (clog c log) [] none = .ok (R.content (mirror I wo c (log.map cev))) := by
  have := mc_mirror R c h pendOk_none (fun e he => client_of_mem_clog he) []
  rw [List.map_nil] at this
  rw [this, mirror, mirror_clog I wo c log]
  rfl

/-- a thread without events has the empty mirror -/
theorem mirror_of_not_client (I : Iface H Op Ret) (wo : Bool) {c : Nat} {log : List LogEv} (h : c ∉ clientsOf log) :
    mirror I wo c (log.map cev) = ([], none) := by
  have hnil : clog c log = [] := by
    unfold clog
    rw [List.filter_eq_nil_iff]
    intro e he hc
    exact h (mem_clientsOf.2 ⟨e, he, by simpa using hc⟩)
  rw [mirror, mirror_clog I wo c log, hnil]
  rfl

end render

/-- the four harness flavours -/
def renderRegLin : Render regLin false where
  opSx := (regCodec charShow 63).opSx
  retSx := (regCodec charShow 63).retSx
  op_ok := by intro m; cases m <;> rfl
  ret_ok := by intro m; cases m <;> rfl

def renderRegSC : Render regSC false where
  opSx := (regCodec charShow 63).opSx
  retSx := (regCodec charShow 63).retSx
  op_ok := by intro m; cases m <;> rfl
  ret_ok := by intro m; cases m <;> rfl

def renderWoLin : Render woLin true where
  opSx := (woCodec charShow none).opSx
  retSx := (woCodec charShow none).retSx
  op_ok := by intro m; cases m <;> rfl
  ret_ok := by intro m; cases m <;> rfl

def renderWoSC : Render woSC true where
  opSx := (woCodec charShow none).opSx
  retSx := (woCodec charShow none).retSx
  op_ok := by intro m; cases m <;> rfl
  ret_ok := by intro m; cases m <;> rfl

/-! ### request ids -/
/-- the request ids `oracleMirror` tests for reuse -/
def sendRids (evs : List LogEv) : List Nat :=
  evs.filterMap fun e => match e with | .send _ m => Drv.C18.ridOf m | _ => none

theorem alt_send_request {wo : Bool} {pend : Option RMsg} {evs : List LogEv} (h : Alt wo pend evs) {c : Nat} {m : RMsg}
    (hm : LogEv.send c m ∈ evs) : IsRequest m := by
  induction h with
  | nil p => cases hm
  | send hreq _ ih =>
    rcases List.mem_cons.1 hm with e | hm
    · cases e; exact hreq
    · exact ih hm
  | acc _ _ _ ih =>
    rcases List.mem_cons.1 hm with e | hm
    · cases e
    · exact ih hm

/-- when client `c` sends no `Internal`, the oracle's id list is the model's `ridsOf` -/
theorem sendRids_eq_ridsOf (c : Nat) (log : List LogEv)
    (h : ∀ c' m, LogEv.send c' m ∈ clog c log → m ≠ .internal) :
    sendRids (clog c log) = ridsOf c (log.map cev) := by
  induction log with
  | nil => rfl
  | cons e l ih =>
    by_cases he : e.client = c
    · have hcl : clog c (e :: l) = e :: clog c l := by simp [clog, he]
      rw [hcl] at h ⊢
      have ih' := ih (fun c' m hm => h c' m (List.mem_cons_of_mem _ hm))
      cases e with
      | send c' m =>
        simp only [LogEv.client] at he; subst he
        have hm := h c' m List.mem_cons_self
        simp [sendRids, ridsOf, cev, ridOf_of_ne_internal hm] at ih' ⊢
        exact ih'
      | acc c' m =>
        simp [sendRids, ridsOf, cev] at ih' ⊢
        exact ih'
    · have hcl : clog c (e :: l) = clog c l := by simp [clog, he]
      rw [hcl] at h ⊢
      rw [ih h]
      cases e with
      | send c' m => simp only [LogEv.client] at he; simp [ridsOf, cev, he]
      | acc c' m => simp [ridsOf, cev]

theorem nodupB_nat_iff (l : List Nat) : nodupB l = true ↔ l.Nodup := by
  induction l with
  | nil => simp [nodupB]
  | cons x xs ih => simp [nodupB, ih]

/-! ### `oracleMirror`, with the content comparison as a parameter -/
section oracle
variable (eqv : List SExp → List SExp → Option SExp → Option SExp → Bool)

def clientErrs (wo : Bool) (log : List LogEv) (content : List (Nat × List SExp × Option SExp)) (c : Nat) : List String :=
  (if nodupB (sendRids (clog c log)) then [] else [s!"request-id-reused-by-{c}"]) ++
  (match mirrorClient wo (clog c log) [] none with
   | .error e => [s!"{e}-client-{c}"]
   | .ok (done, pend) =>
     match content.find? (fun e => e.1 == c) with
     | none => [s!"tester-has-no-thread-{c}"]
     | some (_, d, p) => if eqv d done p pend then [] else [s!"tester-content-differs-from-mirror-client-{c}"])

def strayErrs (log : List LogEv) (e : Nat × List SExp × Option SExp) : List String :=
  if (clientsOf log).contains e.1 then [] else
    (if e.2.1.isEmpty && e.2.2.isNone then [] else [s!"tester-has-operations-of-non-client-{e.1}"])

def errsG (wo : Bool) (log : List LogEv) (valid : Bool) (content : List (Nat × List SExp × Option SExp)) : List String :=
  (if !valid then ["tester-history-invalid"] else []) ++
  ((clientsOf log).flatMap (clientErrs eqv wo log content)) ++
  (if nodupB (content.map (·.1)) then [] else ["tester-content-lists-a-thread-twice"]) ++
  (content.flatMap (strayErrs log))

/-- `oracleMirror` with the comparison of the tester content against the mirror abstracted -/
def oracleMirrorG (wo : Bool) (log : List LogEv) (valid : Bool) (content : List (Nat × List SExp × Option SExp)) : String :=
  if (errsG eqv wo log valid content).isEmpty then "ok" else " ".intercalate (errsG eqv wo log valid content)

end oracle

theorem oracleMirror_eq_G (wo : Bool) (log : List LogEv) (valid : Bool) (content : List (Nat × List SExp × Option SExp)) :
    oracleMirror wo log valid content = oracleMirrorG sxEqv wo log valid content := rfl

/-- the corrected oracle: as `oracleMirror`, the content compared by the decidable equality -/
def oracleMirrorD (wo : Bool) (log : List LogEv) (valid : Bool) (content : List (Nat × List SExp × Option SExp)) : String :=
  oracleMirrorG sxEqv wo log valid content

section verdict
variable {eqv : List SExp → List SExp → Option SExp → Option SExp → Bool}

theorem intercalate_ne_ok {errs : List String} (hne : errs ≠ []) (hlen : ∀ e ∈ errs, 2 < e.length) :
    " ".intercalate errs ≠ "ok" := by
  cases errs with
  | nil => exact absurd rfl hne
  | cons e es =>
    have he := hlen e List.mem_cons_self
    by_cases hes : es = []
    · subst hes
      rw [String.intercalate_singleton]
      intro h; rw [h] at he; exact absurd he (by decide)
    · rw [String.intercalate_cons_of_ne_nil hes]
      intro h
      have hl : (e ++ " " ++ " ".intercalate es).length = 2 := by rw [h]; decide
      rw [String.length_append, String.length_append] at hl
      omega

theorem clientErrs_len (wo : Bool) (log : List LogEv) (content : List (Nat × List SExp × Option SExp)) (c : Nat) :
    ∀ e ∈ clientErrs eqv wo log content c, 2 < e.length := by
  intro e he
  unfold clientErrs at he
  rcases List.mem_append.1 he with he | he
  · split at he
    · cases he
    · simp only [List.mem_singleton] at he; subst he
      show 2 < ("request-id-reused-by-" ++ toString c).length
      rw [String.length_append]
      have : "request-id-reused-by-".length = 21 := by decide
      omega
  · split at he
    · rename_i err _
      simp only [List.mem_singleton] at he; subst he
      show 2 < (err ++ "-client-" ++ toString c).length
      rw [String.length_append, String.length_append]
      have : "-client-".length = 8 := by decide
      omega
    · split at he
      · simp only [List.mem_singleton] at he; subst he
        show 2 < ("tester-has-no-thread-" ++ toString c).length
        rw [String.length_append]
        have : "tester-has-no-thread-".length = 21 := by decide
        omega
      · split at he
        · cases he
        · simp only [List.mem_singleton] at he; subst he
          show 2 < ("tester-content-differs-from-mirror-client-" ++ toString c).length
          rw [String.length_append]
          have : "tester-content-differs-from-mirror-client-".length = 42 := by decide
          omega

theorem strayErrs_len (log : List LogEv) (x : Nat × List SExp × Option SExp) :
    ∀ e ∈ strayErrs log x, 2 < e.length := by
  intro e he
  unfold strayErrs at he
  split at he
  · cases he
  · split at he
    · cases he
    · simp only [List.mem_singleton] at he; subst he
      show 2 < ("tester-has-operations-of-non-client-" ++ toString x.1).length
      rw [String.length_append]
      have : "tester-has-operations-of-non-client-".length = 36 := by decide
      omega

theorem errsG_len (wo : Bool) (log : List LogEv) (valid : Bool) (content : List (Nat × List SExp × Option SExp)) :
    ∀ e ∈ errsG eqv wo log valid content, 2 < e.length := by
  intro e he
  unfold errsG at he
  rcases List.mem_append.1 he with he | he
  · rcases List.mem_append.1 he with he | he
    · rcases List.mem_append.1 he with he | he
      · split at he
        · simp only [List.mem_singleton] at he; subst he; decide
        · cases he
      · obtain ⟨c, _, hc⟩ := List.mem_flatMap.1 he
        exact clientErrs_len wo log content c e hc
    · split at he
      · cases he
      · simp only [List.mem_singleton] at he; subst he; decide
  · obtain ⟨x, _, hx⟩ := List.mem_flatMap.1 he
    exact strayErrs_len log x e hx

theorem oracleMirrorG_ok_iff (wo : Bool) (log : List LogEv) (valid : Bool) (content : List (Nat × List SExp × Option SExp)) :
    oracleMirrorG eqv wo log valid content = "ok" ↔ errsG eqv wo log valid content = [] := by
  unfold oracleMirrorG
  constructor
  · intro h
    by_cases he : errsG eqv wo log valid content = []
    · exact he
    · have : (errsG eqv wo log valid content).isEmpty = false := by simpa using he
      rw [this] at h
      exact absurd h (intercalate_ne_ok he (errsG_len wo log valid content))
  · intro h; rw [h]; rfl

theorem errsG_nil_iff (wo : Bool) (log : List LogEv) (valid : Bool) (content : List (Nat × List SExp × Option SExp)) :
    errsG eqv wo log valid content = [] ↔
      valid = true ∧ (∀ c ∈ clientsOf log, clientErrs eqv wo log content c = []) ∧
      (content.map (·.1)).Nodup ∧ (∀ e ∈ content, strayErrs log e = []) := by
  unfold errsG
  rw [List.append_eq_nil_iff, List.append_eq_nil_iff, List.append_eq_nil_iff, List.flatMap_eq_nil_iff,
    List.flatMap_eq_nil_iff, ← nodupB_nat_iff]
  cases valid <;> cases nodupB (content.map (·.1)) <;> simp

theorem clientErrs_nil_iff (heq : ∀ d done p pend, eqv d done p pend = true ↔ d = done ∧ p = pend)
    (wo : Bool) (log : List LogEv) (content : List (Nat × List SExp × Option SExp)) (c : Nat) :
    clientErrs eqv wo log content c = [] ↔
      (sendRids (clog c log)).Nodup ∧
      ∃ done pend, mirrorClient wo (clog c log) [] none = .ok (done, pend) ∧
        content.find? (fun e => e.1 == c) = some (c, done, pend) := by
  unfold clientErrs
  rw [List.append_eq_nil_iff]
  have h1 : (if nodupB (sendRids (clog c log)) = true then [] else [s!"request-id-reused-by-{c}"]) = [] ↔
      (sendRids (clog c log)).Nodup := by
    rw [← nodupB_nat_iff]
    split <;> simp_all
  rw [h1]
  apply and_congr_right
  intro _
  cases hm : mirrorClient wo (clog c log) [] none with
  | error e => simp
  | ok r =>
    obtain ⟨done, pend⟩ := r
    cases hf : content.find? (fun e => e.1 == c) with
    | none => simp
    | some x =>
      obtain ⟨c', d, p⟩ := x
      have hc' : c' = c := by simpa using List.find?_some hf
      subst hc'
      dsimp only
      constructor
      · intro h
        have : eqv d done p pend = true := by
          cases he : eqv d done p pend with
          | true => rfl
          | false => simp [he] at h
        obtain ⟨rfl, rfl⟩ := (heq _ _ _ _).1 this
        exact ⟨d, p, rfl, rfl⟩
      · rintro ⟨done', pend', h1, h2⟩
        cases h1; cases h2
        rw [(heq _ _ _ _).2 ⟨rfl, rfl⟩]; rfl

theorem strayErrs_nil_iff (log : List LogEv) (e : Nat × List SExp × Option SExp) :
    strayErrs log e = [] ↔ (e.1 ∈ clientsOf log ∨ (e.2.1 = [] ∧ e.2.2 = none)) := by
  unfold strayErrs
  by_cases h : e.1 ∈ clientsOf log
  · simp [h]
  · have : (clientsOf log).contains e.1 = false := by simpa using h
    rw [this]
    simp only [Bool.false_eq_true, if_false, h, false_or]
    split
    · rename_i h2; simp at h2; simp [h2]
    · rename_i h2; simp at h2 ⊢
      intro h3; exact h2 h3

end verdict

/-! ### every log of the harness transition system follows the protocol -/
section reach
variable {H Op Ret : Type} {cfg : Cfg} {I : Iface H Op Ret}

/-- per client: the log follows the protocol, the awaited request id is the id of the outstanding
    request of the log, a client that has not started has no events -/
structure ProtoInv (cfg : Cfg) (s : HSt H) : Prop where
  alt : ∀ c, Alt cfg.wo none (clog c (s.log.map lev))
  await : ∀ c st, find? c s.sys.clients = some st →
    st.awaiting = (pendAfter none (clog c (s.log.map lev))).map RC.ridOf
  idle : ∀ c, find? c s.sys.clients = none → clog c (s.log.map lev) = []

theorem proto_init (cfg : Cfg) (h0 : H) : ProtoInv cfg (HSt.init h0) :=
  ⟨fun _ => Alt.nil _, by intro c st h; simp [HSt.init] at h, fun _ _ => rfl⟩

theorem proto_extend {s s' : HSt H} (hP : ProtoInv cfg s) (c : Nat) (st' : CState) (evs : List LogEv)
    (hlog : s'.log.map lev = s.log.map lev ++ evs) (hev : ∀ e ∈ evs, e.client = c)
    (hfind : ∀ k, find? k s'.sys.clients = if c = k then some st' else find? k s.sys.clients)
    (halt : Alt cfg.wo (pendAfter none (clog c (s.log.map lev))) evs)
    (haw : st'.awaiting = (pendAfter none (clog c (s.log.map lev) ++ evs)).map RC.ridOf) : ProtoInv cfg s' := by
  refine ⟨?_, ?_, ?_⟩
  · intro k
    rw [hlog, clog_append]
    by_cases hk : c = k
    · subst hk
      rw [clog_of_client hev]
      exact alt_append (hP.alt c) halt
    · rw [clog_of_other hk hev, List.append_nil]
      exact hP.alt k
  · intro k st hk
    rw [hfind] at hk
    rw [hlog, clog_append]
    by_cases hck : c = k
    · subst hck
      simp only [if_true, Option.some.injEq] at hk
      subst hk
      rw [clog_of_client hev]
      exact haw
    · simp only [hck, if_false] at hk
      rw [clog_of_other hck hev, List.append_nil]
      exact hP.await k st hk
  · intro k hk
    rw [hfind] at hk
    by_cases hck : c = k
    · simp [hck] at hk
    · simp only [hck, if_false] at hk
      rw [hlog, clog_append, clog_of_other hck hev, List.append_nil]
      exact hP.idle k hk

theorem lev_logOf_client (c : Nat) (outs : List Send) : ∀ e ∈ (logOf c outs).map lev, e.client = c := by
  intro e he
  simp only [logOf, List.map_map, List.mem_map] at he
  obtain ⟨o, _, rfl⟩ := he
  rfl

theorem proto_step (hcfg : cfg.Ok) (V : HistView I) {s s' : HSt H} (hI : HInv cfg I V s) (hP : ProtoInv cfg s)
    (hstep : Step cfg I s s') : ProtoInv cfg s' := by
  cases hstep with
  | @start c st outs hcl hstart =>
    have hnew : find? (cfg.nServers + s.sys.clients.length) s.sys.clients = none := by
      cases hf : find? (cfg.nServers + s.sys.clients.length) s.sys.clients with
      | none => rfl
      | some x => have := hI.cBound _ (mem_keys_of_find? hf); omega
    generalize cfg.nServers + s.sys.clients.length = i at *
    have hold := hP.idle i hnew
    refine proto_extend hP i st ((logOf i outs).map lev) (by simp) (lev_logOf_client i outs) ?_ ?_ ?_
    · intro k
      show find? k (s.sys.clients ++ [(i, st)]) = _
      rw [find?_append_single]
      by_cases hk : i = k
      · subst hk; simp [hnew]
      · simp [hk]
    · rw [hold]
      rcases start_cases hstart with ⟨_, rfl⟩ | ⟨d, v, _, rfl⟩
      · exact Alt.nil _
      · exact Alt.send trivial (Alt.nil _)
    · rw [hold]
      rcases start_cases hstart with ⟨rfl, rfl⟩ | ⟨d, v, rfl, rfl⟩
      · rfl
      · rfl
  | emit _ _ _ => exact ⟨hP.alt, hP.await, hP.idle⟩
  | @deliver c m cl st st' outs sys' hpool hcl hfind hmsg hdel =>
    obtain ⟨haw, _, hout⟩ := onMsg_some hmsg
    have hrep := (hI.poolReply c m hpool).1
    have hsys : sys'.clients = upsert c st' s.sys.clients := by
      unfold deliverClient at hdel
      simp only [hfind, hmsg, Option.some.injEq] at hdel
      rw [← hdel]
    have hold := hP.await c st hfind
    rw [haw] at hold
    cases hpend : pendAfter none (clog c (s.log.map lev)) with
    | none => rw [hpend] at hold; cases hold
    | some p =>
      rw [hpend] at hold
      simp only [Option.map_some, Option.some.injEq] at hold
      refine proto_extend hP c st' (LogEv.acc c m :: (logOf c outs).map lev) (by simp [lev]) ?_ ?_ ?_ ?_
      · intro e he
        rcases List.mem_cons.1 he with rfl | he
        · rfl
        · exact lev_logOf_client c outs e he
      · intro k
        show find? k sys'.clients = _
        rw [hsys, find?_upsert]
      · rw [hpend]
        refine Alt.acc hrep hold.symm ?_
        rcases hout with ⟨_, rfl⟩ | ⟨_, rfl⟩
        · obtain ⟨_, op, hop, hcase⟩ := nextReq_spec cl c st.opCount
          refine Alt.send ?_ (Alt.nil _)
          rw [hop]
          rcases hcase with ⟨v, rfl⟩ | rfl <;> trivial
        · exact Alt.nil _
      · rcases hout with ⟨h1, rfl⟩ | ⟨h1, rfl⟩
        · rw [h1, pendAfter_append]
          simp [pendAfter, logOf, lev, (nextReq_spec cl c st.opCount).1]
        · rw [h1, pendAfter_append]
          simp [pendAfter, logOf]
  | deliverIgnored hpool hcl hfind hmsg hdel => exact (no_ignored V hcfg hI hpool hfind hmsg hdel).elim
  | drop _ => exact ⟨hP.alt, hP.await, hP.idle⟩

theorem reach_proto (hcfg : cfg.Ok) (V : HistView I) {h0 : H} (hg : V.good h0) (hv : V.valid h0 = true)
    (h0e : ∀ t, V.inflight h0 t = none ∧ V.done h0 t = []) {s : HSt H} (hr : Reach cfg I h0 s) : ProtoInv cfg s := by
  induction hr with
  | init => exact proto_init cfg h0
  | step hr' hstep ih => exact proto_step hcfg V (reach_inv V hcfg hg hv h0e hr') ih hstep

end reach

/-! ### the protocol as a sequence of rounds -/
/-- a round: `(client, request)` sent and `(client, reply)` accepted -/
abbrev Round := (Nat × RMsg) × (Nat × RMsg)

/-- the log made of complete rounds followed by an optional unanswered request -/
def roundsLog (rounds : List Round) (last : Option (Nat × RMsg)) : List LogEv :=
  rounds.flatMap (fun x => [LogEv.send x.1.1 x.1.2, LogEv.acc x.2.1 x.2.2]) ++
    last.toList.map (fun x => LogEv.send x.1 x.2)

/-- a `Put`/`Get` answered by a reply of the flavour with the same request id -/
def RoundOk (wo : Bool) (x : Round) : Prop := IsRequest x.1.2 ∧ IsReply wo x.2.2 ∧ RC.ridOf x.1.2 = RC.ridOf x.2.2

def RoundsOk (wo : Bool) (rounds : List Round) (last : Option (Nat × RMsg)) : Prop :=
  (∀ x ∈ rounds, RoundOk wo x) ∧ (∀ x, last = some x → IsRequest x.2)

theorem alt_roundsLog {wo : Bool} {rounds : List Round} {last : Option (Nat × RMsg)} (h : RoundsOk wo rounds last) :
    Alt wo none (roundsLog rounds last) := by
  induction rounds with
  | nil =>
    cases last with
    | none => exact Alt.nil _
    | some x => exact Alt.send (h.2 x rfl) (Alt.nil _)
  | cons x xs ih =>
    have hx := h.1 x List.mem_cons_self
    have := ih ⟨fun y hy => h.1 y (List.mem_cons_of_mem _ hy), h.2⟩
    exact Alt.send hx.1 (Alt.acc hx.2.1 hx.2.2 this)

theorem rounds_of_alt {wo : Bool} {pend : Option RMsg} {evs : List LogEv} (h : Alt wo pend evs) :
    (pend = none → ∃ rounds last, evs = roundsLog rounds last ∧ RoundsOk wo rounds last) ∧
    (∀ p, pend = some p → evs = [] ∨ ∃ c r rest rounds last, evs = .acc c r :: rest ∧ IsReply wo r ∧
      RC.ridOf p = RC.ridOf r ∧ rest = roundsLog rounds last ∧ RoundsOk wo rounds last) := by
  induction h with
  | nil p =>
    refine ⟨fun _ => ⟨[], none, rfl, ⟨(by intro x hx; cases hx), (by intro x hx; cases hx)⟩⟩, fun _ _ => Or.inl rfl⟩
  | @send c m rest hm _ ih =>
    refine ⟨fun _ => ?_, (by intro p hp; cases hp)⟩
    rcases ih.2 m rfl with rfl | ⟨c', r, rest', rounds, last, rfl, hr, hid, rfl, hok⟩
    · exact ⟨[], some (c, m), rfl, ⟨(by intro x hx; cases hx), (by intro x hx; cases hx; exact hm)⟩⟩
    · refine ⟨((c, m), (c', r)) :: rounds, last, rfl, ?_, hok.2⟩
      intro x hx
      rcases List.mem_cons.1 hx with rfl | hx
      · exact ⟨hm, hr, hid⟩
      · exact hok.1 x hx
  | @acc c p m rest hm hid _ ih =>
    refine ⟨(by intro hp; cases hp), ?_⟩
    intro p' hp'
    cases hp'
    obtain ⟨rounds, last, hrest, hok⟩ := ih.1 rfl
    exact Or.inr ⟨c, m, rest, rounds, last, rfl, hm, hid, hrest, hok⟩


theorem alt_iff_rounds (wo : Bool) (evs : List LogEv) :
    Alt wo none evs ↔ ∃ rounds last, evs = roundsLog rounds last ∧ RoundsOk wo rounds last := by
  constructor
  · intro h; exact (rounds_of_alt h).1 rfl
  · rintro ⟨rounds, last, rfl, hok⟩; exact alt_roundsLog hok

end SR.C18Oracle
