import SR.Proofs.MarketRun
/-! Shutdown phase of the market: a lexicographic measure that every worker step decreases. -/
namespace SR.Market

/-- shutdown measure: (workers that have not exited, workers waiting, workers notified but not yet woken) -/
def nonExited (pcs : List Pc) : Nat := pcs.length - pcs.count .exited
def parkedN (pcs : List Pc) : Nat := pcs.count (.parked true) + pcs.count (.parked false)
def notifiedN (pcs : List Pc) : Nat := pcs.count (.parked true)
def shutdownMeasure (s : MState) : Nat × Nat × Nat := (nonExited s.pcs, parkedN s.pcs, notifiedN s.pcs)

abbrev MLt : Nat × Nat × Nat → Nat × Nat × Nat → Prop :=
  Prod.Lex (· < ·) (Prod.Lex (· < ·) (· < ·))

theorem mlt_wf : WellFounded MLt :=
  (Prod.lex Nat.lt_wfRel (Prod.lex Nat.lt_wfRel Nat.lt_wfRel)).wf

theorem count_exited_notifyAll (pcs : List Pc) : (notifyAll pcs).count .exited = pcs.count .exited := by
  induction pcs with
  | nil => rfl
  | cons p ps ih => cases p <;> simp_all [notifyAll]

theorem count_parkedFalse_notifyAll (pcs : List Pc) : (notifyAll pcs).count (.parked false) = 0 :=
  List.count_eq_zero.2 (not_parkedFalse_mem_notifyAll pcs)

theorem count_parkedTrue_notifyAll (pcs : List Pc) :
    (notifyAll pcs).count (.parked true) = pcs.count (.parked true) + pcs.count (.parked false) := by
  induction pcs with
  | nil => rfl
  | cons p ps ih =>
    cases p with
    | parked b => cases b <;> simp_all [notifyAll] <;> omega
    | _ => simp_all [notifyAll]

theorem parkedN_notifyAll (pcs : List Pc) : parkedN (notifyAll pcs) = parkedN pcs := by
  simp [parkedN, count_parkedFalse_notifyAll, count_parkedTrue_notifyAll]

theorem nonExited_notifyAll (pcs : List Pc) : nonExited (notifyAll pcs) = nonExited pcs := by
  simp [nonExited, count_exited_notifyAll, length_notifyAll]

/-- counting lemma for `set` in additive form -/
theorem count_set_add (l : List Pc) (w : Nat) (p q : Pc) (h : w < l.length) :
    (l.set w p).count q + (if l[w] = q then 1 else 0) = l.count q + (if p = q then 1 else 0) := by
  rw [List.count_set h]
  have hpos : l[w] = q → 0 < l.count q := fun e => List.count_pos_iff.2 (e ▸ List.getElem_mem h)
  by_cases e : l[w] = q
  · have := hpos e
    by_cases e2 : p = q <;> simp [e, e2] <;> omega
  · by_cases e2 : p = q <;> simp [e, e2]

end SR.Market

namespace SR.Market

theorem shutdown_drop_decreases (s s' : MState) (w : Nat) (hs : step s (.drop w) = some s') :
    MLt (shutdownMeasure s') (shutdownMeasure s) := by
  simp only [step, stepR] at hs
  split at hs
  · rename_i hw
    simp at hs; subst hs
    have hw' : (dropMarket s).pcs[w]? = some .running := getElem?_notifyAll_running hw
    obtain ⟨hwl, hget⟩ := List.getElem?_eq_some_iff.1 hw'
    have hc := count_set_add (dropMarket s).pcs w .exited .exited hwl
    rw [if_neg (by rw [hget]; simp), if_pos rfl] at hc
    have hle := List.count_le_length (a := Pc.exited) (l := (dropMarket s).pcs.set w .exited)
    have he : (dropMarket s).pcs.count .exited = s.pcs.count .exited := count_exited_notifyAll _
    have hl : (dropMarket s).pcs.length = s.pcs.length := length_notifyAll _
    apply Prod.Lex.left
    show ((dropMarket s).pcs.set w .exited).length - ((dropMarket s).pcs.set w .exited).count .exited
      < s.pcs.length - s.pcs.count .exited
    simp only [List.length_set] at hle ⊢
    omega
  · simp at hs

theorem shutdown_wake_decreases (s s' : MState) (w : Nat) (hb : s.batches = [])
    (hw : s.pcs[w]? = some (.parked true)) (hs : step s (.wake w) = some s') :
    MLt (shutdownMeasure s') (shutdownMeasure s) := by
  obtain ⟨hwl, hget⟩ := List.getElem?_eq_some_iff.1 hw
  simp only [step, stepR, hw] at hs
  simp only [popLoop, hb] at hs
  have cE := fun p => count_set_add s.pcs w p .exited hwl
  have cT := fun p => count_set_add s.pcs w p (.parked true) hwl
  have cF := fun p => count_set_add s.pcs w p (.parked false) hwl
  simp only [hget] at cE cT cF
  split at hs
  · -- the woken worker finds `open_count == 0`: returns empty (and notifies)
    simp at hs; subst hs
    have e1 := cE .running; have t1 := cT .running; have f1 := cF .running
    simp at e1 t1 f1
    apply Prod.Lex.right'
    · show nonExited (notifyAll (s.pcs.set w .running)) ≤ nonExited s.pcs
      rw [nonExited_notifyAll]; simp only [nonExited, List.length_set]; omega
    · apply Prod.Lex.left
      show parkedN (notifyAll (s.pcs.set w .running)) < parkedN s.pcs
      rw [parkedN_notifyAll]; simp only [parkedN]; omega
  · -- waits again
    simp at hs; subst hs
    have e1 := cE (.parked false); have t1 := cT (.parked false); have f1 := cF (.parked false)
    simp at e1 t1 f1
    apply Prod.Lex.right'
    · show nonExited (s.pcs.set w (.parked false)) ≤ nonExited s.pcs
      simp only [nonExited, List.length_set]; omega
    · apply Prod.Lex.right'
      · show parkedN (s.pcs.set w (.parked false)) ≤ parkedN s.pcs
        simp only [parkedN]; omega
      · show notifiedN (s.pcs.set w (.parked false)) < notifiedN s.pcs
        simp only [notifiedN]; omega

end SR.Market
