import SR.Sem.Spec
import SR.Proofs.SemAMap
/-!
The backtracking search of the testers against the declarative definition, at the level of a search
state `(Q, F)` (remaining queues, remaining in-flight operations). `Link` ties a search state to an
event history: what the queue entries mean (operation, return, what the recorded last-completed
map says about real-time predecessors). Under `Link`, `serialize` finds a serialization iff there
is an order of the remaining operations satisfying the declarative conditions (`SSer`).
-/
namespace SR.Sem
open AMap Tester
variable {S Op Ret : Type}

/-- `a` is still queued (a completed operation not yet placed) -/
def PresentQ (Q : Queues Op Ret) (a : OpId) : Prop :=
  ∃ items e, find? a.1 Q = some items ∧ (a.2, e) ∈ items

/-- `a` is a remaining in-flight operation -/
def PresentF (es : List (Event Op Ret)) (F : InFlights Op) (a : OpId) : Prop :=
  (find? a.1 F).isSome = true ∧ a.2 = (retsOf es a.1).length

/-- the recorded map `lc` of operation `b` says exactly which operations of other threads
    precede `b` in real time (nothing, when `rt = false`) -/
structure LcOk (rt : Bool) (es : List (Event Op Ret)) (b : OpId) (lc : LC) : Prop where
  sorted : Sorted lc
  self : find? b.1 lc = none
  iff : ∀ a : OpId, a.1 ≠ b.1 → ((∃ m, find? a.1 lc = some m ∧ a.2 ≤ m) ↔ (rt = true ∧ PrecedesRT es a b))

structure Link (rt : Bool) (es : List (Event Op Ret)) (Q : Queues Op Ret) (F : InFlights Op) : Prop where
  sameThread : ∀ a b : OpId, a.1 = b.1 → PrecedesRT es a b → a.2 < b.2
  qSorted : Sorted Q
  fSorted : Sorted F
  items : ∀ t its, find? t Q = some its → its.Pairwise (fun x y => x.1 < y.1) ∧
    ∀ i lc op r, (i, (lc, op, r)) ∈ its →
      opAt es (t, i) = some op ∧ retAt es (t, i) = some r ∧ LcOk rt es (t, i) lc
  infl : ∀ t lc op, find? t F = some (lc, op) →
    (∃ its, find? t Q = some its ∧ ∀ x ∈ its, x.1 < (retsOf es t).length) ∧
    opAt es (t, (retsOf es t).length) = some op ∧ retAt es (t, (retsOf es t).length) = none ∧
    LcOk rt es (t, (retsOf es t).length) lc

/-- `ids` orders all queued operations and some of the remaining in-flight ones, respects
    `MustPrecede`, and `l` is its legal execution from `obj` -/
def SSer (rt : Bool) (spec : SeqSpec S Op Ret) (es : List (Event Op Ret)) (Q : Queues Op Ret) (F : InFlights Op)
    (obj : S) (ids : List OpId) (l : List (Op × Ret)) : Prop :=
  ids.Nodup ∧ (∀ a ∈ ids, PresentQ Q a ∨ PresentF es F a) ∧ (∀ a, PresentQ Q a → a ∈ ids) ∧
  ids.Pairwise (fun a b => ¬ MustPrecede rt es b a) ∧ Legal spec es obj ids l

def measure (Q : Queues Op Ret) (F : InFlights Op) : Nat := (Q.map fun e => e.2.length).sum + F.length

theorem retPos_eq_none_of_retAt {es : List (Event Op Ret)} {a : OpId} (h : retAt es a = none) : retPos es a = none := by
  unfold retAt at h; unfold retPos
  cases hg : (retsOf es a.1)[a.2]? with
  | none => rfl
  | some x => simp [hg] at h

theorem not_precedes_of_retAt_none {es : List (Event Op Ret)} {a b : OpId} (h : retAt es a = none) :
    ¬ PrecedesRT es a b := by
  rintro ⟨q, p, hq, _, _⟩
  rw [retPos_eq_none_of_retAt h] at hq; cases hq

/-- the real-time test of the code, read declaratively -/
theorem violation_iff {rt : Bool} {es : List (Event Op Ret)} {Q : Queues Op Ret} {b : OpId} {lc : LC}
    (hitems : ∀ t its, find? t Q = some its → its.Pairwise (fun x y => x.1 < y.1))
    (hlc : LcOk rt es b lc) :
    violation lc Q = true ↔ ∃ a, PresentQ Q a ∧ a.1 ≠ b.1 ∧ rt = true ∧ PrecedesRT es a b := by
  unfold violation
  rw [List.any_eq_true]
  constructor
  · rintro ⟨⟨p, m⟩, hmem, hv⟩
    have hf : find? p lc = some m := find?_of_mem hlc.sorted hmem
    have hpb : p ≠ b.1 := by
      intro e; rw [e, hlc.self] at hf; cases hf
    simp only at hv
    cases hq : find? p Q with
    | none => simp [hq] at hv
    | some its =>
      cases its with
      | nil => simp [hq] at hv
      | cons it rest =>
        simp only [hq, decide_eq_true_eq] at hv
        refine ⟨(p, it.1), ⟨it :: rest, it.2, hq, by simp⟩, hpb, ?_⟩
        exact (hlc.iff (p, it.1) hpb).1 ⟨m, hf, hv⟩
  · rintro ⟨a, ⟨its, e, hq, hmem⟩, hab, hrt, hpre⟩
    obtain ⟨m, hf, hle⟩ := (hlc.iff a hab).2 ⟨hrt, hpre⟩
    refine ⟨(a.1, m), mem_of_find? hf, ?_⟩
    simp only [hq]
    cases its with
    | nil => simp at hmem
    | cons it rest =>
      simp only [decide_eq_true_eq]
      have hp := hitems a.1 _ hq
      rcases List.mem_cons.1 hmem with h | h
      · rw [← h]; exact hle
      · have := (List.pairwise_cons.1 hp).1 _ h
        simp only at this; omega

theorem sum_upsert_of_find? {t : Nat} {rem rest : List (Item Op Ret)} {Q : Queues Op Ret} (hs : Sorted Q)
    (h : find? t Q = some rem) :
    ((upsert t rest Q).map fun e => e.2.length).sum + rem.length = (Q.map fun e => e.2.length).sum + rest.length := by
  induction Q with
  | nil => simp at h
  | cons e r ih =>
    obtain ⟨k0, v0⟩ := e
    obtain ⟨hlt, hr⟩ := sorted_cons.1 hs
    simp only [upsert]
    by_cases h1 : t < k0
    · exfalso
      have : find? t ((k0, v0) :: r) = none := find?_eq_none_of_lt (by
        intro k' hk'; simp [keys] at hk'
        rcases hk' with rfl | ⟨x, hx⟩
        · exact h1
        · have := hlt k' (by simp [keys]; exact ⟨x, hx⟩); omega)
      rw [this] at h; cases h
    · simp only [h1, if_false]
      by_cases h2 : t = k0
      · subst h2
        simp only [find?_cons, if_true, Option.some.injEq] at h
        subst h
        simp only [if_true, List.map_cons, List.sum_cons]; omega
      · have h3 : k0 ≠ t := fun e => h2 e.symm
        simp only [find?_cons, h3, if_false] at h
        simp only [h2, if_false, List.map_cons, List.sum_cons]
        have := ih hr h; omega

theorem presentQ_upsert {t : Nat} {rest : List (Item Op Ret)} {Q : Queues Op Ret} {a : OpId} :
    PresentQ (upsert t rest Q) a ↔ (a.1 = t ∧ ∃ e, (a.2, e) ∈ rest) ∨ (a.1 ≠ t ∧ PresentQ Q a) := by
  unfold PresentQ
  rw [find?_upsert]
  by_cases h : t = a.1
  · subst h
    simp only [if_true, Option.some.injEq, true_and, ne_eq, not_true_eq_false, false_and, or_false]
    constructor
    · rintro ⟨its, e, rfl, hm⟩; exact ⟨e, hm⟩
    · rintro ⟨e, hm⟩; exact ⟨rest, e, rfl, hm⟩
  · have h' : a.1 ≠ t := fun e => h e.symm
    simp [h, h']

section branch
variable {rt : Bool} {spec : SeqSpec S Op Ret} {es : List (Event Op Ret)} {Q : Queues Op Ret} {F : InFlights Op}

theorem branch_sound (hL : Link rt es Q F) (hlaw : spec.Lawful) {obj obj' : S} {t : Nat} {rem : List (Item Op Ret)}
    {Q' : Queues Op Ret} {F' : InFlights Op} {x : Op × Ret}
    (hm : find? t Q = some rem) (hb : branch spec obj Q F t rem = some (obj', Q', F', x)) :
    ∃ b : OpId, Link rt es Q' F' ∧ measure Q' F' + 1 = measure Q F ∧
      ∀ ids l, SSer rt spec es Q' F' obj' ids l → SSer rt spec es Q F obj (b :: ids) (x :: l) := by
  cases rem with
  | nil =>
    -- case 1: the thread's queue is empty, its in-flight operation is tried
    simp only [branch] at hb
    cases hf : find? t F with
    | none => simp [hf] at hb
    | some lcop =>
      obtain ⟨lc, op⟩ := lcop
      simp only [hf] at hb
      by_cases hv : violation lc Q = true
      · simp [hv] at hb
      · simp only [hv, Bool.false_eq_true, if_false, Option.some.injEq, Prod.mk.injEq] at hb
        obtain ⟨rfl, rfl, rfl, rfl⟩ := hb
        obtain ⟨⟨its, hits, hbound⟩, hop, hret, hlc⟩ := hL.infl t lc op hf
        have hits0 : its = [] := by rw [hm] at hits; exact (Option.some.inj hits).symm
        have hnov : ¬ ∃ a, PresentQ Q a ∧ a.1 ≠ t ∧ rt = true ∧ PrecedesRT es a (t, (retsOf es t).length) := by
          intro h
          exact hv ((violation_iff (fun t its h => (hL.items t its h).1) hlc).2 h)
        have hL' : Link rt es Q (erase t F) := {
          sameThread := hL.sameThread
          qSorted := hL.qSorted
          fSorted := sorted_erase hL.fSorted
          items := hL.items
          infl := by
            intro t' lc' op' h'
            rw [find?_erase hL.fSorted] at h'
            by_cases e : t' = t
            · simp [e] at h'
            · simp only [e, if_false] at h'
              exact hL.infl t' lc' op' h' }
        refine ⟨(t, (retsOf es t).length), hL', ?_, ?_⟩
        · unfold measure
          have := length_erase (k := t) (m := F) (by rw [hf]; rfl)
          omega
        · rintro ids l ⟨hnd, hpres, hall, hpw, hleg⟩
          have hpresF : ∀ a, PresentF es (erase t F) a → PresentF es F a ∧ a.1 ≠ t := by
            rintro a ⟨h1, h2⟩
            rw [find?_erase hL.fSorted] at h1
            by_cases e : a.1 = t
            · simp [e] at h1
            · simp only [e, if_false] at h1; exact ⟨⟨h1, h2⟩, e⟩
          have hnoQ : ∀ a : OpId, a.1 = t → ¬ PresentQ Q a := by
            rintro a e ⟨its', e', h1, h2⟩
            rw [e, hm] at h1; cases h1; simp at h2
          refine ⟨?_, ?_, ?_, ?_, ?_⟩
          · refine List.nodup_cons.2 ⟨?_, hnd⟩
            intro hin
            rcases hpres _ hin with h | h
            · exact hnoQ _ rfl h
            · exact (hpresF _ h).2 rfl
          · intro a ha
            rcases List.mem_cons.1 ha with rfl | ha
            · exact Or.inr ⟨by rw [hf]; rfl, rfl⟩
            · rcases hpres a ha with h | h
              · exact Or.inl h
              · exact Or.inr (hpresF a h).1
          · intro a ha; exact List.mem_cons_of_mem _ (hall a ha)
          · refine List.pairwise_cons.2 ⟨?_, hpw⟩
            intro a ha hmp
            rcases hpres a ha with h | h
            · have hne : a.1 ≠ t := fun e => hnoQ a e h
              rcases hmp with ⟨e, _⟩ | ⟨hrt, hp⟩
              · exact hne e
              · exact hnov ⟨a, h, hne, hrt, hp⟩
            · obtain ⟨⟨h1, h2⟩, hne⟩ := hpresF a h
              rcases hmp with ⟨e, _⟩ | ⟨hrt, hp⟩
              · exact hne e
              · cases hfa : find? a.1 F with
                | none => rw [hfa] at h1; cases h1
                | some lcop' =>
                  have := (hL.infl a.1 lcop'.1 lcop'.2 hfa).2.2.1
                  rw [← h2] at this
                  exact not_precedes_of_retAt_none this hp
          · exact ⟨hop, rfl, (by intro r hr; rw [hret] at hr; cases hr), hleg⟩
  | cons it rest =>
    -- case 2: the head of the thread's queue is tried
    obtain ⟨i, lc, op, ret⟩ := it
    simp only [branch] at hb
    by_cases hv : violation lc (upsert t rest Q) = true
    · simp [hv] at hb
    · simp only [hv, Bool.false_eq_true, if_false] at hb
      by_cases hst : (spec.isValidStep obj op ret).1 = true
      · simp only [hst, if_true, Option.some.injEq, Prod.mk.injEq] at hb
        obtain ⟨rfl, rfl, rfl, rfl⟩ := hb
        obtain ⟨hpw0, hcont⟩ := hL.items t _ hm
        obtain ⟨hop, hret, hlc⟩ := hcont i lc op ret (by simp)
        have hhead : ∀ x ∈ rest, i < x.1 := fun x hx => (List.pairwise_cons.1 hpw0).1 x hx
        have hL' : Link rt es (upsert t rest Q) F := {
          sameThread := hL.sameThread
          qSorted := sorted_upsert hL.qSorted
          fSorted := hL.fSorted
          items := by
            intro t' its h'
            rw [find?_upsert] at h'
            by_cases e : t = t'
            · subst e
              simp only [if_true, Option.some.injEq] at h'
              subst h'
              exact ⟨(List.pairwise_cons.1 hpw0).2, fun i' lc' op' r' hmem => hcont i' lc' op' r' (List.mem_cons_of_mem _ hmem)⟩
            · simp only [e, if_false] at h'
              exact hL.items t' its h'
          infl := by
            intro t' lc' op' h'
            obtain ⟨⟨its, h1, h2⟩, h3⟩ := hL.infl t' lc' op' h'
            refine ⟨?_, h3⟩
            rw [find?_upsert]
            by_cases e : t = t'
            · subst e
              rw [hm] at h1; cases h1
              exact ⟨rest, by simp, fun x hx => h2 x (List.mem_cons_of_mem _ hx)⟩
            · exact ⟨its, by simp [e, h1], h2⟩ }
        have hnov : ¬ ∃ a, PresentQ (upsert t rest Q) a ∧ a.1 ≠ t ∧ rt = true ∧ PrecedesRT es a (t, i) := by
          intro h
          exact hv ((violation_iff (fun t its h => (hL'.items t its h).1) hlc).2 h)
        refine ⟨(t, i), hL', ?_, ?_⟩
        · unfold measure
          have := sum_upsert_of_find? (rest := rest) hL.qSorted hm
          simp only [List.length_cons] at this
          omega
        · rintro ids l ⟨hnd, hpres, hall, hpw, hleg⟩
          have hboundF : (find? t F).isSome = true → i < (retsOf es t).length := by
            intro h
            cases hfa : find? t F with
            | none => rw [hfa] at h; cases h
            | some lcop' =>
              obtain ⟨⟨its, h1, h2⟩, _⟩ := hL.infl t lcop'.1 lcop'.2 hfa
              rw [hm] at h1; cases h1
              exact h2 (i, lc, op, ret) (by simp)
          refine ⟨?_, ?_, ?_, ?_, ?_⟩
          · refine List.nodup_cons.2 ⟨?_, hnd⟩
            intro hin
            rcases hpres _ hin with h | h
            · rcases presentQ_upsert.1 h with ⟨_, e, he⟩ | ⟨hne, _⟩
              · have := hhead _ he; simp at this
              · exact hne rfl
            · obtain ⟨h1, h2⟩ := h
              have := hboundF h1
              simp only at h2; omega
          · intro a ha
            rcases List.mem_cons.1 ha with rfl | ha
            · exact Or.inl ⟨_, (lc, op, ret), hm, by simp⟩
            · rcases hpres a ha with h | h
              · left
                rcases presentQ_upsert.1 h with ⟨e1, e, he⟩ | ⟨_, h⟩
                · exact ⟨_, e, by rw [e1]; exact hm, List.mem_cons_of_mem _ he⟩
                · exact h
              · exact Or.inr h
          · rintro a ⟨its, e, h1, h2⟩
            by_cases e1 : a.1 = t
            · rw [e1, hm] at h1; cases h1
              rcases List.mem_cons.1 h2 with h | h
              · have : a = (t, i) := by
                  cases a; simp only at e1; subst e1
                  simp only [Prod.mk.injEq] at h; rw [h.1]
                rw [this]; exact List.mem_cons_self
              · exact List.mem_cons_of_mem _ (hall a (presentQ_upsert.2 (Or.inl ⟨e1, e, h⟩)))
            · exact List.mem_cons_of_mem _ (hall a (presentQ_upsert.2 (Or.inr ⟨e1, its, e, h1, h2⟩)))
          · refine List.pairwise_cons.2 ⟨?_, hpw⟩
            intro a ha hmp
            rcases hpres a ha with h | h
            · rcases presentQ_upsert.1 h with ⟨e1, e, he⟩ | ⟨hne, _⟩
              · have hlt := hhead _ he
                simp only at hlt
                rcases hmp with ⟨_, h2⟩ | ⟨_, hp⟩
                · simp only at h2; omega
                · have := hL.sameThread a (t, i) e1 hp
                  simp only at this; omega
              · rcases hmp with ⟨e, _⟩ | ⟨hrt, hp⟩
                · exact hne e
                · exact hnov ⟨a, h, hne, hrt, hp⟩
            · obtain ⟨h1, h2⟩ := h
              rcases hmp with ⟨e, hlt⟩ | ⟨hrt, hp⟩
              · simp only at e hlt
                rw [e] at h1 h2
                have := hboundF h1
                omega
              · cases hfa : find? a.1 F with
                | none => rw [hfa] at h1; cases h1
                | some lcop' =>
                  have := (hL.infl a.1 lcop'.1 lcop'.2 hfa).2.2.1
                  rw [← h2] at this
                  exact not_precedes_of_retAt_none this hp
          · have hr := (hlaw.verdict obj op ret).1 hst
            have hs := hlaw.state obj op ret hst
            refine ⟨hop, hr, ?_, ?_⟩
            · intro r' hr'; rw [hret] at hr'; exact (Option.some.inj hr').symm
            · simp only; rw [← hs]; exact hleg
      · simp [hst] at hb

theorem branch_complete (hL : Link rt es Q F) (hlaw : spec.Lawful) {obj : S} {b : OpId} {ids : List OpId}
    {x : Op × Ret} {l : List (Op × Ret)} (hS : SSer rt spec es Q F obj (b :: ids) (x :: l)) :
    ∃ rem obj' Q' F', find? b.1 Q = some rem ∧ branch spec obj Q F b.1 rem = some (obj', Q', F', x) ∧
      SSer rt spec es Q' F' obj' ids l := by
  obtain ⟨hnd, hpres, hall, hpw, hleg⟩ := hS
  obtain ⟨hbn, hnd'⟩ := List.nodup_cons.1 hnd
  obtain ⟨hpwb, hpw'⟩ := List.pairwise_cons.1 hpw
  obtain ⟨hop, hinv, hretx, hleg'⟩ := hleg
  -- any other queued operation that must precede `b` contradicts the order
  have hnoPred : ∀ a, PresentQ Q a → a ≠ b → ¬ MustPrecede rt es a b := by
    intro a ha hab
    have : a ∈ b :: ids := hall a ha
    rcases List.mem_cons.1 this with h | h
    · exact absurd h hab
    · exact hpwb a h
  rcases hpres b List.mem_cons_self with hq | hf
  · -- `b` is queued: it must be the head of its queue (case 2)
    obtain ⟨its, e, hq1, hq2⟩ := hq
    obtain ⟨hpw0, hcont⟩ := hL.items b.1 its hq1
    cases its with
    | nil => simp at hq2
    | cons it rest =>
      have hit : it = (b.2, e) := by
        rcases List.mem_cons.1 hq2 with h | h
        · exact h.symm
        · exfalso
          have hlt := (List.pairwise_cons.1 hpw0).1 _ h
          simp only at hlt
          have hpa : PresentQ Q (b.1, it.1) := ⟨_, it.2, hq1, by simp⟩
          refine hnoPred (b.1, it.1) hpa ?_ (Or.inl ⟨rfl, hlt⟩)
          intro e'; rw [← e'] at hlt; simp at hlt
      subst hit
      obtain ⟨lc, op, ret⟩ := e
      obtain ⟨hop', hret', hlc⟩ := hcont b.2 lc op ret (by simp)
      have hhead : ∀ y ∈ rest, b.2 < y.1 := fun y hy => (List.pairwise_cons.1 hpw0).1 y hy
      have hx1 : x.1 = op := by
        have : opAt es b = some op := hop'
        rw [hop] at this; exact Option.some.inj this
      have hx2 : x.2 = ret := by
        have := hretx ret hret'
        exact this.symm
      have hv : violation lc (upsert b.1 rest Q) = false := by
        cases hvv : violation lc (upsert b.1 rest Q) with
        | false => rfl
        | true =>
          exfalso
          have hitems' : ∀ t its, find? t (upsert b.1 rest Q) = some its → its.Pairwise (fun x y => x.1 < y.1) := by
            intro t its h'
            rw [find?_upsert] at h'
            by_cases e : b.1 = t
            · simp only [e, if_true, Option.some.injEq] at h'; subst h'
              exact (List.pairwise_cons.1 hpw0).2
            · simp only [e, if_false] at h'; exact (hL.items t its h').1
          obtain ⟨a, ha, hne, hrt, hp⟩ := (violation_iff hitems' hlc).1 hvv
          rcases presentQ_upsert.1 ha with ⟨e1, _⟩ | ⟨_, ha'⟩
          · exact hne e1
          · exact hnoPred a ha' (fun e => hne (by rw [e])) (Or.inr ⟨hrt, hp⟩)
      have hst : (spec.isValidStep obj op ret).1 = true := by
        apply (hlaw.verdict obj op ret).2
        rw [← hx1, ← hx2]; exact hinv
      refine ⟨_, (spec.isValidStep obj op ret).2, upsert b.1 rest Q, F, hq1, ?_, ?_⟩
      · simp only [branch, hv, hst, Bool.false_eq_true, if_false, if_true]
        congr 3
        · cases x; simp only at hx1 hx2; rw [hx1, hx2]
      · refine ⟨hnd', ?_, ?_, hpw', ?_⟩
        · intro a ha
          rcases hpres a (List.mem_cons_of_mem _ ha) with h | h
          · left
            obtain ⟨its', e', h1, h2⟩ := h
            by_cases e1 : a.1 = b.1
            · rw [e1, hq1] at h1; cases h1
              rcases List.mem_cons.1 h2 with h | h
              · exfalso
                have : a = b := by
                  cases a; cases b; simp only at e1 h ⊢
                  simp only [Prod.mk.injEq] at h
                  rw [e1, h.1]
                exact hbn (this ▸ ha)
              · exact presentQ_upsert.2 (Or.inl ⟨e1, e', h⟩)
            · exact presentQ_upsert.2 (Or.inr ⟨e1, its', e', h1, h2⟩)
          · exact Or.inr h
        · intro a ha
          rcases presentQ_upsert.1 ha with ⟨e1, e', he⟩ | ⟨hne, ha'⟩
          · have : a ∈ b :: ids := hall a ⟨_, e', by rw [e1]; exact hq1, List.mem_cons_of_mem _ he⟩
            rcases List.mem_cons.1 this with h | h
            · exfalso
              have := hhead _ he
              rw [h] at this; simp at this
            · exact h
          · have : a ∈ b :: ids := hall a ha'
            rcases List.mem_cons.1 this with h | h
            · exact absurd (by rw [h]) hne
            · exact h
        · have hs := hlaw.state obj op ret hst
          rw [hs, ← hx1]; exact hleg'
  · -- `b` is an in-flight operation: its thread's queue must be empty (case 1)
    obtain ⟨hf1, hf2⟩ := hf
    cases hfa : find? b.1 F with
    | none => rw [hfa] at hf1; cases hf1
    | some lcop =>
      obtain ⟨lc, op⟩ := lcop
      obtain ⟨⟨its, hits, hbound⟩, hop', hret', hlc⟩ := hL.infl b.1 lc op hfa
      have hits0 : its = [] := by
        cases its with
        | nil => rfl
        | cons it rest =>
          exfalso
          have hlt := hbound it (by simp)
          have hpa : PresentQ Q (b.1, it.1) := ⟨_, it.2, hits, by simp⟩
          refine hnoPred (b.1, it.1) hpa ?_ (Or.inl ⟨rfl, by simp only; omega⟩)
          intro e'; rw [← e'] at hf2; simp only at hf2; omega
      subst hits0
      have hbeq : b = (b.1, (retsOf es b.1).length) := by cases b; simp only at hf2 ⊢; rw [hf2]
      have hx1 : x.1 = op := by
        have : opAt es b = some op := by rw [hbeq]; exact hop'
        rw [hop] at this; exact Option.some.inj this
      have hv : violation lc Q = false := by
        cases hvv : violation lc Q with
        | false => rfl
        | true =>
          exfalso
          obtain ⟨a, ha, hne, hrt, hp⟩ := (violation_iff (fun t its h => (hL.items t its h).1) hlc).1 hvv
          refine hnoPred a ha (fun e => hne (by rw [e])) (Or.inr ⟨hrt, ?_⟩)
          rw [hbeq]; exact hp
      refine ⟨[], (spec.invoke obj op).1, Q, erase b.1 F, hits, ?_, ?_⟩
      · simp only [branch, hfa, hv, Bool.false_eq_true, if_false]
        congr 3
        cases x; simp only at hx1 hinv; rw [← hx1, hinv]
      · refine ⟨hnd', ?_, ?_, hpw', ?_⟩
        · intro a ha
          rcases hpres a (List.mem_cons_of_mem _ ha) with h | h
          · exact Or.inl h
          · right
            obtain ⟨h1, h2⟩ := h
            refine ⟨?_, h2⟩
            rw [find?_erase hL.fSorted]
            by_cases e1 : a.1 = b.1
            · exfalso
              have : a = b := by
                cases a; cases b; simp only at e1 h2 hf2 ⊢
                rw [e1, h2, hf2, e1]
              exact hbn (this ▸ ha)
            · simp [e1, h1]
        · intro a ha
          have : a ∈ b :: ids := hall a ha
          rcases List.mem_cons.1 this with h | h
          · exfalso
            obtain ⟨its', e', h1, h2⟩ := ha
            rw [h, hits] at h1; cases h1; simp at h2
          · exact h
        · rw [← hx1]; exact hleg'

end branch

theorem tryThreads_sound {rt : Bool} {spec : SeqSpec S Op Ret} {es : List (Event Op Ret)} {Q : Queues Op Ret}
    {F : InFlights Op} (hL : Link rt es Q F) (hlaw : spec.Lawful)
    {rec : List (Op × Ret) → S → Queues Op Ret → InFlights Op → Option (List (Op × Ret))}
    (hrec : ∀ acc' obj' Q' F' l', Link rt es Q' F' → rec acc' obj' Q' F' = some l' →
      ∃ ids l2, l' = acc' ++ l2 ∧ SSer rt spec es Q' F' obj' ids l2)
    {acc : List (Op × Ret)} {obj : S} (entries : List (Nat × List (Item Op Ret))) (hsub : ∀ e ∈ entries, e ∈ Q)
    {l' : List (Op × Ret)} (h : tryThreads spec rec acc obj Q F entries = some l') :
    ∃ ids l2, l' = acc ++ l2 ∧ SSer rt spec es Q F obj ids l2 := by
  induction entries with
  | nil => simp [tryThreads] at h
  | cons e rest ih =>
    obtain ⟨t, rem⟩ := e
    have hsub' : ∀ e ∈ rest, e ∈ Q := fun e he => hsub e (List.mem_cons_of_mem _ he)
    simp only [tryThreads] at h
    cases hb : branch spec obj Q F t rem with
    | none => simp only [hb] at h; exact ih hsub' h
    | some res =>
      obtain ⟨obj', Q', F', x⟩ := res
      simp only [hb] at h
      cases hr : rec (acc ++ [x]) obj' Q' F' with
      | none => simp only [hr] at h; exact ih hsub' h
      | some l0 =>
        simp only [hr, Option.some.injEq] at h
        subst h
        have hm : find? t Q = some rem := find?_of_mem hL.qSorted (hsub _ List.mem_cons_self)
        obtain ⟨b, hL', _, hlift⟩ := branch_sound hL hlaw hm hb
        obtain ⟨ids, l2, e1, hS⟩ := hrec _ _ _ _ _ hL' hr
        exact ⟨b :: ids, x :: l2, by rw [e1]; simp, hlift ids l2 hS⟩

theorem not_presentQ_of_done {Q : Queues Op Ret} (h : Q.all (fun e => e.2.isEmpty) = true) (a : OpId) : ¬ PresentQ Q a := by
  rintro ⟨its, e, h1, h2⟩
  have := List.all_eq_true.1 h _ (mem_of_find? h1)
  simp only [List.isEmpty_iff] at this
  rw [this] at h2; simp at h2

theorem serialize_sound {rt : Bool} {spec : SeqSpec S Op Ret} {es : List (Event Op Ret)} (hlaw : spec.Lawful) :
    ∀ (fuel : Nat) (acc : List (Op × Ret)) (obj : S) (Q : Queues Op Ret) (F : InFlights Op) (l' : List (Op × Ret)),
      Link rt es Q F → serialize spec fuel acc obj Q F = some l' →
      ∃ ids l2, l' = acc ++ l2 ∧ SSer rt spec es Q F obj ids l2 := by
  intro fuel
  induction fuel with
  | zero => intro acc obj Q F l' _ h; simp [serialize] at h
  | succ fuel ih =>
    intro acc obj Q F l' hL h
    simp only [serialize] at h
    by_cases hd : Q.all (fun e => e.2.isEmpty) = true
    · simp only [hd, if_true, Option.some.injEq] at h
      subst h
      refine ⟨[], [], by simp, List.nodup_nil, by simp, ?_, List.Pairwise.nil, trivial⟩
      intro a ha; exact absurd ha (not_presentQ_of_done hd a)
    · simp only [hd, Bool.false_eq_true, if_false] at h
      exact tryThreads_sound hL hlaw (fun acc' obj' Q' F' l0 hL' h' => ih acc' obj' Q' F' l0 hL' h') Q (fun _ he => he) h

theorem tryThreads_complete {spec : SeqSpec S Op Ret}
    {rec : List (Op × Ret) → S → Queues Op Ret → InFlights Op → Option (List (Op × Ret))}
    {acc : List (Op × Ret)} {obj obj' : S} {Q Q' : Queues Op Ret} {F F' : InFlights Op} {t : Nat}
    {rem : List (Item Op Ret)} {x : Op × Ret}
    (entries : List (Nat × List (Item Op Ret))) (hmem : (t, rem) ∈ entries)
    (hb : branch spec obj Q F t rem = some (obj', Q', F', x))
    (hr : (rec (acc ++ [x]) obj' Q' F').isSome = true) :
    (tryThreads spec rec acc obj Q F entries).isSome = true := by
  induction entries with
  | nil => simp at hmem
  | cons e rest ih =>
    obtain ⟨t0, rem0⟩ := e
    simp only [tryThreads]
    cases hb0 : branch spec obj Q F t0 rem0 with
    | none =>
      simp only
      rcases List.mem_cons.1 hmem with h | h
      · cases h; rw [hb] at hb0; cases hb0
      · exact ih h
    | some res =>
      obtain ⟨obj0, Q0, F0, x0⟩ := res
      simp only
      cases hr0 : rec (acc ++ [x0]) obj0 Q0 F0 with
      | some l0 => simp
      | none =>
        simp only
        rcases List.mem_cons.1 hmem with h | h
        · cases h
          rw [hb] at hb0; cases hb0
          rw [hr0] at hr; cases hr
        · exact ih h

theorem serialize_complete {rt : Bool} {spec : SeqSpec S Op Ret} {es : List (Event Op Ret)} (hlaw : spec.Lawful) :
    ∀ (fuel : Nat) (acc : List (Op × Ret)) (obj : S) (Q : Queues Op Ret) (F : InFlights Op) (ids : List OpId)
      (l : List (Op × Ret)), Link rt es Q F → SSer rt spec es Q F obj ids l → measure Q F < fuel →
      (serialize spec fuel acc obj Q F).isSome = true := by
  intro fuel
  induction fuel with
  | zero => intro acc obj Q F ids l _ _ h; omega
  | succ fuel ih =>
    intro acc obj Q F ids l hL hS hm
    simp only [serialize]
    by_cases hd : Q.all (fun e => e.2.isEmpty) = true
    · simp [hd]
    · simp only [hd, Bool.false_eq_true, if_false]
      cases ids with
      | nil =>
        exfalso
        apply hd
        rw [List.all_eq_true]
        intro e he
        obtain ⟨t, its⟩ := e
        cases its with
        | nil => rfl
        | cons it rest =>
          have := hS.2.2.1 (t, it.1) ⟨_, it.2, find?_of_mem hL.qSorted he, by simp⟩
          simp at this
      | cons b ids =>
        cases l with
        | nil => exact absurd hS.2.2.2.2 (by simp [Legal])
        | cons x l =>
          obtain ⟨rem, obj', Q', F', hq, hb, hS'⟩ := branch_complete hL hlaw hS
          obtain ⟨_, hL', hmeas, _⟩ := branch_sound hL hlaw hq hb
          have := ih (acc ++ [x]) obj' Q' F' ids l hL' hS' (by omega)
          exact tryThreads_complete Q (mem_of_find? hq) hb this

end SR.Sem
