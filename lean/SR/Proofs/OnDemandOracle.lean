import SR.Drv.C19
import SR.Props.C01
/-!
Helper lemmas for `SR/Props/C19OnDemand.lean` (builder W-Z1).

Part 1: the reference semantics `onDemandExpected` of the oracle command `o-ondemand` (Drv/C19.lean), unfolded into a step
function (`odStep`), and a simulation between it and the checker machine serving targeted requests (`Session`).
Part 2: the `state_count` of a complete run (`KInv`: a counting invariant of the machine) and the formula `wantS` of `o-disc`.
-/
set_option linter.unusedSectionVars false
namespace SR.C19OnDemand
open SR SR.Drv.C19 SR.Checker

/-! ## The oracle, unfolded -/

/-- the new pending states made by evaluating `s`: in-boundary successors whose key is neither generated nor the key of
    an earlier new one (the inner fold of `onDemandExpected`) -/
def odNew (M : Sys Nat Nat) (key : Nat → Nat) (gen : List Nat) (s : Nat) : List Nat :=
  (M.succB s).foldl (fun (acc : List Nat) t =>
    if gen.any (fun u => key u == key t) || acc.any (fun u => key u == key t) then acc else acc ++ [t]) []

/-- `gen0` of `onDemandExpected` -/
def odGen0 (M : Sys Nat Nat) (key : Nat → Nat) : List Nat :=
  M.initB.foldl (fun (acc : List Nat) s => if acc.any (fun t => key t == key s) then acc else acc ++ [s]) []

/-- `step` of `onDemandExpected`; state = (pending, generated, evaluated in order) -/
def odStep (M : Sys Nat Nat) (key : Nat → Nat) (st : List Nat × List Nat × List Nat) (fp : Nat) :
    List Nat × List Nat × List Nat :=
  match st.1.findIdx? (fun s => key s == fp) with
  | none => st
  | some i =>
    let s := st.1.getD i 0
    (st.1.eraseIdx i ++ odNew M key st.2.1 s, st.2.1 ++ odNew M key st.2.1 s, st.2.2 ++ [s])

def odInit (M : Sys Nat Nat) (key : Nat → Nat) : List Nat × List Nat × List Nat := (M.initB, odGen0 M key, [])

/-- the whole oracle state after the requests -/
def odRun (M : Sys Nat Nat) (key : Nat → Nat) (reqs : List Nat) : List Nat × List Nat × List Nat :=
  reqs.foldl (odStep M key) (odInit M key)

theorem onDemandExpected_eq (M : Sys Nat Nat) (key : Nat → Nat) (reqs : List Nat) :
    onDemandExpected M key reqs = (odRun M key reqs).2.2 := by
  unfold onDemandExpected
  rfl

/-! ## The machine serving one targeted request -/
section Machine
variable {σ κ α : Type} [DecidableEq κ] (P : Params σ κ α)

/-- the successors that get a job when a state is expanded with `g` generated: key not in `g`, first of its key -/
def newK (key : σ → κ) : List κ → List σ → List σ
  | _, [] => []
  | g, t :: rest => if key t ∈ g then newK key g rest else t :: newK key (g ++ [key t]) rest

/-- The choices of the single worker (index 0) that processes the job it has just taken, to the end: one `evalProp` per
    property (any staleness flags), `finishProps`, then one `expand` per in-boundary successor plus the retiring one (any
    queue positions) — for a terminal state the `record` loop instead. -/
def IsWork (x : σ) (cs : List Choice) : Prop :=
  ∃ bs fs : List Bool, bs.length = P.props.length ∧ fs.length = (P.M.succB x).length + 1 ∧
    cs = bs.map (Choice.evalProp 0) ++ Choice.finishProps 0 ::
      (if (P.M.succB x).isEmpty then List.replicate (P.props.length + 1) (Choice.record 0)
       else fs.map (Choice.expand 0))

/-- An on-demand session before `run_to_completion`, one worker: a request whose fingerprint is the key of no pending job
    contributes nothing (`miss`); a request that hits a pending job contributes `take i` for (any) such job followed by the
    worker's processing of it (`hit`). -/
inductive Session : St σ κ → List κ → List Choice → Prop
  | nil (s) : Session s [] []
  | miss {s fp reqs cs} : (∀ j ∈ s.frontier, P.key j.st ≠ fp) → Session s reqs cs → Session s (fp :: reqs) cs
  | hit {s fp reqs cs} (i : Nat) (j : Job σ) (w : List Choice) : s.frontier[i]? = some j → P.key j.st = fp →
      IsWork P j.st w → Session (runFrom P s (Choice.take i :: w)) reqs cs →
      Session s (fp :: reqs) (Choice.take i :: w ++ cs)

variable {P}

theorem runFrom_append (s : St σ κ) (a b : List Choice) : runFrom P s (a ++ b) = runFrom P (runFrom P s a) b := by
  simp [runFrom, List.foldl_append]

theorem sinv_runFrom {s : St σ κ} (h : SInv P s) (cs : List Choice) : SInv P (runFrom P s cs) := by
  induction cs generalizing s with
  | nil => exact h
  | cons c cs ih => exact ih (sinv_step c h)

theorem ninv_runFrom {s : St σ κ} (h : SInv P s) (hn : NInv P s) (cs : List Choice) : NInv P (runFrom P s cs) := by
  induction cs generalizing s with
  | nil => exact hn
  | cons c cs ih => exact ih (sinv_step c h) (ninv_step c h hn)

omit [DecidableEq κ] in
theorem hasDisc_discInsert_ne {d : List (Nat × List σ)} {i k : Nat} {p : List σ} (h : hasDisc d k = false)
    (hik : i ≠ k) : hasDisc (discInsert d i p) k = false := by
  simp only [hasDisc, discInsert, List.any_cons, List.any_filter, Bool.or_eq_false_iff] at *
  refine ⟨by simpa using hik, ?_⟩
  rw [List.any_eq_false] at *
  intro e he
  have := h e he
  simp at this ⊢
  intro _; exact this

theorem evalProp_step {k : Nat} {pk : Prop' σ} (hk : P.props[k]? = some pk) (hka : pk.exp = .always)
    (s : St σ κ) (j : Job σ) (n : Nat) (aw b : Bool)
    (hact : s.active = [⟨j, .props n aw⟩]) (hn : n < P.props.length) (hc : pk.cond j.st = true)
    (hnd : hasDisc s.disc k = false) (hkn : k < n → aw = true) :
    ∃ j' aw', (stepEvalProp P 0 b s).active = [⟨j', .props (n+1) aw'⟩] ∧ j'.st = j.st ∧ j'.path = j.path ∧
      (k < n + 1 → aw' = true) ∧ (stepEvalProp P 0 b s).gen = s.gen ∧ (stepEvalProp P 0 b s).frontier = s.frontier ∧
      (stepEvalProp P 0 b s).visits = s.visits ∧ hasDisc (stepEvalProp P 0 b s).disc k = false := by
  have h0 : s.active[0]? = some ⟨j, .props n aw⟩ := by rw [hact]; rfl
  obtain ⟨p, hp⟩ : ∃ p, P.props[n]? = some p := ⟨P.props[n], List.getElem?_eq_getElem hn⟩
  unfold stepEvalProp
  rw [h0]; dsimp only; rw [hp]; dsimp only
  split
  · rename_i hd
    have hnk : n ≠ k := by
      intro e; subst e; simp [hnd] at hd
    exact ⟨{ j with ebits := j.ebits.erase n }, aw, by rw [hact]; rfl, rfl, rfl, fun h => hkn (by omega), rfl, rfl, rfl, hnd⟩
  · split
    · split
      · rename_i hex hcond
        have hnk : n ≠ k := by
          intro e; subst e; rw [hk] at hp; cases hp; simp [hc] at hcond
        exact ⟨_, aw, by rw [hact]; rfl, rfl, rfl, fun h => hkn (by omega), rfl, rfl, rfl, hasDisc_discInsert_ne hnd hnk⟩
      · exact ⟨_, true, by rw [hact]; rfl, rfl, rfl, fun _ => rfl, rfl, rfl, rfl, hnd⟩
    · split
      · rename_i hex hcond
        have hnk : n ≠ k := by
          intro e; subst e; rw [hk] at hp; cases hp; rw [hka] at hex; cases hex
        exact ⟨_, aw, by rw [hact]; rfl, rfl, rfl, fun h => hkn (by omega), rfl, rfl, rfl, hasDisc_discInsert_ne hnd hnk⟩
      · exact ⟨_, true, by rw [hact]; rfl, rfl, rfl, fun _ => rfl, rfl, rfl, rfl, hnd⟩
    · refine ⟨_, true, by rw [hact]; rfl, ?_, ?_, fun _ => rfl, rfl, rfl, rfl, hnd⟩
      · split <;> rfl
      · split <;> rfl

theorem run_evalProps {k : Nat} {pk : Prop' σ} (hk : P.props[k]? = some pk) (hka : pk.exp = .always) :
    ∀ (bs : List Bool) (s : St σ κ) (j : Job σ) (n : Nat) (aw : Bool),
    s.active = [⟨j, .props n aw⟩] → n + bs.length = P.props.length → pk.cond j.st = true →
    hasDisc s.disc k = false → (k < n → aw = true) →
    ∃ j', (runFrom P s (bs.map (Choice.evalProp 0))).active = [⟨j', .props P.props.length true⟩] ∧
      j'.st = j.st ∧ j'.path = j.path ∧
      (runFrom P s (bs.map (Choice.evalProp 0))).gen = s.gen ∧
      (runFrom P s (bs.map (Choice.evalProp 0))).frontier = s.frontier ∧
      (runFrom P s (bs.map (Choice.evalProp 0))).visits = s.visits ∧
      hasDisc (runFrom P s (bs.map (Choice.evalProp 0))).disc k = false := by
  intro bs
  induction bs with
  | nil =>
    intro s j n aw hact hlen hc hnd hkn
    have hkl : k < P.props.length := (List.getElem?_eq_some_iff.1 hk).1
    simp only [List.length_nil, Nat.add_zero] at hlen
    subst hlen
    have : aw = true := hkn hkl
    subst this
    exact ⟨j, hact, rfl, rfl, rfl, rfl, rfl, hnd⟩
  | cons b bs ih =>
    intro s j n aw hact hlen hc hnd hkn
    simp only [List.length_cons] at hlen
    obtain ⟨j1, aw1, h1, hst, hpath, hkn1, hg, hf, hv, hd⟩ :=
      evalProp_step hk hka s j n aw b hact (by omega) hc hnd hkn
    obtain ⟨j', h2, hst', hpath', hg', hf', hv', hd'⟩ :=
      ih (stepEvalProp P 0 b s) j1 (n+1) aw1 h1 (by omega) (hst ▸ hc) hd hkn1
    refine ⟨j', h2, hst'.trans hst, hpath'.trans hpath, hg'.trans hg, hf'.trans hf, hv'.trans hv, hd'⟩

theorem finishProps_step (s : St σ κ) (j : Job σ) (hact : s.active = [⟨j, .props P.props.length true⟩]) :
    (stepFinishProps P 0 s).active =
      [⟨j, if (P.M.succB j.st).isEmpty then .recording 0 else .expanding (P.M.succB j.st)⟩] ∧
    (stepFinishProps P 0 s).gen = s.gen ∧ (stepFinishProps P 0 s).frontier = s.frontier ∧
    (stepFinishProps P 0 s).visits = s.visits ∧ (stepFinishProps P 0 s).disc = s.disc := by
  have h0 : s.active[0]? = some ⟨j, .props P.props.length true⟩ := by rw [hact]; rfl
  unfold stepFinishProps
  rw [h0]; dsimp only
  rw [if_neg (Nat.lt_irrefl _)]
  simp only [Bool.not_true, Bool.false_eq_true, if_false]
  cases hsb : P.M.succB j.st with
  | nil => simp [hact]
  | cons t ts => simp [hact]

theorem run_expands : ∀ (rest : List σ) (fs : List Bool) (s : St σ κ) (j : Job σ),
    s.active = [⟨j, .expanding rest⟩] → fs.length = rest.length + 1 →
    (runFrom P s (fs.map (Choice.expand 0))).active = [] ∧
    ((runFrom P s (fs.map (Choice.expand 0))).frontier.map (·.st)).Perm
      (s.frontier.map (·.st) ++ newK P.key s.gen rest) ∧
    (runFrom P s (fs.map (Choice.expand 0))).gen = s.gen ++ (newK P.key s.gen rest).map P.key ∧
    (runFrom P s (fs.map (Choice.expand 0))).visits = s.visits ∧
    (runFrom P s (fs.map (Choice.expand 0))).disc = s.disc := by
  intro rest
  induction rest with
  | nil =>
    intro fs s j hact hlen
    match fs, hlen with
    | [f], _ =>
      have h0 : s.active[0]? = some ⟨j, .expanding []⟩ := by rw [hact]; rfl
      simp only [List.map_cons, List.map_nil, runFrom, List.foldl_cons, List.foldl_nil, step]
      unfold stepExpand
      rw [h0]
      simp [hact, newK]
  | cons t rest ih =>
    intro fs s j hact hlen
    match fs, hlen with
    | f :: fs, hlen =>
      have h0 : s.active[0]? = some ⟨j, .expanding (t :: rest)⟩ := by rw [hact]; rfl
      have hlen' : fs.length = rest.length + 1 := by simpa using hlen
      have hrun : runFrom P s ((f :: fs).map (Choice.expand 0)) =
          runFrom P (stepExpand P 0 f s) (fs.map (Choice.expand 0)) := rfl
      rw [hrun]
      by_cases hin : P.key t ∈ s.gen
      · have hs1 : stepExpand P 0 f s =
            { s with stateCount := s.stateCount + 1, active := s.active.set 0 ⟨j, .expanding rest⟩ } := by
          unfold stepExpand; rw [h0]; simp [hin]
        obtain ⟨a1, a2, a3, a4, a5⟩ := ih fs (stepExpand P 0 f s) j (by rw [hs1, hact]; rfl) hlen'
        have hg1 : (stepExpand P 0 f s).gen = s.gen := by rw [hs1]
        have hf1 : (stepExpand P 0 f s).frontier = s.frontier := by rw [hs1]
        have hv1 : (stepExpand P 0 f s).visits = s.visits := by rw [hs1]
        have hd1 : (stepExpand P 0 f s).disc = s.disc := by rw [hs1]
        rw [hg1, hf1] at a2; rw [hg1] at a3; rw [hv1] at a4; rw [hd1] at a5
        simp only [newK, hin, if_true]
        exact ⟨a1, a2, a3, a4, a5⟩
      · have hs1 : stepExpand P 0 f s =
            { s with stateCount := s.stateCount + 1, gen := s.gen ++ [P.key t],
                     frontier := if f then { st := t, path := j.path ++ [t], ebits := j.ebits, depth := j.depth + 1 } :: s.frontier
                                 else s.frontier ++ [{ st := t, path := j.path ++ [t], ebits := j.ebits, depth := j.depth + 1 }],
                     active := s.active.set 0 ⟨j, .expanding rest⟩ } := by
          unfold stepExpand; rw [h0]; simp [hin]
        obtain ⟨a1, a2, a3, a4, a5⟩ := ih fs (stepExpand P 0 f s) j (by rw [hs1, hact]; rfl) hlen'
        have hg1 : (stepExpand P 0 f s).gen = s.gen ++ [P.key t] := by rw [hs1]
        have hf1 : ((stepExpand P 0 f s).frontier.map (·.st)).Perm (s.frontier.map (·.st) ++ [t]) := by
          rw [hs1]; dsimp only
          cases f
          · simp
          · simp only [if_true, List.map_cons]
            exact (List.perm_append_singleton _ _).symm
        have hv1 : (stepExpand P 0 f s).visits = s.visits := by rw [hs1]
        have hd1 : (stepExpand P 0 f s).disc = s.disc := by rw [hs1]
        rw [hg1] at a2 a3; rw [hv1] at a4; rw [hd1] at a5
        simp only [newK, hin, if_false]
        refine ⟨a1, a2.trans ?_, ?_, a4, a5⟩
        · have := List.Perm.append_right (newK P.key (s.gen ++ [P.key t]) rest) hf1
          simpa using this
        · rw [a3]; simp

theorem run_records {k : Nat} : ∀ (m : Nat) (s : St σ κ) (j : Job σ) (n : Nat),
    s.active = [⟨j, .recording n⟩] → n + m = P.props.length + 1 → n ≤ P.props.length → k ∉ j.ebits →
    hasDisc s.disc k = false →
    (runFrom P s (List.replicate m (Choice.record 0))).active = [] ∧
    (runFrom P s (List.replicate m (Choice.record 0))).frontier = s.frontier ∧
    (runFrom P s (List.replicate m (Choice.record 0))).gen = s.gen ∧
    (runFrom P s (List.replicate m (Choice.record 0))).visits = s.visits ∧
    hasDisc (runFrom P s (List.replicate m (Choice.record 0))).disc k = false := by
  intro m
  induction m with
  | zero => intro s j n _ h1 h2; omega
  | succ m ih =>
    intro s j n hact hnm hle hke hnd
    have h0 : s.active[0]? = some ⟨j, .recording n⟩ := by rw [hact]; rfl
    have hrun : runFrom P s (List.replicate (m+1) (Choice.record 0)) =
        runFrom P (stepRecord P 0 s) (List.replicate m (Choice.record 0)) := rfl
    rw [hrun]
    by_cases hlt : n < P.props.length
    · by_cases hin : n ∈ j.ebits
      · have hs1 : stepRecord P 0 s =
            { s with disc := discInsert s.disc n j.path, active := s.active.set 0 ⟨j, .recording (n+1)⟩ } := by
          unfold stepRecord; rw [h0]; simp [hlt, hin]
        have hnk : n ≠ k := fun e => hke (e ▸ hin)
        obtain ⟨a1, a2, a3, a4, a5⟩ := ih (stepRecord P 0 s) j (n+1) (by rw [hs1, hact]; rfl) (by omega) (by omega) hke
          (by rw [hs1]; exact hasDisc_discInsert_ne hnd hnk)
        have hg1 : (stepRecord P 0 s).gen = s.gen := by rw [hs1]
        have hf1 : (stepRecord P 0 s).frontier = s.frontier := by rw [hs1]
        have hv1 : (stepRecord P 0 s).visits = s.visits := by rw [hs1]
        rw [hf1] at a2; rw [hg1] at a3; rw [hv1] at a4
        exact ⟨a1, a2, a3, a4, a5⟩
      · have hs1 : stepRecord P 0 s = { s with active := s.active.set 0 ⟨j, .recording (n+1)⟩ } := by
          unfold stepRecord; rw [h0]; simp [hlt, hin]
        obtain ⟨a1, a2, a3, a4, a5⟩ := ih (stepRecord P 0 s) j (n+1) (by rw [hs1, hact]; rfl) (by omega) (by omega) hke
          (by rw [hs1]; exact hnd)
        have hg1 : (stepRecord P 0 s).gen = s.gen := by rw [hs1]
        have hf1 : (stepRecord P 0 s).frontier = s.frontier := by rw [hs1]
        have hv1 : (stepRecord P 0 s).visits = s.visits := by rw [hs1]
        rw [hf1] at a2; rw [hg1] at a3; rw [hv1] at a4
        exact ⟨a1, a2, a3, a4, a5⟩
    · have hm : m = 0 := by omega
      subst hm
      have hs1 : stepRecord P 0 s = { s with active := s.active.eraseIdx 0, done := j.st :: s.done } := by
        unfold stepRecord; rw [h0]; simp [hlt]
      simp only [List.replicate_zero, runFrom, List.foldl_nil]
      rw [hs1]
      simp [hact, hnd]

/-- **one served request**: from an idle machine (no worker active) with an undiscovered `always` property `k` that holds in
    the requested job's state, `take i` + the worker's processing evaluates exactly that job, generates exactly its new
    successors and leaves the machine idle again -/
theorem run_work {k : Nat} {pk : Prop' σ} (hk : P.props[k]? = some pk) (hka : pk.exp = .always)
    (hmd : P.cfg.maxDepth = none) (s : St σ κ) (hs : SInv P s) (hact : s.active = [])
    (hnd : hasDisc s.disc k = false) (i : Nat) (j : Job σ) (hj : s.frontier[i]? = some j)
    (hc : pk.cond j.st = true) (w : List Choice) (hw : IsWork P j.st w) :
    (runFrom P s (Choice.take i :: w)).active = [] ∧
    ((runFrom P s (Choice.take i :: w)).frontier.map (·.st)).Perm
      ((s.frontier.eraseIdx i).map (·.st) ++ newK P.key s.gen (P.M.succB j.st)) ∧
    (runFrom P s (Choice.take i :: w)).gen = s.gen ++ (newK P.key s.gen (P.M.succB j.st)).map P.key ∧
    (runFrom P s (Choice.take i :: w)).visits = j.path :: s.visits ∧
    hasDisc (runFrom P s (Choice.take i :: w)).disc k = false := by
  obtain ⟨bs, fs, hbs, hfs, rfl⟩ := hw
  have hrun : ∀ rest, runFrom P s (Choice.take i :: (bs.map (Choice.evalProp 0) ++ Choice.finishProps 0 :: rest)) =
      runFrom P (stepFinishProps P 0 (runFrom P (stepTake P i s) (bs.map (Choice.evalProp 0)))) rest := by
    intro rest
    show runFrom P (stepTake P i s) _ = _
    rw [runFrom_append]; rfl
  rw [hrun]
  -- take
  have ht : stepTake P i s = ({ s with
      frontier := s.frontier.eraseIdx i
      maxDepth := max s.maxDepth j.depth
      visits := j.path :: s.visits
      active := s.active ++ [(⟨j, .props 0 false⟩ : Active σ)] } : St σ κ) := by
    unfold stepTake; rw [hj]; simp [hmd]
  have hs1 : SInv P (stepTake P i s) := sinv_take i hs
  have hact1 : (stepTake P i s).active = [⟨j, .props 0 false⟩] := by rw [ht, hact]; rfl
  -- property loop
  obtain ⟨j', hact2, hst, hpath, hg2, hf2, hv2, hd2⟩ :=
    run_evalProps hk hka bs (stepTake P i s) j 0 false hact1 (by omega) hc (by rw [ht]; exact hnd) (by omega)
  have hs2 : SInv P (runFrom P (stepTake P i s) (bs.map (Choice.evalProp 0))) := sinv_runFrom hs1 _
  generalize runFrom P (stepTake P i s) (bs.map (Choice.evalProp 0)) = s2 at hact2 hg2 hf2 hv2 hd2 hs2
  have hg2' : s2.gen = s.gen := by rw [hg2, ht]
  have hf2' : s2.frontier = s.frontier.eraseIdx i := by rw [hf2, ht]
  have hv2' : s2.visits = j.path :: s.visits := by rw [hv2, ht]
  -- after the loop
  obtain ⟨hact3, hg3, hf3, hv3, hd3⟩ := finishProps_step s2 j' hact2
  have hs3 : SInv P (stepFinishProps P 0 s2) := sinv_finishProps 0 hs2
  generalize stepFinishProps P 0 s2 = s3 at hact3 hg3 hf3 hv3 hd3 hs3
  rw [hst] at hact3
  by_cases hterm : (P.M.succB j.st).isEmpty = true
  · rw [if_pos hterm] at hact3 ⊢
    have hke : k ∉ j'.ebits := by
      intro hin
      have := (hs3.ac ⟨j', .recording 0⟩ (by rw [hact3]; simp)).eb k hin pk hk
      rw [hka] at this; cases this
    obtain ⟨a1, a2, a3, a4, a5⟩ := run_records (P := P) (k := k) (P.props.length + 1) s3 j' 0 hact3 (by omega) (by omega) hke
      (by rw [hd3]; exact hd2)
    have he : P.M.succB j.st = [] := by simpa using hterm
    rw [he]
    simp only [newK, List.append_nil, List.map_nil]
    refine ⟨a1, ?_, ?_, ?_, a5⟩
    · rw [a2, hf3, hf2']
    · rw [a3, hg3, hg2']
    · rw [a4, hv3, hv2']
  · rw [if_neg hterm] at hact3 ⊢
    obtain ⟨a1, a2, a3, a4, a5⟩ := run_expands (P.M.succB j.st) fs s3 j' hact3 hfs
    rw [hf3, hf2', hg3, hg2'] at a2
    rw [hg3, hg2'] at a3
    exact ⟨a1, a2, a3, by rw [a4, hv3, hv2'], by rw [a5, hd3]; exact hd2⟩

end Machine

/-! ## The simulation between the oracle's state and the machine's -/
section Tie
variable (P : Params Nat Nat Nat)

theorem any_key_iff (key : Nat → Nat) (l : List Nat) (t : Nat) :
    l.any (fun u => key u == key t) = true ↔ key t ∈ l.map key := by
  simp only [List.any_eq_true, beq_iff_eq, List.mem_map]

theorem odGen0_fold (key : Nat → Nat) (is acc : List Nat) :
    (is.foldl (fun (acc : List Nat) s => if acc.any (fun t => key t == key s) then acc else acc ++ [s]) acc).map key
      = genInit key is (acc.map key) := by
  induction is generalizing acc with
  | nil => rfl
  | cons s ss ih =>
    simp only [List.foldl_cons, genInit]
    rw [ih]
    by_cases h : key s ∈ acc.map key
    · rw [if_pos ((any_key_iff key acc s).2 h), if_pos h]
    · rw [if_neg (fun h' => h ((any_key_iff key acc s).1 h')), if_neg h]; simp

theorem odGen0_map (M : Sys Nat Nat) (key : Nat → Nat) : (odGen0 M key).map key = genInit key M.initB [] :=
  odGen0_fold key M.initB []

theorem odNew_fold (key : Nat → Nat) (gen succ acc : List Nat) :
    succ.foldl (fun (acc : List Nat) t =>
      if gen.any (fun u => key u == key t) || acc.any (fun u => key u == key t) then acc else acc ++ [t]) acc
      = acc ++ newK key (gen.map key ++ acc.map key) succ := by
  induction succ generalizing acc with
  | nil => simp [newK]
  | cons t rest ih =>
    simp only [List.foldl_cons, newK]
    by_cases h : key t ∈ gen.map key ++ acc.map key
    · have h' : (gen.any (fun u => key u == key t) || acc.any (fun u => key u == key t)) = true := by
        rw [Bool.or_eq_true, any_key_iff, any_key_iff]; exact List.mem_append.1 h
      rw [if_pos h', if_pos h, ih]
    · have h' : ¬ (gen.any (fun u => key u == key t) || acc.any (fun u => key u == key t)) = true := by
        rw [Bool.or_eq_true, any_key_iff, any_key_iff]; exact fun h'' => h (List.mem_append.2 h'')
      rw [if_neg h', if_neg h, ih]
      simp

theorem odNew_eq (M : Sys Nat Nat) (key : Nat → Nat) (gen : List Nat) (s : Nat) :
    odNew M key gen s = newK key (gen.map key) (M.succB s) := by
  unfold odNew
  rw [odNew_fold]; simp

/-- the oracle state `o` and the machine state `s` agree: same pending states (as multisets), same generated keys (in
    order), same evaluated states (in order); the machine is idle; the `always` property `k` has no discovery -/
structure Sim (k : Nat) (o : List Nat × List Nat × List Nat) (s : St Nat Nat) : Prop where
  pend : (s.frontier.map (·.st)).Perm o.1
  gen : s.gen = o.2.1.map P.key
  ev : evaluated s = o.2.2
  act : s.active = []
  nodisc : hasDisc s.disc k = false

theorem sim_init (k : Nat) : Sim P k (odInit P.M P.key) (init P.M P.props P.key) := by
  refine ⟨?_, ?_, rfl, rfl, rfl⟩
  · simp only [init, odInit, List.map_map, List.map_reverse]
    have : (List.map ((fun x : Job Nat => x.st) ∘ fun s => ({ st := s, path := [s], ebits := initEbits P.props, depth := 1 } : Job Nat)) P.M.initB) = P.M.initB := by
      simp [Function.comp_def]
    rw [this]; exact List.reverse_perm _
  · simp only [init, odInit]; exact (odGen0_map P.M P.key).symm

variable {P}

theorem sim_miss {k : Nat} {o : List Nat × List Nat × List Nat} {s : St Nat Nat} {fp : Nat} (h : Sim P k o s)
    (hm : ∀ j ∈ s.frontier, P.key j.st ≠ fp) : odStep P.M P.key o fp = o := by
  have : o.1.findIdx? (fun x => P.key x == fp) = none := by
    rw [List.findIdx?_eq_none_iff]
    intro x hx
    have hx' := h.pend.mem_iff.2 hx
    obtain ⟨j, hj, rfl⟩ := List.mem_map.1 hx'
    simpa using hm j hj
  unfold odStep; rw [this]

/-- what the oracle's lookup returns, spelled out -/
theorem findIdx_spec {key : Nat → Nat} {l : List Nat} {fp i0 : Nat}
    (h : l.findIdx? (fun x => key x == fp) = some i0) :
    l[i0]? = some (l.getD i0 0) ∧ key (l.getD i0 0) = fp := by
  obtain ⟨hlt, hp, _⟩ := List.findIdx?_eq_some_iff_getElem.1 h
  have : l.getD i0 0 = l[i0] := by simp [List.getD_eq_getElem?_getD, hlt]
  rw [this]
  exact ⟨List.getElem?_eq_getElem hlt, by simpa using hp⟩

theorem evaluated_cons (s : St Nat Nat) (p : List Nat) (x : Nat) (hp : p.getLast? = some x) (vs : List (List Nat))
    (hv : vs = p :: s.visits) : vs.reverse.filterMap List.getLast? = evaluated s ++ [x] := by
  subst hv
  simp [evaluated, List.filterMap_append, hp]

theorem sim_hit {k : Nat} {pk : Prop' Nat} (hk : P.props[k]? = some pk) (hka : pk.exp = .always)
    (hall : ∀ t, P.M.Reach t → pk.cond t = true) (hmd : P.cfg.maxDepth = none)
    {o : List Nat × List Nat × List Nat} {s : St Nat Nat} {fp : Nat} (h : Sim P k o s) (hs : SInv P s)
    (i0 : Nat) (hi0 : o.1.findIdx? (fun x => P.key x == fp) = some i0)
    (i : Nat) (j : Job Nat) (hj : s.frontier[i]? = some j) (hst : j.st = o.1.getD i0 0)
    (w : List Choice) (hw : IsWork P j.st w) :
    Sim P k (odStep P.M P.key o fp) (runFrom P s (Choice.take i :: w)) := by
  have hjo := hs.fr j (List.mem_of_getElem? hj)
  have hreach : P.M.Reach j.st := Sys.reach_last_of_isPath hjo.path hjo.last
  obtain ⟨a1, a2, a3, a4, a5⟩ := run_work hk hka hmd s hs h.act h.nodisc i j hj (hall _ hreach) w hw
  obtain ⟨hget, _⟩ := findIdx_spec hi0
  unfold odStep; rw [hi0]; dsimp only
  rw [← hst, odNew_eq, ← h.gen]
  refine ⟨?_, ?_, ?_, a1, a5⟩
  · refine a2.trans (List.Perm.append_right _ ?_)
    have h1 := (perm_eraseIdx hj).map (fun x : Job Nat => x.st)
    have h2 := perm_eraseIdx hget
    rw [← hst] at h2
    simp only [List.map_cons] at h1
    exact ((h1.symm.trans h.pend).trans h2).cons_inv
  · rw [a3, h.gen, List.map_append]
  · show (runFrom P s (Choice.take i :: w)).visits.reverse.filterMap List.getLast? = _
    rw [evaluated_cons s j.path j.st hjo.last _ a4, h.ev]

/-- pending jobs with the same key are jobs of the same state (several occurrences of one initial state are allowed) -/
def FInj (P : Params Nat Nat Nat) (s : St Nat Nat) : Prop :=
  ∀ a ∈ s.frontier.map (·.st), ∀ b ∈ s.frontier.map (·.st), P.key a = P.key b → a = b

theorem newK_spec (key : Nat → Nat) : ∀ (l : List Nat) (g : List Nat),
    (∀ t ∈ newK key g l, key t ∉ g) ∧ ((newK key g l).map key).Nodup := by
  intro l
  induction l with
  | nil => intro g; simp [newK]
  | cons t rest ih =>
    intro g
    unfold newK
    by_cases h : key t ∈ g
    · rw [if_pos h]; exact ih g
    · rw [if_neg h]
      obtain ⟨h1, h2⟩ := ih (g ++ [key t])
      refine ⟨?_, ?_⟩
      · intro u hu
        rcases List.mem_cons.1 hu with rfl | hu
        · exact h
        · exact fun hg => h1 u hu (List.mem_append_left _ hg)
      · rw [List.map_cons, List.nodup_cons]
        refine ⟨?_, h2⟩
        intro hm
        obtain ⟨u, hu, hk⟩ := List.mem_map.1 hm
        exact h1 u hu (by rw [hk]; simp)

theorem eq_of_nodup_map (key : Nat → Nat) : ∀ (l : List Nat), (l.map key).Nodup → ∀ a ∈ l, ∀ b ∈ l,
    key a = key b → a = b := by
  intro l
  induction l with
  | nil => intro _ a ha; simp at ha
  | cons x xs ih =>
    intro hnd a ha b hb hk
    rw [List.map_cons, List.nodup_cons] at hnd
    rcases List.mem_cons.1 ha with ha' | ha' <;> rcases List.mem_cons.1 hb with hb' | hb'
    · rw [ha', hb']
    · subst ha'; exact absurd (List.mem_map.2 ⟨b, hb', hk.symm⟩) hnd.1
    · subst hb'; exact absurd (List.mem_map.2 ⟨a, ha', hk⟩) hnd.1
    · exact ih hnd.2 a ha' b hb' hk

theorem finj_init (hinit : ∀ a ∈ P.M.initB, ∀ b ∈ P.M.initB, P.key a = P.key b → a = b) :
    FInj P (init P.M P.props P.key) := by
  have : (init P.M P.props P.key).frontier.map (·.st) = P.M.initB.reverse := by
    simp [init, Function.comp_def]
  intro a ha b hb
  rw [this, List.mem_reverse] at ha hb
  exact hinit a ha b hb

/-- serving a request keeps `FInj`: the new jobs have fresh, pairwise distinct keys -/
theorem finj_hit {s s' : St Nat Nat} (hn : NInv P s) (hf : FInj P s) (i : Nat) (x : Nat)
    (hperm : (s'.frontier.map (·.st)).Perm ((s.frontier.eraseIdx i).map (·.st) ++ newK P.key s.gen (P.M.succB x))) :
    FInj P s' := by
  obtain ⟨hfresh, hnd⟩ := newK_spec P.key (P.M.succB x) s.gen
  have hold : ∀ a ∈ (s.frontier.eraseIdx i).map (·.st), a ∈ s.frontier.map (·.st) := by
    intro a ha
    obtain ⟨j, hj, rfl⟩ := List.mem_map.1 ha
    exact List.mem_map.2 ⟨j, List.mem_of_mem_eraseIdx hj, rfl⟩
  have hgen : ∀ a ∈ s.frontier.map (·.st), P.key a ∈ s.gen := fun a ha => hn.inGen a (List.mem_append_right _ ha)
  intro a ha b hb hk
  rcases List.mem_append.1 (hperm.mem_iff.1 ha) with ha | ha <;>
    rcases List.mem_append.1 (hperm.mem_iff.1 hb) with hb | hb
  · exact hf a (hold a ha) b (hold b hb) hk
  · exact absurd (hk ▸ hgen a (hold a ha)) (hfresh b hb)
  · exact absurd (hk ▸ hgen b (hold b hb)) (hfresh a ha)
  · exact eq_of_nodup_map P.key _ hnd a ha b hb hk

/-- **every session is the oracle** (needs: initial states with the same key are the same state, for the uniqueness of the
    state of the pending job) -/
theorem session_sim {k : Nat} {pk : Prop' Nat} (hk : P.props[k]? = some pk) (hka : pk.exp = .always)
    (hall : ∀ t, P.M.Reach t → pk.cond t = true) (hmd : P.cfg.maxDepth = none)
    {s : St Nat Nat} {reqs : List Nat} {cs : List Choice} (hsess : Session P s reqs cs) :
    ∀ o, Sim P k o s → SInv P s → NInv P s → FInj P s →
      Sim P k (reqs.foldl (odStep P.M P.key) o) (runFrom P s cs) := by
  induction hsess with
  | nil s => intro o h _ _ _; exact h
  | miss hm _ ih =>
    intro o h hs hn hf
    rw [List.foldl_cons, sim_miss h hm]
    exact ih o h hs hn hf
  | @hit s fp reqs cs i j w hj hkey hw _ ih =>
    intro o h hs hn hf
    rw [List.foldl_cons]
    have hrun : runFrom P s (Choice.take i :: w ++ cs) = runFrom P (runFrom P s (Choice.take i :: w)) cs :=
      runFrom_append _ _ _
    rw [hrun]
    have hjf : j.st ∈ s.frontier.map (·.st) := List.mem_map.2 ⟨j, List.mem_of_getElem? hj, rfl⟩
    have hjm : j.st ∈ o.1 := h.pend.mem_iff.1 hjf
    cases hi0 : o.1.findIdx? (fun x => P.key x == fp) with
    | none =>
      rw [List.findIdx?_eq_none_iff] at hi0
      have := hi0 _ hjm
      simp [hkey] at this
    | some i0 =>
      obtain ⟨hget, hk0⟩ := findIdx_spec hi0
      have hst : j.st = o.1.getD i0 0 :=
        hf _ hjf _ (h.pend.mem_iff.2 (List.mem_of_getElem? hget)) (hkey.trans hk0.symm)
      have hjo := hs.fr j (List.mem_of_getElem? hj)
      have hreach : P.M.Reach j.st := Sys.reach_last_of_isPath hjo.path hjo.last
      obtain ⟨_, a2, _, _, _⟩ := run_work hk hka hmd s hs h.act h.nodisc i j hj (hall _ hreach) w hw
      exact ih _ (sim_hit hk hka hall hmd h hs i0 hi0 i j hj hst w hw) (sinv_runFrom hs _) (ninv_runFrom hs hn _)
        (finj_hit hn hf i j.st a2)

/-- the canonical processing of a job: nothing stale, children queued at the back -/
def workOf (P : Params Nat Nat Nat) (x : Nat) : List Choice :=
  (List.replicate P.props.length false).map (Choice.evalProp 0) ++ Choice.finishProps 0 ::
    (if (P.M.succB x).isEmpty then List.replicate (P.props.length + 1) (Choice.record 0)
     else (List.replicate ((P.M.succB x).length + 1) false).map (Choice.expand 0))

theorem isWork_workOf (x : Nat) : IsWork P x (workOf P x) :=
  ⟨List.replicate P.props.length false, List.replicate ((P.M.succB x).length + 1) false, by simp, by simp, rfl⟩

/-- **the oracle is a session** (no injectivity needed): the machine can serve the requests so that its state agrees with
    the oracle's -/
theorem oracle_session {k : Nat} {pk : Prop' Nat} (hk : P.props[k]? = some pk) (hka : pk.exp = .always)
    (hall : ∀ t, P.M.Reach t → pk.cond t = true) (hmd : P.cfg.maxDepth = none) (reqs : List Nat) :
    ∀ (o : List Nat × List Nat × List Nat) (s : St Nat Nat), Sim P k o s → SInv P s →
    ∃ cs, Session P s reqs cs ∧ Sim P k (reqs.foldl (odStep P.M P.key) o) (runFrom P s cs) := by
  induction reqs with
  | nil => intro o s h _; exact ⟨[], Session.nil s, h⟩
  | cons fp reqs ih =>
    intro o s h hs
    rw [List.foldl_cons]
    cases hi0 : o.1.findIdx? (fun x => P.key x == fp) with
    | none =>
      have hm : ∀ j ∈ s.frontier, P.key j.st ≠ fp := by
        intro j hj
        rw [List.findIdx?_eq_none_iff] at hi0
        have := hi0 j.st (h.pend.mem_iff.1 (List.mem_map.2 ⟨j, hj, rfl⟩))
        simpa using this
      rw [sim_miss h hm]
      obtain ⟨cs, hc, hsim⟩ := ih o s h hs
      exact ⟨cs, Session.miss hm hc, hsim⟩
    | some i0 =>
      obtain ⟨hget, hk0⟩ := findIdx_spec hi0
      obtain ⟨j, hjm, hst⟩ := List.mem_map.1 (h.pend.mem_iff.2 (List.mem_of_getElem? hget))
      obtain ⟨i, hj⟩ := List.mem_iff_getElem?.1 hjm
      have hsim := sim_hit hk hka hall hmd h hs i0 hi0 i j hj hst (workOf P j.st) (isWork_workOf _)
      obtain ⟨cs, hc, hsim'⟩ := ih _ _ hsim (sinv_runFrom hs _)
      refine ⟨Choice.take i :: workOf P j.st ++ cs, Session.hit i j _ hj (hst ▸ hk0) (isWork_workOf _) hc, ?_⟩
      have hrun : runFrom P s (Choice.take i :: workOf P j.st ++ cs) =
          runFrom P (runFrom P s (Choice.take i :: workOf P j.st)) cs := runFrom_append _ _ _
      rw [hrun]; exact hsim'

end Tie

/-! ## Part 2: `state_count` of a complete run -/
section Count
variable {σ κ α : Type} [DecidableEq κ] (P : Params σ κ α)

/-- how many successors of its state an active worker has already counted -/
def progress (a : Active σ) : Nat :=
  match a.phase with
  | .expanding rest => (P.M.succB a.job.st).length - rest.length
  | _ => 0

def dsum (s : St σ κ) : Nat := (s.done.map fun t => (P.M.succB t).length).sum
def asum (s : St σ κ) : Nat := (s.active.map (progress P)).sum

/-- counting invariant: `state_count` = initial states + all successors of done states + the successors already handled
    by the active workers; and the jobs (pending, active, done) are the initial states (one per occurrence) plus one
    state per key generated later -/
structure KInv (s : St σ κ) : Prop where
  cnt : s.stateCount = P.M.initB.length + dsum P s + asum P s
  suf : ∀ a ∈ s.active, ∀ rest, a.phase = .expanding rest → rest.length ≤ (P.M.succB a.job.st).length
  jobs : ∃ extra, (jobStates s).Perm (P.M.initB ++ extra) ∧ s.gen = genInit P.key P.M.initB [] ++ extra.map P.key

def KInvE (s : St σ κ) : Prop := s.early = false → KInv P s

variable {P}

theorem kinv_init : KInvE P (init P.M P.props P.key) := by
  intro _
  refine ⟨by simp [init, dsum, asum], by simp [init], ⟨[], ?_, by simp [init]⟩⟩
  simp only [jobStates, init, List.map_map, List.map_nil, List.append_nil, List.map_reverse]
  have : (List.map ((fun x : Job σ => x.st) ∘ fun s => ({ st := s, path := [s], ebits := initEbits P.props, depth := 1 } : Job σ)) P.M.initB) = P.M.initB := by
    simp [Function.comp_def]
  rw [this]; exact List.reverse_perm _

theorem kinv_transfer {s s' : St σ κ} (h : KInv P s) (hg : s'.gen = s.gen) (hj : (jobStates s').Perm (jobStates s))
    (hc : s'.stateCount + dsum P s + asum P s = s.stateCount + dsum P s' + asum P s')
    (hsuf : ∀ a ∈ s'.active, ∀ rest, a.phase = .expanding rest → rest.length ≤ (P.M.succB a.job.st).length) :
    KInv P s' := by
  refine ⟨?_, hsuf, ?_⟩
  · have := h.cnt; omega
  · obtain ⟨extra, h1, h2⟩ := h.jobs
    exact ⟨extra, hj.trans h1, hg.trans h2⟩

theorem sum_map_set {β : Type} (g : β → Nat) {l : List β} {w : Nat} {a a' : β} (h : l[w]? = some a) :
    ((l.set w a').map g).sum + g a = (l.map g).sum + g a' := by
  induction l generalizing w with
  | nil => simp at h
  | cons x xs ih =>
    cases w with
    | zero => simp at h; subst h; simp; omega
    | succ w =>
      simp at h
      have := ih h
      simp only [List.set_cons_succ, List.map_cons, List.sum_cons]; omega

theorem sum_map_eraseIdx {β : Type} (g : β → Nat) {l : List β} {w : Nat} {a : β} (h : l[w]? = some a) :
    ((l.eraseIdx w).map g).sum + g a = (l.map g).sum := by
  have := ((perm_eraseIdx h).map g).sum_nat
  simp only [List.map_cons, List.sum_cons] at this; omega

/-- worker `w` replaced by a worker in the same state: same job states -/
theorem jobStates_set {s s' : St σ κ} {w : Nat} {a a' : Active σ} (ha : s.active[w]? = some a)
    (hst : a'.job.st = a.job.st) (hf : s'.frontier = s.frontier) (hact : s'.active = s.active.set w a')
    (hd : s'.done = s.done) : (jobStates s').Perm (jobStates s) := by
  unfold jobStates
  rw [hf, hact, hd, map_set_same (fun x : Active σ => x.job.st) ha hst]

/-- worker `w` retires into `done` -/
theorem jobStates_retire {s s' : St σ κ} {w : Nat} {a : Active σ} (ha : s.active[w]? = some a)
    (hf : s'.frontier = s.frontier) (hact : s'.active = s.active.eraseIdx w)
    (hd : s'.done = a.job.st :: s.done) : (jobStates s').Perm (jobStates s) := by
  unfold jobStates
  rw [hf, hact, hd, List.append_assoc, List.append_assoc]
  exact List.Perm.append_left _ (actDone_retire ha)

theorem suf_set {s : St σ κ} (h : KInv P s) {w : Nat} {a' : Active σ}
    (hnew : ∀ rest, a'.phase = .expanding rest → rest.length ≤ (P.M.succB a'.job.st).length) :
    ∀ a ∈ s.active.set w a', ∀ rest, a.phase = .expanding rest → rest.length ≤ (P.M.succB a.job.st).length := by
  intro a ha rest hr
  rcases mem_set_cases ha with ha | rfl
  · exact h.suf a ha rest hr
  · exact hnew rest hr

/-- worker `w` replaced by a worker in the same state with the same progress, nothing else that counts changes -/
theorem kinv_set_same {s s' : St σ κ} (h : KInv P s) {w : Nat} {a a' : Active σ} (ha : s.active[w]? = some a)
    (hact : s'.active = s.active.set w a')
    (hst : a'.job.st = a.job.st) (hp : progress P a' = progress P a)
    (hnew : ∀ rest, a'.phase = .expanding rest → rest.length ≤ (P.M.succB a'.job.st).length)
    (hg : s'.gen = s.gen) (hf : s'.frontier = s.frontier)
    (hd : s'.done = s.done) (hc : s'.stateCount = s.stateCount) : KInv P s' := by
  refine kinv_transfer h hg (jobStates_set ha hst hf hact hd) ?_ (by rw [hact]; exact suf_set h hnew)
  have := sum_map_set (progress P) (a' := a') ha
  simp only [dsum, asum, hd, hact, hc]; omega

theorem kinv_take (i : Nat) {s : St σ κ} (h : KInvE P s) : KInvE P (stepTake P i s) := by
  unfold stepTake
  split
  · exact h
  · rename_i j hj
    have taken : KInvE P ({ s with
        frontier := s.frontier.eraseIdx i
        maxDepth := max s.maxDepth j.depth
        visits := j.path :: s.visits
        active := s.active ++ [(⟨j, .props 0 false⟩ : Active σ)] } : St σ κ) := by
      intro he
      have k := h he
      refine kinv_transfer k rfl ?_ ?_ ?_
      · unfold jobStates
        dsimp only
        have h1 := (perm_eraseIdx hj).map (fun x : Job σ => x.st)
        simp only [List.map_cons] at h1
        simp only [List.map_append, List.map_cons, List.map_nil, List.append_assoc]
        refine (List.Perm.trans ?_ (List.Perm.append_right _ h1.symm))
        simp only [List.cons_append, List.nil_append]
        rw [← List.append_assoc, ← List.append_assoc]
        exact List.perm_middle
      · simp [dsum, asum, progress]
      · intro a ha rest hr
        rcases List.mem_append.1 ha with ha | ha
        · exact k.suf a ha rest hr
        · simp at ha; subst ha; simp at hr
    dsimp only
    split
    · split
      · intro he; simp at he
      · exact taken
    · exact taken

theorem kinv_evalProp (w : Nat) (b : Bool) {s : St σ κ} (h : KInvE P s) : KInvE P (stepEvalProp P w b s) := by
  unfold stepEvalProp
  split
  · rename_i j i aw ha
    split
    · exact h
    · split
      · intro he; exact kinv_set_same (h he) ha rfl (by rfl) (by rfl) (by intro _ hr; cases hr) rfl rfl rfl rfl
      · split
        · split
          · intro he; exact kinv_set_same (h he) ha rfl (by rfl) (by rfl) (by intro _ hr; cases hr) rfl rfl rfl rfl
          · intro he; exact kinv_set_same (h he) ha rfl (by rfl) (by rfl) (by intro _ hr; cases hr) rfl rfl rfl rfl
        · split
          · intro he; exact kinv_set_same (h he) ha rfl (by rfl) (by rfl) (by intro _ hr; cases hr) rfl rfl rfl rfl
          · intro he; exact kinv_set_same (h he) ha rfl (by rfl) (by rfl) (by intro _ hr; cases hr) rfl rfl rfl rfl
        · intro he
          exact kinv_set_same (h he) ha rfl (by dsimp only; split <;> rfl) (by rfl) (by intro _ hr; cases hr)
            rfl rfl rfl rfl
  · exact h

theorem kinv_finishProps (w : Nat) {s : St σ κ} (h : KInvE P s) : KInvE P (stepFinishProps P w s) := by
  unfold stepFinishProps
  split
  · rename_i j i aw ha
    split
    · exact h
    · split
      · intro he; simp at he
      · split
        · intro he
          exact kinv_set_same (h he) ha rfl (by rfl) (by rfl) (by intro _ hr; cases hr) rfl rfl rfl rfl
        · rename_i ss hss
          intro he
          refine kinv_set_same (h he) ha rfl (by rfl) ?_ ?_ rfl rfl rfl rfl
          · simp [progress]
          · intro rest hr; cases hr; exact Nat.le_refl _
  · exact h

theorem kinv_record (w : Nat) {s : St σ κ} (hc : CInv P s) (h : KInvE P s) : KInvE P (stepRecord P w s) := by
  unfold stepRecord
  split
  · rename_i j i ha
    split
    · dsimp only
      split
      · intro he
        exact kinv_set_same (h he) ha rfl (by rfl) (by rfl) (by intro _ hr; cases hr) rfl rfl rfl rfl
      · intro he
        exact kinv_set_same (h he) ha rfl (by rfl) (by rfl) (by intro _ hr; cases hr) rfl rfl rfl rfl
    · intro he
      have k := h he
      have hterm : P.M.succB j.st = [] := (hc he).actRec _ (List.mem_of_getElem? ha) i rfl
      refine kinv_transfer k rfl (jobStates_retire ha rfl rfl rfl) ?_ ?_
      · have := sum_map_eraseIdx (progress P) ha
        simp only [dsum, asum, List.map_cons, List.sum_cons, hterm, List.length_nil] at this ⊢
        simp only [progress] at this
        omega
      · intro a ha' rest hr
        exact k.suf a (List.mem_of_mem_eraseIdx ha') rest hr
  · exact h

theorem kinv_expand (w : Nat) (f : Bool) {s : St σ κ} (h : KInvE P s) : KInvE P (stepExpand P w f s) := by
  unfold stepExpand
  split
  · rename_i j rest ha
    have ham : (⟨j, .expanding rest⟩ : Active σ) ∈ s.active := List.mem_of_getElem? ha
    split
    · intro he
      have k := h he
      refine kinv_transfer k rfl (jobStates_retire ha rfl rfl rfl) ?_ ?_
      · have := sum_map_eraseIdx (progress P) ha
        simp only [dsum, asum, List.map_cons, List.sum_cons] at this ⊢
        simp only [progress, List.length_nil, Nat.sub_zero] at this
        omega
      · intro a ha' rest hr
        exact k.suf a (List.mem_of_mem_eraseIdx ha') rest hr
    · rename_i t rest'
      dsimp only
      have hprog : ∀ k : KInv P s, progress P ⟨j, .expanding rest'⟩ = progress P ⟨j, .expanding (t :: rest')⟩ + 1 := by
        intro k
        have := k.suf _ ham _ rfl
        simp only [progress, List.length_cons] at this ⊢
        omega
      have hsuf : ∀ k : KInv P s, ∀ a ∈ s.active.set w ⟨j, .expanding rest'⟩, ∀ rest, a.phase = .expanding rest →
          rest.length ≤ (P.M.succB a.job.st).length := by
        intro k
        refine suf_set k ?_
        intro rest hr; cases hr
        have := k.suf _ ham _ rfl
        simp only [List.length_cons] at this
        exact Nat.le_of_succ_le this
      have hcnt : ∀ k : KInv P s, (s.stateCount + 1) + dsum P s + asum P s = s.stateCount + dsum P s +
          ((s.active.set w ⟨j, .expanding rest'⟩).map (progress P)).sum := by
        intro k
        have := sum_map_set (progress P) (a' := ⟨j, .expanding rest'⟩) ha
        rw [hprog k] at this
        simp only [asum]; omega
      split
      · intro he
        have k := h he
        exact kinv_transfer k rfl (jobStates_set ha (by rfl) rfl rfl rfl) (hcnt k) (hsuf k)
      · intro he
        have k := h he
        refine ⟨?_, hsuf k, ?_⟩
        · have := k.cnt
          have := hcnt k
          simp only [dsum, asum] at *
          omega
        · obtain ⟨extra, h1, h2⟩ := k.jobs
          refine ⟨extra ++ [t], ?_, by rw [h2]; simp⟩
          have hst : ∀ fr : List (Job σ), (fr.map (·.st)).Perm (t :: s.frontier.map (·.st)) →
              (jobStates ({ s with
                stateCount := s.stateCount + 1
                gen := s.gen ++ [P.key t]
                frontier := fr
                active := s.active.set w ⟨j, .expanding rest'⟩ } : St σ κ)).Perm (t :: jobStates s) := by
            intro fr hfr
            unfold jobStates
            dsimp only
            rw [map_set_same (fun x : Active σ => x.job.st) ha (by rfl), List.append_assoc, List.append_assoc]
            exact List.Perm.append_right _ hfr
          have hfr : ((if f then { st := t, path := j.path ++ [t], ebits := j.ebits, depth := j.depth + 1 } :: s.frontier
                else s.frontier ++ [{ st := t, path := j.path ++ [t], ebits := j.ebits, depth := j.depth + 1 }]).map
                (fun x : Job σ => x.st)).Perm (t :: s.frontier.map (·.st)) := by
            cases f
            · simp only [Bool.false_eq_true, if_false, List.map_append, List.map_cons, List.map_nil]
              exact List.perm_append_singleton _ _
            · simp only [if_true, List.map_cons]
              exact List.Perm.refl _
          refine (hst _ hfr).trans ?_
          rw [← List.append_assoc]
          exact ((List.Perm.cons t h1).trans (List.perm_append_singleton t _).symm)
  · exact h

theorem kinv_step (c : Choice) {s : St σ κ} (hc : CInv P s) (h : KInvE P s) : KInvE P (step P c s) := by
  cases c with
  | take i => exact kinv_take i h
  | evalProp w b => exact kinv_evalProp w b h
  | finishProps w => exact kinv_finishProps w h
  | expand w f => exact kinv_expand w f h
  | record w => exact kinv_record w hc h
  | stop why =>
    show KInvE P (stepStop P why s)
    unfold stepStop; split
    · intro he
      exact kinv_transfer (h he) rfl (List.Perm.refl _) rfl (h he).suf
    · exact h
  | dropJob i =>
    show KInvE P (stepDropJob P i s)
    unfold stepDropJob; split
    · split
      · exact h
      · intro he; simp at he
    · exact h
  | abandon w =>
    show KInvE P (stepAbandon w s)
    unfold stepAbandon; split
    · split
      · exact h
      · intro he; simp at he
    · exact h

theorem kinv_run (cs : List Choice) : KInvE P (run P cs) := by
  have : SInv P (run P cs) ∧ CInv P (run P cs) ∧ KInvE P (run P cs) :=
    runFrom_induction (fun s => SInv P s ∧ CInv P s ∧ KInvE P s)
      (fun c _ h => ⟨sinv_step c h.1, cinv_step c h.1 h.2.1, kinv_step c h.2.1 h.2.2⟩) _
      ⟨sinv_init, cinv_init, kinv_init⟩ cs
  exact this.2.2

/-- **`state_count` of a complete run**: the initial states, plus the successors of every initial state (once per
    occurrence), plus the successors of every other reachable state (once) -/
theorem stateCount_complete (hinj : ∀ a b, P.M.Reach a → P.M.Reach b → P.key a = P.key b → a = b)
    (cs : List Choice) (hq : Quiescent (run P cs)) (he : (run P cs).early = false) :
    ∃ extra : List σ, extra.Nodup ∧ (∀ t, t ∈ extra ↔ P.M.Reach t ∧ t ∉ P.M.initB) ∧
      (run P cs).stateCount = P.M.initB.length + (P.M.initB.map fun t => (P.M.succB t).length).sum
        + (extra.map fun t => (P.M.succB t).length).sum := by
  have k := kinv_run (P := P) cs he
  have c := cinv_run (P := P) cs he
  have n := ninv_run (P := P) cs
  obtain ⟨extra, hperm, hgen⟩ := k.jobs
  have hjs : jobStates (run P cs) = (run P cs).done := by simp [jobStates, hq.1, hq.2]
  rw [hjs] at hperm
  have hnd := n.genNodup
  rw [hgen] at hnd
  obtain ⟨_, hnd2, hdisj⟩ := List.nodup_append.1 hnd
  have hreach : ∀ t ∈ extra, P.M.Reach t := fun t ht =>
    c.doneReach t (hperm.mem_iff.2 (List.mem_append_right _ ht))
  refine ⟨extra, List.Pairwise.of_map P.key (fun a b hne hab => hne (congrArg P.key hab)) hnd2, ?_, ?_⟩
  · intro t
    constructor
    · intro ht
      refine ⟨hreach t ht, fun hi => ?_⟩
      exact hdisj _ ((genInit_spec P.key P.M.initB []).2.1 t hi) _ (List.mem_map.2 ⟨t, ht, rfl⟩) rfl
    · rintro ⟨hr, hni⟩
      have hk : P.key t ∈ (run P cs).gen := ((C01.C01_exact P hinj cs hq he).2.2 _).2 ⟨t, hr, rfl⟩
      rw [hgen] at hk
      rcases List.mem_append.1 hk with hk | hk
      · rcases (genInit_spec P.key P.M.initB []).2.2 _ hk with h | ⟨t0, ht0, hkey⟩
        · simp at h
        · have := hinj _ _ (Sys.Reach.init ht0) hr hkey
          exact absurd (this ▸ ht0) hni
      · obtain ⟨u, hu, hkey⟩ := List.mem_map.1 hk
        have := hinj _ _ (hreach u hu) hr hkey
        exact this ▸ hu
  · have h1 := k.cnt
    have h2 := (hperm.map fun t => (P.M.succB t).length).sum_nat
    have h3 : asum P (run P cs) = 0 := by simp [asum, hq.2]
    simp only [dsum] at h1
    rw [List.map_append, List.sum_append_nat] at h2
    omega

end Count

/-! ### the formula `wantS` of `o-disc` -/

/-- the later occurrences of repeated elements, with their positions (`extra` of `o-disc`) -/
def dupOcc (l : List Nat) : List (Nat × Nat) := l.zipIdx.filter fun (s, i) => (l.take i).contains s

theorem dupOcc_snoc (l : List Nat) (a : Nat) :
    dupOcc (l ++ [a]) = dupOcc l ++ (if l.contains a then [(a, l.length)] else []) := by
  unfold dupOcc
  rw [List.zipIdx_append, List.filter_append]
  congr 1
  · apply List.filter_congr
    intro ⟨x, i⟩ hx
    have := (List.mem_zipIdx hx).2.1
    simp only
    rw [List.take_append_of_le_length (by omega)]
  · simp only [List.zipIdx_cons, List.zipIdx_nil, Nat.zero_add, List.filter_cons, List.filter_nil]
    rw [List.take_left' rfl]

theorem sum_dupOcc_aux (f : Nat → Nat) : ∀ (n : Nat) (l r : List Nat), l.length = n → r.Nodup → (∀ x, x ∈ r ↔ x ∈ l) →
    (l.map f).sum = (r.map f).sum + ((dupOcc l).map fun p => f p.1).sum := by
  intro n
  induction n with
  | zero =>
    intro l r hl _ hm
    have : l = [] := List.eq_nil_of_length_eq_zero hl
    subst this
    have : r = [] := List.eq_nil_iff_forall_not_mem.2 (fun x hx => by simpa using (hm x).1 hx)
    subst this
    simp [dupOcc]
  | succ n ih =>
    intro l r hl hr hm
    have hne : l ≠ [] := by intro e; subst e; simp at hl
    obtain ⟨l', a, rfl⟩ : ∃ l' a, l = l' ++ [a] := ⟨_, _, (List.dropLast_concat_getLast hne).symm⟩
    have hl' : l'.length = n := by simpa using hl
    rw [dupOcc_snoc]
    by_cases ha : a ∈ l'
    · have hm' : ∀ x, x ∈ r ↔ x ∈ l' := by
        intro x; rw [hm x]; simp only [List.mem_append, List.mem_singleton]
        constructor
        · rintro (h | rfl)
          · exact h
          · exact ha
        · exact Or.inl
      have := ih l' r hl' hr hm'
      have hc : l'.contains a = true := by simpa using ha
      simp only [hc, if_true, List.map_append, List.sum_append_nat, List.map_cons, List.map_nil, List.sum_cons,
        List.sum_nil]
      omega
    · have har : a ∈ r := (hm a).2 (by simp)
      have hp := List.perm_cons_erase har
      have hm' : ∀ x, x ∈ r.erase a ↔ x ∈ l' := by
        intro x
        rw [(hr.mem_erase_iff), hm x]
        simp only [List.mem_append, List.mem_singleton]
        constructor
        · rintro ⟨hne, h | rfl⟩
          · exact h
          · exact absurd rfl hne
        · intro h; exact ⟨fun e => ha (e ▸ h), Or.inl h⟩
      have := ih l' (r.erase a) hl' (hr.erase a) hm'
      have hs := (hp.map f).sum_nat
      have hc : l'.contains a = false := by simpa using ha
      simp only [hc, List.map_append, List.sum_append_nat, List.map_cons, List.map_nil, List.sum_cons,
        List.sum_nil] at hs ⊢
      simp
      omega


theorem sum_dupOcc (f : Nat → Nat) (l r : List Nat) (hr : r.Nodup) (hm : ∀ x, x ∈ r ↔ x ∈ l) :
    (l.map f).sum = (r.map f).sum + ((dupOcc l).map fun p => f p.1).sum :=
  sum_dupOcc_aux f l.length l r rfl hr hm

theorem sum_filter_split (f : Nat → Nat) (p : Nat → Bool) (l : List Nat) :
    (l.map f).sum = ((l.filter p).map f).sum + ((l.filter (fun x => !p x)).map f).sum := by
  induction l with
  | nil => rfl
  | cons x xs ih =>
    by_cases h : p x = true
    · simp only [List.filter_cons, h, if_true, Bool.not_true, Bool.false_eq_true, if_false, List.map_cons,
        List.sum_cons]; omega
    · simp only [Bool.not_eq_true] at h
      simp only [List.filter_cons, h, Bool.false_eq_true, if_false, Bool.not_false, if_true, List.map_cons,
        List.sum_cons]; omega

/-- the driver's `wantS` (Drv/C19.lean, used by `o-disc`), in the form of `stateCount_complete` -/
theorem wantS_eq (M : Sys Nat Nat) (reach extra : List Nat) (hr : reach.Nodup) (hrm : ∀ t, t ∈ reach ↔ M.Reach t)
    (he : extra.Nodup) (hem : ∀ t, t ∈ extra ↔ M.Reach t ∧ t ∉ M.initB) :
    wantS M reach = M.initB.length + (M.initB.map fun t => (M.succB t).length).sum
        + (extra.map fun t => (M.succB t).length).sum := by
  have h1 := sum_filter_split (fun t => (M.succB t).length) (fun t => M.initB.contains t) reach
  have h2 : ((reach.filter (fun x => !M.initB.contains x)).map fun t => (M.succB t).length).sum
      = (extra.map fun t => (M.succB t).length).sum := by
    apply List.Perm.sum_nat
    apply List.Perm.map
    rw [List.perm_ext_iff_of_nodup (hr.sublist List.filter_sublist) he]
    intro t
    simp [hrm, hem]
  have h3 := sum_dupOcc (fun t => (M.succB t).length) M.initB (reach.filter (fun t => M.initB.contains t))
    (hr.sublist List.filter_sublist) (by
      intro t
      simp only [List.mem_filter, hrm, List.contains_iff_mem]
      exact ⟨fun h => h.2, fun h => ⟨Sys.Reach.init h, h⟩⟩)
  show M.initB.length + (reach.map fun s => (M.succB s).length).sum
      + ((dupOcc M.initB).map fun (p : Nat × Nat) => (M.succB p.1).length).sum = _
  omega

/-! ### an executable session: the first pending job with the requested key, canonical processing -/

def serve (P : Params Nat Nat Nat) : St Nat Nat → List Nat → List Choice
  | _, [] => []
  | s, fp :: reqs =>
    match s.frontier.findIdx? (fun j => P.key j.st == fp) with
    | none => serve P s reqs
    | some i =>
      match s.frontier[i]? with
      | none => serve P s reqs
      | some j => Choice.take i :: workOf P j.st ++ serve P (runFrom P s (Choice.take i :: workOf P j.st)) reqs

theorem serve_session (P : Params Nat Nat Nat) (reqs : List Nat) : ∀ s, Session P s reqs (serve P s reqs) := by
  induction reqs with
  | nil => intro s; exact Session.nil s
  | cons fp reqs ih =>
    intro s
    unfold serve
    cases hi : s.frontier.findIdx? (fun j => P.key j.st == fp) with
    | none =>
      refine Session.miss ?_ (ih s)
      intro j hj
      rw [List.findIdx?_eq_none_iff] at hi
      simpa using hi j hj
    | some i =>
      obtain ⟨hlt, hp, _⟩ := List.findIdx?_eq_some_iff_getElem.1 hi
      have hget : s.frontier[i]? = some s.frontier[i] := List.getElem?_eq_getElem hlt
      simp only [hget]
      exact Session.hit i _ _ hget (by simpa using hp) (isWork_workOf _) (ih _)

end SR.C19OnDemand
