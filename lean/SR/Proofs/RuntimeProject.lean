import SR.Proofs.RuntimeAccept
import SR.Proofs.RuntimeRefines
import SR.Proofs.IdCodec
/-!
Projection of a run of the SYSTEM-level runtime (`SR/Runtime/System.lean`) onto one actor thread, as an event list
of the single-thread loop machine (`SR/Runtime/Loop.lean`), and the simulation argument: the projected events are
enabled steps of the loop machine and keep the loop state equal to thread `i`'s component of the system state.

Choices (the `Cfg` of the loop machine, `pcfg i`):
* messages are their own bytes: `ser m = some [m]`, `de [m] = some m` (anything else does not deserialise);
* ids are indices: thread `j` has socket address `addrOf j` (so `on_msg` sees `idOf (addrOf j) = j` for `j < 2^48`);
* `strict = false` (the acceptance machine), `never` / `chooseSpan` the defaults (the constants `System.lean` uses);
* the model's `SetTimer t` has no range: it is the loop command `set t 0 never` (every duration below the horizon),
  so the pick `p` of the system label is the pick of the `exec` event (`0 + p % (never - 0) = p` as `now + p < never`).
-/
namespace SR.C17
open SR SR.Actor SR.RtSys SR.IdCodec

variable {σ η : Type}

abbrev LCmd := Loop.Cmd Nat Nat Nat
abbrev LEv (σ : Type) := Loop.Ev σ Nat Nat Nat
abbrev LSt (σ : Type) := Loop.St σ Nat Nat Nat

/-- a command of the handler tables as a `Command<Msg, Timer, Random>` of the loop machine -/
def trCmd : Cmd → LCmd
  | .send d m => .send d m
  | .setTimer t => .set t 0 never
  | .cancelTimer t => .cancel t
  | .chooseRandom k vals => .choose (toString k) vals

/-- a datagram is one number -/
def deOne : Loop.Bytes → Option Nat
  | [m] => some m
  | _ => none

/-- the loop machine of thread `i` -/
def pcfg (i : Nat) : Loop.Cfg Nat :=
  { id := i, ser := fun m => some [m], de := deOne, strict := false }

/-- the picks the `exec` events carry: the label's (`x = true`) or none, i.e. all `0` (`x = false`: what the
acceptance predicate `Loop.expand` re-inserts) -/
def pk (x : Bool) (p : List Nat) : List Nat := if x then p else []

/-- one `exec` per command, at the handler's clock reading, one pick per command (0 when the picks run out) -/
def execEvs (now : Nat) : List Cmd → List Nat → List (LEv σ)
  | [], _ => []
  | _ :: cs, ps => .exec now (ps.headD 0) :: execEvs now cs ps.tail

/-- the handler event of thread `i` a system step stands for (with what the tables return), the commands it emits
and the picks of the label; `none`: the step is not a step of thread `i` (or the tables give no result) -/
def hdl (sys : ActorSys σ η) (i : Nat) (rs : RSt σ η) : Lbl → Option (LEv σ × List Cmd × List Nat)
  | .start j picks =>
    if j = i then
      some (.start rs.now ((sys.actor i).start i).1 (((sys.actor i).start i).2.map trCmd),
            ((sys.actor i).start i).2, picks)
    else none
  | .deliver e _ picks =>
    if e.dst = i then
      match rs.st i with
      | none => none
      | some s =>
        match (sys.actor i).msg i s e.src e.msg with
        | .panic => none
        | .ok ns cmds => some (.msg rs.now (addrOf e.src) [e.msg] s (ns.getD s) (cmds.map trCmd), cmds, picks)
    else none
  | .fire j k picks =>
    if j = i then
      match rs.st i with
      | none => none
      | some s =>
        match handlerK sys i s k with
        | .panic => none
        | .ok ns cmds => some (.fire rs.now k s (ns.getD s) (cmds.map trCmd), cmds, picks)
    else none
  | .lose _ => none
  | .tick _ => none

/-- the loop events of thread `i` for ONE system step taken in `rs` -/
def projStep (sys : ActorSys σ η) (i : Nat) (x : Bool) (rs : RSt σ η) (l : Lbl) : List (LEv σ) :=
  match hdl sys i rs l with
  | none => []
  | some (hv, cmds, picks) => hv :: execEvs rs.now cmds (pk x picks)

/-- the loop events of thread `i` along a system run from `rs` -/
def projFrom (sys : ActorSys σ η) (i : Nat) (x : Bool) : RSt σ η → List Lbl → List (LEv σ)
  | _, [] => []
  | rs, l :: ls =>
    projStep sys i x rs l ++ (match rstep sys rs l with
      | some rs' => projFrom sys i x rs' ls
      | none => [])

/-- the loop state `a` is thread `i` of `rs` (between handlers); the interrupt tables agree up to lower bounds,
and exactly when `E` holds -/
structure Match (E : Prop) (i : Nat) (rs : RSt σ η) (a : LSt σ) : Prop where
  alive : a.dead = false
  queue : a.queue = []
  now : a.now ≤ rs.now
  st : a.st = rs.st i
  le : Loop.IntsLe (rs.ints i) a.ints
  eq : E → a.ints = rs.ints i

theorem never_pos : 0 < never := by decide

theorem pk_tail (x : Bool) (p : List Nat) : (pk x p).tail = pk x p.tail := by cases x <;> rfl

theorem pk_head_le (x : Bool) (p : List Nat) : (pk x p).headD 0 % never ≤ p.headD 0 := by
  cases x
  · simp [pk]
  · exact Nat.mod_le _ _

theorem relax_pcfg (i : Nat) : Loop.relax (pcfg i) = pcfg i := rfl

/-! ### interrupt tables up to lower bounds -/

theorem intsLe_refl (S : Ints) : Loop.IntsLe S S := fun _ d h => ⟨d, h, Nat.le_refl _⟩

theorem intsLe_setInt {S A : Ints} {k : Key} {v v' : Nat} (h : Loop.IntsLe S A) (hv : v' ≤ v) :
    Loop.IntsLe (Loop.setInt S k v) (Loop.setInt A k v') := by
  intro k1 d hm
  rcases Loop.mem_setInt hm with ⟨hne, hin⟩ | heq
  · obtain ⟨d', h', hle⟩ := h k1 d hin
    exact ⟨d', Loop.mem_setInt_of_ne h' hne, hle⟩
  · injection heq with h1 h2
    subst h1; subst h2
    exact ⟨v', Loop.mem_setInt_self _ _ _, hv⟩

theorem intsLe_modInt {S A : Ints} {k : Key} {v v' : Nat} (h : Loop.IntsLe S A) (hv : v' ≤ v) :
    Loop.IntsLe (Loop.modInt S k v) (Loop.modInt A k v') := by
  intro k1 d hm
  rcases Loop.mem_modInt hm with ⟨hne, hin⟩ | ⟨heq, d0, hin⟩
  · obtain ⟨d', h', hle⟩ := h k1 d hin
    exact ⟨d', Loop.mem_modInt_of_ne h' hne, hle⟩
  · injection heq with h1 h2
    subst h1; subst h2
    obtain ⟨d0', h0', _⟩ := h _ d0 hin
    exact ⟨v', Loop.mem_modInt_self _ h0', hv⟩

theorem intsLe_eraseInt {S A : Ints} (k : Key) (h : Loop.IntsLe S A) :
    Loop.IntsLe (Loop.eraseInt S k) (Loop.eraseInt A k) := by
  intro k1 d hm
  obtain ⟨hin, hne⟩ := Loop.mem_eraseInt.1 hm
  obtain ⟨d', h', hle⟩ := h k1 d hin
  exact ⟨d', Loop.mem_eraseInt.2 ⟨h', hne⟩, hle⟩

/-! ### one command -/

/-- the acceptance machine's table stays a lower bound of the system's, whatever the command -/
theorem execCmd_le (i now p q : Nat) (c : Cmd) (L : Loc) (b : LSt σ) (h : Loop.IntsLe L.ints b.ints)
    (hq : q % never ≤ p) :
    Loop.IntsLe (RtSys.execCmd i now L p c).ints (Loop.execCmd (pcfg i) b (trCmd c) now q).ints := by
  cases c with
  | send d m => exact h
  | setTimer t =>
    simp only [RtSys.execCmd, trCmd, Loop.execCmd, if_pos never_pos, Nat.zero_add, Nat.sub_zero]
    exact intsLe_setInt h (Nat.add_le_add_left hq _)
  | cancelTimer t =>
    simp only [RtSys.execCmd, trCmd, Loop.execCmd]
    exact intsLe_modInt h (Nat.le_refl _)
  | chooseRandom key vals =>
    cases vals with
    | nil => exact h
    | cons v0 rest =>
      simp only [RtSys.execCmd, trCmd, Loop.execCmd, pcfg, Bool.false_eq_true, if_false]
      intro k d hm
      rcases Loop.mem_setInt hm with ⟨hne, hin⟩ | heq
      · obtain ⟨d', h', hle⟩ := h k d hin
        obtain ⟨d2, h2, hle2⟩ := Loop.foldl_armMin_le (vals := v0 :: rest) (t := now) h'
        exact ⟨d2, h2, Nat.le_trans hle2 hle⟩
      · injection heq with h1 h2
        subst h1
        have hv : (v0 :: rest).getD (p % (v0 :: rest).length) v0 ∈ v0 :: rest := by
          have hlt : p % (v0 :: rest).length < (v0 :: rest).length := Nat.mod_lt _ (by simp)
          simp only [List.getD, List.getElem?_eq_getElem hlt, Option.getD_some]
          exact List.getElem_mem _
        obtain ⟨d', h', hle⟩ := Loop.foldl_armMin_mem (ints := b.ints) (t := now) hv
        exact ⟨d', h', by subst h2; omega⟩

/-- without `ChooseRandom`, with the label's pick: the same table -/
theorem execCmd_eq (i now p : Nat) (c : Cmd) (L : Loc) (b : LSt σ) (h : b.ints = L.ints)
    (hc : isChoose c = false) (hp : p < never) :
    (Loop.execCmd (pcfg i) b (trCmd c) now p).ints = (RtSys.execCmd i now L p c).ints := by
  cases c with
  | send d m => exact h
  | setTimer t =>
    simp only [RtSys.execCmd, trCmd, Loop.execCmd, if_pos never_pos, Nat.zero_add, Nat.sub_zero,
      Nat.mod_eq_of_lt hp, h]
  | cancelTimer t =>
    simp only [RtSys.execCmd, trCmd, Loop.execCmd, h]
    rfl
  | chooseRandom key vals => simp [isChoose] at hc

theorem lrun_append [DecidableEq σ] (C : Loop.Cfg Nat) (s : LSt σ) (es1 es2 : List (LEv σ)) :
    Loop.run C s (es1 ++ es2) = (Loop.run C s es1).bind (fun s' => Loop.run C s' es2) := by
  induction es1 generalizing s with
  | nil => rfl
  | cons e r ih =>
    simp only [List.cons_append, Loop.run]
    cases Loop.step C s e with
    | none => rfl
    | some s1 => exact ih s1

theorem step_exec_eq [DecidableEq σ] (C : Loop.Cfg Nat) (b : LSt σ) (c : LCmd) (q : List LCmd) (t pick : Nat)
    (hq : b.queue = c :: q) (hd : b.dead = false) (hn : b.now ≤ t) :
    Loop.step C b (.exec t pick) = some (Loop.execCmd C { b with now := t, queue := q } c t pick) := by
  simp [Loop.step, hq, hd, hn]

theorem step_start_ok [DecidableEq σ] (C : Loop.Cfg Nat) (a : LSt σ) (t : Nat) (out : σ) (cmds : List LCmd)
    (hd : a.dead = false) (hst : a.st = none) (hq : a.queue = []) (hn : a.now ≤ t) :
    ∃ b, Loop.step C a (.start t out cmds) = some b ∧ b.queue = cmds ∧ b.dead = false ∧ b.now = t ∧
      b.st = some out ∧ b.ints = a.ints := by
  simp [Loop.step, hd, hst, hq, hn]

theorem step_msg_ok [DecidableEq σ] (C : Loop.Cfg Nat) (a : LSt σ) (t : Nat) (ad : Addr) (b : Loop.Bytes) (m : Nat)
    (stIn out : σ) (cmds : List LCmd) (hde : C.de b = some m) (hrb : Loop.recvBranch C a = true)
    (hd : a.dead = false) (hst : a.st = some stIn) (hq : a.queue = []) (hn : a.now ≤ t) :
    ∃ b', Loop.step C a (.msg t ad b stIn out cmds) = some b' ∧ b'.queue = cmds ∧ b'.dead = false ∧ b'.now = t ∧
      b'.st = some out ∧ b'.ints = a.ints := by
  simp [Loop.step, hde, hrb, hd, hst, hq, hn]

theorem step_fire_ok [DecidableEq σ] (C : Loop.Cfg Nat) (a : LSt σ) (t : Nat) (k : Key) (stIn out : σ)
    (cmds : List LCmd) (hd : a.dead = false) (hst : a.st = some stIn) (hq : a.queue = []) (hn : a.now ≤ t)
    (hf : Loop.fireable C a k t = true) :
    ∃ b, Loop.step C a (.fire t k stIn out cmds) = some b ∧ b.queue = cmds ∧ b.dead = false ∧ b.now = t ∧
      b.st = some out ∧ b.ints = Loop.eraseInt a.ints k := by
  simp [Loop.step, hd, hst, hq, hn, hf]

theorem picksOk_tail {now : Nat} {p : List Nat} (h : picksOk now p = true) :
    p.headD 0 < never ∧ picksOk now p.tail = true := by
  cases p with
  | nil => exact ⟨never_pos, rfl⟩
  | cons a r =>
    simp only [picksOk, List.all_cons, Bool.and_eq_true, decide_eq_true_eq] at h
    exact ⟨by simp only [List.headD_cons]; omega, by simpa [picksOk] using h.2⟩

/-! ### the commands of one handler -/

theorem run_execs [DecidableEq σ] (i now : Nat) (x : Bool) :
    ∀ (cmds : List Cmd) (p : List Nat) (L : Loc) (b : LSt σ),
      b.queue = cmds.map trCmd → b.dead = false → b.now = now →
      ∃ b', Loop.run (pcfg i) b (execEvs now cmds (pk x p)) = some b' ∧ b'.queue = [] ∧ b'.dead = false ∧
        b'.now = now ∧ b'.st = b.st ∧
        (Loop.IntsLe L.ints b.ints → Loop.IntsLe (execCmds i now cmds p L).ints b'.ints) ∧
        (x = true → b.ints = L.ints → NoChoose cmds → picksOk now p = true →
          b'.ints = (execCmds i now cmds p L).ints) := by
  intro cmds
  induction cmds with
  | nil =>
    intro p L b hq hd hn
    exact ⟨b, rfl, by simpa using hq, hd, hn, rfl, fun h => h, fun _ h _ _ => h⟩
  | cons c cs ih =>
    intro p L b hq hd hn
    have hstep := step_exec_eq (pcfg i) b (trCmd c) (cs.map trCmd) now ((pk x p).headD 0)
      (by simpa using hq) hd (Nat.le_of_eq hn)
    obtain ⟨_, f2, _, f4, f5, f6⟩ :=
      Loop.execCmd_frame (pcfg i) { b with now := now, queue := cs.map trCmd } (trCmd c) now ((pk x p).headD 0)
    obtain ⟨b', hrun, h1, h2, h3, h4, h5, h6⟩ :=
      ih p.tail (RtSys.execCmd i now L (p.headD 0) c) _ f4 (by rw [f6]; exact hd) f5
    refine ⟨b', ?_, h1, h2, h3, by rw [h4, f2], ?_, ?_⟩
    · simp only [execEvs, Loop.run, hstep, pk_tail]
      exact hrun
    · intro hle
      rw [execCmds]
      exact h5 (execCmd_le i now _ _ c L _ hle (pk_head_le x p))
    · intro hx heq hnc hp
      rw [execCmds]
      obtain ⟨hp1, hp2⟩ := picksOk_tail hp
      refine h6 hx ?_ (fun c' h => hnc c' (List.mem_cons_of_mem _ h)) hp2
      subst hx
      exact execCmd_eq i now _ c L _ heq (hnc c List.mem_cons_self) hp1

/-! ### one system step -/

theorem Match.congr {E : Prop} {i : Nat} {rs rs' : RSt σ η} {a : LSt σ} (hm : Match E i rs a)
    (hn : rs.now ≤ rs'.now) (hs : rs'.st i = rs.st i) (hi : rs'.ints i = rs.ints i) : Match E i rs' a :=
  ⟨hm.alive, hm.queue, Nat.le_trans hm.now hn, by rw [hs]; exact hm.st, by rw [hi]; exact hm.le,
    fun e => by rw [hi]; exact hm.eq e⟩

theorem match_frame {E : Prop} {i j : Nat} {rs : RSt σ η} {a : LSt σ} (hm : Match E i rs a) (hj : j ≠ i)
    (s' : σ) (ints0 : Ints) (fl0 : List Env) (last : Option Env) (hist : η) (cmds : List Cmd) (picks : List Nat) :
    Match E i (finish rs j s' ints0 fl0 last hist cmds picks) a :=
  hm.congr (Nat.le_refl _) (by simp [finish, upd, Ne.symm hj]) (by simp [finish, upd, Ne.symm hj])

/-- after the handler event: the commands are executed on both sides -/
theorem sim_finish [DecidableEq σ] (i : Nat) (x : Bool) (E : Prop) (rs : RSt σ η) (b : LSt σ) (s' : σ)
    (ints0 : Ints) (fl0 : List Env) (last : Option Env) (hist : η) (cmds : List Cmd) (picks : List Nat)
    (hq : b.queue = cmds.map trCmd) (hd : b.dead = false) (hn : b.now = rs.now) (hs : b.st = some s')
    (hle : Loop.IntsLe ints0 b.ints) (heq : E → b.ints = ints0) (hx : E → x = true) (hnc : E → NoChoose cmds)
    (hp : picksOk rs.now picks = true) :
    ∃ a', Loop.run (pcfg i) b (execEvs rs.now cmds (pk x picks)) = some a' ∧
      Match E i (finish rs i s' ints0 fl0 last hist cmds picks) a' := by
  obtain ⟨b', hrun, h1, h2, h3, h4, h5, h6⟩ := run_execs i rs.now x cmds picks ⟨ints0, fl0⟩ b hq hd hn
  refine ⟨b', hrun, h2, h1, Nat.le_of_eq h3, ?_, ?_, ?_⟩
  · simp [finish, upd, h4, hs]
  · simpa [finish, upd] using h5 hle
  · intro e
    simpa [finish, upd] using h6 (hx e) (heq e) (hnc e) hp

theorem sim_step [DecidableEq σ] (sys : ActorSys σ η) (i : Nat) (x : Bool) (E : Prop) {rs rs' : RSt σ η}
    {a : LSt σ} {l : Lbl} (hm : Match E i rs a) (h : rstep sys rs l = some rs')
    (hx : E → x = true)
    (hnc : E → ∀ hv cmds picks, hdl sys i rs l = some (hv, cmds, picks) → NoChoose cmds) :
    ∃ a', Loop.run (pcfg i) a (projStep sys i x rs l) = some a' ∧ Match E i rs' a' := by
  cases l with
  | tick t =>
    simp only [rstep] at h
    split at h
    · rename_i hg; cases h
      exact ⟨a, rfl, hm.congr hg.1 rfl rfl⟩
    · cases h
  | lose e =>
    simp only [rstep] at h
    split at h
    · cases h; exact ⟨a, rfl, hm.congr (Nat.le_refl _) rfl rfl⟩
    · cases h
  | start j picks =>
    simp only [rstep] at h
    split at h
    · rename_i hg; cases h
      by_cases hj : j = i
      · subst hj
        have hh : hdl sys j rs (.start j picks) = some (.start rs.now ((sys.actor j).start j).1
            (((sys.actor j).start j).2.map trCmd), ((sys.actor j).start j).2, picks) := by simp [hdl]
        have hst : a.st = none := by rw [hm.st]; exact hg.2.1
        obtain ⟨b, hs1, b1, b2, b3, b4, b5⟩ := step_start_ok (pcfg j) a rs.now ((sys.actor j).start j).1
          (((sys.actor j).start j).2.map trCmd) hm.alive hst hm.queue hm.now
        simp only [projStep, hh, Loop.run, hs1]
        exact sim_finish j x E rs b _ _ _ _ _ _ _ b1 b2 b3 b4 (by rw [b5]; exact hm.le)
          (fun e => by rw [b5]; exact hm.eq e) hx (fun e => hnc e _ _ _ hh) hg.2.2
      · have hh : hdl sys i rs (.start j picks) = none := by simp [hdl, hj]
        simp only [projStep, hh, Loop.run]
        exact ⟨a, rfl, match_frame hm hj _ _ _ _ _ _ _⟩
    · cases h
  | deliver e keep picks =>
    simp only [rstep] at h
    split at h
    · cases h
    · rename_i s hs
      split at h
      · rename_i hg
        split at h
        · cases h
        · rename_i ns cmds hres
          cases h
          by_cases hj : e.dst = i
          · subst hj
            have hh : hdl sys e.dst rs (.deliver e keep picks) = some (.msg rs.now (addrOf e.src) [e.msg] s
                (ns.getD s) (cmds.map trCmd), cmds, picks) := by simp [hdl, hs, hres]
            have hst : a.st = some s := by rw [hm.st]; exact hs
            obtain ⟨b, hs1, b1, b2, b3, b4, b5⟩ := step_msg_ok (pcfg e.dst) a rs.now (addrOf e.src) [e.msg]
              e.msg s (ns.getD s) (cmds.map trCmd) rfl rfl hm.alive hst hm.queue hm.now
            simp only [projStep, hh, Loop.run, hs1]
            exact sim_finish e.dst x E rs b _ _ _ _ _ _ _ b1 b2 b3 b4 (by rw [b5]; exact hm.le)
              (fun e' => by rw [b5]; exact hm.eq e') hx (fun e' => hnc e' _ _ _ hh) hg.2.2
          · have hh : hdl sys i rs (.deliver e keep picks) = none := by simp [hdl, hj]
            simp only [projStep, hh, Loop.run]
            exact ⟨a, rfl, match_frame hm hj _ _ _ _ _ _ _⟩
      · cases h
  | fire j k picks =>
    simp only [rstep] at h
    split at h
    · cases h
    · rename_i s hs
      split at h
      · rename_i hg
        split at h
        · cases h
        · rename_i ns cmds hres
          cases h
          by_cases hj : j = i
          · subst hj
            have hh : hdl sys j rs (.fire j k picks) = some (.fire rs.now k s (ns.getD s) (cmds.map trCmd),
                cmds, picks) := by simp [hdl, hs, hres]
            have hst : a.st = some s := by rw [hm.st]; exact hs
            have hfa : Loop.fireable (pcfg j) a k rs.now = true := by
              have hf := hg.2.1
              simp only [List.any_eq_true, Bool.and_eq_true, decide_eq_true_eq] at hf
              obtain ⟨⟨k0, d⟩, hin, hk0, hd⟩ := hf
              simp only at hk0 hd
              subst hk0
              obtain ⟨d', h', hle⟩ := hm.le _ d hin
              simp only [Loop.fireable, List.any_eq_true, Bool.and_eq_true, decide_eq_true_eq]
              exact ⟨(k0, d'), h', ⟨rfl, by simp only; omega⟩, by simp [pcfg]⟩
            obtain ⟨b, hs1, b1, b2, b3, b4, b5⟩ := step_fire_ok (pcfg j) a rs.now k s (ns.getD s)
              (cmds.map trCmd) hm.alive hst hm.queue hm.now hfa
            simp only [projStep, hh, Loop.run, hs1]
            exact sim_finish j x E rs b _ _ _ _ _ _ _ b1 b2 b3 b4 (by rw [b5]; exact intsLe_eraseInt k hm.le)
              (fun e' => by rw [b5, hm.eq e']) hx (fun e' => hnc e' _ _ _ hh) hg.2.2
          · have hh : hdl sys i rs (.fire j k picks) = none := by simp [hdl, hj]
            simp only [projStep, hh, Loop.run]
            exact ⟨a, rfl, match_frame hm hj _ _ _ _ _ _ _⟩
      · cases h

/-! ### runs -/

/-- under `NoRandom` the commands of every enabled handler step are `ChooseRandom`-free (a `Random` interrupt never
exists, so `on_random` never runs) -/
theorem hdl_noChoose {sys : ActorSys σ η} (hr : NoRandom sys) {i : Nat} {rs rs' : RSt σ η} {l : Lbl}
    (hinv : Inv sys rs) (h : rstep sys rs l = some rs') {hv : LEv σ} {cmds : List Cmd} {picks : List Nat}
    (hh : hdl sys i rs l = some (hv, cmds, picks)) : NoChoose cmds := by
  cases l with
  | tick t => simp [hdl] at hh
  | lose e => simp [hdl] at hh
  | start j pks =>
    simp only [hdl] at hh
    split at hh
    · simp only [Option.some.injEq, Prod.mk.injEq] at hh
      obtain ⟨_, rfl, _⟩ := hh
      exact hr.start i
    · cases hh
  | deliver e keep pks =>
    simp only [hdl] at hh
    split at hh
    · split at hh
      · cases hh
      · split at hh
        · cases hh
        · rename_i hres
          simp only [Option.some.injEq, Prod.mk.injEq] at hh
          obtain ⟨_, rfl, _⟩ := hh
          exact hr.msg _ _ _ _ _ _ hres
    · cases hh
  | fire j k pks =>
    simp only [hdl] at hh
    split at hh
    · rename_i hj
      subst hj
      split at hh
      · cases hh
      · rename_i s hs
        split at hh
        · cases hh
        · rename_i hres
          simp only [Option.some.injEq, Prod.mk.injEq] at hh
          obtain ⟨_, rfl, _⟩ := hh
          simp only [rstep, hs] at h
          split at h
          · rename_i hg
            obtain ⟨en, hen, hk⟩ := List.any_eq_true.1 hg.2.1
            obtain ⟨t, ht⟩ := hinv.tkeys j en hen
            have hk : k = .timeout t := by
              have : en.1 = k := by simp only [Bool.and_eq_true, decide_eq_true_eq] at hk; exact hk.1
              rw [← this, ht]
            subst hk
            exact hr.timeout _ _ _ _ _ hres
          · cases h
    · cases hh

/-- when are the tables exact: the label's picks are used and no handler emits `ChooseRandom` -/
def Ex (sys : ActorSys σ η) (x : Bool) : Prop := x = true ∧ NoRandom sys

theorem sim_run [DecidableEq σ] (sys : ActorSys σ η) (i : Nat) (x : Bool) :
    ∀ (ls : List Lbl) (rs0 rs : RSt σ η) (a0 : LSt σ), Match (Ex sys x) i rs0 a0 → (Ex sys x → Inv sys rs0) →
      rrun sys rs0 ls = some rs →
      ∃ a, Loop.run (pcfg i) a0 (projFrom sys i x rs0 ls) = some a ∧ Match (Ex sys x) i rs a := by
  intro ls
  induction ls with
  | nil =>
    intro rs0 rs a0 hm _ h
    simp only [rrun, Option.some.injEq] at h
    subst h
    exact ⟨a0, rfl, hm⟩
  | cons l ls ih =>
    intro rs0 rs a0 hm hinv h
    simp only [rrun] at h
    cases hstep : rstep sys rs0 l with
    | none => rw [hstep] at h; cases h
    | some rs1 =>
      rw [hstep] at h
      simp only [Option.bind_some] at h
      obtain ⟨a1, hr1, hm1⟩ := sim_step sys i x (Ex sys x) hm hstep (fun e => e.1)
        (fun e _ _ _ hh => hdl_noChoose e.2 (hinv e) hstep hh)
      obtain ⟨a, hr2, hm2⟩ := ih rs1 rs a1 hm1 (fun e => inv_step e.2 (hinv e) hstep) h
      refine ⟨a, ?_, hm2⟩
      simp only [projFrom, hstep, lrun_append, hr1, Option.bind_some]
      exact hr2

/-- THE PROJECTION of a system run (from `rinit sys`) onto thread `i`: its `start`, the `deliver`s addressed to it as
`msg` events from `addrOf src` with bytes `[msg]`, its `fire`s — each with the state / commands the handler tables
return — and after each of them one `exec` per emitted command at the same clock reading with the label's picks -/
def proj (sys : ActorSys σ η) (i : Nat) (ls : List Lbl) : List (LEv σ) := projFrom sys i true (rinit sys) ls

/-- what an instrumented actor `i` logs: the handler events only -/
def projLog (sys : ActorSys σ η) (i : Nat) (ls : List Lbl) : List (LEv σ) := (proj sys i ls).filter Loop.isHandler

theorem match_init (E : Prop) (sys : ActorSys σ η) (i : Nat) : Match E i (rinit sys) (Loop.init : LSt σ) :=
  ⟨rfl, rfl, Nat.le_refl _, rfl, fun _ _ h => (by cases h), fun _ => rfl⟩

/-! ### the log (handler events) and the acceptance predicate -/

theorem execEvs_nil (now : Nat) (cmds : List Cmd) :
    (execEvs now cmds [] : List (LEv σ)) = cmds.map (fun _ => Loop.Ev.exec now 0) := by
  induction cmds with
  | nil => rfl
  | cons c cs ih => simp only [execEvs, List.tail_nil, List.headD_nil, ih, List.map_cons]

theorem filter_execEvs (now : Nat) (cmds : List Cmd) (ps : List Nat) :
    (execEvs now cmds ps : List (LEv σ)).filter Loop.isHandler = [] := by
  induction cmds generalizing ps with
  | nil => rfl
  | cons c cs ih => simp only [execEvs, List.filter_cons, Loop.isHandler, Bool.false_eq_true, if_false, ih]

theorem hdl_spec {sys : ActorSys σ η} {i : Nat} {rs : RSt σ η} {l : Lbl} {hv : LEv σ} {cmds : List Cmd}
    {picks : List Nat} (hh : hdl sys i rs l = some (hv, cmds, picks)) :
    Loop.isHandler hv = true ∧ Loop.evCmds hv = cmds.map trCmd ∧ Loop.evTime hv = rs.now := by
  cases l with
  | tick t => simp [hdl] at hh
  | lose e => simp [hdl] at hh
  | start j pks =>
    simp only [hdl] at hh
    split at hh
    · simp only [Option.some.injEq, Prod.mk.injEq] at hh
      obtain ⟨rfl, rfl, _⟩ := hh
      exact ⟨rfl, rfl, rfl⟩
    · cases hh
  | deliver e keep pks =>
    simp only [hdl] at hh
    split at hh
    · split at hh
      · cases hh
      · split at hh
        · cases hh
        · simp only [Option.some.injEq, Prod.mk.injEq] at hh
          obtain ⟨rfl, rfl, _⟩ := hh
          exact ⟨rfl, rfl, rfl⟩
    · cases hh
  | fire j k pks =>
    simp only [hdl] at hh
    split at hh
    · split at hh
      · cases hh
      · split at hh
        · cases hh
        · simp only [Option.some.injEq, Prod.mk.injEq] at hh
          obtain ⟨rfl, rfl, _⟩ := hh
          exact ⟨rfl, rfl, rfl⟩
    · cases hh

/-- the handler events of the projection, expanded as the acceptance predicate does (one `exec` per command at the
handler's time stamp, pick 0), are the projection with the picks forgotten -/
theorem expand_projFrom (sys : ActorSys σ η) (i : Nat) : ∀ (ls : List Lbl) (rs : RSt σ η),
    Loop.expand ((projFrom sys i true rs ls).filter Loop.isHandler) = projFrom sys i false rs ls := by
  intro ls
  induction ls with
  | nil => intro rs; rfl
  | cons l ls ih =>
    intro rs
    have hrest : Loop.expand ((match rstep sys rs l with
          | some rs' => projFrom sys i true rs' ls
          | none => []).filter Loop.isHandler)
        = (match rstep sys rs l with
          | some rs' => projFrom sys i false rs' ls
          | none => []) := by
      cases rstep sys rs l with
      | none => rfl
      | some rs' => exact ih rs'
    simp only [projFrom, List.filter_append, projStep]
    cases hh : hdl sys i rs l with
    | none => simpa using hrest
    | some r =>
      obtain ⟨hv, cmds, picks⟩ := r
      obtain ⟨h1, h2, h3⟩ := hdl_spec hh
      simp only [List.filter_cons, h1, if_true, filter_execEvs, List.cons_append, List.nil_append, Loop.expand,
        hrest, h2, h3, pk, Bool.false_eq_true, if_false, execEvs_nil, List.map_map]
      rfl

/-! ### the converse, one step of one thread -/

theorem compose_step [DecidableEq σ] (sys : ActorSys σ η) (i : Nat) {rs : RSt σ η} {a a' : LSt σ} {l : Lbl}
    {hv : LEv σ} {cmds : List Cmd} {picks : List Nat}
    (hm : Match True i rs a) (hh : hdl sys i rs l = some (hv, cmds, picks))
    (hrun : Loop.run (pcfg i) a (projStep sys i true rs l) = some a')
    (hi : i < sys.n) (hp : picksOk rs.now picks = true)
    (hfl : ∀ e keep pks, l = .deliver e keep pks → e ∈ rs.flight) (hnc : NoChoose cmds) :
    ∃ rs', rstep sys rs l = some rs' ∧ Match True i rs' a' := by
  have hstep : ∃ b, Loop.step (pcfg i) a hv = some b := by
    simp only [projStep, hh, Loop.run] at hrun
    cases hs : Loop.step (pcfg i) a hv with
    | none => rw [hs] at hrun; cases hrun
    | some b => exact ⟨b, rfl⟩
  obtain ⟨b, hb⟩ := hstep
  have hen : (rstep sys rs l).isSome = true := by
    cases l with
    | tick t => simp [hdl] at hh
    | lose e => simp [hdl] at hh
    | start j pks =>
      simp only [hdl] at hh
      split at hh
      · rename_i hj
        subst hj
        simp only [Option.some.injEq, Prod.mk.injEq] at hh
        obtain ⟨rfl, rfl, rfl⟩ := hh
        obtain ⟨_, hst, _, _, _⟩ := Loop.step_start hb
        have : rs.st j = none := by rw [← hm.st]; exact hst
        simp only [rstep]; rw [if_pos ⟨hi, this, hp⟩]; rfl
      · cases hh
    | deliver e keep pks =>
      simp only [hdl] at hh
      split at hh
      · rename_i hj
        subst hj
        split at hh
        · cases hh
        · rename_i s hs
          split at hh
          · cases hh
          · rename_i ns cmds' hres
            simp only [Option.some.injEq, Prod.mk.injEq] at hh
            obtain ⟨rfl, rfl, rfl⟩ := hh
            simp only [rstep, hs]
            rw [if_pos ⟨hi, hfl e keep pks rfl, hp⟩]
            simp only [hres]
            rfl
      · cases hh
    | fire j k pks =>
      simp only [hdl] at hh
      split at hh
      · rename_i hj
        subst hj
        split at hh
        · cases hh
        · rename_i s hs
          split at hh
          · cases hh
          · rename_i ns cmds' hres
            simp only [Option.some.injEq, Prod.mk.injEq] at hh
            obtain ⟨rfl, rfl, rfl⟩ := hh
            obtain ⟨_, _, _, _, hf, _⟩ := Loop.step_fire hb
            simp only [Loop.fireable, List.any_eq_true, Bool.and_eq_true, decide_eq_true_eq] at hf
            obtain ⟨⟨k0, d⟩, hin, ⟨hk0, hd⟩, _⟩ := hf
            simp only at hk0 hd
            subst hk0
            rw [hm.eq trivial] at hin
            have hany : (rs.ints j).any (fun en => en.1 = k0 && en.2 < rs.now) = true :=
              List.any_eq_true.2 ⟨(k0, d), hin, by simp; omega⟩
            simp only [rstep, hs]
            rw [if_pos ⟨hi, hany, hp⟩]
            simp only [hres]
            rfl
      · cases hh
  obtain ⟨rs', hr⟩ := Option.isSome_iff_exists.1 hen
  obtain ⟨a'', hr', hm'⟩ := sim_step sys i true True hm hr (fun _ => rfl)
    (fun _ hv' cmds' picks' hh' => by rw [hh] at hh'; cases hh'; exact hnc)
  rw [hrun] at hr'
  cases hr'
  exact ⟨rs', hr, hm'⟩

/-! ### the converse for whole runs, given a schedule (a common-clock interleaving of the threads' handler calls) -/

/-- one scheduled handler invocation: the thread, the handler event as the thread logs it, the commands as the
tables emit them, the picks of its `exec`s -/
structure Blk (σ : Type) where
  i : Nat
  hv : LEv σ
  cmds : List Cmd
  picks : List Nat

def Blk.time (g : Blk σ) : Nat := Loop.evTime g.hv

/-- the loop events of the invocation: the handler event, then its `exec`s at the same clock reading -/
def Blk.evs (g : Blk σ) : List (LEv σ) := g.hv :: execEvs g.time g.cmds g.picks

/-- the event list of thread `i` -/
def evsOf (i : Nat) (gs : List (Blk σ)) : List (LEv σ) := gs.flatMap (fun g => if g.i = i then g.evs else [])

/-- the system step of the invocation (a received datagram stays in flight: duplication covers every matching) -/
def Blk.lbl (g : Blk σ) : Lbl :=
  match g.hv with
  | .start _ _ _ => .start g.i g.picks
  | .msg _ a b _ _ _ => .deliver ⟨idOf a, g.i, b.headD 0⟩ true g.picks
  | .fire _ k _ _ _ => .fire g.i k g.picks
  | _ => .tick 0

/-- the datagram the invocation receives -/
def Blk.recv (g : Blk σ) : Option Env :=
  match g.hv with
  | .msg _ a b _ _ _ => some ⟨idOf a, g.i, b.headD 0⟩
  | _ => none

/-- the system run of a schedule: the clock is advanced to each invocation's time stamp -/
def lblsOf (gs : List (Blk σ)) : List Lbl := gs.flatMap (fun g => [.tick g.time, g.lbl])

/-- the actor behaves as the handler tables say (the loop machine treats the actor as its environment), datagrams
come from valid IPv4 addresses and are one number -/
def Conf (sys : ActorSys σ η) (g : Blk σ) : Prop :=
  match g.hv with
  | .start _ out lc =>
    out = ((sys.actor g.i).start g.i).1 ∧ g.cmds = ((sys.actor g.i).start g.i).2 ∧ lc = g.cmds.map trCmd
  | .msg _ a b stIn out lc =>
    a.Valid ∧ ∃ m ns, b = [m] ∧ (sys.actor g.i).msg g.i stIn (idOf a) m = .ok ns g.cmds ∧ out = ns.getD stIn ∧
      lc = g.cmds.map trCmd
  | .fire _ k stIn out lc =>
    ∃ ns, handlerK sys g.i stIn k = .ok ns g.cmds ∧ out = ns.getD stIn ∧ lc = g.cmds.map trCmd
  | _ => False

/-- a schedule from clock reading `t0` with the datagrams `S` sent so far: time stamps do not decrease and stay
below the horizon (so do the timer picks), the threads exist, the actors conform to the tables, no `ChooseRandom`,
and EVERY RECEIVED DATAGRAM WAS SENT by an earlier invocation -/
def Sched (sys : ActorSys σ η) : Nat → List Env → List (Blk σ) → Prop
  | _, _, [] => True
  | t0, S, g :: gs =>
    t0 ≤ g.time ∧ g.time < never ∧ picksOk g.time g.picks = true ∧ g.i < sys.n ∧ Conf sys g ∧ NoChoose g.cmds ∧
    (∀ e, g.recv = some e → e ∈ S) ∧ Sched sys g.time (S ++ sendsOf g.i g.cmds) gs

theorem hdl_of_conf [DecidableEq σ] {sys : ActorSys σ η} {g : Blk σ} {rs : RSt σ η} {a b : LSt σ}
    (hc : Conf sys g) (hn : rs.now = g.time) (hst : a.st = rs.st g.i) (hb : Loop.step (pcfg g.i) a g.hv = some b) :
    hdl sys g.i rs g.lbl = some (g.hv, g.cmds, g.picks) := by
  obtain ⟨i, hv, cmds, picks⟩ := g
  cases hv with
  | start t out lc =>
    simp only [Conf] at hc
    obtain ⟨rfl, rfl, rfl⟩ := hc
    simp only [Blk.time, Loop.evTime] at hn
    simp [Blk.lbl, hdl, hn]
  | msg t ad bytes stIn out lc =>
    simp only [Conf] at hc
    obtain ⟨hval, m, ns, rfl, hres, rfl, rfl⟩ := hc
    simp only [Blk.time, Loop.evTime] at hn
    obtain ⟨_, _, _, hs, _⟩ := Loop.step_msg hb
    have hs' : rs.st i = some stIn := by rw [← hst]; exact hs
    simp [Blk.lbl, hdl, hn, hs', hres, addrOf_idOf ad hval]
  | fire t k stIn out lc =>
    simp only [Conf] at hc
    obtain ⟨ns, hres, rfl, rfl⟩ := hc
    simp only [Blk.time, Loop.evTime] at hn
    obtain ⟨_, hs, _⟩ := Loop.step_fire hb
    have hs' : rs.st i = some stIn := by rw [← hst]; exact hs
    simp [Blk.lbl, hdl, hn, hs', hres]
  | exec t p => exact hc.elim
  | drop t src bytes => exact hc.elim
  | idle t => exact hc.elim
  | zeroWait t => exact hc.elim

theorem hdl_other (sys : ActorSys σ η) (g : Blk σ) (rs : RSt σ η) {i : Nat} (hi : g.i ≠ i) :
    hdl sys i rs g.lbl = none := by
  obtain ⟨j, hv, cmds, picks⟩ := g
  cases hv <;> simp_all [Blk.lbl, hdl]

theorem lbl_recv {g : Blk σ} {e : Env} {keep : Bool} {pks : List Nat} (h : g.lbl = .deliver e keep pks) :
    g.recv = some e ∧ keep = true := by
  obtain ⟨j, hv, cmds, picks⟩ := g
  cases hv <;> simp_all [Blk.lbl, Blk.recv]

/-- a handler step that does not consume its datagram: the clock stands still, the sends are added to the flight -/
theorem rstep_flight_keep {sys : ActorSys σ η} {i : Nat} {rs rs' : RSt σ η} {l : Lbl} {hv : LEv σ}
    {cmds : List Cmd} {picks : List Nat} (h : rstep sys rs l = some rs')
    (hh : hdl sys i rs l = some (hv, cmds, picks)) (hk : ∀ e pks, l ≠ .deliver e false pks) :
    rs'.now = rs.now ∧ rs'.flight = rs.flight ++ sendsOf i cmds := by
  cases l with
  | tick t => simp [hdl] at hh
  | lose e => simp [hdl] at hh
  | start j pks =>
    simp only [hdl] at hh
    split at hh
    · rename_i hj
      subst hj
      simp only [Option.some.injEq, Prod.mk.injEq] at hh
      obtain ⟨_, rfl, _⟩ := hh
      simp only [rstep] at h
      split at h
      · cases h; exact ⟨rfl, by simp [finish, execCmds_flight]⟩
      · cases h
    · cases hh
  | deliver e keep pks =>
    cases keep with
    | false => exact absurd rfl (hk e pks)
    | true =>
      simp only [hdl] at hh
      split at hh
      · rename_i hj
        subst hj
        split at hh
        · cases hh
        · rename_i s hs
          split at hh
          · cases hh
          · rename_i ns cmds' hres
            simp only [Option.some.injEq, Prod.mk.injEq] at hh
            obtain ⟨_, rfl, _⟩ := hh
            simp only [rstep, hs] at h
            split at h
            · simp only [hres] at h
              cases h; exact ⟨rfl, by simp [finish, execCmds_flight]⟩
            · cases h
      · cases hh
  | fire j k pks =>
    simp only [hdl] at hh
    split at hh
    · rename_i hj
      subst hj
      split at hh
      · cases hh
      · rename_i s hs
        split at hh
        · cases hh
        · rename_i ns cmds' hres
          simp only [Option.some.injEq, Prod.mk.injEq] at hh
          obtain ⟨_, rfl, _⟩ := hh
          simp only [rstep, hs] at h
          split at h
          · simp only [hres] at h
            cases h; exact ⟨rfl, by simp [finish, execCmds_flight]⟩
          · cases h
    · cases hh

theorem compose_run [DecidableEq σ] (sys : ActorSys σ η) :
    ∀ (gs : List (Blk σ)) (rs : RSt σ η) (S : List Env) (a A : Nat → LSt σ),
      (∀ i, i < sys.n → Match True i rs (a i)) → (∀ e ∈ S, e ∈ rs.flight) → Sched sys rs.now S gs →
      (∀ i, i < sys.n → Loop.run (pcfg i) (a i) (evsOf i gs) = some (A i)) →
      ∃ rs', rrun sys rs (lblsOf gs) = some rs' ∧
        ∀ i, i < sys.n → Match True i rs' (A i) ∧ projFrom sys i true rs (lblsOf gs) = evsOf i gs := by
  intro gs
  induction gs with
  | nil =>
    intro rs S a A hm _ _ hrun
    refine ⟨rs, rfl, fun i hi => ⟨?_, rfl⟩⟩
    have := hrun i hi
    simp only [evsOf, List.flatMap_nil, Loop.run, Option.some.injEq] at this
    rw [← this]; exact hm i hi
  | cons g gs ih =>
    intro rs S a A hm hS hsched hrun
    obtain ⟨ht0, htn, hp, hi, hconf, hnc, hrecv, hrest⟩ := hsched
    -- the clock tick
    have htick : rstep sys rs (.tick g.time) = some { rs with now := g.time } := by
      simp only [rstep]; rw [if_pos ⟨ht0, htn⟩]
    have hm1 : ∀ i, i < sys.n → Match True i { rs with now := g.time } (a i) :=
      fun i hi' => (hm i hi').congr ht0 rfl rfl
    -- the thread of the invocation
    have hrj := hrun g.i hi
    have hev : evsOf g.i (g :: gs) = g.evs ++ evsOf g.i gs := by simp [evsOf]
    rw [hev, lrun_append] at hrj
    cases hra : Loop.run (pcfg g.i) (a g.i) g.evs with
    | none => rw [hra] at hrj; cases hrj
    | some a' =>
      rw [hra] at hrj
      simp only [Option.bind_some] at hrj
      have hb : ∃ b, Loop.step (pcfg g.i) (a g.i) g.hv = some b := by
        simp only [Blk.evs, Loop.run] at hra
        cases hs : Loop.step (pcfg g.i) (a g.i) g.hv with
        | none => rw [hs] at hra; cases hra
        | some b => exact ⟨b, rfl⟩
      obtain ⟨b, hb⟩ := hb
      have hh : hdl sys g.i { rs with now := g.time } g.lbl = some (g.hv, g.cmds, g.picks) :=
        hdl_of_conf hconf rfl (hm1 g.i hi).st hb
      have hps : projStep sys g.i true { rs with now := g.time } g.lbl = g.evs := by
        simp [projStep, hh, Blk.evs, pk]
      obtain ⟨rs2, hstep, hm2⟩ := compose_step sys g.i (hm1 g.i hi) hh (by rw [hps]; exact hra) hi hp
        (fun e keep pks hl => hS e (hrecv e (lbl_recv hl).1)) hnc
      obtain ⟨hnow2, hfl2⟩ := rstep_flight_keep hstep hh (fun e pks hl => by
        have := (lbl_recv hl).2; cases this)
      -- the other threads
      have hoth : ∀ i, i < sys.n → g.i ≠ i → Match True i rs2 (a i) ∧
          projStep sys i true { rs with now := g.time } g.lbl = [] := by
        intro i hi' hne
        have ho1 := hdl_other sys g { rs with now := g.time } hne
        have hpe : projStep sys i true { rs with now := g.time } g.lbl = [] := by simp [projStep, ho1]
        obtain ⟨a'', hr'', hm''⟩ := sim_step sys i true True (hm1 i hi') hstep (fun _ => rfl)
          (fun _ hv' cmds' picks' hh' => by rw [ho1] at hh'; cases hh')
        rw [hpe] at hr''
        simp only [Loop.run, Option.some.injEq] at hr''
        subst hr''
        exact ⟨hm'', hpe⟩
      -- the rest of the schedule
      obtain ⟨rs', hrr, hfin⟩ := ih rs2 (S ++ sendsOf g.i g.cmds) (upd a g.i a') A
        (fun i hi' => by
          by_cases hne : g.i = i
          · subst hne; simpa [upd] using hm2
          · simpa [upd, Ne.symm hne] using (hoth i hi' hne).1)
        (fun e he => by
          rw [hfl2]
          rcases List.mem_append.1 he with h | h
          · exact List.mem_append_left _ (hS e h)
          · exact List.mem_append_right _ h)
        (by rw [hnow2]; exact hrest)
        (fun i hi' => by
          by_cases hne : g.i = i
          · subst hne; simpa [upd] using hrj
          · have := hrun i hi'
            simpa [upd, Ne.symm hne, evsOf, hne] using this)
      refine ⟨rs', ?_, ?_⟩
      · simp only [lblsOf, List.flatMap_cons, List.cons_append, List.nil_append, rrun, htick, hstep,
          Option.bind_some]
        exact hrr
      · intro i hi'
        refine ⟨(hfin i hi').1, ?_⟩
        have hpt : projStep sys i true rs (.tick g.time) = [] := by simp [projStep, hdl]
        simp only [lblsOf, List.flatMap_cons, List.cons_append, List.nil_append, projFrom, htick, hstep, hpt]
        by_cases hne : g.i = i
        · subst hne
          rw [hps, hev]
          exact congrArg _ (hfin g.i hi').2
        · rw [(hoth i hi' hne).2]
          have : evsOf i (g :: gs) = evsOf i gs := by simp [evsOf, hne]
          rw [this]
          exact (hfin i hi').2

/-! ### the STRICT loop machine, on runs that schedule thread `i` as the code does -/

/-- the strict loop machine of thread `i` (same codec as `pcfg i`) -/
def scfg (i : Nat) : Loop.Cfg Nat :=
  { id := i, ser := fun m => some [m], de := deOne, strict := true }

/-- thread `i` is scheduled as the loop of spawn.rs does: a `fire` takes an entry with the MINIMUM deadline, strictly
overdue; a datagram is received only while every deadline is still ahead -/
def stepStrict (i : Nat) (rs : RSt σ η) : Lbl → Bool
  | .fire j k _ => j != i || (rs.ints i).any (fun en =>
      en.1 = k && en.2 < rs.now && (rs.ints i).all (fun e' => en.2 ≤ e'.2))
  | .deliver e _ _ => e.dst != i || (rs.ints i).all (fun en => rs.now < en.2)
  | _ => true

def StrictSched (sys : ActorSys σ η) (i : Nat) : RSt σ η → List Lbl → Bool
  | _, [] => true
  | rs, l :: ls => stepStrict i rs l && (match rstep sys rs l with
      | some rs' => StrictSched sys i rs' ls
      | none => true)

structure MatchS (i : Nat) (rs : RSt σ η) (a : LSt σ) : Prop where
  alive : a.dead = false
  queue : a.queue = []
  now : a.now ≤ rs.now
  st : a.st = rs.st i
  eq : a.ints = rs.ints i

/-- the strict machine executes every command (incl. `ChooseRandom`) exactly as the system does -/
theorem execCmd_eqS (i now p : Nat) (c : Cmd) (L : Loc) (b : LSt σ) (h : b.ints = L.ints) (hp : p < never) :
    (Loop.execCmd (scfg i) b (trCmd c) now p).ints = (RtSys.execCmd i now L p c).ints := by
  cases c with
  | send d m => exact h
  | setTimer t =>
    simp only [RtSys.execCmd, trCmd, Loop.execCmd, if_pos never_pos, Nat.zero_add, Nat.sub_zero,
      Nat.mod_eq_of_lt hp, h]
  | cancelTimer t =>
    simp only [RtSys.execCmd, trCmd, Loop.execCmd, h]
    rfl
  | chooseRandom key vals =>
    cases vals with
    | nil => exact h
    | cons v0 rest =>
      simp only [RtSys.execCmd, trCmd, Loop.execCmd, scfg, if_true, h]

theorem run_execsS [DecidableEq σ] (i now : Nat) :
    ∀ (cmds : List Cmd) (p : List Nat) (L : Loc) (b : LSt σ),
      b.queue = cmds.map trCmd → b.dead = false → b.now = now → b.ints = L.ints → picksOk now p = true →
      ∃ b', Loop.run (scfg i) b (execEvs now cmds p) = some b' ∧ b'.queue = [] ∧ b'.dead = false ∧
        b'.now = now ∧ b'.st = b.st ∧ b'.ints = (execCmds i now cmds p L).ints := by
  intro cmds
  induction cmds with
  | nil =>
    intro p L b hq hd hn he _
    exact ⟨b, rfl, by simpa using hq, hd, hn, rfl, he⟩
  | cons c cs ih =>
    intro p L b hq hd hn he hp
    have hstep := step_exec_eq (scfg i) b (trCmd c) (cs.map trCmd) now (p.headD 0)
      (by simpa using hq) hd (Nat.le_of_eq hn)
    obtain ⟨_, f2, _, f4, f5, f6⟩ :=
      Loop.execCmd_frame (scfg i) { b with now := now, queue := cs.map trCmd } (trCmd c) now (p.headD 0)
    obtain ⟨hp1, hp2⟩ := picksOk_tail hp
    obtain ⟨b', hrun, h1, h2, h3, h4, h5⟩ :=
      ih p.tail (RtSys.execCmd i now L (p.headD 0) c) _ f4 (by rw [f6]; exact hd) f5
        (execCmd_eqS i now _ c L _ he hp1) hp2
    refine ⟨b', ?_, h1, h2, h3, by rw [h4, f2], by rw [execCmds]; exact h5⟩
    simp only [execEvs, Loop.run, hstep]
    exact hrun

theorem MatchS.congr {i : Nat} {rs rs' : RSt σ η} {a : LSt σ} (hm : MatchS i rs a)
    (hn : rs.now ≤ rs'.now) (hs : rs'.st i = rs.st i) (hi : rs'.ints i = rs.ints i) : MatchS i rs' a :=
  ⟨hm.alive, hm.queue, Nat.le_trans hm.now hn, by rw [hs]; exact hm.st, by rw [hi]; exact hm.eq⟩

theorem matchS_frame {i j : Nat} {rs : RSt σ η} {a : LSt σ} (hm : MatchS i rs a) (hj : j ≠ i)
    (s' : σ) (ints0 : Ints) (fl0 : List Env) (last : Option Env) (hist : η) (cmds : List Cmd) (picks : List Nat) :
    MatchS i (finish rs j s' ints0 fl0 last hist cmds picks) a :=
  hm.congr (Nat.le_refl _) (by simp [finish, upd, Ne.symm hj]) (by simp [finish, upd, Ne.symm hj])

theorem sim_finishS [DecidableEq σ] (i : Nat) (rs : RSt σ η) (b : LSt σ) (s' : σ)
    (ints0 : Ints) (fl0 : List Env) (last : Option Env) (hist : η) (cmds : List Cmd) (picks : List Nat)
    (hq : b.queue = cmds.map trCmd) (hd : b.dead = false) (hn : b.now = rs.now) (hs : b.st = some s')
    (heq : b.ints = ints0) (hp : picksOk rs.now picks = true) :
    ∃ a', Loop.run (scfg i) b (execEvs rs.now cmds picks) = some a' ∧
      MatchS i (finish rs i s' ints0 fl0 last hist cmds picks) a' := by
  obtain ⟨b', hrun, h1, h2, h3, h4, h5⟩ := run_execsS i rs.now cmds picks ⟨ints0, fl0⟩ b hq hd hn heq hp
  refine ⟨b', hrun, h2, h1, Nat.le_of_eq h3, ?_, ?_⟩
  · simp [finish, upd, h4, hs]
  · simpa [finish, upd] using h5

theorem sim_stepS [DecidableEq σ] (sys : ActorSys σ η) (i : Nat) {rs rs' : RSt σ η}
    {a : LSt σ} {l : Lbl} (hm : MatchS i rs a) (h : rstep sys rs l = some rs') (hf : stepStrict i rs l = true) :
    ∃ a', Loop.run (scfg i) a (projStep sys i true rs l) = some a' ∧ MatchS i rs' a' := by
  cases l with
  | tick t =>
    simp only [rstep] at h
    split at h
    · rename_i hg; cases h
      exact ⟨a, rfl, hm.congr hg.1 rfl rfl⟩
    · cases h
  | lose e =>
    simp only [rstep] at h
    split at h
    · cases h; exact ⟨a, rfl, hm.congr (Nat.le_refl _) rfl rfl⟩
    · cases h
  | start j picks =>
    simp only [rstep] at h
    split at h
    · rename_i hg; cases h
      by_cases hj : j = i
      · subst hj
        have hh : hdl sys j rs (.start j picks) = some (.start rs.now ((sys.actor j).start j).1
            (((sys.actor j).start j).2.map trCmd), ((sys.actor j).start j).2, picks) := by simp [hdl]
        have hst : a.st = none := by rw [hm.st]; exact hg.2.1
        obtain ⟨b, hs1, b1, b2, b3, b4, b5⟩ := step_start_ok (scfg j) a rs.now ((sys.actor j).start j).1
          (((sys.actor j).start j).2.map trCmd) hm.alive hst hm.queue hm.now
        simp only [projStep, hh, Loop.run, hs1, pk, if_true]
        exact sim_finishS j rs b _ _ _ _ _ _ _ b1 b2 b3 b4 (by rw [b5]; exact hm.eq) hg.2.2
      · have hh : hdl sys i rs (.start j picks) = none := by simp [hdl, hj]
        simp only [projStep, hh, Loop.run]
        exact ⟨a, rfl, matchS_frame hm hj _ _ _ _ _ _ _⟩
    · cases h
  | deliver e keep picks =>
    simp only [rstep] at h
    split at h
    · cases h
    · rename_i s hs
      split at h
      · rename_i hg
        split at h
        · cases h
        · rename_i ns cmds hres
          cases h
          by_cases hj : e.dst = i
          · subst hj
            have hh : hdl sys e.dst rs (.deliver e keep picks) = some (.msg rs.now (addrOf e.src) [e.msg] s
                (ns.getD s) (cmds.map trCmd), cmds, picks) := by simp [hdl, hs, hres]
            have hst : a.st = some s := by rw [hm.st]; exact hs
            have hrb : Loop.recvBranch (scfg e.dst) a = true := by
              simp only [stepStrict, bne_self_eq_false, Bool.false_or, List.all_eq_true, decide_eq_true_eq] at hf
              simp only [Loop.recvBranch, Bool.or_eq_true, List.all_eq_true, decide_eq_true_eq]
              right
              intro en hen
              rw [hm.eq] at hen
              exact Nat.lt_of_le_of_lt hm.now (hf en hen)
            obtain ⟨b, hs1, b1, b2, b3, b4, b5⟩ := step_msg_ok (scfg e.dst) a rs.now (addrOf e.src) [e.msg]
              e.msg s (ns.getD s) (cmds.map trCmd) rfl hrb hm.alive hst hm.queue hm.now
            simp only [projStep, hh, Loop.run, hs1, pk, if_true]
            exact sim_finishS e.dst rs b _ _ _ _ _ _ _ b1 b2 b3 b4 (by rw [b5]; exact hm.eq) hg.2.2
          · have hh : hdl sys i rs (.deliver e keep picks) = none := by simp [hdl, hj]
            simp only [projStep, hh, Loop.run]
            exact ⟨a, rfl, matchS_frame hm hj _ _ _ _ _ _ _⟩
      · cases h
  | fire j k picks =>
    simp only [rstep] at h
    split at h
    · cases h
    · rename_i s hs
      split at h
      · rename_i hg
        split at h
        · cases h
        · rename_i ns cmds hres
          cases h
          by_cases hj : j = i
          · subst hj
            have hh : hdl sys j rs (.fire j k picks) = some (.fire rs.now k s (ns.getD s) (cmds.map trCmd),
                cmds, picks) := by simp [hdl, hs, hres]
            have hst : a.st = some s := by rw [hm.st]; exact hs
            have hfa : Loop.fireable (scfg j) a k rs.now = true := by
              simp only [stepStrict, bne_self_eq_false, Bool.false_or] at hf
              simp only [Loop.fireable, hm.eq, scfg, Bool.not_true, Bool.false_or]
              exact hf
            obtain ⟨b, hs1, b1, b2, b3, b4, b5⟩ := step_fire_ok (scfg j) a rs.now k s (ns.getD s)
              (cmds.map trCmd) hm.alive hst hm.queue hm.now hfa
            simp only [projStep, hh, Loop.run, hs1, pk, if_true]
            exact sim_finishS j rs b _ _ _ _ _ _ _ b1 b2 b3 b4 (by rw [b5, hm.eq]) hg.2.2
          · have hh : hdl sys i rs (.fire j k picks) = none := by simp [hdl, hj]
            simp only [projStep, hh, Loop.run]
            exact ⟨a, rfl, matchS_frame hm hj _ _ _ _ _ _ _⟩
      · cases h

theorem sim_runS [DecidableEq σ] (sys : ActorSys σ η) (i : Nat) :
    ∀ (ls : List Lbl) (rs0 rs : RSt σ η) (a0 : LSt σ), MatchS i rs0 a0 →
      rrun sys rs0 ls = some rs → StrictSched sys i rs0 ls = true →
      ∃ a, Loop.run (scfg i) a0 (projFrom sys i true rs0 ls) = some a ∧ MatchS i rs a := by
  intro ls
  induction ls with
  | nil =>
    intro rs0 rs a0 hm h _
    simp only [rrun, Option.some.injEq] at h
    subst h
    exact ⟨a0, rfl, hm⟩
  | cons l ls ih =>
    intro rs0 rs a0 hm h hf
    simp only [rrun] at h
    cases hstep : rstep sys rs0 l with
    | none => rw [hstep] at h; cases h
    | some rs1 =>
      rw [hstep] at h
      simp only [Option.bind_some] at h
      simp only [StrictSched, hstep, Bool.and_eq_true] at hf
      obtain ⟨a1, hr1, hm1⟩ := sim_stepS sys i hm hstep hf.1
      obtain ⟨a, hr2, hm2⟩ := ih rs1 rs a1 hm1 h hf.2
      refine ⟨a, ?_, hm2⟩
      simp only [projFrom, hstep, lrun_append, hr1, Option.bind_some]
      exact hr2

theorem matchS_init (sys : ActorSys σ η) (i : Nat) : MatchS i (rinit sys) (Loop.init : LSt σ) :=
  ⟨rfl, rfl, Nat.le_refl _, rfl, rfl⟩

end SR.C17
