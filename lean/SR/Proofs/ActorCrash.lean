import SR.Proofs.ActorActions
/-! Crash faults: the crash invariant of reachable states and the commutation of a crash with the steps of
other actors (helper lemmas for Props/C09). -/
namespace SR.Actor

variable {σ η : Type}

theorem countCrashed_set_true (l : List Bool) (i : Nat) (h : l[i]? = some false) :
    countCrashed (l.set i true) = countCrashed l + 1 := by
  induction l generalizing i with
  | nil => simp at h
  | cons b bs ih =>
    cases i with
    | zero =>
      simp at h; subst h
      simp [countCrashed, List.filter_cons]
    | succ i =>
      simp only [List.getElem?_cons_succ] at h
      have := ih i h
      simp only [countCrashed, List.set_cons_succ, List.filter_cons] at this ⊢
      cases b <;> simp at this ⊢ <;> omega

/-- crashed actors hold neither timers nor pending choices, and the budget is respected -/
def St.CrashInv (sys : ActorSys σ η) (st : St σ η) : Prop :=
  (∀ i : Nat, st.crashed[i]? = some true → st.timers[i]? = some [] ∧ st.random[i]? = some []) ∧
  countCrashed st.crashed ≤ sys.maxCrashes

theorem wf_crashOf {sys : ActorSys σ η} {st : St σ η} (i : Nat) (hwf : st.WF sys) : (crashOf i st).WF sys := by
  obtain ⟨hA, hT, hR, hC⟩ := hwf
  exact ⟨hA, by simp [crashOf, hT], by simp [crashOf, hR], by simp [crashOf, hC]⟩

theorem specStep_crash (sys : ActorSys σ η) (st : St σ η) (i : Nat) (hi : i < sys.n) :
    specStep sys st (.crash i) = .next (crashOf i st) := by
  simp [specStep, hi, crashOf]

/-- a transition by a handler action: the facts every clause needs -/
theorem handler_step_inv {sys : ActorSys σ η} {st st' : St σ η} {a : Action} (hwf : st.WF sys)
    (h : step sys st a = .next st') {i : Nat} {ev : Event} (hev : eventOf a = some (i, ev)) :
    ∃ s ns cmds, st.actors[i]? = some s ∧ ¬ (st.crashed[i]? = some true ∧ isDeliver a = true) ∧
      handler sys i s ev = .ok ns cmds ∧ specNext sys st a i s ns cmds = some st' := by
  rw [step_eq_specStep sys st a hwf] at h
  have hh : specHandlerStep sys st a i ev = .next st' := by
    cases a <;> simp only [eventOf, Option.some.injEq, Prod.mk.injEq, reduceCtorEq] at hev
    all_goals (obtain ⟨rfl, rfl⟩ := hev; simpa [specStep, eventOf] using h)
  obtain ⟨s, ns, cmds, h1, h2, h3, _, h5⟩ := specHandlerStep_next hh
  exact ⟨s, ns, cmds, h1, h2, h3, h5⟩

theorem crashInv_step {sys : ActorSys σ η} {st st' : St σ η} {a : Action} (hwf : st.WF sys) (hn : st.NetOk sys)
    (hinv : st.CrashInv sys) (ha : a ∈ actions sys st) (h : step sys st a = .next st') : st'.CrashInv sys := by
  have hen := (mem_actions_iff sys st hn a).1 ha
  have handler_case : ∀ (j : Nat) (ev : Event), eventOf a = some (j, ev) → st.crashed[j]? ≠ some true →
      st'.CrashInv sys := by
    intro j ev hev hup
    obtain ⟨s, ns, cmds, _, _, _, hnx⟩ := handler_step_inv hwf h hev
    unfold specNext at hnx
    split at hnx
    · cases hnx
      refine ⟨?_, hinv.2⟩
      intro i hi
      by_cases hij : j = i
      · subst hij; exact absurd hi hup
      · simp only [List.getElem?_set_ne hij]
        exact hinv.1 i hi
    · cases hnx
  cases a with
  | drop e =>
    rw [step_eq_specStep sys st _ hwf] at h
    simp only [specStep] at h
    cases hd : st.net.onDrop e with
    | none => simp [hd] at h
    | some net => simp [hd] at h; subst h; exact ⟨hinv.1, hinv.2⟩
  | crash i =>
    obtain ⟨hk, hi⟩ := hen
    have hlt : i < sys.n := by have := lt_length_of_getElem? hi; obtain ⟨_, _, _, hC⟩ := hwf; omega
    rw [step_eq_specStep sys st _ hwf, specStep_crash sys st i hlt] at h
    cases h
    obtain ⟨hA, hT, hR, hC⟩ := hwf
    refine ⟨?_, ?_⟩
    · intro j hj
      by_cases hij : i = j
      · subst hij
        simp [crashOf, List.getElem?_set_self, hT, hR, hlt]
      · simp only [crashOf, List.getElem?_set_ne hij] at hj ⊢
        exact hinv.1 j hj
    · simp only [crashOf, countCrashed_set_true _ _ hi]; omega
  | deliver e =>
    refine handler_case e.dst (.msg e.src e.msg) rfl ?_
    obtain ⟨s, ns, cmds, _, h2, _, _⟩ := handler_step_inv hwf h (i := e.dst) (ev := .msg e.src e.msg) rfl
    intro hc; exact h2 ⟨hc, rfl⟩
  | timeout i t =>
    refine handler_case i (.timeout t) rfl ?_
    obtain ⟨ts, hts, ht⟩ := hen
    intro hc
    have := (hinv.1 i hc).1
    rw [hts] at this; cases this; simp at ht
  | selectRandom i k r =>
    refine handler_case i (.random r) rfl ?_
    obtain ⟨m, cs, hm, hkv, _⟩ := hen
    intro hc
    have := (hinv.1 i hc).2
    rw [hm] at this; cases this; simp at hkv

theorem crashInv_specInit (sys : ActorSys σ η) : (specInit sys).CrashInv sys := by
  refine ⟨?_, ?_⟩
  · intro i hi
    simp [specInit, List.getElem?_replicate] at hi
  · have : countCrashed (List.replicate sys.n false) = 0 := by
      simp [countCrashed]
    simp [specInit, this]

theorem reach_crashInv (sys : ActorSys σ η) (inB : St σ η → Bool) (hc : sys.initNet.Canon) {st : St σ η}
    (h : (sys.toSys inB).Reach st) : st.CrashInv sys := by
  induction h with
  | init hi =>
    simp only [Sys.initB, ActorSys.toSys, init_eq_specInit, List.mem_filter, Option.toList, List.mem_singleton] at hi
    rw [hi.1]
    exact crashInv_specInit sys
  | @step s t hr hs ih =>
    obtain ⟨⟨a, hmem, ha⟩, _⟩ := Sys.mem_succB.1 hs
    have hst : step sys s a = .next t := toOption_eq_some.1 ha
    obtain ⟨hwf, hn⟩ := reach_inv sys inB hc hr
    exact crashInv_step hwf hn ih hmem hst

/-! ### a crash commutes with the steps of the other actors -/

theorem specNext_crashOf {sys : ActorSys σ η} {st : St σ η} {a : Action} {i j : Nat} {s : σ} {ns : Option σ}
    {cmds : List Cmd} (hij : i ≠ j) (hc : ∀ k, a ≠ .crash k) :
    specNext sys (crashOf i st) a j s ns cmds = (specNext sys st a j s ns cmds).map (crashOf i) := by
  unfold specNext
  simp only [crashOf, List.getElem?_set_ne hij]
  cases consume st.net a with
  | none => simp
  | some net =>
    cases st.timers[j]? with
    | none => simp
    | some ts =>
      cases st.random[j]? with
      | none => simp
      | some m =>
        simp only [Option.map_some, Option.some.injEq]
        simp [crashOf, List.set_comm _ _ hij]

theorem specStep_crashOf (sys : ActorSys σ η) (st : St σ η) (a : Action) (i : Nat)
    (hother : actorOfAction a ≠ some i) (hc : ∀ k, a ≠ .crash k) :
    specStep sys (crashOf i st) a = (specStep sys st a).map (crashOf i) := by
  have key : ∀ (j : Nat) (ev : Event), i ≠ j →
      specHandlerStep sys (crashOf i st) a j ev = (specHandlerStep sys st a j ev).map (crashOf i) := by
    intro j ev hij
    unfold specHandlerStep
    have h1 : (crashOf i st).actors = st.actors := rfl
    have h2 : (crashOf i st).crashed[j]? = st.crashed[j]? := by simp [crashOf, List.getElem?_set_ne hij]
    rw [h1, h2]
    cases st.actors[j]? with
    | none => simp only; split <;> rfl
    | some s =>
      simp only
      split
      · rfl
      · have : handler sys j s ev = handler sys j s ev := rfl
        cases handler sys j s ev with
        | panic => rfl
        | ok ns cmds =>
          simp only
          split
          · rfl
          · rw [specNext_crashOf hij hc]
            cases specNext sys st a j s ns cmds <;> rfl
  cases a with
  | drop e =>
    simp only [specStep, crashOf]
    cases st.net.onDrop e <;> rfl
  | crash k => exact absurd rfl (hc k)
  | deliver e =>
    simp only [specStep, eventOf]
    exact key e.dst _ (fun h => hother (by simp [actorOfAction, h]))
  | timeout j t =>
    simp only [specStep, eventOf]
    exact key j _ (fun h => hother (by simp [actorOfAction, h]))
  | selectRandom j k r =>
    simp only [specStep, eventOf]
    exact key j _ (fun h => hother (by simp [actorOfAction, h]))

end SR.Actor
