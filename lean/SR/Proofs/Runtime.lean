import SR.Runtime.Loop
/-! Invariants of the `spawn()` loop machine (C17 b). -/
namespace SR.Loop
open SR.IdCodec
variable {σ μ τ ρ : Type}

/-- the state the next handler will be given -/
def curSt : Option σ → List (Call σ μ τ ρ) → Option σ
  | cur, [] => cur
  | _, c :: r => curSt (some c.outSt) r

theorem curSt_append (cur : Option σ) (cs : List (Call σ μ τ ρ)) (c : Call σ μ τ ρ) :
    curSt cur (cs ++ [c]) = some c.outSt := by
  induction cs generalizing cur with
  | nil => rfl
  | cons x r ih => simp [curSt, ih]

theorem threaded_append (cur : Option σ) (cs : List (Call σ μ τ ρ)) (c : Call σ μ τ ρ) :
    Threaded cur (cs ++ [c]) ↔ Threaded cur cs ∧ c.inSt = curSt cur cs := by
  induction cs generalizing cur with
  | nil => simp [Threaded, curSt]
  | cons x r ih => simp [Threaded, curSt, ih, and_assoc]

theorem threaded_some_no_start (x : σ) (cs : List (Call σ μ τ ρ)) (h : Threaded (some x) cs) :
    ∀ c ∈ cs, c.isStart = false := by
  induction cs generalizing x with
  | nil => simp
  | cons c r ih =>
    intro c' hc'
    simp only [Threaded] at h
    rcases List.mem_cons.1 hc' with rfl | hm
    · cases c' <;> simp_all [Call.inSt, Call.isStart]
    · exact ih _ h.2 c' hm

theorem msgCalls_append (cs : List (Call σ μ τ ρ)) (c : Call σ μ τ ρ) :
    msgCalls (cs ++ [c]) = msgCalls cs ++ msgCalls [c] := by
  induction cs with
  | nil => simp [msgCalls]
  | cons x r ih => cases x <;> simp [msgCalls, ih]

theorem allCmds_append (cs : List (Call σ μ τ ρ)) (c : Call σ μ τ ρ) :
    allCmds (cs ++ [c]) = allCmds cs ++ c.cmds := by
  simp [allCmds]

variable [DecidableEq τ] [DecidableEq ρ]

omit [DecidableEq ρ] in
theorem lastOn_append (k : τ) (h : List (TObs τ)) (o : TObs τ) :
    lastOn k (h ++ [o]) = if o.key = k then some o else lastOn k h := by
  unfold lastOn
  by_cases hk : o.key = k
  · simp [List.filter_append, hk]
  · simp [List.filter_append, hk]

omit [DecidableEq ρ] in
/-- after an entry about `k`, the last entry about `k` is that entry or a later one -/
theorem lastOn_after (k : τ) (pre mid : List (TObs τ)) (x o : TObs τ) (hx : x.key = k)
    (h : lastOn k (pre ++ x :: mid) = some o) : o ∈ x :: mid := by
  unfold lastOn at h
  rw [List.filter_append, List.filter_cons, if_pos (by simp [hx]), List.getLast?_append,
    List.getLast?_cons] at h
  simp only [Option.some_or, Option.some.injEq] at h
  cases hf : (List.filter (fun o => decide (o.key = k)) mid).getLast? with
  | none => rw [hf] at h; simp at h; simp [h]
  | some y =>
    rw [hf] at h; simp at h; subst h
    exact List.mem_cons_of_mem _ (List.mem_filter.1 (List.mem_of_getLast? hf)).1

theorem mem_setInt {ints : List (Key τ ρ × Nat)} {k : Key τ ρ} {v : Nat} {e : Key τ ρ × Nat}
    (h : e ∈ setInt ints k v) : (e.1 ≠ k ∧ e ∈ ints) ∨ e = (k, v) := by
  unfold setInt at h
  split at h
  · simp only [List.mem_map] at h
    obtain ⟨x, hx, rfl⟩ := h
    by_cases hk : x.1 = k
    · simp [hk]
    · simp [hk, hx]
  · simp only [List.mem_append, List.mem_singleton] at h
    rcases h with h | h
    · rename_i hn
      simp only [List.any_eq_true, decide_eq_true_eq, not_exists, not_and] at hn
      exact Or.inl ⟨hn e h, h⟩
    · exact Or.inr h

theorem mem_modInt {ints : List (Key τ ρ × Nat)} {k : Key τ ρ} {v : Nat} {e : Key τ ρ × Nat}
    (h : e ∈ modInt ints k v) : (e.1 ≠ k ∧ e ∈ ints) ∨ (e = (k, v) ∧ ∃ d, (k, d) ∈ ints) := by
  unfold modInt at h
  simp only [List.mem_map] at h
  obtain ⟨x, hx, rfl⟩ := h
  by_cases hk : x.1 = k
  · right; simp only [hk, if_true, true_and]; exact ⟨x.2, by rw [← hk]; exact hx⟩
  · simp [hk, hx]

theorem mem_eraseInt {ints : List (Key τ ρ × Nat)} {k : Key τ ρ} {e : Key τ ρ × Nat} :
    e ∈ eraseInt ints k ↔ e ∈ ints ∧ e.1 ≠ k := by
  simp [eraseInt, List.mem_filter]

theorem mem_armMin {ints : List (Key τ ρ × Nat)} {k : Key τ ρ} {v : Nat} {e : Key τ ρ × Nat}
    (h : e ∈ armMin ints k v) : (e.1 ≠ k ∧ e ∈ ints) ∨ e.1 = k := by
  unfold armMin at h
  split at h
  · simp only [List.mem_map] at h
    obtain ⟨x, hx, rfl⟩ := h
    by_cases hk : x.1 = k
    · simp [hk]
    · simp [hk, hx]
  · simp only [List.mem_append, List.mem_singleton] at h
    rcases h with h | h
    · rename_i hn
      simp only [List.any_eq_true, decide_eq_true_eq, not_exists, not_and] at hn
      exact Or.inl ⟨hn e h, h⟩
    · right; simp [h]

theorem mem_foldl_armMin {vals : List ρ} {ints : List (Key τ ρ × Nat)} {t : Nat} {e : Key τ ρ × Nat}
    (h : e ∈ vals.foldl (fun acc v => armMin acc (.random v) t) ints) :
    e ∈ ints ∨ ∃ v, e.1 = .random v := by
  induction vals generalizing ints with
  | nil => exact Or.inl h
  | cons v r ih =>
    simp only [List.foldl] at h
    rcases ih h with h | h
    · rcases mem_armMin h with h | h
      · exact Or.inl h.2
      · exact Or.inr ⟨v, h⟩
    · exact Or.inr h

variable [DecidableEq σ]

/-! characterisation of the enabled steps -/
theorem step_start {C : Cfg μ} {s s' : St σ μ τ ρ} {t out cmds}
    (h : step C s (.start t out cmds) = some s') :
    s.dead = false ∧ s.st = none ∧ s.queue = [] ∧ s.now ≤ t ∧
    s' = { s with now := t, st := some out, queue := cmds, calls := s.calls ++ [.start t out cmds] } := by
  simp only [step] at h
  split at h
  · rename_i hc
    simp only [Bool.and_eq_true, Bool.not_eq_true', Option.isNone_iff_eq_none, List.isEmpty_iff, decide_eq_true_eq] at hc
    injection h with h
    exact ⟨hc.1.1.1, hc.1.1.2, hc.1.2, hc.2, h.symm⟩
  · cases h

theorem step_exec {C : Cfg μ} {s s' : St σ μ τ ρ} {t pick}
    (h : step C s (.exec t pick) = some s') :
    ∃ c q, s.queue = c :: q ∧ s.dead = false ∧ s.now ≤ t ∧ s' = execCmd C { s with now := t, queue := q } c t pick := by
  simp only [step] at h
  split at h
  · cases h
  · rename_i c q hq
    split at h
    · rename_i hc
      simp only [Bool.and_eq_true, Bool.not_eq_true', decide_eq_true_eq] at hc
      injection h with h
      exact ⟨c, q, hq, hc.1, hc.2, h.symm⟩
    · cases h

theorem step_msg {C : Cfg μ} {s s' : St σ μ τ ρ} {t a bytes stIn out cmds}
    (h : step C s (.msg t a bytes stIn out cmds) = some s') :
    ∃ m, C.de bytes = some m ∧ s.dead = false ∧ s.st = some stIn ∧ s.queue = [] ∧ s.now ≤ t ∧ recvBranch C s = true ∧
      s' = { s with now := t, st := some out, queue := cmds,
                    calls := s.calls ++ [.msg t stIn (idOf a) m out cmds],
                    recvd := s.recvd ++ [(.v4 a, bytes)] } := by
  simp only [step] at h
  split at h
  · cases h
  · rename_i m hm
    split at h
    · rename_i hc
      simp only [Bool.and_eq_true, Bool.not_eq_true', List.isEmpty_iff, decide_eq_true_eq] at hc
      injection h with h
      exact ⟨m, hm, hc.1.1.1.1, hc.1.1.1.2, hc.1.1.2, hc.1.2, hc.2, h.symm⟩
    · cases h

theorem step_drop {C : Cfg μ} {s s' : St σ μ τ ρ} {t src bytes}
    (h : step C s (.drop t src bytes) = some s') :
    s.dead = false ∧ s.st.isSome ∧ s.queue = [] ∧ s.now ≤ t ∧ (C.de bytes = none ∨ src = .other) ∧
      s' = { s with now := t, recvd := s.recvd ++ [(src, bytes)] } := by
  simp only [step] at h
  split at h
  · rename_i hc
    simp only [Bool.and_eq_true, Bool.not_eq_true', List.isEmpty_iff, decide_eq_true_eq, Bool.or_eq_true,
      Option.isNone_iff_eq_none] at hc
    injection h with h
    exact ⟨hc.1.1.1.1.1, hc.1.1.1.1.2, hc.1.1.1.2, hc.1.1.2, hc.2, h.symm⟩
  · cases h

theorem step_idle {C : Cfg μ} {s s' : St σ μ τ ρ} {t}
    (h : step C s (.idle t) = some s') :
    s.dead = false ∧ s.st.isSome ∧ s.queue = [] ∧ s.now ≤ t ∧ s' = { s with now := t } := by
  simp only [step] at h
  split at h
  · rename_i hc
    simp only [Bool.and_eq_true, Bool.not_eq_true', List.isEmpty_iff, decide_eq_true_eq] at hc
    injection h with h
    exact ⟨hc.1.1.1.1, hc.1.1.1.2, hc.1.1.2, hc.1.2, h.symm⟩
  · cases h

theorem step_zeroWait {C : Cfg μ} {s s' : St σ μ τ ρ} {t}
    (h : step C s (.zeroWait t) = some s') :
    s.dead = false ∧ s.st.isSome ∧ s.queue = [] ∧ s.now ≤ t ∧ s' = { s with now := t, dead := true } := by
  simp only [step] at h
  split at h
  · rename_i hc
    simp only [Bool.and_eq_true, Bool.not_eq_true', List.isEmpty_iff, decide_eq_true_eq] at hc
    injection h with h
    exact ⟨hc.1.1.1.1, hc.1.1.1.2, hc.1.1.2, hc.1.2, h.symm⟩
  · cases h

theorem step_fire {C : Cfg μ} {s s' : St σ μ τ ρ} {t k stIn out cmds}
    (h : step C s (.fire t k stIn out cmds) = some s') :
    s.dead = false ∧ s.st = some stIn ∧ s.queue = [] ∧ s.now ≤ t ∧ fireable C s k t = true ∧
      s' = { s with now := t, st := some out, queue := cmds, ints := eraseInt s.ints k,
                    calls := s.calls ++ [fireCall t k stIn out cmds],
                    hist := s.hist ++ fireHist t k } := by
  simp only [step] at h
  split at h
  · rename_i hc
    simp only [Bool.and_eq_true, Bool.not_eq_true', List.isEmpty_iff, decide_eq_true_eq] at hc
    injection h with h
    exact ⟨hc.1.1.1.1, hc.1.1.1.2, hc.1.1.2, hc.1.2, hc.2, h.symm⟩
  · cases h

/-- what the history says about an entry `(timeout k, d)` of the interrupt map -/
def TimerOK (C : Cfg μ) (k : τ) (d : Nat) (h : List (TObs τ)) : Prop :=
  (∃ t0 lo, lastOn k h = some (.armed k t0 lo) ∧ t0 + lo ≤ d) ∨
  (∃ t0, lastOn k h = some (.cancelled k t0) ∧ t0 + C.never ≤ d)

/-- what must precede a `fired k t` entry -/
def FiredOK (C : Cfg μ) (k : τ) (t : Nat) (pre : List (TObs τ)) : Prop :=
  (∃ t0 lo, lastOn k pre = some (.armed k t0 lo) ∧ t0 + lo < t) ∨
  (∃ t0, lastOn k pre = some (.cancelled k t0) ∧ t0 + C.never < t)

structure Inv (C : Cfg μ) (s : St σ μ τ ρ) : Prop where
  thr : Threaded none s.calls
  cur : s.st = curSt none s.calls
  msgs : msgCalls s.calls = s.recvd.filterMap (decodeDatagram C)
  sends : s.sent ++ s.queue.filterMap (sendOf C) = (allCmds s.calls).filterMap (sendOf C)
  tim : ∀ k d, (Key.timeout k, d) ∈ s.ints → TimerOK C k d s.hist
  histT : ∀ o ∈ s.hist, o.time ≤ s.now
  fired : ∀ pre post k t, s.hist = pre ++ .fired k t :: post → FiredOK C k t pre
  quiet : s.calls = [] → s.sent = [] ∧ s.recvd = [] ∧ s.ints = [] ∧ s.hist = [] ∧ s.queue = []
  sorted : s.hist.Pairwise (fun a b => a.time ≤ b.time)

theorem inv_init (C : Cfg μ) : Inv C (init : St σ μ τ ρ) := by
  refine ⟨trivial, rfl, rfl, rfl, ?_, ?_, ?_, ?_, ?_⟩
  · intro k d h; cases h
  · intro o h; cases h
  · intro pre post k t h; simp [init] at h
  · intro _; simp [init]
  · simp [init]

omit [DecidableEq ρ] [DecidableEq τ] [DecidableEq σ] in
theorem append_singleton_split {α : Type} {l pre post : List α} {x y : α}
    (h : l ++ [x] = pre ++ y :: post) :
    (post = [] ∧ pre = l ∧ x = y) ∨ ∃ post', post = post' ++ [x] ∧ l = pre ++ y :: post' := by
  rcases List.append_eq_append_iff.1 h with ⟨a', h1, h2⟩ | ⟨c', h1, h2⟩
  · cases a' with
    | nil => simp at h2; left; simp [h1, h2]
    | cons z a'' =>
      have := congrArg List.length h2
      simp at this
  · cases c' with
    | nil => simp at h2; left; simp [h1, h2]
    | cons z c'' =>
      simp at h2
      right; exact ⟨c'', h2.2, by simp [h1, h2.1]⟩

/-- fields `execCmd` never touches -/
theorem execCmd_frame (C : Cfg μ) (s : St σ μ τ ρ) (c : Cmd μ τ ρ) (t pick : Nat) :
    (execCmd C s c t pick).calls = s.calls ∧ (execCmd C s c t pick).st = s.st ∧
    (execCmd C s c t pick).recvd = s.recvd ∧ (execCmd C s c t pick).queue = s.queue ∧
    (execCmd C s c t pick).now = s.now ∧ (execCmd C s c t pick).dead = s.dead := by
  cases c with
  | send dst m => simp only [execCmd]; split <;> simp
  | set k lo hi => simp [execCmd]
  | cancel k => simp [execCmd]
  | choose key vals =>
    simp only [execCmd]
    split
    · simp
    · split <;> simp

theorem execCmd_sent (C : Cfg μ) (s : St σ μ τ ρ) (c : Cmd μ τ ρ) (t pick : Nat) :
    (execCmd C s c t pick).sent = s.sent ++ (sendOf C c).toList := by
  cases c with
  | send dst m =>
    simp only [execCmd, sendOf]
    cases C.ser m <;> simp
  | set k lo hi => simp [execCmd, sendOf]
  | cancel k => simp [execCmd, sendOf]
  | choose key vals =>
    simp only [execCmd, sendOf]
    split
    · simp
    · split <;> simp

/-- the history grows by at most one entry, never a `fired`, stamped `t` -/
theorem execCmd_hist (C : Cfg μ) (s : St σ μ τ ρ) (c : Cmd μ τ ρ) (t pick : Nat) :
    (execCmd C s c t pick).hist = s.hist ∨
    ∃ o, (execCmd C s c t pick).hist = s.hist ++ [o] ∧ o.time = t ∧ (∀ k t', o ≠ .fired k t') := by
  cases c with
  | send dst m => left; simp only [execCmd]; split <;> rfl
  | set k lo hi => right; exact ⟨.armed k t lo, by simp [execCmd], rfl, by intro _ _ h; cases h⟩
  | cancel k => right; exact ⟨.cancelled k t, by simp [execCmd], rfl, by intro _ _ h; cases h⟩
  | choose key vals =>
    left
    simp only [execCmd]
    split
    · rfl
    · split <;> rfl

theorem execCmd_tim (C : Cfg μ) (s : St σ μ τ ρ) (c : Cmd μ τ ρ) (t pick : Nat)
    (h : ∀ k d, (Key.timeout k, d) ∈ s.ints → TimerOK C k d s.hist) :
    ∀ k d, (Key.timeout k, d) ∈ (execCmd C s c t pick).ints → TimerOK C k d (execCmd C s c t pick).hist := by
  intro k d hm
  cases c with
  | send dst m =>
    have : execCmd C s (.send dst m) t pick = s ∨ ∃ b, execCmd C s (.send dst m) t pick = { s with sent := s.sent ++ [(addrOf dst, b)] } := by
      simp only [execCmd]; cases C.ser m <;> simp
    rcases this with e | ⟨b, e⟩ <;> rw [e] at hm ⊢ <;> exact h k d hm
  | set k' lo hi =>
    simp only [execCmd] at hm ⊢
    rcases mem_setInt hm with ⟨hne, hin⟩ | heq
    · have hk : k' ≠ k := by intro e; apply hne; simp [e]
      have := h k d hin
      unfold TimerOK at this ⊢
      simpa [lastOn_append, TObs.key, hk] using this
    · injection heq with h1 h2
      injection h1 with h1
      subst h1
      left
      refine ⟨t, lo, by simp [lastOn_append, TObs.key], ?_⟩
      subst h2
      split <;> omega
  | cancel k' =>
    simp only [execCmd] at hm ⊢
    rcases mem_modInt hm with ⟨hne, hin⟩ | ⟨heq, _⟩
    · have hk : k' ≠ k := by intro e; apply hne; simp [e]
      have := h k d hin
      unfold TimerOK at this ⊢
      simpa [lastOn_append, TObs.key, hk] using this
    · injection heq with h1 h2
      injection h1 with h1
      subst h1
      right
      exact ⟨t, by simp [lastOn_append, TObs.key], by omega⟩
  | choose key vals =>
    simp only [execCmd] at hm ⊢
    split at hm
    · exact h k d hm
    · rename_i v0 rest
      split at hm
      · rename_i hs
        simp only [hs, if_true]
        rcases mem_setInt hm with ⟨_, hin⟩ | heq
        · exact h k d hin
        · injection heq with h1 _; cases h1
      · rename_i hs
        simp only [hs]
        rcases mem_foldl_armMin hm with hin | ⟨v, heq⟩
        · exact h k d hin
        · cases heq

omit [DecidableEq ρ] [DecidableEq σ] in
theorem fired_of_append {C : Cfg μ} {h : List (TObs τ)} {o : TObs τ}
    (ih : ∀ pre post k t, h = pre ++ .fired k t :: post → FiredOK C k t pre)
    (ho : ∀ k t, o = .fired k t → FiredOK C k t h) :
    ∀ pre post k t, h ++ [o] = pre ++ .fired k t :: post → FiredOK C k t pre := by
  intro pre post k t e
  rcases append_singleton_split e with ⟨_, hpre, hx⟩ | ⟨post', _, hl⟩
  · subst hpre; exact ho k t hx
  · exact ih pre post' k t hl

omit [DecidableEq ρ] [DecidableEq σ] [DecidableEq τ] in
theorem sorted_append {h : List (TObs τ)} {o : TObs τ} {now : Nat}
    (hs : h.Pairwise (fun a b => a.time ≤ b.time)) (hb : ∀ x ∈ h, x.time ≤ now) (ho : now ≤ o.time) :
    (h ++ [o]).Pairwise (fun a b => a.time ≤ b.time) := by
  rw [List.pairwise_append]
  refine ⟨hs, by simp, ?_⟩
  intro a ha b hb'
  simp at hb'; subst hb'
  exact Nat.le_trans (hb a ha) ho

theorem inv_exec {C : Cfg μ} {s : St σ μ τ ρ} {c q t pick} (hi : Inv C s)
    (hq : s.queue = c :: q) (ht : s.now ≤ t) :
    Inv C (execCmd C { s with now := t, queue := q } c t pick) := by
  obtain ⟨f1, f2, f3, f4, f5, f6⟩ := execCmd_frame C { s with now := t, queue := q } c t pick
  refine ⟨?_, ?_, ?_, ?_, ?_, ?_, ?_, ?_, ?_⟩
  · rw [f1]; exact hi.thr
  · rw [f1, f2]; exact hi.cur
  · rw [f1, f3]; exact hi.msgs
  · rw [f1, f4, execCmd_sent]
    have := hi.sends
    rw [hq] at this
    simp only [List.filterMap_cons] at this
    rw [← this]
    cases sendOf C c <;> simp
  · exact execCmd_tim C _ c t pick hi.tim
  · rw [f5]
    intro o ho
    rcases execCmd_hist C { s with now := t, queue := q } c t pick with e | ⟨o', e, ho', _⟩
    · rw [e] at ho; exact Nat.le_trans (hi.histT o ho) ht
    · rw [e] at ho
      rcases List.mem_append.1 ho with h | h
      · exact Nat.le_trans (hi.histT o h) ht
      · simp at h; subst h; simp [ho']
  · rcases execCmd_hist C { s with now := t, queue := q } c t pick with e | ⟨o', e, _, hnf⟩
    · rw [e]; exact hi.fired
    · rw [e]
      exact fired_of_append hi.fired (fun k t' h => absurd h (hnf k t'))
  · rw [f1]
    intro hc
    have := (hi.quiet hc).2.2.2.2
    rw [hq] at this; cases this
  · rcases execCmd_hist C { s with now := t, queue := q } c t pick with e | ⟨o', e, ho', _⟩
    · rw [e]; exact hi.sorted
    · rw [e]; exact sorted_append hi.sorted hi.histT (by rw [ho']; exact ht)

omit [DecidableEq ρ] [DecidableEq τ] [DecidableEq σ] in
theorem curSt_none_eq_none {cs : List (Call σ μ τ ρ)} (h : curSt none cs = none) : cs = [] := by
  cases cs with
  | nil => rfl
  | cons c r =>
    exfalso
    have : ∀ (x : σ) (l : List (Call σ μ τ ρ)), curSt (some x) l ≠ none := by
      intro x l
      induction l generalizing x with
      | nil => simp [curSt]
      | cons a b ih => simp only [curSt]; exact ih _
    exact this _ _ h

theorem inv_step {C : Cfg μ} {s s' : St σ μ τ ρ} {e : Ev σ μ τ ρ} (hi : Inv C s)
    (h : step C s e = some s') : Inv C s' := by
  cases e with
  | start t out cmds =>
    obtain ⟨_, hst, hq, ht, rfl⟩ := step_start h
    have hc : s.calls = [] := curSt_none_eq_none (by rw [← hi.cur]; exact hst)
    obtain ⟨q1, q2, q3, q4, _⟩ := hi.quiet hc
    refine ⟨?_, ?_, ?_, ?_, ?_, ?_, ?_, ?_, ?_⟩
    · simp [hc, Threaded, Call.inSt]
    · simp [hc, curSt, Call.outSt]
    · simp [hc, msgCalls, q2]
    · simp [hc, q1, allCmds, Call.cmds]
    · intro k d hm; simp [q3] at hm
    · intro o ho; simp [q4] at ho
    · intro pre post k t' e; simp [q4] at e
    · intro e; simp at e
    · simp [q4]
  | exec t pick =>
    obtain ⟨c, q, hq, _, ht, rfl⟩ := step_exec h
    exact inv_exec hi hq ht
  | msg t a bytes stIn out cmds =>
    obtain ⟨m, hm, _, hst, hq, ht, _, rfl⟩ := step_msg h
    refine ⟨?_, ?_, ?_, ?_, ?_, ?_, ?_, ?_, ?_⟩
    · simp only [threaded_append, Call.inSt]; exact ⟨hi.thr, by rw [← hi.cur, hst]⟩
    · simp [curSt_append, Call.outSt]
    · simp only [msgCalls_append, msgCalls, List.filterMap_append, hi.msgs]
      simp [decodeDatagram, hm]
    · have := hi.sends
      rw [hq] at this
      simp only [allCmds_append, List.filterMap_append, Call.cmds, ← this]
      simp
    · exact hi.tim
    · intro o ho; exact Nat.le_trans (hi.histT o ho) ht
    · exact hi.fired
    · intro e; simp at e
    · exact hi.sorted
  | drop t src bytes =>
    obtain ⟨_, hst, hq, ht, hd, rfl⟩ := step_drop h
    refine ⟨hi.thr, hi.cur, ?_, hi.sends, hi.tim, ?_, hi.fired, ?_, hi.sorted⟩
    · simp only [List.filterMap_append, hi.msgs]
      have : decodeDatagram C (src, bytes) = none := by
        rcases hd with hd | hd
        · cases src <;> simp [decodeDatagram, hd]
        · subst hd; rfl
      simp [this]
    · intro o ho; exact Nat.le_trans (hi.histT o ho) ht
    · intro hc
      have := hi.cur
      rw [hc] at this
      simp [curSt] at this
      rw [this] at hst; cases hst
  | idle t =>
    obtain ⟨_, hst, hq, ht, rfl⟩ := step_idle h
    refine ⟨hi.thr, hi.cur, hi.msgs, hi.sends, hi.tim, ?_, hi.fired, hi.quiet, hi.sorted⟩
    intro o ho; exact Nat.le_trans (hi.histT o ho) ht
  | zeroWait t =>
    obtain ⟨_, hst, hq, ht, rfl⟩ := step_zeroWait h
    refine ⟨hi.thr, hi.cur, hi.msgs, hi.sends, hi.tim, ?_, hi.fired, hi.quiet, hi.sorted⟩
    intro o ho; exact Nat.le_trans (hi.histT o ho) ht
  | fire t k stIn out cmds =>
    obtain ⟨_, hst, hq, ht, hf, rfl⟩ := step_fire h
    have hsends : s.sent ++ List.filterMap (sendOf C) cmds =
        List.filterMap (sendOf C) (allCmds (s.calls ++ [fireCall t k stIn out cmds])) := by
      have := hi.sends
      rw [hq] at this
      simp only [allCmds_append, List.filterMap_append, ← this]
      cases k <;> simp [fireCall, Call.cmds]
    have htim : ∀ k' d, (Key.timeout k', d) ∈ eraseInt s.ints k → TimerOK C k' d (s.hist ++ fireHist t k) := by
      intro k' d hm
      obtain ⟨hin, hne⟩ := mem_eraseInt.1 hm
      have := hi.tim k' d hin
      cases k with
      | timeout x =>
        have hk : x ≠ k' := by intro e; apply hne; simp [e]
        unfold TimerOK at this ⊢
        simpa [fireHist, lastOn_append, TObs.key, hk] using this
      | random r => simpa [fireHist] using this
    refine ⟨?_, ?_, ?_, hsends, htim, ?_, ?_, ?_, ?_⟩
    · simp only [threaded_append]
      refine ⟨hi.thr, ?_⟩
      rw [← hi.cur, hst]; cases k <;> rfl
    · rw [curSt_append]; cases k <;> rfl
    · simp only [msgCalls_append, hi.msgs]
      cases k <;> simp [fireCall, msgCalls]
    · intro o ho
      rcases List.mem_append.1 ho with h' | h'
      · exact Nat.le_trans (hi.histT o h') ht
      · cases k with
        | timeout x => simp [fireHist] at h'; subst h'; simp [TObs.time]
        | random r => simp [fireHist] at h'
    · cases k with
      | random r => simpa [fireHist] using hi.fired
      | timeout x =>
        simp only [fireHist]
        apply fired_of_append hi.fired
        intro k' t' e
        injection e with e1 e2
        subst e1 e2
        -- the entry that fired is in the map and overdue
        simp only [fireable, List.any_eq_true, Bool.and_eq_true, decide_eq_true_eq] at hf
        obtain ⟨⟨k0, d⟩, hin, ⟨hk0, hd⟩, _⟩ := hf
        simp only at hk0 hd
        subst hk0
        rcases hi.tim x d hin with ⟨t0, lo, h1, h2⟩ | ⟨t0, h1, h2⟩
        · left; exact ⟨t0, lo, h1, by omega⟩
        · right; exact ⟨t0, h1, by omega⟩
    · intro e; simp at e
    · cases k with
      | random r => simpa [fireHist] using hi.sorted
      | timeout x => exact sorted_append hi.sorted hi.histT (by simpa [TObs.time] using ht)

theorem inv_run {C : Cfg μ} {s s' : St σ μ τ ρ} {es : List (Ev σ μ τ ρ)} (hi : Inv C s)
    (h : run C s es = some s') : Inv C s' := by
  induction es generalizing s with
  | nil => simp [run] at h; subst h; exact hi
  | cons e r ih =>
    simp only [run] at h
    split at h
    · cases h
    · rename_i s1 hs1
      exact ih (inv_step hi hs1) h

end SR.Loop
