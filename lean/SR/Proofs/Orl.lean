import SR.Actor.Orl
/-! Helper lemmas for C16: association lists, ghost logs, `processOutput`, the effect of one handler call,
and the invariant `WInv` of the protocol machine (proved for `init` and preserved by every `step`). -/
namespace SR.Orl

variable {μ σ : Type}

/-! ### association lists -/

theorem getD_filter_ne {κ : Type} [DecidableEq κ] (m : List (κ × Nat)) (k k' : κ) (d : Nat) (h : k' ≠ k) :
    getD (m.filter (fun e => decide (e.1 ≠ k))) k' d = getD m k' d := by
  induction m with
  | nil => rfl
  | cons e r ih =>
    obtain ⟨k0, v⟩ := e
    simp only [List.filter_cons]
    by_cases h0 : k0 = k
    · grind [getD]
    · grind [getD]

theorem getD_put {κ : Type} [DecidableEq κ] (m : List (κ × Nat)) (k k' : κ) (v d : Nat) :
    getD (put m k v) k' d = if k' = k then v else getD m k' d := by
  unfold put
  by_cases h : k' = k
  · subst h; simp [getD]
  · have : k ≠ k' := fun h' => h h'.symm
    simp only [getD, this, if_false, h, getD_filter_ne _ _ _ _ h]

theorem mem_put {κ ν : Type} [DecidableEq κ] (m : List (κ × ν)) (k : κ) (v : ν) (e : κ × ν) :
    e ∈ put m k v ↔ e = (k, v) ∨ (e ∈ m ∧ e.1 ≠ k) := by
  simp [put, List.mem_filter]

theorem mem_del {κ ν : Type} [DecidableEq κ] (m : List (κ × ν)) (k : κ) (e : κ × ν) :
    e ∈ del m k ↔ e ∈ m ∧ e.1 ≠ k := by
  simp [del, List.mem_filter]

/-! ### lists -/

theorem take_of_prefix {α : Type} {l l' : List α} (h : l <+: l') {k : Nat} (hk : k ≤ l.length) :
    l'.take k = l.take k := by
  obtain ⟨t, rfl⟩ := h
  simp [List.take_append, Nat.sub_eq_zero_of_le hk]

theorem getElem?_of_prefix {α : Type} {l l' : List α} (h : l <+: l') {i : Nat} {x : α}
    (hx : l[i]? = some x) : l'[i]? = some x := by
  obtain ⟨t, rfl⟩ := h
  have : i < l.length := by
    rcases Nat.lt_or_ge i l.length with h | h
    · exact h
    · simp [List.getElem?_eq_none h] at hx
  simp [List.getElem?_append_left this, hx]

theorem take_succ_of_getElem? {α : Type} {l : List α} {k : Nat} {x : α} (h : l[k]? = some x) :
    l.take (k + 1) = l.take k ++ [x] := by
  simp [List.take_add_one, h]

/-! ### ghost logs -/

theorem sentTo_append (nd : Node μ σ) (x : Id × μ) (d : Id) (s' : List (Id × μ))
    (hs : s' = nd.sent ++ [x]) (nd' : Node μ σ) (h : nd'.sent = s') :
    sentTo nd' d = if x.1 = d then sentTo nd d ++ [x.2] else sentTo nd d := by
  subst hs
  unfold sentTo
  rw [h]
  by_cases hx : x.1 = d <;> simp [List.filter_append, hx]

theorem handedFrom_append (nd nd' : Node μ σ) (x : Id × Nat × μ) (s : Id)
    (h : nd'.handed = nd.handed ++ [x]) :
    handedFrom nd' s = if x.1 = s then handedFrom nd s ++ [x.2] else handedFrom nd s := by
  unfold handedFrom
  rw [h]
  by_cases hx : x.1 = s <;> simp [List.filter_append, hx]

/-! ### the send side of one node, `processOutput` -/

/-- send-side invariant of one node: sequencers count the ghost log, pending messages are logged messages -/
structure SInv (nd : Node μ σ) : Prop where
  next : ∀ d, getD nd.nextSeq d 1 = (sentTo nd d).length + 1
  pend : ∀ d q m, ((d, q), m) ∈ nd.pending → 1 ≤ q ∧ (sentTo nd d)[q - 1]? = some m

/-- what `processOutput` guarantees -/
structure PO (nd nd' : Node μ σ) (out : List (OCmd μ)) : Prop where
  sinv : SInv nd'
  lastDel : nd'.lastDel = nd.lastDel
  handed : nd'.handed = nd.handed
  pre : ∀ d, sentTo nd d <+: sentTo nd' d
  keep : ∀ e ∈ nd.pending, e ∈ nd'.pending
  fresh : ∀ d q, (sentTo nd d).length < q → q ≤ (sentTo nd' d).length → ∃ m, ((d, q), m) ∈ nd'.pending
  out : ∀ c ∈ out, ∃ d q m, c = OCmd.send d (Env.deliver q m) ∧ 1 ≤ q ∧ (sentTo nd' d)[q - 1]? = some m

theorem PO.refl {nd : Node μ σ} (h : SInv nd) : PO nd nd [] :=
  ⟨h, rfl, rfl, fun _ => List.prefix_refl _, fun _ h => h, fun d q h1 h2 => by omega, fun c hc => by simp at hc⟩

theorem PO.trans {nd nd1 nd2 : Node μ σ} {o1 o2 : List (OCmd μ)} (h1 : PO nd nd1 o1) (h2 : PO nd1 nd2 o2) :
    PO nd nd2 (o1 ++ o2) where
  sinv := h2.sinv
  lastDel := h2.lastDel.trans h1.lastDel
  handed := h2.handed.trans h1.handed
  pre := fun d => (h1.pre d).trans (h2.pre d)
  keep := fun e he => h2.keep e (h1.keep e he)
  fresh := fun d q hlt hle => by
    by_cases hq : q ≤ (sentTo nd1 d).length
    · obtain ⟨m, hm⟩ := h1.fresh d q hlt hq
      exact ⟨m, h2.keep _ hm⟩
    · exact h2.fresh d q (by omega) hle
  out := fun c hc => by
    rcases List.mem_append.mp hc with hc | hc
    · obtain ⟨d, q, m, rfl, hq, hm⟩ := h1.out c hc
      exact ⟨d, q, m, rfl, hq, getElem?_of_prefix (h2.pre d) hm⟩
    · exact h2.out c hc

theorem sendOne_PO [DecidableEq μ] (nd : Node μ σ) (h : SInv nd) (dst : Id) (m : μ) :
    PO nd (sendOne nd dst m) [OCmd.send dst (Env.deliver (getD nd.nextSeq dst 1) m)] := by
  have hst : ∀ d, sentTo (sendOne nd dst m) d = if dst = d then sentTo nd d ++ [m] else sentTo nd d :=
    fun d => sentTo_append nd (dst, m) d _ rfl _ rfl
  unfold sendOne at *
  have hn := h.next dst
  refine ⟨⟨?_, ?_⟩, rfl, rfl, ?_, ?_, ?_, ?_⟩
  · intro d
    rw [hst]
    simp only [getD_put]
    by_cases hd : d = dst
    · subst hd; simp [hn]
    · have : dst ≠ d := fun h' => hd h'.symm
      simp [hd, this, h.next d]
  · intro d q m' hm
    rw [hst]
    rcases (mem_put _ _ _ _).mp hm with he | ⟨he, _⟩
    · cases he
      simp [hn]
    · obtain ⟨h1, h2⟩ := h.pend d q m' he
      refine ⟨h1, ?_⟩
      by_cases hd : dst = d
      · simp only [hd, if_true]
        exact getElem?_of_prefix (List.prefix_append _ _) h2
      · simp [hd, h2]
  · intro d
    rw [hst]
    by_cases hd : dst = d <;> simp [hd]
  · intro e he
    refine (mem_put _ _ _ _).mpr (Or.inr ⟨he, ?_⟩)
    obtain ⟨⟨d, q⟩, m'⟩ := e
    intro heq
    cases heq
    have := h.pend _ _ _ he
    have hlt : getD nd.nextSeq dst 1 - 1 < (sentTo nd dst).length := by
      rcases Nat.lt_or_ge (getD nd.nextSeq dst 1 - 1) (sentTo nd dst).length with h' | h'
      · exact h'
      · simp [List.getElem?_eq_none h'] at this
    omega
  · intro d q hlt hle
    rw [hst] at hle
    by_cases hd : dst = d
    · subst hd
      simp at hle
      have : q = getD nd.nextSeq dst 1 := by omega
      subst this
      exact ⟨m, (mem_put _ _ _ _).mpr (Or.inl rfl)⟩
    · simp [hd] at hle; omega
  · intro c hc
    simp at hc
    subst hc
    refine ⟨dst, _, m, rfl, by omega, ?_⟩
    rw [hst]
    simp [hn]

theorem processOutput_PO [DecidableEq μ] (cmds : List (WCmd μ)) :
    ∀ (nd nd' : Node μ σ) (out : List (OCmd μ)), SInv nd → processOutput nd cmds = some (nd', out) → PO nd nd' out := by
  induction cmds with
  | nil =>
    intro nd nd' out h hp
    simp [processOutput] at hp
    obtain ⟨rfl, rfl⟩ := hp
    exact PO.refl h
  | cons c rest ih =>
    intro nd nd' out h hp
    cases c with
    | unsupported => simp [processOutput] at hp
    | send dst m =>
      simp only [processOutput] at hp
      split at hp
      · cases hp
      · rename_i nd'' out' heq
        cases hp
        have h1 := sendOne_PO nd h dst m
        have h2 := ih _ _ _ h1.sinv heq
        exact h1.trans h2
/-! ### one handler call -/

theorem mem_sends (b : Id) (out : List (OCmd μ)) (p : Packet μ) :
    p ∈ sends b out ↔ ∃ d e, OCmd.send d e ∈ out ∧ p = ⟨b, d, e⟩ := by
  induction out with
  | nil => simp [sends]
  | cons c r ih =>
    cases c with
    | setTimer => simp [sends, ih]
    | send d e =>
      simp only [sends, List.mem_cons, ih]
      constructor
      · rintro (h | ⟨d', e', h, rfl⟩)
        · exact ⟨d, e, Or.inl rfl, h⟩
        · exact ⟨d', e', Or.inr h, rfl⟩
      · rintro ⟨d', e', h | h, rfl⟩
        · cases h; exact Or.inl rfl
        · exact Or.inr ⟨d', e', h, rfl⟩

/-- the effect of one `on_msg` of the wrapper at node `b` for a message `env` from `a` -/
structure Eff (b a : Id) (env : Env μ) (nd nd' : Node μ σ) (out : List (Packet μ)) : Prop where
  sinv : SInv nd'
  pre : ∀ d, sentTo nd d <+: sentTo nd' d
  recvOther : ∀ s, s ≠ a → getD nd'.lastDel s 0 = getD nd.lastDel s 0 ∧ handedFrom nd' s = handedFrom nd s
  recvSame : (getD nd'.lastDel a 0 = getD nd.lastDel a 0 ∧ handedFrom nd' a = handedFrom nd a) ∨
    (∃ m, env = Env.deliver (getD nd.lastDel a 0 + 1) m ∧ getD nd'.lastDel a 0 = getD nd.lastDel a 0 + 1 ∧
      handedFrom nd' a = handedFrom nd a ++ [(getD nd.lastDel a 0 + 1, m)])
  keep : ∀ d q m, ((d, q), m) ∈ nd.pending → ((d, q), m) ∈ nd'.pending ∨ (d = a ∧ env = Env.ack q)
  fresh : ∀ d q, (sentTo nd d).length < q → q ≤ (sentTo nd' d).length → ∃ m, ((d, q), m) ∈ nd'.pending
  outDlv : ∀ s d q m, (⟨s, d, Env.deliver q m⟩ : Packet μ) ∈ out → s = b ∧ 1 ≤ q ∧ (sentTo nd' d)[q - 1]? = some m
  outAck : ∀ s d q, (⟨s, d, Env.ack q⟩ : Packet μ) ∈ out →
    s = b ∧ d = a ∧ (∃ m, env = Env.deliver q m) ∧ q ≤ getD nd'.lastDel a 0

theorem Eff.same (b a : Id) (env : Env μ) (nd : Node μ σ) (h : SInv nd) : Eff b a env nd nd [] :=
  ⟨h, fun _ => List.prefix_refl _, fun _ _ => ⟨rfl, rfl⟩, Or.inl ⟨rfl, rfl⟩, fun _ _ _ h => Or.inl h,
   fun _ _ h1 h2 => by omega, fun _ _ _ _ h => by simp at h, fun _ _ _ h => by simp at h⟩


theorem sentTo_congr {nd nd' : Node μ σ} (h : nd'.sent = nd.sent) (d : Id) : sentTo nd' d = sentTo nd d := by
  simp [sentTo, h]

theorem handedFrom_congr {nd nd' : Node μ σ} (h : nd'.handed = nd.handed) (s : Id) :
    handedFrom nd' s = handedFrom nd s := by
  simp [handedFrom, h]

theorem accept_eff [DecidableEq μ] (b a seq : Nat) (m : μ) (nd nd1 nd2 nd3 : Node μ σ) (cmds : List (WCmd μ))
    (out : List (OCmd μ))
    (e1 : nd1.nextSeq = nd.nextSeq) (e2 : nd1.pending = nd.pending) (e3 : nd1.lastDel = nd.lastDel)
    (e4 : nd1.handed = nd.handed) (e5 : nd1.sent = nd.sent)
    (hseq : seq = getD nd.lastDel a 0 + 1)
    (h2 : nd2 = { nd1 with lastDel := put nd1.lastDel a seq, handed := nd1.handed ++ [(a, seq, m)] })
    (hp : processOutput nd2 cmds = some (nd3, out)) (hs : SInv nd) :
    Eff b a (Env.deliver seq m) nd nd3 (sends b (OCmd.send a (Env.ack seq) :: out)) := by
  have s2 : ∀ d, sentTo nd2 d = sentTo nd d := fun d => sentTo_congr (by rw [h2]; exact e5) d
  have hs2 : SInv nd2 := by
    refine ⟨fun d => ?_, fun d q m' hm => ?_⟩
    · rw [s2, ← hs.next d, h2]; simp [e1]
    · rw [s2]; apply hs.pend; rw [← e2]; rw [h2] at hm; exact hm
  have po := processOutput_PO cmds nd2 nd3 out hs2 hp
  have hl : ∀ s, getD nd3.lastDel s 0 = if s = a then seq else getD nd.lastDel s 0 := by
    intro s; rw [po.lastDel, h2]; simp only [getD_put, e3]
  have hh : ∀ s, handedFrom nd3 s = if a = s then handedFrom nd s ++ [(seq, m)] else handedFrom nd s := by
    intro s
    rw [handedFrom_congr po.handed, handedFrom_append nd nd2 (a, seq, m) s (by rw [h2]; simp [e4])]
  refine ⟨po.sinv, fun d => by rw [← s2 d]; exact po.pre d, ?_, ?_, ?_, ?_, ?_, ?_⟩
  · intro s hsa
    have : a ≠ s := fun h => hsa h.symm
    rw [hl, hh]; simp [hsa, this]
  · right
    refine ⟨m, by rw [hseq], ?_, ?_⟩
    · rw [hl]; simp [hseq]
    · rw [hh]; simp [hseq]
  · intro d q m' hm
    left
    apply po.keep
    rw [h2]; simp only; rw [e2]; exact hm
  · intro d q h1 h2'
    rw [← s2 d] at h1
    exact po.fresh d q h1 h2'
  · intro s d q m' hm
    simp only [sends, List.mem_cons, Packet.mk.injEq, reduceCtorEq, and_false, false_or] at hm
    obtain ⟨d', e', hc, hpk⟩ := (mem_sends _ _ _).mp hm
    cases hpk
    obtain ⟨d'', q'', m'', hceq, hq, hm''⟩ := po.out _ hc
    cases hceq
    exact ⟨rfl, hq, hm''⟩
  · intro s d q hm
    simp only [sends, List.mem_cons] at hm
    rcases hm with hm | hm
    · cases hm
      refine ⟨rfl, rfl, ⟨m, rfl⟩, ?_⟩
      rw [hl]; simp
    · obtain ⟨d', e', hc, hpk⟩ := (mem_sends _ _ _).mp hm
      cases hpk
      obtain ⟨d'', q'', m'', hceq, _, _⟩ := po.out _ hc
      cases hceq

theorem onMsg_eff [DecidableEq μ] (W : Wrapped μ σ) (b a : Id) (env : Env μ) (nd : Node μ σ)
    (r : Option (Node μ σ) × List (OCmd μ)) (h : onMsg W b nd a env = some r) (hs : SInv nd) :
    Eff b a env nd (r.1.getD nd) (sends b r.2) := by
  cases env with
  | ack seq =>
    simp only [onMsg, Option.some.injEq] at h
    subst h
    simp only [Option.getD_some, sends]
    refine ⟨⟨hs.next, ?_⟩, fun _ => List.prefix_refl _, fun _ _ => ⟨rfl, rfl⟩, Or.inl ⟨rfl, rfl⟩, ?_,
      fun _ _ h1 h2 => by (have : False := by (simp only [sentTo] at h1 h2; omega)); exact this.elim,
      fun _ _ _ _ h => by simp at h, fun _ _ _ h => by simp at h⟩
    · intro d q m hm
      exact hs.pend d q m ((mem_del _ _ _).mp hm).1
    · intro d q m hm
      by_cases hk : (d, q) = (a, seq)
      · cases hk; exact Or.inr ⟨rfl, rfl⟩
      · exact Or.inl ((mem_del _ _ _).mpr ⟨hm, hk⟩)
  | deliver seq m =>
    simp only [onMsg] at h
    split at h
    · -- gap
      cases h
      simpa [sends] using Eff.same b a _ nd hs
    · split at h
      · -- duplicate
        rename_i hgap hdup
        cases h
        simp only [Option.getD_none, sends]
        refine ⟨hs, fun _ => List.prefix_refl _, fun _ _ => ⟨rfl, rfl⟩, Or.inl ⟨rfl, rfl⟩, fun _ _ _ h => Or.inl h,
          fun _ _ h1 h2 => by omega, fun _ _ _ _ h => by simp at h, ?_⟩
        intro s d q hq
        simp at hq
        obtain ⟨rfl, rfl, rfl⟩ := hq
        exact ⟨rfl, rfl, ⟨m, rfl⟩, hdup⟩
      · rename_i hgap hdup
        have hseq : seq = getD nd.lastDel a 0 + 1 := by omega
        split at h
        · cases h
        · rename_i nd3 out hp
          cases h
          simp only [Option.getD_some]
          cases hw : (W.onMsg b nd.wrapped a m).1 with
          | none =>
            rw [hw] at hp
            exact accept_eff b a seq m nd nd _ nd3 _ out rfl rfl rfl rfl rfl hseq rfl hp hs
          | some w =>
            rw [hw] at hp
            exact accept_eff b a seq m nd { nd with wrapped := w } _ nd3 _ out rfl rfl rfl rfl rfl hseq rfl hp hs
/-! ### the invariant of the protocol machine -/

/-- the invariant of the protocol machine -/
structure WInv (st : World μ σ) : Prop where
  sinv : ∀ i, SInv (st.nodes i)
  seqs : ∀ s d, seqsFrom (st.nodes d) s = List.range' 1 (getD (st.nodes d).lastDel s 0)
  msgs : ∀ s d, msgsFrom (st.nodes d) s = (sentTo (st.nodes s) d).take (getD (st.nodes d).lastDel s 0)
  le : ∀ s d, getD (st.nodes d).lastDel s 0 ≤ (sentTo (st.nodes s) d).length
  dlv : ∀ s d q m, (⟨s, d, Env.deliver q m⟩ : Packet μ) ∈ st.net → 1 ≤ q ∧ (sentTo (st.nodes s) d)[q - 1]? = some m
  ack : ∀ s d q, (⟨d, s, Env.ack q⟩ : Packet μ) ∈ st.net → 1 ≤ q ∧ q ≤ getD (st.nodes d).lastDel s 0
  done : ∀ s d q, 1 ≤ q → q ≤ (sentTo (st.nodes s) d).length → (∀ m, ((d, q), m) ∉ (st.nodes s).pending) →
    q ≤ getD (st.nodes d).lastDel s 0

theorem WInv.net_sub [DecidableEq μ] {st : World μ σ} (h : WInv st) (net' : List (Packet μ))
    (hsub : ∀ p ∈ net', p ∈ st.net) : WInv { st with net := net' } :=
  ⟨h.sinv, h.seqs, h.msgs, h.le, fun s d q m hp => h.dlv s d q m (hsub _ hp),
   fun s d q hp => h.ack s d q (hsub _ hp), h.done⟩

theorem step_drop [DecidableEq μ] {st : World μ σ} (h : WInv st) (p : Packet μ) :
    WInv { st with net := st.net.erase p } :=
  h.net_sub _ (fun _ hq => List.mem_of_mem_erase hq)

theorem step_dup [DecidableEq μ] {st : World μ σ} (h : WInv st) (p : Packet μ) (hp : p ∈ st.net) :
    WInv { st with net := st.net ++ [p] } :=
  h.net_sub _ (fun q hq => by
    rcases List.mem_append.mp hq with hq | hq
    · exact hq
    · simp at hq; subst hq; exact hp)

theorem step_timeout [DecidableEq μ] {st : World μ σ} (h : WInv st) (i : Id) :
    WInv { st with net := st.net ++ sends i (onTimeout (st.nodes i)) } := by
  have key : ∀ p ∈ sends i (onTimeout (st.nodes i)), ∃ d q m, p = ⟨i, d, Env.deliver q m⟩ ∧ ((d, q), m) ∈ (st.nodes i).pending := by
    intro p hp
    obtain ⟨d, e, hc, rfl⟩ := (mem_sends _ _ _).mp hp
    simp only [onTimeout, List.mem_cons, reduceCtorEq, List.mem_map, false_or] at hc
    obtain ⟨⟨⟨d', q'⟩, m'⟩, hmem, heq⟩ := hc
    cases heq
    exact ⟨_, _, _, rfl, hmem⟩
  refine ⟨h.sinv, h.seqs, h.msgs, h.le, ?_, ?_, h.done⟩
  · intro s d q m hp
    rcases List.mem_append.mp hp with hp | hp
    · exact h.dlv s d q m hp
    · obtain ⟨d', q', m', heq, hmem⟩ := key _ hp
      cases heq
      exact (h.sinv _).pend _ _ _ hmem
  · intro s d q hp
    rcases List.mem_append.mp hp with hp | hp
    · exact h.ack s d q hp
    · obtain ⟨d', q', m', heq, hmem⟩ := key _ hp
      cases heq

@[simp] theorem upd_same {α : Type} (f : Id → α) (i : Id) (v : α) : upd f i v i = v := by simp [upd]
theorem upd_other {α : Type} (f : Id → α) (i j : Id) (v : α) (h : j ≠ i) : upd f i v j = f j := by simp [upd, h]

theorem range'_one_succ (k : Nat) : List.range' 1 (k + 1) = List.range' 1 k ++ [k + 1] := by
  rw [List.range'_concat]; simp [Nat.add_comm]

theorem lt_length_of_getElem? {α : Type} {l : List α} {i : Nat} {x : α} (h : l[i]? = some x) : i < l.length := by
  rcases Nat.lt_or_ge i l.length with h' | h'
  · exact h'
  · simp [List.getElem?_eq_none h'] at h

theorem step_deliver_inv [DecidableEq μ] {st : World μ σ} (h : WInv st) (a b : Id) (env : Env μ)
    (hp : (⟨a, b, env⟩ : Packet μ) ∈ st.net) (nd' : Node μ σ) (out : List (Packet μ))
    (eff : Eff b a env (st.nodes b) nd' out) :
    WInv { nodes := upd st.nodes b nd', net := st.net.erase ⟨a, b, env⟩ ++ out } := by
  -- monotonicity facts
  have F1 : ∀ i d, sentTo (st.nodes i) d <+: sentTo (upd st.nodes b nd' i) d := by
    intro i d
    by_cases hi : i = b
    · subst hi; simpa using eff.pre d
    · rw [upd_other _ _ _ _ hi]; exact List.prefix_refl _
  have F2 : ∀ i s, getD (st.nodes i).lastDel s 0 ≤ getD (upd st.nodes b nd' i).lastDel s 0 := by
    intro i s
    by_cases hi : i = b
    · subst hi
      simp only [upd_same]
      by_cases hs : s = a
      · subst hs
        rcases eff.recvSame with ⟨h1, _⟩ | ⟨m, _, h1, _⟩ <;> omega
      · rw [(eff.recvOther s hs).1]; exact Nat.le_refl _
    · rw [upd_other _ _ _ _ hi]; exact Nat.le_refl _
  -- the receiver side of a pair is unchanged unless it is (a, b) and the message was accepted
  have R : ∀ s d, (getD (upd st.nodes b nd' d).lastDel s 0 = getD (st.nodes d).lastDel s 0 ∧
        handedFrom (upd st.nodes b nd' d) s = handedFrom (st.nodes d) s) ∨
      (d = b ∧ s = a ∧ ∃ m, env = Env.deliver (getD (st.nodes b).lastDel a 0 + 1) m ∧
        getD nd'.lastDel a 0 = getD (st.nodes b).lastDel a 0 + 1 ∧
        handedFrom nd' a = handedFrom (st.nodes b) a ++ [(getD (st.nodes b).lastDel a 0 + 1, m)]) := by
    intro s d
    by_cases hd : d = b
    · subst hd
      simp only [upd_same]
      by_cases hs : s = a
      · subst hs
        rcases eff.recvSame with h1 | h1
        · exact Or.inl h1
        · exact Or.inr ⟨trivial, rfl, h1⟩
      · exact Or.inl (eff.recvOther s hs)
    · left; simp [upd_other _ _ _ _ hd]
  have hmemOld : ∀ p, p ∈ st.net.erase ⟨a, b, env⟩ → p ∈ st.net := fun p hq => List.mem_of_mem_erase hq
  refine ⟨?_, ?_, ?_, ?_, ?_, ?_, ?_⟩
  · intro i
    by_cases hi : i = b
    · subst hi; show SInv (upd st.nodes i nd' i); simpa using eff.sinv
    · show SInv (upd st.nodes b nd' i)
      rw [upd_other _ _ _ _ hi]; exact h.sinv i
  · intro s d
    rcases R s d with ⟨h1, h2⟩ | ⟨rfl, rfl, m, _, h1, h2⟩
    · simp only [seqsFrom, h1, h2]; exact h.seqs s d
    · simp only [upd_same, seqsFrom, h1, h2, List.map_append, List.map_cons, List.map_nil, range'_one_succ]
      have := h.seqs s d
      simp only [seqsFrom] at this
      rw [this]
  · intro s d
    rcases R s d with ⟨h1, h2⟩ | ⟨rfl, rfl, m, henv, h1, h2⟩
    · simp only [msgsFrom, h1, h2]
      rw [take_of_prefix (F1 s d) (h.le s d)]
      exact h.msgs s d
    · subst henv
      have hd := (h.dlv _ _ _ _ hp).2
      simp only [Nat.add_sub_cancel] at hd
      have hd' := getElem?_of_prefix (F1 s d) hd
      simp only [upd_same, msgsFrom, h1, h2, List.map_append, List.map_cons, List.map_nil]
      rw [take_succ_of_getElem? hd', take_of_prefix (F1 s d) (h.le s d)]
      have := h.msgs s d
      simp only [msgsFrom] at this
      rw [this]
  · intro s d
    rcases R s d with ⟨h1, _⟩ | ⟨rfl, rfl, m, henv, h1, _⟩
    · rw [h1]
      exact Nat.le_trans (h.le s d) (List.IsPrefix.length_le (F1 s d))
    · subst henv
      have hd := (h.dlv _ _ _ _ hp).2
      simp only [Nat.add_sub_cancel] at hd
      have hd' := lt_length_of_getElem? (getElem?_of_prefix (F1 s d) hd)
      simp only [upd_same, h1]
      omega
  · intro s d q m hq
    rcases List.mem_append.mp hq with hq | hq
    · obtain ⟨h1, h2⟩ := h.dlv s d q m (hmemOld _ hq)
      exact ⟨h1, getElem?_of_prefix (F1 s d) h2⟩
    · obtain ⟨rfl, h1, h2⟩ := eff.outDlv s d q m hq
      simpa using ⟨h1, h2⟩
  · intro s d q hq
    rcases List.mem_append.mp hq with hq | hq
    · obtain ⟨h1, h2⟩ := h.ack s d q (hmemOld _ hq)
      exact ⟨h1, Nat.le_trans h2 (F2 d s)⟩
    · obtain ⟨rfl, rfl, ⟨m, rfl⟩, h2⟩ := eff.outAck d s q hq
      exact ⟨(h.dlv _ _ _ _ hp).1, by simpa using h2⟩
  · intro s d q hq1 hq2 hnp
    dsimp only at hq2 hnp ⊢
    by_cases hs : s = b
    · subst hs
      simp only [upd_same] at hq2 hnp
      by_cases hold : q ≤ (sentTo (st.nodes s) d).length
      · by_cases hack : d = a ∧ env = Env.ack q
        · obtain ⟨rfl, rfl⟩ := hack
          exact Nat.le_trans (h.ack s d q hp).2 (F2 d s)
        · refine Nat.le_trans (h.done s d q hq1 hold ?_) (F2 d s)
          intro m hm
          rcases eff.keep d q m hm with h' | h'
          · exact hnp m h'
          · exact hack h'
      · obtain ⟨m, hm⟩ := eff.fresh d q (by omega) hq2
        exact (hnp m hm).elim
    · rw [upd_other _ _ _ _ hs] at hq2 hnp
      exact Nat.le_trans (h.done s d q hq1 hq2 hnp) (F2 d s)
theorem step_inv [DecidableEq μ] (W : Wrapped μ σ) (n : Nat) {st st' : World μ σ} (h : WInv st) (l : Label μ)
    (hs : step W n st l = some st') : WInv st' := by
  cases l with
  | drop p =>
    simp only [step] at hs
    split at hs
    · cases hs; exact step_drop h p
    · cases hs
  | dup p =>
    simp only [step] at hs
    split at hs
    · rename_i hp; cases hs; exact step_dup h p hp
    · cases hs
  | timeout i =>
    simp only [step] at hs
    split at hs
    · cases hs; exact step_timeout h i
    · cases hs
  | deliver p =>
    obtain ⟨a, b, env⟩ := p
    simp only [step] at hs
    split at hs
    · rename_i hp
      split at hs
      · cases hs
      · rename_i r hr
        cases hs
        exact step_deliver_inv h a b env hp.1 _ _ (onMsg_eff W b a env (st.nodes b) r hr (h.sinv b))
    · cases hs

theorem run_inv [DecidableEq μ] (W : Wrapped μ σ) (n : Nat) (ls : List (Label μ)) :
    ∀ {st st' : World μ σ}, WInv st → run W n st ls = some st' → WInv st' := by
  induction ls with
  | nil => intro st st' h hr; simp only [run, Option.some.injEq] at hr; subst hr; exact h
  | cons l ls ih =>
    intro st st' h hr
    simp only [run] at hr
    split at hr
    · cases hr
    · rename_i st1 hs
      exact ih (step_inv W n h l hs) hr

theorem sinv_blank (W : Wrapped μ σ) (i : Id) : SInv (blank W i) :=
  ⟨fun d => by simp [blank, getD, sentTo], fun d q m hm => by simp [blank] at hm⟩

theorem init_inv [DecidableEq μ] (W : Wrapped μ σ) (n : Nat) {st : World μ σ} (hi : init W n = some st) : WInv st := by
  simp only [init] at hi
  split at hi
  · rename_i hall
    cases hi
    -- every node is the result of `processOutput` from the blank node
    have key : ∀ i, ∃ out, PO (blank W i) (if i < n then ((onStart W i).getD (blank W i, [])).1 else blank W i) out ∧
        (i < n → ((onStart W i).getD (blank W i, [])).2 = OCmd.setTimer :: out) := by
      intro i
      by_cases hlt : i < n
      · have hsome : (onStart W i).isSome = true := by
          have := List.all_eq_true.mp hall i (List.mem_range.mpr hlt)
          simpa using this
        simp only [hlt, if_true]
        unfold onStart at hsome ⊢
        split
        · rename_i hnone; simp [hnone] at hsome
        · rename_i nd out hpo
          exact ⟨out, by simpa using processOutput_PO _ _ _ _ (sinv_blank W i) hpo, fun _ => by simp⟩
      · simp only [hlt, if_false]
        exact ⟨[], PO.refl (sinv_blank W i), fun h => by simp at h⟩
    have hb : ∀ i d, sentTo (blank W i) d = [] := fun i d => by simp [blank, sentTo]
    have netmem : ∀ p, p ∈ (List.range n).flatMap (fun i => sends i ((onStart W i).getD (blank W i, [])).2) →
        ∃ q m, p.env = Env.deliver q m ∧ 1 ≤ q ∧
          (sentTo (if p.src < n then ((onStart W p.src).getD (blank W p.src, [])).1 else blank W p.src) p.dst)[q - 1]? = some m := by
      intro p hp
      obtain ⟨i, hir, hps⟩ := List.mem_flatMap.mp hp
      have hlt := List.mem_range.mp hir
      obtain ⟨out, po, hout⟩ := key i
      rw [hout hlt] at hps
      obtain ⟨d, e, hc, rfl⟩ := (mem_sends _ _ _).mp hps
      simp only [List.mem_cons, reduceCtorEq, false_or] at hc
      obtain ⟨d', q, m, heq, hq, hm⟩ := po.out _ hc
      cases heq
      exact ⟨q, m, rfl, hq, hm⟩
    have hh : ∀ d, (if d < n then ((onStart W d).getD (blank W d, [])).1 else blank W d).handed = [] := by
      intro d; obtain ⟨out, po, _⟩ := key d; exact po.handed
    have hl : ∀ d, (if d < n then ((onStart W d).getD (blank W d, [])).1 else blank W d).lastDel = [] := by
      intro d; obtain ⟨out, po, _⟩ := key d; exact po.lastDel
    refine ⟨fun i => (key i).choose_spec.1.sinv, ?_, ?_, ?_, ?_, ?_, ?_⟩
    · intro s d
      simp only [seqsFrom, handedFrom, hh, hl, getD, List.filter_nil, List.map_nil, List.range'_zero]
    · intro s d
      simp only [msgsFrom, handedFrom, hh, hl, getD, List.filter_nil, List.map_nil, List.take_zero]
    · intro s d
      simp only [hl, getD, Nat.zero_le]
    · intro s d q m hp
      obtain ⟨q', m', he, hq, hm⟩ := netmem _ hp
      cases he
      exact ⟨hq, hm⟩
    · intro s d q hp
      obtain ⟨q', m', he, _, _⟩ := netmem _ hp
      cases he
    · intro s d q hq1 hq2 hnp
      obtain ⟨out, po, _⟩ := key s
      obtain ⟨m, hm⟩ := po.fresh d q (by rw [hb]; exact hq1) hq2
      exact (hnp m hm).elim
  · cases hi

theorem reach_inv [DecidableEq μ] (W : Wrapped μ σ) (n : Nat) {st : World μ σ} (h : Reach W n st) : WInv st := by
  obtain ⟨st0, ls, hi, hr⟩ := h
  exact run_inv W n ls (init_inv W n hi) hr
/-! ### runs; `ActorModel` transitions are runs -/

theorem run_append [DecidableEq μ] (W : Wrapped μ σ) (n : Nat) (l1 l2 : List (Label μ)) :
    ∀ (st : World μ σ), run W n st (l1 ++ l2) = (run W n st l1).bind (fun st1 => run W n st1 l2) := by
  induction l1 with
  | nil => intro st; simp [run]
  | cons l ls ih =>
    intro st
    simp only [List.cons_append, run]
    split
    · simp
    · exact ih _

/-- every transition of `ActorModel` over an ORL-wrapped system, on each of the three networks, is a finite
sequence of steps of the protocol machine -/
theorem implNext_run [DecidableEq μ] (W : Wrapped μ σ) (n : Nat) (kind : Kind) (st st' : World μ σ) (a : Action μ)
    (h : implNext W n kind st a = Outcome.next st') : ∃ ls, run W n st ls = some st' := by
  unfold implNext at h
  split at h
  · cases h
  · split at h
    · cases h
    · rename_i ls _
      split at h
      · cases h
      · rename_i st1 h1
        split at h
        · split at h
          · cases h
          · rename_i st2 h2
            cases h
            exact ⟨ls ++ (extras st1.net).map Label.drop, by rw [run_append, h1]; exact h2⟩
        · cases h
          exact ⟨ls, h1⟩

theorem reach_run [DecidableEq μ] (W : Wrapped μ σ) (n : Nat) {st st' : World μ σ} (h : Reach W n st)
    (ls : List (Label μ)) (hr : run W n st ls = some st') : Reach W n st' := by
  obtain ⟨st0, l0, hi, h0⟩ := h
  exact ⟨st0, l0 ++ ls, hi, by rw [run_append, h0]; exact hr⟩
end SR.Orl
