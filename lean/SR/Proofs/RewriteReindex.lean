import SR.Proofs.RewritePlan
/-! Helper lemmas for C10 (a)/(b): `reindexO` puts (the rewritten) element `i` at position `plan[i]`, and
agrees with the declarative `place`. -/
namespace SR.RW
open List

/-! ### `List.mapM` in the `Option` monad -/

theorem mapM_some_iff {α β} (f : α → Option β) : ∀ (l : List α) (ys : List β),
    l.mapM f = some ys ↔ ys.length = l.length ∧ ∀ i, i < l.length → (l[i]?).bind f = ys[i]?
  | [], ys => by
    simp only [List.mapM_nil]
    constructor
    · intro h; cases h; simp
    · intro h; have : ys = [] := by simpa using h.1
      subst this; rfl
  | a :: l, ys => by
    have tail : ∀ (y : β) (ys' : List β),
        ((y :: ys').length = (a :: l).length ∧ ∀ i, i < (a :: l).length → ((a :: l)[i]?).bind f = (y :: ys')[i]?) →
        l.mapM f = some ys' := by
      intro y ys' h
      refine (mapM_some_iff f l ys').2 ⟨by simpa using h.1, fun i hi => ?_⟩
      have := h.2 (i + 1) (by simp; omega)
      simpa using this
    simp only [List.mapM_cons]
    cases hfa : f a with
    | none =>
      simp only [Option.bind_eq_bind, Option.bind_none]
      constructor
      · intro h; cases h
      · intro h
        have h0 := h.2 0 (by simp)
        simp only [List.getElem?_cons_zero, Option.bind_some, hfa] at h0
        cases ys with
        | nil => simp at h
        | cons y ys => simp at h0
    | some b =>
      cases hl : l.mapM f with
      | none =>
        simp only [Option.bind_eq_bind, Option.bind_some, Option.bind_none]
        constructor
        · intro h; cases h
        · intro h
          cases ys with
          | nil => simp at h
          | cons y ys =>
            have := tail y ys h
            rw [hl] at this; cases this
      | some bs =>
        simp only [Option.bind_eq_bind, Option.bind_some, Option.pure_def, Option.some.injEq]
        have ih := (mapM_some_iff f l bs).1 hl
        constructor
        · intro h; subst h
          refine ⟨by simp [ih.1], ?_⟩
          intro i hi
          cases i with
          | zero => simp [hfa]
          | succ i => simpa using ih.2 i (by simpa using hi)
        · intro h
          cases ys with
          | nil => simp at h
          | cons y ys =>
            have h0 := h.2 0 (by simp)
            simp only [List.getElem?_cons_zero, Option.bind_some, hfa, Option.some.injEq] at h0
            have := tail y ys h
            rw [hl] at this
            injection this with this
            rw [h0, this]

theorem mapM_id_some {α} : ∀ (l : List α), l.mapM (some : α → Option α) = some l
  | [] => rfl
  | a :: l => by simp [List.mapM_cons, mapM_id_some l]

theorem mapM_isSome_of_forall {α β} (f : α → Option β) : ∀ (l : List α), (∀ x ∈ l, (f x).isSome) → (l.mapM f).isSome
  | [], _ => rfl
  | a :: l, h => by
    have ha := h a (by simp)
    have hl := mapM_isSome_of_forall f l (fun x hx => h x (by simp [hx]))
    simp only [List.mapM_cons]
    cases hfa : f a with
    | none => rw [hfa] at ha; cases ha
    | some b =>
      cases hm : l.mapM f with
      | none => rw [hm] at hl; cases hl
      | some bs => rfl

theorem mapM_congr' {α β} (f g : α → Option β) : ∀ (l : List α), (∀ x ∈ l, f x = g x) → l.mapM f = l.mapM g
  | [], _ => rfl
  | a :: l, h => by
    simp only [List.mapM_cons]
    rw [h a (by simp), mapM_congr' f g l (fun x hx => h x (by simp [hx]))]

/-! ### reindex -/

theorem inv_get {plan : List Nat} (hperm : plan.Perm (List.range plan.length)) (i : Nat) (hi : i < plan.length) :
    ((((List.range plan.length).zip plan).map (fun (p : Nat × Nat) => (p.2, p.1))).mergeSort
      (fun a b => decide (a.1 ≤ b.1)))[plan[i]]? = some (plan[i], i) := by
  let inv0 := ((List.range plan.length).zip plan).map (fun (p : Nat × Nat) => (p.2, p.1))
  have hlen : inv0.length = plan.length := by simp [inv0]
  have hkeys : (inv0.map (·.1)).Perm (List.range inv0.length) := by
    have : inv0.map (·.1) = plan := by
      simp only [inv0, List.map_map]
      have := List.map_snd_zip (l₁ := List.range plan.length) (l₂ := plan) (by simp)
      exact this
    rw [this, hlen]; exact hperm
  have hx : (plan[i], i) ∈ inv0 := by
    simp only [inv0, List.mem_map]
    refine ⟨(i, plan[i]), ?_, rfl⟩
    rw [List.mem_iff_getElem]
    exact ⟨i, by simpa using hi, by simp⟩
  exact sort_key_get (fun (p : Nat × Nat) => p.1) inv0 hkeys _ hx

theorem inv_length (plan : List Nat) :
    ((((List.range plan.length).zip plan).map (fun (p : Nat × Nat) => (p.2, p.1))).mergeSort
      (fun a b => decide (a.1 ≤ b.1))).length = plan.length := by
  rw [(mergeSort_perm _ _).length_eq]; simp

theorem perm_range_lt {plan : List Nat} (hperm : plan.Perm (List.range plan.length)) (i : Nat) (hi : i < plan.length) :
    plan[i] < plan.length := List.mem_range.1 (hperm.subset (List.getElem_mem hi))

theorem perm_range_surj {plan : List Nat} (hperm : plan.Perm (List.range plan.length)) (j : Nat) (hj : j < plan.length) :
    ∃ i, ∃ hi : i < plan.length, plan[i] = j := by
  have := hperm.symm.subset (List.mem_range.2 hj)
  obtain ⟨i, hi, e⟩ := List.getElem_of_mem this
  exact ⟨i, hi, e⟩

theorem reindexO_eq (plan : List Nat) {α} (rw : α → Option α) (xs : List α) :
    reindexO plan rw xs =
      ((((List.range plan.length).zip plan).map (fun (p : Nat × Nat) => (p.2, p.1))).mergeSort
        (fun a b => decide (a.1 ≤ b.1))).mapM (fun (p : Nat × Nat) => (xs[p.2]?).bind rw) := rfl

/-- `reindex` succeeds with `ys` exactly when `ys` has the plan's length and holds the rewritten element `i`
at position `plan[i]` (so a collection shorter than the plan, or a panicking rewrite, makes it fail). -/
theorem reindexO_some_iff {plan : List Nat} (hperm : plan.Perm (List.range plan.length)) {α}
    (rw : α → Option α) (xs ys : List α) :
    reindexO plan rw xs = some ys ↔
      ys.length = plan.length ∧ ∀ i (hi : i < plan.length), (xs[i]?).bind rw = ys[plan[i]]? := by
  rw [reindexO_eq, mapM_some_iff, inv_length]
  constructor
  · rintro ⟨hl, h⟩
    refine ⟨hl, fun i hi => ?_⟩
    have hp := perm_range_lt hperm i hi
    have := h plan[i] hp
    rw [inv_get hperm i hi] at this
    exact this
  · rintro ⟨hl, h⟩
    refine ⟨hl, fun j hj => ?_⟩
    obtain ⟨i, hi, e⟩ := perm_range_surj hperm j hj
    subst e
    rw [inv_get hperm i hi]
    exact h i hi

/-! ### place -/

theorem perm_range_nodup {plan : List Nat} (hperm : plan.Perm (List.range plan.length)) : plan.Nodup :=
  (hperm.nodup_iff).2 List.nodup_range

theorem place_some_iff {π : List Nat} (hperm : π.Perm (List.range π.length)) {α} (zs ys : List α) :
    place π zs = some ys ↔ ys.length = π.length ∧ ∀ i (hi : i < π.length), zs[i]? = ys[π[i]]? := by
  unfold place
  rw [mapM_some_iff]
  simp only [List.length_range]
  constructor
  · rintro ⟨hl, h⟩
    refine ⟨hl, fun i hi => ?_⟩
    have hp := perm_range_lt hperm i hi
    have := h π[i] hp
    rw [List.getElem?_range hp] at this
    simp only [Option.bind_some, List.getElem_mem, if_true] at this
    rw [(perm_range_nodup hperm).idxOf_getElem i hi] at this
    exact this
  · rintro ⟨hl, h⟩
    refine ⟨hl, fun j hj => ?_⟩
    obtain ⟨i, hi, e⟩ := perm_range_surj hperm j hj
    subst e
    rw [List.getElem?_range hj]
    simp only [Option.bind_some, List.getElem_mem, if_true]
    rw [(perm_range_nodup hperm).idxOf_getElem i hi]
    exact h i hi

/-- `reindex` is the declarative placement of the rewritten prefix -/
theorem reindexO_eq_place {plan : List Nat} (hperm : plan.Perm (List.range plan.length)) {α}
    (rw : α → Option α) (xs : List α) :
    reindexO plan rw xs = ((xs.take plan.length).mapM rw).bind (place plan) := by
  apply Option.ext
  intro ys
  rw [reindexO_some_iff hperm]
  constructor
  · rintro ⟨hl, h⟩
    -- every index below the plan's length is present in `xs` and rewrites successfully
    have hsome : ∀ i (hi : i < plan.length), ∃ z, (xs[i]?).bind rw = some z := by
      intro i hi
      have hp := perm_range_lt hperm i hi
      rw [h i hi, List.getElem?_eq_getElem (by omega)]
      exact ⟨_, rfl⟩
    have hxs : ∀ i, i < plan.length → i < xs.length := by
      intro i hi
      obtain ⟨z, hz⟩ := hsome i hi
      rcases Nat.lt_or_ge i xs.length with hlt | hge
      · exact hlt
      · rw [List.getElem?_eq_none hge] at hz; cases hz
    have hm : ((xs.take plan.length).mapM rw).isSome := by
      apply mapM_isSome_of_forall
      intro x hx
      obtain ⟨i, hi, e⟩ := List.getElem_of_mem hx
      have hi' : i < plan.length := by simp at hi; omega
      obtain ⟨z, hz⟩ := hsome i hi'
      rw [List.getElem?_eq_getElem (hxs i hi')] at hz
      rw [← e, List.getElem_take]
      simp only [Option.bind_some] at hz
      rw [hz]; rfl
    cases hz : (xs.take plan.length).mapM rw with
    | none => rw [hz] at hm; cases hm
    | some zs =>
      simp only [Option.bind_some]
      rw [place_some_iff hperm]
      refine ⟨hl, fun i hi => ?_⟩
      obtain ⟨zl, zh⟩ := (mapM_some_iff rw _ zs).1 hz
      have hx := hxs i hi
      have hi2 : i < (xs.take plan.length).length := by simp; omega
      have := zh i hi2
      rw [List.getElem?_take_of_lt hi] at this
      rw [← this, ← h i hi]
  · intro h
    cases hz : (xs.take plan.length).mapM rw with
    | none => rw [hz] at h; cases h
    | some zs =>
      rw [hz] at h
      simp only [Option.bind_some] at h
      obtain ⟨hl, hp⟩ := (place_some_iff hperm zs ys).1 h
      obtain ⟨zl, zh⟩ := (mapM_some_iff rw _ zs).1 hz
      refine ⟨hl, fun i hi => ?_⟩
      have hpi := perm_range_lt hperm i hi
      have hzi : i < zs.length := by
        rcases Nat.lt_or_ge i zs.length with hlt | hge
        · exact hlt
        · have := hp i hi
          rw [List.getElem?_eq_none hge, List.getElem?_eq_getElem (by omega)] at this
          cases this
      have hi2 : i < (xs.take plan.length).length := by omega
      have := zh i hi2
      rw [List.getElem?_take_of_lt hi] at this
      rw [← hp i hi, ← this]

end SR.RW
