import SR.Proofs.OracleAudit
import SR.Props.OracleAudit
import SR.Props.C01CompleteRun
import SR.Props.C10Machine
/-! Helper lemmas for `Props/OracleRest.lean` (builder W-Z7): the assembly of the C07 oracle `o-net`
(`refContents`, `refDeliverable`, `isPerm`, `checkOp`, `checkObs` of Drv/C07.lean against the model network); the lines of
`oracleC11` / `oracleC02` / `o-chk-sym` of Drv/Chk.lean as named functions with their declarative readings; `symOk`. -/
namespace SR.COracleRest

/-! ## C07 `o-net` -/
section C07
open SR SR.Actor SR.Actor.Codec SR.Drv.C07 SR.C07 SR.COracleAudit

theorem nodup_eraseDups' {α : Type} [BEq α] [LawfulBEq α] : ∀ (l : List α), l.eraseDups.Nodup
  | [] => by simp
  | a :: as => by
    rw [List.eraseDups_cons]
    have ih := nodup_eraseDups' (as.filter fun b => !b == a)
    refine List.nodup_cons.2 ⟨?_, ih⟩
    intro h
    have := List.mem_eraseDups.1 h
    simp at this
termination_by l => l.length
decreasing_by simp only [List.length_cons]; exact Nat.lt_succ_of_le (List.length_filter_le _ _)

theorem env_ext {a b : Env} (h1 : a.src = b.src) (h2 : a.dst = b.dst) (h3 : a.msg = b.msg) : a = b := by
  cases a; cases b; simp_all

theorem envLe_iff (a b : Env) : envLe a b = true ↔
    a.src < b.src ∨ (a.src = b.src ∧ (a.dst < b.dst ∨ (a.dst = b.dst ∧ a.msg ≤ b.msg))) := by
  unfold envLe Env.lt
  constructor
  · intro h
    simp only [Bool.or_eq_true, beq_iff_eq, Bool.and_eq_true, decide_eq_true_eq] at h
    rcases h with h | h
    · subst h; omega
    · omega
  · intro h
    simp only [Bool.or_eq_true, beq_iff_eq, Bool.and_eq_true, decide_eq_true_eq]
    by_cases he : a = b
    · exact Or.inl he
    · right
      have : a.src ≠ b.src ∨ a.dst ≠ b.dst ∨ a.msg ≠ b.msg := by
        by_cases h1 : a.src = b.src
        · by_cases h2 : a.dst = b.dst
          · by_cases h3 : a.msg = b.msg
            · exact absurd (env_ext h1 h2 h3) he
            · exact Or.inr (Or.inr h3)
          · exact Or.inr (Or.inl h2)
        · exact Or.inl h1
      omega

theorem envLe_trans (a b c : Env) : envLe a b = true → envLe b c = true → envLe a c = true := by
  simp only [envLe_iff]; omega
theorem envLe_total (a b : Env) : (envLe a b || envLe b a) = true := by
  simp only [Bool.or_eq_true, envLe_iff]; omega
theorem envLe_antisymm (a b : Env) (h1 : envLe a b = true) (h2 : envLe b a = true) : a = b := by
  simp only [envLe_iff] at h1 h2
  apply env_ext <;> omega

theorem sortEnvs_perm (l : List Env) : (sortEnvs l).Perm l := List.mergeSort_perm _ _
theorem mem_sortEnvs {l : List Env} {e : Env} : e ∈ sortEnvs l ↔ e ∈ l := (sortEnvs_perm l).mem_iff
theorem sortEnvs_sorted (l : List Env) : (sortEnvs l).Pairwise (fun a b => envLe a b = true) :=
  List.pairwise_mergeSort envLe_trans envLe_total l

theorem sortEnvs_eq_of_perm {a b : List Env} (h : a.Perm b) : sortEnvs a = sortEnvs b := by
  apply List.Perm.eq_of_pairwise (le := fun a b => envLe a b = true)
  · intro x y _ _ h1 h2; exact envLe_antisymm x y h1 h2
  · exact sortEnvs_sorted a
  · exact sortEnvs_sorted b
  · exact (sortEnvs_perm a).trans (h.trans (sortEnvs_perm b).symm)

theorem isPerm_iff (a b : List Env) : isPerm a b = true ↔ a.Perm b := by
  unfold isPerm
  rw [beq_iff_eq]
  constructor
  · intro h
    exact (sortEnvs_perm a).symm.trans (h ▸ sortEnvs_perm b)
  · exact sortEnvs_eq_of_perm


theorem refContents_d (h : List NetOp) :
    refContents "d" h = some ((sortEnvs (envsOf h)).filter (refPresent h)) := rfl
theorem refContents_n (h : List NetOp) :
    refContents "n" h = (sortEnvs (envsOf h)).foldr (fun e acc => do
      let c ← refCount h e; let rest ← acc; pure (List.replicate c e ++ rest)) (some []) := rfl
theorem refContents_o (kind : String) (h : List NetOp) (hd : kind ≠ "d") (hn : kind ≠ "n") :
    refContents kind h = some (((sortEnvs (envsOf h)).map (fun e => (e.src, e.dst))).eraseDups.flatMap
      (fun f => (refQueue h f).map (fun m => ⟨f.1, f.2, m⟩))) := by
  unfold refContents
  split
  · exact absurd rfl hd
  · exact absurd rfl hn
  · rfl
theorem refDeliverable_d (h : List NetOp) :
    refDeliverable "d" h = (sortEnvs (envsOf h)).filter (refPresent h) := rfl
theorem refDeliverable_n (h : List NetOp) :
    refDeliverable "n" h = (sortEnvs (envsOf h)).filter
      (fun e => match refCount h e with | some c => c > 0 | none => false) := rfl
theorem refDeliverable_o (kind : String) (h : List NetOp) (hd : kind ≠ "d") (hn : kind ≠ "n") :
    refDeliverable kind h = ((sortEnvs (envsOf h)).map (fun e => (e.src, e.dst))).eraseDups.filterMap
      (fun f => (refQueue h f).head?.map (fun m => ⟨f.1, f.2, m⟩)) := by
  unfold refDeliverable
  split
  · exact absurd rfl hd
  · exact absurd rfl hn
  · rfl

def opEnv : NetOp → Env
  | .send x | .deliver x | .drop x => x

theorem envsOf_eq (h : List NetOp) : envsOf h = (h.map opEnv).eraseDups := by
  unfold envsOf
  congr 1

theorem mem_envsOf (h : List NetOp) (e : Env) : e ∈ envsOf h ↔ ∃ op ∈ h, opEnv op = e := by
  rw [envsOf_eq, List.mem_eraseDups, List.mem_map]

theorem nodup_E (h : List NetOp) : (sortEnvs (envsOf h)).Nodup :=
  (sortEnvs_perm _).nodup_iff.2 (by rw [envsOf_eq]; exact nodup_eraseDups' _)

theorem mem_E (h : List NetOp) (e : Env) : e ∈ sortEnvs (envsOf h) ↔ ∃ op ∈ h, opEnv op = e := by
  rw [mem_sortEnvs, mem_envsOf]

/-- the flows of the history -/
def flowsOf (h : List NetOp) : List (Nat × Nat) := ((sortEnvs (envsOf h)).map (fun e => (e.src, e.dst))).eraseDups

theorem nodup_flowsOf (h : List NetOp) : (flowsOf h).Nodup := nodup_eraseDups' _

theorem mem_flowsOf (h : List NetOp) (f : Nat × Nat) : f ∈ flowsOf h ↔ ∃ op ∈ h, flowOf (opEnv op) = f := by
  unfold flowsOf
  rw [List.mem_eraseDups, List.mem_map]
  constructor
  · rintro ⟨e, he, rfl⟩
    obtain ⟨op, hop, rfl⟩ := (mem_E h e).1 he
    exact ⟨op, hop, rfl⟩
  · rintro ⟨op, hop, rfl⟩
    exact ⟨opEnv op, (mem_E h _).2 ⟨op, hop, rfl⟩, rfl⟩

theorem lastSD_some_true_mem (e : Env) : ∀ h : List NetOp, lastSD e h = some true → NetOp.send e ∈ h := by
  intro h
  induction h with
  | nil => simp [lastSD]
  | cons op ops ih =>
    intro hl
    simp only [lastSD] at hl
    cases hr : lastSD e ops with
    | some b =>
      rw [hr] at hl; simp only at hl
      exact List.mem_cons_of_mem _ (ih (by rw [hr, hl]))
    | none =>
      rw [hr] at hl; simp only at hl
      cases op with
      | send e' =>
        by_cases he : e' = e
        · subst he; exact List.mem_cons_self
        · simp [he] at hl
      | deliver e' => simp at hl
      | drop e' =>
        by_cases he : e' = e
        · simp [he] at hl
        · simp [he] at hl

theorem sentCount_pos_mem (e : Env) (h : List NetOp) (hp : 0 < sentCount e h) : NetOp.send e ∈ h := by
  unfold sentCount at hp
  obtain ⟨x, hx⟩ := List.exists_mem_of_length_pos hp
  have := List.mem_filter.1 hx
  have h2 : x = NetOp.send e := by simpa using this.2
  exact h2 ▸ this.1

theorem sentOn_ne_nil_mem (f : Nat × Nat) (h : List NetOp) (hp : sentOn f h ≠ []) :
    ∃ e, NetOp.send e ∈ h ∧ flowOf e = f := by
  obtain ⟨m, hm⟩ := List.exists_mem_of_ne_nil _ hp
  unfold sentOn at hm
  obtain ⟨op, hop, hsome⟩ := List.mem_filterMap.1 hm
  cases op with
  | send e =>
    by_cases hf : flowOf e = f
    · exact ⟨e, hop, hf⟩
    · simp [hf] at hsome
  | deliver e => simp at hsome
  | drop e => simp at hsome

/-! ### the three contents references on valid runs -/

theorem run_dup_shape {set₀ : List Env} {last : Option Env} {h : List NetOp} {n : Net}
    (hr : Net.run (Net.dup set₀ last) h = some n) : ∃ set l, n = Net.dup set l := by
  obtain ⟨s, hs⟩ := C07_dup_last set₀ last n h hr
  exact ⟨s, _, hs⟩

theorem contents_d {last : Option Env} {h : List NetOp} {n : Net}
    (hr : Net.run (Net.dup [] last) h = some n) :
    ((sortEnvs (envsOf h)).filter (refPresent h)).Perm n.contents := by
  have hc : n.Canon := canon_run (by simp [Net.Canon]) hr
  obtain ⟨set, l, rfl⟩ := run_dup_shape hr
  show (List.filter _ _).Perm set
  rw [List.perm_ext_iff_of_nodup ((nodup_E h).filter _) hc]
  intro e
  show _ ↔ e ∈ (Net.dup set l).contents
  rw [List.mem_filter, (C07_oracle_refPresent h e).2 last _ hr]
  constructor
  · exact fun x => x.2
  · intro he
    refine ⟨?_, he⟩
    have := ((C07_oracle_refPresent h e).2 last _ hr).2 he
    have := lastSD_some_true_mem e h ((refPresent_iff h e).1 this)
    exact (mem_E h e).2 ⟨_, this, rfl⟩

theorem foldr_counts (h : List NetOp) (c : Env → Nat) : ∀ (L : List Env), (∀ e ∈ L, refCount h e = some (c e)) →
    L.foldr (fun e acc => do
      let c ← refCount h e; let rest ← acc; pure (List.replicate c e ++ rest)) (some []) =
      some (L.flatMap (fun e => List.replicate (c e) e)) := by
  intro L
  induction L with
  | nil => intro _; rfl
  | cons a L ih =>
    intro hL
    rw [List.foldr_cons, ih (fun e he => hL e (List.mem_cons_of_mem _ he)), hL a List.mem_cons_self]
    rfl

theorem count_flatMap_replicate (c : Env → Nat) (e : Env) : ∀ (L : List Env), L.Nodup →
    (L.flatMap (fun x => List.replicate (c x) x)).count e = if e ∈ L then c e else 0 := by
  intro L
  induction L with
  | nil => intro _; simp
  | cons a L ih =>
    intro hn
    obtain ⟨ha, hL⟩ := List.nodup_cons.1 hn
    rw [List.flatMap_cons, List.count_append, ih hL, List.count_replicate]
    by_cases hae : a = e
    · subst hae; simp [ha]
    · have : ¬ e = a := fun x => hae x.symm
      simp [hae, this]

theorem contents_n {h : List NetOp} {n : Net} (hr : Net.run (Net.nondup []) h = some n) :
    ∃ ref, refContents "n" h = some ref ∧ ref = (sortEnvs (envsOf h)).flatMap (fun e => List.replicate (n.count e) e) ∧
      ref.Perm n.contents := by
  have hc : n.Canon := canon_run (by simp [Net.Canon]) hr
  refine ⟨_, ?_, rfl, ?_⟩
  · rw [refContents_n]
    exact foldr_counts h (fun e => n.count e) _ (fun e _ => (C07_oracle_refCount h e).2.2 n hr)
  · rw [List.perm_iff_count]
    intro e
    rw [count_flatMap_replicate _ _ _ (nodup_E h), count_contents hc]
    split
    · rfl
    · rename_i hne
      have h1 := (C07_oracle_refCount h e).2.2 n hr
      rw [refCount_spec] at h1
      by_cases hs : 0 < sentCount e h
      · exact absurd ((mem_E h e).2 ⟨_, sentCount_pos_mem e h hs, rfl⟩) hne
      · split at h1
        · simp only [Option.some.injEq] at h1; omega
        · cases h1

theorem count_flatMap_queue (q : Nat × Nat → List Nat) (e : Env) : ∀ (F : List (Nat × Nat)), F.Nodup →
    (F.flatMap (fun f => (q f).map (fun m => (⟨f.1, f.2, m⟩ : Env)))).count e =
      if flowOf e ∈ F then (q (flowOf e)).count e.msg else 0 := by
  intro F
  induction F with
  | nil => intro _; simp
  | cons a F ih =>
    intro hn
    obtain ⟨ha, hF⟩ := List.nodup_cons.1 hn
    rw [List.flatMap_cons, List.count_append, ih hF, count_map_env]
    by_cases hae : a = flowOf e
    · subst hae
      have ha' : ¬ (e.src, e.dst) ∈ F := ha
      simp [ha', flowOf]
    · have h1 : ¬ flowOf e = a := fun x => hae x.symm
      have h2 : ¬ (a.1, a.2) = (e.src, e.dst) := hae
      simp [h1, h2]

theorem run_ord_shape {h : List NetOp} : ∀ {n₀ n : Net}, n₀.isOrdered = true → Net.run n₀ h = some n →
    ∃ flows, n = Net.ord flows := by
  induction h with
  | nil =>
    intro n₀ n ho hr
    simp [Net.run] at hr; subst hr
    cases n₀ with
    | ord fl => exact ⟨fl, rfl⟩
    | dup _ _ => simp [Net.isOrdered] at ho
    | nondup _ => simp [Net.isOrdered] at ho
  | cons op ops ih =>
    intro n₀ n ho hr
    obtain ⟨_, n1, h1, h2⟩ := run_cons.1 hr
    exact ih ((sameKind_isOrdered (sameKind_apply h1)).symm.trans ho) h2

theorem queue_nil_of_not_flow {h : List NetOp} {n : Net} (hr : Net.run (Net.ord []) h = some n) (f : Nat × Nat)
    (hf : f ∉ flowsOf h) : n.queue f = [] := by
  rw [← (C07_oracle_refQueue h f).2 n hr, refQueue_eq]
  have : sentOn f h = [] := by
    apply Classical.byContradiction
    intro hne
    obtain ⟨e, he, hfe⟩ := sentOn_ne_nil_mem f h hne
    exact hf ((mem_flowsOf h f).2 ⟨_, he, hfe⟩)
  simp [this]

theorem contents_o {kind : String} (hd : kind ≠ "d") (hn : kind ≠ "n") {h : List NetOp} {n : Net}
    (hr : Net.run (Net.ord []) h = some n) :
    ∃ ref, refContents kind h = some ref ∧
      ref = (flowsOf h).flatMap (fun f => (n.queue f).map (fun m => ⟨f.1, f.2, m⟩)) ∧ ref.Perm n.contents := by
  have hc : n.Canon := canon_run (by simp [Net.Canon]) hr
  refine ⟨_, ?_, rfl, ?_⟩
  · rw [refContents_o kind h hd hn]
    have : (fun f : Nat × Nat => (refQueue h f).map (fun m => (⟨f.1, f.2, m⟩ : Env))) =
        (fun f => (n.queue f).map (fun m => ⟨f.1, f.2, m⟩)) :=
      funext fun f => by rw [(C07_oracle_refQueue h f).2 n hr]
    rw [flowsOf, this]
  · rw [List.perm_iff_count]
    intro e
    rw [count_flatMap_queue _ _ _ (nodup_flowsOf h), count_contents hc]
    obtain ⟨flows, rfl⟩ := run_ord_shape rfl hr
    split
    · rfl
    · rename_i hne
      have := queue_nil_of_not_flow hr _ hne
      simp only [Net.queue] at this
      simp [Net.count, flowOf, this] at this ⊢

/-! ### the deliverable references on valid runs -/

theorem deliverable_d {last : Option Env} {h : List NetOp} {n : Net}
    (hr : Net.run (Net.dup [] last) h = some n) : (refDeliverable "d" h).Perm n.iterDeliverable := by
  have := contents_d hr
  obtain ⟨set, l, rfl⟩ := run_dup_shape hr
  exact this

theorem count_pos_mem_E {h : List NetOp} {n : Net} (hr : Net.run (Net.nondup []) h = some n) (e : Env)
    (hp : 0 < n.count e) : e ∈ sortEnvs (envsOf h) := by
  have h1 := (C07_oracle_refCount h e).2.2 n hr
  rw [refCount_spec] at h1
  have hs : 0 < sentCount e h := by
    split at h1
    · simp only [Option.some.injEq] at h1; omega
    · cases h1
  exact (mem_E h e).2 ⟨_, sentCount_pos_mem e h hs, rfl⟩

theorem run_nondup_shape {h : List NetOp} : ∀ {ms₀ : List (Env × Nat)} {n : Net},
    Net.run (Net.nondup ms₀) h = some n → ∃ ms, n = Net.nondup ms := by
  induction h with
  | nil => intro ms₀ n hr; simp [Net.run] at hr; exact ⟨ms₀, hr.symm⟩
  | cons op ops ih =>
    intro ms₀ n hr
    obtain ⟨_, n1, h1, h2⟩ := run_cons.1 hr
    have hk := sameKind_apply h1
    cases n1 with
    | nondup ms1 => exact ih h2
    | dup _ _ => exact absurd hk (by simp [sameKind])
    | ord _ => exact absurd hk (by simp [sameKind])

theorem isHead_nondup_iff {ms : List (Env × Nat)} (hc : (Net.nondup ms).Canon) (e : Env) :
    (Net.nondup ms).isHead e ↔ 0 < (Net.nondup ms).count e := by
  simp only [Net.isHead, Net.count]
  constructor
  · rintro ⟨c, hl⟩
    have := hc.1 _ (alookup_mem hl)
    rw [hl]; exact this
  · intro hp
    cases hl : alookup e ms with
    | none => rw [hl] at hp; simp at hp
    | some c => exact ⟨c, rfl⟩

theorem deliverable_n {h : List NetOp} {n : Net} (hr : Net.run (Net.nondup []) h = some n) :
    (refDeliverable "n" h).Perm n.iterDeliverable := by
  have hc : n.Canon := canon_run (by simp [Net.Canon]) hr
  rw [refDeliverable_n, List.perm_ext_iff_of_nodup ((nodup_E h).filter _) (C07_views n hc).2.2.2.2]
  intro e
  rw [mem_iterDeliverable hc, List.mem_filter, (C07_oracle_refCount h e).2.2 n hr]
  obtain ⟨ms, rfl⟩ := run_nondup_shape hr
  rw [isHead_nondup_iff hc]
  constructor
  · intro x; simpa using x.2
  · intro hp; exact ⟨count_pos_mem_E hr e hp, by simpa using hp⟩

theorem nodup_filterMap_key {α β : Type} (g : α → Option β) (key : β → α) (hk : ∀ a b, g a = some b → key b = a) :
    ∀ (F : List α), F.Nodup → (F.filterMap g).Nodup := by
  intro F
  induction F with
  | nil => intro _; simp
  | cons a F ih =>
    intro hn
    obtain ⟨ha, hF⟩ := List.nodup_cons.1 hn
    rw [List.filterMap_cons]
    cases hg : g a with
    | none => exact ih hF
    | some b =>
      refine List.nodup_cons.2 ⟨?_, ih hF⟩
      intro hb
      obtain ⟨a', ha', hg'⟩ := List.mem_filterMap.1 hb
      have := (hk a' b hg').symm.trans (hk a b hg)
      exact ha (this ▸ ha')

theorem isHead_ord_iff (flows : List ((Nat × Nat) × List Nat)) (e : Env) :
    (Net.ord flows).isHead e ↔ ((Net.ord flows).queue (flowOf e)).head? = some e.msg := by
  simp only [Net.isHead, Net.queue, flowOf]
  constructor
  · rintro ⟨q, hl, hq⟩; rw [hl]; exact hq
  · intro hq
    cases hl : alookup (e.src, e.dst) flows with
    | none => rw [hl] at hq; simp at hq
    | some q => rw [hl] at hq; exact ⟨q, rfl, hq⟩

theorem deliverable_o {kind : String} (hd : kind ≠ "d") (hn : kind ≠ "n") {h : List NetOp} {n : Net}
    (hr : Net.run (Net.ord []) h = some n) : (refDeliverable kind h).Perm n.iterDeliverable := by
  have hc : n.Canon := canon_run (by simp [Net.Canon]) hr
  rw [refDeliverable_o kind h hd hn]
  have hnd : ((flowsOf h).filterMap (fun f => (refQueue h f).head?.map (fun m => (⟨f.1, f.2, m⟩ : Env)))).Nodup := by
    apply nodup_filterMap_key _ flowOf _ _ (nodup_flowsOf h)
    intro f e he
    cases hq : (refQueue h f).head? with
    | none => simp [hq] at he
    | some m => simp [hq] at he; subst he; rfl
  rw [show ((sortEnvs (envsOf h)).map (fun e => (e.src, e.dst))).eraseDups = flowsOf h from rfl,
    List.perm_ext_iff_of_nodup hnd (C07_views n hc).2.2.2.2]
  intro e
  rw [mem_iterDeliverable hc, List.mem_filterMap]
  obtain ⟨flows, rfl⟩ := run_ord_shape rfl hr
  rw [isHead_ord_iff]
  constructor
  · rintro ⟨f, hf, he⟩
    rw [(C07_oracle_refQueue h f).2 _ hr] at he
    cases hq : ((Net.ord flows).queue f).head? with
    | none => simp [hq] at he
    | some m =>
      simp [hq] at he; subst he
      exact hq
  · intro hq
    refine ⟨flowOf e, ?_, ?_⟩
    · apply Classical.byContradiction
      intro hne
      rw [queue_nil_of_not_flow hr _ hne] at hq
      simp at hq
    · rw [(C07_oracle_refQueue h _).2 _ hr, hq]
      rfl

/-! ### the ordered network keeps its flows sorted by key; the reference lists them in the same order -/

theorem pairLt_iff (a b : Nat × Nat) : pairLt a b = true ↔ a.1 < b.1 ∨ (a.1 = b.1 ∧ a.2 < b.2) := by
  simp [pairLt]

theorem pairLt_trans {a b c : Nat × Nat} (h1 : pairLt a b = true) (h2 : pairLt b c = true) : pairLt a c = true := by
  rw [pairLt_iff] at *; omega
theorem pairLt_tri {a b : Nat × Nat} (h1 : ¬ pairLt a b = true) (h2 : a ≠ b) : pairLt b a = true := by
  rw [pairLt_iff] at *
  have : a.1 ≠ b.1 ∨ a.2 ≠ b.2 := by
    by_cases h : a.1 = b.1
    · right; intro h'; exact h2 (Prod.ext h h')
    · left; exact h
  omega
theorem pairLt_asymm {a b : Nat × Nat} (h1 : pairLt a b = true) (h2 : pairLt b a = true) : False := by
  rw [pairLt_iff] at *; omega

def KSorted (l : List (Nat × Nat)) : Prop := l.Pairwise (fun a b => pairLt a b = true)

theorem ksorted_ainsRaw {β : Type} (k : Nat × Nat) (v : β) : ∀ (l : List ((Nat × Nat) × β)), k ∉ l.map (·.1) →
    KSorted (l.map (·.1)) → KSorted ((ainsRaw pairLt k v l).map (·.1)) := by
  intro l
  induction l with
  | nil => intro _ _; simp [ainsRaw, KSorted]
  | cons p l ih =>
    obtain ⟨k1, v1⟩ := p
    intro hk hs
    unfold ainsRaw
    simp only [KSorted, List.map_cons, List.pairwise_cons] at hs
    split
    · rename_i hlt
      simp only [KSorted, List.map_cons, List.pairwise_cons]
      refine ⟨?_, hs⟩
      intro x hx
      rcases List.mem_cons.1 hx with rfl | hx
      · exact hlt
      · exact pairLt_trans hlt (hs.1 x hx)
    · rename_i hlt
      simp only [KSorted, List.map_cons, List.pairwise_cons]
      have hne : k ≠ k1 := fun e => hk (by simp [e])
      refine ⟨?_, ih (fun h' => hk (by simp [h'])) hs.2⟩
      intro x hx
      rcases (mem_keys_ainsRaw pairLt k x v l).1 hx with rfl | hx
      · exact pairLt_tri hlt hne
      · exact hs.1 x hx

theorem ksorted_ainsert {β : Type} (k : Nat × Nat) (v : β) (l : List ((Nat × Nat) × β))
    (hs : KSorted (l.map (·.1))) : KSorted ((ainsert pairLt k v l).map (·.1)) := by
  unfold ainsert
  cases h : alookup k l with
  | none => exact ksorted_ainsRaw k v l (alookup_eq_none.1 h) hs
  | some w => simpa [keys_aset] using hs

theorem ksorted_aremove {β : Type} (k : Nat × Nat) (l : List ((Nat × Nat) × β))
    (hs : KSorted (l.map (·.1))) : KSorted ((aremove k l).map (·.1)) := by
  unfold aremove KSorted at *
  rw [List.pairwise_map] at *
  exact hs.filter _

def Net.Sorted : Net → Prop
  | .ord flows => KSorted (flows.map (·.1))
  | _ => True

theorem sorted_apply {n n' : Net} {op : NetOp} (hs : Net.Sorted n) (h : n.apply op = some n') : Net.Sorted n' := by
  cases n with
  | dup set last => cases op <;> simp [Net.apply, Net.send, Net.onDeliver, Net.onDrop] at h <;> subst h <;> trivial
  | nondup ms =>
    have hk := sameKind_apply h
    cases n' with
    | nondup _ => trivial
    | dup _ _ => exact absurd hk (by simp [sameKind])
    | ord _ => exact absurd hk (by simp [sameKind])
  | ord flows =>
    have key : ∀ e n1, (Net.ord flows).removeOne e = some n1 → Net.Sorted n1 := by
      intro e n1 h1
      simp only [Net.removeOne] at h1
      split at h1
      · cases h1
      · split at h1
        · cases h1
        · split at h1
          · simp only [Option.some.injEq] at h1; subst h1
            simpa [Net.Sorted, keys_aset] using hs
          · simp only [Option.some.injEq] at h1; subst h1
            exact ksorted_aremove _ _ hs
    cases op with
    | send e =>
      simp only [Net.apply, Net.send, Option.some.injEq] at h; subst h
      exact ksorted_ainsert _ _ _ hs
    | deliver e => exact key e n' (by simpa [Net.apply, Net.onDeliver] using h)
    | drop e => exact key e n' (by simpa [Net.apply, Net.onDrop] using h)

theorem sorted_run {h : List NetOp} : ∀ {n n' : Net}, Net.Sorted n → Net.run n h = some n' → Net.Sorted n' := by
  induction h with
  | nil => intro n n' hs hr; simp [Net.run] at hr; subst hr; exact hs
  | cons op ops ih =>
    intro n n' hs hr
    obtain ⟨_, n1, h1, h2⟩ := run_cons.1 hr
    exact ih (sorted_apply hs h1) h2

theorem eraseDups_sublist {α : Type} [BEq α] [LawfulBEq α] : ∀ (l : List α), l.eraseDups.Sublist l
  | [] => by simp
  | a :: as => by
    rw [List.eraseDups_cons]
    exact ((eraseDups_sublist (as.filter fun b => !b == a)).trans List.filter_sublist).cons_cons a
termination_by l => l.length
decreasing_by simp only [List.length_cons]; exact Nat.lt_succ_of_le (List.length_filter_le _ _)

theorem ksorted_flowsOf (h : List NetOp) : KSorted (flowsOf h) := by
  unfold flowsOf KSorted
  have h1 : ((sortEnvs (envsOf h)).map (fun e => (e.src, e.dst))).Pairwise
      (fun a b => a = b ∨ pairLt a b = true) := by
    rw [List.pairwise_map]
    refine (sortEnvs_sorted _).imp ?_
    intro a b hab
    rw [envLe_iff] at hab
    rw [pairLt_iff]
    by_cases he : (a.src, a.dst) = (b.src, b.dst)
    · exact Or.inl he
    · right
      have : a.src ≠ b.src ∨ a.dst ≠ b.dst := by
        by_cases h1 : a.src = b.src
        · right; intro h2; exact he (by rw [h1, h2])
        · left; exact h1
      simp only
      omega
  have h2 := (h1.sublist (eraseDups_sublist _)).and (List.nodup_iff_pairwise_ne.1 (nodup_eraseDups' _))
  refine h2.imp ?_
  rintro a b ⟨hab | hab, hne⟩
  · exact absurd hab hne
  · exact hab

theorem ksorted_eq {a b : List (Nat × Nat)} (ha : KSorted a) (hb : KSorted b) (hm : ∀ x, x ∈ a ↔ x ∈ b) : a = b := by
  have na : a.Nodup := List.nodup_iff_pairwise_ne.2 (ha.imp (fun {x y} hxy (e : x = y) => by subst e; exact pairLt_asymm hxy hxy))
  have nb : b.Nodup := List.nodup_iff_pairwise_ne.2 (hb.imp (fun {x y} hxy (e : x = y) => by subst e; exact pairLt_asymm hxy hxy))
  exact List.Perm.eq_of_pairwise (fun x y _ _ h1 h2 => (pairLt_asymm h1 h2).elim) ha hb
    ((List.perm_ext_iff_of_nodup na nb).2 hm)

theorem flatMap_filter_nil {α β : Type} (g : α → List β) (p : α → Bool) : ∀ (F : List α),
    (∀ f ∈ F, p f = false → g f = []) → F.flatMap g = (F.filter p).flatMap g := by
  intro F
  induction F with
  | nil => intro _; rfl
  | cons a F ih =>
    intro hg
    rw [List.flatMap_cons, List.filter_cons, ih (fun f hf => hg f (List.mem_cons_of_mem _ hf))]
    cases hp : p a with
    | true => simp
    | false => simp [hg a List.mem_cons_self hp]

theorem flatMap_congr' {α β : Type} {f g : α → List β} : ∀ {l : List α}, (∀ a ∈ l, f a = g a) →
    l.flatMap f = l.flatMap g := by
  intro l
  induction l with
  | nil => intro _; rfl
  | cons a l ih =>
    intro hfg
    rw [List.flatMap_cons, List.flatMap_cons, hfg a List.mem_cons_self,
      ih (fun x hx => hfg x (List.mem_cons_of_mem _ hx))]

/-- ordered network: the reference contents ARE the model's contents (same order) -/
theorem contents_o_eq {h : List NetOp} {n : Net} (hr : Net.run (Net.ord []) h = some n) :
    (flowsOf h).flatMap (fun f => (n.queue f).map (fun m => (⟨f.1, f.2, m⟩ : Env))) = n.contents := by
  have hc : n.Canon := canon_run (by simp [Net.Canon]) hr
  have hs : Net.Sorted n := sorted_run (n := Net.ord []) (by simp [Net.Sorted, KSorted]) hr
  obtain ⟨flows, rfl⟩ := run_ord_shape rfl hr
  let K := flows.map (·.1)
  have hsub : ∀ f ∈ K, f ∈ flowsOf h := by
    intro f hf
    apply Classical.byContradiction
    intro hne
    have hq := queue_nil_of_not_flow hr f hne
    obtain ⟨p, hp, rfl⟩ := List.mem_map.1 hf
    have hl := alookup_of_mem_nodup (k := p.1) (v := p.2) hc.2 hp
    simp only [Net.queue, hl, Option.getD_some] at hq
    exact hc.1 p hp hq
  rw [flatMap_filter_nil _ (fun f => decide (f ∈ K))]
  · have : (flowsOf h).filter (fun f => decide (f ∈ K)) = K := by
      apply ksorted_eq ((ksorted_flowsOf h).filter _) hs
      intro x
      rw [List.mem_filter]
      constructor
      · intro hx; exact of_decide_eq_true hx.2
      · intro hx; exact ⟨hsub x hx, decide_eq_true hx⟩
    rw [this, List.flatMap_map]
    simp only [Net.contents]
    apply flatMap_congr'
    intro p hp
    have hl := alookup_of_mem_nodup (k := p.1) (v := p.2) hc.2 hp
    simp only [Net.queue, hl, Option.getD_some]
  · intro f _ hf
    have hf : f ∉ K := of_decide_eq_false hf
    have hl : alookup f flows = none := alookup_eq_none.2 hf
    simp [Net.queue, hl]

/-! ### `checkObs` as a conjunction of tests -/

def isNetAct : Action → Bool
  | .deliver _ | .drop _ => true
  | _ => false

/-- the `last_msg` field of a duplicating network -/
def lastField : Net → Option (Option Env)
  | .dup _ l => some l
  | _ => none

theorem ite_some_eq_none {α : Type} {c : Prop} [Decidable c] {x : α} {r : Option α} :
    (if c then some x else r) = none ↔ ¬ c ∧ r = none := by
  split <;> simp [*]

theorem filter_netAct (p : Action → Bool) (hp : ∀ a, p a = isNetAct a) (acts : List Action) :
    acts.filter p = acts.filter isNetAct := by
  apply List.filter_congr; intro x _; exact hp x

/-- the Bool conjunction tested by `checkObs` -/
def obsTests (kind : String) (nActors : Nat) (lossy : Bool) (last0 : Option Env) (h : List NetOp) (o : Obs)
    (ref del : List Env) : Bool :=
  canonical o.net && (kind != "o" || o.net.contents == ref) && isPerm o.net.contents ref &&
  (o.len == ref.length) && (kind != "o" || o.all == ref) && isPerm o.all ref && isPerm o.deliverable del &&
  (kind != "d" || lastField o.net == some (lastDelivered h last0)) &&
  (o.acts.all fun acts => sortActions (acts.filter isNetAct) ==
        sortActions ((del.filter (fun e => e.dst < nActors)).map Action.deliver ++
          (if lossy then del.map Action.drop else [])))

theorem checkObs_none_iff (kind : String) (nActors : Nat) (lossy : Bool) (last0 : Option Env) (h : List NetOp) (o : Obs)
    (ref : List Env) (href : refContents kind h = some ref) :
    checkObs kind nActors lossy last0 h o = none ↔
      obsTests kind nActors lossy last0 h o ref (refDeliverable kind h) = true := by
  unfold checkObs obsTests
  simp only [href, ite_some_eq_none]
  cases o.acts with
  | none => cases o.net <;> simp [and_assoc, Decidable.imp_iff_not_or, lastField]
  | some acts =>
    simp only [ite_some_eq_none]
    rw [filter_netAct _ (fun a => by cases a <;> rfl)]
    cases o.net <;> simp [and_assoc, Decidable.imp_iff_not_or, lastField]

/-! ### `sortActions` decides permutation -/

theorem natsLe_trans : ∀ (a b c : List Nat), natsLe a b = true → natsLe b c = true → natsLe a c = true := by
  intro a
  induction a with
  | nil => intro b c _ _; simp [natsLe]
  | cons x xs ih =>
    intro b c hab hbc
    cases b with
    | nil => simp [natsLe] at hab
    | cons y ys =>
      cases c with
      | nil => simp [natsLe] at hbc
      | cons z zs =>
        simp only [natsLe, Bool.or_eq_true, decide_eq_true_eq, Bool.and_eq_true, beq_iff_eq] at hab hbc ⊢
        rcases hab with hab | ⟨rfl, hab⟩
        · rcases hbc with hbc | ⟨rfl, hbc⟩
          · left; omega
          · left; exact hab
        · rcases hbc with hbc | ⟨rfl, hbc⟩
          · left; exact hbc
          · right; exact ⟨rfl, ih ys zs hab hbc⟩

theorem natsLe_total : ∀ (a b : List Nat), (natsLe a b || natsLe b a) = true := by
  intro a
  induction a with
  | nil => intro b; simp [natsLe]
  | cons x xs ih =>
    intro b
    cases b with
    | nil => simp [natsLe]
    | cons y ys =>
      have := ih ys
      simp only [natsLe, Bool.or_eq_true, decide_eq_true_eq, Bool.and_eq_true, beq_iff_eq] at this ⊢
      by_cases hxy : x = y
      · subst hxy; rcases this with h | h
        · exact Or.inl (Or.inr ⟨rfl, h⟩)
        · exact Or.inr (Or.inr ⟨rfl, h⟩)
      · omega

theorem natsLe_antisymm : ∀ (a b : List Nat), natsLe a b = true → natsLe b a = true → a = b := by
  intro a
  induction a with
  | nil => intro b _ h; cases b with
    | nil => rfl
    | cons y ys => simp [natsLe] at h
  | cons x xs ih =>
    intro b hab hba
    cases b with
    | nil => simp [natsLe] at hab
    | cons y ys =>
      simp only [natsLe, Bool.or_eq_true, decide_eq_true_eq, Bool.and_eq_true, beq_iff_eq] at hab hba
      rcases hab with hab | ⟨rfl, hab⟩
      · rcases hba with hba | ⟨rfl, hba⟩ <;> omega
      · rcases hba with hba | ⟨_, hba⟩
        · omega
        · rw [ih ys hab hba]

theorem actionKey_inj (a b : Action) (h : actionKey a = actionKey b) : a = b := by
  cases a <;> cases b <;> simp [actionKey] at h
  · rename_i e e'; cases e; cases e'; simp_all
  · rename_i e e'; cases e; cases e'; simp_all
  · simp [h]
  · simp [h]
  · simp [h]

theorem sortActions_eq_iff (a b : List Action) : sortActions a = sortActions b ↔ a.Perm b := by
  unfold sortActions
  constructor
  · intro h
    exact (List.mergeSort_perm a _).symm.trans (h ▸ List.mergeSort_perm b _)
  · intro h
    apply List.Perm.eq_of_pairwise (le := fun a b => natsLe (actionKey a) (actionKey b) = true)
    · intro x y _ _ h1 h2; exact actionKey_inj x y (natsLe_antisymm _ _ h1 h2)
    · exact List.pairwise_mergeSort (le := fun a b => natsLe (actionKey a) (actionKey b)) (fun a b c => natsLe_trans _ _ _) (fun a b => natsLe_total _ _) a
    · exact List.pairwise_mergeSort (le := fun a b => natsLe (actionKey a) (actionKey b)) (fun a b c => natsLe_trans _ _ _) (fun a b => natsLe_total _ _) b
    · exact (List.mergeSort_perm a _).trans (h.trans (List.mergeSort_perm b _).symm)

/-! ### `canonical`, `lastDelivered`, the declarative reading of `checkObs` -/

theorem eraseDups_of_nodup' {α : Type} [BEq α] [LawfulBEq α] : ∀ (l : List α), l.Nodup → l.eraseDups = l
  | [], _ => by simp
  | a :: as, h => by
    rw [List.eraseDups_cons]
    obtain ⟨ha, has⟩ := List.nodup_cons.1 h
    have hf : as.filter (fun b => !b == a) = as := by
      rw [List.filter_eq_self]
      intro b hb
      have : b ≠ a := fun e => ha (e ▸ hb)
      simpa using this
    rw [hf, eraseDups_of_nodup' as has]

theorem eraseDups_length_eq_iff' {α : Type} [BEq α] [LawfulBEq α] (l : List α) :
    l.eraseDups.length = l.length ↔ l.Nodup := by
  constructor
  · intro h
    have := (eraseDups_sublist l).eq_of_length h
    rw [← this]; exact nodup_eraseDups' l
  · intro h; rw [eraseDups_of_nodup' l h]

theorem canonical_iff (n : Net) : canonical n = true ↔ n.Canon := by
  cases n with
  | dup set last => simp [canonical, Net.Canon, eraseDups_length_eq_iff']
  | nondup ms =>
    have hl : ms.length = (ms.map (·.1)).length := (List.length_map _).symm
    simp only [canonical, Net.Canon, Bool.and_eq_true, List.all_eq_true, beq_iff_eq]
    rw [hl, eraseDups_length_eq_iff']
    constructor
    · rintro ⟨h1, h2⟩; exact ⟨fun p hp => by simpa using h1 p hp, h2⟩
    · rintro ⟨h1, h2⟩; exact ⟨fun p hp => by simpa using h1 p hp, h2⟩
  | ord fs =>
    have hl : fs.length = (fs.map (·.1)).length := (List.length_map _).symm
    simp only [canonical, Net.Canon, Bool.and_eq_true, List.all_eq_true, beq_iff_eq]
    rw [hl, eraseDups_length_eq_iff']
    constructor
    · rintro ⟨h1, h2⟩; exact ⟨fun p hp => by simpa using h1 p hp, h2⟩
    · rintro ⟨h1, h2⟩; exact ⟨fun p hp => by simpa using h1 p hp, h2⟩

def deliv? : NetOp → Option Env
  | .deliver x => some x
  | _ => none

theorem drvLast_eq (h : List NetOp) (last0 : Option Env) :
    Drv.C07.lastDelivered h last0 = ((h.filterMap deliv?).getLast?).or last0 := by
  unfold Drv.C07.lastDelivered
  have : ∀ (f : NetOp → Option Env), (∀ op, f op = deliv? op) → h.filterMap f = h.filterMap deliv? :=
    fun f hf => by congr; funext op; exact hf op
  rw [this _ (fun op => by cases op <;> rfl)]
  cases (h.filterMap deliv?).getLast? <;> rfl

theorem getLast_delivered (h : List NetOp) : (h.filterMap deliv?).getLast? = C07.lastDelivered h := by
  induction h with
  | nil => rfl
  | cons op ops ih =>
    rw [List.filterMap_cons]
    cases op with
    | send e => simp only [deliv?, C07.lastDelivered, ih]; cases C07.lastDelivered ops <;> rfl
    | drop e => simp only [deliv?, C07.lastDelivered, ih]; cases C07.lastDelivered ops <;> rfl
    | deliver e =>
      simp only [deliv?, C07.lastDelivered, List.getLast?_cons, ih]
      cases C07.lastDelivered ops <;> rfl

theorem lastDelivered_eq (h : List NetOp) (last0 : Option Env) :
    Drv.C07.lastDelivered h last0 = (C07.lastDelivered h).or last0 := by
  rw [drvLast_eq, getLast_delivered]


/-! ### the assembly -/

/-- the empty network of kind `kind` (`"d"` duplicating with `last_msg = last`, `"n"` non-duplicating, otherwise ordered — the
    oracle treats every other kind word as ordered; `mkNet` accepts only `"o"`) -/
def emptyNet (kind : String) (last : Option Env) : Net :=
  match kind with
  | "d" => .dup [] last
  | "n" => .nondup []
  | _ => .ord []

theorem emptyNet_o {kind : String} (hd : kind ≠ "d") (hn : kind ≠ "n") (last : Option Env) :
    emptyNet kind last = .ord [] := by
  unfold emptyNet
  split
  · exact absurd rfl hd
  · exact absurd rfl hn
  · rfl

theorem emptyNet_canon (kind : String) (last : Option Env) : (emptyNet kind last).Canon := by
  unfold emptyNet; split <;> simp [Net.Canon]

theorem contents_any {kind : String} {last : Option Env} {h : List NetOp} {n : Net}
    (hr : Net.run (emptyNet kind last) h = some n) :
    ∃ ref, refContents kind h = some ref ∧ ref.Perm n.contents ∧ (kind ≠ "d" → kind ≠ "n" → ref = n.contents) := by
  by_cases hd : kind = "d"
  · subst hd
    exact ⟨_, refContents_d h, contents_d hr, fun x => absurd rfl x⟩
  · by_cases hn : kind = "n"
    · subst hn
      obtain ⟨ref, h1, _, h3⟩ := contents_n hr
      exact ⟨ref, h1, h3, fun _ x => absurd rfl x⟩
    · rw [emptyNet_o hd hn] at hr
      obtain ⟨ref, h1, h2, h3⟩ := contents_o hd hn hr
      exact ⟨ref, h1, h3, fun _ _ => h2.trans (contents_o_eq hr)⟩

theorem deliverable_any {kind : String} {last : Option Env} {h : List NetOp} {n : Net}
    (hr : Net.run (emptyNet kind last) h = some n) : (refDeliverable kind h).Perm n.iterDeliverable := by
  by_cases hd : kind = "d"
  · subst hd; exact deliverable_d hr
  · by_cases hn : kind = "n"
    · subst hn; exact deliverable_n hr
    · rw [emptyNet_o hd hn] at hr
      exact deliverable_o hd hn hr

/-- the initial envelopes of the `o-net` request enter the history as sends: the model network `mkNet kind envs last` is the
    empty network after these sends -/
theorem run_initial (n₀ : Net) (envs : List Env) (ops : List NetOp) :
    Net.run n₀ (envs.map NetOp.send ++ ops) = Net.run (envs.foldl Net.send n₀) ops := by
  induction envs generalizing n₀ with
  | nil => rfl
  | cons e es ih =>
    simp only [List.map_cons, List.cons_append, Net.run, Net.valid, Net.apply, if_true, Option.bind_some, List.foldl_cons]
    exact ih _

theorem mkNet_eq {kind : String} {envs : List Env} {last : Option Env} {n₀ : Net} (hm : mkNet kind envs last = some n₀) :
    n₀ = envs.foldl Net.send (emptyNet kind last) := by
  unfold mkNet at hm
  split at hm
  · simp only [Option.some.injEq] at hm; exact hm.symm
  · simp only [Option.some.injEq] at hm; exact hm.symm
  · simp only [Option.some.injEq] at hm; exact hm.symm
  · cases hm

/-- the network actions the reference expects: a Deliver for every deliverable envelope whose recipient exists, a Drop for
    every deliverable envelope if the network is lossy -/
def expActs (nActors : Nat) (lossy : Bool) (n : Net) : List Action :=
  (n.iterDeliverable.filter (fun e => e.dst < nActors)).map Action.deliver ++
    (if lossy then n.iterDeliverable.map Action.drop else [])

/-- what `checkObs` demands of an observation `o`, stated about the model network `n` reached by the history -/
def ObsSpec (kind : String) (nActors : Nat) (lossy : Bool) (n : Net) (o : Obs) : Prop :=
  o.net.Canon ∧ (kind = "o" → o.net.contents = n.contents) ∧ o.net.contents.Perm n.contents ∧
  o.len = n.contents.length ∧ (kind = "o" → o.all = n.contents) ∧ o.all.Perm n.contents ∧
  o.deliverable.Perm n.iterDeliverable ∧ (kind = "d" → lastField o.net = lastField n) ∧
  ∀ acts, o.acts = some acts → (acts.filter isNetAct).Perm (expActs nActors lossy n)

theorem perm_congr_right' {α : Type} {a r x : List α} (hp : r.Perm x) : a.Perm r ↔ a.Perm x :=
  ⟨fun h => h.trans hp, fun h => h.trans hp.symm⟩

theorem checkObs_iff {kind : String} {nActors : Nat} {lossy : Bool} {last0 : Option Env} {h : List NetOp} {n : Net}
    (hr : Net.run (emptyNet kind last0) h = some n) (o : Obs) :
    checkObs kind nActors lossy last0 h o = none ↔ ObsSpec kind nActors lossy n o := by
  obtain ⟨ref, href, hperm, heq⟩ := contents_any hr
  have hdel := deliverable_any hr
  rw [checkObs_none_iff _ _ _ _ _ _ ref href]
  unfold obsTests ObsSpec expActs
  simp only [Bool.and_eq_true]
  have hko : kind = "o" → ref = n.contents := fun hk => heq (by rw [hk]; decide) (by rw [hk]; decide)
  have hlast : kind = "d" → lastField n = some (Drv.C07.lastDelivered h last0) := by
    intro hk; subst hk
    obtain ⟨s, hs⟩ := C07_dup_last [] last0 n h hr
    rw [hs, lastDelivered_eq]; rfl
  have e1 : ((kind != "o" || o.net.contents == ref) = true) ↔ (kind = "o" → o.net.contents = n.contents) := by
    by_cases hk : kind = "o"
    · simp [hk, ← hko hk]
    · simp [hk]
  have e2 : ((kind != "o" || o.all == ref) = true) ↔ (kind = "o" → o.all = n.contents) := by
    by_cases hk : kind = "o"
    · simp [hk, ← hko hk]
    · simp [hk]
  have e3 : ((kind != "d" || lastField o.net == some (Drv.C07.lastDelivered h last0)) = true) ↔
      (kind = "d" → lastField o.net = lastField n) := by
    by_cases hk : kind = "d"
    · simp [hk, hlast hk]
    · simp [hk]
  have e4 : (o.len == ref.length) = true ↔ o.len = n.contents.length := by
    rw [beq_iff_eq, hperm.length_eq]
  have e5 : (o.acts.all fun acts => sortActions (acts.filter isNetAct) ==
        sortActions (((refDeliverable kind h).filter (fun e => e.dst < nActors)).map Action.deliver ++
          (if lossy then (refDeliverable kind h).map Action.drop else []))) = true ↔
      ∀ acts, o.acts = some acts → (acts.filter isNetAct).Perm
        ((n.iterDeliverable.filter (fun e => e.dst < nActors)).map Action.deliver ++
          (if lossy then n.iterDeliverable.map Action.drop else [])) := by
    have hp : (((refDeliverable kind h).filter (fun e => e.dst < nActors)).map Action.deliver ++
          (if lossy then (refDeliverable kind h).map Action.drop else [])).Perm
        ((n.iterDeliverable.filter (fun e => e.dst < nActors)).map Action.deliver ++
          (if lossy then n.iterDeliverable.map Action.drop else [])) := by
      apply List.Perm.append ((hdel.filter _).map _)
      cases lossy
      · exact List.Perm.refl _
      · exact hdel.map _
    cases o.acts with
    | none => simp
    | some acts =>
      simp only [Option.all_some, beq_iff_eq, sortActions_eq_iff, Option.some.injEq, forall_eq']
      exact perm_congr_right' hp
  rw [canonical_iff, e1, isPerm_iff, perm_congr_right' hperm, e4, e2, isPerm_iff, perm_congr_right' hperm, isPerm_iff,
    perm_congr_right' hdel, e3, e5]
  simp only [and_assoc]

theorem mem_expActs {n : Net} (hc : n.Canon) (nActors : Nat) (lossy : Bool) (a : Action) :
    a ∈ expActs nActors lossy n ↔
      (∃ e, a = .deliver e ∧ n.isHead e ∧ e.dst < nActors) ∨ (∃ e, a = .drop e ∧ lossy = true ∧ n.isHead e) := by
  unfold expActs
  rw [List.mem_append, List.mem_map]
  constructor
  · rintro (⟨e, he, rfl⟩ | hx)
    · rw [List.mem_filter, mem_iterDeliverable hc] at he
      exact Or.inl ⟨e, rfl, he.1, by simpa using he.2⟩
    · cases lossy with
      | false => simp at hx
      | true =>
        simp only [if_true, List.mem_map] at hx
        obtain ⟨e, he, rfl⟩ := hx
        exact Or.inr ⟨e, rfl, rfl, (mem_iterDeliverable hc e).1 he⟩
  · rintro (⟨e, rfl, he, hd⟩ | ⟨e, rfl, hl, he⟩)
    · exact Or.inl ⟨e, List.mem_filter.2 ⟨(mem_iterDeliverable hc e).2 he, by simpa using hd⟩, rfl⟩
    · subst hl
      exact Or.inr (by simpa using (mem_iterDeliverable hc e).2 he)

theorem nodup_map_inj {α β : Type} (f : α → β) (hf : ∀ a b, f a = f b → a = b) : ∀ {l : List α}, l.Nodup → (l.map f).Nodup := by
  intro l
  induction l with
  | nil => intro _; simp
  | cons a l ih =>
    intro hn
    obtain ⟨ha, hl⟩ := List.nodup_cons.1 hn
    rw [List.map_cons]
    refine List.nodup_cons.2 ⟨?_, ih hl⟩
    intro hm
    obtain ⟨b, hb, hfb⟩ := List.mem_map.1 hm
    exact ha (hf _ _ hfb ▸ hb)

theorem nodup_expActs {n : Net} (hc : n.Canon) (nActors : Nat) (lossy : Bool) : (expActs nActors lossy n).Nodup := by
  unfold expActs
  have hnd : n.iterDeliverable.Nodup := (C07_views n hc).2.2.2.2
  rw [List.nodup_append]
  refine ⟨nodup_map_inj _ (fun a b h => by injection h) (hnd.filter _), ?_, ?_⟩
  · cases lossy
    · simp
    · exact nodup_map_inj _ (fun a b h => by injection h) hnd
  · intro a ha b hb
    obtain ⟨e, _, rfl⟩ := List.mem_map.1 ha
    cases lossy
    · simp at hb
    · simp only [if_true] at hb
      obtain ⟨e', _, rfl⟩ := List.mem_map.1 hb
      intro h; cases h

theorem checkOp_iff {kind : String} {last : Option Env} {h : List NetOp} {n : Net}
    (hr : Net.run (emptyNet kind last) h = some n) (op : NetOp) :
    checkOp kind h op = none ↔ n.valid op = true := by
  have hdel := deliverable_any hr
  cases op with
  | send e => simp [checkOp, Net.valid]
  | deliver e =>
    simp only [checkOp, Net.valid, decide_eq_true_eq]
    rw [← hdel.mem_iff]
    by_cases hm : e ∈ refDeliverable kind h <;> simp [hm]
  | drop e =>
    simp only [checkOp, Net.valid, decide_eq_true_eq]
    rw [← hdel.mem_iff]
    by_cases hm : e ∈ refDeliverable kind h <;> simp [hm]


/-! ### the model's own observation passes (with the offered actions) -/
section
variable {σ η : Type}

theorem netActions_src (sys : ActorSys σ η) : ∀ (L : List Env) (prev : Option (Nat × Nat)) (a : Action),
    a ∈ netActions sys prev L → ∃ e ∈ L, a = .deliver e ∨ a = .drop e := by
  intro L
  induction L with
  | nil => intro prev a h; simp [netActions] at h
  | cons e es ih =>
    intro prev a h
    have hd : ∀ x : Action, x ∈ (if sys.lossy then [Action.drop e] else []) → x = .drop e := by
      intro x hx; by_cases hl : sys.lossy <;> simp [hl] at hx; exact hx
    have tl : ∀ p, a ∈ netActions sys p es → ∃ e' ∈ e :: es, a = .deliver e' ∨ a = .drop e' := by
      intro p hp
      obtain ⟨e', he', h'⟩ := ih p a hp
      exact ⟨e', List.mem_cons_of_mem _ he', h'⟩
    unfold netActions at h
    simp only [] at h
    split at h
    · split at h
      · split at h
        · rcases List.mem_append.1 h with h | h
          · exact ⟨e, List.mem_cons_self, Or.inr (hd a h)⟩
          · exact tl _ h
        · rcases List.mem_append.1 h with h | h
          · rcases List.mem_append.1 h with h | h
            · exact ⟨e, List.mem_cons_self, Or.inr (hd a h)⟩
            · exact ⟨e, List.mem_cons_self, Or.inl (by simpa using h)⟩
          · exact tl _ h
      · rcases List.mem_append.1 h with h | h
        · rcases List.mem_append.1 h with h | h
          · exact ⟨e, List.mem_cons_self, Or.inr (hd a h)⟩
          · exact ⟨e, List.mem_cons_self, Or.inl (by simpa using h)⟩
        · exact tl _ h
    · rcases List.mem_append.1 h with h | h
      · exact ⟨e, List.mem_cons_self, Or.inr (hd a h)⟩
      · exact tl _ h

theorem nodup_netActions (sys : ActorSys σ η) : ∀ (L : List Env), L.Nodup → ∀ (prev : Option (Nat × Nat)),
    (netActions sys prev L).Nodup := by
  intro L
  induction L with
  | nil => intro _ _; simp [netActions]
  | cons e es ih =>
    intro hn prev
    obtain ⟨he, hes⟩ := List.nodup_cons.1 hn
    have hdn : (if sys.lossy then [Action.drop e] else []).Nodup := by by_cases hl : sys.lossy <;> simp [hl]
    have hd : ∀ x : Action, x ∈ (if sys.lossy then [Action.drop e] else []) → x = .drop e := by
      intro x hx; by_cases hl : sys.lossy <;> simp [hl] at hx; exact hx
    have hfresh : ∀ p (x : Action), (x = .drop e ∨ x = .deliver e) → x ∉ netActions sys p es := by
      intro p x hx hm
      obtain ⟨e', he', h'⟩ := netActions_src sys es p x hm
      rcases hx with rfl | rfl <;> rcases h' with h' | h' <;> cases h' <;> exact he he'
    have A : ∀ p, ((if sys.lossy then [Action.drop e] else []) ++ netActions sys p es).Nodup := by
      intro p
      rw [List.nodup_append]
      refine ⟨hdn, ih hes p, ?_⟩
      intro a ha b hb hab
      subst hab
      exact hfresh p a (Or.inl (hd a ha)) hb
    have B : ∀ p, ((if sys.lossy then [Action.drop e] else []) ++ [Action.deliver e] ++ netActions sys p es).Nodup := by
      intro p
      rw [List.nodup_append]
      refine ⟨?_, ih hes p, ?_⟩
      · rw [List.nodup_append]
        refine ⟨hdn, by simp, ?_⟩
        intro a ha b hb hab
        subst hab
        have := hd a ha
        simp only [List.mem_singleton] at hb
        rw [this] at hb; cases hb
      · intro a ha b hb hab
        subst hab
        rcases List.mem_append.1 ha with ha | ha
        · exact hfresh p a (Or.inl (hd a ha)) hb
        · exact hfresh p a (Or.inr (by simpa using ha)) hb
    unfold netActions
    simp only []
    split
    · split
      · split
        · exact A _
        · exact B _
      · exact B _
    · exact A _

theorem filter_isNetAct_actions (sys : ActorSys σ η) (st : St σ η) :
    (actions sys st).filter isNetAct = netActions sys none st.net.iterDeliverable := by
  unfold actions
  rw [List.filter_append, List.filter_append, List.filter_append]
  have h1 : (netActions sys none st.net.iterDeliverable).filter isNetAct = netActions sys none st.net.iterDeliverable := by
    rw [List.filter_eq_self]
    intro a ha
    rcases netActions_kinds sys none _ a ha with ⟨e, rfl⟩ | ⟨e, rfl⟩ <;> rfl
  have h2 : (timeoutActions st.timers).filter isNetAct = [] := by
    rw [List.filter_eq_nil_iff]
    intro a ha
    obtain ⟨i, t, ts, rfl, _⟩ := (mem_timeoutActions _ a).1 ha
    simp [isNetAct]
  have h3 : (crashActions sys.maxCrashes st.crashed).filter isNetAct = [] := by
    rw [List.filter_eq_nil_iff]
    intro a ha
    obtain ⟨i, rfl, _⟩ := (mem_crashActions _ _ a).1 ha
    simp [isNetAct]
  have h4 : (randomActions st.random).filter isNetAct = [] := by
    rw [List.filter_eq_nil_iff]
    intro a ha
    obtain ⟨i, k, r, m, cs, rfl, _⟩ := (mem_randomActions _ a).1 ha
    simp [isNetAct]
  rw [h1, h2, h3, h4]; simp

theorem model_acts_perm (sys : ActorSys σ η) (st : St σ η) (hn : st.NetOk sys) :
    ((actions sys st).filter isNetAct).Perm (expActs sys.n sys.lossy st.net) := by
  have hnd1 : ((actions sys st).filter isNetAct).Nodup := by
    rw [filter_isNetAct_actions]
    exact nodup_netActions sys _ (C07_views st.net hn.1).2.2.2.2 none
  rw [List.perm_ext_iff_of_nodup hnd1 (nodup_expActs hn.1 _ _)]
  intro a
  rw [mem_expActs hn.1, List.mem_filter]
  constructor
  · rintro ⟨ha, hk⟩
    cases a with
    | deliver e => exact Or.inl ⟨e, rfl, (C07_actions sys st hn e).1.1 ha⟩
    | drop e => exact Or.inr ⟨e, rfl, (C07_actions sys st hn e).2.1 ha⟩
    | timeout _ _ => simp [isNetAct] at hk
    | crash _ => simp [isNetAct] at hk
    | selectRandom _ _ _ => simp [isNetAct] at hk
  · rintro (⟨e, rfl, h1, h2⟩ | ⟨e, rfl, h1, h2⟩)
    · exact ⟨(C07_actions sys st hn e).1.2 ⟨h1, h2⟩, rfl⟩
    · exact ⟨(C07_actions sys st hn e).2.2 ⟨h1, h2⟩, rfl⟩
end
end C07

/-! ## checker group: `o-chk c11`, `o-chk-sym` -/
section Chk
open SR SR.Checker SR.Drv.Chk SR.CCompleteRun

/-- the line `eventually-false-alarm` of `oracleC11` for property `i` (an eventually-property `pr`) -/
def c11FalseAlarm (c : Case) (o : Obs) (i : Nat) (pr : GProp) : List String :=
  if (o.disc.map (·.1)).contains i && !(c.g.canAvoidForever (fun s => pr.tbl.getD s false))
  then [s!"eventually-false-alarm-p{i}"] else []

/-- the line `eventually-missed-on-forest` of `oracleC11` for property `i` -/
def c11Missed (c : Case) (o : Obs) (sim : Bool) (i : Nat) (pr : GProp) : List String :=
  if !sim && completeRun c o && c.g.isForest && c.g.canAvoidForever (fun s => pr.tbl.getD s false) &&
    !(o.disc.map (·.1)).contains i then [s!"eventually-missed-on-forest-p{i}"] else []

theorem oracleC11_eq (c : Case) (o : Obs) (sim : Bool) :
    oracleC11 c o sim = (List.range c.props.length).flatMap fun i =>
      match c.props[i]? with
      | none => []
      | some pr => if pr.exp != .eventually then [] else c11FalseAlarm c o i pr ++ c11Missed c o sim i pr := rfl

theorem contains_names_eq {c : Case} {cs : List Choice} {o : Obs} (ho : Observes o (run c.params cs)) (i : Nat) :
    (o.disc.map (·.1)).contains i = hasDisc (run c.params cs).disc i := by
  rw [Bool.eq_iff_iff, ← mem_discNames_iff]
  simp only [List.contains_eq_mem, decide_eq_true_eq]
  exact ho.disc.mem_iff

theorem c11FalseAlarm_nil_iff (c : Case) (o : Obs) (i : Nat) (pr : GProp) :
    c11FalseAlarm c o i pr = [] ↔
      ((o.disc.map (·.1)).contains i = true → c.g.canAvoidForever (fun s => pr.tbl.getD s false) = true) := by
  unfold c11FalseAlarm
  cases (o.disc.map (·.1)).contains i <;> cases c.g.canAvoidForever (fun s => pr.tbl.getD s false) <;> simp

theorem c11Missed_nil_iff (c : Case) (o : Obs) (i : Nat) (pr : GProp) :
    c11Missed c o false i pr = [] ↔
      (completeRun c o = true → c.g.isForest = true → c.g.canAvoidForever (fun s => pr.tbl.getD s false) = true →
        (o.disc.map (·.1)).contains i = true) := by
  unfold c11Missed
  cases completeRun c o <;> cases c.g.isForest <;> cases (o.disc.map (·.1)).contains i <;>
    cases c.g.canAvoidForever (fun s => pr.tbl.getD s false) <;> simp

theorem c11Missed_sim (c : Case) (o : Obs) (i : Nat) (pr : GProp) : c11Missed c o true i pr = [] := by
  simp [c11Missed]


/-! ### `o-chk-sym` -/

/-- the parameters of the symmetry-reduced machine, as built by the driver (`{ c.params with key := fun s => rep.getD s s }`) -/
def symParams (c : Case) (rep : List Nat) : Params Nat Nat Nat := { c.params with key := fun s => rep.getD s s }

theorem symRep_ge {rep : List Nat} {a : Nat} (h : rep.length ≤ a) : symRep rep a = a := by
  simp [symRep, List.getD, List.getElem?_eq_none h]

theorem symRep_lt_bound {rep : List Nat} {a : Nat} (h : a < symBound rep) : symRep rep a < symBound rep := by
  unfold symRep
  by_cases hl : a < rep.length
  · have : rep.getD a a = rep[a] := by simp [List.getD, List.getElem?_eq_getElem hl]
    rw [this]
    have := (COracleAudit.foldl_max_ge rep 0).2 rep[a] (List.getElem_mem hl)
    unfold symBound; omega
  · have := symRep_ge (rep := rep) (a := a) (by omega)
    unfold symRep at this; rw [this]; exact h

theorem symRep_eq_cases {rep : List Nat} {a b : Nat} (h : symRep rep a = symRep rep b) :
    (a < symBound rep ∧ b < symBound rep) ∨ a = b := by
  by_cases ha : a < symBound rep
  · by_cases hb : b < symBound rep
    · exact Or.inl ⟨ha, hb⟩
    · have hb' : symRep rep b = b := symRep_ge (by unfold symBound at hb; omega)
      have := symRep_lt_bound ha
      rw [h, hb'] at this; exact absurd this hb
  · have ha' : symRep rep a = a := symRep_ge (by unfold symBound at ha; omega)
    by_cases hb : b < symBound rep
    · have := symRep_lt_bound hb
      rw [← h, ha'] at this; exact absurd this ha
    · have hb' : symRep rep b = b := symRep_ge (by unfold symBound at hb; omega)
      rw [ha', hb'] at h; exact Or.inr h

theorem symOk_iff (g : Graph) (rep : List Nat) (conds : List (List Bool)) :
    symOk g rep conds = true ↔
      (∀ a b, symRep rep a = symRep rep b → ∀ a' ∈ g.toSys.succB a, ∃ b' ∈ g.toSys.succB b, symRep rep a' = symRep rep b') ∧
      (∀ tbl ∈ conds, ∀ a b, symRep rep a = symRep rep b → tbl.getD a false = tbl.getD b false) := by
  unfold symOk
  simp only [List.all_eq_true, List.mem_range, Bool.or_eq_true, bne_iff_ne, ne_eq, Bool.and_eq_true, List.any_eq_true,
    beq_iff_eq, Graph.succB]
  constructor
  · intro h
    constructor
    · intro a b hab a' ha'
      rcases symRep_eq_cases hab with ⟨ha, hb⟩ | rfl
      · rcases h a ha b hb with hne | ⟨h1, _⟩
        · exact absurd hab hne
        · exact h1 a' ha'
      · exact ⟨a', ha', rfl⟩
    · intro tbl ht a b hab
      rcases symRep_eq_cases hab with ⟨ha, hb⟩ | rfl
      · rcases h a ha b hb with hne | ⟨_, h2⟩
        · exact absurd hab hne
        · exact h2 tbl ht
      · rfl
  · rintro ⟨h1, h2⟩ a _ b _
    by_cases hab : symRep rep a = symRep rep b
    · exact Or.inr ⟨fun a' ha' => h1 a b hab a' ha', fun tbl ht => h2 tbl ht a b hab⟩
    · exact Or.inl hab

theorem finishMono_sym (c : Case) (rep : List Nat) : FinishMono (symParams c rep) :=
  C12_finish_mono_case_key c _

/-- the guard, transferred from the observation to the final state of the symmetry-reduced machine -/
theorem guard_of_observes_sym (c : Case) (rep : List Nat) (cs : List Choice) (o : Obs)
    (ho : Observes o (run (symParams c rep) cs)) (hc : completeRun c o = true) :
    Guard c (discNames (run (symParams c rep) cs).disc) := by
  obtain ⟨hd, ht, hfin, hall⟩ := (C01_complete_run_guard c o).1 hc
  have hnd := discNodup_run (P := symParams c rep) cs
  have hnd' : (o.disc.map (·.1)).Nodup := ho.disc.nodup_iff.2 hnd
  refine ⟨hd, ht, ?_, ?_⟩
  · rw [← Finish.matches_perm c.finish c.props ho.disc hnd']; exact hfin
  · rw [eraseDups_of_nodup _ hnd, ← ho.disc.length_eq, ← eraseDups_of_nodup _ hnd']; exact hall

theorem contains_names_eq_sym {P : Params Nat Nat Nat} {cs : List Choice} {o : Obs} (ho : Observes o (run P cs)) (i : Nat) :
    (o.disc.map (·.1)).contains i = hasDisc (run P cs).disc i := by
  rw [Bool.eq_iff_iff, ← mem_discNames_iff]
  simp only [List.contains_eq_mem, decide_eq_true_eq]
  exact ho.disc.mem_iff

/-- the verdict line of `oracleC02` for property `i` -/
def c02Line (c : Case) (o : Obs) (i : Nat) (pr : GProp) : List String :=
  match pr.exp with
  | .always =>
    if (o.disc.map (·.1)).contains i == c.g.reachList.any (fun s => !pr.tbl.getD s false) then []
    else [s!"always-verdict-wrong-p{i}"]
  | .sometimes =>
    if (o.disc.map (·.1)).contains i == c.g.reachList.any (fun s => pr.tbl.getD s false) then []
    else [s!"sometimes-verdict-wrong-p{i}"]
  | .eventually => []

theorem oracleC02_eq (c : Case) (o : Obs) :
    oracleC02 c o = if !(completeRun c o) then [] else
      (List.range c.props.length).flatMap fun i =>
        match c.props[i]? with
        | none => []
        | some pr => c02Line c o i pr := by
  unfold oracleC02 c02Line
  rfl

theorem c02Line_nil_iff (c : Case) (hwf : c.g.WF) (o : Obs) (i : Nat) (pr : GProp) (hexp : pr.exp ≠ .eventually) :
    c02Line c o i pr = [] ↔
      ((o.disc.map (·.1)).contains i = true ↔ ∃ t, c.g.toSys.Reach t ∧ Wit pr.toProp t) := by
  unfold c02Line Wit GProp.toProp
  cases h : pr.exp with
  | eventually => exact absurd h hexp
  | always =>
    simp only [reduceCtorEq, false_and, or_false, true_and]
    have := COracleAudit.C02_oracle_reach_any c.g hwf (fun s => !pr.tbl.getD s false)
    simp only [Bool.not_eq_true'] at this
    rw [← this]
    cases (o.disc.map (·.1)).contains i <;> cases c.g.reachList.any (fun s => !pr.tbl.getD s false) <;> simp
  | sometimes =>
    simp only [reduceCtorEq, false_and, false_or, true_and]
    rw [← COracleAudit.C02_oracle_reach_any c.g hwf (fun s => pr.tbl.getD s false)]
    cases (o.disc.map (·.1)).contains i <;> cases c.g.reachList.any (fun s => pr.tbl.getD s false) <;> simp



theorem lasts_iff_visited {P : Params Nat Nat Nat} {cs : List Choice} {o : Obs} (ho : Observes o (run P cs)) (v : Nat) :
    v ∈ o.visits.map lastOf ↔ v ∈ visitedStates (run P cs) := by
  rw [ho.visits]
  simp only [visitedStates, List.mem_map, List.mem_reverse, List.mem_filterMap]
  constructor
  · rintro ⟨p, hp, rfl⟩
    obtain ⟨s, rest, hp', _⟩ := C01.C01_sound P cs p hp
    refine ⟨p, hp, ?_⟩
    subst hp'
    simp [lastOf, List.getLast?_cons]
  · rintro ⟨p, hp, hl⟩
    exact ⟨p, hp, by simp [lastOf, hl]⟩

theorem classLine_iff (c : Case) (hwf : c.g.WF) (rep : List Nat) {P : Params Nat Nat Nat} {cs : List Choice} {o : Obs}
    (ho : Observes o (run P cs)) :
    c.g.reachList.all (fun t => (o.visits.map lastOf).any (fun v => symRep rep v == symRep rep t)) = true ↔
      ∀ t, c.g.toSys.Reach t → ∃ u ∈ visitedStates (run P cs), symRep rep t = symRep rep u := by
  simp only [List.all_eq_true, List.any_eq_true, beq_iff_eq]
  constructor
  · intro h t ht
    obtain ⟨v, hv, hvt⟩ := h t (((COracle.C13_oracle_reach c.g hwf).1 t).2 ht)
    exact ⟨v, (lasts_iff_visited ho v).1 hv, hvt.symm⟩
  · intro h t ht
    obtain ⟨u, hu, hut⟩ := h t (((COracle.C13_oracle_reach c.g hwf).1 t).1 ht)
    exact ⟨u, (lasts_iff_visited ho u).2 hu, hut.symm⟩

end Chk
end SR.COracleRest
