import SR.Proofs.Checker.Control
import SR.Proofs.Checker.DiscNames
import SR.Proofs.Checker.SpecAdequacy
import SR.Drv.Chk
/-!
Helper lemmas for `Props/C01CompleteRun.lean`: the guard `completeRun` of the checker-group oracles (`Drv/Chk.lean`)
is evaluated on the FINAL discoveries of a run; every stop / early-exit condition of the checker machine is monotone in
the discoveries, so a guard that is false at the end was false all along.

* discoveries only grow along `step` (`discNames_subset_step`, `discNames_subset_runFrom`);
* `Finish.matches` is monotone in the discovered names: unconditionally for `any`, `anyF`, `allF`, `allOf`, `anyOf`
  (`Finish.matches_mono_of_ne_all`); for `all` (a comparison of two LENGTHS) only among lists of property indices
  (`Finish.matches_mono`), and NOT in general (`Finish.matches_all_not_mono`: a foreign name un-matches it);
* "all discovered" is monotone (`allDiscovered_mono` of Control.lean) and equals the driver's length test on the
  machine's discoveries (`eraseDups_length_eq_iff_range`, `allDiscovered_iff_length`);
* the `best` fold of `oracleC13` (`foldl_min_*`).
-/
namespace SR.Checker
open SR

/-! ### lists of naturals -/

/-- a list of naturals below `n` has `n` distinct members iff it has every natural below `n` -/
theorem eraseDups_length_eq_iff_range {d : List Nat} {n : Nat} (hb : ∀ x ∈ d, x < n) :
    d.eraseDups.length = n ↔ List.range n ⊆ d := by
  have hnd := nodup_eraseDups d
  have hsub : d.eraseDups ⊆ List.range n := fun x hx => List.mem_range.2 (hb x (List.mem_eraseDups.1 hx))
  have key := HasDisc.length_eq_iff_subset hnd List.nodup_range hsub
  rw [List.length_range] at key
  rw [key]
  constructor
  · intro h x hx; exact List.mem_eraseDups.1 (h hx)
  · intro h x hx; exact List.mem_eraseDups.2 (h hx)

/-! ### `Finish.matches` is monotone -/

open Drv.Chk in
/-- every variant but `all` is monotone in the discovered names, without any hypothesis -/
theorem Finish.matches_mono_of_ne_all (f : Finish) (props : List GProp) {d d' : List Nat} (hs : d ⊆ d')
    (hf : ∀ (_ : f = .all), False) (h : f.matches props d = true) : f.matches props d' = true := by
  cases f with
  | all => exact (hf rfl).elim
  | any =>
    simp only [Finish.matches, Bool.not_eq_true', List.isEmpty_eq_false_iff] at h ⊢
    intro h'
    cases d with
    | nil => exact h rfl
    | cons a t => have := hs (List.mem_cons_self (a := a) (l := t)); rw [h'] at this; cases this
  | anyF =>
    simp only [Finish.matches, List.any_eq_true, List.contains_eq_mem, decide_eq_true_eq] at h ⊢
    obtain ⟨x, hx, hd⟩ := h
    exact ⟨x, hx, hs hd⟩
  | allF =>
    simp only [Finish.matches, List.all_eq_true, List.contains_eq_mem, decide_eq_true_eq] at h ⊢
    intro x hx; exact hs (h x hx)
  | allOf s =>
    simp only [Finish.matches, List.all_eq_true, List.contains_eq_mem, decide_eq_true_eq] at h ⊢
    intro x hx; exact hs (h x hx)
  | anyOf s =>
    simp only [Finish.matches, List.any_eq_true, List.contains_eq_mem, decide_eq_true_eq] at h ⊢
    obtain ⟨x, hx, hd⟩ := h
    exact ⟨x, hx, hs hd⟩

open Drv.Chk in
/-- `Finish.matches` is monotone in the discovered names, among lists of property indices -/
theorem Finish.matches_mono (f : Finish) (props : List GProp) {d d' : List Nat} (hs : d ⊆ d')
    (hb : ∀ x ∈ d', x < props.length) (h : f.matches props d = true) : f.matches props d' = true := by
  cases f with
  | all =>
    simp only [Finish.matches, beq_iff_eq] at h ⊢
    rw [eraseDups_length_eq_iff_range hb]
    rw [eraseDups_length_eq_iff_range (fun x hx => hb x (hs hx))] at h
    exact fun x hx => hs (h hx)
  | any => exact Finish.matches_mono_of_ne_all _ props hs (fun e => by cases e) h
  | anyF => exact Finish.matches_mono_of_ne_all _ props hs (fun e => by cases e) h
  | allF => exact Finish.matches_mono_of_ne_all _ props hs (fun e => by cases e) h
  | allOf s => exact Finish.matches_mono_of_ne_all _ props hs (fun e => by cases e) h
  | anyOf s => exact Finish.matches_mono_of_ne_all _ props hs (fun e => by cases e) h

open Drv.Chk in
/-- `all` compares two lengths: it is NOT monotone once a foreign name (not a property index) may be discovered -/
theorem Finish.matches_all_not_mono :
    Finish.matches .all [⟨.always, []⟩] [0] = true ∧ Finish.matches .all [⟨.always, []⟩] [0, 7] = false := by decide

open Drv.Chk in
/-- `Finish.matches` reads the discovered names as a set, among duplicate-free lists -/
theorem Finish.matches_perm (f : Finish) (props : List GProp) {d d' : List Nat} (hp : d.Perm d') (hnd : d.Nodup) :
    f.matches props d = f.matches props d' := by
  have hnd' : d'.Nodup := hp.nodup_iff.1 hnd
  have hc : ∀ x, d.contains x = d'.contains x := by
    intro x
    rw [Bool.eq_iff_iff]
    simp only [List.contains_eq_mem, decide_eq_true_eq]
    exact hp.mem_iff
  have hc' : d.contains = d'.contains := funext hc
  cases f with
  | all =>
    simp only [Finish.matches]
    rw [eraseDups_of_nodup d hnd, eraseDups_of_nodup d' hnd', hp.length_eq]
  | any =>
    simp only [Finish.matches]
    cases d with
    | nil => rw [List.nil_perm.1 hp]
    | cons a t =>
      cases d' with
      | nil => exact absurd hp.symm (by simp)
      | cons b u => rfl
  | anyF => simp only [Finish.matches, hc']
  | allF => simp only [Finish.matches, hc']
  | allOf s => simp only [Finish.matches, hc']
  | anyOf s => simp only [Finish.matches, hc']

/-! ### the machine's discoveries -/

section
variable {σ κ α : Type} [DecidableEq κ] {P : Params σ κ α}

omit [DecidableEq κ] in
/-- the discovered names only grow (`Mono` of Control.lean, read on `discNames`) -/
theorem discNames_subset_of_mono {s s' : St σ κ} (h : Mono s s') : discNames s.disc ⊆ discNames s'.disc := by
  intro i hi
  exact (mem_discNames_iff _ i).2 (h.disc i ((mem_discNames_iff _ i).1 hi))

/-- **discoveries only grow along `step`** -/
theorem discNames_subset_step (c : Choice) (s : St σ κ) : discNames s.disc ⊆ discNames (step P c s).disc :=
  discNames_subset_of_mono (mono_step (P := P) c s)

theorem discNames_subset_runFrom (s : St σ κ) (cs : List Choice) :
    discNames s.disc ⊆ discNames (runFrom P s cs).disc :=
  discNames_subset_of_mono (mono_runFrom (P := P) s cs)

theorem run_append (pre post : List Choice) : run P (pre ++ post) = runFrom P (run P pre) post := by
  unfold run; rw [runFrom_append]

/-- every discovered name of a run is a property index -/
theorem discNames_lt_run (cs : List Choice) : ∀ n ∈ discNames (run P cs).disc, n < P.props.length := by
  intro n hn
  have hd := (mem_discNames_iff _ n).1 hn
  unfold hasDisc at hd
  obtain ⟨e, he, hei⟩ := List.any_eq_true.1 hd
  have : e.1 = n := by simpa using hei
  rw [← this]
  exact ((sinv_run (P := P) cs).disc e he).2.1

omit [DecidableEq κ] in
theorem allDiscovered_iff_range (s : St σ κ) :
    allDiscovered P s = true ↔ List.range P.props.length ⊆ discNames s.disc := by
  simp only [allDiscovered, List.all_eq_true]
  constructor
  · intro h x hx; exact (mem_discNames_iff _ x).2 (h x hx)
  · intro h x hx; exact (mem_discNames_iff _ x).1 (h hx)

/-- on a run, the machine's "every property has a discovery" IS the driver's test on the discovered names -/
theorem allDiscovered_iff_length (cs : List Choice) :
    allDiscovered P (run P cs) = true ↔ (discNames (run P cs).disc).eraseDups.length = P.props.length := by
  rw [allDiscovered_iff_range, eraseDups_length_eq_iff_range (discNames_lt_run cs)]

/-- the finish condition is monotone on lists of property indices -/
def FinishMono (P : Params σ κ α) : Prop :=
  ∀ d d' : List Nat, d ⊆ d' → (∀ n ∈ d', n < P.props.length) → P.finishMatches d = true → P.finishMatches d' = true

/-- **the stop flag**: without target and timeout, and with a monotone finish condition that does not match the FINAL
    discoveries, a worker can only have left its loop because model code panicked -/
theorem stopped_is_panic_of_final (hmono : FinishMono P) (ht : P.cfg.target = none) (hto : P.cfg.timeout = false)
    (pre post : List Choice) (hfin : P.finishMatches (discNames (run P (pre ++ post)).disc) = false)
    (hs : (run P pre).stopped = true) :
    ∃ a b, pre = a ++ Choice.stop .panic :: b := by
  obtain ⟨a, why, b, hpre, hen⟩ := stopped_only_if (P := P) _ (by simp [init]) pre hs
  cases why with
  | panic => exact ⟨a, b, hpre⟩
  | timeout => simp [stopEnabled, hto] at hen
  | target => simp [stopEnabled, ht] at hen
  | finish =>
    exfalso
    have hm : P.finishMatches (discNames (run P a).disc) = true := hen
    have hrun : run P (pre ++ post) = runFrom P (run P a) (Choice.stop .finish :: b ++ post) := by
      rw [hpre, List.append_assoc, run_append]
    have := hmono _ _ (discNames_subset_runFrom (P := P) (run P a) (Choice.stop .finish :: b ++ post))
      (by rw [← hrun]; exact discNames_lt_run _) hm
    rw [← hrun, hfin] at this
    cases this

/-- **`early`**: without a depth limit, if not everything is discovered at the END, a job can only have been dropped
    unexpanded after a worker left its loop -/
theorem early_only_stopped_of_final (hd : P.cfg.maxDepth = none)
    (pre post : List Choice)
    (hall : (discNames (run P (pre ++ post)).disc).eraseDups.length ≠ P.props.length)
    (he : (run P pre).early = true) : (run P pre).stopped = true := by
  rcases earlyReason_run (P := P) pre he with h | h | h
  · simp [hd] at h
  · exact h
  · exfalso
    apply hall
    rw [← allDiscovered_iff_length, run_append]
    exact allDiscovered_mono (mono_runFrom (P := P) _ post).disc h

end

/-! ### `foldl min` -/

theorem foldl_min_le_init (l : List Nat) (a : Nat) : l.foldl (fun m d => min m d) a ≤ a := by
  induction l generalizing a with
  | nil => exact Nat.le_refl _
  | cons x xs ih => exact Nat.le_trans (ih _) (Nat.min_le_left _ _)

theorem foldl_min_le_mem (l : List Nat) (a : Nat) : ∀ d ∈ l, l.foldl (fun m d => min m d) a ≤ d := by
  induction l generalizing a with
  | nil => intro d hd; cases hd
  | cons x xs ih =>
    intro d hd
    rcases List.mem_cons.1 hd with rfl | hd
    · exact Nat.le_trans (foldl_min_le_init xs _) (Nat.min_le_right _ _)
    · exact ih _ d hd

theorem foldl_min_mem (l : List Nat) (a : Nat) :
    l.foldl (fun m d => min m d) a = a ∨ l.foldl (fun m d => min m d) a ∈ l := by
  induction l generalizing a with
  | nil => exact Or.inl rfl
  | cons x xs ih =>
    simp only [List.foldl_cons]
    rcases ih (min a x) with h | h
    · rw [h]
      rcases Nat.le_total a x with hax | hxa
      · exact Or.inl (Nat.min_eq_left hax)
      · exact Or.inr (by rw [Nat.min_eq_right hxa]; exact List.mem_cons_self)
    · exact Or.inr (List.mem_cons_of_mem _ h)

/-- the fold with start value `a` is the minimum of `a :: l` -/
theorem foldl_min_eq_min? (l : List Nat) (a : Nat) : (a :: l).min? = some (l.foldl (fun m d => min m d) a) := rfl

/-- `x ≤ fold` iff `x` is below the start value and below every element -/
theorem le_foldl_min_iff (l : List Nat) (a x : Nat) :
    x ≤ l.foldl (fun m d => min m d) a ↔ x ≤ a ∧ ∀ d ∈ l, x ≤ d := by
  constructor
  · intro h
    exact ⟨Nat.le_trans h (foldl_min_le_init l a), fun d hd => Nat.le_trans h (foldl_min_le_mem l a d hd)⟩
  · rintro ⟨ha, hl⟩
    rcases foldl_min_mem l a with h | h
    · rw [h]; exact ha
    · exact hl _ h

end SR.Checker
