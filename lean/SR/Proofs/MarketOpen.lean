import SR.Proofs.MarketRun
/-! While the market is open, `open_count` is EXACTLY the number of workers that are not waiting (for a market
created with as many threads as there are workers).  This is what makes "the last running worker found no
work" a sound reason to close: a too-small count would close the market while a colleague still holds jobs. -/
namespace SR.Market

def OInv (s : MState) : Prop := s.isOpen = true → s.openCount = s.pcs.count .running

theorem popLoop_oinv (s0 : MState) (w : Nat) (hw : w < s0.pcs.length)
    (h : s0.isOpen = true → s0.openCount = (s0.pcs.set w .running).count .running) :
    OInv (popLoop s0 w).1 := by
  unfold popLoop OInv
  split
  · exact h
  · simp only
    split
    · intro ho; simp at ho
    · rename_i hne
      intro ho
      have ho' : s0.isOpen = true := ho
      have hne : s0.openCount - 1 ≠ 0 := by simpa using hne
      have h0 := h ho'
      have h1 := count_running_set (s0.pcs.set w .running) w (.parked false) (by simpa using hw)
      simp only [List.set_set, List.getElem_set_self, if_true] at h1
      rw [if_neg (by simp)] at h1
      show s0.openCount - 1 = (s0.pcs.set w (.parked false)).count .running
      omega

theorem oinv_step {s s' : MState} {m : Step} (hp : PInv s) (h : OInv s) (hs : step s m = some s') :
    OInv s' := by
  unfold step at hs
  cases m with
  | popBegin w =>
    simp only [stepR] at hs
    split at hs
    · rename_i hw
      obtain ⟨hwl, hget⟩ := List.getElem?_eq_some_iff.1 hw
      split at hs
      · simp at hs; subst hs; exact h
      · simp at hs; subst hs
        apply popLoop_oinv s w hwl
        intro ho
        have := count_running_set s.pcs w .running hwl
        rw [if_pos hget, if_pos rfl] at this
        have := h ho; omega
    · simp at hs
  | wake w =>
    simp only [stepR] at hs
    split at hs
    · rename_i b hw
      obtain ⟨hwl, hget⟩ := List.getElem?_eq_some_iff.1 hw
      simp at hs; subst hs
      apply popLoop_oinv { s with openCount := s.openCount + 1 } w hwl
      intro ho
      have := count_running_set s.pcs w .running hwl
      rw [if_neg (by simp [hget]), if_pos rfl] at this
      have := h ho
      show s.openCount + 1 = (s.pcs.set w .running).count .running
      omega
    · simp at hs
  | push w n picks =>
    simp only [stepR] at hs
    split at hs
    · split at hs
      · split at hs
        · simp at hs; subst hs; exact h
        · simp at hs
      · split at hs
        · simp at hs; subst hs
          intro ho; simpa [count_running_notifyPicks] using h ho
        · simp at hs
    · simp at hs
  | xpush toks picks =>
    simp only [stepR] at hs
    split at hs
    · split at hs
      · split at hs
        · simp at hs; subst hs; exact h
        · simp at hs
      · split at hs
        · simp at hs; subst hs
          intro ho; simpa [count_running_notifyPicks] using h ho
        · simp at hs
    · simp at hs
  | split w picks =>
    simp only [stepR] at hs
    split at hs
    · split at hs
      · split at hs
        · simp at hs; subst hs; exact h
        · simp at hs
      · split at hs
        · simp at hs; subst hs
          intro ho; simpa [count_running_notifyPicks] using h ho
        · simp at hs
    · simp at hs
  | work w c fresh =>
    simp only [stepR] at hs
    split at hs
    · simp at hs; subst hs; exact h
    · simp at hs
  | rearrange w l =>
    simp only [stepR] at hs
    split at hs
    · simp at hs; subst hs; exact h
    · simp at hs
  | drop w =>
    simp only [stepR] at hs
    split at hs
    · simp at hs; subst hs; intro ho; simp [dropMarket] at ho
    · simp at hs
  | xdrop =>
    simp [stepR] at hs; subst hs; intro ho; simp [dropMarket] at ho
  | timeoutFire =>
    simp [stepR] at hs; subst hs; intro ho; simp at ho

theorem oinv_init (k : Nat) : OInv (init k k) := by
  intro _; simp [init]

theorem oinv_mrun (k : Nat) (ms : List Step) : OInv (mrun (init k k) ms) := by
  suffices h : ∀ (s : MState), MInv s → OInv s → MInv (mrun s ms) ∧ OInv (mrun s ms) from
    (h _ (minv_init k k (Nat.le_refl k)) (oinv_init k)).2
  induction ms with
  | nil => intro s hm ho; exact ⟨hm, ho⟩
  | cons m ms ih =>
    intro s hm ho
    show MInv (mrun ((step s m).getD s) ms) ∧ OInv (mrun ((step s m).getD s) ms)
    cases hs : step s m with
    | none => simpa using ih s hm ho
    | some s' => simpa using ih s' (minv_step hm hs) (oinv_step hm.p ho hs)

end SR.Market
