import SR.Util.IdCodec
/-! Helper lemmas for the Id codec (C17 a): pure `Nat` div/mod arithmetic, discharged by `omega`
after the powers of 256 have been evaluated. -/
namespace SR.IdCodec

theorem pow256 :
    (2:Nat) ^ (8 * (7 - 2)) = 1099511627776 ∧ (2:Nat) ^ (8 * (7 - 3)) = 4294967296 ∧
    (2:Nat) ^ (8 * (7 - 4)) = 16777216 ∧ (2:Nat) ^ (8 * (7 - 5)) = 65536 ∧
    (2:Nat) ^ (8 * (7 - 6)) = 256 ∧ (2:Nat) ^ (8 * (7 - 7)) = 1 ∧ (2:Nat) ^ 48 = 281474976710656 := by decide

theorem idOf_eq_fromBe (a : Addr) :
    idOf a = fromBe [0, 0, a.o0, a.o1, a.o2, a.o3, a.port / 256, a.port % 256] := rfl

theorem addrOf_idOf (a : Addr) (h : a.Valid) : addrOf (idOf a) = a := by
  obtain ⟨h0, h1, h2, h3, hp⟩ := h
  obtain ⟨p5, p4, p3, p2, p1, p0, _⟩ := pow256
  cases a with | mk o0 o1 o2 o3 port =>
  simp only [addrOf, idOf, beByte, Nat.shiftRight_eq_div_pow, Addr.mk.injEq, p0, p1, p2, p3, p4, p5] at *
  refine ⟨?_, ?_, ?_, ?_, ?_⟩ <;> omega

theorem idOf_addrOf (id : Nat) (h : id < 2 ^ 48) : idOf (addrOf id) = id := by
  obtain ⟨p5, p4, p3, p2, p1, p0, p48⟩ := pow256
  simp only [addrOf, idOf, beByte, Nat.shiftRight_eq_div_pow, p0, p1, p2, p3, p4, p5]
  omega

theorem addrOf_mod (id : Nat) : addrOf id = addrOf (id % 2 ^ 48) := by
  obtain ⟨p5, p4, p3, p2, p1, p0, p48⟩ := pow256
  simp only [addrOf, beByte, Nat.shiftRight_eq_div_pow, Addr.mk.injEq, p0, p1, p2, p3, p4, p5, p48]
  refine ⟨?_, ?_, ?_, ?_, ?_⟩ <;> omega

theorem addrOf_valid (id : Nat) : (addrOf id).Valid := by
  simp only [addrOf, beByte, Addr.Valid]
  refine ⟨?_, ?_, ?_, ?_, ?_⟩ <;> omega

theorem idOf_eq_spec (a : Addr) (h : a.Valid) : idOf a = idSpec a := by
  obtain ⟨h0, h1, h2, h3, hp⟩ := h
  simp only [idOf, idSpec]
  omega

theorem idOf_lt (a : Addr) (h : a.Valid) : idOf a < 2 ^ 48 := by
  rw [idOf_eq_spec a h]
  obtain ⟨h0, h1, h2, h3, hp⟩ := h
  obtain ⟨_, _, _, _, _, _, p48⟩ := pow256
  simp only [idSpec, p48]
  omega

end SR.IdCodec
