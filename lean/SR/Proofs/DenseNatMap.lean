import SR.Util.DenseNatMap
/-! Helper lemmas for C20 (DenseNatMap) and C10 (plans). -/
namespace SR.DNM
open List

theorem sortByKey_perm {V} (ps : List (Nat × V)) : (sortByKey ps).Perm ps := mergeSort_perm _ _

theorem sortByKey_sorted {V} (ps : List (Nat × V)) :
    (sortByKey ps).Pairwise (fun a b => a.1 ≤ b.1) := by
  have := pairwise_mergeSort (le := fun (a b : Nat × V) => decide (a.1 ≤ b.1))
    (by intro a b c; simp; exact Nat.le_trans) (by intro a b; simp; exact Nat.le_total _ _) ps
  exact this.imp (by intro a b; simp)

theorem sortByKey_length {V} (ps : List (Nat × V)) : (sortByKey ps).length = ps.length :=
  (sortByKey_perm ps).length_eq

theorem fromPairs_isSome_iff {V} (ps : List (Nat × V)) :
    (fromPairs ps).isSome ↔ (ps.map (·.1)).Perm (List.range ps.length) := by
  unfold fromPairs
  simp only
  have hp : ((sortByKey ps).map (·.1)).Perm (ps.map (·.1)) := (sortByKey_perm ps).map _
  constructor
  · intro h
    split at h
    · rename_i heq
      rw [← sortByKey_length ps, ← heq]; exact hp.symm
    · cases h
  · intro h
    have hs : ((sortByKey ps).map (·.1)).Pairwise (· ≤ ·) := by
      rw [List.pairwise_map]; exact sortByKey_sorted ps
    have : (sortByKey ps).map (·.1) = List.range (sortByKey ps).length := by
      rw [sortByKey_length]
      exact Perm.eq_of_pairwise (le := (· ≤ ·)) (fun a b _ _ h1 h2 => Nat.le_antisymm h1 h2)
        hs pairwise_le_range (hp.trans h)
    simp [this]

theorem fromPairs_total {V} (ps : List (Nat × V)) (m : List V) (h : fromPairs ps = some m) :
    m.length = ps.length ∧ ∀ p ∈ ps, get m p.1 = some p.2 := by
  unfold fromPairs at h
  simp only at h
  split at h
  · rename_i heq
    injection h with h; subst h
    refine ⟨by simp [sortByKey_length], ?_⟩
    intro p hp
    have hps : p ∈ sortByKey ps := (sortByKey_perm ps).symm.subset hp
    obtain ⟨j, hj, hjp⟩ := List.getElem_of_mem hps
    have hk : ((sortByKey ps).map (·.1))[j]'(by simpa using hj) = j := by
      simp only [heq]; simp
    simp only [List.getElem_map, hjp] at hk
    unfold get
    rw [hk]; simp [hj, hjp]
  · cases h

theorem fromPairs_perm {V} (ps ps' : List (Nat × V)) (h : ps.Perm ps') : fromPairs ps = fromPairs ps' := by
  have hiff : (fromPairs ps).isSome ↔ (fromPairs ps').isSome := by
    rw [fromPairs_isSome_iff, fromPairs_isSome_iff, h.length_eq]
    exact ⟨fun hh => (h.map _).symm.trans hh, fun hh => (h.map _).trans hh⟩
  cases h1 : fromPairs ps with
  | none =>
    cases h2 : fromPairs ps' with
    | none => rfl
    | some m' => rw [h1, h2] at hiff; simp at hiff
  | some m =>
    cases h2 : fromPairs ps' with
    | none => rw [h1, h2] at hiff; simp at hiff
    | some m' =>
      obtain ⟨l1, g1⟩ := fromPairs_total ps m h1
      obtain ⟨l2, g2⟩ := fromPairs_total ps' m' h2
      have hkeys := (fromPairs_isSome_iff ps).1 (by rw [h1]; rfl)
      congr 1
      apply List.ext_getElem?
      intro k
      by_cases hk : k < ps.length
      · have : k ∈ ps.map (·.1) := hkeys.symm.subset (List.mem_range.2 hk)
        obtain ⟨p, hp, hpk⟩ := List.mem_map.1 this
        have e1 := g1 p hp
        have e2 := g2 p (h.subset hp)
        unfold get at e1 e2
        rw [← hpk, e1, e2]
      · rw [List.getElem?_eq_none (by omega), List.getElem?_eq_none (by rw [l2, ← h.length_eq]; omega)]

theorem rewrite_spec {V} (pk : Nat → Nat) (pv : V → V) (m : List V)
    (hperm : ((List.range m.length).map pk).Perm (List.range m.length)) :
    ∃ m', rewrite pk pv m = some m' ∧ m'.length = m.length ∧
      ∀ k, k < m.length → get m' (pk k) = (get m k).map pv := by
  unfold rewrite
  generalize hps : ((List.range m.length).zip m |>.map fun (k, v) => (pk k, pv v)) = ps
  have hlen : ps.length = m.length := by subst hps; simp
  have hkeys : ps.map (·.1) = (List.range m.length).map pk := by
    subst hps
    apply List.ext_getElem
    · simp
    · intro i h1 h2; simp
  have hsome : (fromPairs ps).isSome := by
    rw [fromPairs_isSome_iff, hkeys, hlen]; exact hperm
  cases hm : fromPairs ps with
  | none => rw [hm] at hsome; cases hsome
  | some m' =>
    obtain ⟨l1, g1⟩ := fromPairs_total ps m' hm
    refine ⟨m', rfl, by omega, ?_⟩
    intro k hk
    have hmem : (pk k, pv m[k]) ∈ ps := by
      subst hps
      apply List.mem_map.2
      refine ⟨(k, m[k]), ?_, rfl⟩
      rw [List.mem_iff_getElem]
      exact ⟨k, by simpa using hk, by simp⟩
    have := g1 _ hmem
    simp only at this
    rw [this]; simp [get, hk]

end SR.DNM
