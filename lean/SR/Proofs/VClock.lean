import SR.Util.VClock
/-! Helper lemmas for C20 (vector clocks). Property theorems are in SR/Props/C20.lean. -/
namespace SR.VClock

theorem get0_of_le {a : Clock} {i : Nat} (h : a.length ≤ i) : get0 a i = 0 := by
  unfold get0; simp [List.getD, List.getElem?_eq_none h]

theorem eqLoop_iff (a b : Clock) (is : List Nat) :
    eqLoop a b is = true ↔ ∀ i ∈ is, get0 a i = get0 b i := by
  induction is with
  | nil => simp [eqLoop]
  | cons i is ih =>
    unfold eqLoop
    by_cases h : get0 a i = get0 b i <;> simp [h, ih]

/-- quantification over the loop range is quantification over all indices -/
theorem range_all (a b : Clock) (P : Nat → Nat → Prop) (h0 : P 0 0) :
    (∀ i ∈ List.range (max a.length b.length), P (get0 a i) (get0 b i)) ↔ ∀ i, P (get0 a i) (get0 b i) := by
  constructor
  · intro h i
    by_cases hi : i < max a.length b.length
    · exact h i (List.mem_range.2 hi)
    · have h1 : a.length ≤ i := by omega
      have h2 : b.length ≤ i := by omega
      rw [get0_of_le h1, get0_of_le h2]; exact h0
  · intro h i _; exact h i

theorem range_ex (a b : Clock) (P : Nat → Nat → Prop) (h0 : ¬ P 0 0) :
    (∃ i ∈ List.range (max a.length b.length), P (get0 a i) (get0 b i)) ↔ ∃ i, P (get0 a i) (get0 b i) := by
  constructor
  · rintro ⟨i, _, h⟩; exact ⟨i, h⟩
  · rintro ⟨i, h⟩
    refine ⟨i, ?_, h⟩
    apply List.mem_range.2
    apply Classical.byContradiction; intro hi
    have h1 : a.length ≤ i := by omega
    have h2 : b.length ≤ i := by omega
    rw [get0_of_le h1, get0_of_le h2] at h; exact h0 h

theorem veq_iff (a b : Clock) : veq a b = true ↔ ∀ i, get0 a i = get0 b i := by
  unfold veq; rw [eqLoop_iff]; exact range_all a b (· = ·) rfl

theorem cmpLoop_lt (a b : Clock) (is : List Nat) :
    cmpLoop a b .lt is = if ∀ i ∈ is, get0 a i ≤ get0 b i then some .lt else none := by
  induction is with
  | nil => simp [cmpLoop]
  | cons i is ih =>
    unfold cmpLoop
    simp only [List.mem_cons, forall_eq_or_imp]
    rcases Nat.lt_trichotomy (get0 a i) (get0 b i) with h | h | h
    · have : compare (get0 a i) (get0 b i) = .lt := Nat.compare_eq_lt.2 h
      simp [this, ih, Nat.le_of_lt h]
    · have : compare (get0 a i) (get0 b i) = .eq := Nat.compare_eq_eq.2 h
      simp [this, ih, h]
    · have : compare (get0 a i) (get0 b i) = .gt := Nat.compare_eq_gt.2 h
      simp [this, Nat.not_le.2 h]

theorem cmpLoop_gt (a b : Clock) (is : List Nat) :
    cmpLoop a b .gt is = if ∀ i ∈ is, get0 b i ≤ get0 a i then some .gt else none := by
  induction is with
  | nil => simp [cmpLoop]
  | cons i is ih =>
    unfold cmpLoop
    simp only [List.mem_cons, forall_eq_or_imp]
    rcases Nat.lt_trichotomy (get0 a i) (get0 b i) with h | h | h
    · have : compare (get0 a i) (get0 b i) = .lt := Nat.compare_eq_lt.2 h
      simp [this, Nat.not_le.2 h]
    · have : compare (get0 a i) (get0 b i) = .eq := Nat.compare_eq_eq.2 h
      simp [this, ih, h]
    · have : compare (get0 a i) (get0 b i) = .gt := Nat.compare_eq_gt.2 h
      simp [this, ih, Nat.le_of_lt h]

theorem not_all_le {is : List Nat} {f g : Nat → Nat} (h : ¬ ∀ i ∈ is, f i ≤ g i) :
    ∃ i ∈ is, g i < f i := by
  apply Classical.byContradiction; intro hcon
  apply h; intro j hj
  apply Classical.byContradiction; intro hlt
  exact hcon ⟨j, hj, by omega⟩

theorem cmpLoop_eq_cons (a b : Clock) (i : Nat) (is : List Nat) :
    cmpLoop a b .eq (i :: is) = cmpLoop a b (compare (get0 a i) (get0 b i)) is := by
  simp [cmpLoop]

/-- Specification of the loop started in `Equal`, over an arbitrary index list. -/
theorem cmpLoop_eq_spec (a b : Clock) (is : List Nat) :
    (cmpLoop a b .eq is = some .eq ↔ ∀ i ∈ is, get0 a i = get0 b i) ∧
    (cmpLoop a b .eq is = some .lt ↔ (∀ i ∈ is, get0 a i ≤ get0 b i) ∧ ∃ i ∈ is, get0 a i < get0 b i) ∧
    (cmpLoop a b .eq is = some .gt ↔ (∀ i ∈ is, get0 b i ≤ get0 a i) ∧ ∃ i ∈ is, get0 b i < get0 a i) ∧
    (cmpLoop a b .eq is = none ↔ (∃ i ∈ is, get0 a i < get0 b i) ∧ ∃ j ∈ is, get0 b j < get0 a j) := by
  induction is with
  | nil => simp [cmpLoop]
  | cons i is ih =>
    obtain ⟨ih1, ih2, ih3, ih4⟩ := ih
    rw [cmpLoop_eq_cons]
    simp only [List.mem_cons, forall_eq_or_imp, exists_eq_or_imp]
    rcases Nat.lt_trichotomy (get0 a i) (get0 b i) with h | h | h
    · have hc : compare (get0 a i) (get0 b i) = .lt := Nat.compare_eq_lt.2 h
      rw [hc, cmpLoop_lt]
      have hne : get0 a i ≠ get0 b i := Nat.ne_of_lt h
      have hng : ¬ get0 b i ≤ get0 a i := Nat.not_le.2 h
      have hng' : ¬ get0 b i < get0 a i := by omega
      have hle : get0 a i ≤ get0 b i := by omega
      by_cases hall : ∀ i ∈ is, get0 a i ≤ get0 b i
      · rw [if_pos hall]
        simp only [hne, hng, hng', h, hle, true_and, false_and, true_or, false_or]
        have hex := hall
        refine ⟨by simp, by first | (simp; done) | (simp; exact hall) | (simp; exact not_all_le hall), by first | (simp; done) | (simp; exact hall) | (simp; exact not_all_le hall), ?_⟩
        simp only [reduceCtorEq, false_iff, not_exists, not_and]
        intro j hj; have := hall j hj; omega
      · rw [if_neg hall]
        simp only [hne, hng, hng', h, hle, true_and, false_and, true_or, false_or]
        have hex := hall
        refine ⟨by simp, by first | (simp; done) | (simp; exact hall) | (simp; exact not_all_le hall), by first | (simp; done) | (simp; exact hall) | (simp; exact not_all_le hall), ?_⟩
        simp only [true_iff]
        apply Classical.byContradiction; intro hcon
        apply hall; intro j hj
        apply Classical.byContradiction; intro hlt
        exact hcon ⟨j, hj, by omega⟩
    · have hc : compare (get0 a i) (get0 b i) = .eq := Nat.compare_eq_eq.2 h
      rw [hc]
      have e1 : ¬ get0 a i < get0 b i := by omega
      have e2 : ¬ get0 b i < get0 a i := by omega
      have e3 : get0 a i ≤ get0 b i := by omega
      have e4 : get0 b i ≤ get0 a i := by omega
      simp only [ih1, ih2, ih3, ih4, h, e1, e2, e3, e4, true_and, false_or]
      simp
    · have hc : compare (get0 a i) (get0 b i) = .gt := Nat.compare_eq_gt.2 h
      rw [hc, cmpLoop_gt]
      have hne : get0 a i ≠ get0 b i := Nat.ne_of_gt h
      have hng : ¬ get0 a i ≤ get0 b i := Nat.not_le.2 h
      have hng' : ¬ get0 a i < get0 b i := by omega
      have hle : get0 b i ≤ get0 a i := by omega
      by_cases hall : ∀ i ∈ is, get0 b i ≤ get0 a i
      · rw [if_pos hall]
        simp only [hne, hng, hng', h, hle, true_and, false_and, true_or, false_or]
        have hex := hall
        refine ⟨by simp, by first | (simp; done) | (simp; exact hall) | (simp; exact not_all_le hall), by first | (simp; done) | (simp; exact hall) | (simp; exact not_all_le hall), ?_⟩
        simp only [reduceCtorEq, false_iff, not_and, not_exists]
        intro ⟨j, hj, hlt⟩; have := hall j hj; omega
      · rw [if_neg hall]
        simp only [hne, hng, hng', h, hle, true_and, false_and, true_or, false_or]
        have hex := hall
        refine ⟨by simp, by first | (simp; done) | (simp; exact hall) | (simp; exact not_all_le hall), by first | (simp; done) | (simp; exact hall) | (simp; exact not_all_le hall), ?_⟩
        simp only [true_iff, and_true]
        apply Classical.byContradiction; intro hcon
        apply hall; intro j hj
        apply Classical.byContradiction; intro hlt
        exact hcon ⟨j, hj, by omega⟩


/-! ### get0 of the constructors -/

@[simp] theorem get0_nil (i : Nat) : get0 [] i = 0 := by simp [get0]
@[simp] theorem get0_cons_zero (x : Nat) (xs : Clock) : get0 (x :: xs) 0 = x := by simp [get0]
@[simp] theorem get0_cons_succ (x : Nat) (xs : Clock) (i : Nat) : get0 (x :: xs) (i+1) = get0 xs i := by
  simp [get0]

theorem get0_mergeMax (a b : Clock) (i : Nat) : get0 (mergeMax a b) i = max (get0 a i) (get0 b i) := by
  by_cases hi : i < max a.length b.length
  · unfold mergeMax
    simp [get0, List.getD, hi]
  · have h1 : a.length ≤ i := by omega
    have h2 : b.length ≤ i := by omega
    rw [get0_of_le h1, get0_of_le h2]
    apply get0_of_le
    simp [mergeMax]; omega

theorem get0_append_replicate (a : Clock) (n i : Nat) : get0 (a ++ List.replicate n 0) i = get0 a i := by
  unfold get0
  by_cases h : i < a.length
  · simp [List.getD, List.getElem?_append_left h]
  · have h' : a.length ≤ i := by omega
    simp only [List.getD, List.getElem?_append_right h', List.getElem?_eq_none h', Option.getD_none]
    cases hh : (List.replicate n 0)[i - a.length]? with
    | none => rfl
    | some v =>
      have := List.mem_of_getElem? hh
      simp at this; simp [this.2]

theorem get0_set (a : Clock) (i j v : Nat) (h : i < a.length) :
    get0 (a.set i v) j = if j = i then v else get0 a j := by
  unfold get0
  simp only [List.getD, List.getElem?_set]
  by_cases hji : j = i
  · subst hji; simp [h]
  · have : ¬ i = j := fun e => hji e.symm
    simp [hji, this]

theorem get0_incremented {a c : Clock} {i : Nat} (h : incremented a i = some c) (j : Nat) :
    get0 c j = if j = i then get0 a i + 1 else get0 a j := by
  unfold incremented at h
  simp only at h
  by_cases hi : i ≥ a.length
  · simp only [hi, if_true] at h
    split at h
    · cases h
    · injection h with h; subst h
      rw [get0_set _ _ _ _ (by simp; omega)]
      simp [get0_append_replicate]
  · simp only [hi, if_false] at h
    split at h
    · cases h
    · injection h with h; subst h
      rw [get0_set _ _ _ _ (by omega)]

theorem incremented_isSome {a : Clock} {i : Nat} (h : get0 a i < u32Max) : (incremented a i).isSome := by
  unfold incremented
  simp only
  have : get0 (if i ≥ a.length then a ++ List.replicate (1 + i - a.length) 0 else a) i = get0 a i := by
    split
    · exact get0_append_replicate _ _ _
    · rfl
  rw [this]
  simp [Nat.not_le.2 h]

/-! ### trim -/

theorem trim_cons (x : Nat) (xs : Clock) :
    trim (x :: xs) = if trim xs = [] ∧ x = 0 then [] else x :: trim xs := by
  rw [trim]
  cases h : trim xs with
  | nil => by_cases hx : x = 0 <;> simp [hx]
  | cons y ys => simp

theorem trim_eq_nil_iff (a : Clock) : trim a = [] ↔ ∀ i, get0 a i = 0 := by
  induction a with
  | nil => simp [trim]
  | cons x xs ih =>
    rw [trim_cons]
    constructor
    · intro h
      split at h
      · rename_i hc
        intro i
        cases i with
        | zero => simp [hc.2]
        | succ i => simp [(ih.1 hc.1) i]
      · cases h
    · intro h
      have h0 : x = 0 := by simpa using h 0
      have hs : ∀ i, get0 xs i = 0 := fun i => by simpa using h (i+1)
      simp [ih.2 hs, h0]

theorem trim_congr {a b : Clock} (h : ∀ i, get0 a i = get0 b i) : trim a = trim b := by
  induction a generalizing b with
  | nil =>
    have : trim b = [] := (trim_eq_nil_iff b).2 (fun i => by rw [← h i]; simp)
    rw [this]; rfl
  | cons x xs ih =>
    cases b with
    | nil =>
      have : trim (x :: xs) = [] := (trim_eq_nil_iff _).2 (fun i => by rw [h i]; simp)
      rw [this]; rfl
    | cons y ys =>
      have hxy : x = y := by simpa using h 0
      have hs : ∀ i, get0 xs i = get0 ys i := fun i => by simpa using h (i+1)
      rw [trim_cons, trim_cons, ih hs, hxy]

theorem get0_trim (a : Clock) (i : Nat) : get0 (trim a) i = get0 a i := by
  induction a generalizing i with
  | nil => simp [trim]
  | cons x xs ih =>
    rw [trim_cons]
    split
    · rename_i hc
      have hz := (trim_eq_nil_iff xs).1 hc.1
      cases i with
      | zero => simp [hc.2]
      | succ i => simp [hz i]
    · cases i with
      | zero => simp
      | succ i => simp [ih i]

end SR.VClock
