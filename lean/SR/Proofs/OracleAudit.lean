import SR.Drv.C06
import SR.Drv.C07
import SR.Drv.C09
import SR.Drv.C10
import SR.Drv.C12
import SR.Drv.C16
import SR.Drv.C19
import SR.Drv.C20
import SR.Drv.Chk
import SR.Drv.Sem
import SR.Proofs.RewriteReindex
import SR.Proofs.PathApi
import SR.Proofs.Checker.SpecAdequacy
import SR.Proofs.SemTester
import SR.Proofs.SemBrute
import SR.Props.C07
import SR.Props.C12
import SR.Props.C16
import SR.Props.C20
/-!
# Helper lemmas of the oracle audit (builder W-Y)

Adequacy lemmas for the executable predicates the ORACLE driver commands (`o-…` of `SR/Drv/*.lean`) run on the
implementation's outputs, for those oracles that SEARCH or ENUMERATE or re-state a theorem in executable form and had only an
informal argument so far.  Property-level statements: `SR/Props/OracleAudit.lean`; the table of all oracle commands:
`/verif/notes/oracles.md`.

Where the code of a command is written inline in its handler it is transcribed here as a definition and the transcription is
tied to the handler by a theorem (`handle_o_plan`, `handle_o_orbit`, `handle_o_dnm_rewrite`); everywhere else the lemmas are
about the driver's own functions.
-/
namespace SR.COracleAudit

/-! ## permutations by counting; `RW.perms` (C10 `o-plan`, `o-orbit`; C20 `o-dnm-from`; UtilObs `o-plan-reindex`) -/
section
open SR SR.RW SR.Hash

/-- a list of length `n` in which every `k < n` occurs exactly once is a permutation of `0..n-1` -/
theorem perm_range_of_count : ∀ (n : Nat) (l : List Nat), l.length = n → (∀ k, k < n → l.count k = 1) →
    l.Perm (List.range n) := by
  intro n
  induction n with
  | zero => intro l hl _; rw [List.length_eq_zero_iff.1 hl]; exact List.Perm.refl _
  | succ n ih =>
    intro l hl hc
    have hmem : n ∈ l := by
      have := hc n (Nat.lt_succ_self n)
      exact List.count_pos_iff.1 (by omega)
    have h1 : l.Perm (n :: l.erase n) := List.perm_cons_erase hmem
    have hlen : (l.erase n).length = n := by rw [List.length_erase_of_mem hmem, hl]; rfl
    have hcnt : ∀ k, k < n → (l.erase n).count k = 1 := by
      intro k hk
      rw [List.count_erase_of_ne (by omega)]
      exact hc k (by omega)
    have h2 := ih (l.erase n) hlen hcnt
    rw [List.range_succ]
    exact h1.trans ((List.Perm.cons n h2).trans (List.perm_append_comm (l₁ := [n])))

theorem count_of_perm_range {n : Nat} {l : List Nat} (h : l.Perm (List.range n)) :
    l.length = n ∧ ∀ k, k < n → l.count k = 1 := by
  refine ⟨by rw [h.length_eq, List.length_range], ?_⟩
  intro k hk
  rw [h.count_eq, List.nodup_range.count]
  simp [hk]

/-- the executable test "length `n` and every index occurs once" used by `o-plan`, `o-dnm-from`, `o-plan-reindex`,
    `isStableSortPlan` decides "is a permutation of `0..n-1`" -/
theorem countB_iff_perm (n : Nat) (l : List Nat) :
    (l.length == n && (List.range n).all (fun k => l.count k == 1)) = true ↔ l.Perm (List.range n) := by
  rw [Bool.and_eq_true, beq_iff_eq, List.all_eq_true]
  constructor
  · rintro ⟨h1, h2⟩
    exact perm_range_of_count n l h1 (fun k hk => by simpa using h2 k (List.mem_range.2 hk))
  · intro h
    obtain ⟨h1, h2⟩ := count_of_perm_range h
    exact ⟨h1, fun k hk => by simpa using h2 k (List.mem_range.1 hk)⟩

/-! ### `perms n` lists exactly the permutations of `0..n-1` -/

theorem perm_of_mem_perms : ∀ (n : Nat) (π : List Nat), π ∈ perms n → π.Perm (List.range n) := by
  intro n
  induction n with
  | zero => intro π h; simp [perms] at h; subst h; exact List.Perm.refl _
  | succ n ih =>
    intro π h
    simp only [perms, List.mem_flatMap, List.mem_map] at h
    obtain ⟨σ, hσ, k, _, rfl⟩ := h
    have h1 : (σ.take k ++ n :: σ.drop k).Perm (n :: σ) := by
      have : (σ.take k ++ n :: σ.drop k).Perm (n :: (σ.take k ++ σ.drop k)) := List.perm_middle
      rwa [List.take_append_drop] at this
    rw [List.range_succ]
    exact h1.trans ((List.Perm.cons n (ih σ hσ)).trans (List.perm_append_comm (l₁ := [n])))

theorem mem_perms_of_perm : ∀ (n : Nat) (π : List Nat), π.Perm (List.range n) → π ∈ perms n := by
  intro n
  induction n with
  | zero => intro π h; simp at h; subst h; simp [perms]
  | succ n ih =>
    intro π h
    have hn : n ∈ π := h.mem_iff.2 (by simp)
    obtain ⟨a, b, rfl⟩ := List.append_of_mem hn
    have h2 : (n :: (a ++ b)).Perm (n :: List.range n) := by
      refine (List.perm_middle.symm).trans (h.trans ?_)
      rw [List.range_succ]; exact List.perm_append_comm (l₂ := [n])
    have h3 : (a ++ b).Perm (List.range n) := h2.cons_inv
    have hlen : a.length + b.length = n := by
      have := h3.length_eq; simpa using this
    simp only [perms, List.mem_flatMap, List.mem_map]
    refine ⟨a ++ b, ih _ h3, a.length, List.mem_range.2 (by omega), ?_⟩
    simp

/-- **`perms n` is exactly the set of permutations of `0..n-1`**: the orbit oracle tries every permutation, and only
    permutations. -/
theorem mem_perms_iff (n : Nat) (π : List Nat) : π ∈ perms n ↔ π.Perm (List.range n) :=
  ⟨perm_of_mem_perms n π, mem_perms_of_perm n π⟩


def planBij (n : Nat) (plan : List Nat) : Bool :=
  plan.length == n && (List.range n).all (fun k => plan.count k == 1)

def planOrdered {V : Type} (le : V → V → Bool) (vs : List V) (plan : List Nat) : Bool :=
  (List.range vs.length).all fun i => (List.range vs.length).all fun j =>
      if i < j then
        match vs[i]?, vs[j]?, plan[i]?, plan[j]? with
        | some a, some b, some pi, some pj =>
          if le a b then decide (pi < pj) else decide (pj < pi)
        | _, _, _, _ => false
      else true

theorem planTest_iff {V : Type} (le : V → V → Bool) (vs : List V) (plan : List Nat) :
    (planBij vs.length plan && planOrdered le vs plan) = true ↔
      plan.Perm (List.range vs.length) ∧
      ∀ i j, i < j → j < vs.length → ∀ a b pi pj, vs[i]? = some a → vs[j]? = some b →
        plan[i]? = some pi → plan[j]? = some pj → (pi < pj ↔ le a b = true) := by
  rw [Bool.and_eq_true]
  unfold planBij
  rw [countB_iff_perm]
  constructor
  · rintro ⟨hp, ho⟩
    refine ⟨hp, ?_⟩
    intro i j hij hj a b pi pj ha hb hpi hpj
    unfold planOrdered at ho
    rw [List.all_eq_true] at ho
    have h1 := ho i (List.mem_range.2 (by omega))
    rw [List.all_eq_true] at h1
    have h2 := h1 j (List.mem_range.2 hj)
    simp only [hij, if_true, ha, hb, hpi, hpj] at h2
    cases hle : le a b with
    | true => simp only [hle, if_true, decide_eq_true_eq] at h2; simp [h2]
    | false =>
      simp only [hle, Bool.false_eq_true, if_false, decide_eq_true_eq] at h2
      constructor
      · intro h; omega
      · intro h; cases h
  · rintro ⟨hp, ho⟩
    refine ⟨hp, ?_⟩
    have hlen : plan.length = vs.length := by rw [hp.length_eq, List.length_range]
    have hnd : plan.Nodup := hp.nodup_iff.2 List.nodup_range
    unfold planOrdered
    rw [List.all_eq_true]
    intro i hi
    rw [List.all_eq_true]
    intro j hj
    have hi' := List.mem_range.1 hi
    have hj' := List.mem_range.1 hj
    by_cases hij : i < j
    · simp only [hij, if_true]
      have e1 : vs[i]? = some vs[i] := List.getElem?_eq_getElem hi'
      have e2 : vs[j]? = some vs[j] := List.getElem?_eq_getElem hj'
      have e3 : plan[i]? = some (plan[i]'(by omega)) := List.getElem?_eq_getElem (by omega)
      have e4 : plan[j]? = some (plan[j]'(by omega)) := List.getElem?_eq_getElem (by omega)
      have := ho i j hij hj' _ _ _ _ e1 e2 e3 e4
      rw [e1, e2, e3, e4]
      simp only
      cases hle : le vs[i] vs[j] with
      | true => simp only [if_true, decide_eq_true_eq]; exact this.2 hle
      | false =>
        simp only [Bool.false_eq_true, if_false, decide_eq_true_eq]
        have hne : plan[i]'(by omega) ≠ plan[j]'(by omega) := by
          intro he
          have := (List.getElem_inj hnd).1 he
          omega
        have hnot : ¬ plan[i]'(by omega) < plan[j]'(by omega) := by
          intro hlt; have := this.1 hlt; rw [hle] at this; cases this
        omega
    · simp [hij]

/-! ### the orbit oracle -/

def inOrbit {s m t r h : Ty} (b : Bool) (x y : St s m t r h) : Bool :=
  (perms x.actors.length).any fun π => match applyPerm b π x with | some z => z.eqB y | none => false

theorem inOrbit_iff {s m t r h : Ty} (b : Bool) (x y : St s m t r h) :
    inOrbit b x y = true ↔
      ∃ π : List Nat, π.Perm (List.range x.actors.length) ∧ ∃ z, applyPerm b π x = some z ∧ z.eqB y = true := by
  unfold inOrbit
  rw [List.any_eq_true]
  constructor
  · rintro ⟨π, hπ, h⟩
    refine ⟨π, (mem_perms_iff _ π).1 hπ, ?_⟩
    cases hz : applyPerm b π x with
    | none => rw [hz] at h; cases h
    | some z => rw [hz] at h; exact ⟨z, rfl, h⟩
  · rintro ⟨π, hπ, z, hz, h⟩
    exact ⟨π, (mem_perms_iff _ π).2 hπ, by rw [hz]; exact h⟩

theorem noImage_iff {s m t r h : Ty} (x : St s m t r h) :
    (perms x.actors.length).all (fun π => (applyPerm false π x).isNone) = true ↔
      ∀ π : List Nat, π.Perm (List.range x.actors.length) → applyPerm false π x = none := by
  rw [List.all_eq_true]
  constructor
  · intro h π hπ
    have := h π ((mem_perms_iff _ π).2 hπ)
    simpa using this
  · intro h π hπ
    rw [h π ((mem_perms_iff _ π).1 hπ)]; rfl


theorem handle_o_plan (ty vsx planx : SExp) (τ : Ty) (vs : List (Val τ)) (plan : List Nat)
    (h1 : decodeTy ty = some τ) (h2 : decodeVal (.vec τ) vsx = some vs) (h3 : planx.nats? = some plan) :
    Drv.C10.handle "o-plan" [ty, vsx, planx] =
      some (if !planBij vs.length plan then "plan-not-a-bijection"
            else if !planOrdered (leVal τ) vs plan then "plan-not-the-stable-sorting-permutation" else "ok") := by
  simp only [Drv.C10.handle, h1, h3, bind, Option.bind, h2]
  unfold planBij planOrdered
  simp only [pure]
  congr
  funext i
  congr
  funext j
  cases vs[i]? <;> cases vs[j]? <;> cases plan[i]? <;> cases plan[j]? <;> rfl

def orbitAnswer {s m t r h : Ty} (x y : St s m t r h) : String :=
  let πs := perms x.actors.length
  let inOrbit (b : Bool) := πs.any fun π => match applyPerm b π x with | some z => z.eqB y | none => false
  if inOrbit true then "ok"
  else if inOrbit false then "timer-ids-not-rewritten:the-result-is-a-permutation-image-only-if-ids-inside-timer-values-are-left-alone"
  else "representative-not-in-the-orbit"

theorem handle_o_orbit (sty stx res : SExp) (s m t r h : Ty) (v rv : Val (Ty.state s m t r h))
    (h1 : Drv.C10.stateTys sty = some (s, m, t, r, h)) (h2 : decodeVal (Ty.state s m t r h) stx = some v)
    (h3 : res ≠ .atom "panic") (h4 : decodeVal (Ty.state s m t r h) res = some rv) :
    Drv.C10.handle "o-orbit" [sty, stx, res] = some (orbitAnswer (St.ofVal v) (St.ofVal rv)) := by
  simp only [Drv.C10.handle, h1, bind, Option.bind, h2]
  rw [h4]
  simp only [pure, orbitAnswer]
  congr
  all_goals (funext π; cases applyPerm _ π (St.ofVal v) <;> rfl)

end

/-! ## C19: `endStates`, `isInBoundaryPath` -/
section
open SR SR.PathApi SR.Drv.C19

/-- one round of `endStates`: the successors (ignored actions dropped, boundary not consulted) with fingerprint `fp` -/
def endStep (M : Sys Nat Nat) (key : Nat → Nat) (cur : List Nat) (fp : Nat) : List Nat :=
  (cur.flatMap fun s => (M.succAll s).filter (fun t => key t == fp)).eraseDups

theorem mem_endStep (M : Sys Nat Nat) (key : Nat → Nat) (cur : List Nat) (fp t : Nat) :
    t ∈ endStep M key cur fp ↔ ∃ s ∈ cur, t ∈ M.succAll s ∧ key t = fp := by
  simp [endStep, List.mem_flatMap, List.mem_filter]

theorem mem_succAll {M : Sys Nat Nat} {s t : Nat} : t ∈ M.succAll s ↔ ∃ a ∈ M.acts s, M.next s a = some t := by
  simp [Sys.succAll, List.mem_filterMap]

theorem mem_endFold (M : Sys Nat Nat) (key : Nat → Nat) : ∀ (rest : List Nat) (cur : List Nat) (t : Nat),
    t ∈ rest.foldl (endStep M key) cur ↔
      ∃ s ∈ cur, ∃ p, ExecFrom M s p ∧ encode key p = key s :: rest ∧ lastState p = some t := by
  intro rest
  induction rest with
  | nil =>
    intro cur t
    simp only [List.foldl_nil]
    constructor
    · intro h; exact ⟨t, h, [(t, none)], ExecFrom.last t, rfl, rfl⟩
    · rintro ⟨s, hs, p, hp, he, hl⟩
      cases hp with
      | last => simp [lastState] at hl; subst hl; exact hs
      | step _ _ hr =>
        obtain ⟨x, r, rfl⟩ := execFrom_ne_nil hr
        simp [encode] at he
  | cons fp r ih =>
    intro cur t
    simp only [List.foldl_cons]
    rw [ih]
    constructor
    · rintro ⟨s', hs', p', hp', he', hl'⟩
      obtain ⟨s, hs, hsucc, hk⟩ := (mem_endStep M key cur fp s').1 hs'
      obtain ⟨a, ha, hn⟩ := mem_succAll.1 hsucc
      obtain ⟨x, r', rfl⟩ := execFrom_ne_nil hp'
      refine ⟨s, hs, (s, some a) :: (s', x) :: r', ExecFrom.step ha hn hp', ?_, ?_⟩
      · simp only [encode, List.map_cons] at he' ⊢
        rw [← hk]; simpa using he'
      · rw [lastState_cons_cons]; exact hl'
    · rintro ⟨s, hs, p, hp, he, hl⟩
      cases hp with
      | last => simp [encode] at he
      | @step _ t' a rest ha hn hr =>
        obtain ⟨x, r', rfl⟩ := execFrom_ne_nil hr
        simp only [encode, List.map_cons, List.cons.injEq, true_and] at he
        refine ⟨t', (mem_endStep M key cur fp t').2 ⟨s, hs, mem_succAll.2 ⟨a, ha, hn⟩, he.1⟩, (t', x) :: r', hr, ?_, ?_⟩
        · simp only [encode, List.map_cons, List.cons.injEq, true_and]; exact he.2
        · rw [lastState_cons_cons] at hl; exact hl

/-- **`endStates` is exact**: it lists the final states of ALL executions of the model whose fingerprint sequence is
    `fps` (no injectivity of `key` assumed: with colliding fingerprints there may be several) -/
theorem mem_endStates (M : Sys Nat Nat) (key : Nat → Nat) (fps : List Nat) (t : Nat) :
    t ∈ endStates M key fps ↔ ∃ p, IsExec M p ∧ encode key p = fps ∧ lastState p = some t := by
  cases fps with
  | nil =>
    simp only [endStates, List.not_mem_nil, false_iff]
    rintro ⟨p, ⟨s, _, hp⟩, he, _⟩
    obtain ⟨x, r, rfl⟩ := execFrom_ne_nil hp
    simp [encode] at he
  | cons fp rest =>
    show t ∈ rest.foldl (endStep M key) ((M.init.filter (fun s => key s == fp)).eraseDups) ↔ _
    rw [mem_endFold]
    constructor
    · rintro ⟨s, hs, p, hp, he, hl⟩
      simp only [List.mem_eraseDups, List.mem_filter, beq_iff_eq] at hs
      exact ⟨p, ⟨s, hs.1, hp⟩, by rw [he, hs.2], hl⟩
    · rintro ⟨p, ⟨s, hs, hp⟩, he, hl⟩
      have h1 := encode_execFrom key hp
      rw [he] at h1
      simp only [List.tail_cons, List.cons.injEq] at h1
      refine ⟨s, ?_, p, hp, ?_, hl⟩
      · simp only [List.mem_eraseDups, List.mem_filter, beq_iff_eq]; exact ⟨hs, h1.1.symm⟩
      · rw [he, h1.1]

/-! ### in-boundary paths -/
theorem chain_iff (M : Sys Nat Nat) : ∀ (rest : List Nat) (s : Nat),
    isInBoundaryPath.chain M s rest = true ↔ M.Chain (s :: rest) := by
  intro rest
  induction rest with
  | nil => intro s; simp [isInBoundaryPath.chain, Sys.Chain]
  | cons b r ih =>
    intro s
    simp only [isInBoundaryPath.chain, Bool.and_eq_true, Sys.Chain, ih b]
    simp

/-- `isInBoundaryPath` decides `IsPath` -/
theorem isInBoundaryPath_iff (M : Sys Nat Nat) (p : List Nat) : isInBoundaryPath M p = true ↔ M.IsPath p := by
  cases p with
  | nil => simp [isInBoundaryPath, Sys.IsPath]
  | cons s rest =>
    simp only [isInBoundaryPath, Bool.and_eq_true, chain_iff, Sys.IsPath]
    constructor
    · rintro ⟨h1, h2⟩; exact ⟨s, rest, rfl, by simpa using h1, h2⟩
    · rintro ⟨s', r', he, h1, h2⟩
      cases he
      exact ⟨by simpa using h1, h2⟩

end

/-! ## C19: `reachSet` -/
section
open SR SR.PathApi SR.Drv.C19 SR.Checker

/-- invariant of the worklist of `reachSet` -/
structure WInv (M : Sys Nat Nat) (work seen : List Nat) : Prop where
  sub : ∀ x ∈ work, x ∈ seen
  init : ∀ x ∈ M.initB, x ∈ seen
  closed : ∀ s ∈ seen, s ∉ work → ∀ t ∈ M.succB s, t ∈ seen
  reach : ∀ x ∈ seen, M.Reach x
  nodup : seen.Nodup

theorem winv_done {M : Sys Nat Nat} {seen : List Nat} (h : WInv M [] seen) (x : Nat) : x ∈ seen ↔ M.Reach x := by
  constructor
  · exact h.reach x
  · intro hr
    induction hr with
    | init hi => exact h.init _ hi
    | step _ ht ih => exact h.closed _ ih (by simp) _ ht

theorem winv_step {M : Sys Nat Nat} {s : Nat} {w seen : List Nat} (h : WInv M (s :: w) seen) :
    WInv M (w ++ ((M.succB s).eraseDups).filter (fun t => !seen.contains t && !w.contains t))
      (seen ++ ((M.succB s).eraseDups).filter (fun t => !seen.contains t && !w.contains t)) := by
  have hmem : ∀ t, t ∈ ((M.succB s).eraseDups).filter (fun t => !seen.contains t && !w.contains t) ↔
      t ∈ M.succB s ∧ t ∉ seen := by
    intro t
    simp only [List.mem_filter, List.mem_eraseDups, Bool.and_eq_true, Bool.not_eq_true', List.contains_eq_mem,
      decide_eq_false_iff_not]
    constructor
    · rintro ⟨h1, h2, _⟩; exact ⟨h1, h2⟩
    · rintro ⟨h1, h2⟩; exact ⟨h1, h2, fun hw => h2 (h.sub t (List.mem_cons_of_mem _ hw))⟩
  have hs : M.Reach s := h.reach s (h.sub s (by simp))
  refine ⟨?_, ?_, ?_, ?_, ?_⟩
  · intro x hx
    rcases List.mem_append.1 hx with hx | hx
    · exact List.mem_append_left _ (h.sub x (List.mem_cons_of_mem _ hx))
    · exact List.mem_append_right _ hx
  · intro x hx; exact List.mem_append_left _ (h.init x hx)
  · intro s' hs' hn t ht
    have hn1 : s' ∉ w := fun hw => hn (List.mem_append_left _ hw)
    have hn2 : ¬ (s' ∈ M.succB s ∧ s' ∉ seen) := fun hc => hn (List.mem_append_right _ ((hmem s').2 hc))
    have hs'seen : s' ∈ seen := by
      rcases List.mem_append.1 hs' with h1 | h1
      · exact h1
      · exact absurd ((hmem s').1 h1) hn2
    by_cases hss : s' = s
    · subst hss
      by_cases hts : t ∈ seen
      · exact List.mem_append_left _ hts
      · exact List.mem_append_right _ ((hmem t).2 ⟨ht, hts⟩)
    · exact List.mem_append_left _ (h.closed s' hs'seen (by simp [hss, hn1]) t ht)
  · intro x hx
    rcases List.mem_append.1 hx with hx | hx
    · exact h.reach x hx
    · exact Sys.Reach.step hs ((hmem x).1 hx).1
  · rw [List.nodup_append]
    refine ⟨h.nodup, nodup_filter _ (nodup_eraseDups _), ?_⟩
    intro a ha b hb hab
    subst hab
    exact ((hmem a).1 hb).2 ha

/-- the worklist with enough fuel computes exactly the reachable set, each state once -/
theorem go_spec (M : Sys Nat Nat) (n : Nat) (hb : ∀ x, M.Reach x → x < n) : ∀ (fuel : Nat) (work seen : List Nat),
    WInv M work seen → n + work.length ≤ fuel + seen.length →
    (∀ x, x ∈ reachSet.go M fuel work seen ↔ M.Reach x) ∧ (reachSet.go M fuel work seen).Nodup := by
  intro fuel
  induction fuel with
  | zero =>
    intro work seen h hm
    have hl : seen.length ≤ n := nodup_lt_length_le h.nodup (fun x hx => hb x (h.reach x hx))
    have hw : work = [] := List.length_eq_zero_iff.1 (by omega)
    subst hw
    simp only [reachSet.go]
    exact ⟨winv_done h, h.nodup⟩
  | succ fuel ih =>
    intro work seen h hm
    cases work with
    | nil => simp only [reachSet.go]; exact ⟨winv_done h, h.nodup⟩
    | cons s w =>
      simp only [reachSet.go]
      apply ih _ _ (winv_step h)
      simp only [List.length_append, List.length_cons] at hm ⊢
      omega

/-- **`reachSet` is exact** whenever the reachable states are numbered below `n` (the harness's graphs: states are
    `0 … n-1`): the fuel `n*n + n + 1` is never exhausted (`n` pops suffice), the result is the set of reachable
    in-boundary states, without repetition — so `reach.length` is the number of reachable states. -/
theorem mem_reachSet (M : Sys Nat Nat) (n : Nat) (hb : ∀ x, M.Reach x → x < n) :
    (∀ x, x ∈ reachSet M n ↔ M.Reach x) ∧ (reachSet M n).Nodup := by
  unfold reachSet
  apply go_spec M n hb
  · refine ⟨fun x hx => hx, fun x hx => by simpa using hx, ?_, ?_, nodup_eraseDups _⟩
    · intro s hs hn; exact absurd hs hn
    · intro x hx; exact Sys.Reach.init (by simpa using hx)
  · have : n ≤ n * n + n + 1 := by omega
    omega

/-- soundness needs no bound at all: whatever the fuel, `reachSet` lists reachable states only -/
theorem reachSet_sound (M : Sys Nat Nat) (n : Nat) : ∀ x ∈ reachSet M n, M.Reach x := by
  have key : ∀ (fuel : Nat) (work seen : List Nat), WInv M work seen → ∀ x ∈ reachSet.go M fuel work seen, M.Reach x := by
    intro fuel
    induction fuel with
    | zero => intro work seen h x hx; simp only [reachSet.go] at hx; exact h.reach x hx
    | succ fuel ih =>
      intro work seen h x hx
      cases work with
      | nil => simp only [reachSet.go] at hx; exact h.reach x hx
      | cons s w => simp only [reachSet.go] at hx; exact ih _ _ (winv_step h) x hx
  intro x hx
  unfold reachSet at hx
  refine key _ _ _ ⟨fun x hx => hx, fun x hx => by simpa using hx, ?_, ?_, nodup_eraseDups _⟩ x hx
  · intro s hs hn; exact absurd hs hn
  · intro x hx; exact Sys.Reach.init (by simpa using hx)

end

/-! ## C07: the reference semantics of `o-net` -/
section
open SR SR.Actor SR.Drv.C07 SR.C07

/-- the oracle's two ingredients of `refQueue` are the declarative `sentOn` / `removedOn` of `Props/C07.lean` -/
theorem refQueue_eq (h : List NetOp) (f : Nat × Nat) :
    refQueue h f = (sentOn f h).drop (removedOn f h).length := by
  unfold refQueue
  simp only []
  congr 1
  · induction h with
    | nil => rfl
    | cons op ops ih =>
      unfold removedOn at ih ⊢
      cases op with
      | send e =>
        rw [List.filter_cons, List.filterMap_cons]
        simp only [Bool.and_false, Bool.false_eq_true, if_false]
        exact ih
      | deliver e =>
        rw [List.filter_cons, List.filterMap_cons]
        by_cases hf : flowOf e = f
        · have : onFlow f (NetOp.deliver e) = true := by simpa [onFlow, flowOf] using hf
          simp only [this, hf, if_true, Bool.and_self, List.length_cons]
          exact congrArg (· + 1) ih
        · have : onFlow f (NetOp.deliver e) = false := by simpa [onFlow, flowOf] using hf
          simp only [this, hf, if_false, Bool.false_and, Bool.false_eq_true]
          exact ih
      | drop e =>
        rw [List.filter_cons, List.filterMap_cons]
        by_cases hf : flowOf e = f
        · have : onFlow f (NetOp.drop e) = true := by simpa [onFlow, flowOf] using hf
          simp only [this, hf, if_true, Bool.and_self, List.length_cons]
          exact congrArg (· + 1) ih
        · have : onFlow f (NetOp.drop e) = false := by simpa [onFlow, flowOf] using hf
          simp only [this, hf, if_false, Bool.false_and, Bool.false_eq_true]
          exact ih
  · induction h with
    | nil => rfl
    | cons op ops ih =>
      unfold sentOn at ih ⊢
      cases op with
      | send e =>
        rw [List.filterMap_cons, List.filterMap_cons]
        by_cases hf : flowOf e = f
        · have : ((e.src, e.dst) == f) = true := by simpa [flowOf] using hf
          simp only [this, hf, if_true]
          exact congrArg (e.msg :: ·) ih
        · have : ((e.src, e.dst) == f) = false := by simpa [flowOf] using hf
          simp only [this, hf, if_false, Bool.false_eq_true]
          exact ih
      | deliver e => rw [List.filterMap_cons, List.filterMap_cons]; exact ih
      | drop e => rw [List.filterMap_cons, List.filterMap_cons]; exact ih

/-- `refQueue` is THE solution of the equation of `C07_ordered` (initially empty network): any queue `q` with
    `removed ++ q = sent` is `refQueue` -/
theorem refQueue_unique (h : List NetOp) (f : Nat × Nat) (q : List Nat)
    (heq : removedOn f h ++ q = sentOn f h) : refQueue h f = q := by
  rw [refQueue_eq, ← heq, List.drop_left]

theorem filter_beq_length (x : NetOp) : ∀ h : List NetOp,
    (h.filter (fun op => op == x)).length = (h.filter (· = x)).length := by
  intro h
  induction h with
  | nil => rfl
  | cons op ops ih =>
    simp only [List.filter_cons]
    by_cases hx : op = x
    · simp [hx, ih]
    · simp [hx, ih]

theorem filter_gone_length (e : Env) : ∀ h : List NetOp,
    (h.filter (fun op => op == NetOp.deliver e || op == NetOp.drop e)).length =
      (h.filter (· = NetOp.deliver e)).length + (h.filter (· = NetOp.drop e)).length := by
  intro h
  induction h with
  | nil => rfl
  | cons op ops ih =>
    simp only [List.filter_cons]
    by_cases hd : op = NetOp.deliver e
    · subst hd; simp [ih]; omega
    · by_cases hx : op = NetOp.drop e
      · subst hx; simp [ih]; omega
      · simp [hd, hx, ih]

theorem refCount_spec (h : List NetOp) (e : Env) :
    refCount h e = if deliveredCount e h + droppedCount e h ≤ sentCount e h
      then some (sentCount e h - (deliveredCount e h + droppedCount e h)) else none := by
  unfold refCount sentCount deliveredCount droppedCount
  simp only [filter_beq_length, filter_gone_length]

/-- `refCount` is THE solution of the conservation law `C07_nondup` (initially empty network) -/
theorem refCount_unique (h : List NetOp) (e : Env) (c : Nat)
    (heq : c + deliveredCount e h + droppedCount e h = sentCount e h) : refCount h e = some c := by
  rw [refCount_spec, if_pos (by omega)]
  congr 1; omega

/-- and it answers `none` exactly when the history has more deliveries-and-drops of `e` than sends -/
theorem refCount_none (h : List NetOp) (e : Env) :
    refCount h e = none ↔ sentCount e h < deliveredCount e h + droppedCount e h := by
  rw [refCount_spec]
  split
  · simp; omega
  · simp; omega

theorem snoc_ind {α : Type} {P : List α → Prop} (nil : P []) (snoc : ∀ l a, P l → P (l ++ [a])) : ∀ l, P l := by
  have : ∀ l : List α, P l.reverse := by
    intro l
    induction l with
    | nil => exact nil
    | cons a l ih => rw [List.reverse_cons]; exact snoc _ _ ih
  intro l
  have := this l.reverse
  rwa [List.reverse_reverse] at this

theorem lastSD_append (e : Env) (a b : List NetOp) :
    lastSD e (a ++ b) = match lastSD e b with | some x => some x | none => lastSD e a := by
  induction a with
  | nil => cases hb : lastSD e b <;> simp [lastSD, hb]
  | cons op ops ih =>
    simp only [List.cons_append, lastSD, ih]
    cases lastSD e b with
    | some x => simp
    | none => simp

/-- `refPresent` is the right-hand side of `C07_dup` (initially empty set): the last send-or-drop of `e` is a send -/
theorem refPresent_iff (h : List NetOp) (e : Env) : refPresent h e = true ↔ lastSD e h = some true := by
  unfold refPresent
  induction h using snoc_ind with
  | nil => simp [lastSD]
  | snoc ops op ih =>
    rw [lastSD_append, List.filter_append]
    cases op with
    | send e' =>
      by_cases he : e' = e
      · subst he; simp [lastSD]
      · simp only [lastSD, he, if_false, List.filter_cons, List.filter_nil]
        have : (NetOp.send e' == NetOp.send e || NetOp.send e' == NetOp.drop e) = false := by simp [he]
        simp only [this, Bool.false_eq_true, if_false, List.append_nil]
        exact ih
    | deliver e' =>
      simp only [lastSD, List.filter_cons, List.filter_nil]
      have : (NetOp.deliver e' == NetOp.send e || NetOp.deliver e' == NetOp.drop e) = false := by simp
      simp only [this, Bool.false_eq_true, if_false, List.append_nil]
      exact ih
    | drop e' =>
      by_cases he : e' = e
      · subst he; simp [lastSD]
      · simp only [lastSD, he, if_false, List.filter_cons, List.filter_nil]
        have : (NetOp.drop e' == NetOp.send e || NetOp.drop e' == NetOp.drop e) = false := by simp [he]
        simp only [this, Bool.false_eq_true, if_false, List.append_nil]
        exact ih

end

/-! ## C06 / C09: the candidate enumeration of `o-graph` -/
section
open SR SR.Actor SR.Actor.Codec SR.Drv.C06

theorem mem_zipIdx_of_getElem? {α : Type} (l : List α) (i : Nat) (x : α) (h : l[i]? = some x) : (x, i) ∈ l.zipIdx := by
  rw [List.mem_zipIdx_iff_getElem?]
  simpa using h

/-- **the candidate enumeration of `o-graph` is complete**: on a state with `sys.n` crash flags and a canonical network
    every action the specification enables is among the candidates, so an enabled action the implementation does not
    offer is always noticed -/
theorem candidates_complete (sys : USys) (st : USt) (hc : st.net.Canon) (hlen : st.crashed.length ≤ sys.n + 1)
    (a : Action) (h : enabledSpec sys st a) : a ∈ candidates sys st := by
  unfold candidates
  simp only [List.mem_append, List.mem_map, List.mem_flatMap, List.mem_range]
  cases a with
  | deliver e =>
    have : e ∈ st.net.contents := C07.C07_deliver_only_if_present st.net hc e (Or.inl (by simpa [Net.valid] using h.1))
    exact Or.inl (Or.inl (Or.inl (Or.inl ⟨e, this, rfl⟩)))
  | drop e =>
    have : e ∈ st.net.contents := C07.C07_deliver_only_if_present st.net hc e (Or.inr (by simpa [Net.valid] using h.2))
    exact Or.inl (Or.inl (Or.inl (Or.inr ⟨e, this, rfl⟩)))
  | timeout i t =>
    obtain ⟨ts, hts, ht⟩ := h
    exact Or.inl (Or.inl (Or.inr ⟨(ts, i), mem_zipIdx_of_getElem? _ _ _ hts, t, ht, rfl⟩))
  | crash i =>
    have hi : i < st.crashed.length := by
      have := h.2
      rcases Nat.lt_or_ge i st.crashed.length with hlt | hge
      · exact hlt
      · rw [List.getElem?_eq_none hge] at this; cases this
    exact Or.inl (Or.inr ⟨i, by omega, rfl⟩)
  | selectRandom i k r =>
    obtain ⟨m, cs, hm, hkc, hr⟩ := h
    exact Or.inr ⟨(m, i), mem_zipIdx_of_getElem? _ _ _ hm, (k, cs), hkc, r, hr, rfl⟩

end

/-! ## C16: `o-orl` -/
section
open SR SR.Orl SR.Drv.C16

/-- the five clauses of `o-orl` for one ordered pair, as propositions over the decoded world -/
structure PairOk (nodes : List (Node Nat WSt)) (net : List (Packet Nat)) (s d : Nat) : Prop where
  /-- `C16_prefix` -/
  pref : msgsFrom ((world nodes net).nodes d) s <+: sentTo ((world nodes net).nodes s) d
  /-- `C16_no_redelivery` (first clause) -/
  once : seqsFrom ((world nodes net).nodes d) s = List.range' 1 (seqsFrom ((world nodes net).nodes d) s).length
  /-- `C16_complete_when_acked` -/
  complete : (∀ e ∈ ((world nodes net).nodes s).pending, e.1.1 ≠ d) →
    msgsFrom ((world nodes net).nodes d) s = sentTo ((world nodes net).nodes s) d
  /-- `C16_no_early_ack` (in flight), and: a `Deliver(q, m)` in flight from `s` to `d` carries the `q`-th message sent -/
  inflight : ∀ p ∈ net,
    (∀ q, p.env = Env.ack q → p.src = d → p.dst = s → 1 ≤ q ∧ q ≤ (handedFrom ((world nodes net).nodes d) s).length) ∧
    (∀ q m, p.env = Env.deliver q m → p.src = s → p.dst = d → 1 ≤ q ∧ (sentTo ((world nodes net).nodes s) d)[q - 1]? = some m)
  /-- `C16_no_early_ack_processed` -/
  processed : ∀ q, 1 ≤ q → q ≤ (sentTo ((world nodes net).nodes s) d).length →
    (∃ e ∈ ((world nodes net).nodes s).pending, e.1.1 = d ∧ e.1.2 = q) ∨ q ≤ (handedFrom ((world nodes net).nodes d) s).length

theorem handed_world (nodes : List (Node Nat WSt)) (net : List (Packet Nat)) (s d : Nat) :
    (match nodes[d]? with | some R => handedFrom R s | none => []) = handedFrom ((world nodes net).nodes d) s := by
  unfold world
  cases h : nodes[d]? with
  | none => simp [h, handedFrom, emptyNode]
  | some R => simp [h]

/-- the error lines `o-orl` prints for the pair `(s, d)` -/
def pairErrs (nodes : List (Node Nat WSt)) (net : List (Packet Nat)) (s d : Nat) : List String :=
    let S := nodes[s]?.getD emptyNode
    let sent := sentTo S d
    let handed := match nodes[d]? with | some R => handedFrom R s | none => []
    let msgs := handed.map (·.2)
    let seqs := handed.map (·.1)
    let pendingTo := S.pending.filter (fun e => e.1.1 == d)
    let tag := s!"[{s}->{d}]"
    (if msgs.isPrefixOf sent then [] else [s!"handed-not-a-prefix-of-sent{tag}"]) ++
    (if seqs == List.range' 1 seqs.length then [] else [s!"not-exactly-once-in-order{tag}"]) ++
    (if pendingTo.isEmpty && msgs != sent then [s!"all-acknowledged-but-handed≠sent{tag}"] else []) ++
    (if net.all (fun p => match p.env with
        | .ack q => !(p.src == d && p.dst == s) || (1 ≤ q && q ≤ handed.length)
        | .deliver q m => !(p.src == s && p.dst == d) || (1 ≤ q && sent[q - 1]? == some m))
      then [] else [s!"ack-before-handover-or-fabricated-deliver{tag}"]) ++
    (if (List.range' 1 sent.length).all (fun q => pendingTo.any (fun e => e.1.2 == q) || q ≤ handed.length)
      then [] else [s!"acknowledged-and-discarded-before-handover{tag}"])

theorem oracle_eq (nodes : List (Node Nat WSt)) (net : List (Packet Nat)) :
    oracle nodes net = (List.range nodes.length).flatMap fun s =>
      (List.range (maxId nodes + 1)).flatMap fun d => pairErrs nodes net s d := rfl

theorem ite_nil_iff {c : Prop} [Decidable c] {x : String} : (if c then ([] : List String) else [x]) = [] ↔ c := by
  by_cases h : c <;> simp [h]
theorem ite_nil_iff' {c : Prop} [Decidable c] {x : String} : (if c then [x] else ([] : List String)) = [] ↔ ¬ c := by
  by_cases h : c <;> simp [h]

theorem pairErrs_nil_iff (nodes : List (Node Nat WSt)) (net : List (Packet Nat)) (s d : Nat) :
    pairErrs nodes net s d = [] ↔ PairOk nodes net s d := by
  unfold pairErrs
  simp only [handed_world nodes net s d]
  have hS : nodes[s]?.getD emptyNode = (world nodes net).nodes s := rfl
  simp only [hS, List.append_eq_nil_iff, ite_nil_iff, ite_nil_iff']
  constructor
  · rintro ⟨⟨⟨⟨h1, h2⟩, h3⟩, h4⟩, h5⟩
    refine ⟨?_, ?_, ?_, ?_, ?_⟩
    · exact List.isPrefixOf_iff_prefix.1 h1
    · simpa [seqsFrom] using h2
    · intro hp
      have hemp : (((world nodes net).nodes s).pending.filter (fun e => e.1.1 == d)).isEmpty = true := by
        rw [List.isEmpty_iff, List.filter_eq_nil_iff]
        intro e he; simpa using hp e he
      simp only [hemp, Bool.true_and, bne_iff_ne, ne_eq, Decidable.not_not] at h3
      exact h3
    · intro p hp
      rw [List.all_eq_true] at h4
      have := h4 p hp
      constructor
      · intro q hq hs hd
        simp only [hq, hs, hd, beq_self_eq_true, Bool.and_self, Bool.not_true, Bool.false_or, Bool.and_eq_true,
          decide_eq_true_eq] at this
        exact this
      · intro q m hq hs hd
        simp only [hq, hs, hd, beq_self_eq_true, Bool.and_self, Bool.not_true, Bool.false_or, Bool.and_eq_true,
          decide_eq_true_eq, beq_iff_eq] at this
        exact this
    · intro q hq1 hq2
      rw [List.all_eq_true] at h5
      have := h5 q (List.mem_range'_1.2 ⟨hq1, by omega⟩)
      simp only [Bool.or_eq_true, List.any_eq_true, List.mem_filter, beq_iff_eq, decide_eq_true_eq] at this
      rcases this with ⟨e, ⟨he, hd⟩, hq⟩ | h
      · exact Or.inl ⟨e, he, hd, hq⟩
      · exact Or.inr h
  · rintro ⟨h1, h2, h3, h4, h5⟩
    refine ⟨⟨⟨⟨List.isPrefixOf_iff_prefix.2 h1, by simpa [seqsFrom] using h2⟩, ?_⟩, ?_⟩, ?_⟩
    · intro hc
      simp only [Bool.and_eq_true, bne_iff_ne, ne_eq] at hc
      apply hc.2
      apply h3
      intro e he hd
      have := hc.1
      rw [List.isEmpty_iff, List.filter_eq_nil_iff] at this
      exact this e he (by simpa using hd)
    · rw [List.all_eq_true]
      intro p hp
      obtain ⟨ha, hd⟩ := h4 p hp
      cases hq : p.env with
      | ack q =>
        simp only [Bool.or_eq_true, Bool.not_eq_true', Bool.and_eq_false_iff, beq_eq_false_iff_ne, ne_eq,
          Bool.and_eq_true, decide_eq_true_eq]
        by_cases h1 : p.src = d
        · by_cases h2 : p.dst = s
          · exact Or.inr (ha q hq h1 h2)
          · exact Or.inl (Or.inr h2)
        · exact Or.inl (Or.inl h1)
      | deliver q m =>
        simp only [Bool.or_eq_true, Bool.not_eq_true', Bool.and_eq_false_iff, beq_eq_false_iff_ne, ne_eq,
          Bool.and_eq_true, decide_eq_true_eq, beq_iff_eq]
        by_cases h1 : p.src = s
        · by_cases h2 : p.dst = d
          · exact Or.inr (hd q m hq h1 h2)
          · exact Or.inl (Or.inr h2)
        · exact Or.inl (Or.inl h1)
    · rw [List.all_eq_true]
      intro q hq
      have hq' := List.mem_range'_1.1 hq
      simp only [Bool.or_eq_true, List.any_eq_true, List.mem_filter, beq_iff_eq, decide_eq_true_eq]
      rcases h5 q hq'.1 (by omega) with ⟨e, he, hd, hqq⟩ | h
      · exact Or.inl ⟨e, ⟨he, hd⟩, hqq⟩
      · exact Or.inr h

/-- **`o-orl` answers `ok` iff the five clauses hold for every pair it enumerates** -/
theorem oracle_nil_iff (nodes : List (Node Nat WSt)) (net : List (Packet Nat)) :
    oracle nodes net = [] ↔ ∀ s, s < nodes.length → ∀ d, d ≤ maxId nodes → PairOk nodes net s d := by
  rw [oracle_eq]
  simp only [List.flatMap_eq_nil_iff, List.mem_range, pairErrs_nil_iff]
  constructor
  · intro h s hs d hd; exact h s hs d (by omega)
  · intro h s hs d hd; exact h s hs d (by omega)

theorem foldl_max_ge (l : List Nat) : ∀ (a : Nat), a ≤ l.foldl max a ∧ ∀ x ∈ l, x ≤ l.foldl max a := by
  induction l with
  | nil => intro a; simp
  | cons y ys ih =>
    intro a
    simp only [List.foldl_cons]
    obtain ⟨h1, h2⟩ := ih (max a y)
    refine ⟨by omega, ?_⟩
    intro x hx
    rcases List.mem_cons.1 hx with rfl | hx
    · omega
    · exact h2 x hx

/-- **the enumeration of destinations loses nothing about the nodes**: for a destination beyond `maxId` nothing was sent
    to it, nothing is pending for it and it has no node, so the four clauses that speak about nodes only hold trivially
    (only packets in flight from / to such an id are not examined) -/
theorem pair_outside (nodes : List (Node Nat WSt)) (net : List (Packet Nat)) (s d : Nat) (hd : maxId nodes < d) :
    sentTo ((world nodes net).nodes s) d = [] ∧ handedFrom ((world nodes net).nodes d) s = [] ∧
    ∀ e ∈ ((world nodes net).nodes s).pending, e.1.1 ≠ d := by
  have hge : nodes.length ≤ maxId nodes ∧
      ∀ x ∈ (nodes.flatMap fun nd => nd.sent.map (·.1) ++ nd.pending.map (·.1.1)), x ≤ maxId nodes :=
    by unfold maxId; exact foldl_max_ge _ _
  obtain ⟨hlen, hall⟩ := hge
  have hlen' : nodes.length < d := Nat.lt_of_le_of_lt hlen hd
  have hnone : nodes[d]? = none := List.getElem?_eq_none (by omega)
  refine ⟨?_, ?_, ?_⟩
  · unfold world sentTo
    simp only
    cases hs : nodes[s]? with
    | none => simp [emptyNode]
    | some S =>
      have hS : S ∈ nodes := List.mem_of_getElem? hs
      simp only [Option.getD_some, List.map_eq_nil_iff, List.filter_eq_nil_iff, decide_eq_true_eq]
      intro e he hed
      have : e.1 ≤ maxId nodes := hall e.1 (List.mem_flatMap.2 ⟨S, hS, List.mem_append_left _ (List.mem_map.2 ⟨e, he, rfl⟩)⟩)
      rw [hed] at this
      exact absurd this (Nat.not_le.2 hd)
  · unfold world handedFrom
    simp [hnone, emptyNode]
  · unfold world
    simp only
    cases hs : nodes[s]? with
    | none => simp [emptyNode]
    | some S =>
      have hS : S ∈ nodes := List.mem_of_getElem? hs
      simp only [Option.getD_some]
      intro e he hed
      have : e.1.1 ≤ maxId nodes := hall e.1.1 (List.mem_flatMap.2 ⟨S, hS, List.mem_append_right _ (List.mem_map.2 ⟨e, he, rfl⟩)⟩)
      rw [hed] at this
      exact absurd this (Nat.not_le.2 hd)

end

/-! ## C20: `specCmp` -/
section
open SR SR.VClock SR.Drv.C20

theorem anyLt_iff (a b : Clock) :
    ((List.range (max a.length b.length)).any fun i => decide (get0 a i < get0 b i)) = true ↔ ∃ i, get0 a i < get0 b i := by
  rw [List.any_eq_true]
  have := range_ex a b (fun x y => x < y) (by omega)
  simp only [decide_eq_true_eq]
  exact this

theorem anyGt_iff (a b : Clock) :
    ((List.range (max a.length b.length)).any fun i => decide (get0 b i < get0 a i)) = true ↔ ∃ i, get0 b i < get0 a i := by
  rw [List.any_eq_true]
  have := range_ex a b (fun x y => y < x) (by omega)
  simp only [decide_eq_true_eq]
  exact this

/-- **`specCmp` is the product order** (the right-hand sides of `C20_cmp_spec`), hence equals `partialCmp` of the model -/
theorem specCmp_spec (a b : Clock) :
    (specCmp a b = some .eq ↔ C20.Equiv a b) ∧
    (specCmp a b = some .lt ↔ C20.Le a b ∧ ∃ i, get0 a i < get0 b i) ∧
    (specCmp a b = some .gt ↔ C20.Le b a ∧ ∃ i, get0 b i < get0 a i) ∧
    (specCmp a b = none ↔ (∃ i, get0 a i < get0 b i) ∧ ∃ j, get0 b j < get0 a j) := by
  have hl := anyLt_iff a b
  have hg := anyGt_iff a b
  unfold specCmp C20.Equiv C20.Le
  simp only
  cases h1 : (List.range (max a.length b.length)).any fun i => decide (get0 a i < get0 b i) <;>
  cases h2 : (List.range (max a.length b.length)).any fun i => decide (get0 b i < get0 a i)
  all_goals (rw [h1] at hl; rw [h2] at hg; simp only [Bool.false_eq_true, false_iff, true_iff, not_exists, Nat.not_lt] at hl hg)
  · refine ⟨⟨fun _ i => Nat.le_antisymm (hg i) (hl i), fun _ => rfl⟩, ?_, ?_, ?_⟩
    · refine ⟨fun h => (by cases h), fun hh => absurd hh ?_⟩; rintro ⟨_, i, hi⟩; have := hl i; omega
    · refine ⟨fun h => (by cases h), fun hh => absurd hh ?_⟩; rintro ⟨_, i, hi⟩; have := hg i; omega
    · refine ⟨fun h => (by cases h), fun hh => absurd hh ?_⟩; rintro ⟨⟨i, hi⟩, _⟩; have := hl i; omega
  · obtain ⟨j, hj⟩ := hg
    refine ⟨?_, ?_, ⟨fun _ => ⟨hl, j, hj⟩, fun _ => rfl⟩, ?_⟩
    · refine ⟨fun h => (by cases h), fun hh => absurd hh ?_⟩; intro h; have := h j; omega
    · refine ⟨fun h => (by cases h), fun hh => absurd hh ?_⟩; rintro ⟨h, _⟩; have := h j; omega
    · refine ⟨fun h => (by cases h), fun hh => absurd hh ?_⟩; rintro ⟨⟨i, hi⟩, _⟩; have := hl i; omega
  · obtain ⟨j, hj⟩ := hl
    refine ⟨?_, ⟨fun _ => ⟨hg, j, hj⟩, fun _ => rfl⟩, ?_, ?_⟩
    · refine ⟨fun h => (by cases h), fun hh => absurd hh ?_⟩; intro h; have := h j; omega
    · refine ⟨fun h => (by cases h), fun hh => absurd hh ?_⟩; rintro ⟨h, _⟩; have := h j; omega
    · refine ⟨fun h => (by cases h), fun hh => absurd hh ?_⟩; rintro ⟨_, ⟨i, hi⟩⟩; have := hg i; omega
  · obtain ⟨j, hj⟩ := hl
    obtain ⟨k, hk⟩ := hg
    refine ⟨?_, ?_, ?_, ⟨fun _ => ⟨⟨j, hj⟩, k, hk⟩, fun _ => rfl⟩⟩
    · refine ⟨fun h => (by cases h), fun hh => absurd hh ?_⟩; intro h; have := h j; omega
    · refine ⟨fun h => (by cases h), fun hh => absurd hh ?_⟩; rintro ⟨h, _⟩; have := h k; omega
    · refine ⟨fun h => (by cases h), fun hh => absurd hh ?_⟩; rintro ⟨h, _⟩; have := h j; omega

theorem specCmp_eq_partialCmp (a b : Clock) : specCmp a b = partialCmp a b := by
  obtain ⟨s1, s2, s3, s4⟩ := specCmp_spec a b
  obtain ⟨p1, p2, p3, p4⟩ := C20.C20_cmp_spec a b
  cases h : partialCmp a b with
  | none => exact s4.2 (p4.1 h)
  | some o =>
    cases o with
    | lt => exact s2.2 (p2.1 h)
    | eq => exact s1.2 (p1.1 h)
    | gt => exact s3.2 (p3.1 h)

end

/-! ## C20: `o-dnm-rewrite` (the handler as FIXED after the audit: the guard also tests that the plan permutes the keys) -/
section
open SR SR.DNM

/-- the guard of `o-dnm-rewrite` (transcribed; `kv` = the mode is `"kv"`) -/
def dnmRwApplicable (plan m : List Nat) (kv : Bool) : Bool :=
  plan.length == m.length && (!kv || m.all (· < plan.length)) &&
    (List.range plan.length).all (fun k => plan.count k == 1)

/-- the verdict of `o-dnm-rewrite` on a result that is not `panic` -/
def dnmRwAnswer (plan m : List Nat) (kv : Bool) (res : List Nat) : String :=
  let pv := fun v => if kv then plan.getD v v else v
  if res.length != m.length then "wrong-length"
  else if (List.range m.length).all (fun k => res[plan.getD k k]? == (m[k]?).map pv) then "ok"
  else "value-not-moved-to-the-rewritten-key"

theorem handle_o_dnm_rewrite (px mx md rx : SExp) (plan m res : List Nat) (mode : String)
    (h1 : px.nats? = some plan) (h2 : mx.nats? = some m) (h3 : md.str? = some mode)
    (h4 : rx ≠ .atom "panic") (h5 : rx.nats? = some res) :
    Drv.C20.handle "o-dnm-rewrite" [px, mx, md, rx] =
      some (if !dnmRwApplicable plan m (mode == "kv") then "ok" else dnmRwAnswer plan m (mode == "kv") res) := by
  simp only [Drv.C20.handle, h1, h2, h3, bind, Option.bind, pure]
  unfold dnmRwApplicable dnmRwAnswer
  by_cases hk : mode = "kv"
  · subst hk
    simp only [bne_self_eq_false, Bool.false_or, beq_self_eq_true, Bool.not_true]
    split
    · rfl
    · rw [h5]
  · have e1 : (mode == "kv") = false := by simpa using hk
    have e2 : (mode != "kv") = true := by simpa using hk
    simp only [e1, e2, Bool.true_or, Bool.not_false, Bool.and_true]
    split
    · rfl
    · rw [h5]

/-- the guard holds exactly under the hypotheses of the law -/
theorem dnmRwApplicable_iff (plan m : List Nat) (kv : Bool) :
    dnmRwApplicable plan m kv = true ↔
      plan.Perm (List.range m.length) ∧ (kv = true → ∀ v ∈ m, v < plan.length) := by
  unfold dnmRwApplicable
  constructor
  · intro h
    simp only [Bool.and_eq_true, beq_iff_eq, Bool.or_eq_true, Bool.not_eq_true', List.all_eq_true, decide_eq_true_eq] at h
    obtain ⟨⟨hl, hv⟩, hc⟩ := h
    have hp : plan.Perm (List.range plan.length) :=
      (countB_iff_perm plan.length plan).1 (by simp only [beq_self_eq_true, Bool.true_and, List.all_eq_true, beq_iff_eq]; exact hc)
    refine ⟨hl ▸ hp, ?_⟩
    intro hk v hv'
    rcases hv with h | h
    · rw [hk] at h; cases h
    · exact h v hv'
  · rintro ⟨hp, hv⟩
    have hl : plan.length = m.length := by rw [hp.length_eq, List.length_range]
    have hc := (countB_iff_perm plan.length plan).2 (hl ▸ hp)
    simp only [beq_self_eq_true, Bool.true_and] at hc
    simp only [Bool.and_eq_true, beq_iff_eq, Bool.or_eq_true, Bool.not_eq_true', List.all_eq_true, decide_eq_true_eq]
    refine ⟨⟨hl, ?_⟩, by simpa using hc⟩
    cases kv with
    | false => exact Or.inl rfl
    | true => exact Or.inr (hv rfl)

/-- the verdict is `ok` exactly when the conclusion of the law holds of the implementation's result -/
theorem dnmRwAnswer_ok_iff (plan m : List Nat) (kv : Bool) (res : List Nat) :
    dnmRwAnswer plan m kv res = "ok" ↔
      res.length = m.length ∧ ∀ k, k < m.length →
        DNM.get res (plan.getD k k) = (DNM.get m k).map (fun v => if kv then plan.getD v v else v) := by
  unfold dnmRwAnswer DNM.get
  simp only
  by_cases hl : res.length = m.length
  · have : (res.length != m.length) = false := by simpa using hl
    rw [this]
    simp only [Bool.false_eq_true, if_false]
    by_cases ha : ((List.range m.length).all fun k => res[plan.getD k k]? == Option.map (fun v => if kv = true then plan.getD v v else v) m[k]?) = true
    · rw [if_pos ha]
      simp only [List.all_eq_true, List.mem_range, beq_iff_eq] at ha
      exact ⟨fun _ => ⟨hl, ha⟩, fun _ => rfl⟩
    · rw [if_neg ha]
      simp only [List.all_eq_true, List.mem_range, beq_iff_eq] at ha
      constructor
      · intro h; exact absurd h (by decide)
      · rintro ⟨_, h⟩; exact absurd h ha
  · have : (res.length != m.length) = true := by simpa using hl
    rw [this]
    simp only [if_true]
    constructor
    · intro h; exact absurd h (by decide)
    · rintro ⟨h, _⟩; exact absurd h hl

theorem map_getD_range (plan : List Nat) : (List.range plan.length).map (fun k => plan.getD k k) = plan := by
  apply List.ext_getElem
  · simp
  · intro i h1 h2
    simp [List.getD_eq_getElem?_getD, h2]

/-- **where the guard holds the law `C20_dnm_rewrite` applies, and the oracle accepts what the law describes**: the
    model's rewritten map exists and is answered `ok` -/
theorem dnmRw_accepts_law (plan m : List Nat) (kv : Bool) (h : dnmRwApplicable plan m kv = true) :
    ∃ m', DNM.rewrite (fun k => plan.getD k k) (fun v => if kv then plan.getD v v else v) m = some m' ∧
      dnmRwAnswer plan m kv m' = "ok" := by
  obtain ⟨hp, _⟩ := (dnmRwApplicable_iff plan m kv).1 h
  have hl : plan.length = m.length := by rw [hp.length_eq, List.length_range]
  have hperm : ((List.range m.length).map (fun k => plan.getD k k)).Perm (List.range m.length) := by
    rw [← hl, map_getD_range, hl]; exact hp
  obtain ⟨m', h1, h2, h3⟩ := C20.C20_dnm_rewrite (fun k => plan.getD k k) (fun v => if kv then plan.getD v v else v) m hperm
  exact ⟨m', h1, (dnmRwAnswer_ok_iff plan m kv m').2 ⟨h2, h3⟩⟩

/-- the formerly bad input (`plan = [0, 0]`, not a permutation): the fixed guard says "not applicable", the command answers `ok` -/
theorem dnmRw_former_bad_input : dnmRwApplicable [0, 0] [1, 2] false = false ∧ ¬ [0, 0].Perm (List.range 2) := by
  refine ⟨by decide, ?_⟩
  intro h
  have := h.mem_iff (a := 1)
  simp at this

end

/-! ## C12: `spec` of `o-hd` -/
section
open SR SR.HasDisc SR.Drv.C12

/-- the declarative meaning of a `HasDiscoveries` variant (right-hand sides of `C12_matches_*`) -/
def Meaning (c : Cond) (D : List Nat) (props : List P) : Prop :=
  match c with
  | .all => ∀ p ∈ props, p.name ∈ D
  | .any => D ≠ []
  | .anyFailures => ∃ p ∈ props, p.exp ≠ .sometimes ∧ p.name ∈ D
  | .allFailures => ∀ p ∈ props, p.exp ≠ .sometimes → p.name ∈ D
  | .allOf s => ∀ n ∈ s, n ∈ D
  | .anyOf s => ∃ n ∈ s, n ∈ D

theorem nodupB_iff : ∀ l : List Nat, nodupB l = true ↔ l.Nodup := by
  intro l
  induction l with
  | nil => simp [nodupB]
  | cons x xs ih => simp [nodupB, ih]

/-- **`spec` evaluates the declarative meaning**, and answers `none` only for `All` outside the hypotheses of
    `C12_matches_all` -/
theorem spec_some_iff (c : Cond) (D : List Nat) (props : List P) (b : Bool) (h : spec c D props = some b) :
    (b = true ↔ Meaning c D props) ∧
    (c = .all → D.Nodup ∧ (names props).Nodup ∧ D ⊆ names props) := by
  cases c with
  | all =>
    unfold spec at h
    simp only at h
    split at h
    · rename_i hg
      simp only [Bool.and_eq_true, nodupB_iff, List.all_eq_true] at hg
      injection h with h
      subst h
      refine ⟨?_, fun _ => ⟨hg.1.1, hg.1.2, fun n hn => by simpa using hg.2 n hn⟩⟩
      simp [Meaning]
    · cases h
  | any => simp only [spec, Option.some.injEq] at h; subst h; simp [Meaning]
  | anyFailures =>
    simp only [spec, Option.some.injEq] at h; subst h
    simp [Meaning]
  | allFailures =>
    simp only [spec, Option.some.injEq] at h; subst h
    refine ⟨?_, fun hc => by cases hc⟩
    simp only [Meaning, List.all_eq_true, Bool.or_eq_true, beq_iff_eq, List.elem_eq_mem, decide_eq_true_eq, ne_eq]
    constructor
    · intro h p hp hne; rcases h p hp with h | h
      · exact absurd h hne
      · exact h
    · intro h p hp
      by_cases he : p.exp = .sometimes
      · exact Or.inl he
      · exact Or.inr (h p hp he)
  | allOf s => simp only [spec, Option.some.injEq] at h; subst h; simp [Meaning]
  | anyOf s => simp only [spec, Option.some.injEq] at h; subst h; simp [Meaning]

/-- wherever the oracle speaks it agrees with the model's `matches` (by the `C12_matches_*` theorems) -/
theorem spec_eq_matches (c : Cond) (D : List Nat) (props : List P) (b : Bool) (h : spec c D props = some b) :
    «matches» c D props = b := by
  obtain ⟨h1, h2⟩ := spec_some_iff c D props b h
  rw [Bool.eq_iff_iff, h1]
  cases c with
  | all => obtain ⟨a1, a2, a3⟩ := h2 rfl; exact C12.C12_matches_all D props a1 a3 a2
  | any => exact C12.C12_matches_any D props
  | anyFailures => exact C12.C12_matches_anyF D props
  | allFailures => exact C12.C12_matches_allF D props
  | allOf s => exact C12.C12_matches_allOf s D props
  | anyOf s => exact C12.C12_matches_anyOf s D props

end

/-! ## C08 / C14: `firstIllFormed` of `o-res` -/
section
open SR SR.Sem SR.Sem.Tester SR.Drv.Sem

variable {Op Ret : Type}

theorem firstIllFormedFrom_none_iff : ∀ (es : List (Event Op Ret)) (fl : List Nat) (n : Nat),
    firstIllFormedFrom fl n es = none ↔ wfFrom fl es = true := by
  intro es
  induction es with
  | nil => intro fl n; simp [firstIllFormedFrom, wfFrom]
  | cons e es ih =>
    intro fl n
    cases e with
    | inv t op =>
      simp only [firstIllFormedFrom, wfFrom]
      cases hc : fl.contains t <;> simp [ih]
    | ret t r =>
      simp only [firstIllFormedFrom, wfFrom]
      cases hc : fl.contains t <;> simp [ih]

theorem firstIllFormedFrom_some : ∀ (es : List (Event Op Ret)) (fl : List Nat) (n k : Nat) (b : Bool),
    firstIllFormedFrom fl n es = some (k, b) →
    ∃ p e q, es = p ++ e :: q ∧ k = n + p.length ∧ wfFrom fl p = true ∧ wfFrom fl (p ++ [e]) = false ∧ b = isInv e := by
  intro es
  induction es with
  | nil => intro fl n k b h; simp [firstIllFormedFrom] at h
  | cons e es ih =>
    intro fl n k b h
    cases e with
    | inv t op =>
      simp only [firstIllFormedFrom] at h
      cases hc : fl.contains t with
      | true =>
        simp only [hc, if_true, Option.some.injEq, Prod.mk.injEq] at h
        exact ⟨[], .inv t op, es, rfl, by simp [h.1], rfl, (by show (!fl.contains t && _) = false; rw [hc]; rfl), by simp [isInv, h.2]⟩
      | false =>
        simp only [hc, Bool.false_eq_true, if_false] at h
        obtain ⟨p, e, q, h1, h2, h3, h4, h5⟩ := ih _ _ _ _ h
        refine ⟨.inv t op :: p, e, q, by rw [h1]; rfl, by simp [h2]; omega, (by show (!fl.contains t && wfFrom (t :: fl) p) = true; rw [hc, h3]; rfl), ?_, h5⟩
        simp only [List.cons_append, wfFrom, hc, Bool.not_false, Bool.true_and]; exact h4
    | ret t r =>
      simp only [firstIllFormedFrom] at h
      cases hc : fl.contains t with
      | false =>
        simp only [hc, Bool.false_eq_true, if_false, Option.some.injEq, Prod.mk.injEq] at h
        exact ⟨[], .ret t r, es, rfl, by simp [h.1], rfl, (by show (fl.contains t && _) = false; rw [hc]; rfl), by simp [isInv, h.2]⟩
      | true =>
        simp only [hc, if_true] at h
        obtain ⟨p, e, q, h1, h2, h3, h4, h5⟩ := ih _ _ _ _ h
        refine ⟨.ret t r :: p, e, q, by rw [h1]; rfl, by simp [h2]; omega, (by show (fl.contains t && wfFrom (fl.erase t) p) = true; rw [hc, h3]; rfl), ?_, h5⟩
        simp only [List.cons_append, wfFrom, hc, Bool.true_and]; exact h4

/-- `firstIllFormed` finds the split of `C08_illformed_split`: `none` exactly on the well-formed histories, otherwise the
    position of the first inadmissible event and whether it is an invocation -/
theorem firstIllFormed_spec (es : List (Event Op Ret)) :
    (firstIllFormed es = none ↔ WellFormed es) ∧
    (∀ k b, firstIllFormed es = some (k, b) →
      ∃ p e q, es = p ++ e :: q ∧ p.length = k ∧ WellFormed p ∧ ¬ Admissible p e ∧ b = isInv e) := by
  constructor
  · unfold firstIllFormed; rw [firstIllFormedFrom_none_iff, ← wfB_iff]; rfl
  · intro k b h
    obtain ⟨p, e, q, h1, h2, h3, h4, h5⟩ := firstIllFormedFrom_some es [] 0 k b h
    have hp : WellFormed p := (wfB_iff p).1 h3
    refine ⟨p, e, q, h1, by omega, hp, ?_, h5⟩
    intro hadm
    have : WellFormed (p ++ [e]) := wellFormed_snoc.2 ⟨hp, hadm⟩
    have := (wfB_iff _).2 this
    unfold wfB at this
    rw [h4] at this; cases this

/-- the list of result classes `o-res` expects -/
def expectRes (es : List (Event Op Ret)) : List Res :=
  match firstIllFormed es with
  | none => es.map fun _ => Res.ok
  | some (k, isInv) =>
    (List.range es.length).map fun i =>
      if i < k then Res.ok else if i = k then (if isInv then Res.errInFlight else Res.errNoInFlight) else Res.errEarlier

theorem oracleResults_eq (es : List (Event Op Ret)) (rs : List Res) :
    oracleResults es rs = if rs == expectRes es then "ok" else "result-classes-differ-from-first-ill-formed-event" := by
  unfold oracleResults expectRes
  cases firstIllFormed es with
  | none => rfl
  | some x => rfl

theorem expect_split (p q : List (Event Op Ret)) (e : Event Op Ret) :
    ((List.range (p ++ e :: q).length).map fun i =>
      if i < p.length then Res.ok else if i = p.length then (if isInv e then Res.errInFlight else Res.errNoInFlight)
      else Res.errEarlier) =
    List.replicate p.length Res.ok ++ errOf e :: List.replicate q.length Res.errEarlier := by
  apply List.ext_getElem
  · simp
  · intro i h1 h2
    simp only [List.getElem_map, List.getElem_range]
    by_cases hi : i < p.length
    · rw [List.getElem_append_left (by simpa using hi)]
      simp [hi]
    · rw [List.getElem_append_right (by simpa using hi)]
      simp only [hi, if_false, List.length_replicate]
      by_cases he : i = p.length
      · subst he
        simp only [if_true, Nat.sub_self, List.getElem_cons_zero]
        cases e <;> rfl
      · simp only [he, if_false]
        have hne : i - p.length ≠ 0 := by omega
        obtain ⟨j, hj⟩ := Nat.exists_eq_succ_of_ne_zero hne
        simp [hj]

/-- **`o-res` accepts exactly the result list the theorems `C08_wellformed_ok` / `C08_illformed` state** (which is the
    model's `results`, for either tester — `rt` — and any initial object) -/
theorem oracleResults_ok_iff {S : Type} (rt : Bool) (s0 : S) (es : List (Event Op Ret)) (rs : List Res) :
    oracleResults es rs = "ok" ↔ rs = results rt (Tester.new s0) es := by
  rw [oracleResults_eq]
  have key : expectRes es = results rt (Tester.new s0) es := by
    obtain ⟨h1, h2⟩ := firstIllFormed_spec es
    unfold expectRes
    cases hf : firstIllFormed es with
    | none =>
      rw [results_wellFormed s0 es (h1.1 hf)]
      simp only
      induction es with
      | nil => rfl
      | cons x xs _ => simp [List.replicate_succ, List.map_const']
    | some x =>
      obtain ⟨k, b⟩ := x
      obtain ⟨p, e, q, he, hk, hp, hadm, hb⟩ := h2 k b hf
      subst he hk hb
      rw [(illformed_record s0 hp hadm).2]
      exact expect_split p q e
  rw [key]
  constructor
  · intro h
    by_cases hc : (rs == results rt (Tester.new s0) es) = true
    · simpa using hc
    · rw [if_neg hc] at h; exact absurd h (by decide)
  · intro h; subst h; simp

end

/-! ## C19: `graph?` accepts well-formed graphs only (as FIXED after the audit) -/
section
open SR SR.Drv.C19

/-- well-formed labelled graph: initial states and edge targets are state numbers `< n` -/
def LWF (g : LGraph) : Prop :=
  (∀ s ∈ g.init, s < g.n) ∧ ∀ row ∈ g.edges.toList, ∀ e ∈ row, ∀ t, e.2 = some t → t < g.n

theorem graph?_wf (x : SExp) (g : LGraph) (h : graph? x = some g) : LWF g := by
  unfold graph? at h
  split at h
  · simp only [bind, Option.bind, pure] at h
    iterate 5 (split at h; (· cases h); dsimp only at h)
    split at h
    · rename_i hc
      injection h with h
      subst h
      simp only [Bool.and_eq_true, List.all_eq_true, decide_eq_true_eq] at hc
      refine ⟨hc.1, ?_⟩
      intro row hrow e he t ht
      have := hc.2 row (by simpa using hrow) e he
      rw [ht] at this
      simpa using this
    · cases h
  · cases h

theorem lwf_reach_lt {g : LGraph} (hwf : LWF g) : ∀ x, g.toSys.Reach x → x < g.n := by
  intro x hx
  induction hx with
  | init hi =>
    have : _ ∈ g.init := (List.mem_filter.1 hi).1
    exact hwf.1 _ this
  | @step s t _ ht _ =>
    obtain ⟨⟨a, _, hn⟩, _⟩ := Sys.mem_succB.1 ht
    simp only [LGraph.toSys] at hn
    cases hf : (g.edges.getD s []).find? (fun e => e.1 == a) with
    | none => rw [hf] at hn; cases hn
    | some e =>
      rw [hf] at hn
      have he : e ∈ g.edges.getD s [] := List.mem_of_find?_eq_some hf
      have hrow : g.edges.getD s [] ∈ g.edges.toList := by
        by_cases hs : s < g.edges.size
        · simp [Array.getD, hs]
        · simp [Array.getD, hs] at he
      exact hwf.2 _ hrow e he t hn

end

/-! ## `reachSet` itself on an ill-formed graph (such a graph is no longer accepted by `graph?`); C09 `o-crash`; C20 `o-dnm-from` -/
section
open SR SR.Drv.C19 SR.Actor SR.Actor.Codec

def illLG : LGraph :=
  { n := 0, init := [0], edges := #[[(0, some 1)], [(0, some 2)], []], bnd := fun _ => true, props := [] }

theorem reachSet_ill_formed :
    reachSet illLG.toSys illLG.n = [0, 1] ∧ illLG.toSys.Reach 2 := by
  refine ⟨by decide, ?_⟩
  have h0 : illLG.toSys.Reach 0 := Sys.Reach.init (by decide)
  have h1 : illLG.toSys.Reach 1 := Sys.Reach.step h0 (by decide)
  exact Sys.Reach.step h1 (by decide)

/-- the crash actions `o-crash` expects to be offered are exactly the crashes the specification enables -/
theorem crash_expected_iff (sys : USys) (st : USt) (j : Nat) :
    j ∈ (List.range sys.n).filter (fun j => st.crashed[j]? == some false && countCrashed st.crashed < sys.maxCrashes) ↔
      j < sys.n ∧ enabledSpec sys st (.crash j) := by
  simp only [List.mem_filter, List.mem_range, Bool.and_eq_true, beq_iff_eq, decide_eq_true_eq, enabledSpec]
  constructor
  · rintro ⟨h1, h2, h3⟩; exact ⟨h1, h3, h2⟩
  · rintro ⟨h1, h3, h2⟩; exact ⟨h1, h2, h3⟩

/-- the key test of `o-dnm-from` decides the right-hand side of `C20_dnm_gaps` -/
theorem dnmFrom_keys_iff {V : Type} (ps : List (Nat × V)) :
    (List.range ps.length).all (fun k => (ps.map (·.1)).count k == 1) = true ↔
      (ps.map (·.1)).Perm (List.range ps.length) := by
  rw [← countB_iff_perm]
  simp

end

/-! ## checker group: `witnessOk` of `o-chk c03` -/
section
open SR SR.Checker SR.Drv.Chk

theorem getLast?_lastOf {p : List Nat} (hne : p ≠ []) : p.getLast? = some (lastOf p) := by
  unfold lastOf
  rw [List.getLast?_eq_some_getLast hne]; rfl

/-- **`witnessOk` (exhaustive checkers) is the conjunction of `C03_known_property`, `C03_path`, `C03_always`,
    `C03_sometimes`, `C03_eventually`** for one reported discovery -/
theorem witnessOk_nil_iff (c : Case) (i : Nat) (p : List Nat) :
    witnessOk c i p false = [] ↔
      ∃ pr, c.props[i]? = some pr ∧ c.g.toSys.IsPath p ∧
        (pr.exp = .always → ∃ s, p.getLast? = some s ∧ pr.toProp.cond s = false) ∧
        (pr.exp = .sometimes → ∃ s, p.getLast? = some s ∧ pr.toProp.cond s = true) ∧
        (pr.exp = .eventually → (∀ t ∈ p, pr.toProp.cond t = false) ∧ ∃ s, p.getLast? = some s ∧ c.g.toSys.succB s = []) := by
  unfold witnessOk
  cases hpr : c.props[i]? with
  | none => simp
  | some pr =>
    simp only [Option.some.injEq, exists_eq_left', List.append_eq_nil_iff, ite_nil_iff]
    rw [Graph.isPathB_iff]
    constructor
    · rintro ⟨hp, hrest⟩
      have hne := Sys.isPath_ne_nil hp
      have hl := getLast?_lastOf hne
      refine ⟨hp, ?_, ?_, ?_⟩
      · intro he; rw [he] at hrest
        refine ⟨_, hl, ?_⟩
        simp only [ite_nil_iff'] at hrest
        simpa [GProp.toProp] using hrest
      · intro he; rw [he] at hrest
        refine ⟨_, hl, ?_⟩
        simp only [ite_nil_iff] at hrest
        simpa [GProp.toProp] using hrest
      · intro he; rw [he] at hrest
        simp only [List.append_eq_nil_iff, ite_nil_iff, ite_nil_iff', Bool.false_and, Bool.or_false] at hrest
        refine ⟨?_, _, hl, ?_⟩
        · intro t ht
          have := hrest.1
          simp only [List.any_eq_true, not_exists, not_and, Bool.not_eq_true] at this
          exact this t ht
        · simpa [Graph.succB] using hrest.2
    · rintro ⟨hp, ha, hs, he⟩
      have hne := Sys.isPath_ne_nil hp
      have hl := getLast?_lastOf hne
      refine ⟨hp, ?_⟩
      cases hexp : pr.exp with
      | always =>
        obtain ⟨s, h1, h2⟩ := ha hexp
        rw [hl] at h1; cases h1
        simp only [ite_nil_iff']
        simpa [GProp.toProp] using h2
      | sometimes =>
        obtain ⟨s, h1, h2⟩ := hs hexp
        rw [hl] at h1; cases h1
        simp only [ite_nil_iff]
        simpa [GProp.toProp] using h2
      | eventually =>
        obtain ⟨h1, s, h2, h3⟩ := he hexp
        rw [hl] at h2; cases h2
        simp only [List.append_eq_nil_iff, ite_nil_iff, ite_nil_iff', Bool.false_and, Bool.or_false]
        refine ⟨?_, by simpa [Graph.succB] using h3⟩
        simp only [List.any_eq_true, not_exists, not_and, Bool.not_eq_true]
        exact h1

/-- the existential the verdict lines of `oracleC02` compute (`reach.any …`) ranges over exactly the reachable states -/
theorem reach_any_iff (g : Graph) (hwf : g.WF) (f : Nat → Bool) :
    g.reachList.any f = true ↔ ∃ t, g.toSys.Reach t ∧ f t = true := by
  rw [List.any_eq_true]
  constructor
  · rintro ⟨t, ht, h⟩; exact ⟨t, (Graph.reachList_iff_wf g hwf t).1 ht, h⟩
  · rintro ⟨t, ht, h⟩; exact ⟨t, (Graph.reachList_iff_wf g hwf t).2 ht, h⟩
end

end SR.COracleAudit
