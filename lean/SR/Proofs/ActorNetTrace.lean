import SR.Proofs.ActorNet
/-! Lemmas about single network operations and the `iter_all` state machine (used by Props/C07). -/
namespace SR.Actor
open Net

/-! ### declarative "deliverable" -/

/-- `e` is what the network kind allows to be delivered next: present (duplicating), a copy left
(non-duplicating), head of its flow (ordered) -/
def Net.isHead (n : Net) (e : Env) : Prop :=
  match n with
  | .dup set _ => e ∈ set
  | .nondup ms => ∃ c, alookup e ms = some c
  | .ord flows => ∃ q, alookup (e.src, e.dst) flows = some q ∧ q.head? = some e.msg

theorem mem_iterDeliverable {n : Net} (hc : n.Canon) (e : Env) : e ∈ n.iterDeliverable ↔ n.isHead e := by
  cases n with
  | dup set last => simp [iterDeliverable, isHead]
  | nondup ms =>
    simp only [iterDeliverable, isHead, List.mem_map]
    constructor
    · rintro ⟨⟨e', c⟩, hp, rfl⟩
      exact ⟨c, alookup_of_mem_nodup hc.2 hp⟩
    · rintro ⟨c, h⟩
      exact ⟨(e, c), alookup_mem h, rfl⟩
  | ord flows =>
    simp only [iterDeliverable, isHead, List.mem_filterMap]
    constructor
    · rintro ⟨⟨⟨s, d⟩, q⟩, hp, hq⟩
      cases hh : q.head? with
      | none => simp [hh] at hq
      | some m =>
        simp [hh] at hq
        subst hq
        exact ⟨q, alookup_of_mem_nodup hc.2 hp, hh⟩
    · rintro ⟨q, h, hh⟩
      exact ⟨((e.src, e.dst), q), alookup_mem h, by simp [hh]⟩

/-! ### canonical form is invariant -/

theorem canon_send {n : Net} (hc : n.Canon) (e : Env) : (n.send e).Canon := by
  cases n with
  | dup set last => exact nodup_sins _ _ _ hc
  | nondup ms =>
    refine ⟨?_, nodup_keys_ainsert _ _ _ _ hc.2⟩
    intro p hp
    rcases mem_ainsert hp with h | h
    · exact hc.1 p h
    · subst h; simp
  | ord flows =>
    refine ⟨?_, nodup_keys_ainsert _ _ _ _ hc.2⟩
    intro p hp
    rcases mem_ainsert hp with h | h
    · exact hc.1 p h
    · subst h; simp

theorem canon_removeOne {n n' : Net} (hc : n.Canon) {e : Env} (h : n.removeOne e = some n') : n'.Canon := by
  cases n with
  | dup set last => simp [removeOne] at h; subst h; exact hc
  | nondup ms =>
    simp only [removeOne] at h
    cases hl : alookup e ms with
    | none => simp [hl] at h
    | some c =>
      simp only [hl] at h
      by_cases h0 : c = 0
      · simp [h0] at h
      · by_cases h1 : c = 1
        · simp [h1] at h; subst h
          exact ⟨fun p hp => hc.1 p (mem_aremove hp), nodup_keys_aremove _ _ hc.2⟩
        · simp [h0, h1] at h; subst h
          refine ⟨?_, by simpa [keys_aset] using hc.2⟩
          intro p hp
          rcases mem_aset hp with h | h
          · exact hc.1 p h
          · subst h; simp; omega
  | ord flows =>
    simp only [removeOne] at h
    cases hl : alookup (e.src, e.dst) flows with
    | none => simp [hl] at h
    | some q =>
      simp only [hl] at h
      cases hi : q.idxOf? e.msg with
      | none => simp [hi] at h
      | some i =>
        simp only [hi] at h
        by_cases hlen : q.length > 1
        · simp [hlen] at h; subst h
          refine ⟨?_, by simpa [keys_aset] using hc.2⟩
          intro p hp
          rcases mem_aset hp with h | h
          · exact hc.1 p h
          · subst h
            intro he
            have := congrArg List.length he
            simp [List.length_eraseIdx] at this
            split at this <;> omega
        · simp [hlen] at h; subst h
          exact ⟨fun p hp => hc.1 p (mem_aremove hp), nodup_keys_aremove _ _ hc.2⟩

theorem canon_apply {n n' : Net} (hc : n.Canon) {op : NetOp} (h : n.apply op = some n') : n'.Canon := by
  cases op with
  | send e => simp [Net.apply] at h; subst h; exact canon_send hc e
  | deliver e =>
    cases n with
    | dup set last => simp [Net.apply, onDeliver] at h; subst h; exact hc
    | nondup ms => exact canon_removeOne hc (e := e) (by simpa [Net.apply, onDeliver] using h)
    | ord flows => exact canon_removeOne hc (e := e) (by simpa [Net.apply, onDeliver] using h)
  | drop e =>
    cases n with
    | dup set last => simp [Net.apply, onDrop] at h; subst h; exact nodup_srem _ _ hc
    | nondup ms => exact canon_removeOne hc (e := e) (by simpa [Net.apply, onDrop] using h)
    | ord flows => exact canon_removeOne hc (e := e) (by simpa [Net.apply, onDrop] using h)

theorem run_cons {n n' : Net} {op : NetOp} {ops : List NetOp} :
    Net.run n (op :: ops) = some n' ↔
      n.valid op = true ∧ ∃ n1, n.apply op = some n1 ∧ Net.run n1 ops = some n' := by
  simp only [Net.run]
  by_cases hv : n.valid op = true
  · simp [hv, Option.bind_eq_some_iff]
  · simp [hv]

theorem canon_run {n n' : Net} (hc : n.Canon) {ops : List NetOp} (h : Net.run n ops = some n') : n'.Canon := by
  induction ops generalizing n with
  | nil => simp [Net.run] at h; subst h; exact hc
  | cons op ops ih =>
    obtain ⟨_, n1, h1, h2⟩ := run_cons.1 h
    exact ih (canon_apply hc h1) h2

/-! ### `iter_all` -/

namespace AllIt

/-- well-formed iterator states: counts ≥ 1, queues non-empty -/
def Ok : AllIt → Prop
  | .dup _ => True
  | .nondup active rest => (∀ e c, active = some (e, c) → 1 ≤ c) ∧ ∀ p ∈ rest, 1 ≤ p.2
  | .ord _ rest => ∀ p ∈ rest, p.2 ≠ []

theorem next_none {it : AllIt} (hok : it.Ok) (h : it.next = none) : it.items = [] := by
  cases it with
  | dup rest => cases rest <;> simp_all [next, items]
  | nondup active rest =>
    cases active with
    | some ec => obtain ⟨e, c⟩ := ec; simp [next] at h
    | none => cases rest with
      | nil => simp [items]
      | cons p r => obtain ⟨e, c⟩ := p; simp [next] at h
  | ord active rest =>
    have hrest : ordNext rest = none → rest = [] := by
      intro h
      cases rest with
      | nil => rfl
      | cons p r =>
        obtain ⟨⟨s, d⟩, msgs⟩ := p
        have := hok _ List.mem_cons_self
        cases msgs with
        | nil => simp at this
        | cons m ms => simp [ordNext] at h
    cases active with
    | none =>
      simp only [next] at h
      simp [items, hrest h]
    | some a =>
      obtain ⟨s, d, msgs, i⟩ := a
      simp only [next] at h
      cases hg : msgs[i]? with
      | some m => simp [hg] at h
      | none =>
        simp only [hg] at h
        have : msgs.length ≤ i := by
          rcases Nat.lt_or_ge i msgs.length with hlt | hge
          · simp [List.getElem?_eq_getElem hlt] at hg
          · exact hge
        simp [items, hrest h, List.drop_of_length_le this]

theorem next_some {it it' : AllIt} {e : Env} (hok : it.Ok) (h : it.next = some (e, it')) :
    it.items = e :: it'.items ∧ it'.Ok := by
  cases it with
  | dup rest =>
    cases rest with
    | nil => simp [next] at h
    | cons a r => simp [next] at h; obtain ⟨rfl, rfl⟩ := h; simp [items, Ok]
  | nondup active rest =>
    cases active with
    | some ec =>
      obtain ⟨e0, c⟩ := ec
      simp only [next, Option.some.injEq, Prod.mk.injEq] at h
      obtain ⟨rfl, rfl⟩ := h
      have hc : 1 ≤ c := hok.1 e0 c rfl
      obtain ⟨k, rfl⟩ : ∃ k, c = k + 1 := ⟨c - 1, by omega⟩
      constructor
      · simp only [Nat.add_sub_cancel, items, List.replicate_succ, List.cons_append]
        by_cases h1 : k = 0
        · simp [h1]
        · simp [h1]
      · refine ⟨?_, hok.2⟩
        intro e c hh
        simp only [Nat.add_sub_cancel] at hh
        by_cases h1 : k = 0
        · simp [h1] at hh
        · simp [h1] at hh; omega
    | none =>
      cases rest with
      | nil => simp [next] at h
      | cons p r =>
        obtain ⟨e0, c⟩ := p
        simp only [next, Option.some.injEq, Prod.mk.injEq] at h
        obtain ⟨rfl, rfl⟩ := h
        have hc : 1 ≤ c := hok.2 (e0, c) List.mem_cons_self
        have hr : ∀ p ∈ r, 1 ≤ p.2 := fun p hp => hok.2 p (List.mem_cons_of_mem _ hp)
        obtain ⟨k, rfl⟩ : ∃ k, c = k + 1 := ⟨c - 1, by omega⟩
        constructor
        · simp only [Nat.add_sub_cancel, items, List.flatMap_cons, List.replicate_succ, List.nil_append,
            List.cons_append]
          by_cases h1 : k + 1 > 1
          · simp [h1]
          · have : k = 0 := by omega
            simp [this]
        · refine ⟨?_, hr⟩
          intro e c hh
          by_cases h1 : k + 1 > 1
          · simp [h1] at hh; omega
          · simp [h1] at hh
  | ord active rest =>
    have hrest : ∀ {e it'}, ordNext rest = some (e, it') →
        rest.flatMap (fun p => p.2.map (fun m => (⟨p.1.1, p.1.2, m⟩ : Env))) = e :: it'.items ∧ it'.Ok := by
      intro e it' h
      cases rest with
      | nil => simp [ordNext] at h
      | cons p r =>
        obtain ⟨⟨s, d⟩, msgs⟩ := p
        cases msgs with
        | nil => simp [ordNext] at h
        | cons m ms =>
          simp only [ordNext, List.head?_cons, Option.some.injEq, Prod.mk.injEq] at h
          obtain ⟨rfl, rfl⟩ := h
          refine ⟨by simp [items], ?_⟩
          intro p hp; exact hok p (List.mem_cons_of_mem _ hp)
    cases active with
    | none =>
      simp only [next] at h
      obtain ⟨h1, h2⟩ := hrest h
      exact ⟨by simpa [items] using h1, h2⟩
    | some a =>
      obtain ⟨s, d, msgs, i⟩ := a
      simp only [next] at h
      cases hg : msgs[i]? with
      | some m =>
        simp only [hg, Option.some.injEq, Prod.mk.injEq] at h
        obtain ⟨rfl, rfl⟩ := h
        have hlt : i < msgs.length := by
          rcases Nat.lt_or_ge i msgs.length with hlt | hge
          · exact hlt
          · simp [List.getElem?_eq_none hge] at hg
        have hm : msgs[i] = m := by
          rw [List.getElem?_eq_getElem hlt] at hg; exact Option.some.inj hg
        refine ⟨?_, hok⟩
        simp [items, List.drop_eq_getElem_cons hlt, hm]
      | none =>
        simp only [hg] at h
        have : msgs.length ≤ i := by
          rcases Nat.lt_or_ge i msgs.length with hlt | hge
          · simp [List.getElem?_eq_getElem hlt] at hg
          · exact hge
        obtain ⟨h1, h2⟩ := hrest h
        exact ⟨by simpa [items, List.drop_of_length_le this] using h1, h2⟩

theorem drain_eq_items (fuel : Nat) (it : AllIt) (hok : it.Ok) (h : it.items.length < fuel) :
    drain fuel it = it.items := by
  induction fuel generalizing it with
  | zero => omega
  | succ fuel ih =>
    unfold drain
    cases hn : it.next with
    | none => simp [next_none hok hn]
    | some p =>
      obtain ⟨e, it'⟩ := p
      obtain ⟨h1, h2⟩ := next_some hok hn
      simp only
      rw [h1] at h ⊢
      rw [ih it' h2 (by simpa using h)]

end AllIt

theorem len_eq_contents_length (n : Net) : n.len = n.contents.length := by
  cases n with
  | dup set last => rfl
  | nondup ms =>
    simp only [len, contents, List.length_flatMap, List.length_replicate]
  | ord flows =>
    simp only [len, contents, List.length_flatMap, List.length_map]

theorem iterStart_items (n : Net) : n.iterStart.items = n.contents := by
  cases n <;> simp [iterStart, AllIt.items, contents]

theorem iterStart_ok {n : Net} (hc : n.Canon) : n.iterStart.Ok := by
  cases n with
  | dup set last => trivial
  | nondup ms =>
    refine ⟨?_, hc.1⟩
    intro e c h
    cases h
  | ord flows => exact hc.1

theorem iterAll_eq_contents {n : Net} (hc : n.Canon) : n.iterAll = n.contents := by
  unfold Net.iterAll
  rw [AllIt.drain_eq_items _ _ (iterStart_ok hc), iterStart_items]
  rw [iterStart_items, len_eq_contents_length]; omega

/-! ### single steps: one operation on one representation -/

def flowOf (e : Env) : Nat × Nat := (e.src, e.dst)

theorem queue_send (flows : List ((Nat × Nat) × List Nat)) (e : Env) (f : Nat × Nat) :
    ((Net.ord flows).send e).queue f =
      if f = flowOf e then (Net.ord flows).queue f ++ [e.msg] else (Net.ord flows).queue f := by
  simp only [Net.send, Net.queue, alookup_ainsert, flowOf]
  by_cases h : f = (e.src, e.dst) <;> simp [h]

theorem ord_remove {flows : List ((Nat × Nat) × List Nat)} {e : Env} {n1 : Net}
    (hc : (Net.ord flows).Canon) (hv : e ∈ (Net.ord flows).iterDeliverable)
    (h : (Net.ord flows).removeOne e = some n1) :
    n1.isOrdered = true ∧ (Net.ord flows).queue (flowOf e) = e.msg :: n1.queue (flowOf e) ∧
      ∀ f, f ≠ flowOf e → n1.queue f = (Net.ord flows).queue f := by
  obtain ⟨q, hq, hh⟩ := (mem_iterDeliverable hc e).1 hv
  obtain ⟨t, rfl⟩ := List.head?_eq_some_iff.1 hh
  simp only [Net.removeOne, hq, List.idxOf?_cons, beq_self_eq_true, if_true] at h
  by_cases hlen : (e.msg :: t).length > 1
  · simp only [hlen, if_true, Option.some.injEq] at h
    subst h
    refine ⟨rfl, ?_, ?_⟩
    · simp [Net.queue, flowOf, alookup_aset, hq]
    · intro f hf
      simp only [flowOf] at hf
      simp [Net.queue, alookup_aset, hf]
  · simp only [hlen, if_false, Option.some.injEq] at h
    subst h
    have ht : t = [] := by
      cases t with
      | nil => rfl
      | cons a b => simp at hlen
    subst ht
    refine ⟨rfl, ?_, ?_⟩
    · simp [Net.queue, flowOf, alookup_aremove, hq]
    · intro f hf
      simp only [flowOf] at hf
      simp [Net.queue, alookup_aremove, hf]

theorem count_send (ms : List (Env × Nat)) (e' e : Env) :
    ((Net.nondup ms).send e').count e = (Net.nondup ms).count e + if e = e' then 1 else 0 := by
  simp only [Net.send, Net.count, alookup_ainsert]
  by_cases h : e = e' <;> simp [h]

theorem nondup_remove {ms : List (Env × Nat)} {e' : Env} {n1 : Net}
    (h : (Net.nondup ms).removeOne e' = some n1) (e : Env) :
    (∃ ms1, n1 = Net.nondup ms1) ∧ (Net.nondup ms).count e = n1.count e + if e = e' then 1 else 0 := by
  simp only [Net.removeOne] at h
  cases hl : alookup e' ms with
  | none => simp [hl] at h
  | some c =>
    simp only [hl] at h
    by_cases h0 : c = 0
    · simp [h0] at h
    · by_cases h1 : c = 1
      · simp [h1] at h; subst h
        refine ⟨⟨_, rfl⟩, ?_⟩
        simp only [Net.count, alookup_aremove]
        by_cases he : e = e'
        · subst he; simp [hl, h1]
        · simp [he]
      · simp [h0, h1] at h; subst h
        refine ⟨⟨_, rfl⟩, ?_⟩
        simp only [Net.count, alookup_aset]
        by_cases he : e = e'
        · subst he; simp [hl]; omega
        · simp [he]


end SR.Actor
