import SR.Proofs.ActorNetTrace
/-! `Net.count` is the multiplicity in `contents`, and how one operation changes it (for C07_loss_only_by_drop). -/
namespace SR.Actor
open Net

theorem count_map_env (s d : Nat) (q : List Nat) (e : Env) :
    (q.map (fun m => (⟨s, d, m⟩ : Env))).count e = if (s, d) = (e.src, e.dst) then q.count e.msg else 0 := by
  induction q with
  | nil => simp
  | cons m ms ih =>
    simp only [List.map_cons, List.count_cons, ih]
    by_cases h : (s, d) = (e.src, e.dst)
    · simp only [Prod.mk.injEq] at h
      obtain ⟨rfl, rfl⟩ := h
      by_cases hm : m = e.msg
      · subst hm; simp
      · have : ¬ (⟨e.src, e.dst, m⟩ : Env) = e := by
          intro h'; apply hm; rw [← h']
        simp [hm, this]
    · have : ¬ (⟨s, d, m⟩ : Env) = e := by
        intro h'; apply h; rw [← h']
      simp [h, this]

theorem count_of_mem_nodup {α : Type} [DecidableEq α] {l : List α} (hn : l.Nodup) {a : α} (h : a ∈ l) :
    l.count a = 1 := by
  induction l with
  | nil => simp at h
  | cons b l ih =>
    have hb := List.nodup_cons.1 hn
    rw [List.count_cons]
    rcases List.mem_cons.1 h with rfl | h
    · simp [List.count_eq_zero.2 hb.1]
    · have : ¬ b = a := by rintro rfl; exact hb.1 h
      simp [ih hb.2 h, this]

theorem count_contents {n : Net} (hc : n.Canon) (e : Env) : n.contents.count e = n.count e := by
  cases n with
  | dup set last =>
    simp only [contents, Net.count]
    by_cases h : e ∈ set
    · simp [h, count_of_mem_nodup hc h]
    · simp [h, List.count_eq_zero.2 h]
  | nondup ms =>
    simp only [contents, Net.count]
    have hk := hc.2
    clear hc
    induction ms with
    | nil => simp [alookup]
    | cons p ms ih =>
      obtain ⟨e', c⟩ := p
      simp only [List.map_cons, List.nodup_cons] at hk
      simp only [List.flatMap_cons, List.count_append, List.count_replicate, alookup, ih hk.2]
      by_cases h : e = e'
      · subst h
        have : alookup e ms = none := alookup_eq_none.2 hk.1
        simp [this]
      · have : ¬ e' = e := fun x => h x.symm
        simp [h, this]
  | ord flows =>
    simp only [contents, Net.count]
    have hk := hc.2
    clear hc
    induction flows with
    | nil => simp [alookup]
    | cons p fl ih =>
      obtain ⟨⟨s, d⟩, q⟩ := p
      simp only [List.map_cons, List.nodup_cons] at hk
      simp only [List.flatMap_cons, List.count_append, count_map_env, alookup, ih hk.2]
      by_cases h : (e.src, e.dst) = (s, d)
      · have h' : (s, d) = (e.src, e.dst) := h.symm
        have : alookup (s, d) fl = none := alookup_eq_none.2 hk.1
        simp [h, this]
      · have h' : ¬ (s, d) = (e.src, e.dst) := fun x => h x.symm
        simp [h, h']

/-- how one valid operation changes the number of copies of `x` -/
theorem count_apply {n n' : Net} (hc : n.Canon) {op : NetOp} (hv : n.valid op = true) (h : n.apply op = some n')
    (x : Env) :
    match op with
    | .send e => n.count x ≤ n'.count x
    | .deliver e => if n.isDup then n'.count x = n.count x else n'.count x + (if x = e then 1 else 0) = n.count x
    | .drop e => n'.count x + (if x = e then 1 else 0) = n.count x := by
  cases op with
  | send e =>
    simp only [Net.apply, Option.some.injEq] at h
    subst h
    cases n with
    | dup set last =>
      simp only [Net.send, Net.count, mem_sins]
      by_cases h1 : x ∈ set <;> by_cases h2 : x = e <;> simp [h1, h2] <;> split <;> simp
    | nondup ms => have := count_send ms e x; simp only [this]; omega
    | ord flows =>
      simp only [Net.count]
      have := queue_send flows e (x.src, x.dst)
      simp only [Net.queue] at this
      simp only [Net.send] at this ⊢
      rw [this]
      split <;> simp [List.count_append]
  | deliver e =>
    simp only [Net.valid, decide_eq_true_eq] at hv
    cases n with
    | dup set last =>
      simp only [Net.apply, Net.onDeliver, Option.some.injEq] at h
      subst h; simp [Net.isDup, Net.count]
    | nondup ms =>
      simp only [Net.apply, Net.onDeliver] at h
      obtain ⟨_, hcount⟩ := nondup_remove h x
      simp only [Net.isDup, Bool.false_eq_true, if_false]; omega
    | ord flows =>
      simp only [Net.apply, Net.onDeliver] at h
      obtain ⟨ho1, hq, hother⟩ := ord_remove hc hv h
      simp only [Net.isDup, Bool.false_eq_true, if_false]
      cases n' with
      | dup _ _ => simp [Net.isOrdered] at ho1
      | nondup _ => simp [Net.isOrdered] at ho1
      | ord fl' =>
        simp only [Net.count]
        simp only [Net.queue, flowOf] at hq hother
        by_cases hf : (x.src, x.dst) = (e.src, e.dst)
        · rw [hf, hq]
          by_cases hx : x = e
          · subst hx; simp
          · have : ¬ e.msg = x.msg := by
              intro hm; apply hx
              cases x; cases e; simp_all
            simp [hx, List.count_cons, this]
        · rw [hother _ hf]
          have : x ≠ e := by rintro rfl; exact hf rfl
          simp [this]
  | drop e =>
    simp only [Net.valid, decide_eq_true_eq] at hv
    cases n with
    | dup set last =>
      simp only [Net.apply, Net.onDrop, Option.some.injEq] at h
      subst h
      have hmem : e ∈ set := by simpa [Net.iterDeliverable] using hv
      simp only [Net.count, mem_srem]
      by_cases h2 : x = e
      · subst h2; simp [hmem]
      · by_cases h1 : x ∈ set <;> simp [h1, h2]
    | nondup ms =>
      simp only [Net.apply, Net.onDrop] at h
      obtain ⟨_, hcount⟩ := nondup_remove h x
      omega
    | ord flows =>
      simp only [Net.apply, Net.onDrop] at h
      obtain ⟨ho1, hq, hother⟩ := ord_remove hc hv h
      cases n' with
      | dup _ _ => simp [Net.isOrdered] at ho1
      | nondup _ => simp [Net.isOrdered] at ho1
      | ord fl' =>
        simp only [Net.count]
        simp only [Net.queue, flowOf] at hq hother
        by_cases hf : (x.src, x.dst) = (e.src, e.dst)
        · rw [hf, hq]
          by_cases hx : x = e
          · subst hx; simp
          · have : ¬ e.msg = x.msg := by
              intro hm; apply hx
              cases x; cases e; simp_all
            simp [hx, List.count_cons, this]
        · rw [hother _ hf]
          have : x ≠ e := by rintro rfl; exact hf rfl
          simp [this]

end SR.Actor
