import SR.Proofs.SemRecord
/-!
Assembly: the recorded tester of a well-formed history satisfies `Link`; the initial search state
means `IsSerializationOf`; ill-formed histories; `len`. Everything for both values of `rt`.
-/
namespace SR.Sem
open AMap Tester
variable {S Op Ret : Type}

theorem pairwise_zipIdx {α : Type} (l : List α) (k : Nat) : (l.zipIdx k).Pairwise (fun x y => x.2 < y.2) := by
  induction l generalizing k with
  | nil => simp
  | cons a l ih =>
    rw [List.zipIdx_cons]
    refine List.pairwise_cons.2 ⟨?_, ih (k + 1)⟩
    intro x hx
    obtain ⟨x1, x2⟩ := x
    have := List.mem_zipIdx hx
    simp only; omega

def enumItems (cs : List (LC × Op × Ret)) : List (Item Op Ret) := cs.zipIdx.map fun x => (x.2, x.1)

theorem enumQueues_eq (hist : List (Nat × List (LC × Op × Ret))) :
    enumQueues hist = hist.map fun e => (e.1, (fun (_ : Nat) cs => enumItems cs) e.1 e.2) := rfl

theorem mem_enumItems {cs : List (LC × Op × Ret)} {i : Nat} {e : LC × Op × Ret} :
    (i, e) ∈ enumItems cs ↔ cs[i]? = some e := by
  unfold enumItems
  simp only [List.mem_map, Prod.mk.injEq]
  constructor
  · rintro ⟨⟨x1, x2⟩, hm, rfl, rfl⟩
    have := List.mem_zipIdx hm
    simp only [Nat.zero_le, Nat.zero_add, Nat.sub_zero, true_and] at this
    rw [List.getElem?_eq_getElem this.1]; simp only; rw [← this.2]
  · intro h
    refine ⟨(e, i), ?_, rfl, rfl⟩
    obtain ⟨hlt, rfl⟩ := List.getElem?_eq_some_iff.1 h
    have : (cs.zipIdx)[i]? = some (cs[i], i) := by
      rw [List.getElem?_zipIdx, List.getElem?_eq_getElem hlt]; simp
    exact List.mem_of_getElem? this

theorem pairwise_enumItems (cs : List (LC × Op × Ret)) : (enumItems cs).Pairwise (fun x y => x.1 < y.1) := by
  unfold enumItems
  rw [List.pairwise_map]
  exact pairwise_zipIdx cs 0

theorem find?_enumQueues (hist : List (Nat × List (LC × Op × Ret))) (t : Nat) :
    find? t (enumQueues hist) = (find? t hist).map enumItems := by
  rw [enumQueues_eq]
  exact find?_map (fun (_ : Nat) (cs : List (LC × Op × Ret)) => enumItems cs) t hist

section
variable {rt : Bool} {es : List (Event Op Ret)} {T : Tester S Op Ret}

theorem RInv.rets_le_invs (h : RInv rt es T) (t : Nat) : (retsOf es t).length ≤ (invsOf es t).length := by
  cases hf : find? t T.inflight with
  | none => have := h.noinfl t hf; omega
  | some x => have := (h.infl t x.1 x.2 hf).2.1; omega

theorem link_of_rinv (h : RInv rt es T) : Link rt es (enumQueues T.hist) T.inflight := by
  refine ⟨?_, ?_, h.fSorted, ?_, ?_⟩
  · rintro ⟨t, i⟩ ⟨t', j⟩ e ⟨q, p, hq, hp, hlt⟩
    simp only at e; subst e
    exact h.sameThread t i j q p hq hp hlt
  · rw [enumQueues_eq]; exact sorted_map (fun (_ : Nat) (cs : List (LC × Op × Ret)) => enumItems cs) h.hSorted
  · intro t its hf
    rw [find?_enumQueues] at hf
    cases hh : find? t T.hist with
    | none => simp [hh] at hf
    | some cs =>
      simp only [hh, Option.map_some, Option.some.injEq] at hf
      subst hf
      refine ⟨pairwise_enumItems cs, ?_⟩
      intro i lc op r hm
      have := mem_enumItems.1 hm
      have h2 := (h.hist t).2 i lc op r (by rw [hh]; exact this)
      exact h2
  · intro t lc op hf
    obtain ⟨h1, h2, h3, h4⟩ := h.infl t lc op hf
    refine ⟨?_, h3, ?_, h4⟩
    · cases hh : find? t T.hist with
      | none => rw [hh] at h1; cases h1
      | some cs =>
        refine ⟨enumItems cs, by rw [find?_enumQueues, hh]; rfl, ?_⟩
        intro x hx
        obtain ⟨i, e⟩ := x
        have := mem_enumItems.1 hx
        have hlen := (h.hist t).1
        rw [hh] at hlen
        simp only [Option.getD_some] at hlen
        have := (List.getElem?_eq_some_iff.1 this).1
        simp only; omega
    · unfold retAt
      rw [List.getElem?_eq_none (by simp)]; rfl

theorem presentQ_init_iff (h : RInv rt es T) (a : OpId) : PresentQ (enumQueues T.hist) a ↔ IsCompleted es a := by
  unfold PresentQ IsCompleted
  rw [find?_enumQueues]
  have hlen := (h.hist a.1).1
  constructor
  · rintro ⟨its, e, hf, hm⟩
    cases hh : find? a.1 T.hist with
    | none => simp [hh] at hf
    | some cs =>
      simp only [hh, Option.map_some, Option.some.injEq] at hf
      subst hf
      have := (List.getElem?_eq_some_iff.1 (mem_enumItems.1 hm)).1
      rw [hh] at hlen; simp only [Option.getD_some] at hlen
      omega
  · intro hlt
    cases hh : find? a.1 T.hist with
    | none => rw [hh] at hlen; simp at hlen; omega
    | some cs =>
      rw [hh] at hlen; simp only [Option.getD_some] at hlen
      have hi : a.2 < cs.length := by omega
      exact ⟨enumItems cs, cs[a.2], rfl, mem_enumItems.2 (List.getElem?_eq_getElem hi)⟩

theorem present_init_iff (h : RInv rt es T) (a : OpId) :
    (PresentQ (enumQueues T.hist) a ∨ PresentF es T.inflight a) ↔ IsOp es a := by
  rw [presentQ_init_iff h]
  unfold IsCompleted IsOp PresentF
  have hle := h.rets_le_invs a.1
  constructor
  · rintro (h1 | ⟨h1, h2⟩)
    · omega
    · cases hf : find? a.1 T.inflight with
      | none => rw [hf] at h1; cases h1
      | some x => have := (h.infl a.1 x.1 x.2 hf).2.1; omega
  · intro hlt
    by_cases hc : a.2 < (retsOf es a.1).length
    · exact Or.inl hc
    · right
      cases hf : find? a.1 T.inflight with
      | none => have := h.noinfl a.1 hf; omega
      | some x => have := (h.infl a.1 x.1 x.2 hf).2.1; exact ⟨rfl, by omega⟩

theorem sser_init_iff (h : RInv rt es T) (spec : SeqSpec S Op Ret) (obj : S) (ids : List OpId) (l : List (Op × Ret)) :
    SSer rt spec es (enumQueues T.hist) T.inflight obj ids l ↔ IsSerializationOf rt spec obj es ids l := by
  unfold SSer IsSerializationOf
  constructor
  · rintro ⟨h1, h2, h3, h4, h5⟩
    exact ⟨h1, fun a ha => (present_init_iff h a).1 (h2 a ha), fun a ha => h3 a ((presentQ_init_iff h a).2 ha), h4, h5⟩
  · rintro ⟨h1, h2, h3, h4, h5⟩
    exact ⟨h1, fun a ha => (present_init_iff h a).2 (h2 a ha), fun a ha => h3 a ((presentQ_init_iff h a).1 ha), h4, h5⟩

end

theorem measure_init (T : Tester S Op Ret) : measure (enumQueues T.hist) T.inflight = T.len := by
  unfold measure Tester.len enumQueues
  rw [List.map_map]
  have : ((fun e : Nat × List (Item Op Ret) => e.2.length) ∘ fun e : Nat × List (LC × Op × Ret) => (e.1, e.2.zipIdx.map fun x => (x.2, x.1)))
      = fun e => e.2.length := by
    funext e; simp
  rw [this]; omega

/-! ### ill-formed histories -/
theorem results_append (rt : Bool) (T : Tester S Op Ret) (l1 l2 : List (Event Op Ret)) :
    results rt T (l1 ++ l2) = results rt T l1 ++ results rt (l1.foldl (fun T e => (step rt T e).1) T) l2 := by
  induction l1 generalizing T with
  | nil => rfl
  | cons e l1 ih => simp [results, ih]

theorem record_append (rt : Bool) (s0 : S) (l1 l2 : List (Event Op Ret)) :
    record rt s0 (l1 ++ l2) = l2.foldl (fun T e => (step rt T e).1) (record rt s0 l1) := by
  simp [record, List.foldl_append]

theorem step_invalid (rt : Bool) (T : Tester S Op Ret) (hv : T.valid = false) (e : Event Op Ret) :
    step rt T e = (T, Res.errEarlier) := by
  cases e <;> simp [step, onInvoke, onReturn, hv]

theorem fold_invalid (rt : Bool) (T : Tester S Op Ret) (hv : T.valid = false) (l : List (Event Op Ret)) :
    l.foldl (fun T e => (step rt T e).1) T = T ∧ results rt T l = List.replicate l.length Res.errEarlier := by
  induction l with
  | nil => exact ⟨rfl, rfl⟩
  | cons e l ih =>
    simp only [List.foldl_cons, results, step_invalid rt T hv e, List.length_cons, List.replicate_succ]
    exact ⟨ih.1, by rw [ih.2]⟩

theorem results_wellFormed {rt : Bool} (s0 : S) : ∀ es : List (Event Op Ret), WellFormed es →
    results rt (Tester.new s0) es = List.replicate es.length Res.ok := by
  intro es
  induction es using snoc_induction with
  | nil => intro _; rfl
  | snoc es e ih =>
    intro hwf
    obtain ⟨h1, h2⟩ := wellFormed_snoc.1 hwf
    rw [results_append, ih h1]
    have := (rinv_step (rinv_record (rt := rt) s0 es h1) e h2).2
    simp only [results, List.length_append, List.length_singleton, List.replicate_succ']
    congr 2

/-- the error an inadmissible event produces -/
def errOf : Event Op Ret → Res
  | .inv _ _ => Res.errInFlight
  | .ret _ _ => Res.errNoInFlight

theorem step_inadmissible {rt : Bool} {es : List (Event Op Ret)} {T : Tester S Op Ret} (h : RInv rt es T)
    (e : Event Op Ret) (hadm : ¬ Admissible es e) : (step rt T e).1.valid = false ∧ (step rt T e).2 = errOf e := by
  cases e with
  | inv t op =>
    have hfl : (find? t T.inflight).isSome = true := by
      apply (h.inFlight_iff t).1
      unfold Admissible at hadm
      exact Classical.not_not.1 hadm
    cases hf : find? t T.inflight with
    | none => rw [hf] at hfl; cases hfl
    | some x => simp [step, onInvoke, h.valid, hf, errOf]
  | ret t r =>
    have hfl : find? t T.inflight = none := by
      cases hf : find? t T.inflight with
      | none => rfl
      | some x => exact absurd ((h.inFlight_iff t).2 (by rw [hf]; rfl)) hadm
    simp [step, onReturn, h.valid, hfl, errOf]

theorem exists_first_illformed : ∀ es : List (Event Op Ret), WellFormed es ∨
    ∃ p e q, es = p ++ e :: q ∧ WellFormed p ∧ ¬ Admissible p e := by
  intro es
  induction es using snoc_induction with
  | nil => exact Or.inl wellFormed_nil
  | snoc es e ih =>
    rcases ih with h | ⟨p, e', q, rfl, h1, h2⟩
    · by_cases ha : Admissible es e
      · exact Or.inl (wellFormed_snoc.2 ⟨h, ha⟩)
      · exact Or.inr ⟨es, e, [], rfl, h, ha⟩
    · exact Or.inr ⟨p, e', q ++ [e], by simp, h1, h2⟩

theorem illformed_record {rt : Bool} (s0 : S) {p q : List (Event Op Ret)} {e : Event Op Ret}
    (hp : WellFormed p) (he : ¬ Admissible p e) :
    (record rt s0 (p ++ e :: q)).valid = false ∧
    results rt (Tester.new s0) (p ++ e :: q) =
      List.replicate p.length Res.ok ++ errOf e :: List.replicate q.length Res.errEarlier := by
  have hI := rinv_record (rt := rt) s0 p hp
  obtain ⟨hv, hr⟩ := step_inadmissible hI e he
  have hfold := fold_invalid rt _ hv q
  constructor
  · rw [record_append]
    simp only [List.foldl_cons]
    rw [hfold.1]; exact hv
  · rw [results_append, results_wellFormed s0 p hp]
    congr 1
    simp only [results]
    rw [show List.foldl (fun T e => (step rt T e).1) (Tester.new s0) p = record rt s0 p from rfl, hr, hfold.2]

theorem wellFormed_not_of_split {p q : List (Event Op Ret)} {e : Event Op Ret} (he : ¬ Admissible p e) :
    ¬ WellFormed (p ++ e :: q) := fun h => he (h p e q rfl)

theorem record_valid_iff {rt : Bool} (s0 : S) (es : List (Event Op Ret)) :
    (record rt s0 es).valid = true ↔ WellFormed es := by
  constructor
  · intro hv
    rcases exists_first_illformed es with h | ⟨p, e, q, rfl, h1, h2⟩
    · exact h
    · rw [(illformed_record s0 h1 h2).1] at hv; cases hv
  · intro h; exact (rinv_record s0 es h).valid

/-! ### the three main facts, for both values of `rt` -/
theorem record_init (rt : Bool) (s0 : S) (es : List (Event Op Ret)) : (record rt s0 es).init = s0 := by
  induction es using snoc_induction with
  | nil => rfl
  | snoc es e ih =>
    rw [record_snoc]
    cases e <;> simp only [step, onInvoke, onReturn] <;> (repeat' split) <;> simp_all

theorem tester_sound {rt : Bool} {spec : SeqSpec S Op Ret} (hlaw : spec.Lawful) (s0 : S) (es : List (Event Op Ret))
    (l : List (Op × Ret)) (h : serializedHistory spec (record rt s0 es) = some l) :
    IsSerialization rt spec s0 es l := by
  unfold serializedHistory at h
  by_cases hv : (record rt s0 es).valid = true
  · simp only [hv, Bool.not_true, Bool.false_eq_true, if_false] at h
    have hI := rinv_record (rt := rt) s0 es ((record_valid_iff s0 es).1 hv)
    obtain ⟨ids, l2, e1, hS⟩ := serialize_sound hlaw _ _ _ _ _ _ (link_of_rinv hI) h
    simp only [List.nil_append] at e1
    subst e1
    rw [record_init] at hS
    exact ⟨ids, (sser_init_iff hI spec s0 ids l).1 hS⟩
  · simp [hv] at h

theorem tester_complete {rt : Bool} {spec : SeqSpec S Op Ret} (hlaw : spec.Lawful) (s0 : S) (es : List (Event Op Ret))
    (hwf : WellFormed es) (l : List (Op × Ret)) (h : IsSerialization rt spec s0 es l) :
    (serializedHistory spec (record rt s0 es)).isSome = true := by
  obtain ⟨ids, hS⟩ := h
  have hI := rinv_record (rt := rt) s0 es hwf
  unfold serializedHistory
  simp only [hI.valid, Bool.not_true, Bool.false_eq_true, if_false]
  rw [record_init]
  refine serialize_complete hlaw _ _ _ _ _ ids l (link_of_rinv hI) ((sser_init_iff hI spec s0 ids l).2 hS) ?_
  rw [measure_init]; omega

theorem tester_illformed_none {rt : Bool} (spec : SeqSpec S Op Ret) (s0 : S) (es : List (Event Op Ret))
    (h : ¬ WellFormed es) : serializedHistory spec (record rt s0 es) = none := by
  have : (record rt s0 es).valid = false := by
    cases hv : (record rt s0 es).valid with
    | false => rfl
    | true => exact absurd ((record_valid_iff s0 es).1 hv) h
  simp [serializedHistory, this]

/-! ### `len` -/
def isInv : Event Op Ret → Bool
  | .inv _ _ => true
  | .ret _ _ => false

theorem length_upsert_of_none {β : Type} {k : Nat} {v : β} {m : List (Nat × β)} (h : find? k m = none) :
    (upsert k v m).length = m.length + 1 := by
  induction m with
  | nil => rfl
  | cons e r ih =>
    obtain ⟨k0, v0⟩ := e
    simp only [find?_cons] at h
    by_cases h0 : k0 = k
    · simp [h0] at h
    · simp only [h0, if_false] at h
      simp only [upsert]
      by_cases h1 : k < k0
      · simp [h1]
      · have h2 : ¬ k = k0 := fun e => h0 e.symm
        simp [h1, h2, ih h]

theorem sum_upsert_of_none {β : Type} {k : Nat} {v : List β} {m : List (Nat × List β)} (h : find? k m = none) :
    ((upsert k v m).map fun e => e.2.length).sum = (m.map fun e => e.2.length).sum + v.length := by
  induction m with
  | nil => simp [upsert]
  | cons e r ih =>
    obtain ⟨k0, v0⟩ := e
    simp only [find?_cons] at h
    by_cases h0 : k0 = k
    · simp [h0] at h
    · simp only [h0, if_false] at h
      simp only [upsert]
      by_cases h1 : k < k0
      · simp [h1]; omega
      · have h2 : ¬ k = k0 := fun e => h0 e.symm
        simp [h1, h2, ih h]; omega

theorem sum_upsert_of_some {β : Type} {k : Nat} {v old : List β} {m : List (Nat × List β)} (hs : Sorted m)
    (h : find? k m = some old) :
    ((upsert k v m).map fun e => e.2.length).sum + old.length = (m.map fun e => e.2.length).sum + v.length := by
  induction m with
  | nil => simp at h
  | cons e r ih =>
    obtain ⟨k0, v0⟩ := e
    obtain ⟨hlt, hr⟩ := sorted_cons.1 hs
    simp only [upsert]
    by_cases h1 : k < k0
    · exfalso
      have : find? k ((k0, v0) :: r) = none := find?_eq_none_of_lt (by
        intro k' hk'; simp [keys] at hk'
        rcases hk' with rfl | ⟨x, hx⟩
        · exact h1
        · have := hlt k' (by simp [keys]; exact ⟨x, hx⟩); omega)
      rw [this] at h; cases h
    · simp only [h1, if_false]
      by_cases h2 : k = k0
      · subst h2
        simp only [find?_cons, if_true, Option.some.injEq] at h
        subst h
        simp only [if_true, List.map_cons, List.sum_cons]; omega
      · have h3 : k0 ≠ k := fun e => h2 e.symm
        simp only [find?_cons, h3, if_false] at h
        simp only [h2, if_false, List.map_cons, List.sum_cons]
        have := ih hr h; omega

/-- `len` counts the completed operations (= return events) plus the in-flight ones, i.e. the
    invocation events -/
theorem len_record {rt : Bool} (s0 : S) : ∀ es : List (Event Op Ret), WellFormed es →
    ((record rt s0 es).hist.map fun e => e.2.length).sum = (es.filter fun e => !isInv e).length ∧
    (record rt s0 es).inflight.length + (es.filter fun e => !isInv e).length = (es.filter isInv).length := by
  intro es
  induction es using snoc_induction with
  | nil => intro _; simp [record, Tester.new]
  | snoc es e ih =>
    intro hwf
    obtain ⟨h1, h2⟩ := wellFormed_snoc.1 hwf
    obtain ⟨ih1, ih2⟩ := ih h1
    have hI := rinv_record (rt := rt) s0 es h1
    rw [record_snoc]
    cases e with
    | inv t op =>
      have hnf : find? t (record rt s0 es).inflight = none := by
        cases hf : find? t (record rt s0 es).inflight with
        | none => rfl
        | some x => exact absurd ((hI.inFlight_iff t).2 (by rw [hf]; rfl)) h2
      simp only [step, onInvoke, hI.valid, Bool.not_true, Bool.false_eq_true, if_false, hnf,
        List.filter_append, List.length_append]
      have hh : ((orInsert t [] (record rt s0 es).hist).map fun e => e.2.length).sum =
          ((record rt s0 es).hist.map fun e => e.2.length).sum := by
        unfold orInsert
        cases hf : find? t (record rt s0 es).hist with
        | some x => rfl
        | none => simp only; rw [sum_upsert_of_none hf]; simp
      have e1 : (List.filter isInv [(Event.inv t op : Event Op Ret)]).length = 1 := rfl
      have e2 : (List.filter (fun e => !isInv e) [(Event.inv t op : Event Op Ret)]).length = 0 := rfl
      have e3 := length_upsert_of_none (v := (lastCompleted rt (record rt s0 es).hist t, op)) hnf
      refine ⟨?_, ?_⟩
      · show ((orInsert t [] (record rt s0 es).hist).map fun e => e.2.length).sum = _
        rw [hh, e2]; omega
      · show (upsert t (lastCompleted rt (record rt s0 es).hist t, op) (record rt s0 es).inflight).length + _ = _
        rw [e1, e2, e3]; omega
    | ret t r =>
      have hfl : (find? t (record rt s0 es).inflight).isSome = true := (hI.inFlight_iff t).1 h2
      cases hf : find? t (record rt s0 es).inflight with
      | none => rw [hf] at hfl; cases hfl
      | some lcop =>
        simp only [step, onReturn, hI.valid, Bool.not_true, Bool.false_eq_true, if_false, hf,
          List.filter_append, List.length_append]
        have hle := length_erase (k := t) (m := (record rt s0 es).inflight) (by rw [hf]; rfl)
        have hh : ((upsert t ((find? t (record rt s0 es).hist).getD [] ++ [(lcop.1, lcop.2, r)]) (record rt s0 es).hist).map
            fun e => e.2.length).sum = ((record rt s0 es).hist.map fun e => e.2.length).sum + 1 := by
          cases hh : find? t (record rt s0 es).hist with
          | none => rw [sum_upsert_of_none hh]; simp
          | some old =>
            have := sum_upsert_of_some (v := old ++ [(lcop.1, lcop.2, r)]) hI.hSorted hh
            simp only [Option.getD_some, List.length_append, List.length_singleton] at this ⊢
            omega
        have e1 : (List.filter isInv [(Event.ret t r : Event Op Ret)]).length = 0 := rfl
        have e2 : (List.filter (fun e => !isInv e) [(Event.ret t r : Event Op Ret)]).length = 1 := rfl
        refine ⟨?_, ?_⟩
        · show ((upsert t ((find? t (record rt s0 es).hist).getD [] ++ [(lcop.1, lcop.2, r)]) (record rt s0 es).hist).map
            fun e => e.2.length).sum = _
          rw [hh, e2]; omega
        · show (erase t (record rt s0 es).inflight).length + _ = _
          rw [e1, e2]; omega

theorem len_eq {rt : Bool} (s0 : S) (es : List (Event Op Ret)) (hwf : WellFormed es) :
    (record rt s0 es).len = (es.filter isInv).length := by
  obtain ⟨h1, h2⟩ := len_record (rt := rt) s0 es hwf
  unfold Tester.len; omega

end SR.Sem
