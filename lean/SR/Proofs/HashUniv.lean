import SR.Proofs.HashBytes
import SR.Proofs.VClock
/-! The two directions of C04 over the whole universe, by induction on the type code. -/
namespace SR.Hash
open List

/-! ### pending random choices -/

theorem pendingFrom_map {α β} (f : α → β) : ∀ (i : Nat) (l : List (List α)),
    pendingFrom i (l.map fun m => m.map f) = (pendingFrom i l).map fun p => (p.1, p.2.map f)
  | _, [] => rfl
  | i, m :: ms => by
    cases m with
    | nil => simp [pendingFrom, pendingFrom_map f (i + 1) ms]
    | cons a m => simp [pendingFrom, pendingFrom_map f (i + 1) ms]

theorem mem_pendingFrom {α} : ∀ (i : Nat) (l : List (List α)) (p : Nat × List α),
    p ∈ pendingFrom i l → i ≤ p.1 ∧ p.1 < i + l.length ∧ p.2 ∈ l
  | _, [], p, h => by simp [pendingFrom] at h
  | i, m :: ms, p, h => by
    unfold pendingFrom at h
    split at h
    · obtain ⟨a, b, c⟩ := mem_pendingFrom (i + 1) ms p h
      exact ⟨by omega, by simp only [List.length_cons]; omega, by simp [c]⟩
    · rcases List.mem_cons.1 h with rfl | h
      · simp
      · obtain ⟨a, b, c⟩ := mem_pendingFrom (i + 1) ms p h
        exact ⟨by omega, by simp only [List.length_cons]; omega, by simp [c]⟩

theorem pendingFrom_length_le {α} : ∀ (i : Nat) (l : List (List α)), (pendingFrom i l).length ≤ l.length
  | _, [] => by simp [pendingFrom]
  | i, m :: ms => by
    have := pendingFrom_length_le (i + 1) ms
    unfold pendingFrom; split <;> simp <;> omega

theorem flat_choicesToks (h : List Tok → UInt64) (maps : List (List (List Tok))) :
    flat (choicesToks h maps) =
      le 8 (pendingFrom 0 maps).length ++
        (pendingFrom 0 maps).flatMap fun p => le 8 p.1 ++ flat (setToks h p.2) := by
  simp only [choicesToks, flat_cons, Tok.flat]
  congr 1
  generalize pendingFrom 0 maps = pl
  induction pl with
  | nil => rfl
  | cons p pl ih => simp [flat_append, flat_cons, Tok.flat, ih]

theorem flatMap_congr_all2 {α β} {R : α → α → Prop} {g : α → List β} :
    ∀ {l1 l2 : List α}, (∀ a ∈ l1, ∀ b ∈ l2, R a b → g a = g b) → All2 R l1 l2 → l1.flatMap g = l2.flatMap g
  | [], [], _, _ => rfl
  | a :: l1, b :: l2, H, h => by
    simp only [List.flatMap_cons]
    rw [H a (by simp) b (by simp) h.1,
      flatMap_congr_all2 (fun a' ha b' hb => H a' (by simp [ha]) b' (by simp [hb])) h.2]
  | [], _ :: _, _, h => by cases h
  | _ :: _, [], _, h => by cases h

/-! ### equal values feed equal streams -/

theorem seqToks_congr {α} {R : α → α → Prop} (blk : Bool) (f : α → List Tok) (l1 l2 : List α)
    (H : ∀ a ∈ l1, ∀ b ∈ l2, R a b → f a = f b) (h : All2 R l1 l2) :
    seqToks blk (l1.map f) = seqToks blk (l2.map f) := by
  rw [map_eq_of_all2 H h]

theorem toks_resp (h : List Tok → UInt64) : ∀ (τ : Ty) (a b : Val τ), Equiv τ a b → toks h τ a = toks h τ b := by
  intro τ
  induction τ with
  | unit => intro a b _; rfl
  | bool => intro a b e; simp only [Equiv] at e; subst e; rfl
  | u8 => intro a b e; simp only [Equiv] at e; subst e; rfl
  | u32 => intro a b e; simp only [Equiv] at e; subst e; rfl
  | u64 => intro a b e; simp only [Equiv] at e; subst e; rfl
  | usize => intro a b e; simp only [Equiv] at e; subst e; rfl
  | id => intro a b e; simp only [Equiv] at e; subst e; rfl
  | str => intro a b e; simp only [Equiv] at e; subst e; rfl
  | arc t ih => intro a b e; simp only [Equiv] at e; simp only [toks]; exact ih a b e
  | tup s t ihs iht =>
    intro a b e; simp only [Equiv] at e; simp only [toks]
    rw [ihs _ _ e.1, iht _ _ e.2]
  | enum2 s t ihs iht =>
    intro a b e
    cases a <;> cases b <;> simp only [Equiv] at e <;> simp only [toks]
    · rw [ihs _ _ e]
    · rw [iht _ _ e]
  | enum3 s t u ihs iht ihu =>
    intro a b e
    rcases a with a | a | a <;> rcases b with b | b | b <;> simp only [Equiv] at e <;> simp only [toks]
    · rw [ihs _ _ e]
    · rw [iht _ _ e]
    · rw [ihu _ _ e]
  | vec t ih =>
    intro a b e; simp only [Equiv] at e; simp only [toks]
    exact seqToks_congr _ _ a b (fun x _ y _ r => ih x y r) e
  | deque t ih =>
    intro a b e; simp only [Equiv] at e; simp only [toks]
    exact seqToks_congr _ _ a b (fun x _ y _ r => ih x y r) e
  | bset t ih =>
    intro a b e; simp only [Equiv] at e; simp only [toks]
    exact seqToks_congr _ _ a b (fun x _ y _ r => ih x y r) e
  | bmap k v ihk ihv =>
    intro a b e; simp only [Equiv] at e; simp only [toks]
    exact seqToks_congr _ _ a b (fun x _ y _ r => by rw [ihk _ _ r.1, ihv _ _ r.2]) e
  | hset t ih =>
    intro a b e; simp only [Equiv] at e; simp only [toks]
    exact setToks_congr h _ _ a b (fun x _ y _ r => ih x y r) e
  | hmap k v ihk ihv =>
    intro a b e; simp only [Equiv] at e; simp only [toks]
    exact setToks_congr h _ _ a b (fun x _ y _ r => by rw [ihk _ _ r.1, ihv _ _ r.2]) e
  | vclock =>
    intro a b e; simp only [Equiv] at e; simp only [toks]
    rw [VClock.trim_congr e]
  | choices r ih =>
    intro a b e; simp only [Equiv] at e; simp only [toks, choicesToks]
    have ea := pendingFrom_map
      (fun (p : List Nat × List (Val r)) => strToks p.1 ++ seqToks r.isBlock (p.2.map (toks h r))) 0 a
    have eb := pendingFrom_map
      (fun (p : List Nat × List (Val r)) => strToks p.1 ++ seqToks r.isBlock (p.2.map (toks h r))) 0 b
    rw [ea, eb]
    have key : ∀ p ∈ pendingFrom 0 a, ∀ q ∈ pendingFrom 0 b,
        (p.1 = q.1 ∧ PermBy (fun e f => e.1 = f.1 ∧ All2 (Equiv r) e.2 f.2) p.2 q.2) →
        (Tok.usize p.1 :: setToks h (p.2.map fun e => strToks e.1 ++ seqToks r.isBlock (e.2.map (toks h r)))) =
        (Tok.usize q.1 :: setToks h (q.2.map fun e => strToks e.1 ++ seqToks r.isBlock (e.2.map (toks h r)))) := by
      intro p _ q _ hpq
      rw [hpq.1]
      congr 1
      apply setToks_congr h _ _ _ _ _ hpq.2
      intro x _ y _ rxy
      rw [rxy.1, seqToks_congr _ _ _ _ (fun u _ w _ ruw => ih u w ruw) rxy.2]
    simp only [List.length_map, List.flatMap_map]
    rw [all2_length e, flatMap_congr_all2 key e]


/-! ### distinct values feed distinct byte streams (and every stream is self-delimiting) -/

theorem pow1 : (256 : Nat) ^ 1 = 2 ^ 8 := by decide
theorem pow4 : (256 : Nat) ^ 4 = 2 ^ 32 := by decide
theorem pow8 : (256 : Nat) ^ 8 = 2 ^ 64 := by decide

theorem core8 {n m : Nat} (hn : n < 2 ^ 64) (hm : m < 2 ^ 64) : Core (le 8) Eq n m :=
  core_le (by rw [pow8]; exact hn) (by rw [pow8]; exact hm)

theorem trim_sub : ∀ (c : VClock.Clock), (∀ x ∈ VClock.trim c, x ∈ c) ∧ (VClock.trim c).length ≤ c.length
  | [] => by simp [VClock.trim]
  | x :: xs => by
    obtain ⟨h1, h2⟩ := trim_sub xs
    rw [VClock.trim_cons]
    split
    · simp
    · constructor
      · intro y hy
        rcases List.mem_cons.1 hy with rfl | hy
        · simp
        · simp [h1 y hy]
      · simp; omega

/-- the discriminant of a derived enum separates the variants -/
theorem core_disc {α β} {g1 : α → List Nat} {g2 : β → List Nat} (d1 d2 : Nat) (h1 : d1 < 2 ^ 64) (h2 : d2 < 2 ^ 64)
    (a : α) (b : β) (x y : List Nat) (h : le 8 d1 ++ (g1 a ++ x) = le 8 d2 ++ (g2 b ++ y)) :
    d1 = d2 ∧ g1 a ++ x = g2 b ++ y := core8 h1 h2 _ _ h

theorem core_entry (h : List Tok → UInt64) (P : List Tok → Prop) (r : Ty)
    (ih : ∀ (a b : Val r), WF h P r a → WF h P r b → Core (fun v => flat (toks h r v)) (Equiv r) a b)
    (e f : List Nat × List (Val r))
    (we : StrOk e.1 ∧ LenOk e.2 ∧ AllMem (WF h P r) e.2) (wf : StrOk f.1 ∧ LenOk f.2 ∧ AllMem (WF h P r) f.2)
    (heq : strToks e.1 ++ seqToks r.isBlock (e.2.map (toks h r)) = strToks f.1 ++ seqToks r.isBlock (f.2.map (toks h r))) :
    e.1 = f.1 ∧ All2 (Equiv r) e.2 f.2 := by
  have hf := congrArg flat heq
  simp only [flat_append, flat_strToks, flat_seqToks, List.length_map, List.flatMap_map] at hf
  have hf' : (e.1 ++ [255]) ++ (le 8 e.2.length ++ (e.2.flatMap (fun v => flat (toks h r v)) ++ [])) =
      (f.1 ++ [255]) ++ (le 8 f.2.length ++ (f.2.flatMap (fun v => flat (toks h r v)) ++ [])) := by
    simpa using hf
  obtain ⟨e1, rest⟩ := core_str e.1 f.1 we.1 wf.1 _ _ hf'
  obtain ⟨e2, _⟩ := core_lseq (g := fun v => flat (toks h r v)) (R := Equiv r) e.2 f.2 we.2.1 wf.2.1
    (fun a ha b hb => ih a b (we.2.2 a ha) (wf.2.2 b hb)) [] [] rest
  exact ⟨e1, e2⟩

theorem core_all (h : List Tok → UInt64) (P : List Tok → Prop) (hinj : InjOnP h P) :
    ∀ (τ : Ty) (a b : Val τ), WF h P τ a → WF h P τ b →
      Core (fun v => flat (toks h τ v)) (Equiv τ) a b := by
  intro τ
  induction τ with
  | unit =>
    intro a b _ _ x y hxy
    simp only [toks, flat_nil, List.nil_append] at hxy
    exact ⟨trivial, hxy⟩
  | bool =>
    intro a b _ _ x y hxy
    simp only [toks, flat_cons, Tok.flat, flat_nil, List.append_nil] at hxy
    simp only [Equiv]
    cases a <;> cases b <;> simp [le] at hxy <;> simp [hxy]
  | u8 =>
    intro a b wa wb x y hxy
    simp only [toks, flat_cons, Tok.flat, flat_nil, List.append_nil] at hxy
    simp only [WF, NatLt] at wa wb
    simp only [Equiv]
    exact core_le (w := 1) (by rw [pow1]; exact wa) (by rw [pow1]; exact wb) x y hxy
  | u32 =>
    intro a b wa wb x y hxy
    simp only [toks, flat_cons, Tok.flat, flat_nil, List.append_nil] at hxy
    simp only [WF, NatLt] at wa wb
    simp only [Equiv]
    exact core_le (w := 4) (by rw [pow4]; exact wa) (by rw [pow4]; exact wb) x y hxy
  | u64 =>
    intro a b wa wb x y hxy
    simp only [toks, flat_cons, Tok.flat, flat_nil, List.append_nil] at hxy
    simp only [WF, NatLt] at wa wb
    simp only [Equiv]
    exact core8 wa wb x y hxy
  | usize =>
    intro a b wa wb x y hxy
    simp only [toks, flat_cons, Tok.flat, flat_nil, List.append_nil] at hxy
    simp only [WF, NatLt] at wa wb
    simp only [Equiv]
    exact core8 wa wb x y hxy
  | id =>
    intro a b wa wb x y hxy
    simp only [toks, flat_cons, Tok.flat, flat_nil, List.append_nil] at hxy
    simp only [WF, NatLt] at wa wb
    simp only [Equiv]
    exact core8 wa wb x y hxy
  | str =>
    intro a b wa wb x y hxy
    simp only [toks, flat_strToks] at hxy
    simp only [WF] at wa wb
    simp only [Equiv]
    exact core_str a b wa wb x y hxy
  | arc t ih =>
    intro a b wa wb x y hxy
    simp only [toks] at hxy
    simp only [WF] at wa wb
    simp only [Equiv]
    exact ih a b wa wb x y hxy
  | tup s t ihs iht =>
    intro a b wa wb x y hxy
    simp only [toks, flat_append, List.append_assoc] at hxy
    simp only [WF] at wa wb
    simp only [Equiv]
    obtain ⟨r1, r2, e⟩ := core_append (ihs a.1 b.1 wa.1 wb.1) (iht a.2 b.2 wa.2 wb.2) x y hxy
    exact ⟨⟨r1, r2⟩, e⟩
  | enum2 s t ihs iht =>
    intro a b wa wb x y hxy
    cases a <;> cases b <;> simp only [toks, flat_discToks, List.append_assoc] at hxy <;>
      simp only [WF] at wa wb <;> simp only [Equiv] <;>
      obtain ⟨d, hxy'⟩ := core_disc _ _ (by decide) (by decide) _ _ x y hxy
    · exact ihs _ _ wa wb x y hxy'
    · cases d
    · cases d
    · exact iht _ _ wa wb x y hxy'
  | enum3 s t u ihs iht ihu =>
    intro a b wa wb x y hxy
    rcases a with a | a | a <;> rcases b with b | b | b <;>
      simp only [toks, flat_discToks, List.append_assoc] at hxy <;>
      simp only [WF] at wa wb <;> simp only [Equiv] <;>
      obtain ⟨d, hxy'⟩ := core_disc _ _ (by decide) (by decide) _ _ x y hxy
    · exact ihs _ _ wa wb x y hxy'
    · cases d
    · cases d
    · cases d
    · exact iht _ _ wa wb x y hxy'
    · cases d
    · cases d
    · cases d
    · exact ihu _ _ wa wb x y hxy'
  | vec t ih =>
    intro (a : List (Val t)) (b : List (Val t)) wa wb x y hxy
    simp only [toks, flat_seqToks, List.length_map, List.flatMap_map, List.append_assoc] at hxy
    simp only [WF] at wa wb
    simp only [Equiv]
    exact core_lseq (g := fun v => flat (toks h t v)) a b wa.1 wb.1
      (fun p hp q hq => ih p q (wa.2 p hp) (wb.2 q hq)) x y hxy
  | deque t ih =>
    intro (a : List (Val t)) (b : List (Val t)) wa wb x y hxy
    simp only [toks, flat_seqToks, List.length_map, List.flatMap_map, List.append_assoc] at hxy
    simp only [WF] at wa wb
    simp only [Equiv]
    exact core_lseq (g := fun v => flat (toks h t v)) a b wa.1 wb.1
      (fun p hp q hq => ih p q (wa.2 p hp) (wb.2 q hq)) x y hxy
  | bset t ih =>
    intro (a : List (Val t)) (b : List (Val t)) wa wb x y hxy
    simp only [toks, flat_seqToks, List.length_map, List.flatMap_map, List.append_assoc] at hxy
    simp only [WF] at wa wb
    simp only [Equiv]
    exact core_lseq (g := fun v => flat (toks h t v)) a b wa.1 wb.1
      (fun p hp q hq => ih p q (wa.2 p hp) (wb.2 q hq)) x y hxy
  | bmap k v ihk ihv =>
    intro (a : List (Val k × Val v)) (b : List (Val k × Val v)) wa wb x y hxy
    simp only [toks, flat_seqToks, List.length_map, List.flatMap_map, List.append_assoc] at hxy
    simp only [WF] at wa wb
    simp only [Equiv]
    refine core_lseq (g := fun (p : Val k × Val v) => flat (toks h k p.1 ++ toks h v p.2)) a b wa.1 wb.1 ?_ x y hxy
    intro p hp q hq x' y' h'
    simp only [flat_append, List.append_assoc] at h'
    obtain ⟨r1, r2, e⟩ := core_append (ihk p.1 q.1 (wa.2 p hp).1 (wb.2 q hq).1)
      (ihv p.2 q.2 (wa.2 p hp).2 (wb.2 q hq).2) x' y' h'
    exact ⟨⟨r1, r2⟩, e⟩
  | hset t ih =>
    intro (a : List (Val t)) (b : List (Val t)) wa wb
    simp only [WF] at wa wb
    simp only [Equiv, toks]
    refine core_set h P hinj (toks h t) (Equiv t) a b wa.1 wb.1
      (fun p hp => (wa.2 p hp).2) (fun q hq => (wb.2 q hq).2) ?_
    intro p hp q hq e
    exact (ih p q (wa.2 p hp).1 (wb.2 q hq).1 [] []
      (by show flat (toks h t p) ++ [] = flat (toks h t q) ++ []; rw [e])).1
  | hmap k v ihk ihv =>
    intro (a : List (Val k × Val v)) (b : List (Val k × Val v)) wa wb
    simp only [WF] at wa wb
    simp only [Equiv, toks]
    refine core_set h P hinj (fun (p : Val k × Val v) => toks h k p.1 ++ toks h v p.2) _ a b wa.1 wb.1
      (fun p hp => (wa.2 p hp).2.2) (fun q hq => (wb.2 q hq).2.2) ?_
    intro p hp q hq e
    have e' := congrArg flat e
    simp only [flat_append] at e'
    have e'' : flat (toks h k p.1) ++ (flat (toks h v p.2) ++ []) = flat (toks h k q.1) ++ (flat (toks h v q.2) ++ []) := by
      simpa using e'
    obtain ⟨r1, r2, _⟩ := core_append (ihk p.1 q.1 (wa.2 p hp).1 (wb.2 q hq).1)
      (ihv p.2 q.2 (wa.2 p hp).2.1 (wb.2 q hq).2.1) [] [] e''
    exact ⟨r1, r2⟩
  | vclock =>
    intro (a : List Nat) (b : List Nat) wa wb x y hxy
    simp only [toks, flat_seqToks, List.length_map, List.flatMap_map, List.append_assoc] at hxy
    simp only [WF] at wa wb
    simp only [Equiv]
    have hg : (fun (x : Nat) => flat [Tok.u32 x]) = le 4 := by
      funext x; simp [flat_cons, Tok.flat, flat_nil]
    rw [hg] at hxy
    obtain ⟨sa, la⟩ := trim_sub a
    obtain ⟨sb, lb⟩ := trim_sub b
    obtain ⟨e, exy⟩ := core_lseq (g := le 4) (R := Eq) (VClock.trim a) (VClock.trim b)
      (by unfold LenOk at *; omega) (by unfold LenOk at *; omega)
      (fun p hp q hq => core_le (w := 4) (by rw [pow4]; exact wa.2 p (sa p hp)) (by rw [pow4]; exact wb.2 q (sb q hq)))
      x y hxy
    refine ⟨?_, exy⟩
    intro i
    rw [← VClock.get0_trim a i, ← VClock.get0_trim b i, all2_eq e]
  | choices r ih =>
    intro (a : List (List (List Nat × List (Val r)))) (b : List (List (List Nat × List (Val r)))) wa wb x y hxy
    simp only [WF] at wa wb
    simp only [Equiv]
    simp only [toks, flat_choicesToks] at hxy
    have ea := pendingFrom_map
      (fun (p : List Nat × List (Val r)) => strToks p.1 ++ seqToks r.isBlock (p.2.map (toks h r))) 0 a
    have eb := pendingFrom_map
      (fun (p : List Nat × List (Val r)) => strToks p.1 ++ seqToks r.isBlock (p.2.map (toks h r))) 0 b
    rw [ea, eb] at hxy
    simp only [List.length_map, List.flatMap_map, List.append_assoc] at hxy
    have la := pendingFrom_length_le 0 a
    have lb := pendingFrom_length_le 0 b
    refine core_lseq
      (g := fun (p : Nat × List (List Nat × List (Val r))) => le 8 p.1 ++ flat (setToks h
        (p.2.map fun e => strToks e.1 ++ seqToks r.isBlock (e.2.map (toks h r)))))
      (pendingFrom 0 a) (pendingFrom 0 b)
      (by unfold LenOk at *; omega) (by unfold LenOk at *; omega) ?_ x y hxy
    intro p hp q hq x' y' h'
    obtain ⟨_, pi, pm⟩ := mem_pendingFrom 0 a p hp
    obtain ⟨_, qi, qm⟩ := mem_pendingFrom 0 b q hq
    have wp := wa.2 p.2 pm
    have wq := wb.2 q.2 qm
    simp only [List.append_assoc] at h'
    have c1 : Core (le 8) Eq p.1 q.1 := core8 (by unfold LenOk at *; omega) (by unfold LenOk at *; omega)
    have c2 := core_set h P hinj
      (fun (e : List Nat × List (Val r)) => strToks e.1 ++ seqToks r.isBlock (e.2.map (toks h r)))
      (fun e f => e.1 = f.1 ∧ All2 (Equiv r) e.2 f.2) p.2 q.2 wp.1 wq.1
      (fun e he => (wp.2 e he).2.2.2) (fun f hf => (wq.2 f hf).2.2.2)
      (fun e he f hf heq => core_entry h P r ih e f
        ⟨(wp.2 e he).1, (wp.2 e he).2.1, (wp.2 e he).2.2.1⟩
        ⟨(wq.2 f hf).1, (wq.2 f hf).2.1, (wq.2 f hf).2.2.1⟩ heq)
    obtain ⟨r1, r2, e⟩ := core_append c1 c2 x' y' h'
    exact ⟨⟨r1, r2⟩, e⟩

end SR.Hash
