import SR.Proofs.HashBytes
import SR.Proofs.VClock
/-! The two directions of C04 over the whole universe, by induction on the type code. -/
namespace SR.Hash
open List

/-! ### pending random choices -/

theorem pendingFrom_map {α β} (f : α → β) : ∀ (i : Nat) (l : List (List α)),
    pendingFrom i (l.map fun m => m.map f) = (pendingFrom i l).map fun p => (p.1, p.2.map f)
  | _, [] => rfl
  | i, m :: ms => by
    cases m with
    | nil => simp [pendingFrom, pendingFrom_map f (i + 1) ms]
    | cons a m => simp [pendingFrom, pendingFrom_map f (i + 1) ms]

theorem mem_pendingFrom {α} : ∀ (i : Nat) (l : List (List α)) (p : Nat × List α),
    p ∈ pendingFrom i l → i ≤ p.1 ∧ p.1 < i + l.length ∧ p.2 ∈ l
  | _, [], p, h => by simp [pendingFrom] at h
  | i, m :: ms, p, h => by
    unfold pendingFrom at h
    split at h
    · obtain ⟨a, b, c⟩ := mem_pendingFrom (i + 1) ms p h
      exact ⟨by omega, by simp only [List.length_cons]; omega, by simp [c]⟩
    · rcases List.mem_cons.1 h with rfl | h
      · simp
      · obtain ⟨a, b, c⟩ := mem_pendingFrom (i + 1) ms p h
        exact ⟨by omega, by simp only [List.length_cons]; omega, by simp [c]⟩

theorem pendingFrom_length_le {α} : ∀ (i : Nat) (l : List (List α)), (pendingFrom i l).length ≤ l.length
  | _, [] => by simp [pendingFrom]
  | i, m :: ms => by
    have := pendingFrom_length_le (i + 1) ms
    unfold pendingFrom; split <;> simp <;> omega

theorem flat_choicesToks (h : List Tok → UInt64) (maps : List (List (List Tok))) :
    flat (choicesToks h maps) =
      le 8 (pendingFrom 0 maps).length ++
        (pendingFrom 0 maps).flatMap fun p => le 8 p.1 ++ flat (setToks h p.2) := by
  simp only [choicesToks, flat_cons, Tok.flat]
  congr 1
  generalize pendingFrom 0 maps = pl
  induction pl with
  | nil => rfl
  | cons p pl ih => simp [flat_append, flat_cons, Tok.flat, ih]

theorem flatMap_congr_all2 {α β} {R : α → α → Prop} {g : α → List β} :
    ∀ {l1 l2 : List α}, (∀ a ∈ l1, ∀ b ∈ l2, R a b → g a = g b) → All2 R l1 l2 → l1.flatMap g = l2.flatMap g
  | [], [], _, _ => rfl
  | a :: l1, b :: l2, H, h => by
    simp only [List.flatMap_cons]
    rw [H a (by simp) b (by simp) h.1,
      flatMap_congr_all2 (fun a' ha b' hb => H a' (by simp [ha]) b' (by simp [hb])) h.2]
  | [], _ :: _, _, h => by cases h
  | _ :: _, [], _, h => by cases h

/-! ### equal values feed equal streams -/

theorem seqToks_congr {α} {R : α → α → Prop} (blk : Bool) (f : α → List Tok) (l1 l2 : List α)
    (H : ∀ a ∈ l1, ∀ b ∈ l2, R a b → f a = f b) (h : All2 R l1 l2) :
    seqToks blk (l1.map f) = seqToks blk (l2.map f) := by
  rw [map_eq_of_all2 H h]

theorem toks_resp (h : List Tok → UInt64) : ∀ (τ : Ty) (a b : Val τ), Equiv τ a b → toks h τ a = toks h τ b := by
  intro τ
  induction τ with
  | unit => intro a b _; rfl
  | bool => intro a b e; simp only [Equiv] at e; subst e; rfl
  | u8 => intro a b e; simp only [Equiv] at e; subst e; rfl
  | u32 => intro a b e; simp only [Equiv] at e; subst e; rfl
  | u64 => intro a b e; simp only [Equiv] at e; subst e; rfl
  | usize => intro a b e; simp only [Equiv] at e; subst e; rfl
  | id => intro a b e; simp only [Equiv] at e; subst e; rfl
  | str => intro a b e; simp only [Equiv] at e; subst e; rfl
  | arc t ih => intro a b e; simp only [Equiv] at e; simp only [toks]; exact ih a b e
  | tup s t ihs iht =>
    intro a b e; simp only [Equiv] at e; simp only [toks]
    rw [ihs _ _ e.1, iht _ _ e.2]
  | enum2 s t ihs iht =>
    intro a b e
    cases a <;> cases b <;> simp only [Equiv] at e <;> simp only [toks]
    · rw [ihs _ _ e]
    · rw [iht _ _ e]
  | enum3 s t u ihs iht ihu =>
    intro a b e
    rcases a with a | a | a <;> rcases b with b | b | b <;> simp only [Equiv] at e <;> simp only [toks]
    · rw [ihs _ _ e]
    · rw [iht _ _ e]
    · rw [ihu _ _ e]
  | vec t ih =>
    intro a b e; simp only [Equiv] at e; simp only [toks]
    exact seqToks_congr _ _ a b (fun x _ y _ r => ih x y r) e
  | deque t ih =>
    intro a b e; simp only [Equiv] at e; simp only [toks]
    exact seqToks_congr _ _ a b (fun x _ y _ r => ih x y r) e
  | bset t ih =>
    intro a b e; simp only [Equiv] at e; simp only [toks]
    exact seqToks_congr _ _ a b (fun x _ y _ r => ih x y r) e
  | bmap k v ihk ihv =>
    intro a b e; simp only [Equiv] at e; simp only [toks]
    exact seqToks_congr _ _ a b (fun x _ y _ r => by rw [ihk _ _ r.1, ihv _ _ r.2]) e
  | hset t ih =>
    intro a b e; simp only [Equiv] at e; simp only [toks]
    exact setToks_congr h _ _ a b (fun x _ y _ r => ih x y r) e
  | hmap k v ihk ihv =>
    intro a b e; simp only [Equiv] at e; simp only [toks]
    exact setToks_congr h _ _ a b (fun x _ y _ r => by rw [ihk _ _ r.1, ihv _ _ r.2]) e
  | vclock =>
    intro a b e; simp only [Equiv] at e; simp only [toks]
    rw [VClock.trim_congr e]
  | choices r ih =>
    intro a b e; simp only [Equiv] at e; simp only [toks, choicesToks]
    have ea := pendingFrom_map
      (fun (p : List Nat × List (Val r)) => strToks p.1 ++ seqToks r.isBlock (p.2.map (toks h r))) 0 a
    have eb := pendingFrom_map
      (fun (p : List Nat × List (Val r)) => strToks p.1 ++ seqToks r.isBlock (p.2.map (toks h r))) 0 b
    rw [ea, eb]
    have key : ∀ p ∈ pendingFrom 0 a, ∀ q ∈ pendingFrom 0 b,
        (p.1 = q.1 ∧ PermBy (fun e f => e.1 = f.1 ∧ All2 (Equiv r) e.2 f.2) p.2 q.2) →
        (Tok.usize p.1 :: setToks h (p.2.map fun e => strToks e.1 ++ seqToks r.isBlock (e.2.map (toks h r)))) =
        (Tok.usize q.1 :: setToks h (q.2.map fun e => strToks e.1 ++ seqToks r.isBlock (e.2.map (toks h r)))) := by
      intro p _ q _ hpq
      rw [hpq.1]
      congr 1
      apply setToks_congr h _ _ _ _ _ hpq.2
      intro x _ y _ rxy
      rw [rxy.1, seqToks_congr _ _ _ _ (fun u _ w _ ruw => ih u w ruw) rxy.2]
    simp only [List.length_map, List.flatMap_map]
    rw [all2_length e, flatMap_congr_all2 key e]

end SR.Hash
