import SR.Actor.Spec
import SR.Proofs.ActorNet
/-! `process_commands` component by component; `step = specStep` on well-formed states; well-formedness is
invariant; `init = specInit`. (Helper lemmas for Props/C06, C09, C15.) -/
namespace SR.Actor

variable {σ η : Type}

/-! ### lists -/

theorem set_self_of_getElem? {α : Type} {l : List α} {i : Nat} {a : α} (h : l[i]? = some a) : l.set i a = l := by
  apply List.ext_getElem?
  intro j
  by_cases hij : i = j
  · subst hij
    have hlt : i < l.length := by
      rcases Nat.lt_or_ge i l.length with h1 | h1
      · exact h1
      · simp [List.getElem?_eq_none h1] at h
    rw [List.getElem?_set_self hlt, h]
  · rw [List.getElem?_set_ne hij]

theorem lt_length_of_getElem? {α : Type} {l : List α} {i : Nat} {a : α} (h : l[i]? = some a) : i < l.length := by
  rcases Nat.lt_or_ge i l.length with h1 | h1
  · exact h1
  · simp [List.getElem?_eq_none h1] at h

theorem modify_eq_set {α : Type} {l : List α} {i : Nat} {a : α} (f : α → α) (h : l[i]? = some a) :
    l.modify i f = l.set i (f a) := by
  apply List.ext_getElem?
  intro j
  rw [List.getElem?_modify]
  by_cases hij : i = j
  · subst hij
    rw [List.getElem?_set_self (lt_length_of_getElem? h), h]; simp
  · rw [List.getElem?_set_ne hij]
    cases l[j]? <;> simp [hij]

/-! ### `process_commands`, component by component -/

/-- the result of `process_commands` written per component -/
def pcResult (sys : ActorSys σ η) (i : Nat) (cmds : List Cmd) (st : St σ η) (ts : List Nat)
    (m : List (Nat × List Nat)) : St σ η :=
  { actors := st.actors
    net := sendAll st.net (sendsOf i cmds)
    timers := st.timers.set i (cmds.foldl applyTimerCmd ts)
    random := st.random.set i (cmds.foldl applyRandomCmd m)
    crashed := st.crashed
    hist := recordOuts sys st.hist (sendsOf i cmds) }

theorem processCommands_eq (sys : ActorSys σ η) (i : Nat) (cmds : List Cmd) (st : St σ η)
    (ts : List Nat) (m : List (Nat × List Nat)) (hT : st.timers[i]? = some ts) (hR : st.random[i]? = some m) :
    processCommands sys i cmds st = some (pcResult sys i cmds st ts m) := by
  induction cmds generalizing st ts m with
  | nil =>
    simp only [processCommands, pcResult, sendsOf, List.filterMap_nil, sendAll, recordOuts, List.foldl_nil,
      set_self_of_getElem? hT, set_self_of_getElem? hR]
  | cons c cs ih =>
    have hTl := lt_length_of_getElem? hT
    have hRl := lt_length_of_getElem? hR
    cases c with
    | send dst msg =>
      simp only [processCommands, applyCmd, Option.bind_some]
      rw [ih (ts := ts) (m := m)]
      · simp [pcResult, sendsOf, sendAll, recordOuts, applyTimerCmd, applyRandomCmd]
      · exact hT
      · exact hR
    | setTimer t =>
      simp only [processCommands, applyCmd, Option.bind_some]
      have hle : ¬ st.timers.length ≤ i := by omega
      simp only [hle, if_false, modify_eq_set _ hT]
      rw [ih (ts := sins natLt t ts) (m := m)]
      · simp [pcResult, sendsOf, applyTimerCmd, applyRandomCmd, List.set_set]
      · simp [List.getElem?_set_self hTl]
      · exact hR
    | cancelTimer t =>
      simp only [processCommands, applyCmd, hT, Option.bind_some]
      rw [ih (ts := srem t ts) (m := m)]
      · simp [pcResult, sendsOf, applyTimerCmd, applyRandomCmd, List.set_set]
      · simp [List.getElem?_set_self hTl]
      · exact hR
    | chooseRandom key choices =>
      simp only [processCommands, applyCmd, hR, Option.bind_some]
      rw [ih (ts := ts) (m := if choices.isEmpty then aremove key m else ainsert natLt key choices m)]
      · simp [pcResult, sendsOf, applyTimerCmd, applyRandomCmd, List.set_set]
      · exact hT
      · simp [List.getElem?_set_self hRl]

/-! ### `next_state` is the specified step on well-formed states -/

theorem setActor_eq (actors : List σ) (i : Nat) (s : σ) (ns : Option σ) (h : actors[i]? = some s) :
    setActor actors i ns = actors.set i (ns.getD s) := by
  cases ns with
  | none => simp [setActor, set_self_of_getElem? h]
  | some s' => simp [setActor]

theorem getElem?_of_lt {α : Type} {l : List α} {i : Nat} (h : i < l.length) : ∃ a, l[i]? = some a :=
  ⟨l[i], List.getElem?_eq_getElem h⟩

theorem step_eq_specStep (sys : ActorSys σ η) (st : St σ η) (a : Action) (hwf : st.WF sys) :
    step sys st a = specStep sys st a := by
  obtain ⟨hA, hT, hR, hC⟩ := hwf
  cases a with
  | drop e => simp only [step, specStep]; cases st.net.onDrop e <;> rfl
  | crash i =>
    simp only [step, specStep]
    by_cases hi : i < sys.n
    · obtain ⟨ts, h1⟩ := getElem?_of_lt (l := st.timers) (i := i) (by omega)
      obtain ⟨m, h2⟩ := getElem?_of_lt (l := st.random) (i := i) (by omega)
      obtain ⟨c, h3⟩ := getElem?_of_lt (l := st.crashed) (i := i) (by omega)
      simp [h1, h2, h3, hi]
    · have h1 : st.timers[i]? = none := List.getElem?_eq_none (by omega)
      simp [h1, hi]
  | deliver e =>
    simp only [step, specStep, eventOf, specHandlerStep]
    cases hs : st.actors[e.dst]? with
    | none => simp [isDeliver]
    | some s =>
      have hlt := lt_length_of_getElem? hs
      obtain ⟨ts, h1⟩ := getElem?_of_lt (l := st.timers) (i := e.dst) (by omega)
      obtain ⟨m, h2⟩ := getElem?_of_lt (l := st.random) (i := e.dst) (by omega)
      obtain ⟨c, h3⟩ := getElem?_of_lt (l := st.crashed) (i := e.dst) (by omega)
      cases c with
      | true => simp [h3, isDeliver]
      | false =>
        simp only [h3, handler, isDeliver, Bool.and_true]
        cases hh : (sys.actor e.dst).msg e.dst s e.src e.msg with
        | panic => simp
        | ok ns cmds =>
          simp only [ignoredBy]
          by_cases hn : (isNoOp ns cmds && !sys.initNet.isOrdered) = true
          · simp [hn]
          · simp only [hn, if_false, specNext, consume, h1, h2]
            cases hd : st.net.onDeliver e with
            | none => simp [ofOption]
            | some net =>
              simp only [Bool.false_eq_true, if_false, reduceCtorEq]
              rw [processCommands_eq sys e.dst cmds _ ts m (by simpa using h1) (by simpa using h2)]
              simp [pcResult, setActor_eq _ _ s ns hs, firedTimers, selectedRandom, recordIn?, ofOption]
  | timeout i t =>
    simp only [step, specStep, eventOf, specHandlerStep]
    cases hs : st.actors[i]? with
    | none => simp [isDeliver]
    | some s =>
      have hlt := lt_length_of_getElem? hs
      obtain ⟨ts, h1⟩ := getElem?_of_lt (l := st.timers) (i := i) (by omega)
      obtain ⟨m, h2⟩ := getElem?_of_lt (l := st.random) (i := i) (by omega)
      simp only [handler, isDeliver, Bool.and_false, Bool.false_eq_true, if_false]
      cases hh : (sys.actor i).timeout i s t with
      | panic => simp
      | ok ns cmds =>
        simp only [ignoredBy]
        by_cases hn : isNoOpWithTimer ns cmds t = true
        · simp [hn]
        · simp only [hn, if_false, specNext, consume, h1, h2, Bool.false_eq_true]
          rw [processCommands_eq sys i cmds _ (srem t ts) m
            (by simp [List.getElem?_set_self (lt_length_of_getElem? h1)]) (by simpa using h2)]
          simp [pcResult, setActor_eq _ _ s ns hs, firedTimers, selectedRandom, recordIn?, ofOption, List.set_set]
  | selectRandom i key r =>
    simp only [step, specStep, eventOf, specHandlerStep]
    cases hs : st.actors[i]? with
    | none => simp [isDeliver]
    | some s =>
      have hlt := lt_length_of_getElem? hs
      obtain ⟨ts, h1⟩ := getElem?_of_lt (l := st.timers) (i := i) (by omega)
      obtain ⟨m, h2⟩ := getElem?_of_lt (l := st.random) (i := i) (by omega)
      simp only [handler, isDeliver, Bool.and_false, Bool.false_eq_true, if_false]
      cases hh : (sys.actor i).random i s r with
      | panic => simp
      | ok ns cmds =>
        simp only [ignoredBy, Bool.false_eq_true, if_false, specNext, consume, h1, h2]
        rw [processCommands_eq sys i cmds _ ts (aremove key m) (by simpa using h1)
          (by simp [List.getElem?_set_self (lt_length_of_getElem? h2)])]
        simp [pcResult, setActor_eq _ _ s ns hs, firedTimers, selectedRandom, recordIn?, ofOption, List.set_set]

/-! ### well-formedness is invariant -/

theorem wf_specNext {sys : ActorSys σ η} {st st' : St σ η} {a : Action} {i : Nat} {s : σ} {ns : Option σ}
    {cmds : List Cmd} (hwf : st.WF sys) (h : specNext sys st a i s ns cmds = some st') : st'.WF sys := by
  unfold specNext at h
  split at h
  · simp only [Option.some.injEq] at h
    subst h
    obtain ⟨hA, hT, hR, hC⟩ := hwf
    exact ⟨by simp [hA], by simp [hT], by simp [hR], hC⟩
  · simp at h

/-- inversion of the specified step: what a transition is -/
theorem specHandlerStep_next {sys : ActorSys σ η} {st st' : St σ η} {a : Action} {i : Nat} {ev : Event}
    (h : specHandlerStep sys st a i ev = .next st') :
    ∃ s ns cmds, st.actors[i]? = some s ∧ ¬ (st.crashed[i]? = some true ∧ isDeliver a = true) ∧
      handler sys i s ev = .ok ns cmds ∧ ignoredBy sys ns cmds a = false ∧
      specNext sys st a i s ns cmds = some st' := by
  unfold specHandlerStep at h
  cases hs : st.actors[i]? with
  | none => rw [hs] at h; simp only at h; split at h <;> cases h
  | some s =>
    rw [hs] at h
    simp only at h
    by_cases hc : (st.crashed[i]? = some true && isDeliver a) = true
    · rw [if_pos hc] at h; cases h
    · rw [if_neg hc] at h
      cases hh : handler sys i s ev with
      | panic => rw [hh] at h; cases h
      | ok ns cmds =>
        rw [hh] at h
        simp only at h
        by_cases hi : ignoredBy sys ns cmds a = true
        · rw [if_pos hi] at h; cases h
        · rw [if_neg hi] at h
          cases hn : specNext sys st a i s ns cmds with
          | none => rw [hn] at h; cases h
          | some st2 =>
            rw [hn] at h
            simp only [ofOption, Outcome.next.injEq] at h
            subst h
            refine ⟨s, ns, cmds, rfl, ?_, hh, by simpa using hi, hn⟩
            simpa using hc

theorem wf_step {sys : ActorSys σ η} {st st' : St σ η} {a : Action} (hwf : st.WF sys)
    (h : step sys st a = .next st') : st'.WF sys := by
  rw [step_eq_specStep sys st a hwf] at h
  have hwf' := hwf
  obtain ⟨hA, hT, hR, hC⟩ := hwf
  have key : ∀ (i : Nat) (ev : Event), specHandlerStep sys st a i ev = .next st' → st'.WF sys := by
    intro i ev h
    obtain ⟨s, ns, cmds, _, _, _, _, hn⟩ := specHandlerStep_next h
    exact wf_specNext hwf' hn
  cases a with
  | drop e =>
    simp only [specStep] at h
    cases hd : st.net.onDrop e with
    | none => simp [hd] at h
    | some net => simp [hd] at h; subst h; exact ⟨hA, hT, hR, hC⟩
  | crash i =>
    simp only [specStep] at h
    by_cases hi : i < sys.n
    · simp [hi] at h; subst h
      exact ⟨hA, by simp [hT], by simp [hR], by simp [hC]⟩
    · simp [hi] at h
  | deliver e => exact key e.dst (.msg e.src e.msg) (by simpa [specStep, eventOf] using h)
  | timeout i t => exact key i (.timeout t) (by simpa [specStep, eventOf] using h)
  | selectRandom i k r => exact key i (.random r) (by simpa [specStep, eventOf] using h)

/-! ### `init_states` -/

theorem initLoop_append (sys : ActorSys σ η) (a b : List Nat) (st : St σ η) :
    initLoop sys (a ++ b) st = (initLoop sys a st).bind (initLoop sys b) := by
  induction a generalizing st with
  | nil => simp [initLoop]
  | cons i is ih =>
    simp only [List.cons_append, initLoop]
    cases processCommands sys i ((sys.actor i).start i).2 { st with actors := st.actors ++ [((sys.actor i).start i).1] } with
    | none => simp
    | some st1 => simp [ih]

/-- the state after the first `k` actors were started -/
def initUpTo (sys : ActorSys σ η) (k : Nat) : St σ η :=
  let sends := (List.range k).flatMap (fun i => sendsOf i ((sys.actor i).start i).2)
  { actors := (List.range k).map (fun i => ((sys.actor i).start i).1)
    net := sendAll sys.initNet sends
    timers := (List.range sys.n).map (fun i => if i < k then ((sys.actor i).start i).2.foldl applyTimerCmd [] else [])
    random := (List.range sys.n).map (fun i => if i < k then ((sys.actor i).start i).2.foldl applyRandomCmd [] else [])
    crashed := List.replicate sys.n false
    hist := recordOuts sys sys.initHist sends }

theorem sendAll_append (n : Net) (a b : List Env) : sendAll n (a ++ b) = sendAll (sendAll n a) b := by
  simp [sendAll, List.foldl_append]

theorem recordOuts_append (sys : ActorSys σ η) (h : η) (a b : List Env) :
    recordOuts sys h (a ++ b) = recordOuts sys (recordOuts sys h a) b := by
  simp [recordOuts, List.foldl_append]

theorem set_map_range {α : Type} (n k : Nat) (f g : Nat → α) (v : α) (hk : k < n)
    (hf : ∀ i, i ≠ k → g i = f i) (hv : g k = v) :
    ((List.range n).map f).set k v = (List.range n).map g := by
  apply List.ext_getElem?
  intro j
  by_cases hj : k = j
  · subst hj
    rw [List.getElem?_set_self (by simpa using hk)]
    simp [List.getElem?_range hk, hv]
  · rw [List.getElem?_set_ne hj]
    by_cases hjn : j < n
    · simp [List.getElem?_range hjn, hf j (fun e => hj e.symm)]
    · have : (List.range n)[j]? = none := List.getElem?_eq_none (by simpa using Nat.le_of_not_lt hjn)
      simp [this]

theorem initLoop_range (sys : ActorSys σ η) (k : Nat) (hk : k ≤ sys.n) :
    initLoop sys (List.range k) (init0 sys) = some (initUpTo sys k) := by
  induction k with
  | zero =>
    simp only [List.range_zero, initLoop, init0, initUpTo, List.flatMap_nil, sendAll, recordOuts, List.foldl_nil,
      List.map_nil, Nat.not_lt_zero, if_false]
    congr 2 <;> (apply List.ext_getElem?; intro j; simp [List.getElem?_replicate, List.getElem?_map];
                 by_cases hj : j < sys.n <;> simp [hj, List.getElem?_range, List.getElem?_eq_none])
  | succ k ih =>
    rw [List.range_succ, initLoop_append, ih (by omega)]
    simp only [Option.bind_some, initLoop]
    have hT : (initUpTo sys k).timers[k]? = some [] := by
      simp [initUpTo, List.getElem?_range (show k < sys.n by omega)]
    have hR : (initUpTo sys k).random[k]? = some [] := by
      simp [initUpTo, List.getElem?_range (show k < sys.n by omega)]
    rw [processCommands_eq sys k _ _ [] [] (by simpa using hT) (by simpa using hR)]
    simp only [Option.bind_some, pcResult, initUpTo, List.range_succ, List.map_append, List.flatMap_append,
      List.map_cons, List.map_nil, List.flatMap_cons, List.flatMap_nil, List.append_nil, sendAll_append,
      recordOuts_append]
    congr 2
    · apply set_map_range _ _ _ _ _ (by omega)
      · intro i hi
        by_cases h1 : i < k
        · have : i < k + 1 := by omega
          simp [h1, this]
        · have : ¬ i < k + 1 := by omega
          simp [h1, this]
      · simp
    · apply set_map_range _ _ _ _ _ (by omega)
      · intro i hi
        by_cases h1 : i < k
        · have : i < k + 1 := by omega
          simp [h1, this]
        · have : ¬ i < k + 1 := by omega
          simp [h1, this]
      · simp

theorem init_eq_specInit (sys : ActorSys σ η) : init sys = some (specInit sys) := by
  unfold init
  rw [initLoop_range sys sys.n (Nat.le_refl _)]
  simp only [initUpTo, specInit, List.map_map]
  congr 2
  · apply List.map_congr_left
    intro i hi
    have : i < sys.n := by simpa using hi
    simp [this]
  · apply List.map_congr_left
    intro i hi
    have : i < sys.n := by simpa using hi
    simp [this]

theorem wf_specInit (sys : ActorSys σ η) : (specInit sys).WF sys := by
  simp [St.WF, specInit]

end SR.Actor
