import SR.Market.Machine
/-! Invariants of the market machine (helper lemmas for C05 part (b)). -/
namespace SR.Market

/-! ### notifications -/

theorem length_notifyAll (pcs : List Pc) : (notifyAll pcs).length = pcs.length := by
  simp [notifyAll]

theorem count_running_notifyAll (pcs : List Pc) :
    (notifyAll pcs).count .running = pcs.count .running := by
  induction pcs with
  | nil => rfl
  | cons p ps ih =>
    cases p <;> simp_all [notifyAll]

theorem not_parkedFalse_mem_notifyAll (pcs : List Pc) : Pc.parked false ∉ notifyAll pcs := by
  induction pcs with
  | nil => simp [notifyAll]
  | cons p ps ih =>
    cases p <;> simp_all [notifyAll]

theorem running_mem_notifyAll {pcs : List Pc} : Pc.running ∈ notifyAll pcs ↔ Pc.running ∈ pcs := by
  induction pcs with
  | nil => simp [notifyAll]
  | cons p ps ih =>
    cases p <;> simp_all [notifyAll]

theorem exited_mem_notifyAll {pcs : List Pc} : Pc.exited ∈ notifyAll pcs ↔ Pc.exited ∈ pcs := by
  induction pcs with
  | nil => simp [notifyAll]
  | cons p ps ih =>
    cases p <;> simp_all [notifyAll]

theorem length_notifyPicks (pcs : List Pc) (picks : List Nat) :
    (notifyPicks pcs picks).length = pcs.length := by
  induction picks generalizing pcs with
  | nil => rfl
  | cons v vs ih =>
    simp only [notifyPicks]; rw [ih]; split <;> simp

theorem count_running_notifyPicks (pcs : List Pc) (picks : List Nat) :
    (notifyPicks pcs picks).count .running = pcs.count .running := by
  induction picks generalizing pcs with
  | nil => rfl
  | cons v vs ih =>
    simp only [notifyPicks]; rw [ih]
    split
    · rename_i h
      obtain ⟨hv, hget⟩ := List.getElem?_eq_some_iff.1 h
      rw [List.count_set hv]; simp [hget]
    · rfl

theorem exited_mem_notifyPicks {pcs : List Pc} {picks : List Nat} :
    Pc.exited ∈ notifyPicks pcs picks ↔ Pc.exited ∈ pcs := by
  induction picks generalizing pcs with
  | nil => rfl
  | cons v vs ih =>
    simp only [notifyPicks]; rw [ih]
    split
    · rename_i h
      obtain ⟨hv, hget⟩ := List.getElem?_eq_some_iff.1 h
      rw [← List.count_pos_iff, ← List.count_pos_iff, List.count_set hv]; simp [hget]
    · rfl

/-- "no lost wake-up" as a predicate on the program counters -/
def NoLost (pcs : List Pc) : Prop :=
  Pc.parked false ∈ pcs → Pc.running ∈ pcs ∨ Pc.parked true ∈ pcs

theorem noLost_notifyPicks {pcs : List Pc} (picks : List Nat) (h : NoLost pcs) :
    NoLost (notifyPicks pcs picks) := by
  induction picks generalizing pcs with
  | nil => exact h
  | cons v vs ih =>
    simp only [notifyPicks]; apply ih
    split
    · rename_i hv
      obtain ⟨hv, _⟩ := List.getElem?_eq_some_iff.1 hv
      intro _; right
      exact List.mem_iff_getElem.2 ⟨v, by simpa using hv, by simp⟩
    · exact h

theorem noLost_notifyAll (pcs : List Pc) : NoLost (notifyAll pcs) :=
  fun h => absurd h (not_parkedFalse_mem_notifyAll pcs)

theorem noLost_of_running {pcs : List Pc} (h : Pc.running ∈ pcs) : NoLost pcs := fun _ => Or.inl h

theorem running_mem_of_count {pcs : List Pc} (h : 0 < pcs.count .running) : Pc.running ∈ pcs :=
  List.count_pos_iff.1 h

/-! ### token counting -/

theorem count_take_add_drop (t : Tok) (n : Nat) (l : List Tok) :
    (l.take n).count t + (l.drop n).count t = l.count t := by
  rw [← List.count_append, List.take_append_drop]

theorem count_flatten_set (t : Tok) (ls : List (List Tok)) (i : Nat) (x : List Tok) (h : i < ls.length) :
    (ls.set i x).flatten.count t + (ls.getD i []).count t = ls.flatten.count t + x.count t := by
  induction ls generalizing i with
  | nil => simp at h
  | cons l ls ih =>
    cases i with
    | zero => simp [List.count_append]; omega
    | succ i =>
      have := ih i (by simpa using h)
      simp [List.count_append] at this ⊢; omega

theorem count_splitLoop (t : Tok) (k size : Nat) (loc : List Tok) (bs : List (List Tok)) :
    (splitLoop k size loc bs).2.flatten.count t + (splitLoop k size loc bs).1.count t
      = bs.flatten.count t + loc.count t := by
  induction k generalizing loc bs with
  | zero => simp [splitLoop]
  | succ k ih =>
    simp only [splitLoop]
    have hc := count_take_add_drop t (loc.length - size) loc
    split
    · rename_i he
      rw [ih]
      have : (loc.drop (loc.length - size)).count t = 0 := by
        have : loc.drop (loc.length - size) = [] := by simpa using he
        rw [this]; rfl
      omega
    · rw [ih]; simp [List.count_append]; omega

theorem length_splitLoop_ge (k size : Nat) (loc : List Tok) (bs : List (List Tok)) :
    bs.length ≤ (splitLoop k size loc bs).2.length := by
  induction k generalizing loc bs with
  | zero => simp [splitLoop]
  | succ k ih =>
    simp only [splitLoop]
    split
    · exact ih _ _
    · exact Nat.le_trans (by simp) (ih _ _)

theorem nodup_of_nodupB {l : List Nat} (h : nodupB l = true) : l.Nodup := by
  induction l with
  | nil => exact List.nodup_nil
  | cons x xs ih =>
    simp [nodupB] at h
    exact List.nodup_cons.2 ⟨h.1, ih h.2⟩

theorem nodup_fresh {s : MState} {toks : List Tok} (h : freshOk s toks = true) (hc : s.created.Nodup) :
    (toks ++ s.created).Nodup := by
  simp [freshOk] at h
  rw [List.nodup_append]
  refine ⟨nodup_of_nodupB h.1, hc, ?_⟩
  intro a ha b hb hab
  subst hab
  exact h.2 a ha hb

theorem count_fresh_created {s : MState} {toks : List Tok} (h : freshOk s toks = true) (t : Tok) :
    t ∈ toks → s.created.count t = 0 := by
  simp [freshOk] at h
  intro ht
  exact List.count_eq_zero.2 (h.2 t ht)

end SR.Market
