import SR.Proofs.Checker.Parents
import SR.Proofs.CompleteRun
import SR.Props.C01CompleteRun
import SR.Props.C12Machine
import SR.Props.OracleRest
/-!
Helper lemmas for `Props/OracleLast.lean` (builder W-Z9): the last oracle lines that were read rather than proved.

* `genReach_run`: every generated key of ANY run of the checker machine is the key of a reachable state (no `early = false`
  hypothesis; the existing `Closure.genJob` needs it) — behind the line `unique-count-exceeds-reachable` of `oracleC01`;
* `target_count`: the arithmetic behind the target line of `oracleC12`;
* `nondecr_iff`: the local recursive function `nondecr` of `oracleC13`;
* `oNetF` / `oNet_eq_oNetF`: the outer loop of `oNet` (Drv/C07.lean) as a structural recursion.
-/
namespace SR.Checker
open SR

section
variable {σ κ α : Type} [DecidableEq κ] {P : Params σ κ α}

/-- every generated key is the key of a reachable in-boundary state -/
def GenReach (P : Params σ κ α) (s : St σ κ) : Prop := ∀ k ∈ s.gen, ∃ t, P.M.Reach t ∧ P.key t = k

theorem genReach_init : GenReach P (init P.M P.props P.key) := by
  intro k hk
  rcases (genInit_spec P.key P.M.initB []).2.2 k hk with h | ⟨t, ht, rfl⟩
  · cases h
  · exact ⟨t, Sys.Reach.init ht, rfl⟩

theorem genReach_step (c : Choice) (s : St σ κ) (hs : SInv P s) (h : GenReach P s) : GenReach P (step P c s) := by
  cases c with
  | take i => intro k hk; rw [show (step P (.take i) s).gen = s.gen from (pathOf_take P i s).1] at hk; exact h k hk
  | evalProp w b =>
    intro k hk; rw [show (step P (.evalProp w b) s).gen = s.gen from (pathOf_evalProp P w b s).1] at hk; exact h k hk
  | finishProps w =>
    intro k hk; rw [show (step P (.finishProps w) s).gen = s.gen from (pathOf_finishProps P w s).1] at hk; exact h k hk
  | record w => intro k hk; rw [show (step P (.record w) s).gen = s.gen from (pathOf_record P w s).1] at hk; exact h k hk
  | stop why => intro k hk; rw [show (step P (.stop why) s).gen = s.gen from (pathOf_stop P why s).1] at hk; exact h k hk
  | dropJob i => intro k hk; rw [show (step P (.dropJob i) s).gen = s.gen from (pathOf_dropJob P i s).1] at hk; exact h k hk
  | abandon w =>
    intro k hk
    rw [show (step P (.abandon w) s).gen = s.gen from (pathOf_abandon w s).1] at hk; exact h k hk
  | expand w f =>
    intro k hk
    rcases pathOf_expand P w f s with ⟨hg, _, _⟩ | ⟨j, t, rest, ha, _, hg, _⟩
    · rw [show (step P (.expand w f) s).gen = s.gen from hg] at hk; exact h k hk
    · rw [show (step P (.expand w f) s).gen = s.gen ++ [P.key t] from hg] at hk
      rcases List.mem_append.1 hk with hk | hk
      · exact h k hk
      · simp only [List.mem_singleton] at hk
        subst hk
        have ham : (⟨j, .expanding (t :: rest)⟩ : Active σ) ∈ s.active := List.mem_of_getElem? ha
        have hj := hs.ac _ ham
        have hr : P.M.Reach j.st := Sys.reach_last_of_isPath hj.path hj.last
        exact ⟨t, Sys.Reach.step hr (hs.exp _ ham (t :: rest) rfl t List.mem_cons_self), rfl⟩

theorem genReach_run (cs : List Choice) : GenReach P (run P cs) := by
  have : SInv P (run P cs) ∧ GenReach P (run P cs) :=
    runFrom_induction (P := P) (fun s => SInv P s ∧ GenReach P s)
      (fun c s h => ⟨sinv_step c h.1, genReach_step c s h.1 h.2⟩) _ ⟨sinv_init, genReach_init⟩ cs
  exact this.2

end

/-! ### the local function `nondecr` of `oracleC13` -/

open Drv.Chk in
theorem nondecr_cons_iff (l : List Nat) : ∀ a, oracleC13.nondecr (a :: l) = true ↔ (a :: l).Pairwise (· ≤ ·) := by
  induction l with
  | nil => intro a; simp [oracleC13.nondecr]
  | cons b r ih =>
    intro a
    rw [oracleC13.nondecr, Bool.and_eq_true, ih b, List.pairwise_cons (a := a), decide_eq_true_eq]
    constructor
    · rintro ⟨hab, hp⟩
      refine ⟨?_, hp⟩
      intro x hx
      rcases List.mem_cons.1 hx with rfl | hx
      · exact hab
      · exact Nat.le_trans hab ((List.pairwise_cons.1 hp).1 x hx)
    · rintro ⟨hall, hp⟩
      exact ⟨hall b List.mem_cons_self, hp⟩

open Drv.Chk in
theorem nondecr_iff (l : List Nat) : oracleC13.nondecr l = true ↔ l.Pairwise (· ≤ ·) := by
  cases l with
  | nil => simp [oracleC13.nondecr]
  | cons a l => exact nondecr_cons_iff l a

open Drv.Chk in
theorem filterMap_getLast?_eq_map_lastOf (l : List (List Nat)) (h : ∀ p ∈ l, p ≠ []) :
    l.filterMap List.getLast? = l.map lastOf := by
  induction l with
  | nil => rfl
  | cons p l ih =>
    have hp := h p List.mem_cons_self
    rw [List.filterMap_cons, List.map_cons, ih (fun q hq => h q (List.mem_cons_of_mem _ hq))]
    simp [lastOf, List.getLast?_eq_some_getLast hp]

/-! ### the target line of `oracleC12` -/

open Drv.Chk CCompleteRun in
/-- a terminated run with a target `t`, no depth limit, whose FINAL discoveries neither match the finish condition nor cover
    all properties, has generated at least `min t |reach|` states -/
theorem target_count (c : Case) (hwf : c.g.WF) (hto : c.cfg.timeout = false) (cs : List Choice)
    (hnp : ∀ ch ∈ cs, ch ≠ Choice.stop .panic) (hq : Quiescent (run c.params cs))
    (t : Nat) (ht : c.cfg.target = some t) (hd : c.cfg.maxDepth = none)
    (hfin : c.finish.matches c.props (discNames (run c.params cs).disc) = false)
    (hall : (discNames (run c.params cs).disc).eraseDups.length ≠ c.props.length) :
    (t ≤ (run c.params cs).stateCount ∧ (run c.params cs).stopped = true) ∨
    ((run c.params cs).early = false ∧ c.g.reachList.length ≤ (run c.params cs).stateCount) := by
  cases he : (run c.params cs).early with
  | false =>
    right
    refine ⟨rfl, ?_⟩
    have hgen := C12M.C12_no_stop_all_generated c.params (fun _ _ _ _ h => h) cs hq he
    obtain ⟨hrl, hrnd⟩ := COracle.C13_oracle_reach c.g hwf
    have h1 := List.Nodup.length_le_of_subset hrnd (fun k hk => hgen k ((hrl k).1 hk))
    have h2 := C01.C01_counts c.params cs
    omega
  | true =>
    left
    have hs : (run c.params cs).stopped = true := by
      have := early_only_stopped_of_final (P := c.params) hd cs []
        (by rw [List.append_nil, C01_case_props_length]; exact hall) he
      exact this
    refine ⟨?_, hs⟩
    obtain ⟨pre, why, post, hcs, hen⟩ := C12M.C12_stop_only_if c.params cs hs
    cases why with
    | panic => exact absurd rfl (hnp (Choice.stop .panic) (by rw [hcs]; simp))
    | timeout => exact absurd hen (by simp [stopEnabled, Case.params, hto])
    | target => rw [hcs]; exact C12M.C12_target c.params pre post t ht hen
    | finish =>
      exfalso
      have hm : c.finish.matches c.props (discNames (run c.params pre).disc) = true := hen
      have := Finish.matches_mono c.finish c.props
        (C01_discoveries_grow_run c.params pre (Choice.stop .finish :: post))
        (by have := discNames_lt_run (P := c.params) (pre ++ Choice.stop .finish :: post)
            simpa [Case.params] using this) hm
      rw [← hcs, hfin] at this
      cases this

end SR.Checker

/-! ### C07: `valid` operations do not panic on a canonical network; the loops of `oNet` -/

namespace SR.Actor
open SR

theorem removeOne_isSome {n : Net} (hc : n.Canon) {e : Env} (he : e ∈ n.iterDeliverable) :
    ∃ n', n.removeOne e = some n' := by
  cases n with
  | dup set last => exact ⟨_, rfl⟩
  | nondup ms =>
    obtain ⟨hpos, hnd⟩ := hc
    simp only [Net.iterDeliverable, List.mem_map] at he
    obtain ⟨⟨e', c⟩, hp, rfl⟩ := he
    have hl := alookup_of_mem_nodup hnd hp
    have hc1 := hpos _ hp
    simp only [Net.removeOne, hl]
    have h0 : c ≠ 0 := by simp at hc1; omega
    by_cases h1 : c = 1 <;> simp [h0, h1]
  | ord flows =>
    obtain ⟨hne, hnd⟩ := hc
    simp only [Net.iterDeliverable, List.mem_filterMap] at he
    obtain ⟨⟨f, q⟩, hp, hh⟩ := he
    cases q with
    | nil => simp at hh
    | cons m q' =>
      simp at hh; subst hh
      have hl := alookup_of_mem_nodup hnd hp
      simp only [Net.removeOne, hl]
      have hi : List.findIdx? (fun x => x == m) (m :: q') = some 0 := by simp [List.findIdx?_cons]
      simp only [List.idxOf?, hi]
      split <;> exact ⟨_, rfl⟩

theorem apply_of_valid {n : Net} (hc : n.Canon) {op : NetOp} (hv : n.valid op = true) : ∃ n', n.apply op = some n' := by
  cases op with
  | send e => exact ⟨_, rfl⟩
  | deliver e =>
    have he : e ∈ n.iterDeliverable := by simpa [Net.valid] using hv
    cases n with
    | dup set last => exact ⟨_, rfl⟩
    | nondup ms => exact removeOne_isSome hc he
    | ord fl => exact removeOne_isSome hc he
  | drop e =>
    have he : e ∈ n.iterDeliverable := by simpa [Net.valid] using hv
    cases n with
    | dup set last => exact ⟨_, rfl⟩
    | nondup ms => exact removeOne_isSome hc he
    | ord fl => exact removeOne_isSome hc he
end SR.Actor
namespace SR.Drv.C07
open SR SR.Actor SR.Actor.Codec

/-- the error message of `oNet` -/
def stepMsg (k : Nat) (err : String) : String := s!"step {k}: {err}"

theorem stepMsg_ne_ok (k : Nat) (err : String) : stepMsg k err ≠ "ok" := by
  unfold stepMsg
  intro h
  have := congrArg String.toList h
  simp only [String.toList_append] at this
  have h2 : (toString "step ").toList = ['s','t','e','p',' '] := by decide
  have h3 : "ok".toList = ['o', 'k'] := by decide
  rw [h2, h3] at this
  simp at this

/-- the inner loop of `oNet`: the message for the first refused operation, or the extended history -/
def opsF (kind : String) (k : Nat) : Hist' → List NetOp → Option String × Hist'
  | h, [] => (none, h)
  | h, op :: ops => match checkOp kind h op with
    | some err => (some (stepMsg k err), h)
    | none => opsF kind k (h ++ [op]) ops

/-- the outer loop of `oNet` -/
def stepsF (kind : String) (nActors : Nat) (lossy : Bool) (last0 : Option Env) :
    Hist' → Nat → List (List NetOp × Obs) → Option String
  | _, _, [] => none
  | h, k, (ops, o) :: rest =>
    match opsF kind k h ops with
    | (some r, _) => some r
    | (none, h') =>
      match checkObs kind nActors lossy last0 h' o with
      | some err => some (stepMsg k err)
      | none => stepsF kind nActors lossy last0 h' (k + 1) rest

/-- `oNet` without `Id.run do`, `for`, `mut`, `return` -/
def oNetF (kind : String) (nActors : Nat) (lossy : Bool) (last0 : Option Env) (h0 : Hist') (steps : List (List NetOp × Obs)) :
    String :=
  match stepsF kind nActors lossy last0 h0 0 steps with
  | some r => r
  | none => "ok"

theorem innerGen (kind : String) (k : Nat)
    (f : NetOp → (Option String × Hist') → Id (ForInStep (Option String × Hist')))
    (hf : ∀ op r h, f op (r, h) = match checkOp kind h op with
      | some err => pure (ForInStep.done (some (stepMsg k err), h))
      | none => pure (ForInStep.yield (none, h ++ [op]))) :
    ∀ (ops : List NetOp) h, forIn ops ((none : Option String), h) f = (pure (opsF kind k h ops) : Id _) := by
  intro ops
  induction ops with
  | nil => intro h; simp [opsF]
  | cons op ops ih =>
    intro h
    simp only [List.forIn_cons, hf, opsF]
    cases checkOp kind h op with
    | none => simp [ih]
    | some err => simp

/-- the state of the outer loop after the steps -/
def outerF (kind : String) (nActors : Nat) (lossy : Bool) (last0 : Option Env) :
    Hist' → Nat → List (List NetOp × Obs) → Option String × Hist' × Nat
  | h, k, [] => (none, h, k)
  | h, k, (ops, o) :: rest =>
    match opsF kind k h ops with
    | (some r, h') => (some r, h', k)
    | (none, h') =>
      match checkObs kind nActors lossy last0 h' o with
      | some err => (some (stepMsg k err), h', k)
      | none => outerF kind nActors lossy last0 h' (k + 1) rest

theorem outerF_fst (kind : String) (nActors : Nat) (lossy : Bool) (last0 : Option Env) (steps : List (List NetOp × Obs)) :
    ∀ h k, (outerF kind nActors lossy last0 h k steps).1 = stepsF kind nActors lossy last0 h k steps := by
  induction steps with
  | nil => intro h k; rfl
  | cons s rest ih =>
    intro h k
    obtain ⟨ops, o⟩ := s
    simp only [outerF, stepsF]
    rcases opsF kind k h ops with ⟨_ | r, h'⟩
    · simp only []
      cases checkObs kind nActors lossy last0 h' o with
      | none => exact ih h' (k + 1)
      | some err => rfl
    · rfl

theorem outerGen (kind : String) (nActors : Nat) (lossy : Bool) (last0 : Option Env)
    (F : (List NetOp × Obs) → (Option String × Hist' × Nat) → Id (ForInStep (Option String × Hist' × Nat)))
    (hF : ∀ ops o r h k, F (ops, o) (r, h, k) =
      match opsF kind k h ops with
      | (some r, h') => pure (ForInStep.done (some r, h', k))
      | (none, h') =>
        match checkObs kind nActors lossy last0 h' o with
        | some err => pure (ForInStep.done (some (stepMsg k err), h', k))
        | none => pure (ForInStep.yield (none, h', k + 1))) :
    ∀ (steps : List (List NetOp × Obs)) h k,
      forIn steps ((none : Option String), h, k) F = (pure (outerF kind nActors lossy last0 h k steps) : Id _) := by
  intro steps
  induction steps with
  | nil => intro h k; simp [outerF]
  | cons s rest ih =>
    intro h k
    obtain ⟨ops, o⟩ := s
    simp only [List.forIn_cons, hF, outerF]
    rcases opsF kind k h ops with ⟨_ | r, h'⟩
    · simp only []
      cases checkObs kind nActors lossy last0 h' o with
      | none => simp [ih]
      | some err => simp
    · simp

theorem oNet_eq_oNetF (kind : String) (nActors : Nat) (lossy : Bool) (last0 : Option Env) (h0 : Hist')
    (steps : List (List NetOp × Obs)) : oNet kind nActors lossy last0 h0 steps = oNetF kind nActors lossy last0 h0 steps := by
  unfold oNet oNetF
  rw [← outerF_fst]
  simp only []
  rw [outerGen kind nActors lossy last0 _ ?_ steps h0 0]
  · simp only [pure_bind]
    cases (outerF kind nActors lossy last0 h0 0 steps).1 <;> rfl
  · intro ops o r h k
    simp only []
    rw [innerGen kind k _ (fun _ _ _ => rfl)]
    simp only [pure_bind]
    rcases opsF kind k h ops with ⟨_ | r, h'⟩
    · simp only []
      cases checkObs kind nActors lossy last0 h' o <;> rfl
    · rfl

/-! #### what `"ok"` means -/

/-- every operation of a group passes `checkOp` on the history before it -/
def OpsOk (kind : String) : Hist' → List NetOp → Prop
  | _, [] => True
  | h, op :: ops => checkOp kind h op = none ∧ OpsOk kind (h ++ [op]) ops

/-- every step passes: its operations pass `checkOp`, its observation passes `checkObs` on the history after them -/
def Passes (kind : String) (nActors : Nat) (lossy : Bool) (last0 : Option Env) : Hist' → List (List NetOp × Obs) → Prop
  | _, [] => True
  | h, (ops, o) :: rest =>
    OpsOk kind h ops ∧ checkObs kind nActors lossy last0 (h ++ ops) o = none ∧ Passes kind nActors lossy last0 (h ++ ops) rest

theorem opsF_spec (kind : String) (k : Nat) : ∀ (ops : List NetOp) (h : Hist'),
    (OpsOk kind h ops → opsF kind k h ops = (none, h ++ ops)) ∧
    (¬ OpsOk kind h ops → ∃ err h', opsF kind k h ops = (some (stepMsg k err), h')) := by
  intro ops
  induction ops with
  | nil => intro h; simp [OpsOk, opsF]
  | cons op ops ih =>
    intro h
    simp only [OpsOk, opsF]
    cases hc : checkOp kind h op with
    | none =>
      simp only [true_and]
      obtain ⟨h1, h2⟩ := ih (h ++ [op])
      refine ⟨fun hok => ?_, h2⟩
      rw [h1 hok, List.append_assoc]; rfl
    | some err =>
      refine ⟨fun hok => by simp at hok, fun _ => ⟨err, h, rfl⟩⟩

theorem stepsF_spec (kind : String) (nActors : Nat) (lossy : Bool) (last0 : Option Env) :
    ∀ (steps : List (List NetOp × Obs)) (h : Hist') (k : Nat),
    (Passes kind nActors lossy last0 h steps → stepsF kind nActors lossy last0 h k steps = none) ∧
    (¬ Passes kind nActors lossy last0 h steps → ∃ k' err, stepsF kind nActors lossy last0 h k steps = some (stepMsg k' err)) := by
  intro steps
  induction steps with
  | nil => intro h k; simp [Passes, stepsF]
  | cons s rest ih =>
    intro h k
    obtain ⟨ops, o⟩ := s
    simp only [Passes, stepsF]
    by_cases hok : OpsOk kind h ops
    · rw [(opsF_spec kind k ops h).1 hok]
      simp only [hok, true_and]
      cases hc : checkObs kind nActors lossy last0 (h ++ ops) o with
      | none =>
        simp only [true_and]
        exact ih (h ++ ops) (k + 1)
      | some err => exact ⟨fun hp => by simp at hp, fun _ => ⟨k, err, rfl⟩⟩
    · obtain ⟨err, h', he⟩ := (opsF_spec kind k ops h).2 hok
      rw [he]
      exact ⟨fun hp => absurd hp.1 hok, fun _ => ⟨k, err, rfl⟩⟩

theorem oNetF_ok_iff (kind : String) (nActors : Nat) (lossy : Bool) (last0 : Option Env) (h0 : Hist')
    (steps : List (List NetOp × Obs)) :
    oNetF kind nActors lossy last0 h0 steps = "ok" ↔ Passes kind nActors lossy last0 h0 steps := by
  unfold oNetF
  obtain ⟨h1, h2⟩ := stepsF_spec kind nActors lossy last0 steps h0 0
  by_cases hp : Passes kind nActors lossy last0 h0 steps
  · rw [h1 hp]; exact ⟨fun _ => hp, fun _ => rfl⟩
  · obtain ⟨k', err, he⟩ := h2 hp
    rw [he]
    exact ⟨fun h => absurd h (stepMsg_ne_ok k' err), fun h => absurd h hp⟩

/-! #### the same in terms of the model network -/

theorem run_append' (a b : List NetOp) : ∀ n : Net, Net.run n (a ++ b) = (Net.run n a).bind (fun n' => Net.run n' b) := by
  induction a with
  | nil => intro n; simp [Net.run]
  | cons op a ih =>
    intro n
    simp only [List.cons_append, Net.run]
    by_cases hv : n.valid op = true
    · simp only [hv, if_true]
      cases n.apply op with
      | none => rfl
      | some n1 => simp only [Option.bind_some]; exact ih n1
    · simp [hv]

/-- the model accepts the steps from network `n`: each group of operations is a valid run, and each observation is what the
    model shows after it (`ObsSpec`) -/
def ModelPasses (kind : String) (nActors : Nat) (lossy : Bool) : Net → List (List NetOp × Obs) → Prop
  | _, [] => True
  | n, (ops, o) :: rest =>
    ∃ n', Net.run n ops = some n' ∧ SR.COracleRest.ObsSpec kind nActors lossy n' o ∧ ModelPasses kind nActors lossy n' rest

theorem opsOk_iff_run {kind : String} {last0 : Option Env} : ∀ (ops : List NetOp) (h : Hist') (n : Net),
    Net.run (SR.COracleRest.emptyNet kind last0) h = some n → (OpsOk kind h ops ↔ ∃ n', Net.run n ops = some n') := by
  intro ops
  induction ops with
  | nil => intro h n _; simp [OpsOk, Net.run]
  | cons op ops ih =>
    intro h n hr
    have hcn : n.Canon := canon_run (SR.COracleRest.emptyNet_canon kind last0) hr
    simp only [OpsOk, SR.COracleRest.checkOp_iff hr op]
    constructor
    · rintro ⟨hv, hok⟩
      obtain ⟨n1, h1⟩ := apply_of_valid hcn hv
      have hr1 : Net.run (SR.COracleRest.emptyNet kind last0) (h ++ [op]) = some n1 := by
        rw [run_append', hr]; simp [Net.run, hv, h1]
      obtain ⟨n', hn'⟩ := (ih (h ++ [op]) n1 hr1).1 hok
      exact ⟨n', run_cons.2 ⟨hv, n1, h1, hn'⟩⟩
    · rintro ⟨n', hn'⟩
      obtain ⟨hv, n1, h1, h2⟩ := run_cons.1 hn'
      have hr1 : Net.run (SR.COracleRest.emptyNet kind last0) (h ++ [op]) = some n1 := by
        rw [run_append', hr]; simp [Net.run, hv, h1]
      exact ⟨hv, (ih (h ++ [op]) n1 hr1).2 ⟨n', h2⟩⟩

theorem passes_iff_model {kind : String} {nActors : Nat} {lossy : Bool} {last0 : Option Env} :
    ∀ (steps : List (List NetOp × Obs)) (h : Hist') (n : Net),
    Net.run (SR.COracleRest.emptyNet kind last0) h = some n →
    (Passes kind nActors lossy last0 h steps ↔ ModelPasses kind nActors lossy n steps) := by
  intro steps
  induction steps with
  | nil => intro h n _; simp [Passes, ModelPasses]
  | cons s rest ih =>
    intro h n hr
    obtain ⟨ops, o⟩ := s
    simp only [Passes, ModelPasses]
    rw [opsOk_iff_run ops h n hr]
    constructor
    · rintro ⟨⟨n', hn'⟩, hobs, hrest⟩
      have hr' : Net.run (SR.COracleRest.emptyNet kind last0) (h ++ ops) = some n' := by
        rw [run_append', hr]; exact hn'
      exact ⟨n', hn', (SR.COracleRest.checkObs_iff hr' o).1 hobs, (ih (h ++ ops) n' hr').1 hrest⟩
    · rintro ⟨n', hn', hobs, hrest⟩
      have hr' : Net.run (SR.COracleRest.emptyNet kind last0) (h ++ ops) = some n' := by
        rw [run_append', hr]; exact hn'
      exact ⟨⟨n', hn'⟩, (SR.COracleRest.checkObs_iff hr' o).2 hobs, (ih (h ++ ops) n' hr').2 hrest⟩

end SR.Drv.C07
