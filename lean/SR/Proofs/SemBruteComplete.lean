import SR.Proofs.SemBrute
/-!
The enumerations of the run-time oracle (`SR/Sem/Brute.lean`) are sound and complete for the declarative
definition `IsSerializationOf` of `SR/Sem/Spec.lean`:

* `dfsPerm` (the pruned enumeration of the orders of `rem`): whatever it returns is a duplicate-free order of
  exactly `rem` that respects `MustPrecede`, legal from `s`, with the wanted labels (`dfsPerm_sound`); and it
  returns something whenever such an order exists, with fuel `≥ rem.length` (`dfsPerm_complete`);
* `bruteDfs`: `bruteDfs_sound`, `bruteDfs_complete` (fuel is `rem.length`: no size guard);
* `brutePlainAll` / `brutePlain`: `brutePlainAll_sound`, `brutePlain_complete` (`permsOf` lists every
  permutation, `sublistsOf` every sublist).
-/
namespace SR.Sem
variable {S Op Ret : Type}

/-! ### small facts -/
theorem isOp_of_opAt {es : List (Event Op Ret)} {a : OpId} {op : Op} (h : opAt es a = some op) : IsOp es a :=
  opAt_isSome_iff.1 ⟨op, h⟩

theorem legal_isOp (spec : SeqSpec S Op Ret) (es : List (Event Op Ret)) :
    ∀ (s : S) (ids : List OpId) (l : List (Op × Ret)), Legal spec es s ids l → ∀ a ∈ ids, IsOp es a := by
  intro s ids
  induction ids generalizing s with
  | nil => intro l _ a ha; cases ha
  | cons b ids ih =>
    intro l hl a ha
    cases l with
    | nil => simp [Legal] at hl
    | cons x l =>
      obtain ⟨h1, _, _, h4⟩ := hl
      rcases List.mem_cons.1 ha with rfl | ha
      · exact isOp_of_opAt h1
      · exact ih _ _ h4 a ha

/-- the labels of a legal execution are determined by the order -/
theorem legal_unique (spec : SeqSpec S Op Ret) (es : List (Event Op Ret)) :
    ∀ (s : S) (ids : List OpId) (l l' : List (Op × Ret)), Legal spec es s ids l → Legal spec es s ids l' → l = l' := by
  intro s ids
  induction ids generalizing s with
  | nil =>
    intro l l' h h'
    cases l <;> cases l' <;> simp_all [Legal]
  | cons b ids ih =>
    intro l l' h h'
    cases l with
    | nil => simp [Legal] at h
    | cons x l =>
      cases l' with
      | nil => simp [Legal] at h'
      | cons x' l' =>
        obtain ⟨h1, h2, _, h4⟩ := h
        obtain ⟨h1', h2', _, h4'⟩ := h'
        have e1 : x.1 = x'.1 := by rw [h1] at h1'; exact Option.some.inj h1'
        have e2 : x.2 = x'.2 := by rw [← h2, ← h2', e1]
        have ex : x = x' := Prod.ext e1 e2
        subst ex
        rw [ih _ _ _ h4 h4']

/-! ### the pruned enumeration -/
section dfs
variable [DecidableEq Op] [DecidableEq Ret] (rt : Bool) (spec : SeqSpec S Op Ret) (es : List (Event Op Ret))

/-- what `dfsPerm` answers when nothing remains -/
def doneAns (want : Option (List (Op × Ret))) (acc : List OpId) : Option (List OpId) :=
  match want with
  | some (_ :: _) => none
  | _ => some acc.reverse

theorem dfsPerm_done (fuel : Nat) (s : S) (want : Option (List (Op × Ret))) (acc : List OpId) :
    dfsPerm rt spec es fuel s [] want acc = doneAns want acc := by
  cases fuel <;> rcases want with _ | _ | _ <;> simp [dfsPerm, doneAns]

def okRetB (es : List (Event Op Ret)) (a : OpId) (r : Ret) : Bool :=
  match retAt es a with | some r' => decide (r' = r) | none => true

def okWantB (want : Option (List (Op × Ret))) (x : Op × Ret) : Bool :=
  match want with
  | none => true
  | some [] => false
  | some (y :: _) => decide (y = x)

omit [DecidableEq Op] in
theorem okRetB_iff (a : OpId) (r : Ret) : okRetB es a r = true ↔ ∀ r', retAt es a = some r' → r' = r := by
  unfold okRetB
  cases retAt es a with
  | none => simp
  | some r' => simp

theorem okWantB_iff (want : Option (List (Op × Ret))) (x : Op × Ret) :
    okWantB want x = true ↔ ∀ w, want = some w → ∃ w', w = x :: w' := by
  unfold okWantB
  rcases want with _ | _ | ⟨y, w⟩
  · simp
  · simp
  · simp only [decide_eq_true_eq, Option.some.injEq]
    constructor
    · rintro rfl w' rfl; exact ⟨w, rfl⟩
    · intro h
      obtain ⟨w', hw'⟩ := h _ rfl
      exact (List.cons.inj hw').1

/-- one step of `dfsPerm` on a non-empty remainder -/
def dfsStep (fuel : Nat) (s : S) (rem : List OpId) (want : Option (List (Op × Ret))) (acc : List OpId)
    (a : OpId) : Option (List OpId) :=
  if rem.any (fun b => b != a && mustPrecedeB rt es b a) then none
  else match opAt es a with
    | none => none
    | some op =>
      if okRetB es a (spec.invoke s op).2 && okWantB want (op, (spec.invoke s op).2) then
        dfsPerm rt spec es fuel (spec.invoke s op).1 (rem.filter (· != a)) (want.map List.tail) (a :: acc)
      else none

theorem dfsPerm_succ (fuel : Nat) (s : S) (rem : List OpId) (want : Option (List (Op × Ret))) (acc : List OpId)
    (h : rem ≠ []) :
    dfsPerm rt spec es (fuel + 1) s rem want acc = rem.findSome? (dfsStep rt spec es fuel s rem want acc) := by
  have : rem.isEmpty = false := by cases rem with | nil => exact absurd rfl h | cons _ _ => rfl
  unfold dfsPerm
  simp only [this, Bool.false_eq_true, if_false]
  rfl

theorem dfsPerm_zero (s : S) (rem : List OpId) (want : Option (List (Op × Ret))) (acc : List OpId)
    (h : rem ≠ []) : dfsPerm rt spec es 0 s rem want acc = none := by
  have : rem.isEmpty = false := by cases rem with | nil => exact absurd rfl h | cons _ _ => rfl
  unfold dfsPerm
  simp [this]

/-- the conclusion about an order `ids` of `rem` found from object `s` -/
def DfsOk (s : S) (rem : List OpId) (want : Option (List (Op × Ret))) (ids : List OpId) (l : List (Op × Ret)) : Prop :=
  ids.Nodup ∧ (∀ a, a ∈ ids ↔ a ∈ rem) ∧ ids.Pairwise (fun a b => ¬ MustPrecede rt es b a) ∧
  Legal spec es s ids l ∧ (∀ w, want = some w → w = l)

omit [DecidableEq Op] [DecidableEq Ret] in
theorem doneAns_sound (s : S) (want : Option (List (Op × Ret))) (acc res : List OpId)
    (h : doneAns want acc = some res) : res = acc.reverse ++ [] ∧ DfsOk rt spec es s [] want [] [] := by
  rcases want with _ | _ | ⟨x, w⟩
  · simp only [doneAns, Option.some.injEq] at h
    refine ⟨by simp [h], List.nodup_nil, fun a => Iff.rfl, List.Pairwise.nil, trivial, ?_⟩
    intro w hw; cases hw
  · simp only [doneAns, Option.some.injEq] at h
    refine ⟨by simp [h], List.nodup_nil, fun a => Iff.rfl, List.Pairwise.nil, trivial, ?_⟩
    intro w hw; cases hw; rfl
  · simp [doneAns] at h

/-- a successful step: what was checked about the chosen operation -/
theorem dfsStep_some {fuel : Nat} {s : S} {rem : List OpId} {want : Option (List (Op × Ret))} {acc : List OpId}
    {a : OpId} {res : List OpId} (h : dfsStep rt spec es fuel s rem want acc a = some res) :
    (∀ b ∈ rem, b ≠ a → ¬ MustPrecede rt es b a) ∧
    ∃ op, opAt es a = some op ∧ (∀ r', retAt es a = some r' → r' = (spec.invoke s op).2) ∧
      (∀ w, want = some w → ∃ w', w = (op, (spec.invoke s op).2) :: w') ∧
      dfsPerm rt spec es fuel (spec.invoke s op).1 (rem.filter (· != a)) (want.map List.tail) (a :: acc) = some res := by
  unfold dfsStep at h
  split at h
  · cases h
  · rename_i hany
    refine ⟨?_, ?_⟩
    · intro b hb hne hm
      apply hany
      rw [List.any_eq_true]
      refine ⟨b, hb, ?_⟩
      rw [Bool.and_eq_true]
      exact ⟨by simpa using hne, (mustPrecedeB_iff rt es b a).2 hm⟩
    · split at h
      · cases h
      · rename_i op hop
        refine ⟨op, hop, ?_⟩
        split at h
        · rename_i hok
          rw [Bool.and_eq_true, okRetB_iff, okWantB_iff] at hok
          exact ⟨hok.1, hok.2, h⟩
        · cases h

theorem dfsPerm_sound : ∀ (fuel : Nat) (s : S) (rem : List OpId) (want : Option (List (Op × Ret)))
    (acc res : List OpId), dfsPerm rt spec es fuel s rem want acc = some res →
    ∃ ids l, res = acc.reverse ++ ids ∧ DfsOk rt spec es s rem want ids l := by
  intro fuel
  induction fuel with
  | zero =>
    intro s rem want acc res h
    by_cases hr : rem = []
    · subst hr
      rw [dfsPerm_done] at h
      exact ⟨[], [], doneAns_sound rt spec es s want acc res h⟩
    · rw [dfsPerm_zero rt spec es s rem want acc hr] at h; cases h
  | succ fuel ih =>
    intro s rem want acc res h
    by_cases hr : rem = []
    · subst hr
      rw [dfsPerm_done] at h
      exact ⟨[], [], doneAns_sound rt spec es s want acc res h⟩
    · rw [dfsPerm_succ rt spec es fuel s rem want acc hr] at h
      obtain ⟨a, ha, hstep⟩ := List.exists_of_findSome?_eq_some h
      obtain ⟨hprec, op, hop, hret, hwant, hrec⟩ := dfsStep_some rt spec es hstep
      obtain ⟨ids, l, hres, hnd, hmem, hpw, hleg, hw⟩ := ih _ _ _ _ _ hrec
      have hmem' : ∀ b, b ∈ ids ↔ b ∈ rem ∧ b ≠ a := by
        intro b; rw [hmem b, List.mem_filter]; simp
      refine ⟨a :: ids, (op, (spec.invoke s op).2) :: l, by simp [hres], ?_, ?_, ?_, ?_, ?_⟩
      · exact List.nodup_cons.2 ⟨fun hm => ((hmem' a).1 hm).2 rfl, hnd⟩
      · intro b
        rw [List.mem_cons, hmem' b]
        constructor
        · rintro (rfl | h1)
          · exact ha
          · exact h1.1
        · intro hb
          by_cases hba : b = a
          · exact Or.inl hba
          · exact Or.inr ⟨hb, hba⟩
      · refine List.pairwise_cons.2 ⟨?_, hpw⟩
        intro b hb
        have := (hmem' b).1 hb
        exact hprec b this.1 this.2
      · exact ⟨hop, rfl, hret, hleg⟩
      · intro w hw'
        obtain ⟨w', rfl⟩ := hwant w hw'
        subst hw'
        have := hw w' rfl
        rw [this]

/-- completeness of the pruned enumeration: if some order of `rem` is fine, `dfsPerm` answers -/
theorem dfsPerm_complete : ∀ (ids : List OpId) (fuel : Nat) (s : S) (rem : List OpId)
    (want : Option (List (Op × Ret))) (acc : List OpId) (l : List (Op × Ret)),
    rem.length ≤ fuel → ids.Nodup → (∀ a, a ∈ ids ↔ a ∈ rem) →
    ids.Pairwise (fun a b => ¬ MustPrecede rt es b a) → Legal spec es s ids l → (want = none ∨ want = some l) →
    (dfsPerm rt spec es fuel s rem want acc).isSome = true := by
  intro ids
  induction ids with
  | nil =>
    intro fuel s rem want acc l _ _ hmem _ hleg hw
    have hr : rem = [] := by
      cases rem with
      | nil => rfl
      | cons b rem => exact absurd ((hmem b).2 List.mem_cons_self) List.not_mem_nil
    subst hr
    rw [dfsPerm_done]
    cases l with
    | nil => rcases hw with rfl | rfl <;> rfl
    | cons x l => simp [Legal] at hleg
  | cons a ids ih =>
    intro fuel s rem want acc l hfuel hnd hmem hpw hleg hw
    have ha : a ∈ rem := (hmem a).1 List.mem_cons_self
    have hr : rem ≠ [] := List.ne_nil_of_mem ha
    cases l with
    | nil => simp [Legal] at hleg
    | cons x l =>
      obtain ⟨hop, hret, hrec, hleg'⟩ := hleg
      obtain ⟨hna, hnd'⟩ := List.nodup_cons.1 hnd
      obtain ⟨hpa, hpw'⟩ := List.pairwise_cons.1 hpw
      cases fuel with
      | zero =>
        cases rem with
        | nil => exact absurd rfl hr
        | cons _ _ => simp at hfuel
      | succ fuel =>
        rw [dfsPerm_succ rt spec es fuel s rem want acc hr, List.findSome?_isSome_iff]
        refine ⟨a, ha, ?_⟩
        have hflt : (rem.filter (· != a)).length < rem.length :=
          List.length_filter_lt_length_iff_exists.2 ⟨a, ha, by simp⟩
        have hany : rem.any (fun b => b != a && mustPrecedeB rt es b a) = false := by
          cases hc : rem.any (fun b => b != a && mustPrecedeB rt es b a) with
          | false => rfl
          | true =>
            rw [List.any_eq_true] at hc
            obtain ⟨b, hb, hc⟩ := hc
            rw [Bool.and_eq_true] at hc
            have hne : b ≠ a := by simpa using hc.1
            have hb' : b ∈ ids := by
              rcases List.mem_cons.1 ((hmem b).2 hb) with h | h
              · exact absurd h hne
              · exact h
            exact absurd ((mustPrecedeB_iff rt es b a).1 hc.2) (hpa b hb')
        have hx : x = (x.1, (spec.invoke s x.1).2) := by rw [hret]
        have hokRet : okRetB es a (spec.invoke s x.1).2 = true := by
          rw [okRetB_iff, hret]; exact hrec
        have hokWant : okWantB want (x.1, (spec.invoke s x.1).2) = true := by
          rw [okWantB_iff, ← hx]
          rcases hw with rfl | rfl
          · intro w hw; cases hw
          · intro w hw; cases hw; exact ⟨l, rfl⟩
        unfold dfsStep
        rw [hany, hop]
        simp only [Bool.false_eq_true, if_false, hokRet, hokWant, Bool.and_self, if_true]
        refine ih fuel _ _ _ _ l (Nat.le_of_lt_succ (Nat.lt_of_lt_of_le hflt hfuel)) hnd' ?_ hpw' hleg' ?_
        · intro b
          rw [List.mem_filter]
          constructor
          · intro hb
            exact ⟨(hmem b).1 (List.mem_cons_of_mem _ hb), by simpa using fun h : b = a => hna (h ▸ hb)⟩
          · rintro ⟨hb, hne⟩
            rcases List.mem_cons.1 ((hmem b).2 hb) with h | h
            · simp [h] at hne
            · exact h
        · rcases hw with rfl | rfl
          · exact Or.inl rfl
          · exact Or.inr rfl

end dfs

/-! ### the operations of a history -/
theorem mem_inflightIds (es : List (Event Op Ret)) (a : OpId) :
    a ∈ inflightIds es ↔ IsOp es a ∧ ¬ IsCompleted es a := by
  unfold inflightIds IsOp IsCompleted
  simp only [List.mem_flatMap, List.mem_map, List.mem_range]
  constructor
  · rintro ⟨t, _, i, hi, rfl⟩
    simp only
    omega
  · rintro ⟨h1, h2⟩
    refine ⟨a.1, ?_, a.2 - (retsOf es a.1).length, by omega, ?_⟩
    · rw [mem_threadsOf]
      have hm : (invsOf es a.1)[a.2] ∈ invsOf es a.1 := List.getElem_mem h1
      unfold invsOf at hm
      rw [List.mem_filterMap] at hm
      obtain ⟨⟨e, i⟩, hm, he⟩ := hm
      refine ⟨e, (List.mem_zipIdx hm).2.2 ▸ List.getElem_mem _, ?_⟩
      cases e with
      | inv t' op =>
        simp only at he
        by_cases ht : t' = a.1
        · exact ht
        · simp [ht] at he
      | ret t' r => simp at he
    · apply Prod.ext
      · rfl
      · simp only; omega

/-- every order that satisfies the definition is an order of the completed operations plus the in-flight
    ones it contains -/
theorem ser_mem_iff {rt : Bool} {spec : SeqSpec S Op Ret} {s0 : S} {es : List (Event Op Ret)} {ids : List OpId}
    {l : List (Op × Ret)} (h : IsSerializationOf rt spec s0 es ids l) (a : OpId) :
    a ∈ ids ↔ a ∈ completedIds es ++ (inflightIds es).filter (fun b => ids.contains b) := by
  obtain ⟨_, h2, h3, _, _⟩ := h
  rw [List.mem_append, List.mem_filter, mem_completedIds, mem_inflightIds]
  constructor
  · intro ha
    by_cases hc : IsCompleted es a
    · exact Or.inl hc
    · exact Or.inr ⟨⟨h2 a ha, hc⟩, by simpa using ha⟩
  · rintro (hc | ⟨_, hc⟩)
    · exact h3 a hc
    · simpa using hc

/-! ### sublists -/
theorem filter_mem_sublistsOf {α : Type} (p : α → Bool) : ∀ l : List α, l.filter p ∈ sublistsOf l := by
  intro l
  induction l with
  | nil => simp [sublistsOf]
  | cons a l ih =>
    simp only [sublistsOf, List.mem_flatMap]
    refine ⟨l.filter p, ih, ?_⟩
    by_cases hp : p a = true
    · simp [hp]
    · simp [hp]

theorem sublist_of_mem_sublistsOf {α : Type} : ∀ (l s : List α), s ∈ sublistsOf l → s.Sublist l := by
  intro l
  induction l with
  | nil => intro s hs; simp [sublistsOf] at hs; subst hs; exact List.Sublist.refl _
  | cons a l ih =>
    intro s hs
    simp only [sublistsOf, List.mem_flatMap] at hs
    obtain ⟨s', hs', hs⟩ := hs
    have := ih s' hs'
    rcases List.mem_cons.1 hs with rfl | hs
    · exact List.Sublist.cons _ this
    · rcases List.mem_cons.1 hs with rfl | hs
      · exact List.Sublist.cons_cons _ this
      · cases hs

/-! ### `bruteDfs` -/
section bruteDfs
variable [DecidableEq Op] [DecidableEq Ret] (rt : Bool) (spec : SeqSpec S Op Ret) (s0 : S) (es : List (Event Op Ret))

/-- whatever the pruned enumeration returns is a serialization order, with the wanted labels -/
theorem bruteDfs_sound (want : Option (List (Op × Ret))) (ids : List OpId)
    (h : bruteDfs rt spec s0 es want = some ids) :
    WellFormed es ∧ ∃ l, IsSerializationOf rt spec s0 es ids l ∧ ∀ w, want = some w → w = l := by
  unfold bruteDfs at h
  split at h
  · cases h
  · rename_i hwf
    have hwf' : WellFormed es := (wfB_iff es).1 (by simpa using hwf)
    refine ⟨hwf', ?_⟩
    obtain ⟨sub, _, hd⟩ := List.exists_of_findSome?_eq_some h
    obtain ⟨ids', l, hres, hnd, hmem, hpw, hleg, hw⟩ := dfsPerm_sound rt spec es _ _ _ _ _ _ hd
    have : ids = ids' := by simpa using hres
    subst this
    refine ⟨l, ⟨hnd, legal_isOp spec es s0 ids l hleg, ?_, hpw, hleg⟩, hw⟩
    intro a ha
    exact (hmem a).2 (List.mem_append_left _ ((mem_completedIds es a).2 ha))

/-- the pruned enumeration answers whenever an order satisfying the definition exists — without labels
    (`want = none`) and for the labels of any such order (`want = some l`) -/
theorem bruteDfs_complete (hwf : WellFormed es) (ids : List OpId) (l : List (Op × Ret))
    (h : IsSerializationOf rt spec s0 es ids l) (want : Option (List (Op × Ret))) (hw : want = none ∨ want = some l) :
    (bruteDfs rt spec s0 es want).isSome = true := by
  unfold bruteDfs
  rw [(wfB_iff es).2 hwf]
  simp only [Bool.not_true, Bool.false_eq_true, if_false]
  rw [List.findSome?_isSome_iff]
  refine ⟨(inflightIds es).filter (fun b => ids.contains b), filter_mem_sublistsOf _ _, ?_⟩
  have hm := ser_mem_iff h
  obtain ⟨h1, _, _, h4, h5⟩ := h
  exact dfsPerm_complete rt spec es ids _ s0 _ want [] l (Nat.le_refl _) h1 hm h4 h5 hw

end bruteDfs

/-! ### permutations -/
theorem mem_insertions {α : Type} (a : α) : ∀ p q : List α, p ++ a :: q ∈ insertions a (p ++ q) := by
  intro p
  induction p with
  | nil => intro q; cases q <;> simp [insertions]
  | cons b p ih =>
    intro q
    simp only [List.cons_append, insertions, List.mem_cons, List.mem_map]
    exact Or.inr ⟨_, ih q, rfl⟩

theorem perm_of_mem_insertions {α : Type} (a : α) : ∀ l l' : List α, l' ∈ insertions a l → l'.Perm (a :: l) := by
  intro l
  induction l with
  | nil => intro l' h; simp [insertions] at h; subst h; exact List.Perm.refl _
  | cons b l ih =>
    intro l' h
    simp only [insertions, List.mem_cons, List.mem_map] at h
    rcases h with rfl | ⟨l'', h, rfl⟩
    · exact List.Perm.refl _
    · exact ((ih l'' h).cons b).trans (List.Perm.swap a b l)

/-- `permsOf` lists every permutation -/
theorem mem_permsOf_of_perm {α : Type} : ∀ l₁ l₂ : List α, l₂.Perm l₁ → l₂ ∈ permsOf l₁ := by
  intro l₁
  induction l₁ with
  | nil => intro l₂ h; rw [List.perm_nil.1 h]; simp [permsOf]
  | cons a l ih =>
    intro l₂ h
    have ha : a ∈ l₂ := h.mem_iff.2 List.mem_cons_self
    obtain ⟨p, q, rfl⟩ := List.append_of_mem ha
    have hpq : (p ++ q).Perm l := (List.perm_middle.symm.trans h).cons_inv
    simp only [permsOf, List.mem_flatMap]
    exact ⟨p ++ q, ih _ hpq, mem_insertions a p q⟩

/-- … and only permutations -/
theorem perm_of_mem_permsOf {α : Type} : ∀ l₁ l₂ : List α, l₂ ∈ permsOf l₁ → l₂.Perm l₁ := by
  intro l₁
  induction l₁ with
  | nil => intro l₂ h; simp [permsOf] at h; subst h; exact List.Perm.refl _
  | cons a l ih =>
    intro l₂ h
    simp only [permsOf, List.mem_flatMap] at h
    obtain ⟨l', hl', h⟩ := h
    exact (perm_of_mem_insertions a l' l₂ h).trans ((ih l' hl').cons a)

/-! ### the candidate lists have no duplicates -/
theorem nodup_dedup_foldl (l : List Nat) : ∀ acc : List Nat, acc.Nodup →
    (l.foldl (fun acc t => if acc.contains t then acc else acc ++ [t]) acc).Nodup := by
  induction l with
  | nil => intro acc h; exact h
  | cons x l ih =>
    intro acc h
    simp only [List.foldl_cons]
    apply ih
    by_cases hc : acc.contains x = true
    · simp only [hc, if_true]; exact h
    · simp only [hc, Bool.false_eq_true, if_false]
      rw [List.nodup_append]
      refine ⟨h, by simp, ?_⟩
      intro a ha b hb
      rw [List.mem_singleton] at hb
      subst hb
      intro e
      subst e
      exact hc (by simpa using ha)

theorem nodup_threadsOf (es : List (Event Op Ret)) : (threadsOf es).Nodup :=
  nodup_dedup_foldl _ [] List.nodup_nil

theorem nodup_flatMap_pairs (ts : List Nat) (f : Nat → List Nat) (g : Nat → Nat → Nat) (hts : ts.Nodup)
    (hf : ∀ t, (f t).Nodup) (hg : ∀ t i j, g t i = g t j → i = j) :
    (ts.flatMap fun t => (f t).map fun i => ((t, g t i) : OpId)).Nodup := by
  unfold List.Nodup
  rw [List.pairwise_flatMap]
  constructor
  · intro t _
    rw [List.pairwise_map]
    refine List.Pairwise.imp ?_ (hf t)
    intro i j hij e
    exact hij (hg t i j (Prod.mk.inj e).2)
  · refine List.Pairwise.imp ?_ hts
    intro t1 t2 hne x hx y hy e
    rw [List.mem_map] at hx hy
    obtain ⟨_, _, rfl⟩ := hx
    obtain ⟨_, _, rfl⟩ := hy
    exact hne (Prod.mk.inj e).1

theorem nodup_completedIds (es : List (Event Op Ret)) : (completedIds es).Nodup :=
  nodup_flatMap_pairs (threadsOf es) (fun t => List.range (retsOf es t).length) (fun _ i => i)
    (nodup_threadsOf es) (fun _ => List.nodup_range) (fun _ _ _ h => h)

theorem nodup_inflightIds (es : List (Event Op Ret)) : (inflightIds es).Nodup :=
  nodup_flatMap_pairs (threadsOf es) (fun t => List.range ((invsOf es t).length - (retsOf es t).length))
    (fun t i => (retsOf es t).length + i) (nodup_threadsOf es) (fun _ => List.nodup_range)
    (fun _ _ _ h => Nat.add_left_cancel h)

theorem nodup_candidates (es : List (Event Op Ret)) (sub : List OpId) (h : sub.Sublist (inflightIds es)) :
    (completedIds es ++ sub).Nodup := by
  rw [List.nodup_append]
  refine ⟨nodup_completedIds es, h.nodup (nodup_inflightIds es), ?_⟩
  intro a ha b hb e
  subst e
  exact ((mem_inflightIds es a).1 (h.subset hb)).2 ((mem_completedIds es a).1 ha)

/-! ### `brutePlainAll` / `brutePlain` -/
theorem execIds_of_legal (spec : SeqSpec S Op Ret) (es : List (Event Op Ret)) :
    ∀ (s : S) (ids : List OpId) (l : List (Op × Ret)), Legal spec es s ids l → execIds spec es s ids = some l := by
  intro s ids
  induction ids generalizing s with
  | nil => intro l h; cases l with | nil => rfl | cons _ _ => simp [Legal] at h
  | cons a ids ih =>
    intro l h
    cases l with
    | nil => simp [Legal] at h
    | cons x l =>
      obtain ⟨h1, h2, _, h4⟩ := h
      simp only [execIds, h1, ih _ _ h4, Option.map_some, h2]

section brutePlain
variable [DecidableEq Op] [DecidableEq Ret] (rt : Bool) (spec : SeqSpec S Op Ret) (s0 : S) (es : List (Event Op Ret))

/-- every listed witness satisfies the definition -/
theorem brutePlainAll_sound (ids : List OpId) (l : List (Op × Ret)) (h : (ids, l) ∈ brutePlainAll rt spec s0 es) :
    IsSerializationOf rt spec s0 es ids l := by
  unfold brutePlainAll at h
  rw [List.mem_flatMap] at h
  obtain ⟨sub, _, h⟩ := h
  rw [List.mem_filterMap] at h
  obtain ⟨ids', _, h⟩ := h
  split at h
  · cases h
  · rename_i l' _
    split at h
    · rename_i hc
      simp only [Option.some.injEq, Prod.mk.injEq] at h
      obtain ⟨rfl, rfl⟩ := h
      exact (checkSer_iff rt spec s0 es _ _).1 hc
    · cases h

/-- every witness of the definition is listed -/
theorem brutePlainAll_complete (ids : List OpId) (l : List (Op × Ret)) (h : IsSerializationOf rt spec s0 es ids l) :
    (ids, l) ∈ brutePlainAll rt spec s0 es := by
  unfold brutePlainAll
  rw [List.mem_flatMap]
  refine ⟨(inflightIds es).filter (fun b => ids.contains b), filter_mem_sublistsOf _ _, ?_⟩
  rw [List.mem_filterMap]
  refine ⟨ids, ?_, ?_⟩
  · apply mem_permsOf_of_perm
    rw [List.perm_ext_iff_of_nodup h.1 (nodup_candidates es _ List.filter_sublist)]
    exact ser_mem_iff h
  · rw [execIds_of_legal spec es s0 ids l h.2.2.2.2]
    simp only [(checkSer_iff rt spec s0 es ids l).2 h, if_true]

theorem brutePlain_iff : brutePlain rt spec s0 es = true ↔
    WellFormed es ∧ ∃ ids l, IsSerializationOf rt spec s0 es ids l := by
  unfold brutePlain
  rw [Bool.and_eq_true, wfB_iff]
  refine and_congr_right fun _ => ?_
  constructor
  · intro h
    cases hb : brutePlainAll rt spec s0 es with
    | nil => rw [hb] at h; simp at h
    | cons x _ =>
      exact ⟨x.1, x.2, brutePlainAll_sound rt spec s0 es x.1 x.2 (by rw [hb]; exact List.mem_cons_self)⟩
  · rintro ⟨ids, l, h⟩
    have := brutePlainAll_complete rt spec s0 es ids l h
    cases hb : brutePlainAll rt spec s0 es with
    | nil => rw [hb] at this; cases this
    | cons _ _ => rfl

end brutePlain

end SR.Sem
