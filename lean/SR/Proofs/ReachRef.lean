import SR.Actor.Codec
/-!
# A total reference for the bounded reachable set of an actor system (`o-reach`, C09)

`walkF` is the bounded breadth-first walk of `SR/Actor/Codec.lean` (`walk` / `walkLoop`: same successor enumeration
`sortActions (actions sys st)`, same `step`, same records, same meaning of `bound` = maximal number of EXPANDED
states) made total by a fuel argument, with the visited set kept by STRUCTURAL equality of states (`DecidableEq`)
instead of a `HashMap` keyed by the canonical text.  This file: the function and the invariant of its loop; the
audited statements are in `SR/Props/C09Reach.lean`.
-/
namespace SR.ReachRef
open SR SR.Actor SR.Actor.Codec

variable {σ η : Type}

/-- what `walk` returns, without the hash index -/
structure WalkR (σ η : Type) where
  states : Array (St σ η)                     -- discovery order
  records : Array (List (Action × String))    -- per expanded state: sorted actions with `-`, `!` or successor index
deriving DecidableEq

/-- the transition system of `C09_explored` without boundary -/
abbrev M (sys : ActorSys σ η) : Sys (St σ η) Action := sys.toSys (fun _ => true)

theorem toOption_eq_some {α : Type} (o : Outcome α) (t : α) : o.toOption = some t ↔ o = .next t := by
  cases o <;> simp [Outcome.toOption]

theorem mem_succB_iff (sys : ActorSys σ η) (s t : St σ η) :
    t ∈ (M sys).succB s ↔ ∃ a ∈ actions sys s, step sys s a = .next t := by
  rw [Sys.mem_succB]
  simp only [ActorSys.toSys, toOption_eq_some, and_true]

theorem mem_initB_iff (sys : ActorSys σ η) (s : St σ η) : s ∈ (M sys).initB ↔ init sys = some s := by
  simp [Sys.initB, ActorSys.toSys]

theorem mem_sortActions (l : List Action) (a : Action) : a ∈ sortActions l ↔ a ∈ l := by
  simp [sortActions, List.mem_mergeSort]

variable [DecidableEq σ] [DecidableEq η]

/-- index of the first occurrence of `a` among `xs[i], …, xs[i+n-1]` (structural equality; no allocation) -/
def scan {α : Type} [DecidableEq α] (xs : Array α) (a : α) : Nat → Nat → Option Nat
  | 0, _ => none
  | n + 1, i => if xs[i]? = some a then some i else scan xs a n (i + 1)

/-- one action of the expansion of `st` (the body of the `foldl` of `walkLoop`) -/
def visit (sys : ActorSys σ η) (st : St σ η) (acc : Array (St σ η) × List (Action × String)) (a : Action) :
    Array (St σ η) × List (Action × String) :=
  match step sys st a with
  | .panic => (acc.1, (a, "!") :: acc.2)
  | .ignored => (acc.1, (a, "-") :: acc.2)
  | .next s' =>
    match scan acc.1 s' acc.1.size 0 with
    | some j => (acc.1, (a, toString j) :: acc.2)
    | none => (acc.1.push s', (a, toString acc.1.size) :: acc.2)

/-- expansion of one state: the enabled actions in canonical order -/
def expand (sys : ActorSys σ η) (st : St σ η) (states : Array (St σ η)) :
    Array (St σ η) × List (Action × String) :=
  (sortActions (actions sys st)).foldl (visit sys st) (states, [])

/-- expand states in discovery order until `bound` states are expanded or none is left; `none` = out of fuel -/
def loopF (sys : ActorSys σ η) (bound : Nat) : Nat → WalkR σ η → Option (WalkR σ η)
  | 0, _ => none
  | fuel + 1, w =>
    if w.records.size ≥ bound then some w else
    match w.states[w.records.size]? with
    | none => some w
    | some st =>
      let r := expand sys st w.states
      loopF sys bound fuel { states := r.1, records := w.records.push r.2.reverse }

/-- the total `walk`: `none` = the initial state panics, or the fuel ran out (never with `fuel = bound + 1`) -/
def walkF (fuel : Nat) (sys : ActorSys σ η) (bound : Nat) : Option (WalkR σ η) :=
  match init sys with
  | none => none
  | some st0 => loopF sys bound fuel { states := #[st0], records := #[] }

/-- the result is closed: every discovered state was expanded (the test of the drivers) -/
def WalkR.closed (w : WalkR σ η) : Bool := w.records.size == w.states.size

/-! ## one action -/

theorem scan_none {α : Type} [DecidableEq α] (xs : Array α) (a : α) :
    ∀ (n i : Nat), scan xs a n i = none → ∀ j, i ≤ j → j < i + n → xs[j]? ≠ some a := by
  intro n
  induction n with
  | zero => intro i _ j h1 h2; omega
  | succ n ih =>
    intro i h j h1 h2
    rw [scan] at h
    split at h
    · cases h
    · rename_i hne
      rcases Nat.eq_or_lt_of_le h1 with rfl | hlt
      · exact hne
      · exact ih (i + 1) h j hlt (by omega)

theorem scan_some {α : Type} [DecidableEq α] (xs : Array α) (a : α) :
    ∀ (n i j : Nat), scan xs a n i = some j → xs[j]? = some a := by
  intro n
  induction n with
  | zero => intro i j h; cases h
  | succ n ih =>
    intro i j h
    rw [scan] at h
    split at h
    · rename_i he; cases h; exact he
    · exact ih _ _ h

theorem scan_none_not_mem {α : Type} [DecidableEq α] (xs : Array α) (a : α) (h : scan xs a xs.size 0 = none) :
    a ∉ xs.toList := by
  intro hm
  obtain ⟨j, hj, he⟩ := List.getElem_of_mem hm
  rw [Array.length_toList] at hj
  refine scan_none xs a xs.size 0 h j (Nat.zero_le _) (by omega) ?_
  rw [← Array.getElem?_toList, List.getElem?_eq_getElem (by simpa using hj), he]

theorem scan_some_mem {α : Type} [DecidableEq α] (xs : Array α) (a : α) (n i j : Nat) (h : scan xs a n i = some j) :
    a ∈ xs.toList := by
  have := scan_some xs a n i j h
  rw [← Array.getElem?_toList] at this
  exact List.mem_of_getElem? this

theorem visit_states (sys : ActorSys σ η) (st : St σ η) (acc : Array (St σ η) × List (Action × String)) (a : Action) :
    (visit sys st acc a).1 = acc.1 ∨
      ∃ t, step sys st a = .next t ∧ t ∉ acc.1.toList ∧ (visit sys st acc a).1 = acc.1.push t := by
  unfold visit
  split
  · exact Or.inl rfl
  · exact Or.inl rfl
  · rename_i s' hs
    split
    · exact Or.inl rfl
    · rename_i hn
      exact Or.inr ⟨s', hs, scan_none_not_mem _ _ hn, rfl⟩

theorem visit_mem (sys : ActorSys σ η) (st : St σ η) (acc : Array (St σ η) × List (Action × String)) (a : Action)
    (t : St σ η) (h : step sys st a = .next t) : t ∈ (visit sys st acc a).1.toList := by
  unfold visit
  rw [h]
  dsimp only
  split
  · rename_i j hj
    exact scan_some_mem _ _ _ _ _ hj
  · simp

/-! ## the fold over the actions of one state -/

theorem fold_ext (sys : ActorSys σ η) (st : St σ η) (as : List Action) :
    ∀ acc : Array (St σ η) × List (Action × String),
      ∃ ext, (as.foldl (visit sys st) acc).1.toList = acc.1.toList ++ ext ∧
        (acc.1.toList.Nodup → (acc.1.toList ++ ext).Nodup) ∧
        (∀ t ∈ ext, ∃ a ∈ as, step sys st a = .next t) := by
  induction as with
  | nil => intro acc; exact ⟨[], by simp⟩
  | cons a as ih =>
    intro acc
    obtain ⟨ext, h1, h2, h3⟩ := ih (visit sys st acc a)
    rw [List.foldl_cons]
    rcases visit_states sys st acc a with h | ⟨t, ht, hnot, h⟩
    · rw [h] at h1 h2
      exact ⟨ext, h1, h2, fun t ht => by
        obtain ⟨b, hb, hs⟩ := h3 t ht
        exact ⟨b, List.mem_cons_of_mem _ hb, hs⟩⟩
    · rw [h] at h1 h2
      refine ⟨t :: ext, ?_, ?_, ?_⟩
      · rw [h1]; simp
      · intro hnd
        have : (acc.1.push t).toList.Nodup := by
          rw [Array.toList_push, List.nodup_append]
          refine ⟨hnd, by simp, ?_⟩
          intro x hx y hy
          simp only [List.mem_singleton] at hy
          subst hy
          intro e; subst e; exact hnot hx
        have := h2 this
        simpa using this
      · intro u hu
        rcases List.mem_cons.1 hu with rfl | hu
        · exact ⟨a, List.mem_cons_self, ht⟩
        · obtain ⟨b, hb, hs⟩ := h3 u hu
          exact ⟨b, List.mem_cons_of_mem _ hb, hs⟩

theorem fold_mem (sys : ActorSys σ η) (st : St σ η) (as : List Action) :
    ∀ acc : Array (St σ η) × List (Action × String),
      ∀ a ∈ as, ∀ t, step sys st a = .next t → t ∈ (as.foldl (visit sys st) acc).1.toList := by
  induction as with
  | nil => intro acc a ha; cases ha
  | cons b as ih =>
    intro acc a ha t ht
    rw [List.foldl_cons]
    rcases List.mem_cons.1 ha with rfl | ha
    · obtain ⟨ext, h1, _, _⟩ := fold_ext sys st as (visit sys st acc a)
      rw [h1]
      exact List.mem_append_left _ (visit_mem sys st acc a t ht)
    · exact ih _ a ha t ht

/-- what the expansion of `st` does to the discovered states: appends new, distinct successors of `st`, and all
    successors of `st` are discovered afterwards -/
theorem expand_spec (sys : ActorSys σ η) (st : St σ η) (xs : Array (St σ η)) :
    ∃ ext, (expand sys st xs).1.toList = xs.toList ++ ext ∧
      (xs.toList.Nodup → (xs.toList ++ ext).Nodup) ∧
      (∀ t ∈ ext, t ∈ (M sys).succB st) ∧
      (∀ t ∈ (M sys).succB st, t ∈ xs.toList ++ ext) := by
  obtain ⟨ext, h1, h2, h3⟩ := fold_ext sys st (sortActions (actions sys st)) (xs, [])
  refine ⟨ext, h1, h2, ?_, ?_⟩
  · intro t ht
    obtain ⟨a, ha, hs⟩ := h3 t ht
    exact (mem_succB_iff sys st t).2 ⟨a, (mem_sortActions _ _).1 ha, hs⟩
  · intro t ht
    obtain ⟨a, ha, hs⟩ := (mem_succB_iff sys st t).1 ht
    have := fold_mem sys st (sortActions (actions sys st)) (xs, []) a ((mem_sortActions _ _).2 ha) t hs
    rw [h1] at this
    exact this

/-! ## the loop invariant -/

structure WInv (sys : ActorSys σ η) (st0 : St σ η) (bound : Nat) (w : WalkR σ η) : Prop where
  nodup : w.states.toList.Nodup
  reach : ∀ s ∈ w.states.toList, (M sys).Reach s
  init : st0 ∈ w.states.toList
  le : w.records.size ≤ w.states.size
  leB : w.records.size ≤ bound
  closed : ∀ s ∈ w.states.toList.take w.records.size, ∀ t ∈ (M sys).succB s, t ∈ w.states.toList

omit [DecidableEq σ] [DecidableEq η] in
theorem winv_init (sys : ActorSys σ η) (st0 : St σ η) (bound : Nat) (h : init sys = some st0) :
    WInv sys st0 bound { states := #[st0], records := #[] } where
  nodup := by simp
  reach := by
    intro s hs
    simp only [List.mem_singleton] at hs
    subst hs
    exact Sys.Reach.init ((mem_initB_iff sys _).2 h)
  init := by simp
  le := by simp
  leB := by simp
  closed := by simp

theorem winv_expand (sys : ActorSys σ η) (st0 : St σ η) (bound : Nat) (w : WalkR σ η) (st : St σ η)
    (hw : WInv sys st0 bound w) (hb : w.records.size < bound) (hst : w.states[w.records.size]? = some st) :
    WInv sys st0 bound
      { states := (expand sys st w.states).1, records := w.records.push (expand sys st w.states).2.reverse } := by
  obtain ⟨ext, h1, h2, h3, h4⟩ := expand_spec sys st w.states
  have hlt : w.records.size < w.states.size := by
    have := Array.getElem?_eq_some_iff.1 hst
    exact this.1
  have hstl : w.states.toList[w.records.size]? = some st := by
    rw [Array.getElem?_toList]; exact hst
  have hmem : st ∈ w.states.toList := List.mem_of_getElem? hstl
  refine ⟨?_, ?_, ?_, ?_, ?_, ?_⟩
  · show (expand sys st w.states).1.toList.Nodup
    rw [h1]; exact h2 hw.nodup
  · show ∀ s ∈ (expand sys st w.states).1.toList, _
    rw [h1]
    intro s hs
    rcases List.mem_append.1 hs with hs | hs
    · exact hw.reach s hs
    · exact Sys.Reach.step (hw.reach st hmem) (h3 s hs)
  · show st0 ∈ (expand sys st w.states).1.toList
    rw [h1]; exact List.mem_append_left _ hw.init
  · show (w.records.push _).size ≤ (expand sys st w.states).1.size
    have : (expand sys st w.states).1.size = w.states.size + ext.length := by
      rw [← Array.length_toList, h1, List.length_append, Array.length_toList]
    rw [Array.size_push, this]; omega
  · show (w.records.push _).size ≤ bound
    rw [Array.size_push]; omega
  · show ∀ s ∈ (expand sys st w.states).1.toList.take (w.records.push _).size, ∀ t ∈ _, t ∈ (expand sys st w.states).1.toList
    rw [h1, Array.size_push]
    intro s hs t ht
    have hlen : w.records.size + 1 ≤ w.states.toList.length := by rw [Array.length_toList]; omega
    rw [List.take_append_of_le_length hlen, List.take_add_one, hstl] at hs
    rcases List.mem_append.1 hs with hs | hs
    · exact List.mem_append_left _ (hw.closed s hs t ht)
    · simp only [Option.toList_some, List.mem_singleton] at hs
      subst hs
      exact h4 t ht

/-- what `loopF` answers satisfies the invariant and one of the two exit conditions of the loop -/
theorem loopF_spec (sys : ActorSys σ η) (st0 : St σ η) (bound : Nat) :
    ∀ (fuel : Nat) (w w' : WalkR σ η), WInv sys st0 bound w → loopF sys bound fuel w = some w' →
      WInv sys st0 bound w' ∧ (w'.records.size = bound ∨ w'.records.size = w'.states.size) := by
  intro fuel
  induction fuel with
  | zero => intro w w' _ h; simp [loopF] at h
  | succ fuel ih =>
    intro w w' hw h
    rw [loopF] at h
    split at h
    · rename_i hge
      cases h
      exact ⟨hw, Or.inl (Nat.le_antisymm hw.leB hge)⟩
    · rename_i hlt
      split at h
      · rename_i hnone
        cases h
        have := Array.getElem?_eq_none_iff.1 hnone
        exact ⟨hw, Or.inr (Nat.le_antisymm hw.le this)⟩
      · rename_i st hst
        exact ih _ _ (winv_expand sys st0 bound w st hw (Nat.lt_of_not_ge hlt) hst) h

/-- `bound + 1` iterations always suffice -/
theorem loopF_fuel (sys : ActorSys σ η) (bound : Nat) :
    ∀ (fuel : Nat) (w : WalkR σ η), bound < w.records.size + fuel → fuel ≠ 0 → (loopF sys bound fuel w).isSome = true := by
  intro fuel
  induction fuel with
  | zero => intro w _ h; exact absurd rfl h
  | succ fuel ih =>
    intro w hf _
    rw [loopF]
    split
    · rfl
    · rename_i hlt
      split
      · rfl
      · apply ih
        · rw [Array.size_push]; omega
        · intro h0; subst h0; omega

omit [DecidableEq σ] [DecidableEq η] in
/-- a closed invariant set containing the initial state contains every reachable state -/
theorem reach_mem_of_closed (sys : ActorSys σ η) (st0 : St σ η) (bound : Nat) (w : WalkR σ η)
    (hi : init sys = some st0) (hw : WInv sys st0 bound w) (hc : w.records.size = w.states.size)
    (s : St σ η) (hs : (M sys).Reach s) : s ∈ w.states.toList := by
  induction hs with
  | init h =>
    have := (mem_initB_iff sys _).1 h
    rw [hi] at this; cases this
    exact hw.init
  | step _ ht ih =>
    refine hw.closed _ ?_ _ ht
    rw [hc, ← Array.length_toList, List.take_length]
    exact ih

/-- the invariant holds of every answer of `walkF`, with one of the two exit conditions of the loop -/
theorem walkF_inv (sys : ActorSys σ η) (fuel bound : Nat) (w : WalkR σ η) (h : walkF fuel sys bound = some w) :
    ∃ st0, init sys = some st0 ∧ WInv sys st0 bound w ∧
      (w.records.size = bound ∨ w.records.size = w.states.size) := by
  unfold walkF at h
  split at h
  · cases h
  · rename_i st0 hi
    exact ⟨st0, hi, loopF_spec sys st0 bound fuel _ w (winv_init sys st0 bound hi) h⟩

/-! ## a fingerprint cache (a refinement, for speed only): `walkK fp` keeps `fp s` beside every discovered state `s` and
compares states only where the fingerprints agree.  WHATEVER `fp` is, `walkK fp = walkF` (`walkK_eq`): nothing is assumed
about the fingerprint (no injectivity). -/
section keyed
variable {κ : Type} [DecidableEq κ]

def scanK {α : Type} [DecidableEq α] (xs : Array α) (ks : Array κ) (a : α) (k : κ) : Nat → Nat → Option Nat
  | 0, _ => none
  | n + 1, i =>
    if h : i < ks.size then
      if ks[i] = k then (if xs[i]? = some a then some i else scanK xs ks a k n (i + 1))
      else scanK xs ks a k n (i + 1)
    else none

theorem scanK_eq {α : Type} [DecidableEq α] (fp : α → κ) (xs : Array α) (a : α) :
    ∀ n i, scanK xs (xs.map fp) a (fp a) n i = scan xs a n i := by
  intro n
  induction n with
  | zero => intro i; rfl
  | succ n ih =>
    intro i
    rw [scanK, scan, ih]
    by_cases h : xs[i]? = some a
    · obtain ⟨hlt, he⟩ := Array.getElem?_eq_some_iff.1 h
      have hlt' : i < (xs.map fp).size := by simpa using hlt
      rw [dif_pos hlt', if_pos (by simp [he]), if_pos h]
    · rw [if_neg h]
      split
      · split
        · rfl
        · rfl
      · rename_i hge
        -- past the end: nothing left to find
        have hge' : xs.size ≤ i := by simpa using hge
        have hnone : ∀ m j, xs.size ≤ j → scan xs a m j = none := by
          intro m
          induction m with
          | zero => intro j _; rfl
          | succ m ihm =>
            intro j hj
            rw [scan, if_neg (by rw [Array.getElem?_eq_none hj]; simp)]
            exact ihm _ (by omega)
        exact (hnone n (i + 1) (by omega)).symm

def visitK (sys : ActorSys σ η) (fp : St σ η → κ) (st : St σ η)
    (acc : Array (St σ η) × Array κ × List (Action × String)) (a : Action) :
    Array (St σ η) × Array κ × List (Action × String) :=
  match step sys st a with
  | .panic => (acc.1, acc.2.1, (a, "!") :: acc.2.2)
  | .ignored => (acc.1, acc.2.1, (a, "-") :: acc.2.2)
  | .next s' =>
    match scanK acc.1 acc.2.1 s' (fp s') acc.1.size 0 with
    | some j => (acc.1, acc.2.1, (a, toString j) :: acc.2.2)
    | none => (acc.1.push s', acc.2.1.push (fp s'), (a, toString acc.1.size) :: acc.2.2)

theorem visitK_eq (sys : ActorSys σ η) (fp : St σ η → κ) (st : St σ η) (xs : Array (St σ η))
    (recs : List (Action × String)) (a : Action) :
    visitK sys fp st (xs, xs.map fp, recs) a =
      ((visit sys st (xs, recs) a).1, (visit sys st (xs, recs) a).1.map fp, (visit sys st (xs, recs) a).2) := by
  unfold visitK visit
  cases step sys st a with
  | panic => rfl
  | ignored => rfl
  | next s' =>
    dsimp only
    rw [scanK_eq]
    cases scan xs s' xs.size 0 with
    | none => simp
    | some j => rfl

theorem foldK_eq (sys : ActorSys σ η) (fp : St σ η → κ) (st : St σ η) (as : List Action) :
    ∀ (xs : Array (St σ η)) (recs : List (Action × String)),
      as.foldl (visitK sys fp st) (xs, xs.map fp, recs) =
        ((as.foldl (visit sys st) (xs, recs)).1, (as.foldl (visit sys st) (xs, recs)).1.map fp,
         (as.foldl (visit sys st) (xs, recs)).2) := by
  induction as with
  | nil => intro xs recs; rfl
  | cons a as ih =>
    intro xs recs
    rw [List.foldl_cons, List.foldl_cons, visitK_eq]
    exact ih _ _

def loopK (sys : ActorSys σ η) (fp : St σ η → κ) (bound : Nat) : Nat → WalkR σ η → Array κ → Option (WalkR σ η)
  | 0, _, _ => none
  | fuel + 1, w, ks =>
    if w.records.size ≥ bound then some w else
    match w.states[w.records.size]? with
    | none => some w
    | some st =>
      let r := (sortActions (actions sys st)).foldl (visitK sys fp st) (w.states, ks, [])
      loopK sys fp bound fuel { states := r.1, records := w.records.push r.2.2.reverse } r.2.1

theorem loopK_eq (sys : ActorSys σ η) (fp : St σ η → κ) (bound : Nat) :
    ∀ (fuel : Nat) (w : WalkR σ η), loopK sys fp bound fuel w (w.states.map fp) = loopF sys bound fuel w := by
  intro fuel
  induction fuel with
  | zero => intro w; rfl
  | succ fuel ih =>
    intro w
    rw [loopK, loopF]
    split
    · rfl
    · split
      · rfl
      · dsimp only
        rw [foldK_eq, expand]
        exact ih _

def walkK (fp : St σ η → κ) (fuel : Nat) (sys : ActorSys σ η) (bound : Nat) : Option (WalkR σ η) :=
  match init sys with
  | none => none
  | some st0 => loopK sys fp bound fuel { states := #[st0], records := #[] } #[fp st0]

theorem walkK_eq (fp : St σ η → κ) (fuel : Nat) (sys : ActorSys σ η) (bound : Nat) :
    walkK fp fuel sys bound = walkF fuel sys bound := by
  unfold walkK walkF
  split
  · rfl
  · rename_i st0 _
    have := loopK_eq sys fp bound fuel { states := #[st0], records := #[] }
    simpa using this

end keyed

/-- **drop-in for `walk`** (SR/Actor/Codec.lean): fuel `bound + 1` (never exhausted: `C09_oracle_walk_total`), result
    in the structure the drivers read (`.states`, `.records`, `ofWalk`); the hash index is not kept (no driver reads
    it); fingerprint = hash of the canonical text (only a cache: `walkK_eq`) -/
def walkT (sys : USys) (bound : Nat) : Option Walk :=
  (walkK (fun s => hash (toString (ofSt s))) (bound + 1) sys bound).map fun w =>
    { states := w.states, index := Std.HashMap.emptyWithCapacity 0, records := w.records }

/-! ## evaluation by `decide` (for the examples): `List.mergeSort` is defined by well-founded recursion and does not
reduce, so `walkU` skips the sort after CHECKING that the actions already come in canonical order -/

def sortedB (l : List Action) : Bool :=
  decide (l.Pairwise (fun a b => natsLe (actionKey a) (actionKey b) = true))

theorem sortActions_of_sortedB (l : List Action) (h : sortedB l = true) : sortActions l = l :=
  List.mergeSort_of_pairwise (of_decide_eq_true h)

def loopU (sys : ActorSys σ η) (bound : Nat) : Nat → WalkR σ η → Option (WalkR σ η)
  | 0, _ => none
  | fuel + 1, w =>
    if w.records.size ≥ bound then some w else
    match w.states[w.records.size]? with
    | none => some w
    | some st =>
      if sortedB (actions sys st) then
        let r := (actions sys st).foldl (visit sys st) (w.states, [])
        loopU sys bound fuel { states := r.1, records := w.records.push r.2.reverse }
      else none

def walkU (fuel : Nat) (sys : ActorSys σ η) (bound : Nat) : Option (WalkR σ η) :=
  match init sys with
  | none => none
  | some st0 => loopU sys bound fuel { states := #[st0], records := #[] }

theorem loopU_eq (sys : ActorSys σ η) (bound : Nat) :
    ∀ (fuel : Nat) (w w' : WalkR σ η), loopU sys bound fuel w = some w' → loopF sys bound fuel w = some w' := by
  intro fuel
  induction fuel with
  | zero => intro w w' h; simp [loopU] at h
  | succ fuel ih =>
    intro w w' h
    rw [loopU] at h
    rw [loopF]
    split at h
    · rename_i hge; rw [if_pos hge]; exact h
    · rename_i hlt
      rw [if_neg hlt]
      split at h
      · exact h
      · rename_i st hst
        split at h
        · rename_i hs
          dsimp only
          rw [expand, sortActions_of_sortedB _ hs]
          exact ih _ _ h
        · cases h

theorem walkU_eq (sys : ActorSys σ η) (fuel bound : Nat) (w : WalkR σ η) (h : walkU fuel sys bound = some w) :
    walkF fuel sys bound = some w := by
  unfold walkU at h
  unfold walkF
  split at h
  · cases h
  · rename_i st0 hi
    exact loopU_eq sys bound fuel _ w h

end SR.ReachRef
