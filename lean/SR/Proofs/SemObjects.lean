import SR.Sem.Objects
/-! Helper lemmas for C18 (reference objects): the three hand-written `is_valid_step`s satisfy the
contract `SeqSpec.Lawful`; for a lawful spec `is_valid_history` accepts exactly the traces. -/
namespace SR.Sem
variable {S Op Ret : Type}

theorem SeqSpec.ofInvoke_lawful [DecidableEq Ret] (inv : S → Op → S × Ret) : (SeqSpec.ofInvoke inv).Lawful :=
  ⟨fun s op r => by simp [SeqSpec.ofInvoke, SeqSpec.defaultStep],
   fun s op r _ => by simp [SeqSpec.ofInvoke, SeqSpec.defaultStep]⟩

theorem register_lawful (V : Type) [DecidableEq V] : (register V).Lawful := by
  constructor
  · intro s op r
    cases op <;> cases r <;> simp [register, Register.invoke, Register.isValidStep]
  · intro s op r
    cases op <;> cases r <;> simp [register, Register.invoke, Register.isValidStep]

theorem woRegister_lawful (V : Type) [DecidableEq V] : (woRegister V).Lawful := by
  constructor
  · intro s op r
    cases op <;> cases r <;> cases s <;>
      simp [woRegister, WORegister.invoke, WORegister.isValidStep] <;> split <;> simp_all
  · intro s op r
    cases op <;> cases r <;> cases s <;>
      simp [woRegister, WORegister.invoke, WORegister.isValidStep] <;> split <;> simp_all

theorem vec_lawful (V : Type) [DecidableEq V] : (vec V).Lawful := by
  constructor
  · intro s op r
    cases op <;> cases r <;> simp [vec, Vec.invoke, Vec.isValidStep]
  · intro s op r
    cases op <;> cases r <;> simp [vec, Vec.invoke, Vec.isValidStep]

theorem tableSpec_lawful (tbl : Table) (mode : Nat) : (tableSpec tbl mode).Lawful := by
  constructor
  · intro s op r
    simp only [tableSpec, Table.isValidStep, SeqSpec.defaultStep]
    split
    · simp
    · split <;> simp_all
  · intro s op r
    simp only [tableSpec, Table.isValidStep, SeqSpec.defaultStep]
    split
    · simp
    · split <;> simp_all

/-- for a lawful spec, `is_valid_history` accepts exactly the sequences obtained by invoking the
    operations one after the other from the given object -/
theorem SeqSpec.Lawful.validHistory_iff {spec : SeqSpec S Op Ret} (h : spec.Lawful) (s : S) (l : List (Op × Ret)) :
    spec.isValidHistory s l = true ↔ l = spec.trace s (l.map (·.1)) := by
  induction l generalizing s with
  | nil => simp [SeqSpec.isValidHistory, SeqSpec.validHistory, SeqSpec.trace]
  | cons x l ih =>
    obtain ⟨op, r⟩ := x
    simp only [SeqSpec.isValidHistory, SeqSpec.validHistory, List.map_cons, SeqSpec.trace]
    by_cases hv : (spec.isValidStep s op r).1 = true
    · have hr := (h.verdict s op r).1 hv
      have hs := h.state s op r hv
      simp only [hv, if_true]
      have := ih (spec.isValidStep s op r).2
      simp only [SeqSpec.isValidHistory] at this
      rw [this, hs, hr]
      constructor
      · intro e; rw [← e]
      · intro e
        have := List.cons.inj e
        exact this.2
    · have hr : ¬ (spec.invoke s op).2 = r := fun e => hv ((h.verdict s op r).2 e)
      simp only [hv]
      simp only [Bool.false_eq_true, if_false, false_iff]
      intro e
      have := (List.cons.inj e).1
      exact hr (Prod.mk.inj this).2.symm

/-- after an accepted history the object is the one obtained by invoking the operations -/
theorem SeqSpec.Lawful.validHistory_state {spec : SeqSpec S Op Ret} (h : spec.Lawful) (s : S) (l : List (Op × Ret))
    (hv : spec.isValidHistory s l = true) : (spec.validHistory s l).2 = spec.run s (l.map (·.1)) := by
  induction l generalizing s with
  | nil => simp [SeqSpec.validHistory, SeqSpec.run]
  | cons x l ih =>
    obtain ⟨op, r⟩ := x
    simp only [SeqSpec.isValidHistory, SeqSpec.validHistory] at hv ⊢
    by_cases hs : (spec.isValidStep s op r).1 = true
    · simp only [hs, if_true] at hv ⊢
      simp only [List.map_cons, SeqSpec.run]
      rw [← h.state s op r hs]
      exact ih _ hv
    · simp [hs] at hv

end SR.Sem
