import SR.Proofs.OracleAudit
import SR.Props.C19
/-!
# Oracle audit — adequacy of the oracle commands that had only an informal argument (builder W-Y)

Property theorems only; proofs in `SR/Proofs/OracleAudit.lean`; the table of ALL oracle commands with their status is
`/verif/notes/oracles.md`.  An oracle command (`o-…` of `SR/Drv/*.lean`) evaluates an executable predicate on the
IMPLEMENTATION's outputs; a `VIOLATION` line is only as good as that predicate.  Here the predicates that SEARCH or ENUMERATE
(an incomplete search is a miss or a false alarm) and the ones that re-state a theorem in executable form are tied to the
declarative statements of `SR/Props/*`:

* C10 `o-orbit`: `RW.perms n` is exactly the set of permutations of `0..n-1`, so the oracle answers `ok` iff SOME permutation
  explains the representative; `o-plan`: the test is "permutation of the indices" + the sorted/stable relation of `C10_plan_iff`;
* C19 `o-view` / `o-disc`: `endStates` = final states of ALL executions with the given fingerprints; `reachSet` = the reachable
  set, each state once, whenever states are numbered below `n` — and NOT otherwise (`C19_oracle_reachSet_ill_formed`);
  since the fix made after this audit `graph?` only accepts such graphs (`C19_oracle_graph_wf`); `isInBoundaryPath` decides
  `IsPath`;
* C07 `o-net`: the three reference semantics (`refQueue`, `refCount`, `refPresent`) are THE solutions of the equations of
  `C07_ordered`, `C07_nondup`, `C07_dup`, and agree with the model network on every valid run;
* C06 `o-graph`: the candidate enumeration contains every action the specification enables; C09 `o-crash`: the expected
  crash actions are the enabled ones;
* C16 `o-orl`: `ok` iff the five clauses hold for every enumerated pair; destinations outside the enumeration are trivial;
* C20 `o-vc-*`: `specCmp` is the product order; `o-dnm-from`: the key test is "permutation of `0..len-1`";
  `o-dnm-rewrite` (guard fixed after this audit: it was wrong on plans that are not permutations) is applicable exactly
  under the hypotheses of `C20_dnm_rewrite` and then `ok` iff its conclusion holds (`C20_oracle_dnm_rewrite`);
* C12 `o-hd`: `spec` evaluates the right-hand sides of `C12_matches_*`; C08 / C14 `o-res`: `firstIllFormed` finds the split of
  `C08_illformed_split`, the expected result classes are the ones of `C08_wellformed_ok` / `C08_illformed`;
* C03 `o-chk c03`: `witnessOk` is the conjunction of the `C03_*` clauses; C02: `reach.any` ranges over `Reach`.
-/
namespace SR.COracleAudit
open SR

/-! ## C10 -/
section C10
open SR.RW SR.Hash

/-- **every permutation is tried, and only permutations**: `perms n` is exactly the set of permutations of `0..n-1` -/
theorem C10_oracle_perms (n : Nat) (π : List Nat) : π ∈ perms n ↔ π.Perm (List.range n) := mem_perms_iff n π

/-- **`o-orbit` is exact**: the test `inOrbit b` of the command succeeds iff the implementation's representative `y` is
    (`eqB`: hash tables modulo order) the image `applyPerm b π x` of the state under SOME permutation `π` of the actor indices
    (`b = true`: ids inside timer values renamed too, the full-strength reading; `b = false`: what the code does, F12); and
    the `panic` branch accepts a panic iff NO permutation has an image -/
theorem C10_oracle_orbit {s m t r h : Ty} (x y : St s m t r h) (b : Bool) :
    (inOrbit b x y = true ↔
      ∃ π : List Nat, π.Perm (List.range x.actors.length) ∧ ∃ z, applyPerm b π x = some z ∧ z.eqB y = true) ∧
    ((perms x.actors.length).all (fun π => (applyPerm false π x).isNone) = true ↔
      ∀ π : List Nat, π.Perm (List.range x.actors.length) → applyPerm false π x = none) :=
  ⟨inOrbit_iff b x y, noImage_iff x⟩

/-- the command `o-orbit` computes `orbitAnswer` (= `ok` iff `inOrbit true`) on the decoded arguments -/
theorem C10_oracle_orbit_handle (sty stx res : SExp) (s m t r h : Ty) (v rv : Val (Ty.state s m t r h))
    (h1 : Drv.C10.stateTys sty = some (s, m, t, r, h)) (h2 : decodeVal (Ty.state s m t r h) stx = some v)
    (h3 : res ≠ .atom "panic") (h4 : decodeVal (Ty.state s m t r h) res = some rv) :
    Drv.C10.handle "o-orbit" [sty, stx, res] = some (orbitAnswer (St.ofVal v) (St.ofVal rv)) ∧
    (orbitAnswer (St.ofVal v) (St.ofVal rv) = "ok" ↔ inOrbit true (St.ofVal v) (St.ofVal rv) = true) := by
  refine ⟨handle_o_orbit sty stx res s m t r h v rv h1 h2 h3 h4, ?_⟩
  show (if inOrbit true (St.ofVal v) (St.ofVal rv) = true then "ok"
    else if inOrbit false (St.ofVal v) (St.ofVal rv) = true then _ else _) = "ok" ↔ _
  cases inOrbit true (St.ofVal v) (St.ofVal rv) with
  | true => simp
  | false =>
    cases inOrbit false (St.ofVal v) (St.ofVal rv) with
    | true => simp
    | false => simp

/-- **`o-plan`**: the test passes iff the plan is a permutation of the indices and, for `i < j`, `plan i < plan j` exactly
    when `vs[i] ≤ vs[j]` — the conclusions of `C10_plan_perm` and `C10_plan_iff` (sorted + stable) -/
theorem C10_oracle_plan {V : Type} (le : V → V → Bool) (vs : List V) (plan : List Nat) :
    (planBij vs.length plan && planOrdered le vs plan) = true ↔
      plan.Perm (List.range vs.length) ∧
      ∀ i j, i < j → j < vs.length → ∀ a b pi pj, vs[i]? = some a → vs[j]? = some b →
        plan[i]? = some pi → plan[j]? = some pj → (pi < pj ↔ le a b = true) :=
  planTest_iff le vs plan

/-- the command `o-plan` computes exactly these two tests on the decoded arguments -/
theorem C10_oracle_plan_handle (ty vsx planx : SExp) (τ : Ty) (vs : List (Val τ)) (plan : List Nat)
    (h1 : decodeTy ty = some τ) (h2 : decodeVal (.vec τ) vsx = some vs) (h3 : planx.nats? = some plan) :
    Drv.C10.handle "o-plan" [ty, vsx, planx] =
      some (if !planBij vs.length plan then "plan-not-a-bijection"
            else if !planOrdered (leVal τ) vs plan then "plan-not-the-stable-sorting-permutation" else "ok") :=
  handle_o_plan ty vsx planx τ vs plan h1 h2 h3

/-- the counting test shared by `o-plan`, `o-dnm-from`, `o-plan-reindex`, `isStableSortPlan`: "length `n` and every index
    below `n` occurs once" decides "is a permutation of `0..n-1`" -/
theorem C10_oracle_count_perm (n : Nat) (l : List Nat) :
    (l.length == n && (List.range n).all (fun k => l.count k == 1)) = true ↔ l.Perm (List.range n) :=
  countB_iff_perm n l

example : (perms 3).length = 6 ∧ [2, 0, 1] ∈ perms 3 ∧ [0, 0, 1] ∉ perms 3 := by decide
example : planBij 3 [2, 0, 1] = true ∧ planBij 3 [0, 0, 1] = false ∧ planBij 3 [0, 1] = false := by decide
end C10

/-! ## C19 -/
section C19
open SR.PathApi SR.Drv.C19

/-- **`endStates` is exact** (`o-view`): it lists the final states of ALL executions of the model with fingerprint sequence
    `fps` — no first-match walk, no injectivity of `key` assumed.  (So `o-view` says `no-execution-but-not-404` exactly when
    no execution has these fingerprints, and accepts the rows of any execution's final state.) -/
theorem C19_oracle_endStates (M : Sys Nat Nat) (key : Nat → Nat) (fps : List Nat) (t : Nat) :
    t ∈ endStates M key fps ↔ ∃ p, IsExec M p ∧ encode key p = fps ∧ lastState p = some t :=
  mem_endStates M key fps t

/-- `isInBoundaryPath` (`o-disc`: "discovery = genuine witness") decides `IsPath` -/
theorem C19_oracle_path (M : Sys Nat Nat) (p : List Nat) : isInBoundaryPath M p = true ↔ M.IsPath p :=
  isInBoundaryPath_iff M p

/-- **`reachSet` is exact** (`o-disc`, completed runs) when the reachable states are numbered below `n`: the fuel
    `n*n + n + 1` is never exhausted, the list is the set of reachable in-boundary states, each once (so its length is the
    number `unique_state_count` must equal) -/
theorem C19_oracle_reachSet (M : Sys Nat Nat) (n : Nat) (hb : ∀ x, M.Reach x → x < n) :
    (∀ x, x ∈ reachSet M n ↔ M.Reach x) ∧ (reachSet M n).Nodup :=
  mem_reachSet M n hb

/-- **`graph?` accepts well-formed graphs only** (driver fixed after this audit): every initial state and every edge target
    of a decoded graph is a state number `< n`, hence every reachable state is — so `C19_oracle_reachSet` applies to EVERY
    graph an oracle command of `Drv/C19.lean` judges (an ill-formed one is answered `bad-request`) -/
theorem C19_oracle_graph_wf (x : SExp) (g : LGraph) (h : graph? x = some g) :
    LWF g ∧ (∀ s, g.toSys.Reach s → s < g.n) ∧
    (∀ s, s ∈ reachSet g.toSys g.n ↔ g.toSys.Reach s) ∧ (reachSet g.toSys g.n).Nodup := by
  have hwf := graph?_wf x g h
  have hb := lwf_reach_lt hwf
  exact ⟨hwf, hb, mem_reachSet g.toSys g.n hb⟩

/-- without the bound `reachSet` is still sound (lists reachable states only) … -/
theorem C19_oracle_reachSet_sound (M : Sys Nat Nat) (n : Nat) : ∀ x ∈ reachSet M n, M.Reach x :=
  reachSet_sound M n

/-- … but NOT complete — a remark about the function `reachSet` itself: the graph `illLG` declares `n = 0` states but has the
    chain `0 → 1 → 2`; the worklist runs out of fuel (`0*0+0+1 = 1` pop) and answers `[0, 1]`.  Before the fix `graph?`
    accepted `(g 0 (0) (((0 1)) ((0 2)) ()) …)` and `o-disc` would have demanded `unique = 2` and missed a violation in
    state 2; now the graph is not well-formed (`¬ LWF`), so by `C19_oracle_graph_wf` it is never judged. -/
theorem C19_oracle_reachSet_ill_formed :
    reachSet illLG.toSys illLG.n = [0, 1] ∧ illLG.toSys.Reach 2 ∧ ¬ LWF illLG :=
  ⟨reachSet_ill_formed.1, reachSet_ill_formed.2, fun h => absurd (h.1 0 (by decide)) (by decide)⟩

example : endStates C19.exM C19.exKey [100, 102, 103] = [3] ∧ endStates C19.exM C19.exKey [100, 103] = [] ∧
    endStates C19.exM (fun _ => 7) [7, 7] = [1, 2] := by decide
example : reachSet C19.exM 4 = [0, 1, 2, 3] := by decide
end C19

/-! ## C07 -/
section C07
open SR.Actor SR.Drv.C07 SR.C07

/-- **ordered network**: `refQueue` is THE solution of the equation of `C07_ordered` (`removed ++ queue = sent`), and on
    every valid run from the empty network it is the model's queue -/
theorem C07_oracle_refQueue (h : List NetOp) (f : Nat × Nat) :
    (∀ q, removedOn f h ++ q = sentOn f h → refQueue h f = q) ∧
    (∀ n, Net.run (Net.ord []) h = some n → refQueue h f = n.queue f) := by
  refine ⟨refQueue_unique h f, ?_⟩
  intro n hr
  apply refQueue_unique
  have := C07_ordered (Net.ord []) n h (by simp [Net.Canon]) rfl hr f
  simpa [Net.queue, alookup] using this

/-- **non-duplicating network**: `refCount` is THE solution of the conservation law of `C07_nondup`, answers `none` exactly
    when the history removes more copies than were sent, and is the model's count on every valid run -/
theorem C07_oracle_refCount (h : List NetOp) (e : Env) :
    (∀ c, c + deliveredCount e h + droppedCount e h = sentCount e h → refCount h e = some c) ∧
    (refCount h e = none ↔ sentCount e h < deliveredCount e h + droppedCount e h) ∧
    (∀ n, Net.run (Net.nondup []) h = some n → refCount h e = some (n.count e)) := by
  refine ⟨refCount_unique h e, refCount_none h e, ?_⟩
  intro n hr
  apply refCount_unique
  have := C07_nondup [] n h hr e
  simpa [Net.count, alookup] using this

/-- **duplicating network**: `refPresent` is the right-hand side of `C07_dup`, and on every valid run from the empty set it
    is membership in the model's contents -/
theorem C07_oracle_refPresent (h : List NetOp) (e : Env) :
    (refPresent h e = true ↔ lastSD e h = some true) ∧
    (∀ last n, Net.run (Net.dup [] last) h = some n → (refPresent h e = true ↔ e ∈ n.contents)) := by
  refine ⟨refPresent_iff h e, ?_⟩
  intro last n hr
  rw [refPresent_iff, C07_dup [] last n h hr e]
  simp

example : refQueue [.send ⟨0, 1, 7⟩, .send ⟨0, 1, 8⟩, .deliver ⟨0, 1, 7⟩, .send ⟨0, 1, 7⟩, .drop ⟨0, 1, 8⟩] (0, 1) = [7] ∧
    refCount [.send ⟨0, 1, 7⟩, .send ⟨0, 1, 7⟩, .deliver ⟨0, 1, 7⟩] ⟨0, 1, 7⟩ = some 1 ∧
    refCount [.deliver ⟨0, 1, 7⟩] ⟨0, 1, 7⟩ = none ∧
    refPresent [.send ⟨0, 1, 7⟩, .deliver ⟨0, 1, 7⟩, .drop ⟨0, 1, 7⟩] ⟨0, 1, 7⟩ = false ∧
    refPresent [.drop ⟨0, 1, 7⟩, .send ⟨0, 1, 7⟩, .deliver ⟨0, 1, 7⟩] ⟨0, 1, 7⟩ = true := by decide
end C07

/-! ## C06 / C09 -/
section C06
open SR.Actor SR.Actor.Codec SR.Drv.C06

/-- **the candidate enumeration of `o-graph` is complete**: on a state with at most `sys.n + 1` crash flags and a canonical
    network (C07_canonical: every reachable one) every action the specification enables is a candidate, so
    `enabled by the specification but not offered` cannot be missed.  (On a non-canonical network — a zero count, an empty
    queue — `iter_deliverable` may name an envelope that `contents` does not: then a delivery can be missed.) -/
theorem C06_oracle_candidates_complete (sys : USys) (st : USt) (hc : st.net.Canon) (hlen : st.crashed.length ≤ sys.n + 1)
    (a : Action) (h : enabledSpec sys st a) : a ∈ candidates sys st :=
  candidates_complete sys st hc hlen a h

/-- the crash actions `o-crash` expects to be offered (`C09_offered`) are exactly the crashes the specification enables for
    actors `< sys.n`, listed in ascending order (the comparison with the offered list is order-sensitive: the harness
    sorts the actions) -/
theorem C09_oracle_offered (sys : USys) (st : USt) (j : Nat) :
    j ∈ (List.range sys.n).filter (fun j => st.crashed[j]? == some false && countCrashed st.crashed < sys.maxCrashes) ↔
      j < sys.n ∧ enabledSpec sys st (.crash j) :=
  crash_expected_iff sys st j
end C06

/-! ## C16 -/
section C16
open SR.Orl SR.Drv.C16

/-- **`o-orl` answers `ok` iff the five clauses hold for every enumerated ordered pair** `(s, d)`, `s <` number of nodes,
    `d ≤ maxId`: `C16_prefix`, `C16_no_redelivery`, `C16_complete_when_acked`, `C16_no_early_ack` (+ a `Deliver(q, m)` in
    flight carries the `q`-th message sent), `C16_no_early_ack_processed` — read off the decoded world (`PairOk`). -/
theorem C16_oracle_ok_iff (nodes : List (Node Nat WSt)) (net : List (Packet Nat)) :
    oracle nodes net = [] ↔ ∀ s, s < nodes.length → ∀ d, d ≤ maxId nodes → PairOk nodes net s d :=
  oracle_nil_iff nodes net

/-- **the enumeration of destinations loses nothing about nodes**: beyond `maxId` nothing was sent, nothing is pending,
    nothing was handed over — prefix, exactly-once, completeness and no-early-ack-processed hold trivially there.  NOT
    examined: packets in flight from / to an id `> maxId`, and anything handed over from a source `≥` number of nodes. -/
theorem C16_oracle_destinations (nodes : List (Node Nat WSt)) (net : List (Packet Nat)) (s d : Nat) (hd : maxId nodes < d) :
    sentTo ((world nodes net).nodes s) d = [] ∧ handedFrom ((world nodes net).nodes d) s = [] ∧
    ∀ e ∈ ((world nodes net).nodes s).pending, e.1.1 ≠ d :=
  pair_outside nodes net s d hd
end C16

/-! ## C20 -/
section C20
open SR.VClock SR.Drv.C20 SR.DNM

/-- **`specCmp` is the product order** (right-hand sides of `C20_cmp_spec`) … -/
theorem C20_oracle_specCmp (a b : Clock) :
    (specCmp a b = some .eq ↔ C20.Equiv a b) ∧
    (specCmp a b = some .lt ↔ C20.Le a b ∧ ∃ i, get0 a i < get0 b i) ∧
    (specCmp a b = some .gt ↔ C20.Le b a ∧ ∃ i, get0 b i < get0 a i) ∧
    (specCmp a b = none ↔ (∃ i, get0 a i < get0 b i) ∧ ∃ j, get0 b j < get0 a j) :=
  specCmp_spec a b

/-- … hence never disagrees with the model's `partial_cmp` -/
theorem C20_oracle_specCmp_model (a b : Clock) : specCmp a b = partialCmp a b := specCmp_eq_partialCmp a b

/-- the key test of `o-dnm-from` decides the right-hand side of `C20_dnm_gaps` -/
theorem C20_oracle_dnm_from {V : Type} (ps : List (Nat × V)) :
    (List.range ps.length).all (fun k => (ps.map (·.1)).count k == 1) = true ↔
      (ps.map (·.1)).Perm (List.range ps.length) :=
  dnmFrom_keys_iff ps

/-- the command `o-dnm-rewrite` (as fixed after this audit: the guard also tests that every key occurs exactly once in the
    plan) computes `dnmRwApplicable` / `dnmRwAnswer` on the decoded arguments -/
theorem C20_oracle_dnm_rewrite_handle (px mx md rx : SExp) (plan m res : List Nat) (mode : String)
    (h1 : px.nats? = some plan) (h2 : mx.nats? = some m) (h3 : md.str? = some mode)
    (h4 : rx ≠ .atom "panic") (h5 : rx.nats? = some res) :
    Drv.C20.handle "o-dnm-rewrite" [px, mx, md, rx] =
      some (if !dnmRwApplicable plan m (mode == "kv") then "ok" else dnmRwAnswer plan m (mode == "kv") res) :=
  handle_o_dnm_rewrite px mx md rx plan m res mode h1 h2 h3 h4 h5

/-- **`o-dnm-rewrite` is adequate**: the guard holds exactly under the hypotheses of the law `C20_dnm_rewrite` (the plan
    permutes the map's keys; for id values every value lies inside the plan); where it holds the verdict is `ok` iff the
    CONCLUSION of the law holds of the implementation's result (same length, the value of key `k`, rewritten, sits at key
    `plan[k]`), and the result the law describes (the model's `rewrite`) exists and is accepted -/
theorem C20_oracle_dnm_rewrite (plan m : List Nat) (kv : Bool) :
    (dnmRwApplicable plan m kv = true ↔
      plan.Perm (List.range m.length) ∧ (kv = true → ∀ v ∈ m, v < plan.length)) ∧
    (∀ res, dnmRwAnswer plan m kv res = "ok" ↔
      res.length = m.length ∧ ∀ k, k < m.length →
        DNM.get res (plan.getD k k) = (DNM.get m k).map (fun v => if kv then plan.getD v v else v)) ∧
    (dnmRwApplicable plan m kv = true →
      ∃ m', DNM.rewrite (fun k => plan.getD k k) (fun v => if kv then plan.getD v v else v) m = some m' ∧
        dnmRwAnswer plan m kv m' = "ok") :=
  ⟨dnmRwApplicable_iff plan m kv, dnmRwAnswer_ok_iff plan m kv, dnmRw_accepts_law plan m kv⟩

/-- **the formerly bad input is no longer judged**: for the plan `[0, 0]` (not a permutation) and the map `[1, 2]` the OLD
    guard (length only) held and no answer at all was accepted; the fixed guard is `false`, so the command answers `ok`
    (the law says nothing about this plan) -/
theorem C20_oracle_dnm_rewrite_former_bad_input :
    dnmRwApplicable [0, 0] [1, 2] false = false ∧ ¬ [0, 0].Perm (List.range 2) :=
  dnmRw_former_bad_input

example : dnmRwApplicable [1, 0] [5, 6] false = true ∧ dnmRwAnswer [1, 0] [5, 6] false [6, 5] = "ok" ∧
    dnmRwAnswer [1, 0] [5, 6] false [5, 6] ≠ "ok" := by decide

example : specCmp [1, 0] [1] = some .eq ∧ specCmp [1, 2] [2, 1] = none ∧ specCmp [] [0, 3] = some .lt := by decide
end C20

/-! ## C12 -/
section C12
open SR.HasDisc SR.Drv.C12

/-- **`spec` (the expected answer of `o-hd`) evaluates the declarative meaning** of the variant (`Meaning` = the right-hand
    sides of `C12_matches_*`), answers `none` only for `All` outside the hypotheses of `C12_matches_all` … -/
theorem C12_oracle_spec (c : Cond) (D : List Nat) (props : List P) (b : Bool) (h : spec c D props = some b) :
    (b = true ↔ Meaning c D props) ∧ (c = .all → D.Nodup ∧ (names props).Nodup ∧ D ⊆ names props) :=
  spec_some_iff c D props b h

/-- … and wherever it speaks agrees with the model's `matches` -/
theorem C12_oracle_spec_model (c : Cond) (D : List Nat) (props : List P) (b : Bool) (h : spec c D props = some b) :
    «matches» c D props = b :=
  spec_eq_matches c D props b h

example : spec .all [0, 7] [⟨0, .always⟩, ⟨1, .sometimes⟩] = none ∧
    spec .anyFailures [1] [⟨0, .always⟩, ⟨1, .sometimes⟩] = some false := by decide
end C12

/-! ## C08 / C14 -/
section C08
open SR.Sem SR.Sem.Tester SR.Drv.Sem
variable {Op Ret : Type}

/-- `firstIllFormed` finds the split of `C08_illformed_split`: `none` exactly on the well-formed histories, otherwise the
    well-formed prefix, the first inadmissible event and whether it is an invocation -/
theorem C08_oracle_first_ill_formed (es : List (Event Op Ret)) :
    (firstIllFormed es = none ↔ WellFormed es) ∧
    (∀ k b, firstIllFormed es = some (k, b) →
      ∃ p e q, es = p ++ e :: q ∧ p.length = k ∧ WellFormed p ∧ ¬ Admissible p e ∧ b = isInv e) :=
  firstIllFormed_spec es

/-- **`o-res` accepts exactly the result classes of `C08_wellformed_ok` / `C08_illformed`** (`rt = true`) and of
    `C14_wellformed_ok` / `C14_illformed` (`rt = false`): `ok` up to the first inadmissible event, the matching error there,
    "earlier history invalid" ever after — which is the model's `results`, for any initial object -/
theorem C08_oracle_results {S : Type} (rt : Bool) (s0 : S) (es : List (Event Op Ret)) (rs : List Res) :
    oracleResults es rs = "ok" ↔ rs = results rt (Tester.new s0) es :=
  oracleResults_ok_iff rt s0 es rs
end C08

/-! ## checker group -/
section Chk
open SR.Checker SR.Drv.Chk

/-- **`witnessOk` (`o-chk c03`, exhaustive checkers) is the conjunction of `C03_known_property`, `C03_path`, `C03_always`,
    `C03_sometimes`, `C03_eventually`** for one reported discovery `(i, p)` -/
theorem C03_oracle_witness (c : Case) (i : Nat) (p : List Nat) :
    witnessOk c i p false = [] ↔
      ∃ pr, c.props[i]? = some pr ∧ c.g.toSys.IsPath p ∧
        (pr.exp = .always → ∃ s, p.getLast? = some s ∧ pr.toProp.cond s = false) ∧
        (pr.exp = .sometimes → ∃ s, p.getLast? = some s ∧ pr.toProp.cond s = true) ∧
        (pr.exp = .eventually → (∀ t ∈ p, pr.toProp.cond t = false) ∧ ∃ s, p.getLast? = some s ∧ c.g.toSys.succB s = []) :=
  witnessOk_nil_iff c i p

/-- the existential the verdict lines of `oracleC02` compute (`reach.any …`) ranges over exactly the reachable states -/
theorem C02_oracle_reach_any (g : Graph) (hwf : g.WF) (f : Nat → Bool) :
    g.reachList.any f = true ↔ ∃ t, g.toSys.Reach t ∧ f t = true :=
  reach_any_iff g hwf f
end Chk

end SR.COracleAudit
