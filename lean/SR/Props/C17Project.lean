import SR.Proofs.RuntimeProject
import SR.Props.C17Refine
/-!
# C17 (projection) — each thread of the system-level runtime IS a run of the single-thread loop machine

Property theorems only.  System level: `SR/Runtime/System.lean` (`rstep`, `rrun`; what `C17_refines_*` is about).
Loop machine: `SR/Runtime/Loop.lean` (`Loop.step`, `Loop.run`, `Loop.accepts`; what real `spawn()` logs are replayed
against).  Definitions (`SR/Proofs/RuntimeProject.lean`):

* `pcfg i : Loop.Cfg Nat`  the loop machine of thread `i`: messages are their own bytes (`ser m = some [m]`,
  `de [m] = some m`), ids are indices (thread `j` has address `addrOf j`), `strict = false`, default `never` /
  `chooseSpan` (the constants of `System.lean`);
* `trCmd`  the tables' commands as loop commands; the model's `SetTimer t` (no range) is `set t 0 never`;
* `proj sys i ls`  THE PROJECTION of the run `ls` from `rinit sys` onto thread `i`: `start i` ↦ `start`, `deliver e`
  with `e.dst = i` ↦ `msg now (addrOf e.src) [e.msg] stIn out cmds`, `fire i k` ↦ `fire now k stIn out cmds` (state and
  commands as the handler tables return them, `now` = the system clock), each followed by one `exec now pick` per
  command with the label's picks; `lose`, `tick` and the steps of other threads ↦ nothing;
* `projLog sys i ls`  its handler events (what an instrumented actor logs; `Loop.accepts` re-inserts the `exec`s);
* `Blk`, `evsOf`, `lblsOf`, `Conf`, `Sched`  schedules for the converse, see `C17_project_compose_partial`;
* `scfg i`, `StrictSched sys i rs ls`  the strict machine / runs that schedule thread `i` as the code does;
The system's `fire` guard is `deadline < now`, as the loop machine's and the code's (at `deadline = now` the code takes
the receive branch with a zero read timeout and the thread dies), so EVERY system run projects: no side condition.
-/
namespace SR.C17
open SR SR.Actor SR.RtSys SR.IdCodec

variable {σ η : Type} [DecidableEq σ]

/-- **Every thread of a system run is a run of the loop machine.**  For every system run and every thread `i`,
the projected event list is a run of `Loop.step` (configuration `pcfg i`: the acceptance
machine `strict = false`, with the real picks) from `Loop.init`; it ends between two handlers (`queue = []`), alive,
its clock not ahead of the system's, in the actor state of thread `i`; the interrupt table of the loop state is a
lower bound of thread `i`'s table (same keys armed, deadlines `≤`), and it IS thread `i`'s table when no handler
emits `ChooseRandom` (the hypothesis of `C17_refines_*`; with `ChooseRandom` the acceptance machine arms every
candidate at once, see `C17_project_choose_lower_bound`). -/
theorem C17_project_thread (sys : ActorSys σ η) (i : Nat) {ls : List Lbl} {rs : RSt σ η}
    (h : rrun sys (rinit sys) ls = some rs) :
    ∃ a, Loop.run (pcfg i) Loop.init (proj sys i ls) = some a ∧
      a.st = rs.st i ∧ a.queue = [] ∧ a.dead = false ∧ a.now ≤ rs.now ∧
      Loop.IntsLe (rs.ints i) a.ints ∧ (NoRandom sys → a.ints = rs.ints i) := by
  obtain ⟨a, hr, hm⟩ := sim_run sys i true ls _ rs _ (match_init (Ex sys true) sys i) (fun _ => inv_rinit sys) h
  exact ⟨a, hr, hm.st, hm.queue, hm.alive, hm.now, hm.le, fun hn => hm.eq ⟨rfl, hn⟩⟩

/-- **On runs that schedule thread `i` as the code does, the projection is a run of the STRICT loop machine**
(`scfg i`: `strict = true`, same codec) — `StrictSched`: every fire of `i` takes an entry with the minimum deadline,
strictly overdue; a datagram reaches `i` only while all its deadlines are ahead (the system allows any overdue entry
and deliveries at any time: deliberate over-approximations).  The strict machine executes `ChooseRandom` as the
system does (one value, deadline `now + delay`), so here the interrupt table of the loop state IS thread `i`'s
table for ALL handler tables. -/
theorem C17_project_thread_strict (sys : ActorSys σ η) (i : Nat) {ls : List Lbl} {rs : RSt σ η}
    (h : rrun sys (rinit sys) ls = some rs) (hs : StrictSched sys i (rinit sys) ls = true) :
    ∃ a, Loop.run (scfg i) Loop.init (proj sys i ls) = some a ∧
      a.st = rs.st i ∧ a.ints = rs.ints i ∧ a.queue = [] ∧ a.dead = false ∧ a.now ≤ rs.now := by
  obtain ⟨a, hr, hm⟩ := sim_runS sys i ls _ rs _ (matchS_init sys i) h hs
  exact ⟨a, hr, hm.st, hm.eq, hm.queue, hm.alive, hm.now⟩

/-- **The log of every thread is ACCEPTED** by the acceptance predicate real logs are validated with
(`Loop.accepts`: the handler events, each followed by one `exec` per command at the handler's time stamp with pick
0, are enabled steps of the non-strict machine), for all handler tables incl. `ChooseRandom`; the accepting run ends
in thread `i`'s actor state with lower bounds of thread `i`'s deadlines. -/
theorem C17_project_accepts (sys : ActorSys σ η) (i : Nat) {ls : List Lbl} {rs : RSt σ η}
    (h : rrun sys (rinit sys) ls = some rs) :
    Loop.accepts (pcfg i) (projLog sys i ls) = true ∧
    ∃ a, Loop.run (Loop.relax (pcfg i)) Loop.init (Loop.expand (projLog sys i ls)) = some a ∧
      a.st = rs.st i ∧ a.queue = [] ∧ Loop.IntsLe (rs.ints i) a.ints := by
  obtain ⟨a, hr, hm⟩ := sim_run sys i false ls _ rs _ (match_init (Ex sys false) sys i)
    (fun e => absurd e.1 (by simp)) h
  have he : Loop.expand (projLog sys i ls) = projFrom sys i false (rinit sys) ls := expand_projFrom sys i ls _
  have hr' : Loop.run (Loop.relax (pcfg i)) Loop.init (Loop.expand (projLog sys i ls)) = some a := by
    rw [he, relax_pcfg]; exact hr
  exact ⟨by simp [Loop.accepts, hr'], a, hr', hm.st, hm.queue, hm.le⟩

/-- **Converse, one step of one thread.**  Let the loop state `a` be thread `i` of `rs` (same actor state, same
interrupt table, between handlers, clock not ahead).  If the loop machine runs the events of a label `l` of thread
`i` (handler event with the tables' result + the `exec`s with the label's picks, `ChooseRandom`-free), and the
system-level side conditions hold — `i` is a thread, the picks stay below the horizon, a delivered datagram is in
flight — then `l` is an enabled system step and the loop state reached is thread `i` of the system state reached.
In particular a loop `fire` (`deadline < t`) is a system `fire` (the same guard). -/
theorem C17_project_compose_step (sys : ActorSys σ η) (i : Nat) {rs : RSt σ η} {a a' : LSt σ} {l : Lbl}
    {hv : LEv σ} {cmds : List Cmd} {picks : List Nat}
    (hst : a.st = rs.st i) (hints : a.ints = rs.ints i) (hq : a.queue = []) (hd : a.dead = false)
    (hnow : a.now ≤ rs.now)
    (hh : hdl sys i rs l = some (hv, cmds, picks))
    (hrun : Loop.run (pcfg i) a (projStep sys i true rs l) = some a')
    (hi : i < sys.n) (hp : picksOk rs.now picks = true)
    (hfl : ∀ e keep pks, l = .deliver e keep pks → e ∈ rs.flight) (hnc : ∀ c ∈ cmds, isChoose c = false) :
    ∃ rs', rstep sys rs l = some rs' ∧
      a'.st = rs'.st i ∧ a'.ints = rs'.ints i ∧ a'.queue = [] ∧ a'.dead = false ∧ a'.now ≤ rs'.now := by
  have hm : Match True i rs a := ⟨hd, hq, hnow, hst, by rw [hints]; exact intsLe_refl _, fun _ => hints⟩
  obtain ⟨rs', h1, hm'⟩ := compose_step sys i hm hh hrun hi hp hfl hnc
  exact ⟨rs', h1, hm'.st, hm'.eq trivial, hm'.queue, hm'.alive, hm'.now⟩

/-- **Converse for whole runs, GIVEN A SCHEDULE (partial).**  Let `gs` be a schedule: the handler invocations of all
threads (`Blk`: thread, handler event as logged, commands, picks) interleaved along a common clock, such that
(`Sched sys 0 [] gs`) the time stamps do not decrease and stay below the horizon, the actors conform to the handler
tables (`Conf`; datagrams are one number from a valid IPv4 address), no `ChooseRandom`, and EVERY RECEIVED DATAGRAM
WAS SENT by an earlier invocation of the schedule.  If the event list of every thread (`evsOf i gs`: its handler
events, each followed by its `exec`s at the same clock reading with the real picks) is a run of its loop machine,
then `lblsOf gs` (a clock tick and the step of each invocation; received datagrams stay in flight) is a run of the
system, it ends in the loop states' actor states and interrupt tables, and its projection onto every thread is that
thread's event list again.

Missing for the full `C17_project_compose`: (1) the schedule is a hypothesis — it is not constructed from the
threads' own time stamps (merging by a common clock so that each receive comes after its send); (2) the loop runs
are runs with the REAL picks whose `exec`s happen at the handler's clock reading (the system executes all commands
of a handler at one reading; the loop lets the clock advance in between, which `SetTimer` picks absorb but
`CancelTimer` / `ChooseRandom` deadlines do not) — from `Loop.accepts` alone (pick 0 = lower bounds of the
deadlines) no system run can be built: the acceptance machine accepts fires before the real deadline;
(3) no `ChooseRandom`. -/
theorem C17_project_compose_partial (sys : ActorSys σ η) (gs : List (Blk σ)) (A : Nat → LSt σ)
    (hs : Sched sys 0 [] gs)
    (hrun : ∀ i, i < sys.n → Loop.run (pcfg i) Loop.init (evsOf i gs) = some (A i)) :
    ∃ rs, rrun sys (rinit sys) (lblsOf gs) = some rs ∧
      ∀ i, i < sys.n → rs.st i = (A i).st ∧ rs.ints i = (A i).ints ∧ proj sys i (lblsOf gs) = evsOf i gs := by
  obtain ⟨rs, h1, h2⟩ := compose_run sys gs (rinit sys) [] (fun _ => Loop.init) A
    (fun i _ => match_init True sys i) (fun _ h => by cases h) hs hrun
  exact ⟨rs, h1, fun i hi => ⟨((h2 i hi).1.st).symm, ((h2 i hi).1.eq trivial).symm, (h2 i hi).2⟩⟩

/-! ## where the two machines (do not) differ -/

/-- the pinger arms its timer with duration 0 and fires it at the same clock reading -/
def ppZeno : List Lbl := [.start 0 [0, 0], .fire 0 (.timeout 7) [0, 0]]

/-- **Remark: `fire` at `deadline = now` is a step of NEITHER machine** (an earlier version of `System.lean` had the
guard `deadline ≤ now`, which allowed Zeno runs the loop machine rejects; in the code `deadline = now` is the
`zeroWait` panic).  The system rejects the run, the loop machine rejects its projection; with a clock tick before
each fire both accept. -/
theorem C17_project_fire_at_deadline :
    (rrun pingPong (rinit pingPong) ppZeno).isSome = false ∧
    (Loop.run (pcfg 0) Loop.init (proj pingPong 0 ppZeno)).isSome = false ∧
    (rrun pingPong (rinit pingPong)
      [.start 0 [0, 0], .tick 1, .fire 0 (.timeout 7) [0, 0], .tick 2, .fire 0 (.timeout 7) [0, 0]]).isSome = true ∧
    (Loop.run (pcfg 0) Loop.init (proj pingPong 0
      [.start 0 [0, 0], .tick 1, .fire 0 (.timeout 7) [0, 0], .tick 2, .fire 0 (.timeout 7) [0, 0]])).isSome = true := by
  decide

/-- one actor whose `on_start` emits `ChooseRandom(_, [5, 6])` -/
def rndTwoVals := rndSys [.chooseRandom 0 [5, 6]]

/-- **`ChooseRandom`**: the system (as the code, and as the STRICT loop machine) arms the ONE chosen value at
`now + delay`; the acceptance machine arms every candidate at the lower bound `now`.  The projection is still a run
and the loop's table is a lower bound (`C17_project_thread`), but it is not thread `i`'s table, and the acceptance
machine then accepts `on_random(5)`, which the system state cannot do. -/
theorem C17_project_choose_lower_bound :
    (rrun rndTwoVals (rinit rndTwoVals) [.start 0 [3]]).map (fun rs => rs.ints 0) = some [(.random 6, 1)] ∧
    (Loop.run (pcfg 0) Loop.init (proj rndTwoVals 0 [.start 0 [3]])).map (·.ints)
      = some [(.random 5, 0), (.random 6, 0)] ∧
    (rrun rndTwoVals (rinit rndTwoVals) [.start 0 [3], .tick 9, .fire 0 (.random 5) []]).isSome = false ∧
    (Loop.run (pcfg 0) Loop.init (proj rndTwoVals 0 [.start 0 [3]] ++ [.fire 9 (.random 5) 0 5 []])).isSome = true := by
  decide

/-! ## non-vacuity: the ping-pong run of `Props/C17Refine.lean`, projected onto both threads -/

-- the projections themselves
example : proj pingPong 0 ppRun =
    [ .start 0 0 [.send 1 0, .set 7 0 never], .exec 0 0, .exec 0 100,
      .fire 150 (.timeout 7) 0 0 [.send 1 0, .set 7 0 never], .exec 150 0, .exec 150 100,
      .msg 150 (addrOf 1) [0] 0 1 [.send 1 1, .cancel 7, .set 7 0 never], .exec 150 0, .exec 150 0, .exec 150 200,
      .fire 400 (.timeout 7) 1 1 [.send 1 1, .set 7 0 never], .exec 400 0, .exec 400 50 ] := by rfl
example : proj pingPong 1 ppRun =
    [ .start 0 0 [], .msg 150 (addrOf 0) [0] 0 1 [.send 0 0], .exec 150 0, .msg 150 (addrOf 0) [0] 1 1 [] ] := by rfl
-- the hypotheses hold
example : (rrun pingPong (rinit pingPong) ppRun).isSome = true := by decide
-- both projections are runs of the loop machine and end in the threads' states and interrupt tables
example : (Loop.run (pcfg 0) Loop.init (proj pingPong 0 ppRun)).map (fun a => (a.st, a.ints, a.queue.length, a.dead))
    = (rrun pingPong (rinit pingPong) ppRun).map (fun rs => (rs.st 0, rs.ints 0, 0, false)) := by decide
example : (Loop.run (pcfg 1) Loop.init (proj pingPong 1 ppRun)).map (fun a => (a.st, a.ints, a.queue.length, a.dead))
    = (rrun pingPong (rinit pingPong) ppRun).map (fun rs => (rs.st 1, rs.ints 1, 0, false)) := by decide
example : (Loop.run (pcfg 0) Loop.init (proj pingPong 0 ppRun)).map (fun a => (a.st, a.ints, a.now))
    = some (some 1, [(.timeout 7, 450)], 400) := by decide
-- the datagrams thread 0 sent / the `on_msg` calls of thread 1 (sender ids through the address codec)
example : (Loop.run (pcfg 0) Loop.init (proj pingPong 0 ppRun)).map (·.sent)
    = some [(addrOf 1, [0]), (addrOf 1, [0]), (addrOf 1, [1]), (addrOf 1, [1])] := by decide
example : (Loop.run (pcfg 1) Loop.init (proj pingPong 1 ppRun)).map (fun a => Loop.msgCalls a.calls)
    = some [(0, 0), (0, 0)] := by decide
-- the run schedules both threads as the code does: the projections are runs of the STRICT machine as well
example : StrictSched pingPong 0 (rinit pingPong) ppRun = true ∧ StrictSched pingPong 1 (rinit pingPong) ppRun = true := by
  decide
example : (Loop.run (scfg 0) Loop.init (proj pingPong 0 ppRun)).map (fun a => (a.st, a.ints))
    = (rrun pingPong (rinit pingPong) ppRun).map (fun rs => (rs.st 0, rs.ints 0)) := by decide
-- ... and with `ChooseRandom` the strict machine has the system's table (the acceptance machine has lower bounds)
example : StrictSched rndTwoVals 0 (rinit rndTwoVals) [.start 0 [3], .tick 9, .fire 0 (.random 6) []] = true ∧
    (Loop.run (scfg 0) Loop.init (proj rndTwoVals 0 [.start 0 [3]])).map (·.ints) = some [(.random 6, 1)] ∧
    (Loop.run (scfg 0) Loop.init (proj rndTwoVals 0 [.start 0 [3], .tick 9, .fire 0 (.random 6) []])).map
      (fun a => (a.st, a.ints)) = some (some 6, []) := by decide
-- both logs are accepted by the acceptance predicate
example : Loop.accepts (pcfg 0) (projLog pingPong 0 ppRun) = true := by decide
example : Loop.accepts (pcfg 1) (projLog pingPong 1 ppRun) = true := by decide
-- a fire before the deadline is no step of either machine
example : (rrun pingPong (rinit pingPong) [.start 0 [0, 100], .tick 99, .fire 0 (.timeout 7) []]).isSome = false ∧
    (Loop.run (pcfg 0) Loop.init (proj pingPong 0 [.start 0 [0, 100], .tick 99, .fire 0 (.timeout 7) []])).isSome
      = false := by decide
-- the theorems apply to the run
example : ∃ a, Loop.run (pcfg 0) Loop.init (proj pingPong 0 ppRun) = some a ∧
    a.ints = ((rrun pingPong (rinit pingPong) ppRun).get (by decide)).ints 0 := by
  obtain ⟨a, h1, _, _, _, _, _, h7⟩ :=
    C17_project_thread pingPong 0 (rs := (rrun pingPong (rinit pingPong) ppRun).get (by decide))
      (Option.some_get _).symm
  exact ⟨a, h1, h7 C17_refines_ex_noRandom⟩

/-! ## non-vacuity of the converse: a schedule of the ping-pong system -/

/-- pinger starts, ponger starts, the ping arrives, the pong arrives (timer cancelled and re-armed), time-out -/
def ppSched : List (Blk Nat) :=
  [ ⟨0, .start 0 0 [.send 1 0, .set 7 0 never], [.send 1 0, .setTimer 7], [0, 100]⟩,
    ⟨1, .start 5 0 [], [], []⟩,
    ⟨1, .msg 20 (addrOf 0) [0] 0 1 [.send 0 0], [.send 0 0], []⟩,
    ⟨0, .msg 30 (addrOf 1) [0] 0 1 [.send 1 1, .cancel 7, .set 7 0 never], [.send 1 1, .cancelTimer 7, .setTimer 7],
      [0, 0, 200]⟩,
    ⟨0, .fire 300 (.timeout 7) 1 1 [.send 1 1, .set 7 0 never], [.send 1 1, .setTimer 7], [0, 50]⟩ ]

theorem C17_project_compose_ex_sched : Sched pingPong 0 [] ppSched := by
  refine ⟨by decide, by decide, by decide, by decide, ⟨rfl, rfl, rfl⟩, (by unfold NoChoose; decide), fun e he => (by cases he), ?_⟩
  refine ⟨by decide, by decide, by decide, by decide, ⟨rfl, rfl, rfl⟩, (by unfold NoChoose; decide), fun e he => (by cases he), ?_⟩
  refine ⟨by decide, by decide, by decide, by decide, ⟨by decide, 0, some 1, rfl, rfl, rfl, rfl⟩, (by unfold NoChoose; decide), ?_, ?_⟩
  · intro e he
    simp only [Blk.recv, Option.some.injEq] at he
    subst he; decide
  refine ⟨by decide, by decide, by decide, by decide, ⟨by decide, 0, some 1, rfl, rfl, rfl, rfl⟩, (by unfold NoChoose; decide), ?_, ?_⟩
  · intro e he
    simp only [Blk.recv, Option.some.injEq] at he
    subst he; decide
  exact ⟨by decide, by decide, by decide, by decide, ⟨none, rfl, rfl, rfl⟩, (by unfold NoChoose; decide), fun e he => (by cases he), trivial⟩

example : ∀ i, i < 2 → (Loop.run (pcfg i) Loop.init (evsOf i ppSched)).isSome = true := by decide
example : lblsOf ppSched =
    [ .tick 0, .start 0 [0, 100], .tick 5, .start 1 [], .tick 20, .deliver ⟨0, 1, 0⟩ true [],
      .tick 30, .deliver ⟨1, 0, 0⟩ true [0, 0, 200], .tick 300, .fire 0 (.timeout 7) [0, 50] ] := by decide
example : (rrun pingPong (rinit pingPong) (lblsOf ppSched)).map (fun rs => (rs.st 0, rs.ints 0, rs.st 1, (rs.ints 1).length))
    = some (some 1, [(.timeout 7, 350)], some 1, 0) := by decide
-- the theorem applies
example : ∃ rs, rrun pingPong (rinit pingPong) (lblsOf ppSched) = some rs ∧
    proj pingPong 0 (lblsOf ppSched) = evsOf 0 ppSched ∧ proj pingPong 1 (lblsOf ppSched) = evsOf 1 ppSched := by
  obtain ⟨rs, h1, h2⟩ := C17_project_compose_partial pingPong ppSched
    (fun i => (Loop.run (pcfg i) Loop.init (evsOf i ppSched)).getD Loop.init) C17_project_compose_ex_sched
    (fun i hi => by
      have h : (Loop.run (pcfg i) Loop.init (evsOf i ppSched)).isSome = true := by
        revert i; decide
      obtain ⟨x, hx⟩ := Option.isSome_iff_exists.1 h
      simp [hx])
  exact ⟨rs, h1, (h2 0 (by decide)).2.2, (h2 1 (by decide)).2.2⟩

end SR.C17
