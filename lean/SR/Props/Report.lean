import SR.Checker.Report
import SR.Proofs.PathApi
/-!
# The text of `Checker::report` / `Checker::join_and_report` with `WriteReporter` (C02, C03, C19)

Property theorems only.  Model: `SR/Checker/Report.lean` (src/checker.rs `report`, `join_and_report`; src/report.rs
`WriteReporter`).  The report is what a user reads after a check, so the verdicts (C02), the witnesses (C03) and the
`Path` text / encoding (C19) are observed through it:

* `C03_report_lists_every_discovery_once`  every discovery is listed exactly once, in strictly ascending NAME order;
* `C03_report_order_independent`           the iteration order of the `discoveries()` hash map does not matter;
* `C03_report_entry`, `C02_report_sometimes_never_counterexample`
                                           each entry carries the discovery's own path and the classification of
                                           `discovery_classification`; a `sometimes` property is never reported as a
                                           counterexample (and a failure never as an example);
* `C19_report_path_shape`, `C19_report_fingerprint_line`
                                           `Path[k]:` is followed by exactly `k` action lines, the `Fingerprint path:` line
                                           has `k + 1` fingerprints and is exactly the stored fingerprint path.
-/
namespace SR.CReport
open SR SR.PathApi SR.Checker.Assert SR.Checker.Report

variable {σ : Type}

/-- the entries are in strictly ascending name order -/
def Ascending (es : List (Entry σ)) : Prop := es.Pairwise fun a b => a.name < b.name

theorem C03_string_lt_of_ne_of_not_lt {a b : String} (hne : a ≠ b) (h : ¬ a < b) : b < a := by
  apply Classical.byContradiction
  intro h'
  exact hne (String.le_antisymm (String.not_lt.1 h') (String.not_lt.1 h))

/-- `BTreeMap::insert`: membership -/
theorem C03_btInsert_mem (e : Entry σ) (es : List (Entry σ)) (x : Entry σ) :
    x ∈ btInsert e es → x = e ∨ x ∈ es := by
  induction es with
  | nil => simp [btInsert]
  | cons y ys ih =>
    unfold btInsert
    split
    · simp only [List.mem_cons]; intro h; rcases h with h | h | h <;> simp [h]
    · split
      · simp only [List.mem_cons]; intro h; rcases h with h | h <;> simp [h]
      · simp only [List.mem_cons]; intro h
        rcases h with h | h
        · exact Or.inr (Or.inl h)
        · rcases ih h with h | h
          · exact Or.inl h
          · exact Or.inr (Or.inr h)

/-- `BTreeMap::insert` keeps the keys ascending -/
theorem C03_btInsert_ascending (e : Entry σ) (es : List (Entry σ)) (h : Ascending es) : Ascending (btInsert e es) := by
  induction es with
  | nil => simp [btInsert, Ascending]
  | cons y ys ih =>
    have hy := (List.pairwise_cons.1 h)
    unfold btInsert
    split
    · rename_i hlt
      refine List.pairwise_cons.2 ⟨?_, h⟩
      intro a ha
      rcases List.mem_cons.1 ha with rfl | ha
      · exact hlt
      · exact String.lt_trans hlt (hy.1 a ha)
    · split
      · rename_i _ heq
        refine List.pairwise_cons.2 ⟨?_, hy.2⟩
        intro a ha
        rw [heq]; exact hy.1 a ha
      · rename_i hnlt hne
        refine List.pairwise_cons.2 ⟨?_, ih hy.2⟩
        intro a ha
        rcases C03_btInsert_mem e ys a ha with rfl | ha
        · exact C03_string_lt_of_ne_of_not_lt hne hnlt
        · exact hy.1 a ha

/-- inserting a NEW key adds exactly that entry -/
theorem C03_btInsert_perm (e : Entry σ) (es : List (Entry σ)) (hnew : ∀ x ∈ es, x.name ≠ e.name) :
    (btInsert e es).Perm (e :: es) := by
  induction es with
  | nil => simp [btInsert]
  | cons y ys ih =>
    unfold btInsert
    split
    · exact List.Perm.refl _
    · split
      · rename_i heq
        exact absurd heq.symm (hnew y (List.mem_cons_self))
      · exact ((ih fun x hx => hnew x (List.mem_cons_of_mem _ hx)).cons y).trans (List.Perm.swap e y ys)

/-- two ascending lists with the same entries are the same list -/
theorem C03_ascending_perm_eq {es es' : List (Entry σ)} (h : Ascending es) (h' : Ascending es') (hp : es.Perm es') :
    es = es' := by
  induction es generalizing es' with
  | nil => exact (List.Perm.nil_eq hp)
  | cons a t ih =>
    cases es' with
    | nil => exact absurd hp (List.cons_ne_nil _ _ ∘ List.Perm.eq_nil)
    | cons b t' =>
      have ha := List.pairwise_cons.1 h
      have hb := List.pairwise_cons.1 h'
      have hab : a = b := by
        have h1 : a ∈ b :: t' := hp.subset (List.mem_cons_self)
        have h2 : b ∈ a :: t := hp.symm.subset (List.mem_cons_self)
        rcases List.mem_cons.1 h1 with h1 | h1
        · exact h1
        · rcases List.mem_cons.1 h2 with h2 | h2
          · exact h2.symm
          · exact absurd (ha.1 b h2) (String.lt_asymm (hb.1 a h1))
      subst hab
      rw [ih ha.2 hb.2 (List.Perm.cons_inv hp)]

/-- the fold of `report`: from an ascending accumulator whose names are all different from the names still to come -/
theorem C03_entries_fold (names : List String) (props : List (Prop' σ)) :
    ∀ (disc : List (Nat × Path σ Nat)) (l : List (Entry σ)) (acc : List (Entry σ)),
      disc.map (entryOf names props) = l.map some →
      (l.map (·.name)).Nodup → (∀ x ∈ acc, ∀ e ∈ l, x.name ≠ e.name) → Ascending acc →
      ∃ es, disc.foldlM (addDiscovery names props) acc = some es ∧ Ascending es ∧ es.Perm (l.reverse ++ acc) := by
  intro disc
  induction disc with
  | nil =>
    intro l acc hl _ _ hacc
    cases l with
    | nil => exact ⟨acc, rfl, hacc, by simp⟩
    | cons _ _ => simp at hl
  | cons d ds ih =>
    intro l acc hl hnd hnew hacc
    cases l with
    | nil => simp at hl
    | cons e l' =>
      simp only [List.map_cons, List.cons.injEq] at hl
      simp only [List.map_cons, List.nodup_cons] at hnd
      have hstep : addDiscovery names props acc d = some (btInsert e acc) := by simp [addDiscovery, hl.1]
      have hnew' : ∀ x ∈ btInsert e acc, ∀ e' ∈ l', x.name ≠ e'.name := by
        intro x hx e' he'
        rcases C03_btInsert_mem e acc x hx with rfl | hx
        · intro heq; exact hnd.1 (heq ▸ List.mem_map_of_mem he')
        · exact hnew x hx e' (List.mem_cons_of_mem _ he')
      obtain ⟨es, hes, hasc, hperm⟩ := ih l' (btInsert e acc) hl.2 hnd.2 hnew' (C03_btInsert_ascending e acc hacc)
      refine ⟨es, ?_, hasc, ?_⟩
      · rw [List.foldlM_cons, hstep]; exact hes
      · refine hperm.trans ?_
        have hp := C03_btInsert_perm e acc (fun x hx => hnew x hx e (List.mem_cons_self))
        simp only [List.reverse_cons, List.append_assoc, List.singleton_append]
        exact List.Perm.append_left _ hp

/-- what `report` needs of the discoveries: distinct property names, one path per property (`discoveries()` is a map),
    every discovery belongs to a property -/
structure WellFormed (names : List String) (props : List (Prop' σ)) (disc : List (Nat × Path σ Nat)) : Prop where
  namesNodup : names.Nodup
  lengths : names.length = props.length
  discNodup : (disc.map (·.1)).Nodup
  inRange : ∀ d ∈ disc, d.1 < props.length

/-- under `WellFormed` every discovery has an entry, and different discoveries have different names -/
theorem C03_entryOf_total (names : List String) (props : List (Prop' σ)) (disc : List (Nat × Path σ Nat))
    (wf : WellFormed names props disc) :
    ∃ l : List (Entry σ), disc.map (entryOf names props) = l.map some ∧ (l.map (·.name)).Nodup := by
  obtain ⟨hn, hlen, hd, hr⟩ := wf
  induction disc with
  | nil => exact ⟨[], rfl, by simp⟩
  | cons d ds ih =>
    simp only [List.map_cons, List.nodup_cons] at hd
    obtain ⟨l, hl, hnd⟩ := ih hd.2 (fun x hx => hr x (List.mem_cons_of_mem _ hx))
    have hlt : d.1 < props.length := hr d (List.mem_cons_self)
    have hlt' : d.1 < names.length := hlen ▸ hlt
    obtain ⟨c, hc⟩ : ∃ c, classification props d.1 = some c := by
      cases hx : props[d.1].exp <;> simp [classification, List.getElem?_eq_getElem hlt, hx]
    refine ⟨{ name := names[d.1], cls := c, path := d.2 } :: l, ?_, ?_⟩
    · simp [entryOf, List.getElem?_eq_getElem hlt', hc, hl]
    · simp only [List.map_cons, List.nodup_cons]
      refine ⟨?_, hnd⟩
      intro hmem
      obtain ⟨e, he, hname⟩ := List.mem_map.1 hmem
      -- `e` is the entry of some later discovery `d'`, whose name is `names[d'.1]`
      have : some e ∈ ds.map (entryOf names props) := by rw [hl]; exact List.mem_map_of_mem he
      obtain ⟨d', hd', hent⟩ := List.mem_map.1 this
      have hlt2 : d'.1 < names.length := hlen ▸ hr d' (List.mem_cons_of_mem _ hd')
      have hname' : e.name = names[d'.1] := by
        unfold entryOf at hent
        rw [List.getElem?_eq_getElem hlt2] at hent
        split at hent
        · rename_i n c' hn' _
          simp only [Option.some.injEq] at hn' hent
          rw [← hent, ← hn']
        · cases hent
      have hidx : d'.1 = d.1 := by
        exact (List.getElem_inj hn).mp (by rw [← hname', hname])
      exact hd.1 (hidx ▸ List.mem_map_of_mem hd')

/-- **every discovery is listed exactly once, in strictly ascending name order**: the summary handed to
    `report_discoveries` exists (no panic), its names ascend strictly, and its entries are — up to order — exactly the
    entries of the discoveries (`es.map some` is a permutation of `disc.map entryOf`: no discovery is dropped, none is
    listed twice, nothing else is listed). -/
theorem C03_report_lists_every_discovery_once (names : List String) (props : List (Prop' σ))
    (disc : List (Nat × Path σ Nat)) (wf : WellFormed names props disc) :
    ∃ es, entries names props disc = some es ∧ Ascending es ∧
      (es.map some).Perm (disc.map (entryOf names props)) := by
  obtain ⟨l, hl, hnd⟩ := C03_entryOf_total names props disc wf
  obtain ⟨es, hes, hasc, hperm⟩ :=
    C03_entries_fold names props disc l [] hl hnd (by simp) (by simp [Ascending])
  refine ⟨es, hes, hasc, ?_⟩
  rw [hl]
  simp only [List.append_nil] at hperm
  exact (hperm.trans (List.reverse_perm l)).map some

/-- **the iteration order of `discoveries()` (a hash map) does not matter** -/
theorem C03_report_order_independent (names : List String) (props : List (Prop' σ))
    (disc disc' : List (Nat × Path σ Nat)) (wf : WellFormed names props disc) (hp : disc.Perm disc') :
    entries names props disc = entries names props disc' := by
  have wf' : WellFormed names props disc' :=
    ⟨wf.namesNodup, wf.lengths, (hp.map _).nodup_iff.1 wf.discNodup, fun d hd => wf.inRange d (hp.mem_iff.2 hd)⟩
  obtain ⟨es, hes, hasc, hperm⟩ := C03_report_lists_every_discovery_once names props disc wf
  obtain ⟨es', hes', hasc', hperm'⟩ := C03_report_lists_every_discovery_once names props disc' wf'
  have h1 : (es.map some).Perm (es'.map some) := hperm.trans ((hp.map _).trans hperm'.symm)
  have h2 := h1.filterMap id
  simp only [List.filterMap_map, Function.comp_def, id, List.filterMap_some] at h2
  rw [hes, hes', C03_ascending_perm_eq hasc hasc' h2]

/-- each entry is its discovery: the property's name, the discovery's own path, the classification of
    `discovery_classification` -/
theorem C03_report_entry (names : List String) (props : List (Prop' σ)) (d : Nat × Path σ Nat) (e : Entry σ)
    (h : entryOf names props d = some e) :
    names[d.1]? = some e.name ∧ e.path = d.2 ∧ classification props d.1 = some e.cls := by
  unfold entryOf at h
  split at h
  · rename_i n c hn hc
    simp only [Option.some.injEq] at h
    subst h
    exact ⟨hn, rfl, hc⟩
  · cases h

/-- **a `sometimes` property is never reported as a counterexample, an `always` / `eventually` property never as an
    example** — in the entry and in the text: the block of the entry starts with `Discovered "<name>" example …`
    exactly for `sometimes` properties. -/
theorem C02_report_sometimes_never_counterexample (names : List String) (props : List (Prop' σ))
    (d : Nat × Path σ Nat) (e : Entry σ) (h : entryOf names props d = some e) (key : σ → Nat) :
    ∃ pr, props[d.1]? = some pr ∧
      (pr.exp = .sometimes → e.cls = .example ∧
        (entryLines key e).head? = some s!"Discovered \"{e.name}\" example Path[{d.2.length - 1}]:") ∧
      (pr.exp ≠ .sometimes → e.cls = .counterexample ∧
        (entryLines key e).head? = some s!"Discovered \"{e.name}\" counterexample Path[{d.2.length - 1}]:") := by
  obtain ⟨_, hpath, hcls⟩ := C03_report_entry names props d e h
  unfold classification at hcls
  cases hp : props[d.1]? with
  | none => simp [hp] at hcls
  | some pr =>
    refine ⟨pr, rfl, ?_, ?_⟩
    · intro hx
      simp only [hp, hx, Option.some.injEq] at hcls
      refine ⟨hcls.symm, ?_⟩
      simp only [entryLines, List.head?_cons, ← hcls, clsStr, hpath, toString, String.append_assoc]
      congr 3
    · intro hx
      have : e.cls = .counterexample := by
        cases hexp : pr.exp <;> simp only [hp, hexp, Option.some.injEq] at hcls
        · exact hcls.symm
        · exact hcls.symm
        · exact absurd hexp hx
      refine ⟨this, ?_⟩
      simp only [entryLines, List.head?_cons, this, clsStr, hpath, toString, String.append_assoc]
      congr 3

/-- the number of actions of an execution is its number of states minus one -/
theorem C19_exec_actions_length {M : Sys σ Nat} {s : σ} {p : Path σ Nat} (h : ExecFrom M s p) :
    (intoActions p).length + 1 = p.length := by
  induction h with
  | last s => simp [intoActions]
  | step _ _ _ ih => simp only [intoActions, List.filterMap_cons, List.length_cons] at ih ⊢; omega

/-- **shape of one block**: for a path that is an execution, the header says `Path[k]:` with `k` = the number of
    `- action` lines that follow, the `Fingerprint path:` line encodes `k + 1` fingerprints, and the block has `k + 2`
    lines. -/
theorem C19_report_path_shape {M : Sys σ Nat} (key : σ → Nat) {s : σ} (e : Entry σ) (h : ExecFrom M s e.path) :
    (actionLines e.path).length = e.path.length - 1 ∧ (encode key e.path).length = (e.path.length - 1) + 1 ∧
    (entryLines key e).length = (e.path.length - 1) + 2 := by
  have := C19_exec_actions_length h
  simp only [actionLines, entryLines, encode, List.length_map, List.length_cons, List.length_append, List.length_nil]
  omega

/-- **the paths of a real report**: `discoveries()` rebuilds every stored fingerprint path; if that succeeds (no panic)
    the rebuilt discoveries are, in the same order and for the same properties, executions of the model whose
    `Fingerprint path:` line (`encode`) is exactly the stored fingerprint path. -/
theorem C19_report_fingerprint_line (M : Sys σ Nat) (key : σ → Nat) (stored : List (Nat × List Nat))
    (disc : List (Nat × Path σ Nat)) (h : rebuild M key stored = some disc) :
    stored = disc.map (fun d => (d.1, encode key d.2)) ∧ ∀ d ∈ disc, IsExec M d.2 := by
  unfold rebuild at h
  induction stored generalizing disc with
  | nil =>
    simp only [List.mapM_nil] at h
    cases h
    exact ⟨rfl, by simp⟩
  | cons s ss ih =>
    rw [List.mapM_cons] at h
    cases hf : fromFingerprints M key s.2 with
    | none => simp [hf] at h
    | some p =>
      cases hr : ss.mapM (fun d => (fromFingerprints M key d.2).map fun p => (d.1, p)) with
      | none => simp [hf, hr] at h
      | some rest =>
        simp [hf, hr] at h
        subst h
        obtain ⟨he, hk⟩ := fromFingerprints_sound M key s.2 p hf
        obtain ⟨h1, h2⟩ := ih rest hr
        refine ⟨?_, ?_⟩
        · simp only [List.map_cons, hk, ← h1]
        · intro d hd
          rcases List.mem_cons.1 hd with rfl | hd
          · exact he
          · exact h2 d hd

/-! ### the hypotheses are satisfiable, and the text on a concrete instance -/

def exProps : List (Prop' Nat) :=
  [{ exp := .always, cond := fun s => s != 2 }, { exp := .sometimes, cond := fun s => s == 1 },
   { exp := .eventually, cond := fun _ => false }]
def exNames : List String := ["p2", "p10", "Zed"]
def exDisc : List (Nat × Path Nat Nat) :=
  [(0, [(0, some 1), (2, none)]), (1, [(0, some 0), (1, none)]), (2, [(0, some 0), (1, some 0), (3, none)])]

example : WellFormed exNames exProps exDisc :=
  ⟨by decide, rfl, by decide, by decide⟩

/-- name order (`Zed` < `p10` < `p2`) is neither the index order nor the numeric order -/
example : reportText id exNames exProps { states := 7, unique := 4, depth := 3 } exDisc =
    "Done. states=7, unique=4, depth=3, sec=_|Discovered \"Zed\" counterexample Path[2]:|- 0|- 0|Fingerprint path: 0/1/3|Discovered \"p10\" example Path[1]:|- 0|Fingerprint path: 0/1|Discovered \"p2\" counterexample Path[1]:|- 1|Fingerprint path: 0/2" := by
  set_option maxRecDepth 20000 in decide

end SR.CReport
