/-! # C09 — property theorems (stub: nothing stated yet) -/
namespace SR.C09
end SR.C09
