import SR.Proofs.ActorCrash
/-!
# C09 — crash faults: every allowed crash point is explored; crashed actors stay silent

Property theorems only. Model: `SR/Actor/Sys.lean` (option 4 of `actions`, the `Crash` / `Deliver` / `Timeout` /
`SelectRandom` arms of `next_state`). The theorems quantify over all actor systems (any handlers), all crash
budgets `sys.maxCrashes` and all (reachable / well-formed) states, i.e. every point of every execution.
State identity here is structural equality of `St` (actor states, network, timers, pending choices, crash
flags, history); that `ActorModelState`'s `Hash`/`Eq` agree with it is C04's subject and is compared by the C09
harness on every discovered state. `C09_explored` (every reachable crash combination is an evaluated state of
the checker) composes `ActorSys.toSys` with the checker machine and lives with C01 (lead).
-/
namespace SR.C09
open SR SR.Actor

variable {σ η : Type}

/-- **Offered**: a crash of `i` is enabled iff `i` is up and fewer than `maxCrashes` actors are down. -/
theorem C09_offered (sys : ActorSys σ η) (st : St σ η) (i : Nat) :
    Action.crash i ∈ actions sys st ↔ st.crashed[i]? = some false ∧ countCrashed st.crashed < sys.maxCrashes := by
  simp only [actions, List.mem_append, mem_timeoutActions, mem_crashActions, mem_randomActions]
  have hnet : Action.crash i ∉ netActions sys none st.net.iterDeliverable := by
    intro h
    rcases netActions_kinds sys _ _ _ h with ⟨e, he⟩ | ⟨e, he⟩ <;> cases he
  constructor
  · rintro (((h | ⟨_, _, _, h, _⟩) | ⟨j, h, hk, hj⟩) | ⟨_, _, _, _, _, h, _⟩)
    · exact absurd h hnet
    · cases h
    · cases h; exact ⟨hj, hk⟩
    · cases h
  · rintro ⟨hj, hk⟩
    exact Or.inl (Or.inr ⟨i, rfl, hk, hj⟩)

/-- **Effect**: a crash sets the flag and discards the actor's timers and pending choices; nothing else changes. -/
theorem C09_effect (sys : ActorSys σ η) (st : St σ η) (i : Nat) (hwf : st.WF sys) (hi : i < sys.n) :
    step sys st (.crash i) = .next (crashOf i st) := by
  rw [step_eq_specStep sys st _ hwf, specStep_crash sys st i hi]

/-- **Distinct**: an enabled crash leads to a different state with one more crashed actor (also when the actor
held no timer and no pending choice), so each combination of crashed actors is a state of its own. -/
theorem C09_distinct (sys : ActorSys σ η) (st st' : St σ η) (i : Nat) (hwf : st.WF sys)
    (ha : Action.crash i ∈ actions sys st) (h : step sys st (.crash i) = .next st') :
    st' ≠ st ∧ st'.crashed ≠ st.crashed ∧ st'.crashed[i]? = some true ∧
      countCrashed st'.crashed = countCrashed st.crashed + 1 := by
  obtain ⟨hup, _⟩ := (C09_offered sys st i).1 ha
  have hlt : i < sys.n := by have := lt_length_of_getElem? hup; obtain ⟨_, _, _, hC⟩ := hwf; omega
  rw [C09_effect sys st i hwf hlt] at h
  cases h
  have h3 : (crashOf i st).crashed[i]? = some true := by
    simp [crashOf, List.getElem?_set_self (lt_length_of_getElem? hup)]
  have h2 : (crashOf i st).crashed ≠ st.crashed := by
    intro e; rw [e, hup] at h3; cases h3
  exact ⟨fun e => h2 (by rw [e]), h2, h3, countCrashed_set_true _ _ hup⟩

/-- **Invariant** of reachable states: a crashed actor holds no timer and no pending choice, and at most
`maxCrashes` actors are down. -/
theorem C09_inv (sys : ActorSys σ η) (inB : St σ η → Bool) (hc : sys.initNet.Canon) (st : St σ η)
    (h : (sys.toSys inB).Reach st) :
    (∀ i : Nat, st.crashed[i]? = some true → st.timers[i]? = some [] ∧ st.random[i]? = some []) ∧
    countCrashed st.crashed ≤ sys.maxCrashes := reach_crashInv sys inB hc h

/-- **Silent**: at a reachable state a crashed actor `i` never has a handler invoked again — a delivery to it
is not a step, and no timeout and no random selection of `i` is enabled. -/
theorem C09_silent (sys : ActorSys σ η) (inB : St σ η → Bool) (hc : sys.initNet.Canon) (st : St σ η)
    (h : (sys.toSys inB).Reach st) (i : Nat) (hi : st.crashed[i]? = some true) :
    (∀ e, e.dst = i → step sys st (.deliver e) = .ignored) ∧
    (∀ t, Action.timeout i t ∉ actions sys st) ∧
    (∀ k r, Action.selectRandom i k r ∉ actions sys st) := by
  obtain ⟨hwf, hn⟩ := reach_inv sys inB hc h
  obtain ⟨hinv, _⟩ := reach_crashInv sys inB hc h
  obtain ⟨hts, hrs⟩ := hinv i hi
  refine ⟨?_, ?_, ?_⟩
  · rintro e rfl
    rw [step_eq_specStep sys st _ hwf]
    have hlt := lt_length_of_getElem? hi
    obtain ⟨s, hs⟩ := getElem?_of_lt (l := st.actors) (i := e.dst) (by obtain ⟨hA, _, _, hC⟩ := hwf; omega)
    simp [specStep, eventOf, specHandlerStep, hs, hi, isDeliver]
  · intro t hmem
    obtain ⟨ts, h1, h2⟩ := (mem_actions_iff sys st hn _).1 hmem
    rw [hts] at h1; cases h1; simp at h2
  · intro k r hmem
    obtain ⟨m, cs, h1, h2, _⟩ := (mem_actions_iff sys st hn _).1 hmem
    rw [hrs] at h1; cases h1; simp at h2

/-- **Undelivered**: a delivery addressed to a crashed actor is not a step at all — the message stays in the
network, nothing changes (no `WF`/reachability needed beyond the vectors having an entry for the actor). -/
theorem C09_undelivered (sys : ActorSys σ η) (st : St σ η) (e : Env) (s : σ)
    (hs : st.actors[e.dst]? = some s) (hc : st.crashed[e.dst]? = some true) :
    step sys st (.deliver e) = .ignored := by
  simp [step, hs, hc]

/-- **All other actors behave as before**: after a crash of `i`, every action of another actor (and every
drop) is enabled exactly when it was, and its effect is the same — the step commutes with the crash. -/
theorem C09_others (sys : ActorSys σ η) (st : St σ η) (i : Nat) (a : Action) (hwf : st.WF sys) (hn : st.NetOk sys)
    (hother : actorOfAction a ≠ some i) (hnc : ∀ k, a ≠ .crash k) :
    (a ∈ actions sys (crashOf i st) ↔ a ∈ actions sys st) ∧
    step sys (crashOf i st) a = (step sys st a).map (crashOf i) := by
  constructor
  · have hn' : (crashOf i st).NetOk sys := hn
    rw [mem_actions_iff sys _ hn', mem_actions_iff sys st hn]
    cases a with
    | deliver e => exact Iff.rfl
    | drop e => exact Iff.rfl
    | crash k => exact absurd rfl (hnc k)
    | timeout j t =>
      have hij : i ≠ j := fun e => hother (by simp [actorOfAction, e])
      simp [enabledSpec, crashOf, List.getElem?_set_ne hij]
    | selectRandom j k r =>
      have hij : i ≠ j := fun e => hother (by simp [actorOfAction, e])
      simp [enabledSpec, crashOf, List.getElem?_set_ne hij]
  · rw [step_eq_specStep sys _ a (wf_crashOf i hwf), step_eq_specStep sys st a hwf]
    exact specStep_crashOf sys st a i hother hnc

/-! ## the hypotheses are satisfiable -/

/-- two idle actors, budget 1: the witness of the former defect F1 (a crash of an idle actor) -/
def idle : Actor Nat where
  start _ := (0, [])
  msg _ _ _ _ := .ok none []
  timeout _ _ _ := .ok none []
  random _ _ _ := .ok none []

def exSys : ActorSys Nat Unit where
  n := 2
  actor _ := idle
  lossy := false
  maxCrashes := 1
  initNet := Net.dup [] none
  initHist := ()
  recordIn _ _ := none
  recordOut _ _ := none

def st0 : St Nat Unit :=
  { actors := [0, 0], net := Net.dup [] none, timers := [[], []], random := [[], []],
    crashed := [false, false], hist := () }

example : init exSys = some st0 := by decide
example : actions exSys (specInit exSys) = [.crash 0, .crash 1] := by decide
example : step exSys (specInit exSys) (.crash 1) = .next { st0 with crashed := [false, true] } := by decide
example : actions exSys (crashOf 1 (specInit exSys)) = [] := by decide

end SR.C09
