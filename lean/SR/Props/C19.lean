/-! # C19 — property theorems (stub: nothing stated yet) -/
namespace SR.C19
end SR.C19
