import SR.Proofs.PathApi
/-!
# C19 — Explorer, on-demand checking and the Path API agree with the model

Property theorems only. Model: `SR/Checker/PathApi.lean` (src/checker/path.rs, the `states` /
`status` / `get_properties` handlers of src/checker/explorer.rs, `reconstruct_path`), over an
arbitrary `Sys σ α` (= any `Model`) and a fingerprint function `key`; the fingerprint is assumed
injective exactly where the statement needs it (`inj`), as everywhere in this framework.

`IsExec M p`: `p` starts in an initial state and every step is a not-ignored action of the model
(path.rs never consults the boundary).

Not modelled: `ui/app.js`, the 4-second `recent_path` snapshot, the `svg` field.
-/
namespace SR.C19
open SR SR.PathApi

variable {σ α : Type}

/-- fingerprints → path: the encoded form of a real execution decodes (no panic) to an execution
through the same states, every step of which is a model step (the action may be another action
with the same successor), and which encodes to the same fingerprints. -/
theorem C19_fp_roundtrip (M : Sys σ α) (key : σ → Nat) (inj : ∀ x y, key x = key y → x = y)
    (p : Path σ α) (h : IsExec M p) :
    ∃ p', fromFingerprints M key (encode key p) = some p' ∧ intoStates p' = intoStates p ∧
      IsExec M p' ∧ encode key p' = encode key p :=
  fp_roundtrip M key inj p h

/-- decode then encode is the identity, and whatever `from_fingerprints` returns is an execution -/
theorem C19_encode_roundtrip (M : Sys σ α) (key : σ → Nat) (fps : List Nat) (p : Path σ α)
    (h : fromFingerprints M key fps = some p) : IsExec M p ∧ encode key p = fps :=
  fromFingerprints_sound M key fps p h

/-- actions → path: the action list of an execution, replayed from its first state, rebuilds
exactly that execution (actions determine successors); a first state that is not initial gives `None`. -/
theorem C19_actions_roundtrip [DecidableEq σ] [DecidableEq α] (M : Sys σ α) (p : Path σ α) (s : σ)
    (hs : s ∈ M.init) (h : ExecFrom M s p) :
    fromActions M s (intoActions p) = some p ∧ (∀ s' acts, s' ∉ M.init → fromActions M s' acts = none) := by
  constructor
  · simp only [fromActions, hs, if_true]; exact fromActionsAux_exec h
  · intro s' acts hn; simp [fromActions, hn]

/-- `final_state` is the last state of `from_fingerprints` (`None` where that panics), and it is
`None` exactly for fingerprint sequences that denote no execution. -/
theorem C19_final_state (M : Sys σ α) (key : σ → Nat) (fps : List Nat) :
    finalState M key fps = (fromFingerprints M key fps).bind lastState ∧
    ((∀ x y, key x = key y → x = y) →
      (finalState M key fps = none ↔ ¬ ∃ p, IsExec M p ∧ encode key p = fps)) := by
  refine ⟨finalState_eq M key fps, fun inj => ?_⟩
  rw [finalState_eq]
  constructor
  · intro hnone ⟨p, hp, hk⟩
    obtain ⟨p', hp', _, ⟨s, _, he'⟩, _⟩ := C19_fp_roundtrip M key inj p hp
    rw [hk] at hp'
    rw [hp'] at hnone
    obtain ⟨t, ht⟩ := lastState_execFrom he'
    simp [ht] at hnone
  · intro hno
    cases hf : fromFingerprints M key fps with
    | none => rfl
    | some p => exact absurd ⟨p, fromFingerprints_sound M key fps p hf⟩ hno

/-- `GET /.states<path>`: for a path that parses to the fingerprints of a real execution the answer
lists exactly the enabled actions of its final state, in order, each with its successor (ignored
actions kept, marked by `none`); the empty sequence lists the initial states; and the answer is
`Err` (HTTP 404) exactly when the path does not parse or denotes no execution. -/
theorem C19_states_view (M : Sys σ α) (key : σ → Nat) (inj : ∀ x y, key x = key y → x = y)
    (path : String) :
    (∀ fps p, parseFps path = some fps → fps ≠ [] → IsExec M p → encode key p = fps →
        ∃ s, lastState p = some s ∧ statesView M key path = some (rowsAt M s)) ∧
    (parseFps path = some [] → statesView M key path = some (M.init.map Row.init)) ∧
    (statesView M key path = none ↔
        parseFps path = none ∨
        ∃ fps, parseFps path = some fps ∧ fps ≠ [] ∧ ¬ ∃ p, IsExec M p ∧ encode key p = fps) := by
  refine ⟨?_, ?_, ?_⟩
  · intro fps p hparse hne hp hk
    obtain ⟨p', hp', hst, _, _⟩ := C19_fp_roundtrip M key inj p hp
    rw [hk] at hp'
    obtain ⟨s0, _, he⟩ := hp
    obtain ⟨t, ht⟩ := lastState_execFrom he
    refine ⟨t, ht, ?_⟩
    have hfin : finalState M key fps = some t := by
      rw [finalState_eq, hp']; simp [lastState_eq_of_states hst, ht]
    cases fps with
    | nil => exact absurd rfl hne
    | cons f r => simp only [statesView, hparse, hfin]
  · intro hparse; simp only [statesView, hparse]
  · constructor
    · intro hnone
      cases hparse : parseFps path with
      | none => exact Or.inl rfl
      | some fps =>
        right
        cases fps with
        | nil => simp [statesView, hparse] at hnone
        | cons f r =>
          refine ⟨f :: r, rfl, by simp, ?_⟩
          apply ((C19_final_state M key (f :: r)).2 inj).1
          simp only [statesView, hparse] at hnone
          cases hf : finalState M key (f :: r) with
          | none => rfl
          | some s => simp [hf] at hnone
    · rintro (hparse | ⟨fps, hparse, hne, hno⟩)
      · simp only [statesView, hparse]
      · have := ((C19_final_state M key fps).2 inj).2 hno
        cases fps with
        | nil => exact absurd rfl hne
        | cons f r => simp only [statesView, hparse, this]

/-- `GET /.status`: the four counters are the checker's; there is one triple per property, in
order, carrying the model's expectation; and every reported discovery path is the fingerprint
sequence of a real execution of the model that ends in the state the checker recorded for that
property (when that fingerprint is in `generated`). That this state violates / satisfies the
property — i.e. that the path is a C03 witness — is the checker machine's invariant (C03). -/
theorem C19_status (M : Sys σ α) (key : σ → Nat) (exps : List Expect) (snap : Snapshot) :
    let v := statusView M key exps snap
    (v.done = snap.done ∧ v.stateCount = snap.stateCount ∧ v.unique = snap.unique ∧ v.maxDepth = snap.maxDepth) ∧
    v.props.map (fun t => (t.1, t.2.1)) = exps.zipIdx ∧
    (∀ e i fps, (e, i, some fps) ∈ v.props → fps ≠ [] →
      ∃ fp p, (i, fp) ∈ snap.disc ∧ IsExec M p ∧ encode key p = fps ∧
        ((snap.gen.get fp).isSome → ∃ s, lastState p = some s ∧ key s = fp)) := by
  refine ⟨⟨rfl, rfl, rfl, rfl⟩, ?_, ?_⟩
  · simp only [statusView, propsView, List.map_map]
    conv => rhs; rw [← List.map_id (exps.zipIdx)]
    apply List.map_congr_left
    intro x _; rfl
  · intro e i fps hm hne
    simp only [statusView, propsView, List.mem_map] at hm
    obtain ⟨⟨e', i'⟩, _, heq⟩ := hm
    injection heq with h1 h2
    injection h2 with h2 h3
    subst h1 h2
    cases hf : snap.disc.find? (fun d => d.1 == i') with
    | none => rw [hf] at h3; cases h3
    | some d =>
      rw [hf] at h3
      simp only [Option.map_some, Option.some.injEq] at h3
      have hd : d.1 = i' := by have := List.find?_some hf; simpa using this
      have hmem : (i', d.2) ∈ snap.disc := by
        have := List.mem_of_find?_eq_some hf
        rw [← hd]; exact this
      cases hr : reconstructPath M key snap.gen d.2 with
      | none => rw [hr] at h3; exact absurd h3.symm hne
      | some p =>
        rw [hr] at h3
        obtain ⟨hex, hk⟩ := fromFingerprints_sound M key _ p hr
        refine ⟨d.2, p, hmem, hex, h3, ?_⟩
        intro hg
        have hl := walkBack_last snap.gen snap.gen.length d.2 hg
        rw [← hk, encode_getLast] at hl
        cases hls : lastState p with
        | none => rw [hls] at hl; cases hl
        | some s => rw [hls] at hl; simp at hl; exact ⟨s, rfl, hl⟩

/-- `reconstruct_path` (what `discoveries()` and the visitor use) on a well-formed `generated` map —
built as the checkers build it: initial states, then successors of the last state of an existing
entry pointing to that entry (`GenOK`) — never panics and returns an execution through exactly the
states of the entry's parent chain; so the discovery path shown by `/.status` for a recorded
fingerprint IS the path along which the checker generated that state. -/
theorem C19_reconstruct (M : Sys σ α) (key : σ → Nat) (inj : ∀ x y, key x = key y → x = y)
    (gp : List ((Nat × Option Nat) × List σ)) (h : GenOK M key gp)
    (fp : Nat) (par : Option Nat) (path : List σ) (hm : ((fp, par), path) ∈ gp) :
    ∃ p, reconstructPath M key (gp.map (·.1)) fp = some p ∧ intoStates p = path ∧ IsExec M p ∧
      encode key p = path.map key ∧ ∃ s, lastState p = some s ∧ key s = fp := by
  obtain ⟨p, h1, h2, h3, h4⟩ := genOK_reconstruct inj h hm
  obtain ⟨_, _, _, s, hs, hk⟩ := genOK_exec h fp par path hm
  exact ⟨p, h1, h2, h3, h4, s, by rw [lastState_eq_getLast, h2]; exact hs, hk⟩

/-- encoded form → url → fingerprints: the string `Path::encode` produces (decimal fingerprints joined
by `/`), appended to `/.states/`, is parsed by the Explorer back into exactly the path's fingerprint
sequence — for fingerprints in the range of `NonZeroU64` — so the three forms of a path (action list,
fingerprint list, encoded string) denote the same execution (`C19_fp_roundtrip`, `C19_actions_roundtrip`). -/
theorem C19_url_roundtrip (M : Sys σ α) (key : σ → Nat) (inj : ∀ x y, key x = key y → x = y)
    (hkey : ∀ s, 0 < key s ∧ key s < 18446744073709551616) (p : Path σ α) (h : IsExec M p) :
    parseFps ("/" ++ encodeStr key p) = some (encode key p) ∧
    ∃ s, lastState p = some s ∧ statesView M key ("/" ++ encodeStr key p) = some (rowsAt M s) := by
  obtain ⟨s0, hs0, he⟩ := h
  obtain ⟨x, rest, hp⟩ := execFrom_ne_nil he
  have hne : p ≠ [] := by rw [hp]; simp
  have hparse := parseFps_encodeStr key p hne (by
    intro f hf
    simp only [encode, List.mem_map] at hf
    obtain ⟨e, _, rfl⟩ := hf
    exact hkey e.1)
  refine ⟨hparse, ?_⟩
  exact (C19_states_view M key inj _).1 _ p hparse (by rw [hp]; simp [encode]) ⟨s0, hs0, he⟩ rfl

-- on-demand scheduler: lead
-- (C19_on_demand_targeted / C19_on_demand_complete are theorems about the checker machine of
--  lean/SR/Checker/*; the harness of this property observes them on the real on-demand checker.)

/-! ### the hypotheses are satisfiable: a 4-state model with an ignored action, a join and a cycle -/

/-- 0 -a0-> 1, 0 -a1-> 2, 1 -a0-> 3, 2 -a0-> 3, 3 -a0-> 0; action 2 of state 0 is ignored -/
def exM : Sys Nat Nat where
  init := [0]
  acts s := if s = 0 then [0, 1, 2] else [0]
  next s a := match s, a with
    | 0, 0 => some 1 | 0, 1 => some 2 | 1, 0 => some 3 | 2, 0 => some 3 | 3, 0 => some 0 | _, _ => none
  inB _ := true

def exKey (s : Nat) : Nat := 100 + s

def exPath : Path Nat Nat := [(0, some 1), (2, some 0), (3, none)]

example : IsExec exM exPath :=
  ⟨0, by simp [exM], .step (by simp [exM]) rfl (.step (by simp [exM]) rfl (.last 3))⟩
example : fromFingerprints exM exKey (encode exKey exPath) = some exPath := by decide
example : fromActions exM 0 (intoActions exPath) = some exPath := by decide
example : finalState exM exKey [100, 102, 103] = some 3 := by decide
example : finalState exM exKey [100, 103] = none := by decide
example : statesView exM exKey "/100" =
    some [.step 0 (some 1), .step 1 (some 2), .step 2 none] := by decide
example : statesView exM exKey "/100/103/" = none := by decide
example : statesView exM exKey "/100/abc" = none := by decide
example : encodeStr exKey exPath = "100/102/103" := by decide
example : GenOK exM exKey [((103, some 102), [0, 2, 3]), ((102, some 100), [0, 2]), ((100, none), [0])] := by
  have h0 : GenOK exM exKey [((exKey 0, none), [0])] := GenOK.root GenOK.nil (by simp [exM]) rfl
  have h1 : GenOK exM exKey [((exKey 2, some (exKey 0)), [0] ++ [2]), ((exKey 0, none), [0])] :=
    GenOK.child (par := none) (path := [0]) (s := 0) (t := 2) h0 (by simp) rfl (by decide) rfl
  exact GenOK.child (par := some (exKey 0)) (path := [0, 2]) (s := 2) (t := 3) h1 (by simp [exKey]) rfl (by decide) rfl
example : statesView exM exKey ("/" ++ encodeStr exKey exPath) = some [.step 0 (some 0)] := by decide
example : (statusView exM exKey [.always] ⟨true, 5, 4, 3, [(103, some 102), (102, some 100), (100, none)], [(0, 103)]⟩).props
    = [(.always, 0, some [100, 102, 103])] := by decide

end SR.C19
