import SR.Proofs.UtilExtras
import SR.Proofs.HashBytes
/-!
# Util containers and plans: the operations no property exercised before (DESIGN §13c, W-G3)

Property theorems only.  Models: `SR/Util/Extras.lean` (the remaining `DenseNatMap` operations, plans built from
dense maps, the hash-based order of `HashableHashSet/Map` with std's SipHash-1-3) on top of
`SR/Util/DenseNatMap.lean` / `SR/Util/Rewrite.lean` / `SR/Hash/Univ.lean`.
`C20_*`: dense maps; `C10_*`: plans; `C04_*`: hashing order.
-/
namespace SR.CUtilExtras
open SR SR.DNM SR.RW SR.Hash

/-! ## DenseNatMap: `Index` / `IndexMut` / `len` / `Default` / `From<Vec>` / iteration, tied to `get` -/

/-- `m[k] = v ↔ m.get(k) = Some(v)` -/
theorem C20_dnx_index_iff {V} (m : List V) (k : Nat) (v : V) :
    index m k = .ok v ↔ DNM.get m k = some v := by
  unfold index DNM.get
  by_cases h : k < m.length
  · simp [h]
  · simp [h]

/-- `m[k]` panics exactly when `get` gives `None`, i.e. exactly for the keys `≥ len` -/
theorem C20_dnx_index_panic_iff {V} (m : List V) (k : Nat) :
    (index m k = .panic ↔ DNM.get m k = none) ∧ (index m k = .panic ↔ len m ≤ k) := by
  unfold index DNM.get len
  by_cases h : k < m.length
  · simp [h]
  · simp [h]; omega

/-- `get` is `Some` exactly below `len` -/
theorem C20_dnx_len {V} (m : List V) (k : Nat) : (DNM.get m k).isSome ↔ k < len m := by
  unfold DNM.get len
  by_cases h : k < m.length <;> simp [h]

/-- `m[k] = v` (IndexMut): panics iff `k ≥ len`; otherwise the length is unchanged, `m[k]` then reads `v` back (through
`Index` and through `get`) and every other key keeps its value. -/
theorem C20_dnx_index_mut {V} (m : List V) (k : Nat) (v : V) :
    (indexMut m k v = none ↔ len m ≤ k) ∧
    ∀ m', indexMut m k v = some m' →
      len m' = len m ∧ index m' k = .ok v ∧ DNM.get m' k = some v ∧ ∀ j, j ≠ k → DNM.get m' j = DNM.get m j := by
  unfold indexMut len
  by_cases h : k < m.length
  · refine ⟨by simp [h], ?_⟩
    intro m' hm
    simp only [h, if_true, Option.some.injEq] at hm
    subst hm
    refine ⟨by simp, ?_, by simp [DNM.get, h], ?_⟩
    · rw [C20_dnx_index_iff]; simp [DNM.get, h]
    · intro j hj; simp [DNM.get, Ne.symm hj]
  · refine ⟨by simp [h]; omega, ?_⟩
    intro m' hm; simp [h] at hm

/-- owned `into_iter()` / `iter()`: exactly `len` items, the `k`-th item is `(k, get m k)` — every pair once, in key
order; the keys are `0..len-1`, the values are `values()`. -/
theorem C20_dnx_into_iter {V} (m : List V) :
    (intoIter m).length = len m ∧
    (∀ k, (intoIter m)[k]? = (DNM.get m k).map (fun v => (k, v))) ∧
    (intoIter m).map (·.1) = List.range (len m) ∧
    (intoIter m).map (·.2) = values m := by
  have hget : ∀ k, (intoIter m)[k]? = (DNM.get m k).map (fun v => (k, v)) := by
    intro k
    unfold intoIter DNM.get
    rw [enumFrom_getElem?]; simp
  have hlen : (intoIter m).length = m.length := enumFrom_length 0 m
  refine ⟨hlen, hget, ?_, ?_⟩
  · apply List.ext_getElem?
    intro k
    rw [List.getElem?_map, hget]
    unfold DNM.get len
    by_cases h : k < m.length
    · simp [h]
    · simp [h]
  · apply List.ext_getElem?
    intro k
    rw [List.getElem?_map, hget]
    unfold DNM.get values
    by_cases h : k < m.length
    · simp [h]
    · simp [h]

/-- collecting the pairs of `into_iter()` — in ANY order — gives the map back (`FromIterator<(K, V)>`) -/
theorem C20_dnx_collect_into_iter {V} (m : List V) (ps : List (Nat × V)) (h : ps.Perm (intoIter m)) :
    fromPairs ps = some m := by
  rw [fromPairs_perm ps (intoIter m) h]
  obtain ⟨hlen, _, hk, hv⟩ := C20_dnx_into_iter m
  have hsome : (fromPairs (intoIter m)).isSome := by
    rw [fromPairs_isSome_iff, hk, hlen]
  obtain ⟨m', hm'⟩ := Option.isSome_iff_exists.1 hsome
  obtain ⟨l1, g1⟩ := fromPairs_total _ _ hm'
  rw [hm']
  congr 1
  apply List.ext_getElem?
  intro k
  by_cases hkl : k < m.length
  · have hmem : (k, m[k]) ∈ intoIter m := by
      rw [List.mem_iff_getElem?]
      refine ⟨k, ?_⟩
      unfold intoIter
      rw [enumFrom_getElem?]; simp [hkl]
    have := g1 _ hmem
    simpa [DNM.get, hkl] using this
  · have h1 : m'.length = m.length := by rw [l1, hlen]; rfl
    rw [List.getElem?_eq_none (by omega), List.getElem?_eq_none (by omega)]

/-- `default()` / `new()` is the empty map; `From<Vec<V>>` maps key `k` to `vs[k]` -/
theorem C20_dnx_default_from_vec {V} :
    (len (DNM.default : List V) = 0 ∧ ∀ k, DNM.get (DNM.default : List V) k = none) ∧
    (∀ (vs : List V), len (fromVec vs) = vs.length ∧ values (fromVec vs) = vs ∧ ∀ k, DNM.get (fromVec vs) k = vs[k]?) :=
  ⟨⟨rfl, fun k => by simp [DNM.default, DNM.get]⟩, fun _ => ⟨rfl, rfl, fun _ => rfl⟩⟩

/-- the command language of the driver: `m[k] = v` then `m[k]` then `len` on a valid key -/
theorem C20_dnx_run_set_idx (m : List Nat) (k v : Nat) (h : k < len m) :
    run m [.set k v, .idx k, .len] = ([.unit, .val v, .n (len m)], some (m.set k v)) := by
  unfold len at h
  have h' : k < (m.set k v).length := by simpa using h
  simp [run, step, indexMut, index, h, len]

/-! ## plans built from dense maps -/

/-- `RewritePlan::from(dense map)` (owned or borrowed) is `from_values_to_sort` of its values, and such a plan rewrites
`Id(k)` to its state's value at `k` (panic = `none` outside the state). -/
theorem C10_plan_from_dnm {V : Type} (le : V → V → Bool) (vs : List V) :
    planFromDNM le (fromVec vs) = planOf le vs ∧
    ∀ k, planRewrite (planFromDNM le (fromVec vs)) k = DNM.get (planOf le vs) k :=
  ⟨rfl, fun _ => rfl⟩

/-- hence everything C10 proves about `planOf`: the plan of a dense map is a permutation of its keys … -/
theorem C10_plan_from_dnm_perm {V : Type} (le : V → V → Bool) (m : List V) :
    (planFromDNM le m).Perm (List.range (len m)) ∧ len (planFromDNM le m) = len m :=
  ⟨planOf_perm le m, planOf_length le m⟩

/-- the plan of a permutation of `0..n-1` (ordered as numbers) is that permutation itself -/
theorem C10_plan_of_perm (π : List Nat) (h : π.Perm (List.range π.length)) : planOf natLe π = π := by
  apply List.ext_getElem?
  intro i
  by_cases hi : i < π.length
  · obtain ⟨k, hk, e1, e2⟩ := planOf_spec natLe π i hi
    rw [e1, List.getElem?_eq_getElem hi]
    congr 1
    have hsnd := sortedIdx_perm_snd π h
    have : ((sortedIdx natLe π).map (·.2))[k]? = some k := by
      rw [hsnd]
      have hk' : k < π.length := by rw [sortedIdx_length] at hk; exact hk
      simp [hk']
    rw [List.getElem?_map, List.getElem?_eq_getElem hk, e2] at this
    simpa using this.symm
  · rw [List.getElem?_eq_none (by rw [planOf_length]; omega), List.getElem?_eq_none (by omega)]

/-- `from_values_to_sort(vs)` and `RewritePlan::from` of that plan's OWN state (a `DenseNatMap<R, R>`, ids ordered
by their number) are the same plan. -/
theorem C10_plan_from_own_state {V : Type} (le : V → V → Bool) (vs : List V) :
    planFromDNM natLe (planOf le vs) = planOf le vs := by
  unfold planFromDNM values
  apply C10_plan_of_perm
  rw [planOf_length]
  exact planOf_perm le vs

/-- `reindex` with the plan of a dense map obeys the law of `C10_reindex`: it succeeds with `ys` iff `ys` has the map's
length and holds the REWRITTEN element `i` at position `plan i` (it panics iff the collection is shorter than the map or an
element rewrite panics). -/
theorem C10_reindex_from_dnm {V : Type} {α} (le : V → V → Bool) (m : List V) (rw : α → Option α) (xs ys : List α) :
    reindexO (planFromDNM le m) rw xs = some ys ↔
      ys.length = len m ∧
      ∀ i (hi : i < (planFromDNM le m).length), (xs[i]?).bind rw = ys[(planFromDNM le m)[i]]? := by
  have hl : (planFromDNM le m).length = m.length := planOf_length le m
  have hperm : (planFromDNM le m).Perm (List.range (planFromDNM le m).length) := by
    rw [hl]; exact planOf_perm le m
  rw [reindexO_some_iff hperm rw xs ys]
  constructor
  · rintro ⟨h1, h2⟩; exact ⟨h1.trans hl, h2⟩
  · rintro ⟨h1, h2⟩; exact ⟨h1.trans hl.symm, h2⟩

/-! ## the hash-based order of `HashableHashSet` / `HashableHashMap` -/

/-- the stream `calculate_hash` digests is the flat byte stream of the collection's `Hash` impl (C04's `setToks`) -/
theorem C04_hkey_stream (h : List Tok → UInt64) (ss : List (List Tok)) :
    HOrd.stream (ss.map fun s => (h s).toNat) = flat (setToks h ss) := by
  rw [flat_setToks]; simp [HOrd.stream]

/-- insertion-order / iteration-order independence: the key (and so `cmp`) depends only on the MULTISET of the
elements' inner hashes -/
theorem C04_hcmp_perm (a a' b b' : List Nat) (ha : a.Perm a') (hb : b.Perm b') :
    HOrd.key a = HOrd.key a' ∧ HOrd.cmp a b = HOrd.cmp a' b' := by
  have hk : ∀ {x y : List Nat}, x.Perm y → HOrd.key x = HOrd.key y := by
    intro x y hxy
    unfold HOrd.key HOrd.stream
    rw [sort_eq_of_perm hxy, hxy.length_eq]
  unfold HOrd.cmp
  rw [hk ha, hk hb]
  exact ⟨rfl, rfl⟩

/-- `a == b ⇒ cmp(a, b) = Equal` (equal collections have the same elements, hence the same inner hashes up to order) -/
theorem C04_hcmp_equal (a b : List Nat) (h : a.Perm b) : HOrd.cmp a b = .eq := by
  have := (C04_hcmp_perm a b b b h (List.Perm.refl b)).2
  rw [this]
  unfold HOrd.cmp
  exact Nat.compare_eq_eq.2 rfl

/-- `cmp` is a total preorder: reflexive, the reverse comparison is the reverse answer (totality + antisymmetry of the
answers), transitive — and `partial_cmp` is `Some(cmp)`. -/
theorem C04_hcmp_total_preorder (a b c : List Nat) :
    HOrd.cmp a a = .eq ∧
    HOrd.cmp b a = (HOrd.cmp a b).swap ∧
    (HOrd.cmp a b ≠ .gt → HOrd.cmp b c ≠ .gt → HOrd.cmp a c ≠ .gt) ∧
    HOrd.partialCmp a b = some (HOrd.cmp a b) := by
  unfold HOrd.cmp HOrd.partialCmp
  refine ⟨Nat.compare_eq_eq.2 rfl, (Nat.compare_swap _ _).symm, ?_, rfl⟩
  intro h1 h2
  rw [Ne, Nat.compare_eq_gt] at *
  omega

/-- antisymmetry up to hash collisions: `cmp = Equal` exactly when the two 64-bit keys coincide -/
theorem C04_hcmp_eq_iff (a b : List Nat) : HOrd.cmp a b = .eq ↔ HOrd.key a = HOrd.key b := by
  unfold HOrd.cmp
  exact Nat.compare_eq_eq

/-! ### the hypotheses are satisfiable / concrete instances -/

example : [2, 0, 1].Perm (List.range [2, 0, 1].length) := by decide
/-- `DefaultHasher::new().finish()` (SipHash-1-3, keys 0 0, empty input) -/
example : Sip.defaultHash [] = 15130871412783076140 := by decide
example : index [10, 20, 30] 1 = .ok 20 ∧ index [10, 20, 30] 3 = .panic := by decide
example : indexMut [10, 20, 30] 1 99 = some [10, 99, 30] ∧ indexMut [10, 20, 30] 3 99 = none := by decide
example : intoIter [10, 20, 30] = [(0, 10), (1, 20), (2, 30)] := by decide
example : run [1, 2] [.ins 2 7, .set 0 9, .idx 1, .get 5, .len, .idx 9, .len] =
    ([.prev none, .unit, .val 2, .opt none, .n 3], none) := by decide

end SR.CUtilExtras
