import SR.Proofs.OracleRest
/-!
# The rest of the `partly` oracles (builder W-Z7): C07 `o-net` (the assembly), `o-chk c11`, `o-chk-sym`

Property theorems only; helper lemmas in `SR/Proofs/OracleRest.lean`.

## C07 `o-net` (Drv/C07.lean)
The history `h` of the oracle is `envs.map send ++ ops` (`C07_oracle_initial`: the model network of the request is the EMPTY
network `emptyNet kind last` after these sends).  `n` is the model network after a valid run over `h`.
* `C07_oracle_isPerm` — the mergeSort comparison decides `List.Perm`;
* `C07_oracle_contents` — `refContents kind h = some ref`, `ref` is a permutation of the model's contents, and for the ordered
  network it IS the model's contents (same order: the model keeps its flows sorted, `Net.Sorted`);
* `C07_oracle_deliverable` — `refDeliverable` lists, without repetition, exactly the deliverable envelopes `n.isHead`, i.e.
  (`C07_actions`) the envelopes for which the actor model offers Deliver (recipient existing) / Drop (lossy);
* `C07_oracle_checkOp` — `checkOp kind h op = none` ⇔ the model allows `op` (`Net.valid`);
* `C07_oracle_checkObs` — `checkObs … = none` ⇔ `ObsSpec`: the literal conjunction of `C07_canonical`, `C07_views`
  (contents / `len` / `iter_all` / `iter_deliverable`), `C07_dup_last` and `C07_actions` for the observed network;
* `C07_oracle_model_passes` — no false alarm: the model's own observation of every valid run satisfies `ObsSpec`.

## `o-chk c11` (Drv/Chk.lean `oracleC11`)
* `C11_oracle_lines` — `oracleC11` is, per eventually-property, the two lines `c11FalseAlarm`, `c11Missed` (by `rfl`);
* `C11_complete_run_forest_exact` — for an observation of a terminated model run that passes `completeRun`, on a graph passing
  `isForest`: the hypotheses of `C11_forest_exact` hold, `eventually-missed-on-forest` is silent iff direction ⇐ of its
  conclusion, `eventually-false-alarm` iff direction ⇒, both iff the conclusion — which holds;
* `C11_complete_run_oracle_passes` — in full: every observation of a terminated model run passes the whole of `oracleC11`.

## `o-chk-sym`
* `C10_complete_run_sym` — for the symmetry-reduced machine (`key = rep`), with the relation "same representative" (`hkey`,
  `htrans` hold by construction) and the hypotheses `hsim`, `hinv`: `completeRun` ⇒ `early = false` and `Completed`; the guarded
  line `symmetry-class-without-evaluated-state` is literally the conclusion of `C10_one_per_class`, the guarded `oracleC02` is
  silent iff the conclusion of `C10_verdicts` holds for every always/sometimes property; both hold: no false alarm;
* `C10_oracle_symOk_iff` — `symOk g rep conds` (SR/Checker/SymOk.lean, the guard `rep-not-a-symmetry` of `o-chk-sym`) decides
  `hsim ∧ hinv`; `C10_oracle_symOk_run`, `C10_complete_run_sym_driver` — about the driver's own call `symOk g rep (ps.map (·.tbl))`.
-/
namespace SR.COracleRest

/-! ## C07 -/
section C07
open SR SR.Actor SR.Actor.Codec SR.Drv.C07 SR.C07

/-- `isPerm` (equality of the two `mergeSort`ed lists) decides permutation -/
theorem C07_oracle_isPerm (a b : List Env) : isPerm a b = true ↔ a.Perm b := isPerm_iff a b

/-- the offered-actions comparison of `checkObs` (`sortActions … != sortActions …`) decides permutation as well -/
theorem C07_oracle_sortActions (a b : List Action) : sortActions a = sortActions b ↔ a.Perm b := sortActions_eq_iff a b

/-- the initial envelopes of an `o-net` / `net-run` request: `mkNet kind envs last` is the empty network after the sends
    `envs.map send` the oracle puts in front of its history -/
theorem C07_oracle_initial (kind : String) (envs : List Env) (last : Option Env) (n₀ : Net)
    (hm : mkNet kind envs last = some n₀) (ops : List NetOp) :
    Net.run (emptyNet kind last) (envs.map NetOp.send ++ ops) = Net.run n₀ ops := by
  rw [mkNet_eq hm]; exact run_initial _ _ _

/-- **contents**: on every valid run, for each network kind, `refContents` answers, its answer is a permutation of the model
    network's contents, and for the ordered network (every kind word other than `"d"`, `"n"`) it is the contents list itself -/
theorem C07_oracle_contents (kind : String) (last : Option Env) (h : List NetOp) (n : Net)
    (hr : Net.run (emptyNet kind last) h = some n) :
    ∃ ref, refContents kind h = some ref ∧ ref.Perm n.contents ∧ (kind ≠ "d" → kind ≠ "n" → ref = n.contents) :=
  contents_any hr

/-- the ordered model network keeps its flows sorted by key (the fact behind the order-sensitive comparison) -/
theorem C07_oracle_sorted (n₀ n : Net) (ops : List NetOp) (hs : Net.Sorted n₀) (hr : Net.run n₀ ops = some n) :
    Net.Sorted n := sorted_run hs hr

/-- **deliverable**: `refDeliverable` is a duplicate-free list of exactly the deliverable envelopes of the model network (a
    permutation of `iter_deliverable`), hence — `C07_actions` — of exactly the envelopes for which the actor model offers
    Deliver (if the recipient exists) and Drop (if lossy) in any state carrying this network -/
theorem C07_oracle_deliverable (kind : String) (last : Option Env) (h : List NetOp) (n : Net)
    (hr : Net.run (emptyNet kind last) h = some n) :
    (refDeliverable kind h).Perm n.iterDeliverable ∧ (refDeliverable kind h).Nodup ∧
    (∀ e, e ∈ refDeliverable kind h ↔ n.isHead e) ∧
    (∀ {σ η : Type} (sys : ActorSys σ η) (st : St σ η), st.NetOk sys → st.net = n → ∀ e,
      (Action.deliver e ∈ actions sys st ↔ e ∈ refDeliverable kind h ∧ e.dst < sys.n) ∧
      (Action.drop e ∈ actions sys st ↔ sys.lossy = true ∧ e ∈ refDeliverable kind h)) := by
  have hc : n.Canon := canon_run (emptyNet_canon kind last) hr
  have hp := deliverable_any hr
  have hm : ∀ e, e ∈ refDeliverable kind h ↔ n.isHead e := fun e => by rw [hp.mem_iff, mem_iterDeliverable hc]
  refine ⟨hp, hp.nodup_iff.2 (C07_views n hc).2.2.2.2, hm, ?_⟩
  intro σ η sys st hn hst e
  subst hst
  rw [hm e]
  exact C07_actions sys st hn e

/-- **`checkOp`**: an operation of a group is accepted iff the model allows it on the network reached so far -/
theorem C07_oracle_checkOp (kind : String) (last : Option Env) (h : List NetOp) (n : Net)
    (hr : Net.run (emptyNet kind last) h = some n) (op : NetOp) :
    checkOp kind h op = none ↔ n.valid op = true := checkOp_iff hr op

/-- **`checkObs`**: an observation is accepted iff it is canonical (`C07_canonical`), its contents / `len` / `iter_all` /
    `iter_deliverable` are those of the model network (`C07_views`; order-sensitive for the ordered kind), its `last_msg` is the
    model's (`C07_dup_last`), and the offered network actions are, up to order, one Deliver per deliverable envelope with an
    existing recipient and one Drop per deliverable envelope if lossy (`C07_actions`, see `C07_oracle_expActs`) -/
theorem C07_oracle_checkObs (kind : String) (nActors : Nat) (lossy : Bool) (last0 : Option Env) (h : List NetOp) (n : Net)
    (hr : Net.run (emptyNet kind last0) h = some n) (o : Obs) :
    checkObs kind nActors lossy last0 h o = none ↔ ObsSpec kind nActors lossy n o := checkObs_iff hr o

/-- the expected action list is duplicate-free and contains exactly the right-hand sides of `C07_actions` -/
theorem C07_oracle_expActs (n : Net) (hc : n.Canon) (nActors : Nat) (lossy : Bool) :
    (expActs nActors lossy n).Nodup ∧ ∀ a, a ∈ expActs nActors lossy n ↔
      (∃ e, a = .deliver e ∧ n.isHead e ∧ e.dst < nActors) ∨ (∃ e, a = .drop e ∧ lossy = true ∧ n.isHead e) :=
  ⟨nodup_expActs hc _ _, mem_expActs hc _ _⟩

/-- **no false alarm**: what the model itself shows after a valid run (representation, `len`, `iter_all`, `iter_deliverable`,
    and the `actions` of any actor-model state carrying this network) passes `checkObs` -/
theorem C07_oracle_model_passes (kind : String) (last0 : Option Env) (h : List NetOp) (n : Net)
    (hr : Net.run (emptyNet kind last0) h = some n) :
    checkObs kind 0 false last0 h ⟨n, n.len, n.iterAll, n.iterDeliverable, none⟩ = none ∧
    ∀ {σ η : Type} (sys : ActorSys σ η) (st : St σ η), st.NetOk sys → st.net = n →
      checkObs kind sys.n sys.lossy last0 h ⟨n, n.len, n.iterAll, n.iterDeliverable, some (actions sys st)⟩ = none := by
  have hc : n.Canon := canon_run (emptyNet_canon kind last0) hr
  have hv := C07_views n hc
  have base : ∀ nA lossy acts, (∀ a, acts = some a → (a.filter isNetAct).Perm (expActs nA lossy n)) →
      ObsSpec kind nA lossy n ⟨n, n.len, n.iterAll, n.iterDeliverable, acts⟩ := by
    intro nA lossy acts ha
    refine ⟨hc, fun _ => rfl, List.Perm.refl _, hv.2.2.1, fun _ => hv.1, hv.2.1, List.Perm.refl _, fun _ => rfl, ha⟩
  refine ⟨(checkObs_iff hr _).2 (base 0 false none (fun a ha => by cases ha)), ?_⟩
  intro σ η sys st hn hst
  subst hst
  refine (checkObs_iff hr _).2 (base sys.n sys.lossy _ ?_)
  intro a ha
  simp only [Option.some.injEq] at ha
  subst ha
  exact model_acts_perm sys st hn

/-! non-vacuity: a non-trivial valid run on each kind, what the references answer there, and an accepted / a refused
observation (closed `mergeSort` terms do not reduce under `decide`: `simp` with the definitions) -/
example : Net.run (emptyNet "o" none) [.send ⟨0, 1, 7⟩, .send ⟨2, 1, 5⟩, .send ⟨0, 1, 8⟩, .deliver ⟨0, 1, 7⟩]
    = some (Net.ord [((0, 1), [8]), ((2, 1), [5])]) := by decide
example : Net.run (emptyNet "n" none) [.send ⟨0, 1, 7⟩, .send ⟨0, 1, 7⟩, .drop ⟨0, 1, 7⟩]
    = some (Net.nondup [(⟨0, 1, 7⟩, 1)]) := by decide
example : Net.run (emptyNet "d" none) [.send ⟨0, 1, 7⟩, .deliver ⟨0, 1, 7⟩]
    = some (Net.dup [⟨0, 1, 7⟩] (some ⟨0, 1, 7⟩)) := by decide
example : mkNet "o" [⟨0, 1, 7⟩] none = some (Net.ord [((0, 1), [7])]) := by decide

/-- an accepted observation (the model's own, through `C07_oracle_model_passes`) … -/
example : checkObs "o" 0 false none [.send ⟨0, 1, 7⟩, .send ⟨2, 1, 5⟩, .send ⟨0, 1, 8⟩, .deliver ⟨0, 1, 7⟩]
    ⟨Net.ord [((0, 1), [8]), ((2, 1), [5])], 2, [⟨0, 1, 8⟩, ⟨2, 1, 5⟩], [⟨0, 1, 8⟩, ⟨2, 1, 5⟩], none⟩ = none :=
  (C07_oracle_model_passes "o" none _ (Net.ord [((0, 1), [8]), ((2, 1), [5])]) (by decide)).1

/-- … and a refused one: `len` is wrong (through `C07_oracle_checkObs`) -/
example : checkObs "n" 0 false none [.send ⟨0, 1, 7⟩, .send ⟨0, 1, 7⟩, .drop ⟨0, 1, 7⟩]
    ⟨Net.nondup [(⟨0, 1, 7⟩, 1)], 2, [⟨0, 1, 7⟩], [⟨0, 1, 7⟩], none⟩ ≠ none := by
  rw [Ne, C07_oracle_checkObs "n" 0 false none _ (Net.nondup [(⟨0, 1, 7⟩, 1)]) (by decide)]
  intro h
  exact absurd h.2.2.2.1 (by decide)

end C07

/-! ## `o-chk c11` -/
section Chk
open SR SR.Checker SR.Drv.Chk SR.CCompleteRun

/-- `oracleC11` is, for every eventually-property, the two lines `c11FalseAlarm` and `c11Missed` -/
theorem C11_oracle_lines (c : Case) (o : Obs) (sim : Bool) :
    oracleC11 c o sim = (List.range c.props.length).flatMap fun i =>
      match c.props[i]? with
      | none => []
      | some pr => if pr.exp != .eventually then [] else c11FalseAlarm c o i pr ++ c11Missed c o sim i pr :=
  oracleC11_eq c o sim

/-- **the `completeRun` guard of `eventually-missed-on-forest`** (`o-chk c11`).  For an observation of a terminated run of the
    model of case `c` (well-formed graph, no timeout configured, model code does not panic) that passes `completeRun`, on a
    graph that passes `isForest`: the hypotheses `Forest`, key injective, `Completed` of `C11_forest_exact` hold; the guarded
    line is silent iff direction ⇐ of its conclusion holds, the line `eventually-false-alarm` is silent iff direction ⇒ holds;
    so the two lines together are silent iff the conclusion of `C11_forest_exact` holds — and it does. -/
theorem C11_complete_run_forest_exact (c : Case) (hwf : c.g.WF) (hto : c.cfg.timeout = false) (cs : List Choice)
    (hnp : ∀ ch ∈ cs, ch ≠ Choice.stop .panic) (hq : Quiescent (run c.params cs))
    (o : Obs) (ho : Observes o (run c.params cs)) (hc : completeRun c o = true) (hf : c.g.isForest = true)
    (i : Nat) (pr : GProp) (hpr : c.props[i]? = some pr) (hexp : pr.exp = .eventually) :
    (Forest c.params.M ∧ (∀ a b, c.params.M.Reach a → c.params.M.Reach b → c.params.key a = c.params.key b → a = b) ∧
      C02.Completed c.params (run c.params cs)) ∧
    (c11Missed c o false i pr = [] ↔
      ((∃ p, C11.MaxPathAvoiding c.params pr.toProp p) → hasDisc (run c.params cs).disc i = true)) ∧
    (c11FalseAlarm c o i pr = [] ↔
      (hasDisc (run c.params cs).disc i = true → ∃ p, C11.MaxPathAvoiding c.params pr.toProp p)) ∧
    (c11FalseAlarm c o i pr ++ c11Missed c o false i pr = [] ↔
      (hasDisc (run c.params cs).disc i = true ↔ ∃ p, C11.MaxPathAvoiding c.params pr.toProp p)) ∧
    (hasDisc (run c.params cs).disc i = true ↔ ∃ p, C11.MaxPathAvoiding c.params pr.toProp p) := by
  have hg := C01_complete_run_guard_of_observes c cs o ho hc
  have hF : Forest c.params.M := COracle.C11_oracle_forest_sound c.g hwf hf
  have hcomp := C02_complete_run_completed c hto cs hnp hg hq
  have hinj : ∀ a b, c.params.M.Reach a → c.params.M.Reach b → c.params.key a = c.params.key b → a = b :=
    fun _ _ _ _ h => h
  have hex : c.g.canAvoidForever (fun s => pr.tbl.getD s false) = true ↔ ∃ p, C11.MaxPathAvoiding c.params pr.toProp p :=
    COracle.C11_oracle_can_avoid_on_forest c.g c.params hwf rfl hF pr.toProp
  have hconcl := C11.C11_forest_exact c.params hF hinj cs hcomp i pr.toProp (C01_case_props_getElem? c i pr hpr) hexp
  have e1 : c11Missed c o false i pr = [] ↔
      ((∃ p, C11.MaxPathAvoiding c.params pr.toProp p) → hasDisc (run c.params cs).disc i = true) := by
    rw [c11Missed_nil_iff, contains_names_eq ho, hex]
    exact ⟨fun h => h hc hf, fun h _ _ => h⟩
  have e2 : c11FalseAlarm c o i pr = [] ↔
      (hasDisc (run c.params cs).disc i = true → ∃ p, C11.MaxPathAvoiding c.params pr.toProp p) := by
    rw [c11FalseAlarm_nil_iff, contains_names_eq ho, hex]
  refine ⟨⟨hF, hinj, hcomp⟩, e1, e2, ?_, hconcl⟩
  rw [List.append_eq_nil_iff, e1, e2]
  exact ⟨fun h => ⟨h.1, h.2⟩, fun h => ⟨h.1, h.2⟩⟩

/-- **no false alarm of `oracleC11`** (exhaustive checkers, `sim = false`): every observation of a terminated run of the model
    passes the whole of `oracleC11` — whether or not the guard `completeRun` holds and whether or not the graph is a forest.
    (`eventually-false-alarm`: a reported path is a maximal avoiding path, `C11_no_false_alarm`, and `canAvoidForever` is
    complete for those; `eventually-missed-on-forest`: `C11_complete_run_forest_exact`.) -/
theorem C11_complete_run_oracle_passes (c : Case) (hwf : c.g.WF) (hto : c.cfg.timeout = false) (cs : List Choice)
    (hnp : ∀ ch ∈ cs, ch ≠ Choice.stop .panic) (hq : Quiescent (run c.params cs))
    (o : Obs) (ho : Observes o (run c.params cs)) : oracleC11 c o false = [] := by
  rw [oracleC11_eq, List.flatMap_eq_nil_iff]
  intro i _
  cases hpr : c.props[i]? with
  | none => rfl
  | some pr =>
    simp only []
    cases hexp : pr.exp with
    | always => rfl
    | sometimes => rfl
    | eventually =>
      have hne : (Expect.eventually != Expect.eventually) = false := by decide
      simp only [hne, Bool.false_eq_true, if_false, List.append_eq_nil_iff]
      constructor
      · rw [c11FalseAlarm_nil_iff, contains_names_eq ho]
        intro hd
        exact COracle.C11_oracle_can_avoid_terminal_complete c.g c.params hwf rfl pr.toProp
          (C11.C11_no_false_alarm c.params cs i pr.toProp (C01_case_props_getElem? c i pr hpr) hexp hd)
      · rw [c11Missed_nil_iff]
        intro hc hf hex
        rw [contains_names_eq ho]
        have h := C11_complete_run_forest_exact c hwf hto cs hnp hq o ho hc hf i pr hpr hexp
        exact h.2.2.2.2.2 ((COracle.C11_oracle_can_avoid_on_forest c.g c.params hwf rfl h.1.1 pr.toProp).1 hex)

/-- with `sim = true` the guarded line is switched off (the simulation checker is not exhaustive) -/
theorem C11_oracle_missed_off_for_sim (c : Case) (o : Obs) (i : Nat) (pr : GProp) : c11Missed c o true i pr = [] :=
  c11Missed_sim c o i pr

/-! non-vacuity: the two-root forest of `Props/OracleAdequacy.lean`, "eventually (= 1)" (the maximal path `[0, 2]` avoids it)
and an always-property that holds; finish condition `AllFailures`.  The DFS scheduler terminates, the guard and `isForest` hold,
property 0 is discovered. -/
def exCase11 : Case :=
  { g := COracle.forestGraph,
    props := [⟨.eventually, [false, true, false, false, false]⟩, ⟨.always, [true, true, true, true, true]⟩],
    cfg := {}, finish := .allF }

def exChoices11 : List Choice :=
  schedule exCase11.params .dfs 120 (init exCase11.params.M exCase11.params.props exCase11.params.key) blockSize

theorem C11_complete_run_ex : exCase11.cfg.timeout = false ∧ noPanic exChoices11 = true ∧
    (run exCase11.params exChoices11).frontier.length = 0 ∧ (run exCase11.params exChoices11).active.length = 0 ∧
    completeRun exCase11 (obsRaw (run exCase11.params exChoices11)) = true ∧ exCase11.g.isForest = true ∧
    discNames (run exCase11.params exChoices11).disc = [0] ∧ decide exCase11.g.WF = true := by decide

/-- the hypotheses of `C11_complete_run_forest_exact` hold for it (property 0) -/
example : exCase11.g.WF ∧ exCase11.cfg.timeout = false ∧ (∀ ch ∈ exChoices11, ch ≠ Choice.stop .panic) ∧
    Quiescent (run exCase11.params exChoices11) ∧
    Observes (obsRaw (run exCase11.params exChoices11)) (run exCase11.params exChoices11) ∧
    completeRun exCase11 (obsRaw (run exCase11.params exChoices11)) = true ∧ exCase11.g.isForest = true ∧
    exCase11.props[0]? = some ⟨.eventually, [false, true, false, false, false]⟩ :=
  ⟨of_decide_eq_true C11_complete_run_ex.2.2.2.2.2.2.2, rfl, C01_noPanic_iff _ C11_complete_run_ex.2.1,
   ⟨List.length_eq_zero_iff.1 C11_complete_run_ex.2.2.1, List.length_eq_zero_iff.1 C11_complete_run_ex.2.2.2.1⟩,
   C01_observes_obsRaw _, C11_complete_run_ex.2.2.2.2.1, C11_complete_run_ex.2.2.2.2.2.1, rfl⟩

/-! ## `o-chk-sym` -/

/-- `symParams` is the parameter record the driver builds for `chk-sym` / `o-chk-sym` -/
theorem C10_sym_params (c : Case) (rep : List Nat) :
    symParams c rep = { c.params with key := fun s => rep.getD s s } ∧ (symParams c rep).key = symRep rep := ⟨rfl, rfl⟩

/-- **the `completeRun` guard of `o-chk-sym`**, with the representative key.  `R a b := symRep rep a = symRep rep b`; the
    hypotheses `hkey` (equal keys are related) and `htrans` of `C10_verdicts` / `C10_one_per_class` hold by construction for
    this `R`; `hsim` (successor classes are preserved) and `hinv` (condition tables constant on classes) are assumed — `symOk`
    decides them.  Then for an observation of a terminated run of the symmetry-reduced machine that passes `completeRun`:
    1. the `Completed`-style hypotheses hold: `early = false`, `Quiescent`, `C02.Completed`;
    2. the guarded line `symmetry-class-without-evaluated-state` is silent iff the conclusion of `C10_one_per_class` holds;
    3. the guarded `oracleC02` is silent iff the conclusion of `C10_verdicts` holds for every always/sometimes property;
    4. both conclusions hold, so neither line is raised: no false alarm. -/
theorem C10_complete_run_sym (c : Case) (rep : List Nat) (hwf : c.g.WF) (hto : c.cfg.timeout = false)
    (hsim : ∀ a b, symRep rep a = symRep rep b → ∀ a' ∈ c.g.toSys.succB a, ∃ b' ∈ c.g.toSys.succB b,
      symRep rep a' = symRep rep b')
    (hinv : ∀ pr ∈ c.props, ∀ a b, symRep rep a = symRep rep b → pr.tbl.getD a false = pr.tbl.getD b false)
    (cs : List Choice) (hnp : ∀ ch ∈ cs, ch ≠ Choice.stop .panic) (hq : Quiescent (run (symParams c rep) cs))
    (o : Obs) (ho : Observes o (run (symParams c rep) cs)) (hc : completeRun c o = true) :
    ((run (symParams c rep) cs).early = false ∧ C02.Completed (symParams c rep) (run (symParams c rep) cs)) ∧
    (c.g.reachList.all (fun t => (o.visits.map lastOf).any (fun v => symRep rep v == symRep rep t)) = true ↔
      ∀ t, c.g.toSys.Reach t → ∃ u ∈ visitedStates (run (symParams c rep) cs), symRep rep t = symRep rep u) ∧
    (oracleC02 c o = [] ↔ ∀ i pr, c.props[i]? = some pr → pr.exp ≠ .eventually →
      (hasDisc (run (symParams c rep) cs).disc i = true ↔ ∃ t, c.g.toSys.Reach t ∧ Wit pr.toProp t)) ∧
    (∀ t, c.g.toSys.Reach t → ∃ u ∈ visitedStates (run (symParams c rep) cs), symRep rep t = symRep rep u) ∧
    (∀ i pr, c.props[i]? = some pr → pr.exp ≠ .eventually →
      (hasDisc (run (symParams c rep) cs).disc i = true ↔ ∃ t, c.g.toSys.Reach t ∧ Wit pr.toProp t)) := by
  obtain ⟨hd, ht, hfin, hall⟩ := guard_of_observes_sym c rep cs o ho hc
  have he : (run (symParams c rep) cs).early = false :=
    (C01_complete_run_no_early_any_key (symParams c rep) (finishMono_sym c rep) hd ht hto cs hnp hfin
      (by rw [show (symParams c rep).props.length = c.props.length from C01_case_props_length c]; exact hall)
      cs [] (by simp)).1
  have hcomp : C02.Completed (symParams c rep) (run (symParams c rep) cs) := ⟨hq, Or.inl he⟩
  have hkey : ∀ a b, (symParams c rep).M.Reach a → (symParams c rep).M.Reach b →
      (symParams c rep).key a = (symParams c rep).key b → symRep rep a = symRep rep b := fun _ _ _ _ h => h
  have htrans : ∀ a b d : Nat, symRep rep a = symRep rep b → symRep rep b = symRep rep d → symRep rep a = symRep rep d :=
    fun _ _ _ h1 h2 => h1.trans h2
  have hclass := C10M.C10_one_per_class (symParams c rep) (fun a b => symRep rep a = symRep rep b) hkey htrans hsim cs hq he
  have hverd : ∀ i pr, c.props[i]? = some pr → pr.exp ≠ .eventually →
      (hasDisc (run (symParams c rep) cs).disc i = true ↔ ∃ t, c.g.toSys.Reach t ∧ Wit pr.toProp t) := by
    intro i pr hpr hexp
    exact C10M.C10_verdicts (symParams c rep) (fun a b => symRep rep a = symRep rep b) hkey htrans hsim cs hcomp i pr.toProp
      (C01_case_props_getElem? c i pr hpr) (hinv pr (List.mem_of_getElem? hpr)) hexp
  have hC02 : oracleC02 c o = [] ↔ ∀ i pr, c.props[i]? = some pr → pr.exp ≠ .eventually →
      (hasDisc (run (symParams c rep) cs).disc i = true ↔ ∃ t, c.g.toSys.Reach t ∧ Wit pr.toProp t) := by
    rw [oracleC02_eq, hc]
    simp only [Bool.not_true, Bool.false_eq_true, if_false, List.flatMap_eq_nil_iff, List.mem_range]
    constructor
    · intro h i pr hpr hexp
      have := h i (List.getElem?_eq_some_iff.1 hpr).1
      rw [hpr] at this
      rw [← contains_names_eq_sym ho]
      exact (c02Line_nil_iff c hwf o i pr hexp).1 this
    · intro h i _
      cases hpr : c.props[i]? with
      | none => rfl
      | some pr =>
        simp only []
        by_cases hexp : pr.exp = .eventually
        · simp [c02Line, hexp]
        · rw [c02Line_nil_iff c hwf o i pr hexp, contains_names_eq_sym ho]
          exact h i pr hpr hexp
  exact ⟨⟨he, hcomp⟩, classLine_iff c hwf rep ho, hC02, hclass, hverd⟩

/-- **`symOk` decides the hypotheses** `hsim` and `hinv` of `C10_verdicts` / `C10_one_per_class` / `C10_complete_run_sym` for
    the relation "same representative" on a finite graph (`hkey`, `htrans` hold for this relation by construction) -/
theorem C10_oracle_symOk_iff (g : Graph) (rep : List Nat) (conds : List (List Bool)) :
    symOk g rep conds = true ↔
      (∀ a b, symRep rep a = symRep rep b → ∀ a' ∈ g.toSys.succB a, ∃ b' ∈ g.toSys.succB b, symRep rep a' = symRep rep b') ∧
      (∀ tbl ∈ conds, ∀ a b, symRep rep a = symRep rep b → tbl.getD a false = tbl.getD b false) :=
  symOk_iff g rep conds

/-- the precondition in the form the driver can test: `symOk c.g rep (c.props.map (·.tbl))` gives `hsim` and `hinv` of
    `C10_complete_run_sym` -/
theorem C10_oracle_symOk_run (c : Case) (rep : List Nat) (h : symOk c.g rep (c.props.map (·.tbl)) = true) :
    (∀ a b, symRep rep a = symRep rep b → ∀ a' ∈ c.g.toSys.succB a, ∃ b' ∈ c.g.toSys.succB b,
      symRep rep a' = symRep rep b') ∧
    (∀ pr ∈ c.props, ∀ a b, symRep rep a = symRep rep b → pr.tbl.getD a false = pr.tbl.getD b false) := by
  obtain ⟨h1, h2⟩ := (symOk_iff _ _ _).1 h
  exact ⟨h1, fun pr hpr => h2 pr.tbl (List.mem_map.2 ⟨pr, hpr, rfl⟩)⟩

/-! non-vacuity: the diamond `0 → {1, 2} → 3` with the states 1 and 2 in one class (`rep = [0, 1, 1, 3]`), an always-property
that holds and a sometimes-property witnessed in state 3, finish condition `AnyFailures`.  `symOk` accepts; the reduced DFS
terminates after evaluating 3 of the 4 states; the guard holds.  `symOk` refuses a condition table that separates 1 from 2,
and a `rep` that merges 2 with the terminal state 3. -/
def exCaseSym : Case :=
  { g := { n := 4, init := [0], adj := [[some 1, some 2], [some 3], [some 3], []], bnd := [true, true, true, true] },
    props := [⟨.always, [true, true, true, true]⟩, ⟨.sometimes, [false, false, false, true]⟩],
    cfg := {}, finish := .anyF }
def exRep : List Nat := [0, 1, 1, 3]
def exChoicesSym : List Choice :=
  schedule (symParams exCaseSym exRep) .dfs 120
    (init (symParams exCaseSym exRep).M (symParams exCaseSym exRep).props (symParams exCaseSym exRep).key) blockSize

theorem C10_complete_run_sym_ex : exCaseSym.cfg.timeout = false ∧ noPanic exChoicesSym = true ∧
    (run (symParams exCaseSym exRep) exChoicesSym).frontier.length = 0 ∧
    (run (symParams exCaseSym exRep) exChoicesSym).active.length = 0 ∧
    completeRun exCaseSym (obsRaw (run (symParams exCaseSym exRep) exChoicesSym)) = true ∧
    symOk exCaseSym.g exRep (exCaseSym.props.map (·.tbl)) = true ∧
    (run (symParams exCaseSym exRep) exChoicesSym).visits.length = 3 ∧
    symOk exCaseSym.g exRep [[false, true, false, false]] = false ∧
    symOk exCaseSym.g [0, 1, 2, 2] [] = false ∧
    decide exCaseSym.g.WF = true := by decide

/-- the hypotheses of `C10_complete_run_sym` hold for it -/
example : exCaseSym.g.WF ∧ exCaseSym.cfg.timeout = false ∧
    ((∀ a b, symRep exRep a = symRep exRep b → ∀ a' ∈ exCaseSym.g.toSys.succB a, ∃ b' ∈ exCaseSym.g.toSys.succB b,
      symRep exRep a' = symRep exRep b') ∧
     (∀ pr ∈ exCaseSym.props, ∀ a b, symRep exRep a = symRep exRep b → pr.tbl.getD a false = pr.tbl.getD b false)) ∧
    (∀ ch ∈ exChoicesSym, ch ≠ Choice.stop .panic) ∧ Quiescent (run (symParams exCaseSym exRep) exChoicesSym) ∧
    Observes (obsRaw (run (symParams exCaseSym exRep) exChoicesSym)) (run (symParams exCaseSym exRep) exChoicesSym) ∧
    completeRun exCaseSym (obsRaw (run (symParams exCaseSym exRep) exChoicesSym)) = true :=
  ⟨of_decide_eq_true C10_complete_run_sym_ex.2.2.2.2.2.2.2.2.2, rfl,
   C10_oracle_symOk_run exCaseSym exRep C10_complete_run_sym_ex.2.2.2.2.2.1,
   C01_noPanic_iff _ C10_complete_run_sym_ex.2.1,
   ⟨List.length_eq_zero_iff.1 C10_complete_run_sym_ex.2.2.1, List.length_eq_zero_iff.1 C10_complete_run_sym_ex.2.2.2.1⟩,
   C01_observes_obsRaw _, C10_complete_run_sym_ex.2.2.2.2.1⟩

/-- **`C10_complete_run_sym` about the driver's own guard**: `o-chk-sym` (Drv/Chk.lean) answers `rep-not-a-symmetry` unless
    `symOk g rep (ps.map (·.tbl))` (`SR/Checker/SymOk.lean`); past that guard the hypotheses `hsim`, `hinv` hold, so for every
    observation of a terminated run of the symmetry-reduced machine that passes `completeRun` the guarded lines are silent:
    no false alarm, and each guarded line is the conclusion of `C10_one_per_class` / `C10_verdicts`. -/
theorem C10_complete_run_sym_driver (c : Case) (rep : List Nat) (hwf : c.g.WF) (hto : c.cfg.timeout = false)
    (hok : symOk c.g rep (c.props.map (·.tbl)) = true)
    (cs : List Choice) (hnp : ∀ ch ∈ cs, ch ≠ Choice.stop .panic) (hq : Quiescent (run (symParams c rep) cs))
    (o : Obs) (ho : Observes o (run (symParams c rep) cs)) (hc : completeRun c o = true) :
    c.g.reachList.all (fun t => (o.visits.map lastOf).any (fun v => (fun s => rep.getD s s) v == (fun s => rep.getD s s) t)) = true ∧
    oracleC02 c o = [] ∧
    (∀ t, c.g.toSys.Reach t → ∃ u ∈ visitedStates (run (symParams c rep) cs), rep.getD t t = rep.getD u u) ∧
    (∀ i pr, c.props[i]? = some pr → pr.exp ≠ .eventually →
      (hasDisc (run (symParams c rep) cs).disc i = true ↔ ∃ t, c.g.toSys.Reach t ∧ Wit pr.toProp t)) := by
  obtain ⟨hsim, hinv⟩ := C10_oracle_symOk_run c rep hok
  obtain ⟨_, h1, h2, h3, h4⟩ := C10_complete_run_sym c rep hwf hto hsim hinv cs hnp hq o ho hc
  exact ⟨h1.2 h3, h2.2 h4, h3, h4⟩

/-- on the example the driver's guard passes -/
example : symOk exCaseSym.g exRep (exCaseSym.props.map (·.tbl)) = true := C10_complete_run_sym_ex.2.2.2.2.2.1

end Chk
end SR.COracleRest
