import SR.Proofs.SemTester
import SR.Proofs.SemBrute
import SR.Proofs.SemObjects
/-!
# C08 — the linearizability tester decides linearizability exactly

Property theorems only. Model: `SR/Sem/Lin.lean` (`Tester` with `rt = true` = linearizability.rs:
`on_invoke` / `on_return` with the sticky validity flag and the recorded last-completed indices,
`serialize` = the backtracking search in the code's order). Declarative side: `SR/Sem/Spec.lean`
(`WellFormed`, `IsLinearization`: a duplicate-free list of operation ids containing every completed
operation, no operation placed before one that must precede it in program order or in real time —
real time read off *event positions* —, legal for the sequential specification).

`spec.Lawful` is C18's contract on `is_valid_step` (verdict = invoke-and-compare, accepted step
leaves `invoke`'s object); it holds for the trait's default and for Register / WORegister / Vec.
-/
namespace SR.C08
open SR.Sem SR.Sem.Tester SR.Sem.AMap

variable {S Op Ret : Type} (spec : SeqSpec S Op Ret) (s0 : S)

/-- the tester after `on_invoke` / `on_return` calls `es` on `LinearizabilityTester::new(s0)` -/
abbrev recordLin (s0 : S) (es : List (Event Op Ret)) : Tester S Op Ret := Tester.record true s0 es

/-- any serialization the tester returns is a linearization -/
theorem C08_sound (hlaw : spec.Lawful) (es : List (Event Op Ret)) (l : List (Op × Ret))
    (h : serializedHistory spec (recordLin s0 es) = some l) : IsLinearization spec s0 es l :=
  tester_sound hlaw s0 es l h

/-- if a well-formed history has a linearization the search finds one -/
theorem C08_complete (hlaw : spec.Lawful) (es : List (Event Op Ret)) (hwf : WellFormed es)
    (h : ∃ l, IsLinearization spec s0 es l) : (serializedHistory spec (recordLin s0 es)).isSome = true := by
  obtain ⟨l, hl⟩ := h
  exact tester_complete hlaw s0 es hwf l hl

/-- `is_consistent` ⇔ a linearization exists (in-flight operations optional) -/
theorem C08_consistent_iff (hlaw : spec.Lawful) (es : List (Event Op Ret)) (hwf : WellFormed es) :
    isConsistent spec (recordLin s0 es) = true ↔ ∃ l, IsLinearization spec s0 es l := by
  unfold isConsistent
  constructor
  · intro h
    cases hs : serializedHistory spec (recordLin s0 es) with
    | none => rw [hs] at h; cases h
    | some l => exact ⟨l, C08_sound spec s0 hlaw es l hs⟩
  · exact C08_complete spec s0 hlaw es hwf

/-- every call on a well-formed history returns `Ok` -/
theorem C08_wellformed_ok (es : List (Event Op Ret)) (hwf : WellFormed es) :
    results true (Tester.new s0) es = List.replicate es.length Res.ok := results_wellFormed s0 es hwf

/-- an ill-formed history has a first inadmissible event -/
theorem C08_illformed_split (es : List (Event Op Ret)) (h : ¬ WellFormed es) :
    ∃ p e q, es = p ++ e :: q ∧ WellFormed p ∧ ¬ Admissible p e := by
  rcases exists_first_illformed es with h' | h'
  · exact absurd h' h
  · exact h'

/-- ill-formed histories: the calls before the first inadmissible event succeed, that event gets the
    matching error (`errInFlight` for a second invocation, `errNoInFlight` for a return without an
    invocation), every later call gets "earlier history was invalid" (sticky), and the tester is
    inconsistent and returns no serialization — whatever follows -/
theorem C08_illformed (p q : List (Event Op Ret)) (e : Event Op Ret) (hp : WellFormed p) (he : ¬ Admissible p e) :
    results true (Tester.new s0) (p ++ e :: q) =
      List.replicate p.length Res.ok ++ errOf e :: List.replicate q.length Res.errEarlier ∧
    isConsistent spec (recordLin s0 (p ++ e :: q)) = false ∧
    serializedHistory spec (recordLin s0 (p ++ e :: q)) = none := by
  have hn := tester_illformed_none (rt := true) spec s0 (p ++ e :: q) (wellFormed_not_of_split he)
  exact ⟨(illformed_record s0 hp he).2, by unfold isConsistent recordLin; rw [hn]; rfl, hn⟩

/-- the validity flag is exactly well-formedness -/
theorem C08_valid_iff (es : List (Event Op Ret)) : (recordLin s0 es).valid = true ↔ WellFormed es :=
  record_valid_iff s0 es

/-- the recorded last-completed indices capture exactly "returned before the invocation": for an
    operation `b` recorded with map `lc` (completed: `history_by_thread[t][i]`, or in flight) and an
    operation `a` of another thread, `a` precedes `b` in real time iff `a.index ≤ lc[a.thread]` -/
theorem C08_bookkeeping (es : List (Event Op Ret)) (hwf : WellFormed es) :
    (∀ t i lc op r, ((find? t (recordLin s0 es).hist).getD [])[i]? = some (lc, op, r) →
      ∀ a : OpId, a.1 ≠ t → (PrecedesRT es a (t, i) ↔ ∃ m, find? a.1 lc = some m ∧ a.2 ≤ m)) ∧
    (∀ t lc op, find? t (recordLin s0 es).inflight = some (lc, op) →
      ∀ a : OpId, a.1 ≠ t → (PrecedesRT es a (t, (retsOf es t).length) ↔ ∃ m, find? a.1 lc = some m ∧ a.2 ≤ m)) := by
  have hI := rinv_record (rt := true) s0 es hwf
  constructor
  · intro t i lc op r hg a ha
    have := ((hI.hist t).2 i lc op r hg).2.2.iff a ha
    rw [this]; simp
  · intro t lc op hf a ha
    have := (hI.infl t lc op hf).2.2.2.iff a ha
    rw [this]; simp

/-- what the recorded entries are: thread `t`'s queue lists its completed operations in order
    (operation and return of the `i`-th one), its in-flight entry is the pending invocation -/
theorem C08_recorded (es : List (Event Op Ret)) (hwf : WellFormed es) (t : Nat) :
    ((find? t (recordLin s0 es).hist).getD []).length = (retsOf es t).length ∧
    (∀ i lc op r, ((find? t (recordLin s0 es).hist).getD [])[i]? = some (lc, op, r) →
      opAt es (t, i) = some op ∧ retAt es (t, i) = some r) ∧
    ((find? t (recordLin s0 es).inflight).isSome = true ↔ InFlightIn es t) ∧
    (∀ lc op, find? t (recordLin s0 es).inflight = some (lc, op) → opAt es (t, (retsOf es t).length) = some op) := by
  have hI := rinv_record (rt := true) s0 es hwf
  refine ⟨(hI.hist t).1, ?_, (hI.inFlight_iff t).symm, ?_⟩
  · intro i lc op r hg
    have := (hI.hist t).2 i lc op r hg
    exact ⟨this.1, this.2.1⟩
  · intro lc op hf; exact (hI.infl t lc op hf).2.2.1

/-- `len` = completed + in-flight operations: the completed ones are the return events, the
    in-flight ones the invocations without return, together the invocation events -/
theorem C08_len (es : List (Event Op Ret)) (hwf : WellFormed es) :
    (recordLin s0 es).len = (es.filter isInv).length ∧
    ((recordLin s0 es).hist.map fun e => e.2.length).sum = (es.filter fun e => !isInv e).length ∧
    (recordLin s0 es).inflight.length = (es.filter isInv).length - (es.filter fun e => !isInv e).length := by
  obtain ⟨h1, h2⟩ := len_record (rt := true) s0 es hwf
  refine ⟨len_eq s0 es hwf, h1, ?_⟩
  show (record true s0 es).inflight.length = _
  omega

/-- the run-time oracle's building blocks decide the declarative definitions: `checkSer` (applied to every
    serialization the implementation returns) is `IsSerializationOf`, `wfB` is `WellFormed` -/
theorem C08_oracle_decides [DecidableEq Op] [DecidableEq Ret] (es : List (Event Op Ret)) (ids : List OpId)
    (l : List (Op × Ret)) :
    (checkSer true spec s0 es ids l = true ↔ IsSerializationOf true spec s0 es ids l) ∧
    (wfB es = true ↔ WellFormed es) :=
  ⟨checkSer_iff true spec s0 es ids l, wfB_iff es⟩

/-! ## non-vacuity: the crate's own unit-test histories -/
section examples
open SR.Sem

/-- Read ∥ Write('B'), the read returns 'B' (identifies_linearizable_register_history) -/
def h1 : List (Event (RegOp Nat) (RegRet Nat)) := [.inv 0 .read, .inv 1 (.write 66), .ret 0 (.readOk 66)]

example : serializedHistory (register Nat) (recordLin 65 h1) = some [(.write 66, .writeOk), (.read, .readOk 66)] := by
  decide
example : IsLinearization (register Nat) 65 h1 [(.write 66, .writeOk), (.read, .readOk 66)] :=
  C08_sound (register Nat) 65 (register_lawful Nat) h1 _ (by decide)
example : WellFormed h1 := (C08_valid_iff 65 h1).1 (by decide)

/-- Push(10) completed, then Pop returning None: sequentially consistent but not linearizable -/
def h2 : List (Event (VecOp Nat) (VecRet Nat)) :=
  [.inv 0 (.push 10), .ret 0 .pushOk, .inv 1 .pop, .ret 1 (.popOk none)]
example : ¬ ∃ l, IsLinearization (vec Nat) [] h2 l := by
  have hwf : WellFormed h2 := (C08_valid_iff ([] : List Nat) h2).1 (by decide)
  rw [← C08_consistent_iff (vec Nat) [] (vec_lawful Nat) h2 hwf]
  decide

/-- a second invocation while one is in flight (rejects_invalid_history) -/
example : results true (Tester.new (65 : Nat))
    ([.inv 99 (.write 66), .inv 99 (.write 67), .ret 99 .writeOk] : List (Event (RegOp Nat) (RegRet Nat)))
    = [Res.ok, Res.errInFlight, Res.errEarlier] := by decide
end examples

end SR.C08
