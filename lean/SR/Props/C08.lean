/-! # C08 — property theorems (stub: nothing stated yet) -/
namespace SR.C08
end SR.C08
