/-! # C06 — property theorems (stub: nothing stated yet) -/
namespace SR.C06
end SR.C06
