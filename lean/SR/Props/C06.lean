import SR.Proofs.ActorActions
/-!
# C06 — an actor-model transition is exactly one atomic handler step of one actor

Property theorems only. Model: `SR/Actor/Sys.lean` (`init`, `actions`, `step` = transcription of
`ActorModel::{init_states, actions, next_state, process_commands}`), specification side: `SR/Actor/Spec.lean`.
Every theorem quantifies over ALL actor systems `sys` (any handler functions, any alphabets encoded in `Nat`,
any number of actors, each network kind, lossy or not, any history hooks) and all well-formed states
(`St.WF`: one entry per actor in every per-actor vector — an invariant of reachable states, `C06_reach_wf`).

`HandlerStep sys st a st' i ev s ns cmds` is the context shared by the clauses: from the well-formed state
`st` the action `a`, which hands event `ev` to actor `i` in local state `s`, is a transition to `st'`, and
the handler answered `ns` (`some` = `Cow::Owned`, `none` = left borrowed) and the commands `cmds`.
-/
namespace SR.C06
open SR SR.Actor

variable {σ η : Type}

structure HandlerStep (sys : ActorSys σ η) (st : St σ η) (a : Action) (st' : St σ η)
    (i : Nat) (ev : Event) (s : σ) (ns : Option σ) (cmds : List Cmd) : Prop where
  wf : st.WF sys
  trans : step sys st a = .next st'
  event : eventOf a = some (i, ev)
  actor : st.actors[i]? = some s
  result : handler sys i s ev = .ok ns cmds

/-- On well-formed states `next_state` IS the specified step (`specStep`: the successor described component
by component), including where it ignores the action and where it panics. -/
theorem C06_step_spec (sys : ActorSys σ η) (st : St σ η) (a : Action) (hwf : st.WF sys) :
    step sys st a = specStep sys st a := step_eq_specStep sys st a hwf

/-- every transition of a handler action has the specified successor -/
theorem C06_spec_next {sys : ActorSys σ η} {st st' : St σ η} {a : Action} {i : Nat} {ev : Event} {s : σ}
    {ns : Option σ} {cmds : List Cmd} (c : HandlerStep sys st a st' i ev s ns cmds) :
    specNext sys st a i s ns cmds = some st' ∧ ignoredBy sys ns cmds a = false := by
  have h := c.trans
  rw [step_eq_specStep sys st a c.wf] at h
  have hh : specHandlerStep sys st a i ev = .next st' := by
    have hev := c.event
    cases a <;> simp only [eventOf, Option.some.injEq, Prod.mk.injEq, reduceCtorEq] at hev
    all_goals (obtain ⟨rfl, rfl⟩ := hev; simpa [specStep, eventOf] using h)
  obtain ⟨s', ns', cmds', h1, _, h3, h4, h5⟩ := specHandlerStep_next hh
  rw [c.actor] at h1; cases h1
  rw [c.result] at h3; cases h3
  exact ⟨h5, h4⟩

/-- **One handler, one actor, atomically.** Every transition is a Drop (no handler; only the network changes),
a Crash (no handler), or exactly one invocation of the handler of one actor `i` — on the message, the timer
or the random choice the action names, in `i`'s current local state — and then the only actor state that
changes is `i`'s, replaced by the handler's new state (kept if the handler left it borrowed). -/
theorem C06_one_handler (sys : ActorSys σ η) (st st' : St σ η) (a : Action) (hwf : st.WF sys)
    (h : step sys st a = .next st') :
    (∃ e, a = .drop e ∧ st.net.onDrop e = some st'.net ∧ st' = { st with net := st'.net }) ∨
    (∃ i, a = .crash i) ∨
    (∃ i key ev s ns cmds, a = actionOf i key ev ∧ HandlerStep sys st a st' i ev s ns cmds ∧
        st'.actors = st.actors.set i (ns.getD s)) := by
  have h' := h
  rw [step_eq_specStep sys st a hwf] at h'
  have key : ∀ (i k : Nat) (ev : Event), a = actionOf i k ev → eventOf a = some (i, ev) →
      specHandlerStep sys st a i ev = .next st' →
      ∃ i key ev s ns cmds, a = actionOf i key ev ∧ HandlerStep sys st a st' i ev s ns cmds ∧
        st'.actors = st.actors.set i (ns.getD s) := by
    intro i k ev ha hev hh
    obtain ⟨s, ns, cmds, h1, _, h3, _, h5⟩ := specHandlerStep_next hh
    refine ⟨i, k, ev, s, ns, cmds, ha, ⟨hwf, h, hev, h1, h3⟩, ?_⟩
    unfold specNext at h5
    split at h5
    · cases h5; rfl
    · cases h5
  cases a with
  | drop e =>
    left
    simp only [specStep] at h'
    cases hd : st.net.onDrop e with
    | none => simp [hd] at h'
    | some net => simp [hd] at h'; subst h'; exact ⟨e, rfl, hd, rfl⟩
  | crash i => right; left; exact ⟨i, rfl⟩
  | deliver e =>
    right; right
    exact key e.dst 0 (.msg e.src e.msg) rfl rfl (by simpa [specStep, eventOf] using h')
  | timeout i t =>
    right; right
    exact key i 0 (.timeout t) rfl rfl (by simpa [specStep, eventOf] using h')
  | selectRandom i k r =>
    right; right
    exact key i k (.random r) rfl rfl (by simpa [specStep, eventOf] using h')

/-- **Nothing else changes.** The timers, pending choices and local states of every other actor, and all
crash flags, are untouched. -/
theorem C06_frame {sys : ActorSys σ η} {st st' : St σ η} {a : Action} {i : Nat} {ev : Event} {s : σ}
    {ns : Option σ} {cmds : List Cmd} (c : HandlerStep sys st a st' i ev s ns cmds) :
    st'.crashed = st.crashed ∧
    ∀ j, j ≠ i → st'.timers[j]? = st.timers[j]? ∧ st'.random[j]? = st.random[j]? ∧ st'.actors[j]? = st.actors[j]? := by
  obtain ⟨h, _⟩ := C06_spec_next c
  unfold specNext at h
  split at h
  · cases h
    refine ⟨rfl, fun j hj => ?_⟩
    have : i ≠ j := fun e => hj e.symm
    simp [List.getElem?_set_ne this]
  · cases h

/-- **Sends enter the network in emission order**: the network after the step is the network after the
action consumed its envelope (delivered: per kind; timeout / random: unchanged) with the handler's sends
applied one by one in the order of the command list. -/
theorem C06_sends_in_order {sys : ActorSys σ η} {st st' : St σ η} {a : Action} {i : Nat} {ev : Event} {s : σ}
    {ns : Option σ} {cmds : List Cmd} (c : HandlerStep sys st a st' i ev s ns cmds) :
    ∃ net, consume st.net a = some net ∧ st'.net = sendAll net (sendsOf i cmds) := by
  obtain ⟨h, _⟩ := C06_spec_next c
  unfold specNext at h
  split at h
  · rename_i net ts m hc _ _
    cases h
    exact ⟨net, hc, rfl⟩
  · cases h

/-- corollary for ordered networks: every flow out of `i` is its queue after the consumption followed by the
messages the handler sent to that destination, in emission order; all other flows are as after the consumption -/
theorem C06_sends_fifo {sys : ActorSys σ η} {st st' : St σ η} {a : Action} {i : Nat} {ev : Event} {s : σ}
    {ns : Option σ} {cmds : List Cmd} (c : HandlerStep sys st a st' i ev s ns cmds)
    (ho : st.net.isOrdered = true) :
    ∃ net, consume st.net a = some net ∧ ∀ f : Nat × Nat,
      st'.net.queue f = net.queue f ++ ((sendsOf i cmds).filter (fun e => flowOf e = f)).map (·.msg) := by
  obtain ⟨net, hc, hn⟩ := C06_sends_in_order c
  refine ⟨net, hc, fun f => ?_⟩
  rw [hn]
  have hk : net.isOrdered = true := by
    cases a with
    | deliver e => exact (sameKind_isOrdered (sameKind_apply (op := .deliver e) hc)).symm.trans ho
    | drop e => exact (sameKind_isOrdered (sameKind_apply (op := .drop e) hc)).symm.trans ho
    | timeout _ _ => simp [consume] at hc; subst hc; exact ho
    | crash _ => simp [consume] at hc; subst hc; exact ho
    | selectRandom _ _ _ => simp [consume] at hc; subst hc; exact ho
  clear hn hc
  generalize sendsOf i cmds = es
  induction es generalizing net with
  | nil => simp [sendAll]
  | cons e es ih =>
    cases net with
    | dup _ _ => simp [Net.isOrdered] at hk
    | nondup _ => simp [Net.isOrdered] at hk
    | ord flows =>
      simp only [sendAll, List.foldl_cons] at ih ⊢
      rw [ih _ (by simp [Net.send, Net.isOrdered]), queue_send]
      by_cases hf : flowOf e = f
      · simp [List.filter_cons, hf]
      · have : ¬ f = flowOf e := fun x => hf x.symm
        simp [List.filter_cons, hf, this]

/-- **Timers**: the timer set of `i` is the fold of the handler's timer commands (set / cancel, in order) over
`i`'s timers without the fired one. -/
theorem C06_timers {sys : ActorSys σ η} {st st' : St σ η} {a : Action} {i : Nat} {ev : Event} {s : σ}
    {ns : Option σ} {cmds : List Cmd} (c : HandlerStep sys st a st' i ev s ns cmds) :
    ∃ ts, st.timers[i]? = some ts ∧ st'.timers[i]? = some (cmds.foldl applyTimerCmd (firedTimers ts a)) := by
  obtain ⟨h, _⟩ := C06_spec_next c
  unfold specNext at h
  split at h
  · rename_i net ts m _ ht _
    cases h
    exact ⟨ts, ht, by simp [List.getElem?_set_self (lt_length_of_getElem? ht)]⟩
  · cases h

/-- **Random choices**: the pending choices of `i` are the fold of the handler's choice commands (open /
overwrite a key, remove it when the vector is empty) over `i`'s pending choices without the selected key. -/
theorem C06_random {sys : ActorSys σ η} {st st' : St σ η} {a : Action} {i : Nat} {ev : Event} {s : σ}
    {ns : Option σ} {cmds : List Cmd} (c : HandlerStep sys st a st' i ev s ns cmds) :
    ∃ m, st.random[i]? = some m ∧ st'.random[i]? = some (cmds.foldl applyRandomCmd (selectedRandom m a)) := by
  obtain ⟨h, _⟩ := C06_spec_next c
  unfold specNext at h
  split at h
  · rename_i net ts m _ _ hr
    cases h
    exact ⟨m, hr, by simp [List.getElem?_set_self (lt_length_of_getElem? hr)]⟩
  · cases h

/-- declarative reading of the timer fold: after the step a timer is set iff the last command about it sets
it, or no command mentions it and it was set before and did not fire -/
theorem C06_timers_decl (ts : List Nat) (cmds : List Cmd) (t : Nat) :
    t ∈ cmds.foldl applyTimerCmd ts ↔
      match (cmds.filter (fun c => c = .setTimer t || c = .cancelTimer t)).getLast? with
      | some (.setTimer _) => True
      | some _ => False
      | none => t ∈ ts := by
  induction cmds generalizing ts with
  | nil => simp
  | cons c cs ih =>
    rw [List.foldl_cons, ih]
    rw [List.filter_cons]
    by_cases hc : (decide (c = .setTimer t) || decide (c = .cancelTimer t)) = true
    · rw [if_pos hc, List.getLast?_cons]
      cases hl : (cs.filter (fun c => decide (c = .setTimer t) || decide (c = .cancelTimer t))).getLast? with
      | some x => cases x <;> simp
      | none =>
        simp only [Option.getD_none]
        simp only [Bool.or_eq_true, decide_eq_true_eq] at hc
        rcases hc with rfl | rfl
        · simp [applyTimerCmd, mem_sins]
        · simp [applyTimerCmd, mem_srem]
    · rw [if_neg hc]
      simp only [Bool.or_eq_true, decide_eq_true_eq, not_or] at hc
      cases hl : (cs.filter (fun c => decide (c = .setTimer t) || decide (c = .cancelTimer t))).getLast? with
      | some x => cases x <;> simp
      | none =>
        simp only
        cases c with
        | send _ _ => simp [applyTimerCmd]
        | chooseRandom _ _ => simp [applyTimerCmd]
        | setTimer t' =>
          have : t ≠ t' := fun e => hc.1 (by rw [e])
          simp [applyTimerCmd, mem_sins, this]
        | cancelTimer t' =>
          have : t ≠ t' := fun e => hc.2 (by rw [e])
          simp [applyTimerCmd, mem_srem, this]

/-- declarative reading of the choice fold: after the step the choices pending under key `k` are those of the
last `choose_random(k, …)` command (none if that vector was empty = `remove_random`), or the old ones (minus the
selected key) if no command mentions `k` -/
theorem C06_random_decl (m : List (Nat × List Nat)) (cmds : List Cmd) (k : Nat) :
    alookup k (cmds.foldl applyRandomCmd m) =
      match (cmds.filterMap (fun c => match c with
          | .chooseRandom k' cs => if k' = k then some cs else none
          | _ => none)).getLast? with
      | some cs => if cs.isEmpty then none else some cs
      | none => alookup k m := by
  induction cmds generalizing m with
  | nil => simp
  | cons c cs ih =>
    rw [List.foldl_cons, ih, List.filterMap_cons]
    cases c with
    | send _ _ => simp [applyRandomCmd]
    | setTimer _ => simp [applyRandomCmd]
    | cancelTimer _ => simp [applyRandomCmd]
    | chooseRandom k' ch =>
      simp only [applyRandomCmd]
      by_cases hk : k' = k
      · subst hk
        simp only [if_true, List.getLast?_cons]
        cases hl : (cs.filterMap (fun c => match c with
            | .chooseRandom k'' cs => if k'' = k' then some cs else none
            | _ => none)).getLast? with
        | some x => simp
        | none =>
          simp only [Option.getD_none]
          by_cases he : ch.isEmpty = true
          · simp [he, alookup_aremove]
          · simp [he, alookup_ainsert]
      · have hk' : ¬ k = k' := fun e => hk e.symm
        simp only [hk, if_false]
        cases hl : (cs.filterMap (fun c => match c with
            | .chooseRandom k'' cs => if k'' = k then some cs else none
            | _ => none)).getLast? with
        | some x => simp
        | none =>
          simp only
          by_cases he : ch.isEmpty = true
          · simp [he, alookup_aremove, hk']
          · simp [he, alookup_ainsert, hk']

/-- **History**: the hook for received messages sees the delivered envelope first, then the hook for sent
messages sees each sent envelope in emission order (a hook answering `None` leaves the history as it is). -/
theorem C06_history {sys : ActorSys σ η} {st st' : St σ η} {a : Action} {i : Nat} {ev : Event} {s : σ}
    {ns : Option σ} {cmds : List Cmd} (c : HandlerStep sys st a st' i ev s ns cmds) :
    st'.hist = recordOuts sys (recordIn? sys st.hist a) (sendsOf i cmds) := by
  obtain ⟨h, _⟩ := C06_spec_next c
  unfold specNext at h
  split at h
  · cases h; rfl
  · cases h

/-- **A delivery that changes nothing yields no transition on unordered networks.** -/
theorem C06_noop (sys : ActorSys σ η) (st : St σ η) (e : Env) (s : σ) (cmds : List Cmd) (hwf : st.WF sys)
    (hs : st.actors[e.dst]? = some s) (hr : (sys.actor e.dst).msg e.dst s e.src e.msg = .ok none cmds)
    (hc : cmds = []) (hu : sys.initNet.isOrdered = false) :
    step sys st (.deliver e) = .ignored := by
  rw [step_eq_specStep sys st _ hwf]
  subst hc
  simp only [specStep, eventOf, specHandlerStep, hs, handler, hr, ignoredBy, isNoOp, hu]
  split <;> simp

/-- on an ordered network a no-op delivery is still a step: it consumes the head of its flow (and is recorded) -/
theorem C06_noop_ordered (sys : ActorSys σ η) (st : St σ η) (e : Env) (s : σ) (net : Net) (hwf : st.WF sys)
    (hs : st.actors[e.dst]? = some s) (hup : st.crashed[e.dst]? = some false)
    (hr : (sys.actor e.dst).msg e.dst s e.src e.msg = .ok none [])
    (ho : sys.initNet.isOrdered = true) (hd : st.net.onDeliver e = some net) :
    step sys st (.deliver e) = .next { st with net := net, hist := (sys.recordIn st.hist e).getD st.hist } := by
  obtain ⟨hA, hT, hR, hC⟩ := hwf
  have hlt := lt_length_of_getElem? hs
  obtain ⟨ts, h1⟩ := getElem?_of_lt (l := st.timers) (i := e.dst) (by omega)
  obtain ⟨m, h2⟩ := getElem?_of_lt (l := st.random) (i := e.dst) (by omega)
  simp only [step, hs, hup, hr, isNoOp, ho, hd, processCommands, ofOption, setActor]
  simp

/-- **A timeout whose handler only re-arms the same timer and keeps the state yields no transition.** -/
theorem C06_timer_noop (sys : ActorSys σ η) (st : St σ η) (i t : Nat) (s : σ) (hwf : st.WF sys)
    (hs : st.actors[i]? = some s) (hr : (sys.actor i).timeout i s t = .ok none [.setTimer t]) :
    step sys st (.timeout i t) = .ignored := by
  rw [step_eq_specStep sys st _ hwf]
  simp [specStep, eventOf, specHandlerStep, hs, handler, hr, ignoredBy, isNoOpWithTimer, isDeliver]

/-- **Initial state**: every actor is started once, in index order; its commands are applied as above. -/
theorem C06_init (sys : ActorSys σ η) : init sys = some (specInit sys) := init_eq_specInit sys

/-- **Enabled actions** are exactly: delivery of a deliverable envelope to an existing actor; drop of a
deliverable envelope if the network is lossy; timeout of a timer that is set; crash of an actor that is up
while the budget lasts; selection of one of the pending choices. (Network of the configured kind, canonical:
invariant of reachable states, `C06_reach_wf`.) -/
theorem C06_actions_complete (sys : ActorSys σ η) (st : St σ η) (hn : st.NetOk sys) (a : Action) :
    a ∈ actions sys st ↔ enabledSpec sys st a := mem_actions_iff sys st hn a

/-- every reachable state of the actor model is well-formed and its network is canonical and of the
configured kind, so all clauses above apply at every reachable state -/
theorem C06_reach_wf (sys : ActorSys σ η) (inB : St σ η → Bool) (hc : sys.initNet.Canon) (st : St σ η)
    (h : (sys.toSys inB).Reach st) : st.WF sys ∧ st.NetOk sys := reach_inv sys inB hc h

/-- an enabled action never panics at a reachable state, provided the handlers do not -/
theorem C06_enabled_no_panic (sys : ActorSys σ η) (st : St σ η) (a : Action) (hwf : st.WF sys) (hn : st.NetOk sys)
    (hh : ∀ i s ev, handler sys i s ev ≠ .panic) (ha : a ∈ actions sys st) : step sys st a ≠ .panic := by
  rw [step_eq_specStep sys st a hwf]
  have hen := (C06_actions_complete sys st hn a).1 ha
  obtain ⟨hA, hT, hR, hC⟩ := hwf
  have hcons : ∀ e, e ∈ st.net.iterDeliverable → (st.net.onDeliver e).isSome ∧ (st.net.onDrop e).isSome := by
    intro e he
    have hhd := (mem_iterDeliverable hn.1 e).1 he
    cases hnet : st.net with
    | dup _ _ => simp [Net.onDeliver, Net.onDrop]
    | nondup ms =>
      rw [hnet] at hhd
      obtain ⟨c, hc⟩ := hhd
      have hcan := hn.1
      rw [hnet] at hcan
      have hpos := hcan.1 _ (alookup_mem hc)
      have : c ≠ 0 := by simp at hpos; omega
      simp only [Net.onDeliver, Net.onDrop, Net.removeOne, hc]
      by_cases h1 : c = 1 <;> simp [this, h1]
    | ord flows =>
      rw [hnet] at hhd
      obtain ⟨q, hq, hhq⟩ := hhd
      obtain ⟨t, rfl⟩ := List.head?_eq_some_iff.1 hhq
      simp only [Net.onDeliver, Net.onDrop, Net.removeOne, hq, List.idxOf?_cons, beq_self_eq_true, if_true]
      split <;> simp
  have hspec : ∀ (i : Nat) (ev : Event), i < sys.n → (consume st.net a).isSome →
      (isDeliver a = true ∨ st.actors[i]? ≠ none) → specHandlerStep sys st a i ev ≠ .panic := by
    intro i ev hi hcon _
    obtain ⟨s, hs⟩ := getElem?_of_lt (l := st.actors) (i := i) (by omega)
    obtain ⟨ts, h1⟩ := getElem?_of_lt (l := st.timers) (i := i) (by omega)
    obtain ⟨m, h2⟩ := getElem?_of_lt (l := st.random) (i := i) (by omega)
    obtain ⟨net, hnet⟩ := Option.isSome_iff_exists.1 hcon
    unfold specHandlerStep
    rw [hs]
    simp only
    split
    · simp
    · cases hr : handler sys i s ev with
      | panic => exact absurd hr (hh i s ev)
      | ok ns cmds =>
        simp only
        split
        · simp
        · simp [specNext, hnet, h1, h2, ofOption]
  cases a with
  | deliver e =>
    obtain ⟨he, hlt⟩ := hen
    simp only [specStep, eventOf]
    exact hspec e.dst _ hlt (by simpa [consume] using (hcons e he).1) (Or.inl rfl)
  | drop e =>
    obtain ⟨_, he⟩ := hen
    simp only [specStep]
    obtain ⟨net, hnet⟩ := Option.isSome_iff_exists.1 (hcons e he).2
    simp [hnet]
  | timeout i t =>
    obtain ⟨ts, hts, _⟩ := hen
    have hi : i < sys.n := by have := lt_length_of_getElem? hts; omega
    simp only [specStep, eventOf]
    exact hspec i _ hi (by simp [consume]) (Or.inr (by
      obtain ⟨s, hs⟩ := getElem?_of_lt (l := st.actors) (i := i) (by omega)
      simp [hs]))
  | crash i =>
    obtain ⟨_, hi⟩ := hen
    have hi : i < sys.n := by have := lt_length_of_getElem? hi; omega
    simp [specStep, hi]
  | selectRandom i k r =>
    obtain ⟨m, cs, hm, _, _⟩ := hen
    have hi : i < sys.n := by have := lt_length_of_getElem? hm; omega
    simp only [specStep, eventOf]
    exact hspec i _ hi (by simp [consume]) (Or.inr (by
      obtain ⟨s, hs⟩ := getElem?_of_lt (l := st.actors) (i := i) (by omega)
      simp [hs]))

/-! ## the hypotheses are satisfiable: a concrete two-actor system using every command kind -/

/-- actor 0 answers message 1 from actor 1 in state 5 by moving to state 6, sending two messages, setting and
cancelling timers and opening a choice -/
def exActor : Actor Nat where
  start _ := (5, [.send 1 9, .setTimer 2])
  msg _ s src m := if s = 5 ∧ src = 1 ∧ m = 1 then
      .ok (some 6) [.send 1 7, .setTimer 3, .cancelTimer 2, .send 1 8, .chooseRandom 0 [4, 5]] else .ok none []
  timeout _ _ _ := .ok none []
  random _ _ _ := .ok none []

def exSys : ActorSys Nat (List Nat) where
  n := 2
  actor _ := exActor
  lossy := true
  maxCrashes := 1
  initNet := Net.ord []
  initHist := []
  recordIn h e := some (h ++ [100 + e.msg])
  recordOut h e := some (h ++ [200 + e.msg])

def exSt : St Nat (List Nat) :=
  { actors := [5, 5], net := Net.ord [((1, 0), [1])], timers := [[2], []], random := [[], []],
    crashed := [false, false], hist := [] }

example : exSt.WF exSys := ⟨rfl, rfl, rfl, rfl⟩
example : step exSys exSt (.deliver ⟨1, 0, 1⟩) = .next
    { actors := [6, 5], net := Net.ord [((0, 1), [7, 8])], timers := [[3], []], random := [[(0, [4, 5])], []],
      crashed := [false, false], hist := [101, 207, 208] } := by decide
example : HandlerStep exSys exSt (.deliver ⟨1, 0, 1⟩)
    { actors := [6, 5], net := Net.ord [((0, 1), [7, 8])], timers := [[3], []], random := [[(0, [4, 5])], []],
      crashed := [false, false], hist := [101, 207, 208] } 0 (.msg 1 1) 5 (some 6)
    [.send 1 7, .setTimer 3, .cancelTimer 2, .send 1 8, .chooseRandom 0 [4, 5]] :=
  ⟨⟨rfl, rfl, rfl, rfl⟩, by decide, rfl, rfl, rfl⟩

end SR.C06
