import SR.Props.C01
import SR.Props.C02
import SR.Proofs.Checker.Termination
import SR.Proofs.Checker.SchedTerm
/-!
# C05 (checker-machine part) — parallel checking is schedule-independent

Property theorems only (the job-market theorems are in `Props/C05.lean`).  Two arbitrary schedules `cs`, `cs'`
— any thread counts, any interleavings of the workers' atomic sections, any queue disciplines — that both
complete without early exit evaluate the same set of states, generate the same set of keys and reach the same
always/sometimes verdicts.
-/
namespace SR.C05M
open SR SR.Checker

variable {σ κ α : Type} [DecidableEq κ] (P : Params σ κ α)

theorem C05_schedule_independent_states
    (hinj : ∀ a b, P.M.Reach a → P.M.Reach b → P.key a = P.key b → a = b)
    (cs cs' : List Choice) (hq : Quiescent (run P cs)) (hq' : Quiescent (run P cs'))
    (he : (run P cs).early = false) (he' : (run P cs').early = false) :
    (∀ t, t ∈ visitedStates (run P cs) ↔ t ∈ visitedStates (run P cs')) ∧
    (∀ k, k ∈ (run P cs).gen ↔ k ∈ (run P cs').gen) ∧
    (run P cs).gen.length = (run P cs').gen.length := by
  obtain ⟨h1, hnd, h2⟩ := C01.C01_exact P hinj cs hq he
  obtain ⟨h1', hnd', h2'⟩ := C01.C01_exact P hinj cs' hq' he'
  refine ⟨fun t => (h1 t).symm.trans (h1' t), fun k => (h2 k).trans (h2' k).symm, ?_⟩
  have hp : (run P cs).gen.Perm (run P cs').gen :=
    (List.perm_ext_iff_of_nodup hnd hnd').2 (fun k => (h2 k).trans (h2' k).symm)
  exact hp.length_eq

theorem C05_schedule_independent_verdicts
    (hinj : ∀ a b, P.M.Reach a → P.M.Reach b → P.key a = P.key b → a = b)
    (cs cs' : List Choice) (hc : C02.Completed P (run P cs)) (hc' : C02.Completed P (run P cs'))
    (i : Nat) (pr : Prop' σ) (hpr : P.props[i]? = some pr) (hexp : pr.exp ≠ .eventually) :
    hasDisc (run P cs).disc i = hasDisc (run P cs').disc i := by
  have hR := fun (cs : List Choice) (hc : C02.Completed P (run P cs)) =>
    C02.C02_verdict_modulo P Eq hinj (fun _ _ _ h1 h2 => h1.trans h2)
      (fun a b hab a' ha' => ⟨a', hab ▸ ha', rfl⟩) cs hc i pr hpr (fun a b hab => by rw [hab]) hexp
  have h1 := hR cs hc
  have h2 := hR cs' hc'
  cases hd : hasDisc (run P cs).disc i <;> cases hd' : hasDisc (run P cs').disc i <;> simp_all

/-! ### Termination of the checking logic under every schedule

`Fin P R D`: the model has finitely many reachable states (all listed in `R`) with at most `D` in-boundary successors
each.  `mu` is an explicit numeric measure of a machine state (ungenerated reachable states × A + pending jobs × B +
remaining steps of the active workers + 1 while nobody has stopped). -/

/-- **no schedule can keep the checkers busy forever**: whatever the choice list (thread count, interleaving,
    queue discipline, stale reads, stops), the number of steps that change the state is bounded by `mu` of the
    initial state. -/
theorem C05_bounded_work {R : List σ} {D : Nat} (hfin : Fin P R D) (cs : List Choice) :
    effCount (P := P) (init P.M P.props P.key) cs ≤ mu P R D (init P.M P.props P.key) := by
  have := effCount_bound (P := P) hfin (init P.M P.props P.key) sinv_init tinv_init cs
  omega

/-- each single state-changing step strictly decreases the measure (at every reachable machine state) -/
theorem C05_measure_decreases {R : List σ} {D : Nat} (hfin : Fin P R D) (cs : List Choice) (c : Choice)
    (hne : step P c (run P cs) ≠ run P cs) : mu P R D (step P c (run P cs)) < mu P R D (run P cs) :=
  mu_step_lt hfin c (sinv_run (P := P) cs) (tinv_run (P := P) cs) hne

/-- **no deadlock in the checking logic**: as long as something is pending or a worker is busy, some worker has a
    step that changes the state; equivalently, a state in which no step changes anything is quiescent (`join`
    has nothing left to wait for). -/
theorem C05_progress (s : St σ κ) (hstuck : ∀ c, step P c s = s) : Quiescent s := by
  apply Classical.byContradiction
  intro hnq
  obtain ⟨c, hc⟩ := progress (P := P) s hnq
  exact hc (hstuck c)

/-- **The single-threaded executables terminate.**  `runSingle` (the one-thread worker loop of bfs.rs / dfs.rs / on_demand.rs
    as a scheduler over the machine) takes a `fuel` argument; on a model with finitely many reachable states
    `3 * mu + 2` iterations of the loop always suffice: the loop has then returned by itself and the state is quiescent.
    (So the hypothesis `Quiescent (runSingle …)` of the `…_single` theorems is discharged for every such fuel.) -/
theorem C05_single_thread_terminates {R : List σ} {D : Nat} (hfin : Fin P R D) (d : Discipline) (fuel : Nat)
    (hfuel : 3 * mu P R D (init P.M P.props P.key) + 2 ≤ fuel) : Quiescent (runSingle P d fuel) := by
  unfold runSingle run
  rw [runFrom_schedule]
  have hpsi : Psi P R D (init P.M P.props P.key, if d == Discipline.ondemand then 0 else blockSize) ≤ fuel := by
    have := wgt_le (init P.M P.props P.key) (if d == Discipline.ondemand then 0 else blockSize)
    unfold Psi; simp only; omega
  have hclean : StopClean (init P.M P.props P.key) := by intro h; simp [init] at h
  obtain ⟨h1, h2⟩ := iterN_done hfin d fuel _ sinv_init tinv_init hclean hpsi
  exact quiescent_of_iter_none d _ h2 h1

/-- C01 for the single-threaded executables WITHOUT a termination hypothesis: finite model, enough fuel, no early exit,
    no fingerprint collision ⇒ the evaluated states are exactly the reachable ones. -/
theorem C05_single_thread_exact {R : List σ} {D : Nat} (hfin : Fin P R D)
    (hinj : ∀ a b, P.M.Reach a → P.M.Reach b → P.key a = P.key b → a = b)
    (d : Discipline) (fuel : Nat) (hfuel : 3 * mu P R D (init P.M P.props P.key) + 2 ≤ fuel)
    (he : (runSingle P d fuel).early = false) :
    ∀ t, P.M.Reach t ↔ t ∈ visitedStates (runSingle P d fuel) :=
  C01.C01_exact_single P d fuel hinj (C05_single_thread_terminates P hfin d fuel hfuel) he

/-! ### Non-vacuity: the 5-state graph of `Props/C01.lean` is finite in the sense of `Fin` (states 0..4, out-degree ≤ 2), so the
termination theorems apply to it with the explicit bound. -/

example (fuel : Nat) (h : 3 * mu C01.exParams (List.range 5) 2 (init C01.exParams.M C01.exParams.props C01.exParams.key) + 2 ≤ fuel) :
    Quiescent (runSingle C01.exParams .bfs fuel) := by
  have exFin : Fin C01.exParams (List.range 5) 2 := by
    have hclosed : ∀ s, s < 5 → ∀ t ∈ C01.exParams.M.succB s, t < 5 := by decide
    have hinit : ∀ s ∈ C01.exParams.M.initB, s < 5 := by decide
    refine ⟨?_, by decide⟩
    intro s hr
    rw [List.mem_range]
    induction hr with
    | init h => exact hinit _ h
    | step _ ht ih => exact hclosed _ ih _ ht
  exact C05_single_thread_terminates C01.exParams exFin .bfs fuel h

end SR.C05M
