import SR.Proofs.Checker.SpecAdequacy
import SR.Drv.Chk
import SR.Props.C01
import SR.Props.C11
import SR.Props.C13
/-!
# The graph oracles are adequate

Property theorems only; proofs in `SR/Proofs/Checker/SpecAdequacy.lean`.

The oracles that judge the IMPLEMENTATION's outputs for C11 and C13 (`oracleC11`, `oracleC13` in `SR/Drv/Chk.lean`) run the
executable functions `reachList`, `distOf`, `canAvoidForever` and `isForest` of `SR/Checker/Spec.lean`.  Here they are related
to the declarative notions the property theorems use, on every well-formed graph (`Graph.WF`: initial states and edge
targets are state numbers `< g.n`; nothing else is assumed — duplicated or out-of-boundary initial states, ignored actions,
short `adj`/`bnd` tables are all allowed).

* the closure always stabilises within `g.n` rounds (`C13_oracle_reach_stabilises`): the run-time answer
  `oracle-closure-not-stabilised` can never be given on a well-formed graph, and `reachList` is exactly `Reach`;
* `distOf` is the length of a shortest in-boundary path from an initial state (`C13_oracle_dist`, `C13_oracle_dist_none`);
* `canAvoidForever c` holds exactly when a maximal in-boundary path avoiding `c` exists, maximal in the sense of
  `C11.MaxPathAvoidingSim`: ending in a state without in-boundary successor OR closing a cycle (`C11_oracle_can_avoid`).
  With respect to the terminal-only predicate `C11.MaxPathAvoiding` of the exhaustive checkers it is complete
  (`C11_oracle_can_avoid_terminal_complete`: whenever such a path exists it says `true`, so the line
  `eventually-false-alarm` never accuses a correct report) and exact on forests (`C11_oracle_can_avoid_on_forest`: the only
  place where the oracle draws a conclusion from `true`, `eventually-missed-on-forest`), but NOT exact in general
  (`C11_oracle_can_avoid_not_terminal_exact`: a self-loop);
* `isForest` implies `Forest` (`C11_oracle_forest_sound`) and is equivalent to `Forest` + "the in-boundary initial states
  are listed without repetition" (`C11_oracle_forest`); without the second conjunct the equivalence FAILS
  (`C11_oracle_forest_not_complete`: `init = [0, 0]`), i.e. `isForest` is strictly stronger than `Forest` — the oracle then
  skips the forest-exactness test, it never raises a false alarm because of it.
-/
namespace SR.COracle
open SR SR.Checker

variable (g : Graph)

/-! ### reachability -/

/-- **The closure always stabilises**: on a well-formed graph `g.n` rounds reach a fixpoint — the hypothesis `hfix` of
    `reachList_iff` holds, and the test the driver performs before every oracle call succeeds. -/
theorem C13_oracle_reach_stabilises (hwf : g.WF) :
    (∀ x, x ∈ g.closeStep g.reachList → x ∈ g.reachList) ∧
    (g.closeStep g.reachList).all g.reachList.contains = true := by
  have h := Graph.reachList_hfix g hwf
  refine ⟨h, ?_⟩
  rw [List.all_eq_true]
  intro x hx
  simpa using h x hx

/-- `reachList` is exactly the set of reachable in-boundary states, and lists each once -/
theorem C13_oracle_reach (hwf : g.WF) : (∀ x, x ∈ g.reachList ↔ g.toSys.Reach x) ∧ g.reachList.Nodup :=
  ⟨Graph.reachList_iff_wf g hwf, Graph.nodup_reachList g⟩

/-! ### distance -/

/-- **`distOf` = length of a shortest in-boundary path from an initial state** (`d` transitions = `d + 1` states) -/
theorem C13_oracle_dist (hwf : g.WF) (s d : Nat) :
    g.distOf s = some d ↔
      (∃ p, g.toSys.IsPath p ∧ p.getLast? = some s ∧ p.length = d + 1) ∧
      ∀ q, g.toSys.IsPath q → q.getLast? = some s → d + 1 ≤ q.length :=
  Graph.distOf_some_iff g hwf s d

/-- `distOf` answers `none` exactly on the unreachable states -/
theorem C13_oracle_dist_none (hwf : g.WF) (s : Nat) : g.distOf s = none ↔ ¬ g.toSys.Reach s :=
  Graph.distOf_none_iff g hwf s

/-- the test `bfs-visit-path-not-shortest` of `oracleC13` is the conclusion of `C13_order`: a real path `p` passes it iff no
    in-boundary path from an initial state to the same state is shorter -/
theorem C13_oracle_visit_test (hwf : g.WF) (p : List Nat) (hp : g.toSys.IsPath p) :
    (g.distOf (Drv.Chk.lastOf p) == some (p.length - 1)) = true ↔
      ∀ q, g.toSys.IsPath q → q.getLast? = p.getLast? → p.length ≤ q.length := by
  have hne := Sys.isPath_ne_nil hp
  have hpos : 0 < p.length := List.length_pos_iff.2 hne
  have hl : p.getLast? = some (Drv.Chk.lastOf p) := by
    unfold Drv.Chk.lastOf
    rw [List.getLast?_eq_some_getLast hne]; rfl
  rw [beq_iff_eq, C13_oracle_dist g hwf, hl]
  constructor
  · rintro ⟨_, h⟩ q hq hql
    have := h q hq hql
    omega
  · intro h
    refine ⟨⟨p, hp, hl, by omega⟩, ?_⟩
    intro q hq hql
    have := h q hq hql
    omega

/-! ### maximal paths avoiding a condition -/

section
variable {κ : Type} (P : Params Nat κ Nat)

/-- **`canAvoidForever` is exact** for the maximal paths of `C11.MaxPathAvoidingSim`: a real in-boundary path from an
    initial state on which the condition never holds and which ends in a state without in-boundary successor or closes
    a cycle (a lasso).  `P.key` is any injective state identity (the driver uses `id`). -/
theorem C11_oracle_can_avoid (hwf : g.WF) (hM : P.M = g.toSys) (hkey : ∀ a b, P.key a = P.key b → a = b)
    (pr : Prop' Nat) :
    g.canAvoidForever pr.cond = true ↔ ∃ p, C11.MaxPathAvoidingSim P pr p := by
  rw [Graph.canAvoidForever_iff g hwf]
  unfold C11.MaxPathAvoidingSim Sim.CyclesBack
  rw [hM]
  constructor
  · rintro ⟨p, hp, hav, h | ⟨s, hs, hc⟩⟩
    · exact ⟨p, hp, hav, Or.inl h⟩
    · exact ⟨p, hp, hav, Or.inr ⟨s, hs, s, hc, rfl⟩⟩
  · rintro ⟨p, hp, hav, h | ⟨s, hs, t, ht, hk⟩⟩
    · exact ⟨p, hp, hav, Or.inl h⟩
    · exact ⟨p, hp, hav, Or.inr ⟨s, hs, hkey t s hk ▸ ht⟩⟩

/-- **complete for the terminal-only predicate of the exhaustive checkers**: if a maximal path avoiding the condition and
    ending in a terminal state exists, `canAvoidForever` says so.  (Hence `eventually-false-alarm`, raised when a
    discovery is reported and `canAvoidForever = false`, is raised only when NO such path exists.) -/
theorem C11_oracle_can_avoid_terminal_complete (hwf : g.WF) (hM : P.M = g.toSys) (pr : Prop' Nat)
    (h : ∃ p, C11.MaxPathAvoiding P pr p) : g.canAvoidForever pr.cond = true := by
  rw [Graph.canAvoidForever_iff g hwf]
  obtain ⟨p, hp, hav, hterm⟩ := h
  rw [hM] at hp hterm
  exact ⟨p, hp, hav, Or.inl hterm⟩

/-- **exact for the terminal-only predicate on forests** — the only situation in which `oracleC11` concludes something
    from `canAvoidForever = true` (`eventually-missed-on-forest`, guarded by `isForest`). -/
theorem C11_oracle_can_avoid_on_forest (hwf : g.WF) (hM : P.M = g.toSys) (hF : Forest P.M) (pr : Prop' Nat) :
    g.canAvoidForever pr.cond = true ↔ ∃ p, C11.MaxPathAvoiding P pr p := by
  rw [hM] at hF
  rw [Graph.canAvoidForever_iff_of_forest g hwf hF]
  unfold C11.MaxPathAvoiding
  rw [hM]

end

/-- FULL statement that does NOT hold: `g.canAvoidForever pr.cond = true ↔ ∃ p, C11.MaxPathAvoiding P pr p` on every
    well-formed graph.  Counterexample: one state with a self-loop, condition never true.  `canAvoidForever` answers `true`
    (the lasso `[0, 0]`), but no path ends in a terminal state.  For the exhaustive checkers the line
    `eventually-false-alarm` of `oracleC11` is therefore weaker than "no `MaxPathAvoiding` exists" on graphs with cycles; the
    reported witness itself is still checked exactly by `oracleC03` (`eventually-discovery-path-extensible-inside-boundary`). -/
def loopGraph : Graph := { n := 1, init := [0], adj := [[some 0]], bnd := [true] }
def loopParams : Params Nat Nat Nat :=
  { M := loopGraph.toSys, props := [{ exp := .eventually, cond := fun _ => false }], key := id, cfg := {},
    finishMatches := fun _ => false }

theorem C11_oracle_can_avoid_not_terminal_exact :
    loopGraph.WF ∧ loopGraph.canAvoidForever (fun _ => false) = true ∧
    ¬ ∃ p, C11.MaxPathAvoiding loopParams { exp := .eventually, cond := fun _ => false } p := by
  refine ⟨by decide, by decide, ?_⟩
  rintro ⟨p, hp, _, s, hs, hterm⟩
  have hr : loopGraph.toSys.Reach s := Sys.reach_last_of_isPath hp hs
  have hlt : s < 1 := Graph.reach_lt (g := loopGraph) (by decide) hr
  have h0 : s = 0 := by omega
  subst h0
  revert hterm
  decide

/-! ### forests -/

/-- **`isForest` = `Forest` + duplicate-free in-boundary initial states** -/
theorem C11_oracle_forest (hwf : g.WF) : g.isForest = true ↔ g.toSys.initB.Nodup ∧ Forest g.toSys :=
  Graph.isForest_iff g hwf

/-- the direction the oracle relies on: when `isForest` says yes, the hypothesis `Forest` of `C11_forest_exact` holds -/
theorem C11_oracle_forest_sound (hwf : g.WF) (h : g.isForest = true) : Forest g.toSys :=
  ((C11_oracle_forest g hwf).1 h).2

/-- with in-boundary initial states listed once, `isForest` decides `Forest` -/
theorem C11_oracle_forest_of_nodup_init (hwf : g.WF) (hnd : g.toSys.initB.Nodup) :
    g.isForest = true ↔ Forest g.toSys := by
  rw [C11_oracle_forest g hwf]
  exact ⟨fun h => h.2, fun h => ⟨hnd, h⟩⟩

/-- FULL statement that does NOT hold: `g.isForest = true ↔ Forest g.toSys` on every well-formed graph.  Counterexample:
    one terminal state listed twice as initial state.  The only path is `[0]`, so `Forest` holds, but `isForest` answers
    `false`.  (Harmless for verdicts: the oracle merely skips `eventually-missed-on-forest` there.) -/
def dupInitGraph : Graph := { n := 1, init := [0, 0], adj := [[]], bnd := [true] }

theorem C11_oracle_forest_not_complete :
    dupInitGraph.WF ∧ dupInitGraph.isForest = false ∧ Forest dupInitGraph.toSys := by
  refine ⟨by decide, by decide, ?_⟩
  have hpath : ∀ q, dupInitGraph.toSys.IsPath q → q = [0] := by
    rintro q ⟨x, rest, rfl, hx, hc⟩
    have hx0 : x = 0 := by
      have := (Sys.mem_initB.1 hx).1
      simpa [dupInitGraph, Graph.toSys] using this
    subst hx0
    cases rest with
    | nil => rfl
    | cons y ys =>
      exfalso
      have h1 : y ∈ dupInitGraph.toSys.succB 0 := hc.1
      have h2 : dupInitGraph.toSys.succB 0 = [] := by decide
      rw [h2] at h1
      cases h1
  intro q q' hq hq' _
  rw [hpath q hq, hpath q' hq']

/-! ### the oracle lines of the driver, for a parsed case -/

/-- what `oracleC11` computes as `ex` for property `pr` of case `c` -/
theorem C11_oracle_driver_ex (c : Drv.Chk.Case) (hwf : c.g.WF) (pr : GProp) :
    c.g.canAvoidForever (fun s => pr.tbl.getD s false) = true ↔ ∃ p, C11.MaxPathAvoidingSim c.params pr.toProp p :=
  C11_oracle_can_avoid c.g c.params hwf rfl (fun _ _ h => h) pr.toProp

/-- the guard of `eventually-missed-on-forest`: `isForest && ex` implies the right-hand side of `C11_forest_exact` -/
theorem C11_oracle_driver_missed (c : Drv.Chk.Case) (hwf : c.g.WF) (pr : GProp)
    (hf : c.g.isForest = true) (hex : c.g.canAvoidForever (fun s => pr.tbl.getD s false) = true) :
    Forest c.params.M ∧ ∃ p, C11.MaxPathAvoiding c.params pr.toProp p := by
  have hF : Forest c.params.M := C11_oracle_forest_sound c.g hwf hf
  exact ⟨hF, (C11_oracle_can_avoid_on_forest c.g c.params hwf rfl hF pr.toProp).1 hex⟩

/-- the guard of `eventually-false-alarm`: `!ex` implies that no maximal avoiding path exists, of either kind -/
theorem C11_oracle_driver_false_alarm (c : Drv.Chk.Case) (hwf : c.g.WF) (pr : GProp)
    (hex : c.g.canAvoidForever (fun s => pr.tbl.getD s false) = false) :
    (¬ ∃ p, C11.MaxPathAvoidingSim c.params pr.toProp p) ∧ ¬ ∃ p, C11.MaxPathAvoiding c.params pr.toProp p := by
  constructor
  · intro h
    have := (C11_oracle_driver_ex c hwf pr).2 h
    rw [hex] at this; cases this
  · intro h
    have := C11_oracle_can_avoid_terminal_complete c.g c.params hwf rfl pr.toProp h
    have hex' : c.g.canAvoidForever pr.toProp.cond = false := hex
    rw [hex'] at this; cases this

/-! ### Non-vacuity on the 5-state example graph of `Props/C01.lean` (self-loop, join, cycle, ignored action, two initial
states, a boundary): it is well-formed, and each oracle function takes both kinds of values on it. -/

example : C01.exGraph.WF := by decide
example : C01.exGraph.reachList = [0, 3, 1, 2] ∧
    (C01.exGraph.closeStep C01.exGraph.reachList).all C01.exGraph.reachList.contains = true := by decide
example : C01.exGraph.distOf 0 = some 0 ∧ C01.exGraph.distOf 3 = some 0 ∧ C01.exGraph.distOf 1 = some 1 ∧
    C01.exGraph.distOf 2 = some 1 ∧ C01.exGraph.distOf 4 = none := by decide
/-- `(= 1)` can be avoided forever (`0 → 2 → 2 …`), so can `(= 3)` (same lasso); `(∈ {0, 3})` cannot (both initial states
    satisfy it), nor can `(∈ {2, 3})` (from `0` every step leads into it after at most two transitions). -/
example : C01.exGraph.canAvoidForever (fun s => s == 1) = true ∧
    C01.exGraph.canAvoidForever (fun s => s == 0 || s == 3) = false ∧
    C01.exGraph.canAvoidForever (fun s => s == 3 || s == 2) = false ∧
    C01.exGraph.canAvoidForever (fun s => s == 3) = true := by decide
example : C01.exGraph.isForest = false := by decide
/-- a forest with two roots, a terminal leaf and an out-of-boundary target; and the join graph of C13 is not one -/
def forestGraph : Graph :=
  { n := 5, init := [0, 3], adj := [[some 1, some 2, some 1], [], [some 4, none]], bnd := [true, true, true, true, false] }
example : forestGraph.WF ∧ forestGraph.isForest = true ∧ forestGraph.canAvoidForever (fun s => s == 1) = true ∧
    forestGraph.canAvoidForever (fun s => s == 0 || s == 3) = false ∧ forestGraph.distOf 2 = some 1 := by decide
example : C13.exGraph.WF ∧ C13.exGraph.isForest = false ∧ C13.exGraph.distOf 4 = some 2 := by decide

/-! ### Why `Graph.WF` matters: the `o-chk` command itself tests only the fixpoint condition.  On an ill-formed graph
(a state number `≥ g.n`) that condition can hold while `canAvoidForever` is wrong: here `[0]` is a terminal path avoiding
the condition, yet the answer is `false`.  (The model command `chk` answers `ill-formed-graph` for such input, and the
harness only generates graphs whose states are `0 … n-1`.) -/
def illGraph : Graph := { n := 0, init := [0], adj := [[]], bnd := [true] }
example : ¬ illGraph.WF ∧ (illGraph.closeStep illGraph.reachList).all illGraph.reachList.contains = true ∧
    illGraph.isPathB [0] = true ∧ illGraph.succB 0 = [] ∧ illGraph.canAvoidForever (fun _ => false) = false := by decide

end SR.COracle
