/-! # C14 — property theorems (stub: nothing stated yet) -/
namespace SR.C14
end SR.C14
