import SR.Proofs.SemSC
import SR.Proofs.SemBrute
import SR.Proofs.SemObjects
/-!
# C14 — the sequential-consistency tester decides sequential consistency exactly

Property theorems only. Model: `SR/Sem/SeqCons.lean` (`SCTester`, the literal transcription of
sequential_consistency.rs) — tied to the generic `Tester false` by `SR/Proofs/SemSC.lean`.
Declarative side: `IsSeqCons` = `IsLinearization` without the real-time conjunct (`SR/Sem/Spec.lean`).
-/
namespace SR.C14
open SR.Sem SR.Sem.AMap

variable {S Op Ret : Type} (spec : SeqSpec S Op Ret) (s0 : S)

/-- any serialization the tester returns is a sequentially consistent one -/
theorem C14_sound (hlaw : spec.Lawful) (es : List (Event Op Ret)) (l : List (Op × Ret))
    (h : SCTester.serializedHistory spec (SCTester.record s0 es) = some l) : IsSeqCons spec s0 es l := by
  rw [SCTester.serializedHistory_record] at h
  exact tester_sound hlaw s0 es l h

/-- if a well-formed history has a sequentially consistent serialization the search finds one -/
theorem C14_complete (hlaw : spec.Lawful) (es : List (Event Op Ret)) (hwf : WellFormed es)
    (h : ∃ l, IsSeqCons spec s0 es l) : (SCTester.serializedHistory spec (SCTester.record s0 es)).isSome = true := by
  obtain ⟨l, hl⟩ := h
  rw [SCTester.serializedHistory_record]
  exact tester_complete hlaw s0 es hwf l hl

theorem C14_consistent_iff (hlaw : spec.Lawful) (es : List (Event Op Ret)) (hwf : WellFormed es) :
    SCTester.isConsistent spec (SCTester.record s0 es) = true ↔ ∃ l, IsSeqCons spec s0 es l := by
  unfold SCTester.isConsistent
  constructor
  · intro h
    cases hs : SCTester.serializedHistory spec (SCTester.record s0 es) with
    | none => rw [hs] at h; cases h
    | some l => exact ⟨l, C14_sound spec s0 hlaw es l hs⟩
  · exact C14_complete spec s0 hlaw es hwf

/-- a linearization is in particular sequentially consistent (drop the real-time conjunct) -/
theorem C14_linearization_is_seqcons (es : List (Event Op Ret)) (l : List (Op × Ret))
    (h : IsLinearization spec s0 es l) : IsSeqCons spec s0 es l := by
  obtain ⟨ids, h1, h2, h3, h4, h5⟩ := h
  refine ⟨ids, h1, h2, h3, ?_, h5⟩
  refine h4.imp ?_
  intro a b hn hm
  rcases hm with hm | ⟨hf, _⟩
  · exact hn (Or.inl hm)
  · cases hf

/-- every history accepted by the linearizability tester is accepted by this one -/
theorem C14_lin_implies_sc (hlaw : spec.Lawful) (es : List (Event Op Ret))
    (h : Tester.isConsistent spec (Tester.record true s0 es) = true) :
    SCTester.isConsistent spec (SCTester.record s0 es) = true := by
  unfold Tester.isConsistent at h
  cases hs : Tester.serializedHistory spec (Tester.record true s0 es) with
  | none => rw [hs] at h; cases h
  | some l =>
    have hl := tester_sound hlaw s0 es l hs
    have hwf : WellFormed es := by
      apply (record_valid_iff (rt := true) s0 es).1
      cases hv : (Tester.record true s0 es).valid with
      | true => rfl
      | false => simp [Tester.serializedHistory, hv] at hs
    exact (C14_consistent_iff spec s0 hlaw es hwf).2 ⟨l, C14_linearization_is_seqcons spec s0 es l hl⟩

/-- every call on a well-formed history returns `Ok` -/
theorem C14_wellformed_ok (es : List (Event Op Ret)) (hwf : WellFormed es) :
    SCTester.results (SCTester.new s0) es = List.replicate es.length Res.ok := by
  rw [SCTester.results_record]; exact results_wellFormed s0 es hwf

/-- ill-formed histories: `Ok` up to the first inadmissible event, the matching error there,
    "earlier history was invalid" ever after; inconsistent, no serialization, whatever follows -/
theorem C14_illformed (p q : List (Event Op Ret)) (e : Event Op Ret) (hp : WellFormed p) (he : ¬ Admissible p e) :
    SCTester.results (SCTester.new s0) (p ++ e :: q) =
      List.replicate p.length Res.ok ++ errOf e :: List.replicate q.length Res.errEarlier ∧
    SCTester.isConsistent spec (SCTester.record s0 (p ++ e :: q)) = false ∧
    SCTester.serializedHistory spec (SCTester.record s0 (p ++ e :: q)) = none := by
  have hn : SCTester.serializedHistory spec (SCTester.record s0 (p ++ e :: q)) = none := by
    rw [SCTester.serializedHistory_record]
    exact tester_illformed_none (rt := false) spec s0 (p ++ e :: q) (wellFormed_not_of_split he)
  refine ⟨?_, by unfold SCTester.isConsistent; rw [hn]; rfl, hn⟩
  rw [SCTester.results_record]
  exact (illformed_record s0 hp he).2

/-- an ill-formed history has a first inadmissible event (so `C14_illformed` always applies) -/
theorem C14_illformed_split (es : List (Event Op Ret)) (h : ¬ WellFormed es) :
    ∃ p e q, es = p ++ e :: q ∧ WellFormed p ∧ ¬ Admissible p e := by
  rcases exists_first_illformed es with h' | h'
  · exact absurd h' h
  · exact h'

/-- the validity flag is exactly well-formedness -/
theorem C14_valid_iff (es : List (Event Op Ret)) : (SCTester.record s0 es).valid = true ↔ WellFormed es := by
  have : (SCTester.record s0 es).valid = (Tester.record false s0 es).valid := by
    rw [← SCTester.embed_record]; rfl
  rw [this]; exact record_valid_iff s0 es

/-- `len` = completed + in-flight operations = invocation events -/
theorem C14_len (es : List (Event Op Ret)) (hwf : WellFormed es) :
    (SCTester.record s0 es).len = (es.filter isInv).length := by
  rw [SCTester.len_record_eq]; exact len_eq s0 es hwf

/-- Testers are plain values: recording is a fold over the events, so the tester obtained by
    extending a copy depends on the copy alone and the original `record s0 es` is whatever it was.
    (Immediate in the model — persistent values cannot alias; that is why the implementation side of
    C14 checks clone-and-extend directly.) -/
theorem C14_value_semantics (es es' : List (Event Op Ret)) :
    SCTester.record s0 (es ++ es') = es'.foldl (fun T e => (SCTester.step T e).1) (SCTester.record s0 es) ∧
    Tester.record true s0 (es ++ es') = es'.foldl (fun T e => (Tester.step true T e).1) (Tester.record true s0 es) := by
  constructor
  · simp [SCTester.record, List.foldl_append]
  · simp [Tester.record, List.foldl_append]

/-- the run-time oracle's definition check decides `IsSerializationOf false` (= the witness form of `IsSeqCons`) -/
theorem C14_oracle_decides [DecidableEq Op] [DecidableEq Ret] (es : List (Event Op Ret)) (ids : List OpId)
    (l : List (Op × Ret)) :
    checkSer false spec s0 es ids l = true ↔ IsSerializationOf false spec s0 es ids l :=
  checkSer_iff false spec s0 es ids l

/-! ## non-vacuity -/
section examples
/-- Push(10) completed, then Pop returning None: sequentially consistent, not linearizable -/
def h2 : List (Event (VecOp Nat) (VecRet Nat)) :=
  [.inv 0 (.push 10), .ret 0 .pushOk, .inv 1 .pop, .ret 1 (.popOk none)]

example : SCTester.serializedHistory (vec Nat) (SCTester.record [] h2) = some [(.pop, .popOk none), (.push 10, .pushOk)] := by
  decide
example : IsSeqCons (vec Nat) [] h2 [(.pop, .popOk none), (.push 10, .pushOk)] :=
  C14_sound (vec Nat) [] (vec_lawful Nat) h2 _ (by decide)
example : Tester.isConsistent (vec Nat) (Tester.record true [] h2) = false := by decide
example : WellFormed h2 := (C14_valid_iff ([] : List Nat) h2).1 (by decide)

/-- a return without invocation -/
example : SCTester.results (SCTester.new (0 : Nat))
    ([.ret 0 .writeOk, .inv 0 .read] : List (Event (RegOp Nat) (RegRet Nat))) = [Res.errNoInFlight, Res.errEarlier] := by
  decide
end examples

end SR.C14
