/-! # C01 — property theorems (stub: nothing stated yet) -/
namespace SR.C01
end SR.C01
