import SR.Proofs.Checker.Once
import SR.Checker.Sched
import SR.Checker.Graph
/-!
# C01 — exhaustive checkers evaluate exactly the reachable in-boundary state space

Property theorems only.  Model: `SR/Checker/Machine.lean` (one machine for bfs.rs, dfs.rs, on_demand.rs and
any number of worker threads; every schedule / queue discipline / interleaving is a `List Choice`), helper
invariants in `SR/Proofs/Checker/{Sound,Complete,Once}.lean`.

`run P cs` is the machine state after the choices `cs`; `Quiescent` = nothing pending and nobody working
(`join` has returned); `early = false` = no job was ever dropped unexpanded (no depth limit hit, not everything
discovered, no stop).  `visitedStates` = last states of the paths shown to the visitor = the evaluated states;
`gen.length` = `unique_state_count`; `stateCount` = `state_count`.
The single-threaded executables are schedulers over the same machine (`SR/Checker/Sched.lean`), so each
theorem applies to them verbatim (`C01_*_single`).
-/
namespace SR.C01
open SR SR.Checker

variable {σ κ α : Type} [DecidableEq κ] (P : Params σ κ α)

/-- The visitor is only ever shown real in-boundary paths (start in an initial state, follow model
    transitions, stay inside the boundary) — for every schedule, stop reason and race. -/
theorem C01_sound (cs : List Choice) : ∀ p ∈ (run P cs).visits, P.M.IsPath p :=
  (sinv_run (P := P) cs).vis

/-- Every evaluated state is the end of the path shown for it, and is reachable. -/
theorem C01_evaluated_reachable (cs : List Choice) :
    ∀ u ∈ visitedStates (run P cs), ∃ p ∈ (run P cs).visits, p.getLast? = some u ∧ P.M.IsPath p ∧ P.M.Reach u := by
  intro u hu
  simp only [visitedStates, List.mem_filterMap] at hu
  obtain ⟨p, hp, hl⟩ := hu
  have hpath := C01_sound P cs p hp
  exact ⟨p, hp, hl, hpath, Sys.reach_last_of_isPath hpath hl⟩

/-- **Exactness.**  When a check finishes (`Quiescent`) without any early-exit condition, and the state
    identity is injective on the reachable states (no fingerprint collision), then
    (1) the evaluated states are exactly the reachable in-boundary states, and
    (2) the generated keys are duplicate-free and are exactly the keys of the reachable states, so
        `unique_state_count` is the size of that set. -/
theorem C01_exact (hinj : ∀ a b, P.M.Reach a → P.M.Reach b → P.key a = P.key b → a = b)
    (cs : List Choice) (hq : Quiescent (run P cs)) (he : (run P cs).early = false) :
    (∀ t, P.M.Reach t ↔ t ∈ visitedStates (run P cs)) ∧
    (run P cs).gen.Nodup ∧ (∀ k, k ∈ (run P cs).gen ↔ ∃ t, P.M.Reach t ∧ P.key t = k) := by
  have hcomp := complete_of_quiescent (P := P) Eq hinj (fun _ _ _ h1 h2 => h1.trans h2)
    (fun a b hab a' ha' => ⟨a', hab ▸ ha', rfl⟩) cs hq he
  have hn := ninv_run (P := P) cs
  have hc := cinv_run (P := P) cs he
  have h1 : ∀ t, P.M.Reach t ↔ t ∈ visitedStates (run P cs) := by
    intro t
    constructor
    · intro ht
      obtain ⟨u, hu, rfl⟩ := hcomp t ht
      exact hn.actVis _ (List.mem_append_right _ hu)
    · intro ht
      obtain ⟨_, _, _, _, hr⟩ := C01_evaluated_reachable P cs t ht
      exact hr
  refine ⟨h1, hn.genNodup, ?_⟩
  intro k
  constructor
  · intro hk
    obtain ⟨u, hu, rfl⟩ := hc.genJob k hk
    rw [mem_jobStates, hq.1, hq.2] at hu
    simp at hu
    exact ⟨u, hc.doneReach u hu, rfl⟩
  · rintro ⟨t, ht, rfl⟩
    exact hn.inGen t (List.mem_append_left _ ((h1 t).1 ht))

/-- Each state is evaluated at most once, given initial states with distinct identities. -/
theorem C01_once (hnd : (P.M.initB.map P.key).Nodup) (cs : List Choice) :
    ((visitedStates (run P cs)).map P.key).Nodup ∧ (visitedStates (run P cs)).Nodup := by
  have h := ((ninv_run (P := P) cs).once hnd)
  rw [List.map_append] at h
  have h1 := (List.nodup_append.1 h).1
  refine ⟨h1, ?_⟩
  exact List.Pairwise.of_map P.key (fun a b hne hab => hne (congrArg P.key hab)) h1

/-- `unique_state_count ≤ state_count`, always. -/
theorem C01_counts (cs : List Choice) : (run P cs).gen.length ≤ (run P cs).stateCount :=
  (ninv_run (P := P) cs).count

/-- Symmetry-reduced form (also the general form): with a key that identifies only `R`-related states, where
    `R` is transitive and a simulation, every reachable state has an `R`-related evaluated state. -/
theorem C01_exact_modulo (R : σ → σ → Prop)
    (hkey : ∀ a b, P.M.Reach a → P.M.Reach b → P.key a = P.key b → R a b)
    (htrans : ∀ a b c, R a b → R b c → R a c)
    (hsim : ∀ a b, R a b → ∀ a' ∈ P.M.succB a, ∃ b' ∈ P.M.succB b, R a' b')
    (cs : List Choice) (hq : Quiescent (run P cs)) (he : (run P cs).early = false) :
    ∀ t, P.M.Reach t → ∃ u ∈ visitedStates (run P cs), R t u := by
  intro t ht
  obtain ⟨u, hu, hr⟩ := complete_of_quiescent (P := P) R hkey htrans hsim cs hq he t ht
  exact ⟨u, (ninv_run (P := P) cs).actVis _ (List.mem_append_right _ hu), hr⟩

/-! ### The single-threaded executables are instances -/

theorem C01_exact_single (d : Discipline) (fuel : Nat)
    (hinj : ∀ a b, P.M.Reach a → P.M.Reach b → P.key a = P.key b → a = b)
    (hq : Quiescent (runSingle P d fuel)) (he : (runSingle P d fuel).early = false) :
    ∀ t, P.M.Reach t ↔ t ∈ visitedStates (runSingle P d fuel) :=
  (C01_exact P hinj _ hq he).1

/-! ### Non-vacuity: a concrete 5-state graph with a self-loop, a join, a cycle, an ignored action, two
initial states and a boundary; the BFS and DFS schedulers reach quiescence without early exit. -/

def exGraph : Graph :=
  { n := 5, init := [0, 3],
    adj := [[some 1, some 2], [some 3, none], [some 3, some 2], [some 0, some 4], []],
    bnd := [true, true, true, true, false] }

def exParams : Params Nat Nat Nat :=
  { M := exGraph.toSys, props := [{ exp := .always, cond := fun _ => true }], key := id, cfg := {},
    finishMatches := fun d => d.length == 1 }

example : (runSingle exParams .bfs 200).frontier.length = 0 ∧ (runSingle exParams .bfs 200).active.length = 0 ∧
    (runSingle exParams .bfs 200).early = false ∧ (runSingle exParams .bfs 200).gen = [0, 3, 1, 2] := by decide
example : (runSingle exParams .dfs 200).frontier.length = 0 ∧ (runSingle exParams .dfs 200).active.length = 0 ∧
    (runSingle exParams .dfs 200).early = false ∧ (runSingle exParams .dfs 200).gen.length = 4 := by decide

end SR.C01
