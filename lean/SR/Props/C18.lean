/-! # C18 — property theorems (stub: nothing stated yet) -/
namespace SR.C18
end SR.C18
