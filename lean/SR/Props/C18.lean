import SR.Proofs.SemObjects
import SR.Proofs.SemRegister
/-!
# C18 — reference objects and the register harness yield well-formed, faithful histories

Property theorems only. Models: `SR/Sem/SeqSpec.lean`, `SR/Sem/Objects.lean` (register.rs,
write_once_register.rs, vec.rs with their overridden `is_valid_step`), `SR/Sem/RegisterClient.lean`
(actor/register.rs, actor/write_once_register.rs clients + hooks + the delivery rule of actor/model.rs).

Reading of "including the resulting object state": required when the step is accepted. After a
rejected step the optimised implementations leave the object in a state that differs from what
`invoke`-then-compare would leave (`C18_rejected_state_differs`); `is_valid_history` short-circuits
and both testers drop the object after a rejection, so that state is unobservable through the crate.
-/
namespace SR.C18
open SR.Sem

section objects
variable {V : Type} [DecidableEq V]

/-! ## `is_valid_step` = invoke and compare (verdict) -/
theorem C18_step_verdict_register (s : V) (op : RegOp V) (r : RegRet V) :
    ((register V).isValidStep s op r).1 = decide (((register V).invoke s op).2 = r) := by
  have := (register_lawful V).verdict s op r
  rw [Bool.eq_iff_iff]; simpa using this

theorem C18_step_verdict_woRegister (s : Option V) (op : WOOp V) (r : WORet V) :
    ((woRegister V).isValidStep s op r).1 = decide (((woRegister V).invoke s op).2 = r) := by
  have := (woRegister_lawful V).verdict s op r
  rw [Bool.eq_iff_iff]; simpa using this

theorem C18_step_verdict_vec (s : List V) (op : VecOp V) (r : VecRet V) :
    ((vec V).isValidStep s op r).1 = decide (((vec V).invoke s op).2 = r) := by
  have := (vec_lawful V).verdict s op r
  rw [Bool.eq_iff_iff]; simpa using this

/-! ## an accepted step leaves the object `invoke` leaves -/
theorem C18_step_state_register (s : V) (op : RegOp V) (r : RegRet V)
    (h : ((register V).isValidStep s op r).1 = true) :
    ((register V).isValidStep s op r).2 = ((register V).invoke s op).1 := (register_lawful V).state s op r h

theorem C18_step_state_woRegister (s : Option V) (op : WOOp V) (r : WORet V)
    (h : ((woRegister V).isValidStep s op r).1 = true) :
    ((woRegister V).isValidStep s op r).2 = ((woRegister V).invoke s op).1 := (woRegister_lawful V).state s op r h

theorem C18_step_state_vec (s : List V) (op : VecOp V) (r : VecRet V)
    (h : ((vec V).isValidStep s op r).1 = true) :
    ((vec V).isValidStep s op r).2 = ((vec V).invoke s op).1 := (vec_lawful V).state s op r h

/-! ## `is_valid_history` accepts exactly the sequences obtained by invoking from the initial object
(and then leaves the object those invocations leave) -/
theorem C18_history_register (s₀ : V) (l : List (RegOp V × RegRet V)) :
    (register V).isValidHistory s₀ l = true ↔ l = (register V).trace s₀ (l.map (·.1)) :=
  (register_lawful V).validHistory_iff s₀ l

theorem C18_history_woRegister (s₀ : Option V) (l : List (WOOp V × WORet V)) :
    (woRegister V).isValidHistory s₀ l = true ↔ l = (woRegister V).trace s₀ (l.map (·.1)) :=
  (woRegister_lawful V).validHistory_iff s₀ l

theorem C18_history_vec (s₀ : List V) (l : List (VecOp V × VecRet V)) :
    (vec V).isValidHistory s₀ l = true ↔ l = (vec V).trace s₀ (l.map (·.1)) :=
  (vec_lawful V).validHistory_iff s₀ l

/-- the same for every spec that keeps the trait's default `is_valid_step`, and for every spec whose
    override satisfies the contract (`Lawful` = the two `C18_step_*` clauses) -/
theorem C18_history {S Op Ret : Type} (spec : SeqSpec S Op Ret) (h : spec.Lawful) (s₀ : S) (l : List (Op × Ret)) :
    (spec.isValidHistory s₀ l = true ↔ l = spec.trace s₀ (l.map (·.1))) ∧
    (spec.isValidHistory s₀ l = true → (spec.validHistory s₀ l).2 = spec.run s₀ (l.map (·.1))) :=
  ⟨h.validHistory_iff s₀ l, h.validHistory_state s₀ l⟩

theorem C18_default_step_lawful {S Op Ret : Type} [DecidableEq Ret] (inv : S → Op → S × Ret) :
    (SeqSpec.ofInvoke inv).Lawful := SeqSpec.ofInvoke_lawful inv

end objects

/-! ## after a *rejected* step the optimised overrides and invoke-then-compare leave different objects
(informational; unobservable through `is_valid_history` and the testers) -/
theorem C18_rejected_state_differs :
    ((register Nat).isValidStep 0 (.write 1) (.readOk 0)).1 = false ∧
    ((register Nat).isValidStep 0 (.write 1) (.readOk 0)).2 ≠ ((register Nat).invoke 0 (.write 1)).1 := by
  decide

/-! non-vacuity -/
example : (vec Nat).isValidHistory [] [(.push 10, .pushOk), (.pop, .popOk (some 10)), (.len, .lenOk 0)] = true := by decide
example : (vec Nat).isValidHistory [] [(.push 10, .pushOk), (.pop, .popOk none)] = false := by decide
example : (woRegister Nat).isValidHistory none [(.write 1, .writeOk), (.write 2, .writeFail), (.read, .readOk (some 1))] = true := by decide
example : ((vec Nat).isValidStep [1, 2] .pop (.popOk (some 1))) = (false, [1]) := by decide

/-! ## the register harness

`SR/Sem/RegisterClient.lean`: clients as in actor/register.rs / actor/write_once_register.rs, the
hooks `record_invocations` / `record_returns`, the delivery rule of actor/model.rs (`deliverClient`),
and `Step`: the harness with an *arbitrary environment* in place of servers and network, which may
answer a request id only after the client sent it and only once; replies are delivered in any order,
may be lost and — on a duplicating network — redelivered. `Reach cfg I h0 s`: `s` is reachable
(from the state in which no client has started yet; `C18_init_reachable`: the executable `init`, i.e.
what `init_states` computes, is reached by `start` steps).

The theorems hold for every history type with a `HistView` (validity flag, in-flight operation and
completed operations per thread, `on_invoke`/`on_return` acting on them as specified); the four
instances `viewRegLin`, `viewRegSC`, `viewWoLin`, `viewWoSC` are the two testers on `Register` /
`WORegister` with `valid = is_valid_history`, `inflight t = in_flight_by_thread[t]`,
`done t = history_by_thread[t]` (operation and return of each entry). -/
section harness
open SR.Sem.RC SR.Sem.AMap
variable {H Op Ret : Type} {cfg : Cfg} {I : Iface H Op Ret} (V : HistView I) {h0 : H}

/-- hypotheses on the initial history: a fresh tester -/
structure Fresh (V : HistView I) (h0 : H) : Prop where
  good : V.good h0
  valid : V.valid h0 = true
  empty : ∀ t, V.inflight h0 t = none ∧ V.done h0 t = []

/-- the recorded history stays well-formed: the tester's validity flag never drops -/
theorem C18_wellformed (hcfg : cfg.Ok) (hf : Fresh V h0) {s : HSt H} (hr : Reach cfg I h0 s) :
    V.valid s.sys.hist = true :=
  (reach_inv V hcfg hf.good hf.valid hf.empty hr).valid

/-- each client has an operation outstanding exactly when the tester has an in-flight operation of
    that thread; a thread that is no (started) client has none -/
theorem C18_one_outstanding (hcfg : cfg.Ok) (hf : Fresh V h0) {s : HSt H} (hr : Reach cfg I h0 s) (c : Nat) :
    (∀ st, find? c s.sys.clients = some st →
      (st.awaiting.isSome = true ↔ (V.inflight s.sys.hist c).isSome = true)) ∧
    (find? c s.sys.clients = none → V.inflight s.sys.hist c = none) := by
  have hI := reach_inv V hcfg hf.good hf.valid hf.empty hr
  constructor
  · intro st hst
    have hc := hI.client c st hst
    cases ha : st.awaiting with
    | none => rw [hc.idle ha]; exact Iff.rfl
    | some r => simp [(hc.busy r ha).2.2]
  · intro hn; exact (hI.other c hn).infl

/-- the request ids a client has used are `1·index, 2·index, …` (as many as it has sent), the
    outstanding one is the last of them, and they are pairwise distinct because
    `index ≥ server_count ≥ 1` -/
theorem C18_fresh_ids (hcfg : cfg.Ok) (hf : Fresh V h0) {s : HSt H} (hr : Reach cfg I h0 s) (c : Nat) (st : CState)
    (hst : find? c s.sys.clients = some st) :
    ridsOf c s.log = (List.range (if st.awaiting.isSome then st.opCount else st.opCount - 1)).map (fun j => (j + 1) * c) ∧
    (ridsOf c s.log).Nodup ∧ 1 ≤ cfg.nServers ∧ cfg.nServers ≤ c ∧
    (∀ r, st.awaiting = some r → r = st.opCount * c ∧ (ridsOf c s.log).getLast? = some r) := by
  have hI := reach_inv V hcfg hf.good hf.valid hf.empty hr
  have hc := hI.client c st hst
  have hc1 : 1 ≤ c := Nat.le_trans hcfg.servers hc.idx
  refine ⟨hc.rids, ?_, hcfg.servers, hc.idx, ?_⟩
  · rw [hc.rids]
    generalize (if st.awaiting.isSome then st.opCount else st.opCount - 1) = n
    induction n with
    | zero => simp
    | succ n ih =>
      rw [List.range_succ, List.map_append, List.nodup_append]
      refine ⟨ih, by simp, ?_⟩
      intro a ha b hb
      simp only [List.map_cons, List.map_nil, List.mem_singleton] at hb
      simp only [List.mem_map, List.mem_range] at ha
      obtain ⟨j, hj, rfl⟩ := ha
      subst hb
      intro hab
      have := Nat.eq_of_mul_eq_mul_right (by omega) hab
      omega
  · intro r ha
    obtain ⟨h1, h2, _⟩ := hc.busy r ha
    refine ⟨h1, ?_⟩
    rw [hc.rids, ha]
    simp only [Option.isSome_some, if_true]
    obtain ⟨n, hn⟩ : ∃ n, st.opCount = n + 1 := ⟨st.opCount - 1, by omega⟩
    rw [hn, List.range_succ, List.map_append]
    simp [h1, hn]

/-- the recorded history of every client mirrors its client-visible calls and replies: the completed
    `(op, ret)` pairs are the `Put`/`Get` it sent paired with the `PutOk`/`PutFail`/`GetOk` it accepted,
    in order, and the in-flight operation is its unanswered request; other threads have nothing -/
theorem C18_mirror (hcfg : cfg.Ok) (hf : Fresh V h0) {s : HSt H} (hr : Reach cfg I h0 s) (c : Nat) :
    (V.done s.sys.hist c, V.inflight s.sys.hist c) = mirror I cfg.wo c s.log ∧
    ((find? c s.sys.clients).isNone = true → V.done s.sys.hist c = [] ∧ V.inflight s.sys.hist c = none) := by
  have hI := reach_inv V hcfg hf.good hf.valid hf.empty hr
  cases hst : find? c s.sys.clients with
  | some st => exact ⟨(hI.client c st hst).mirr, by simp⟩
  | none =>
    have ho := hI.other c hst
    exact ⟨by rw [ho.mirr, ho.done, ho.infl], fun _ => ⟨ho.done, ho.infl⟩⟩

/-- on an ordered network a delivery the client ignores would still be a step that runs the
    `record_returns` hook — under an at-most-once environment it never happens -/
theorem C18_no_ignored_delivery (hcfg : cfg.Ok) (hf : Fresh V h0) {s : HSt H} (hr : Reach cfg I h0 s)
    {c : Nat} {m : RMsg} {cl : Client} {st : CState} {sys' : RSys H} (hpool : (c, m) ∈ s.pool)
    (hfind : find? c s.sys.clients = some st) (hmsg : cl.onMsg cfg.wo c st m = none) :
    deliverClient I cfg.wo cfg.ordered cl s.sys c m ≠ some sys' :=
  fun hdel => no_ignored V hcfg (reach_inv V hcfg hf.good hf.valid hf.empty hr) hpool hfind hmsg hdel

/-- what `init_states` computes for clients and history is a reachable state of `Step` -/
theorem C18_init_reachable (sys : RSys H) (h : RC.init I h0 cfg.actors = some sys) :
    ∃ s, Reach cfg I h0 s ∧ s.sys = sys ∧ s.pool = [] := init_is_reachable cfg I h0 sys h

/-- the four harness flavours start from a fresh tester -/
theorem C18_fresh_instances (v0 : Nat) (w0 : Option Nat) :
    Fresh viewRegLin (Tester.new v0) ∧ Fresh viewRegSC (SCTester.new v0) ∧
    Fresh viewWoLin (Tester.new w0) ∧ Fresh viewWoSC (SCTester.new w0) :=
  ⟨⟨⟨sorted_nil, sorted_nil⟩, rfl, fun _ => ⟨rfl, rfl⟩⟩, ⟨⟨sorted_nil, sorted_nil⟩, rfl, fun _ => ⟨rfl, rfl⟩⟩,
   ⟨⟨sorted_nil, sorted_nil⟩, rfl, fun _ => ⟨rfl, rfl⟩⟩, ⟨⟨sorted_nil, sorted_nil⟩, rfl, fun _ => ⟨rfl, rfl⟩⟩⟩

end harness

/-! non-vacuity: one server, one client with `put_count = 1`, linearizability tester on `Register`;
the client starts (Put sent, recorded), the environment answers, the reply is delivered. -/
section example_run
open SR.Sem.RC SR.Sem.AMap

def cfg1 : Cfg := { wo := false, ordered := false, dup := false, nServers := 1, clients := [{ putCount := 1, serverCount := 1 }] }

example : cfg1.Ok := ⟨Nat.le_refl 1, by intro c hc; simp [cfg1] at hc; subst hc; rfl, by intro h; cases h⟩

example : (RC.init regLin (Tester.new 63) cfg1.actors).map (fun s => (s.clients, s.hist.inflight)) =
    some ([(1, { awaiting := some 1, opCount := 1 })], [(1, ([], .write 65))]) := by rfl

example : ((RC.init regLin (Tester.new 63) cfg1.actors).bind fun s =>
      deliverClient regLin false false { putCount := 1, serverCount := 1 } s 1 (.putOk 1)).map
      (fun s => (s.clients, s.hist.hist, s.hist.inflight, s.hist.valid)) =
    some ([(1, { awaiting := some 2, opCount := 2 })], [(1, [([], .write 65, .writeOk)])], [(1, ([], .read))], true) := by
  rfl

end example_run

end SR.C18
