import SR.Proofs.SemObjects
/-!
# C18 — reference objects and the register harness yield well-formed, faithful histories

Property theorems only. Models: `SR/Sem/SeqSpec.lean`, `SR/Sem/Objects.lean` (register.rs,
write_once_register.rs, vec.rs with their overridden `is_valid_step`), `SR/Sem/RegisterClient.lean`
(actor/register.rs, actor/write_once_register.rs clients + hooks + the delivery rule of actor/model.rs).

Reading of "including the resulting object state": required when the step is accepted. After a
rejected step the optimised implementations leave the object in a state that differs from what
`invoke`-then-compare would leave (`C18_rejected_state_differs`); `is_valid_history` short-circuits
and both testers drop the object after a rejection, so that state is unobservable through the crate.
-/
namespace SR.C18
open SR.Sem

section objects
variable {V : Type} [DecidableEq V]

/-! ## `is_valid_step` = invoke and compare (verdict) -/
theorem C18_step_verdict_register (s : V) (op : RegOp V) (r : RegRet V) :
    ((register V).isValidStep s op r).1 = decide (((register V).invoke s op).2 = r) := by
  have := (register_lawful V).verdict s op r
  rw [Bool.eq_iff_iff]; simpa using this

theorem C18_step_verdict_woRegister (s : Option V) (op : WOOp V) (r : WORet V) :
    ((woRegister V).isValidStep s op r).1 = decide (((woRegister V).invoke s op).2 = r) := by
  have := (woRegister_lawful V).verdict s op r
  rw [Bool.eq_iff_iff]; simpa using this

theorem C18_step_verdict_vec (s : List V) (op : VecOp V) (r : VecRet V) :
    ((vec V).isValidStep s op r).1 = decide (((vec V).invoke s op).2 = r) := by
  have := (vec_lawful V).verdict s op r
  rw [Bool.eq_iff_iff]; simpa using this

/-! ## an accepted step leaves the object `invoke` leaves -/
theorem C18_step_state_register (s : V) (op : RegOp V) (r : RegRet V)
    (h : ((register V).isValidStep s op r).1 = true) :
    ((register V).isValidStep s op r).2 = ((register V).invoke s op).1 := (register_lawful V).state s op r h

theorem C18_step_state_woRegister (s : Option V) (op : WOOp V) (r : WORet V)
    (h : ((woRegister V).isValidStep s op r).1 = true) :
    ((woRegister V).isValidStep s op r).2 = ((woRegister V).invoke s op).1 := (woRegister_lawful V).state s op r h

theorem C18_step_state_vec (s : List V) (op : VecOp V) (r : VecRet V)
    (h : ((vec V).isValidStep s op r).1 = true) :
    ((vec V).isValidStep s op r).2 = ((vec V).invoke s op).1 := (vec_lawful V).state s op r h

/-! ## `is_valid_history` accepts exactly the sequences obtained by invoking from the initial object
(and then leaves the object those invocations leave) -/
theorem C18_history_register (s₀ : V) (l : List (RegOp V × RegRet V)) :
    (register V).isValidHistory s₀ l = true ↔ l = (register V).trace s₀ (l.map (·.1)) :=
  (register_lawful V).validHistory_iff s₀ l

theorem C18_history_woRegister (s₀ : Option V) (l : List (WOOp V × WORet V)) :
    (woRegister V).isValidHistory s₀ l = true ↔ l = (woRegister V).trace s₀ (l.map (·.1)) :=
  (woRegister_lawful V).validHistory_iff s₀ l

theorem C18_history_vec (s₀ : List V) (l : List (VecOp V × VecRet V)) :
    (vec V).isValidHistory s₀ l = true ↔ l = (vec V).trace s₀ (l.map (·.1)) :=
  (vec_lawful V).validHistory_iff s₀ l

/-- the same for every spec that keeps the trait's default `is_valid_step`, and for every spec whose
    override satisfies the contract (`Lawful` = the two `C18_step_*` clauses) -/
theorem C18_history {S Op Ret : Type} (spec : SeqSpec S Op Ret) (h : spec.Lawful) (s₀ : S) (l : List (Op × Ret)) :
    (spec.isValidHistory s₀ l = true ↔ l = spec.trace s₀ (l.map (·.1))) ∧
    (spec.isValidHistory s₀ l = true → (spec.validHistory s₀ l).2 = spec.run s₀ (l.map (·.1))) :=
  ⟨h.validHistory_iff s₀ l, h.validHistory_state s₀ l⟩

theorem C18_default_step_lawful {S Op Ret : Type} [DecidableEq Ret] (inv : S → Op → S × Ret) :
    (SeqSpec.ofInvoke inv).Lawful := SeqSpec.ofInvoke_lawful inv

end objects

/-! ## after a *rejected* step the optimised overrides and invoke-then-compare leave different objects
(informational; unobservable through `is_valid_history` and the testers) -/
theorem C18_rejected_state_differs :
    ((register Nat).isValidStep 0 (.write 1) (.readOk 0)).1 = false ∧
    ((register Nat).isValidStep 0 (.write 1) (.readOk 0)).2 ≠ ((register Nat).invoke 0 (.write 1)).1 := by
  decide

/-! non-vacuity -/
example : (vec Nat).isValidHistory [] [(.push 10, .pushOk), (.pop, .popOk (some 10)), (.len, .lenOk 0)] = true := by decide
example : (vec Nat).isValidHistory [] [(.push 10, .pushOk), (.pop, .popOk none)] = false := by decide
example : (woRegister Nat).isValidHistory none [(.write 1, .writeOk), (.write 2, .writeFail), (.read, .readOk (some 1))] = true := by decide
example : ((vec Nat).isValidStep [1, 2] .pop (.popOk (some 1))) = (false, [1]) := by decide

end SR.C18
