import SR.Proofs.ActorNetCount
import SR.Proofs.ActorActions
/-!
# C07 — message transport obeys the selected network semantics in every interleaving

Property theorems only. Model: `SR/Actor/Net.lean` (transcription of src/actor/network.rs: the three
representations, `send`, `on_deliver`, `on_drop`, `len`, `iter_all` as the `NetworkIter` state machine,
`iter_deliverable`). An operation sequence `ops : List NetOp` is *valid* from `n₀` (`Net.run n₀ ops = some n`)
when every delivery/drop is of an envelope `iter_deliverable` offers at that point — exactly what the actor
model can do — and no operation panics. All theorems quantify over every initial canonical network and every
valid sequence, i.e. every interleaving of sends, deliveries and drops.
-/
namespace SR.C07
open SR.Actor

/-- messages sent on flow `f`, in order -/
def sentOn (f : Nat × Nat) (ops : List NetOp) : List Nat :=
  ops.filterMap (fun op => match op with | .send e => if flowOf e = f then some e.msg else none | _ => none)

/-- messages delivered or dropped on flow `f`, in order -/
def removedOn (f : Nat × Nat) (ops : List NetOp) : List Nat :=
  ops.filterMap (fun op => match op with
    | .deliver e => if flowOf e = f then some e.msg else none
    | .drop e => if flowOf e = f then some e.msg else none
    | _ => none)

def sentCount (e : Env) (ops : List NetOp) : Nat := (ops.filter (· = NetOp.send e)).length
def deliveredCount (e : Env) (ops : List NetOp) : Nat := (ops.filter (· = NetOp.deliver e)).length
def droppedCount (e : Env) (ops : List NetOp) : Nat := (ops.filter (· = NetOp.drop e)).length

/-- the last send (`true`) or drop (`false`) of envelope `e` in `ops`, if any (deliveries do not count) -/
def lastSD (e : Env) : List NetOp → Option Bool
  | [] => none
  | op :: ops =>
    match lastSD e ops with
    | some b => some b
    | none =>
      match op with
      | .send e' => if e' = e then some true else none
      | .drop e' => if e' = e then some false else none
      | .deliver _ => none

/-- the last delivered envelope -/
def lastDelivered : List NetOp → Option Env
  | [] => none
  | op :: ops =>
    match lastDelivered ops with
    | some e => some e
    | none => match op with | .deliver e => some e | _ => none

/-! ## the trace invariants -/

/-- **Ordered network.** On every flow, what was removed (delivered or dropped, in order) followed by what is
still queued is what was initially queued followed by what was sent, in order. Hence deliveries on a flow
are a prefix-respecting subsequence of the sends in send order, nothing is duplicated, and (with
`C07_views`) only the head of a flow is deliverable. -/
theorem C07_ordered (n₀ n : Net) (ops : List NetOp) (hc : n₀.Canon) (ho : n₀.isOrdered = true)
    (h : Net.run n₀ ops = some n) (f : Nat × Nat) :
    removedOn f ops ++ n.queue f = n₀.queue f ++ sentOn f ops := by
  induction ops generalizing n₀ with
  | nil => simp [Net.run] at h; subst h; simp [removedOn, sentOn]
  | cons op ops ih =>
    obtain ⟨hv, n1, h1, h2⟩ := run_cons.1 h
    have hc1 := canon_apply hc h1
    cases n₀ with
    | dup _ _ => simp [Net.isOrdered] at ho
    | nondup _ => simp [Net.isOrdered] at ho
    | ord flows =>
      cases op with
      | send e =>
        simp only [Net.apply, Option.some.injEq] at h1
        subst h1
        have := ih _ hc1 rfl h2
        rw [queue_send] at this
        by_cases hf : f = flowOf e
        · subst hf
          simpa [removedOn, sentOn, List.filterMap_cons] using this
        · have hf' : ¬ flowOf e = f := fun e' => hf e'.symm
          simpa [removedOn, sentOn, List.filterMap_cons, hf, hf'] using this
      | deliver e =>
        simp only [Net.valid, decide_eq_true_eq] at hv
        simp only [Net.apply, Net.onDeliver] at h1
        obtain ⟨ho1, hq, hother⟩ := ord_remove hc hv h1
        have := ih _ hc1 ho1 h2
        by_cases hf : f = flowOf e
        · subst hf
          rw [hq]
          simpa [removedOn, sentOn, List.filterMap_cons] using this
        · have hf' : ¬ flowOf e = f := fun e' => hf e'.symm
          rw [hother f hf] at this
          simpa [removedOn, sentOn, List.filterMap_cons, hf'] using this
      | drop e =>
        simp only [Net.valid, decide_eq_true_eq] at hv
        simp only [Net.apply, Net.onDrop] at h1
        obtain ⟨ho1, hq, hother⟩ := ord_remove hc hv h1
        have := ih _ hc1 ho1 h2
        by_cases hf : f = flowOf e
        · subst hf
          rw [hq]
          simpa [removedOn, sentOn, List.filterMap_cons] using this
        · have hf' : ¬ flowOf e = f := fun e' => hf e'.symm
          rw [hother f hf] at this
          simpa [removedOn, sentOn, List.filterMap_cons, hf'] using this

/-- **Non-duplicating network.** Copies are conserved: every delivery and every drop consumes exactly one
copy, so each sent (or initially present) copy is delivered at most once. -/
theorem C07_nondup (ms₀ : List (Env × Nat)) (n : Net) (ops : List NetOp)
    (h : Net.run (Net.nondup ms₀) ops = some n) (e : Env) :
    n.count e + deliveredCount e ops + droppedCount e ops = (Net.nondup ms₀).count e + sentCount e ops := by
  induction ops generalizing ms₀ with
  | nil => simp [Net.run] at h; subst h; simp [deliveredCount, droppedCount, sentCount]
  | cons op ops ih =>
    obtain ⟨_, n1, h1, h2⟩ := run_cons.1 h
    cases op with
    | send e' =>
      simp only [Net.apply, Option.some.injEq] at h1
      subst h1
      have := ih _ h2
      have hs := count_send ms₀ e' e
      simp only [Net.send] at hs
      rw [hs] at this
      simp only [deliveredCount, droppedCount, sentCount, List.filter_cons] at this ⊢
      by_cases he : e = e'
      · subst he; simp at this ⊢; omega
      · have : ¬ e' = e := fun x => he x.symm
        simp_all
    | deliver e' =>
      simp only [Net.apply, Net.onDeliver] at h1
      obtain ⟨⟨ms1, rfl⟩, hcount⟩ := nondup_remove h1 e
      have := ih _ h2
      simp only [deliveredCount, droppedCount, sentCount, List.filter_cons] at this ⊢
      by_cases he : e = e'
      · subst he; simp at this hcount ⊢; omega
      · have : ¬ e' = e := fun x => he x.symm
        simp_all
    | drop e' =>
      simp only [Net.apply, Net.onDrop] at h1
      obtain ⟨⟨ms1, rfl⟩, hcount⟩ := nondup_remove h1 e
      have := ih _ h2
      simp only [deliveredCount, droppedCount, sentCount, List.filter_cons] at this ⊢
      by_cases he : e = e'
      · subst he; simp at this hcount ⊢; omega
      · have : ¬ e' = e := fun x => he x.symm
        simp_all

/-- **Duplicating network.** An envelope is in flight iff its last send-or-drop is a send, or it was
initially present and was neither sent nor dropped: deliveries never remove (redelivery is possible), a
dropped envelope is gone until it is sent again. -/
theorem C07_dup (set₀ : List Env) (last₀ : Option Env) (n : Net) (ops : List NetOp)
    (h : Net.run (Net.dup set₀ last₀) ops = some n) (e : Env) :
    e ∈ n.contents ↔ (lastSD e ops = some true ∨ (lastSD e ops = none ∧ e ∈ set₀)) := by
  induction ops generalizing set₀ last₀ with
  | nil => simp [Net.run] at h; subst h; simp [lastSD, Net.contents]
  | cons op ops ih =>
    obtain ⟨_, n1, h1, h2⟩ := run_cons.1 h
    cases op with
    | send e' =>
      simp only [Net.apply, Net.send, Option.some.injEq] at h1
      subst h1
      rw [ih _ _ h2, mem_sins]
      cases hl : lastSD e ops with
      | some b => simp [lastSD, hl]
      | none =>
        by_cases he : e' = e
        · simp [lastSD, hl, he]
        · have : ¬ e = e' := fun x => he x.symm
          simp [lastSD, hl, he, this]
    | deliver e' =>
      simp only [Net.apply, Net.onDeliver, Option.some.injEq] at h1
      subst h1
      rw [ih _ _ h2]
      cases hl : lastSD e ops <;> simp [lastSD, hl]
    | drop e' =>
      simp only [Net.apply, Net.onDrop, Option.some.injEq] at h1
      subst h1
      rw [ih _ _ h2, mem_srem]
      cases hl : lastSD e ops with
      | some b => simp [lastSD, hl]
      | none =>
        by_cases he : e' = e
        · simp [lastSD, hl, he]
        · have : ¬ e = e' := fun x => he x.symm
          simp [lastSD, hl, he, this]

/-- the duplicating network remembers the last delivered envelope -/
theorem C07_dup_last (set₀ : List Env) (last₀ : Option Env) (n : Net) (ops : List NetOp)
    (h : Net.run (Net.dup set₀ last₀) ops = some n) :
    ∃ set, n = Net.dup set ((lastDelivered ops).or last₀) := by
  induction ops generalizing set₀ last₀ with
  | nil => simp [Net.run] at h; subst h; exact ⟨set₀, by simp [lastDelivered]⟩
  | cons op ops ih =>
    obtain ⟨_, n1, h1, h2⟩ := run_cons.1 h
    cases op with
    | send e' =>
      simp only [Net.apply, Net.send, Option.some.injEq] at h1; subst h1
      obtain ⟨s, hs⟩ := ih _ _ h2
      refine ⟨s, ?_⟩
      rw [hs]; cases hl : lastDelivered ops <;> simp [lastDelivered, hl]
    | deliver e' =>
      simp only [Net.apply, Net.onDeliver, Option.some.injEq] at h1; subst h1
      obtain ⟨s, hs⟩ := ih _ _ h2
      refine ⟨s, ?_⟩
      rw [hs]; cases hl : lastDelivered ops <;> simp [lastDelivered, hl]
    | drop e' =>
      simp only [Net.apply, Net.onDrop, Option.some.injEq] at h1; subst h1
      obtain ⟨s, hs⟩ := ih _ _ h2
      refine ⟨s, ?_⟩
      rw [hs]; cases hl : lastDelivered ops <;> simp [lastDelivered, hl]

/-- Canonical form (flows never hold an empty queue, multiset counts are ≥ 1, keys are distinct) holds for
every network built by the constructors and is preserved by every operation sequence. -/
theorem C07_canonical :
    (Net.dup [] none).Canon ∧ (Net.nondup []).Canon ∧ (Net.ord []).Canon ∧
    (∀ (n : Net) (e : Env), n.Canon → (n.send e).Canon) ∧
    (∀ (n₀ n : Net) (ops : List NetOp), n₀.Canon → Net.run n₀ ops = some n → n.Canon) := by
  refine ⟨by simp [Net.Canon], by simp [Net.Canon], by simp [Net.Canon], ?_, ?_⟩
  · intro n e hc; exact canon_send hc e
  · intro n₀ n ops hc h; exact canon_run hc h

/-- `len`, `iter_all` (the `NetworkIter` state machine run to exhaustion) and `iter_deliverable` agree with the
contents: `iter_all` yields exactly the envelopes in flight with multiplicity, `len` is their number,
`iter_deliverable` yields each deliverable envelope (present / a copy left / head of its flow) exactly once. -/
theorem C07_views (n : Net) (hc : n.Canon) :
    n.iterAll = n.contents ∧ n.iterAll.Perm n.contents ∧ n.len = n.contents.length ∧
    (∀ e, e ∈ n.iterDeliverable ↔ n.isHead e) ∧ n.iterDeliverable.Nodup := by
  refine ⟨iterAll_eq_contents hc, by rw [iterAll_eq_contents hc], len_eq_contents_length n,
    mem_iterDeliverable hc, ?_⟩
  cases n with
  | dup set last => exact hc
  | nondup ms => exact hc.2
  | ord flows =>
    simp only [Net.iterDeliverable]
    have hk := hc.2
    clear hc
    induction flows with
    | nil => simp
    | cons p fl ih =>
      simp only [List.map_cons, List.nodup_cons] at hk
      rw [List.filterMap_cons]
      cases hh : p.2.head? with
      | none => simpa [hh] using ih hk.2
      | some m =>
        simp only [hh, Option.map_some]
        refine List.nodup_cons.2 ⟨?_, ih hk.2⟩
        intro hmem
        obtain ⟨p', hp', he⟩ := List.mem_filterMap.1 hmem
        cases hh' : p'.2.head? with
        | none => simp [hh'] at he
        | some m' =>
          simp [hh'] at he
          apply hk.1
          refine List.mem_map.2 ⟨p', hp', ?_⟩
          exact Prod.ext he.1 he.2.1

/-- a delivery (or a drop) the model admits is of an envelope that is in flight -/
theorem C07_deliver_only_if_present (n : Net) (hc : n.Canon) (e : Env)
    (hv : n.valid (.deliver e) = true ∨ n.valid (.drop e) = true) : e ∈ n.contents := by
  have hv : e ∈ n.iterDeliverable := by
    rcases hv with h | h <;> simpa [Net.valid] using h
  have hh := (mem_iterDeliverable hc e).1 hv
  cases n with
  | dup set last => exact hh
  | nondup ms =>
    obtain ⟨c, hl⟩ := hh
    have hm := alookup_mem hl
    have := hc.1 _ hm
    simp only [Net.contents, List.mem_flatMap]
    refine ⟨(e, c), hm, ?_⟩
    have h1 : 1 ≤ c := by simpa using this
    simp [List.mem_replicate]; omega
  | ord flows =>
    obtain ⟨q, hl, hq⟩ := hh
    have hm := alookup_mem hl
    obtain ⟨t, rfl⟩ := List.head?_eq_some_iff.1 hq
    simp only [Net.contents, List.mem_flatMap]
    exact ⟨_, hm, by simp⟩

/-- `Net.count` (membership / multiset count / occurrences in the flow's queue) is the multiplicity of an
envelope in the contents -/
theorem C07_count_contents (n : Net) (hc : n.Canon) (e : Env) : n.contents.count e = n.count e :=
  count_contents hc e

/-- **Loss only by drop.** One valid operation lowers the number of copies of an envelope `x` only if it is a
drop of `x`, or a delivery of `x` on a non-duplicating or ordered network — and then by exactly one copy.
Sends never lower it; a delivery on the duplicating network removes nothing. -/
theorem C07_loss_only_by_drop (n n' : Net) (op : NetOp) (hc : n.Canon) (hv : n.valid op = true)
    (h : n.apply op = some n') (x : Env) (hlt : n'.count x < n.count x) :
    (op = .drop x ∨ (op = .deliver x ∧ n.isDup = false)) ∧ n'.count x + 1 = n.count x := by
  have := count_apply hc hv h x
  cases op with
  | send e => simp only at this; omega
  | deliver e =>
    simp only at this
    by_cases hd : n.isDup = true
    · simp only [hd, if_true] at this; omega
    · simp only [hd, Bool.false_eq_true, if_false] at this
      by_cases hx : x = e
      · subst hx; simp only [if_true] at this
        exact ⟨Or.inr ⟨rfl, by simpa using hd⟩, this⟩
      · simp only [hx, if_false] at this; omega
  | drop e =>
    simp only at this
    by_cases hx : x = e
    · subst hx; simp only [if_true] at this; exact ⟨Or.inl rfl, this⟩
    · simp only [hx, if_false] at this; omega

/-- **Actions of the actor model**: a Deliver is offered exactly for the deliverable envelopes (flow heads /
envelopes with a copy left / present envelopes) whose recipient exists; a Drop is offered exactly for the
deliverable envelopes, and only if the network is lossy. -/
theorem C07_actions {σ η : Type} (sys : ActorSys σ η) (st : St σ η) (hn : st.NetOk sys) (e : Env) :
    (Action.deliver e ∈ actions sys st ↔ st.net.isHead e ∧ e.dst < sys.n) ∧
    (Action.drop e ∈ actions sys st ↔ sys.lossy = true ∧ st.net.isHead e) := by
  rw [mem_actions_iff sys st hn, mem_actions_iff sys st hn]
  simp [enabledSpec, mem_iterDeliverable hn.1]

/-- every network the actor model can reach from a constructor-built one is canonical, so the three views
agree with the contents in every reachable network state -/
theorem C07_views_reachable (n₀ n : Net) (ops : List NetOp) (hc : n₀.Canon) (h : Net.run n₀ ops = some n) :
    n.iterAll = n.contents ∧ n.len = n.contents.length ∧ (∀ e, e ∈ n.iterDeliverable ↔ n.isHead e) := by
  have := C07_views n (canon_run hc h)
  exact ⟨this.1, this.2.2.1, this.2.2.2.1⟩

/-! ## the hypotheses are satisfiable: a concrete non-trivial run on each kind -/

example : Net.run (Net.ord []) [.send ⟨0, 1, 7⟩, .send ⟨0, 1, 8⟩, .deliver ⟨0, 1, 7⟩, .send ⟨0, 1, 7⟩, .drop ⟨0, 1, 8⟩]
    = some (Net.ord [((0, 1), [7])]) := by decide
example : Net.run (Net.ord []) [.send ⟨0, 1, 7⟩, .send ⟨0, 1, 8⟩, .deliver ⟨0, 1, 8⟩] = none := by decide
example : Net.run (Net.nondup []) [.send ⟨0, 1, 7⟩, .send ⟨0, 1, 7⟩, .deliver ⟨0, 1, 7⟩]
    = some (Net.nondup [(⟨0, 1, 7⟩, 1)]) := by decide
example : Net.run (Net.dup [] none) [.send ⟨0, 1, 7⟩, .deliver ⟨0, 1, 7⟩, .deliver ⟨0, 1, 7⟩, .drop ⟨0, 1, 7⟩]
    = some (Net.dup [] (some ⟨0, 1, 7⟩)) := by decide
example : (Net.ord [((0, 1), [7, 8]), ((2, 1), [7])]).iterAll = [⟨0, 1, 7⟩, ⟨0, 1, 8⟩, ⟨2, 1, 7⟩] := by decide
example : (Net.nondup [(⟨0, 1, 7⟩, 2)]).iterAll = [⟨0, 1, 7⟩, ⟨0, 1, 7⟩] := by decide

end SR.C07
