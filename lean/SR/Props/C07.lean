/-! # C07 — property theorems (stub: nothing stated yet) -/
namespace SR.C07
end SR.C07
